/-
  Helper lemmas for the C05 / C06 extensions (Props/C05More.lean, Props/C06Spawn.lean):
  ordered insertion only inserts, `haveGene` needs an existing link, the connect-sensors loop,
  the stage decomposition of `mutateAllNonstructural`, membership after speciation.
  Core Lean only; every lemma holds for every scalar type.
-/
import GoNeat.Model.Epoch

namespace GoNeat.MutateLemmas
open GoNeat Scalar
variable {W : Type}

/-! ### ordered insertion only inserts -/

theorem insertAt_perm {α} (l : List α) (i : Nat) (a : α) : (insertAt l i a).Perm (a :: l) := by
  unfold insertAt
  refine List.perm_middle.trans ?_
  rw [List.take_append_drop]

theorem insertAt_sublist {α} (l : List α) (i : Nat) (a : α) : l.Sublist (insertAt l i a) := by
  unfold insertAt
  have h : (l.take i ++ l.drop i).Sublist (l.take i ++ a :: l.drop i) :=
    List.Sublist.append (List.Sublist.refl _) (List.sublist_cons_self a _)
  rwa [List.take_append_drop] at h

theorem geneInsert_perm (l : List (Gene W)) (x : Gene W) : (geneInsert l x).Perm (x :: l) := insertAt_perm _ _ _
theorem geneInsert_sublist (l : List (Gene W)) (x : Gene W) : l.Sublist (geneInsert l x) := insertAt_sublist _ _ _
theorem mem_geneInsert (l : List (Gene W)) (x y : Gene W) : y ∈ geneInsert l x ↔ y = x ∨ y ∈ l := by
  rw [(geneInsert_perm l x).mem_iff, List.mem_cons]

theorem foldl_geneInsert_perm (added l : List (Gene W)) : (added.foldl geneInsert l).Perm (l ++ added) := by
  induction added generalizing l with
  | nil => simp
  | cons a as ih =>
    simp only [List.foldl_cons]
    refine (ih _).trans ?_
    refine ((geneInsert_perm l a).append_right as).trans ?_
    simpa using (List.perm_middle (a := a) (l₁ := l) (l₂ := as)).symm

theorem foldl_geneInsert_sublist (added l : List (Gene W)) : l.Sublist (added.foldl geneInsert l) := by
  induction added generalizing l with
  | nil => simp
  | cons a as ih => simp only [List.foldl_cons]; exact (geneInsert_sublist l a).trans (ih _)

/-! ### `haveGene` needs a gene with the same endpoints -/

theorem haveGene_false (g : Genome W) (gene : Gene W)
    (h : ∀ y ∈ g.genes, ¬ (y.src = gene.src ∧ y.dst = gene.dst)) : g.haveGene gene = false := by
  have hany : g.genes.any (·.sameLink gene) = false := by
    rw [List.any_eq_false]
    intro y hy hs
    simp only [Gene.sameLink, Bool.and_eq_true, beq_iff_eq] at hs
    exact h y hy ⟨hs.1.1, hs.1.2⟩
  unfold Genome.haveGene
  split <;> split <;> simp [hany]

theorem traitAt_ok (g : Genome W) (i : Int) (tr : Option Int) (h : traitAt g i = .ok tr) :
    ∃ t ∈ g.traits, tr = some t.id := by
  unfold traitAt at h
  split at h
  · cases h
  · split at h
    · cases h
    · rename_i t ht
      cases h
      exact ⟨t, List.mem_of_getElem? ht, rfl⟩

variable [Scalar W]

/-! ### the connect-sensors loop -/

/-- one target: either a gene sensor→target is already there and nothing happens, or exactly one enabled,
    non-recurrent gene sensor→target (trait reference = one of the genome's traits) is inserted.
    The "innovation already in this genome" exit (`none`) is dead: `haveGene` needs a gene with the same
    endpoints, which the `found` test has just excluded. -/
theorem connectOne_spec (sensor output : Node) (g : Genome W) (reg : Reg W) (added : Bool) (rs rs' : List Nat)
    (r : Option (Genome W × Reg W × Bool)) (h : connectOne sensor output g reg added rs = .ok (r, rs')) :
    (r = some (g, reg, added) ∧ ∃ y ∈ g.genes, y.src = sensor.id ∧ y.dst = output.id) ∨
    (∃ (gene : Gene W) (reg1 : Reg W), r = some ({ g with genes := geneInsert g.genes gene }, reg1, true) ∧
      gene.src = sensor.id ∧ gene.dst = output.id ∧ gene.recur = false ∧ gene.en = true ∧
      (∃ t ∈ g.traits, gene.trait = some t.id) ∧
      ∀ y ∈ g.genes, ¬ (y.src = sensor.id ∧ y.dst = output.id)) := by
  unfold connectOne at h
  split at h
  · rename_i hany
    simp only [Except.ok.injEq, Prod.mk.injEq] at h
    obtain ⟨rfl, _⟩ := h
    left
    obtain ⟨y, hy, hc⟩ := List.any_eq_true.mp hany
    simp only [Bool.and_eq_true, beq_iff_eq] at hc
    exact ⟨rfl, y, hy, hc.1, hc.2⟩
  · rename_i hany
    have hno : ∀ y ∈ g.genes, ¬ (y.src = sensor.id ∧ y.dst = output.id) := by
      intro y hy ⟨h1, h2⟩
      apply hany
      exact List.any_eq_true.mpr ⟨y, hy, by simp [h1, h2]⟩
    right
    split at h
    · rename_i inn _
      split at h
      · cases h
      · rename_i tr htr
        simp only at h
        rw [haveGene_false g _ (by simpa using hno)] at h
        simp only [Bool.false_eq_true, ↓reduceIte, Except.ok.injEq, Prod.mk.injEq] at h
        obtain ⟨rfl, _⟩ := h
        exact ⟨_, _, rfl, rfl, rfl, rfl, rfl, traitAt_ok g _ _ htr, hno⟩
    · split at h
      · cases h
      · split at h
        · cases h
        · simp only at h
          split at h
          · cases h
          · rename_i tr htr
            simp only [Except.ok.injEq, Prod.mk.injEq] at h
            obtain ⟨rfl, _⟩ := h
            exact ⟨_, _, rfl, rfl, rfl, rfl, rfl, traitAt_ok g _ _ htr, hno⟩

/-- what the loop over the targets `os` does to a genome: it inserts a list `new` of genes, one for every
    target id that no gene from the sensor reaches yet -/
structure ConnectLoopRel (sensor : Node) (os : List Node) (g g' : Genome W) (reg reg' : Reg W) (added res : Bool) : Prop where
  id : g'.id = g.id
  nodes : g'.nodes = g.nodes
  traits : g'.traits = g.traits
  modules : g'.modules = g.modules
  witness : ∃ new : List (Gene W), g'.genes = new.foldl geneInsert g.genes ∧
    (∀ x ∈ new, x.src = sensor.id ∧ x.recur = false ∧ x.en = true ∧ (∃ t ∈ g.traits, x.trait = some t.id) ∧
        (∃ o ∈ os, o.id = x.dst) ∧ ∀ y ∈ g.genes, ¬ (y.src = sensor.id ∧ y.dst = x.dst)) ∧
    (new.map (·.dst)).Nodup ∧
    (∀ o ∈ os, (∃ y ∈ g.genes, y.src = sensor.id ∧ y.dst = o.id) ∨ o.id ∈ new.map (·.dst)) ∧
    res = (added || !new.isEmpty) ∧ (new = [] → g' = g ∧ reg' = reg)

theorem connectLoop_spec (sensor : Node) (os : List Node) (g g' : Genome W) (reg reg' : Reg W) (added res : Bool)
    (rs rs' : List Nat) (h : connectLoop sensor os g reg added rs = .ok ((g', reg', res), rs')) :
    ConnectLoopRel sensor os g g' reg reg' added res := by
  induction os generalizing g reg added rs with
  | nil =>
    simp only [connectLoop, Except.ok.injEq, Prod.mk.injEq] at h
    obtain ⟨⟨rfl, rfl, rfl⟩, _⟩ := h
    exact ⟨rfl, rfl, rfl, rfl, [], rfl, by simp, by simp, by simp, by simp, fun _ => ⟨rfl, rfl⟩⟩
  | cons o os ih =>
    unfold connectLoop at h
    split at h
    · cases h
    · rename_i rs1 h1
      rcases connectOne_spec _ _ _ _ _ _ _ _ h1 with ⟨hr, _⟩ | ⟨gene, reg1, hr, _⟩ <;> cases hr
    · rename_i g1 reg1 added1 rs1 h1
      rcases connectOne_spec _ _ _ _ _ _ _ _ h1 with ⟨hr, hlinked⟩ | ⟨gene, reg2, hr, hsrc, hdst, hrec, hen, htr, hno⟩
      · simp only [Option.some.injEq, Prod.mk.injEq] at hr
        obtain ⟨rfl, rfl, rfl⟩ := hr
        obtain ⟨i1, i2, i3, i4, new, n1, n2, n3, n4, n5, n6⟩ := ih _ _ _ _ h
        refine ⟨i1, i2, i3, i4, new, n1, ?_, n3, ?_, n5, n6⟩
        · intro x hx
          obtain ⟨a, b, c, d, ⟨o', ho', e⟩, f⟩ := n2 x hx
          exact ⟨a, b, c, d, ⟨o', List.mem_cons_of_mem _ ho', e⟩, f⟩
        · intro o' ho'
          rcases List.mem_cons.mp ho' with rfl | ho'
          · exact .inl hlinked
          · exact n4 o' ho'
      · simp only [Option.some.injEq, Prod.mk.injEq] at hr
        obtain ⟨rfl, rfl, rfl⟩ := hr
        obtain ⟨i1, i2, i3, i4, new, n1, n2, n3, n4, n5, n6⟩ := ih _ _ _ _ h
        simp only at i1 i2 i3 i4 n1 n2 n4
        have hgmem : gene ∈ geneInsert g.genes gene := (mem_geneInsert _ _ _).mpr (.inl rfl)
        refine ⟨i1, i2, i3, i4, gene :: new, by simpa using n1, ?_, ?_, ?_, by simp [n5], by simp⟩
        · intro x hx
          rcases List.mem_cons.mp hx with rfl | hx
          · exact ⟨hsrc, hrec, hen, htr, ⟨o, List.mem_cons_self, hdst.symm⟩, by rw [hdst]; exact hno⟩
          · obtain ⟨a, b, c, d, ⟨o', ho', e⟩, f⟩ := n2 x hx
            exact ⟨a, b, c, d, ⟨o', List.mem_cons_of_mem _ ho', e⟩,
              fun y hy => f y ((mem_geneInsert _ _ _).mpr (.inr hy))⟩
        · simp only [List.map_cons, List.nodup_cons]
          refine ⟨?_, n3⟩
          intro hmem
          obtain ⟨x, hx, hxd⟩ := List.mem_map.mp hmem
          exact (n2 x hx).2.2.2.2.2 gene hgmem ⟨hsrc, hxd.symm⟩
        · intro o' ho'
          rcases List.mem_cons.mp ho' with rfl | ho'
          · exact .inr (by simp [hdst])
          · rcases n4 o' ho' with ⟨y, hy, hys, hyd⟩ | hin
            · rcases (mem_geneInsert _ _ _).mp hy with rfl | hy
              · exact .inr (by simp [hyd])
              · exact .inl ⟨y, hy, hys, hyd⟩
            · exact .inr (by simp [hin])

/-! ### speciation only files the organisms it is given -/

theorem mem_modify_cases {α} (l : List α) (i : Nat) (f : α → α) (a : α) (h : a ∈ l.modify i f) :
    a ∈ l ∨ ∃ b ∈ l, a = f b := by
  induction l generalizing i with
  | nil => simp at h
  | cons x xs ih =>
    cases i with
    | zero =>
      simp only [List.modify_zero_cons, List.mem_cons] at h
      rcases h with rfl | h
      · exact .inr ⟨x, List.mem_cons_self, rfl⟩
      · exact .inl (List.mem_cons_of_mem _ h)
    | succ i =>
      simp only [List.modify_succ_cons, List.mem_cons] at h
      rcases h with rfl | h
      · exact .inl List.mem_cons_self
      · rcases ih i h with h | ⟨b, hb, e⟩
        · exact .inl (List.mem_cons_of_mem _ h)
        · exact .inr ⟨b, List.mem_cons_of_mem _ hb, e⟩

theorem speciateOne_members (o : EpochOpts W) (p p' : Pop W) (org : Org W) (h : speciateOne o p org = .ok p') :
    ∀ s' ∈ p'.species, ∀ x ∈ s'.orgs, x = org ∨ ∃ s ∈ p.species, x ∈ s.orgs := by
  have hnew : ∀ sp : Species W, sp.orgs = [org] →
      ∀ s' ∈ p.species ++ [sp], ∀ x ∈ s'.orgs, x = org ∨ ∃ s ∈ p.species, x ∈ s.orgs := by
    intro sp hsp s' hs' x hx
    rcases List.mem_append.mp hs' with hs' | hs'
    · exact .inr ⟨s', hs', hx⟩
    · simp only [List.mem_singleton] at hs'; subst hs'
      rw [hsp] at hx
      exact .inl (by simpa using hx)
  unfold speciateOne at h
  simp only at h
  split at h
  · cases h; exact hnew _ rfl
  · split at h
    · cases h
    · split at h
      · cases h
        intro s' hs' x hx
        rcases mem_modify_cases _ _ _ _ hs' with hs' | ⟨b, hb, rfl⟩
        · exact .inr ⟨s', hs', hx⟩
        · rcases List.mem_append.mp hx with hx | hx
          · exact .inr ⟨b, hb, hx⟩
          · exact .inl (by simpa using hx)
      · cases h; exact hnew _ rfl

theorem speciateLoop_members (o : EpochOpts W) (p p' : Pop W) (orgs : List (Org W)) (h : speciateLoop o p orgs = .ok p') :
    ∀ s' ∈ p'.species, ∀ x ∈ s'.orgs, x ∈ orgs ∨ ∃ s ∈ p.species, x ∈ s.orgs := by
  induction orgs generalizing p with
  | nil => simp only [speciateLoop, Except.ok.injEq] at h; subst h; exact fun s' hs' x hx => .inr ⟨s', hs', hx⟩
  | cons a as ih =>
    unfold speciateLoop at h
    split at h
    · cases h
    · rename_i p1 h1
      intro s' hs' x hx
      rcases ih p1 h s' hs' x hx with hx | ⟨s, hs, hx⟩
      · exact .inl (List.mem_cons_of_mem _ hx)
      · rcases speciateOne_members o p p1 a h1 s hs x hx with rfl | hold
        · exact .inl List.mem_cons_self
        · exact .inr hold

end GoNeat.MutateLemmas
