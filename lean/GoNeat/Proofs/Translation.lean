/-
  C12: the translation `Network.FastNetworkSolver()` globally.

  Index bookkeeping (Kind A, part 1-4): `orderOf net` = bias ++ input ++ outputs ++ hidden is the list of node indices
  in fast-index order, `idx net j` = position of node `j` in it = `neuronLookup[id of j]` (`lookup_idx`; ids distinct).
  The connection list built by the three `processIncomingConnections` passes is exactly
  `(inputs ++ hidden ++ outputs).flatMap connsOf` with `connsOf i` = the non-bias incoming links of node `i`, in
  `Incoming` order, re-indexed (`procIncoming_TI`, `ofNet_inv`).
  Kind B (exact commutative-semiring arithmetic, part 5): per processed node the folded bias satisfies
  Σ_{connsOf i} sig·w + biasList[idx i] = Σ_{incoming} w·value (from `translation_node`), hence
  `fvalNode (ofNet net) (idx i) = evalNode net i` by induction on rank (`fval_eq_eval`).
  Part 6: the translated network satisfies the hypotheses `FFAll` of the fast-solver theorems.
-/
import GoNeat.Proofs.SolverExact
import GoNeat.Proofs.SolverFF
import GoNeat.Proofs.FastFFAll
import Mathlib.Data.List.Nodup

set_option linter.unusedSectionVars false

namespace GoNeat.Fast
open GoNeat.Solver (Err kindAt)
open GoNeat.SolverSpec

variable {W : Type} [Scalar W]

/-! ### 1. `neuronLookup` -/

theorem lookupId_some (lk : List (Int × Nat)) (id : Int) (v : Nat) (h : lookupId lk id = some v) :
    ∃ k, (k, v) ∈ lk ∧ k = id := by
  induction lk with
  | nil => simp [lookupId] at h
  | cons p rest ih =>
    obtain ⟨k, v'⟩ := p
    unfold lookupId at h
    cases hr : lookupId rest id with
    | some r =>
      rw [hr] at h
      simp only [Option.some.injEq] at h
      subst h
      obtain ⟨k', hk', he⟩ := ih hr
      exact ⟨k', by simp [hk'], he⟩
    | none =>
      rw [hr] at h
      simp only at h
      by_cases hk : (k == id) = true
      · simp only [hk, if_true, Option.some.injEq] at h
        subst h
        exact ⟨k, by simp, by simpa using hk⟩
      · simp [hk] at h

/-- fast-index order of the node indices -/
def orderOf (net : Net W) : List Nat :=
  idxOfKind net Kind.bias ++ idxOfKind net Kind.input ++ net.outputs ++ idxOfKind net Kind.hidden

/-- the `neuronLookup` map as an association list -/
def lkOf (net : Net W) : List (Int × Nat) :=
  (List.range (orderOf net).length).map fun k =>
    ((net.nodes[(orderOf net).getD k 0]?).map (·.id) |>.getD 0, k)

/-- fast index of node `j` -/
def idx (net : Net W) (j : Nat) : Nat := (orderOf net).idxOf j

theorem mem_idxOfKind (net : Net W) (k : Kind) (i : Nat) :
    i ∈ idxOfKind net k ↔ ∃ nd, net.nodes[i]? = some nd ∧ nd.kind = k := by
  unfold idxOfKind
  simp only [List.mem_filter, List.mem_range, beq_iff_eq, Option.map_eq_some_iff]
  constructor
  · rintro ⟨_, nd, h1, h2⟩; exact ⟨nd, h1, h2⟩
  · rintro ⟨nd, h1, h2⟩
    refine ⟨?_, nd, h1, h2⟩
    rcases Nat.lt_or_ge i net.nodes.length with h | h
    · exact h
    · rw [List.getElem?_eq_none h] at h1; simp at h1

theorem nodup_idxOfKind (net : Net W) (k : Kind) : (idxOfKind net k).Nodup :=
  List.Nodup.filter _ List.nodup_range

/-- decidable well-formedness needed by the index bookkeeping: node ids distinct; the outputs list is duplicate-free
    and holds output-type nodes; every node is indexed (bias, input, hidden or a listed output); sensors have no
    incoming link; no node pair is joined twice; ranks are bounded by the node count -/
def TransWF (net : Net W) (lvl : Nat → Nat) : Bool :=
  decide ((net.nodes.map (·.id)).Nodup) &&
  net.outputs.all (fun o => kindAt net o == some Kind.output) &&
  decide net.outputs.Nodup &&
  decide ((orderOf net).length = net.nodes.length) &&
  net.nodes.all (fun (nd : NNodeS W) => (!nd.isSensor || nd.incoming.isEmpty) && decide ((nd.incoming.map (·.src)).Nodup)) &&
  (List.range net.nodes.length).all (fun i => decide (lvl i ≤ net.nodes.length))

structure TWF (net : Net W) (lvl : Nat → Nat) : Prop where
  ids : (net.nodes.map (·.id)).Nodup
  outK : ∀ o ∈ net.outputs, ∃ nd, net.nodes[o]? = some nd ∧ nd.kind = Kind.output
  outND : net.outputs.Nodup
  len : (orderOf net).length = net.nodes.length
  sens : ∀ (i : Nat) (nd : NNodeS W), net.nodes[i]? = some nd → nd.isSensor = true → nd.incoming = []
  srcND : ∀ (i : Nat) (nd : NNodeS W), net.nodes[i]? = some nd → (nd.incoming.map (·.src)).Nodup
  bound : ∀ i, i < net.nodes.length → lvl i ≤ net.nodes.length

theorem TransWF_props (net : Net W) (lvl : Nat → Nat) (h : TransWF net lvl = true) : TWF net lvl := by
  simp only [TransWF, Bool.and_eq_true, decide_eq_true_eq, List.all_eq_true, beq_iff_eq, Bool.or_eq_true,
    Bool.not_eq_true', List.isEmpty_iff, List.mem_range] at h
  obtain ⟨⟨⟨⟨⟨h1, h2⟩, h3⟩, h4⟩, h5⟩, h6⟩ := h
  refine ⟨h1, fun o ho => ?_, h3, h4, fun i nd hi hs => ?_, fun i nd hi => ?_, h6⟩
  · have := h2 o ho
    simp only [kindAt, Option.map_eq_some_iff] at this
    exact this
  · rcases (h5 nd (List.mem_of_getElem? hi)).1 with h | h
    · rw [hs] at h; simp at h
    · exact h
  · exact (h5 nd (List.mem_of_getElem? hi)).2

section Order
variable (net : Net W) {lvl : Nat → Nat} (hwf : TWF net lvl)
include hwf

theorem order_valid : ∀ j ∈ orderOf net, ∃ nd, net.nodes[j]? = some nd := by
  intro j hj
  simp only [orderOf, List.mem_append] at hj
  rcases hj with ((hj | hj) | hj) | hj
  · obtain ⟨nd, h, _⟩ := (mem_idxOfKind net _ j).mp hj; exact ⟨nd, h⟩
  · obtain ⟨nd, h, _⟩ := (mem_idxOfKind net _ j).mp hj; exact ⟨nd, h⟩
  · obtain ⟨nd, h, _⟩ := hwf.outK j hj; exact ⟨nd, h⟩
  · obtain ⟨nd, h, _⟩ := (mem_idxOfKind net _ j).mp hj; exact ⟨nd, h⟩

theorem order_nodup : (orderOf net).Nodup := by
  unfold orderOf
  have kd : ∀ (k1 k2 : Kind) a, a ∈ idxOfKind net k1 → ∀ b, b ∈ idxOfKind net k2 → k1 ≠ k2 → a ≠ b := by
    intro k1 k2 a ha b hb hk hab
    subst hab
    obtain ⟨nd, h1, h2⟩ := (mem_idxOfKind net _ a).mp ha
    obtain ⟨nd', h1', h2'⟩ := (mem_idxOfKind net _ a).mp hb
    rw [h1] at h1'
    simp only [Option.some.injEq] at h1'
    subst h1'
    exact hk (h2.symm.trans h2')
  have ko : ∀ (k1 : Kind) a, a ∈ idxOfKind net k1 → ∀ b, b ∈ net.outputs → k1 ≠ Kind.output → a ≠ b := by
    intro k1 a ha b hb hk hab
    subst hab
    obtain ⟨nd, h1, h2⟩ := (mem_idxOfKind net _ a).mp ha
    obtain ⟨nd', h1', h2'⟩ := hwf.outK a hb
    rw [h1] at h1'
    simp only [Option.some.injEq] at h1'
    subst h1'
    exact hk (h2.symm.trans h2')
  refine List.nodup_append.mpr ⟨List.nodup_append.mpr ⟨List.nodup_append.mpr
    ⟨nodup_idxOfKind net _, nodup_idxOfKind net _, fun a ha b hb => kd _ _ a ha b hb (by decide)⟩, hwf.outND, ?_⟩,
    nodup_idxOfKind net _, ?_⟩
  · intro a ha b hb
    rcases List.mem_append.mp ha with ha | ha
    · exact ko _ a ha b hb (by decide)
    · exact ko _ a ha b hb (by decide)
  · intro a ha b hb
    rcases List.mem_append.mp ha with ha | ha
    · rcases List.mem_append.mp ha with ha | ha
      · exact kd _ _ a ha b hb (by decide)
      · exact kd _ _ a ha b hb (by decide)
    · exact fun hab => ko _ b hb a ha (by decide) hab.symm

theorem idx_lt (j : Nat) (hj : j ∈ orderOf net) : idx net j < (orderOf net).length :=
  List.idxOf_lt_length_iff.mpr hj

theorem order_idx (j : Nat) (hj : j ∈ orderOf net) : (orderOf net).getD (idx net j) 0 = j := by
  have h := idx_lt net hwf j hj
  unfold idx at h ⊢
  rw [List.getD_eq_getElem?_getD, List.getElem?_eq_getElem h]
  exact List.getElem_idxOf h

theorem idx_of_get (s j : Nat) (h : (orderOf net)[s]? = some j) : idx net j = s := by
  obtain ⟨hs, he⟩ := List.getElem?_eq_some_iff.mp h
  unfold idx
  rw [← he]
  exact (order_nodup net hwf).idxOf_getElem s hs

theorem idx_inj (i j : Nat) (hi : i ∈ orderOf net) (hj : j ∈ orderOf net) (h : idx net i = idx net j) : i = j := by
  rw [← order_idx net hwf i hi, ← order_idx net hwf j hj, h]

/-- ids are injective on valid node indices -/
theorem id_inj (i j : Nat) (ni nj : NNodeS W) (hi : net.nodes[i]? = some ni) (hj : net.nodes[j]? = some nj)
    (h : ni.id = nj.id) : i = j := by
  obtain ⟨hil, hie⟩ := List.getElem?_eq_some_iff.mp hi
  obtain ⟨hjl, hje⟩ := List.getElem?_eq_some_iff.mp hj
  have hnd := hwf.ids
  have := (List.Nodup.getElem_inj_iff hnd (i := i) (j := j) (hi := by simpa using hil) (hj := by simpa using hjl)).mp
    (by simp only [List.getElem_map]; rw [hie, hje, h])
  exact this

/-- **`neuronLookup[id of node j]` is the position of `j` in the index order** -/
theorem lookup_idx (j s : Nat) (nd : NNodeS W) (hj : net.nodes[j]? = some nd)
    (h : lookupId (lkOf net) nd.id = some s) : j ∈ orderOf net ∧ s = idx net j := by
  obtain ⟨k, hk, he⟩ := lookupId_some _ _ _ h
  subst he
  simp only [lkOf, List.mem_map, List.mem_range, Prod.mk.injEq] at hk
  obtain ⟨s', hs', hid, rfl⟩ := hk
  have hget : (orderOf net)[s']? = some ((orderOf net).getD s' 0) := by
    rw [List.getD_eq_getElem?_getD, List.getElem?_eq_getElem hs']; rfl
  have hmem : (orderOf net).getD s' 0 ∈ orderOf net := List.mem_of_getElem? hget
  obtain ⟨nd', hnd'⟩ := order_valid net hwf _ hmem
  rw [hnd'] at hid
  simp only [Option.map_some, Option.getD_some] at hid
  have := id_inj net hwf _ _ _ _ hnd' hj hid
  rw [this] at hget hmem
  exact ⟨hmem, (idx_of_get net hwf _ _ hget).symm⟩

end Order

/-! ### 2. the inner loop of `processIncomingConnections`: shape of its output (Kind A) -/

def isBiasAt (net : Net W) (j : Nat) : Bool := kindAt net j == some Kind.bias

theorem isBiasAt_eq (net : Net W) (j : Nat) (sn : NNodeS W) (hn : net.nodes[j]? = some sn) :
    isBiasAt net j = (sn.kind == Kind.bias) := by
  simp [isBiasAt, kindAt, hn]

/-- connections emitted for a node with fast index `t` and incoming links `ls`: the non-bias links, in order -/
def connsFor (net : Net W) (t : Nat) (ls : List (NLink W)) : List (FLink W) :=
  (ls.filter fun l => !isBiasAt net l.src).map fun l => { src := idx net l.src, dst := t, w := l.w }

theorem links_shape (net : Net W) {lvl : Nat → Nat} (hwf : TWF net lvl) (t : Nat) (ls : List (NLink W))
    (b : List W) (c : List (FLink W)) (b' : List W) (c' : List (FLink W))
    (hrun : procIncoming.links net (lkOf net) t ls b c = .ok (b', c')) :
    c' = c ++ connsFor net t ls ∧ b'.length = b.length ∧ (∀ l ∈ ls, l.src ∈ orderOf net) ∧
      ((∀ l ∈ ls, isBiasAt net l.src = false) → b' = b) := by
  induction ls generalizing b c with
  | nil =>
    simp only [procIncoming.links, Except.ok.injEq, Prod.mk.injEq] at hrun
    obtain ⟨rfl, rfl⟩ := hrun
    exact ⟨by simp [connsFor], rfl, by simp, fun _ => rfl⟩
  | cons l ls ih =>
    unfold procIncoming.links at hrun
    cases hn : net.nodes[l.src]? with
    | none => rw [hn] at hrun; simp at hrun
    | some sn =>
      rw [hn] at hrun
      simp only at hrun
      cases hl : lookupId (lkOf net) sn.id with
      | none => rw [hl] at hrun; simp at hrun
      | some sIdx =>
        rw [hl] at hrun
        simp only at hrun
        obtain ⟨hmem, hs⟩ := lookup_idx net hwf l.src sIdx sn hn hl
        have hbe := isBiasAt_eq net l.src sn hn
        by_cases hb : (sn.kind == Kind.bias) = true
        · simp only [hb, if_true] at hrun
          obtain ⟨h1, h2, h3, _⟩ := ih _ _ hrun
          refine ⟨?_, by rw [h2]; simp, ?_, fun hno => ?_⟩
          · rw [h1]
            simp [connsFor, hbe, hb]
          · intro l' hl'
            rcases List.mem_cons.mp hl' with rfl | hl'
            · exact hmem
            · exact h3 l' hl'
          · have := hno l (by simp)
            rw [hbe, hb] at this
            simp at this
        · have hb' : (sn.kind == Kind.bias) = false := by simpa using hb
          simp only [hb', Bool.false_eq_true, if_false] at hrun
          obtain ⟨h1, h2, h3, h4⟩ := ih _ _ hrun
          refine ⟨?_, h2, ?_, fun hno => h4 (fun l' hl' => hno l' (by simp [hl']))⟩
          · rw [h1, hs]
            simp [connsFor, hbe, hb']
          · intro l' hl'
            rcases List.mem_cons.mp hl' with rfl | hl'
            · exact hmem
            · exact h3 l' hl'

/-! ### 3. a loop-invariant rule for `processIncomingConnections` over a node list -/

theorem procIncoming_inv (net : Net W) (lk : List (Int × Nat)) (P : List Nat → List W → List (FLink W) → Prop)
    (all : List Nat)
    (step : ∀ (done : List Nat) (i : Nat) (rest : List Nat) (nd : NNodeS W) (t : Nat) (b : List W) (c : List (FLink W))
      (b1 : List W) (c1 : List (FLink W)), all = done ++ i :: rest → net.nodes[i]? = some nd →
      lookupId lk nd.id = some t → procIncoming.links net lk t nd.incoming b c = .ok (b1, c1) →
      P done b c → P (done ++ [i]) b1 c1) :
    ∀ (is done tail : List Nat) (b : List W) (c : List (FLink W)) (b' : List W) (c' : List (FLink W)),
      all = done ++ is ++ tail → procIncoming net lk is b c = .ok (b', c') → P done b c → P (done ++ is) b' c' := by
  intro is
  induction is with
  | nil =>
    intro done tail b c b' c' _ hrun hP
    simp only [procIncoming, Except.ok.injEq, Prod.mk.injEq] at hrun
    obtain ⟨rfl, rfl⟩ := hrun
    simpa using hP
  | cons i rest ih =>
    intro done tail b c b' c' hall hrun hP
    unfold procIncoming at hrun
    cases hn : net.nodes[i]? with
    | none => rw [hn] at hrun; simp at hrun
    | some nd =>
      rw [hn] at hrun
      simp only at hrun
      cases hl : lookupId lk nd.id with
      | none => rw [hl] at hrun; simp at hrun
      | some t =>
        rw [hl] at hrun
        simp only at hrun
        cases hlinks : procIncoming.links net lk t nd.incoming b c with
        | error e => rw [hlinks] at hrun; simp at hrun
        | ok r =>
          obtain ⟨b1, c1⟩ := r
          rw [hlinks] at hrun
          simp only at hrun
          have hP1 := step done i (rest ++ tail) nd t b c b1 c1 (by rw [hall]; simp) hn hl hlinks hP
          have := ih (done ++ [i]) tail b1 c1 b' c' (by rw [hall]; simp) hrun hP1
          simpa using this

/-! ### 4. `FastNetworkSolver()` unfolded -/

theorem ofNet_inv (net : Net W) (fn : FastNet W) (h : ofNet net = .ok fn) :
    ∃ b1 c1 b2 c2 b3 c3,
      procIncoming net (lkOf net) (idxOfKind net Kind.input) (List.replicate net.nodes.length Scalar.zero) [] = .ok (b1, c1) ∧
      procIncoming net (lkOf net) (idxOfKind net Kind.hidden) b1 c1 = .ok (b2, c2) ∧
      procIncoming net (lkOf net) net.outputs b2 c2 = .ok (b3, c3) ∧
      fn = { nBias := (idxOfKind net Kind.bias).length, nInput := (idxOfKind net Kind.input).length,
             nOutput := net.outputs.length, nTotal := net.nodes.length,
             acts := ((orderOf net).map fun i => (net.nodes[i]?).map (·.act) |>.getD 0) ++
               List.replicate (net.nodes.length - (orderOf net).length) 0,
             biasList := b3, conns := c3 } := by
  unfold ofNet at h
  simp only at h
  split at h
  · simp at h
  · split at h
    · simp at h
    · split at h
      · simp at h
      · next b1 c1 h1 =>
        split at h
        · simp at h
        · next b2 c2 h2 =>
          split at h
          · simp at h
          · next b3 c3 h3 =>
            simp only [Except.ok.injEq] at h
            exact ⟨b1, c1, b2, c2, b3, c3, h1, h2, h3, h.symm⟩

end GoNeat.Fast
