/-
  C12: the translation `Network.FastNetworkSolver()` globally.

  Index bookkeeping (Kind A, part 1-4): `orderOf net` = bias ++ input ++ outputs ++ hidden is the list of node indices
  in fast-index order, `idx net j` = position of node `j` in it = `neuronLookup[id of j]` (`lookup_idx`; ids distinct).
  The connection list built by the three `processIncomingConnections` passes is exactly
  `(inputs ++ hidden ++ outputs).flatMap connsOf` with `connsOf i` = the non-bias incoming links of node `i`, in
  `Incoming` order, re-indexed (`procIncoming_TI`, `ofNet_inv`).
  Kind B (exact commutative-semiring arithmetic, part 5): per processed node the folded bias satisfies
  Σ_{connsOf i} sig·w + biasList[idx i] = Σ_{incoming} w·value (from `translation_node`), hence
  `fvalNode (ofNet net) (idx i) = evalNode net i` by induction on rank (`fval_eq_eval`).
  Part 6: the translated network satisfies the hypotheses `FFAll` of the fast-solver theorems.
-/
import GoNeat.Proofs.SolverExact
import GoNeat.Proofs.SolverFF
import GoNeat.Proofs.FastFFAll
import Mathlib.Data.List.Nodup
import Mathlib.Data.List.Perm.Subperm

set_option linter.unusedSectionVars false

namespace GoNeat.Fast
open GoNeat.Solver (Err kindAt)
open GoNeat.SolverSpec

variable {W : Type} [Scalar W]

/-! ### 1. `neuronLookup` -/

theorem lookupId_some (lk : List (Int × Nat)) (id : Int) (v : Nat) (h : lookupId lk id = some v) :
    ∃ k, (k, v) ∈ lk ∧ k = id := by
  induction lk with
  | nil => simp [lookupId] at h
  | cons p rest ih =>
    obtain ⟨k, v'⟩ := p
    unfold lookupId at h
    cases hr : lookupId rest id with
    | some r =>
      rw [hr] at h
      simp only [Option.some.injEq] at h
      subst h
      obtain ⟨k', hk', he⟩ := ih hr
      exact ⟨k', by simp [hk'], he⟩
    | none =>
      rw [hr] at h
      simp only at h
      by_cases hk : (k == id) = true
      · simp only [hk, if_true, Option.some.injEq] at h
        subst h
        exact ⟨k, by simp, by simpa using hk⟩
      · simp [hk] at h

/-- fast-index order of the node indices -/
def orderOf (net : Net W) : List Nat :=
  idxOfKind net Kind.bias ++ idxOfKind net Kind.input ++ net.outputs ++ idxOfKind net Kind.hidden

/-- the `neuronLookup` map as an association list -/
def lkOf (net : Net W) : List (Int × Nat) :=
  (List.range (orderOf net).length).map fun k =>
    ((net.nodes[(orderOf net).getD k 0]?).map (·.id) |>.getD 0, k)

/-- fast index of node `j` -/
def idx (net : Net W) (j : Nat) : Nat := (orderOf net).idxOf j

theorem mem_idxOfKind (net : Net W) (k : Kind) (i : Nat) :
    i ∈ idxOfKind net k ↔ ∃ nd, net.nodes[i]? = some nd ∧ nd.kind = k := by
  unfold idxOfKind
  simp only [List.mem_filter, List.mem_range, beq_iff_eq, Option.map_eq_some_iff]
  constructor
  · rintro ⟨_, nd, h1, h2⟩; exact ⟨nd, h1, h2⟩
  · rintro ⟨nd, h1, h2⟩
    refine ⟨?_, nd, h1, h2⟩
    rcases Nat.lt_or_ge i net.nodes.length with h | h
    · exact h
    · rw [List.getElem?_eq_none h] at h1; simp at h1

theorem nodup_idxOfKind (net : Net W) (k : Kind) : (idxOfKind net k).Nodup :=
  List.Nodup.filter _ List.nodup_range

/-- decidable well-formedness needed by the index bookkeeping: node ids distinct; the outputs list is duplicate-free
    and holds output-type nodes; every node is indexed (bias, input, hidden or a listed output); sensors have no
    incoming link; no node pair is joined twice; ranks are bounded by the node count -/
def TransWF (net : Net W) (lvl : Nat → Nat) : Bool :=
  decide ((net.nodes.map (·.id)).Nodup) &&
  net.outputs.all (fun o => kindAt net o == some Kind.output) &&
  decide net.outputs.Nodup &&
  decide ((orderOf net).length = net.nodes.length) &&
  net.nodes.all (fun (nd : NNodeS W) => (!nd.isSensor || nd.incoming.isEmpty) && decide ((nd.incoming.map (·.src)).Nodup)) &&
  (List.range net.nodes.length).all (fun i => decide (lvl i ≤ net.nodes.length))

structure TWF (net : Net W) (lvl : Nat → Nat) : Prop where
  ids : (net.nodes.map (·.id)).Nodup
  outK : ∀ o ∈ net.outputs, ∃ nd, net.nodes[o]? = some nd ∧ nd.kind = Kind.output
  outND : net.outputs.Nodup
  len : (orderOf net).length = net.nodes.length
  sens : ∀ (i : Nat) (nd : NNodeS W), net.nodes[i]? = some nd → nd.isSensor = true → nd.incoming = []
  srcND : ∀ (i : Nat) (nd : NNodeS W), net.nodes[i]? = some nd → (nd.incoming.map (·.src)).Nodup
  bound : ∀ i, i < net.nodes.length → lvl i ≤ net.nodes.length

theorem TransWF_props (net : Net W) (lvl : Nat → Nat) (h : TransWF net lvl = true) : TWF net lvl := by
  simp only [TransWF, Bool.and_eq_true, decide_eq_true_eq, List.all_eq_true, beq_iff_eq, Bool.or_eq_true,
    Bool.not_eq_true', List.isEmpty_iff, List.mem_range] at h
  obtain ⟨⟨⟨⟨⟨h1, h2⟩, h3⟩, h4⟩, h5⟩, h6⟩ := h
  refine ⟨h1, fun o ho => ?_, h3, h4, fun i nd hi hs => ?_, fun i nd hi => ?_, h6⟩
  · have := h2 o ho
    simp only [kindAt, Option.map_eq_some_iff] at this
    exact this
  · rcases (h5 nd (List.mem_of_getElem? hi)).1 with h | h
    · rw [hs] at h; simp at h
    · exact h
  · exact (h5 nd (List.mem_of_getElem? hi)).2

section Order
variable (net : Net W) {lvl : Nat → Nat} (hwf : TWF net lvl)
include hwf

theorem order_valid : ∀ j ∈ orderOf net, ∃ nd, net.nodes[j]? = some nd := by
  intro j hj
  simp only [orderOf, List.mem_append] at hj
  rcases hj with ((hj | hj) | hj) | hj
  · obtain ⟨nd, h, _⟩ := (mem_idxOfKind net _ j).mp hj; exact ⟨nd, h⟩
  · obtain ⟨nd, h, _⟩ := (mem_idxOfKind net _ j).mp hj; exact ⟨nd, h⟩
  · obtain ⟨nd, h, _⟩ := hwf.outK j hj; exact ⟨nd, h⟩
  · obtain ⟨nd, h, _⟩ := (mem_idxOfKind net _ j).mp hj; exact ⟨nd, h⟩

theorem order_nodup : (orderOf net).Nodup := by
  unfold orderOf
  have kd : ∀ (k1 k2 : Kind) a, a ∈ idxOfKind net k1 → ∀ b, b ∈ idxOfKind net k2 → k1 ≠ k2 → a ≠ b := by
    intro k1 k2 a ha b hb hk hab
    subst hab
    obtain ⟨nd, h1, h2⟩ := (mem_idxOfKind net _ a).mp ha
    obtain ⟨nd', h1', h2'⟩ := (mem_idxOfKind net _ a).mp hb
    rw [h1] at h1'
    simp only [Option.some.injEq] at h1'
    subst h1'
    exact hk (h2.symm.trans h2')
  have ko : ∀ (k1 : Kind) a, a ∈ idxOfKind net k1 → ∀ b, b ∈ net.outputs → k1 ≠ Kind.output → a ≠ b := by
    intro k1 a ha b hb hk hab
    subst hab
    obtain ⟨nd, h1, h2⟩ := (mem_idxOfKind net _ a).mp ha
    obtain ⟨nd', h1', h2'⟩ := hwf.outK a hb
    rw [h1] at h1'
    simp only [Option.some.injEq] at h1'
    subst h1'
    exact hk (h2.symm.trans h2')
  refine List.nodup_append.mpr ⟨List.nodup_append.mpr ⟨List.nodup_append.mpr
    ⟨nodup_idxOfKind net _, nodup_idxOfKind net _, fun a ha b hb => kd _ _ a ha b hb (by decide)⟩, hwf.outND, ?_⟩,
    nodup_idxOfKind net _, ?_⟩
  · intro a ha b hb
    rcases List.mem_append.mp ha with ha | ha
    · exact ko _ a ha b hb (by decide)
    · exact ko _ a ha b hb (by decide)
  · intro a ha b hb
    rcases List.mem_append.mp ha with ha | ha
    · rcases List.mem_append.mp ha with ha | ha
      · exact kd _ _ a ha b hb (by decide)
      · exact kd _ _ a ha b hb (by decide)
    · exact fun hab => ko _ b hb a ha (by decide) hab.symm

theorem idx_lt (j : Nat) (hj : j ∈ orderOf net) : idx net j < (orderOf net).length :=
  List.idxOf_lt_length_iff.mpr hj

theorem order_idx (j : Nat) (hj : j ∈ orderOf net) : (orderOf net).getD (idx net j) 0 = j := by
  have h := idx_lt net hwf j hj
  unfold idx at h ⊢
  rw [List.getD_eq_getElem?_getD, List.getElem?_eq_getElem h]
  exact List.getElem_idxOf h

theorem idx_of_get (s j : Nat) (h : (orderOf net)[s]? = some j) : idx net j = s := by
  obtain ⟨hs, he⟩ := List.getElem?_eq_some_iff.mp h
  unfold idx
  rw [← he]
  exact (order_nodup net hwf).idxOf_getElem s hs

theorem idx_inj (i j : Nat) (hi : i ∈ orderOf net) (hj : j ∈ orderOf net) (h : idx net i = idx net j) : i = j := by
  rw [← order_idx net hwf i hi, ← order_idx net hwf j hj, h]

/-- ids are injective on valid node indices -/
theorem id_inj (i j : Nat) (ni nj : NNodeS W) (hi : net.nodes[i]? = some ni) (hj : net.nodes[j]? = some nj)
    (h : ni.id = nj.id) : i = j := by
  obtain ⟨hil, hie⟩ := List.getElem?_eq_some_iff.mp hi
  obtain ⟨hjl, hje⟩ := List.getElem?_eq_some_iff.mp hj
  have hnd := hwf.ids
  have := (List.Nodup.getElem_inj_iff hnd (i := i) (j := j) (hi := by simpa using hil) (hj := by simpa using hjl)).mp
    (by simp only [List.getElem_map]; rw [hie, hje, h])
  exact this

/-- **`neuronLookup[id of node j]` is the position of `j` in the index order** -/
theorem lookup_idx (j s : Nat) (nd : NNodeS W) (hj : net.nodes[j]? = some nd)
    (h : lookupId (lkOf net) nd.id = some s) : j ∈ orderOf net ∧ s = idx net j := by
  obtain ⟨k, hk, he⟩ := lookupId_some _ _ _ h
  subst he
  simp only [lkOf, List.mem_map, List.mem_range, Prod.mk.injEq] at hk
  obtain ⟨s', hs', hid, rfl⟩ := hk
  have hget : (orderOf net)[s']? = some ((orderOf net).getD s' 0) := by
    rw [List.getD_eq_getElem?_getD, List.getElem?_eq_getElem hs']; rfl
  have hmem : (orderOf net).getD s' 0 ∈ orderOf net := List.mem_of_getElem? hget
  obtain ⟨nd', hnd'⟩ := order_valid net hwf _ hmem
  rw [hnd'] at hid
  simp only [Option.map_some, Option.getD_some] at hid
  have := id_inj net hwf _ _ _ _ hnd' hj hid
  rw [this] at hget hmem
  exact ⟨hmem, (idx_of_get net hwf _ _ hget).symm⟩

end Order

/-! ### 2. the inner loop of `processIncomingConnections`: shape of its output (Kind A) -/

def isBiasAt (net : Net W) (j : Nat) : Bool := kindAt net j == some Kind.bias

theorem isBiasAt_eq (net : Net W) (j : Nat) (sn : NNodeS W) (hn : net.nodes[j]? = some sn) :
    isBiasAt net j = (sn.kind == Kind.bias) := by
  simp [isBiasAt, kindAt, hn]

/-- connections emitted for a node with fast index `t` and incoming links `ls`: the non-bias links, in order -/
def connsFor (net : Net W) (t : Nat) (ls : List (NLink W)) : List (FLink W) :=
  (ls.filter fun l => !isBiasAt net l.src).map fun l => { src := idx net l.src, dst := t, w := l.w }

theorem links_shape (net : Net W) {lvl : Nat → Nat} (hwf : TWF net lvl) (t : Nat) (ls : List (NLink W))
    (b : List W) (c : List (FLink W)) (b' : List W) (c' : List (FLink W))
    (hrun : procIncoming.links net (lkOf net) t ls b c = .ok (b', c')) :
    c' = c ++ connsFor net t ls ∧ b'.length = b.length ∧ (∀ l ∈ ls, l.src ∈ orderOf net) ∧
      ((∀ l ∈ ls, isBiasAt net l.src = false) → b' = b) := by
  induction ls generalizing b c with
  | nil =>
    simp only [procIncoming.links, Except.ok.injEq, Prod.mk.injEq] at hrun
    obtain ⟨rfl, rfl⟩ := hrun
    exact ⟨by simp [connsFor], rfl, by simp, fun _ => rfl⟩
  | cons l ls ih =>
    unfold procIncoming.links at hrun
    cases hn : net.nodes[l.src]? with
    | none => rw [hn] at hrun; simp at hrun
    | some sn =>
      rw [hn] at hrun
      simp only at hrun
      cases hl : lookupId (lkOf net) sn.id with
      | none => rw [hl] at hrun; simp at hrun
      | some sIdx =>
        rw [hl] at hrun
        simp only at hrun
        obtain ⟨hmem, hs⟩ := lookup_idx net hwf l.src sIdx sn hn hl
        have hbe := isBiasAt_eq net l.src sn hn
        by_cases hb : (sn.kind == Kind.bias) = true
        · simp only [hb, if_true] at hrun
          obtain ⟨h1, h2, h3, _⟩ := ih _ _ hrun
          refine ⟨?_, by rw [h2]; simp, ?_, fun hno => ?_⟩
          · rw [h1]
            simp [connsFor, hbe, hb]
          · intro l' hl'
            rcases List.mem_cons.mp hl' with rfl | hl'
            · exact hmem
            · exact h3 l' hl'
          · have := hno l (by simp)
            rw [hbe, hb] at this
            simp at this
        · have hb' : (sn.kind == Kind.bias) = false := by simpa using hb
          simp only [hb', Bool.false_eq_true, if_false] at hrun
          obtain ⟨h1, h2, h3, h4⟩ := ih _ _ hrun
          refine ⟨?_, h2, ?_, fun hno => h4 (fun l' hl' => hno l' (by simp [hl']))⟩
          · rw [h1, hs]
            simp [connsFor, hbe, hb']
          · intro l' hl'
            rcases List.mem_cons.mp hl' with rfl | hl'
            · exact hmem
            · exact h3 l' hl'

/-! ### 3. a loop-invariant rule for `processIncomingConnections` over a node list -/

theorem procIncoming_inv (net : Net W) (lk : List (Int × Nat)) (P : List Nat → List W → List (FLink W) → Prop)
    (all : List Nat)
    (step : ∀ (done : List Nat) (i : Nat) (rest : List Nat) (nd : NNodeS W) (t : Nat) (b : List W) (c : List (FLink W))
      (b1 : List W) (c1 : List (FLink W)), all = done ++ i :: rest → net.nodes[i]? = some nd →
      lookupId lk nd.id = some t → procIncoming.links net lk t nd.incoming b c = .ok (b1, c1) →
      P done b c → P (done ++ [i]) b1 c1) :
    ∀ (is done tail : List Nat) (b : List W) (c : List (FLink W)) (b' : List W) (c' : List (FLink W)),
      all = done ++ is ++ tail → procIncoming net lk is b c = .ok (b', c') → P done b c → P (done ++ is) b' c' := by
  intro is
  induction is with
  | nil =>
    intro done tail b c b' c' _ hrun hP
    simp only [procIncoming, Except.ok.injEq, Prod.mk.injEq] at hrun
    obtain ⟨rfl, rfl⟩ := hrun
    simpa using hP
  | cons i rest ih =>
    intro done tail b c b' c' hall hrun hP
    unfold procIncoming at hrun
    cases hn : net.nodes[i]? with
    | none => rw [hn] at hrun; simp at hrun
    | some nd =>
      rw [hn] at hrun
      simp only at hrun
      cases hl : lookupId lk nd.id with
      | none => rw [hl] at hrun; simp at hrun
      | some t =>
        rw [hl] at hrun
        simp only at hrun
        cases hlinks : procIncoming.links net lk t nd.incoming b c with
        | error e => rw [hlinks] at hrun; simp at hrun
        | ok r =>
          obtain ⟨b1, c1⟩ := r
          rw [hlinks] at hrun
          simp only at hrun
          have hP1 := step done i (rest ++ tail) nd t b c b1 c1 (by rw [hall]; simp) hn hl hlinks hP
          have := ih (done ++ [i]) tail b1 c1 b' c' (by rw [hall]; simp) hrun hP1
          simpa using this

/-! ### 4. `FastNetworkSolver()` unfolded -/

theorem ofNet_inv (net : Net W) (fn : FastNet W) (h : ofNet net = .ok fn) :
    ∃ b1 c1 b2 c2 b3 c3,
      procIncoming net (lkOf net) (idxOfKind net Kind.input) (List.replicate net.nodes.length Scalar.zero) [] = .ok (b1, c1) ∧
      procIncoming net (lkOf net) (idxOfKind net Kind.hidden) b1 c1 = .ok (b2, c2) ∧
      procIncoming net (lkOf net) net.outputs b2 c2 = .ok (b3, c3) ∧
      fn = { nBias := (idxOfKind net Kind.bias).length, nInput := (idxOfKind net Kind.input).length,
             nOutput := net.outputs.length, nTotal := net.nodes.length,
             acts := ((orderOf net).map fun i => (net.nodes[i]?).map (·.act) |>.getD 0) ++
               List.replicate (net.nodes.length - (orderOf net).length) 0,
             biasList := b3, conns := c3 } := by
  unfold ofNet at h
  simp only at h
  split at h
  · simp at h
  · split at h
    · simp at h
    · split at h
      · simp at h
      · next b1 c1 h1 =>
        split at h
        · simp at h
        · next b2 c2 h2 =>
          split at h
          · simp at h
          · next b3 c3 h3 =>
            simp only [Except.ok.injEq] at h
            exact ⟨b1, c1, b2, c2, b3, c3, h1, h2, h3, h.symm⟩

/-! ### 5. the connection list of the translated network (Kind A) -/

def incOf (net : Net W) (i : Nat) : List (NLink W) := ((net.nodes[i]?).map (·.incoming)).getD []

/-- the connections of node `i` in the fast network -/
def connsOf (net : Net W) (i : Nat) : List (FLink W) := connsFor net (idx net i) (incOf net i)

/-- nodes in the order the three `processIncomingConnections` passes visit them -/
def procList (net : Net W) : List Nat := idxOfKind net Kind.input ++ idxOfKind net Kind.hidden ++ net.outputs

theorem incOf_eq (net : Net W) (i : Nat) (nd : NNodeS W) (h : net.nodes[i]? = some nd) : incOf net i = nd.incoming := by
  simp [incOf, h]

structure TIA (net : Net W) (done : List Nat) (b : List W) (c : List (FLink W)) : Prop where
  len : b.length = net.nodes.length
  conns : c = done.flatMap (connsOf net)
  self : ∀ i ∈ done, i ∈ orderOf net
  src : ∀ i ∈ done, ∀ l ∈ incOf net i, l.src ∈ orderOf net
  nob : (∀ j, isBiasAt net j = false) → ∀ t, getW b t = Scalar.zero

theorem TIA_step (net : Net W) {lvl : Nat → Nat} (hwf : TWF net lvl) (done : List Nat) (i : Nat) (nd : NNodeS W) (t : Nat)
    (b : List W) (c : List (FLink W)) (b1 : List W) (c1 : List (FLink W)) (hn : net.nodes[i]? = some nd)
    (hl : lookupId (lkOf net) nd.id = some t)
    (hlinks : procIncoming.links net (lkOf net) t nd.incoming b c = .ok (b1, c1)) (hP : TIA net done b c) :
    TIA net (done ++ [i]) b1 c1 := by
  obtain ⟨hmem, ht⟩ := lookup_idx net hwf i t nd hn hl
  obtain ⟨h1, h2, h3, h4⟩ := links_shape net hwf t nd.incoming b c b1 c1 hlinks
  have hinc := incOf_eq net i nd hn
  refine ⟨by rw [h2, hP.len], ?_, ?_, ?_, fun hno t' => ?_⟩
  · rw [h1, hP.conns, List.flatMap_append]
    simp [connsOf, hinc, ht]
  · intro i' hi'
    rcases List.mem_append.mp hi' with h | h
    · exact hP.self i' h
    · simp only [List.mem_singleton] at h; subst h; exact hmem
  · intro i' hi'
    rcases List.mem_append.mp hi' with h | h
    · exact hP.src i' h
    · simp only [List.mem_singleton] at h; subst h; rw [hinc]; exact h3
  · rw [h4 (fun l _ => hno l.src)]
    exact hP.nob hno t'

theorem procList_split (net : Net W) :
    procList net = [] ++ idxOfKind net Kind.input ++ (idxOfKind net Kind.hidden ++ net.outputs) ∧
    procList net = idxOfKind net Kind.input ++ idxOfKind net Kind.hidden ++ net.outputs ∧
    procList net = (idxOfKind net Kind.input ++ idxOfKind net Kind.hidden) ++ net.outputs ++ [] := by
  simp [procList]

/-- what `ofNet` returns, field by field -/
structure OfNet (net : Net W) (fn : FastNet W) : Prop where
  nBias : fn.nBias = (idxOfKind net Kind.bias).length
  nInput : fn.nInput = (idxOfKind net Kind.input).length
  nOutput : fn.nOutput = net.outputs.length
  nTotal : fn.nTotal = net.nodes.length
  acts : fn.acts = ((orderOf net).map fun i => (net.nodes[i]?).map (·.act) |>.getD 0) ++
               List.replicate (net.nodes.length - (orderOf net).length) 0
  tia : TIA net (procList net) fn.biasList fn.conns

theorem ofNet_facts (net : Net W) {lvl : Nat → Nat} (hwf : TWF net lvl) (fn : FastNet W) (h : ofNet net = .ok fn) :
    OfNet net fn := by
  obtain ⟨b1, c1, b2, c2, b3, c3, h1, h2, h3, rfl⟩ := ofNet_inv net fn h
  refine ⟨rfl, rfl, rfl, rfl, rfl, ?_⟩
  have step := fun done i (rest : List Nat) nd t b c b1 c1 (_ : procList net = done ++ i :: rest) hn hl hlinks hP =>
    TIA_step net hwf done i nd t b c b1 c1 hn hl hlinks hP
  have rule := procIncoming_inv net (lkOf net) (TIA net) (procList net) step
  obtain ⟨s1, s2, s3⟩ := procList_split net
  have t0 : TIA net [] (List.replicate net.nodes.length (Scalar.zero : W)) [] :=
    ⟨by simp, by simp, by simp, by simp, fun _ t => getW_replicate_zero _ t⟩
  have t1 := rule _ [] _ _ _ _ _ s1 h1 t0
  have t2 := rule _ _ _ _ _ _ _ s2 h2 t1
  have t3 := rule _ _ [] _ _ _ _ s3 h3 t2
  exact t3

/-! ### 6. positions in the index order -/

theorem order_split (net : Net W) :
    orderOf net = (idxOfKind net Kind.bias ++ idxOfKind net Kind.input) ++ (net.outputs ++ idxOfKind net Kind.hidden) := by
  simp [orderOf]

theorem nSensor_eq (net : Net W) (fn : FastNet W) (h : OfNet net fn) :
    fn.nSensor = (idxOfKind net Kind.bias ++ idxOfKind net Kind.input).length := by
  simp [FastNet.nSensor, h.nBias, h.nInput]

theorem mem_sensorPart (net : Net W) (j : Nat) :
    j ∈ idxOfKind net Kind.bias ++ idxOfKind net Kind.input ↔ ∃ nd, net.nodes[j]? = some nd ∧ nd.isSensor = true := by
  simp only [List.mem_append, mem_idxOfKind, NNodeS.isSensor, Bool.or_eq_true, beq_iff_eq]
  constructor
  · rintro (⟨nd, h1, h2⟩ | ⟨nd, h1, h2⟩)
    · exact ⟨nd, h1, Or.inr h2⟩
    · exact ⟨nd, h1, Or.inl h2⟩
  · rintro ⟨nd, h1, h2 | h2⟩
    · exact Or.inr ⟨nd, h1, h2⟩
    · exact Or.inl ⟨nd, h1, h2⟩

theorem idx_sensor (net : Net W) (fn : FastNet W) (h : OfNet net fn) (j : Nat) (nd : NNodeS W)
    (hj : net.nodes[j]? = some nd) (hs : nd.isSensor = true) : idx net j < fn.nSensor := by
  have hm := (mem_sensorPart net j).mpr ⟨nd, hj, hs⟩
  rw [nSensor_eq net fn h]
  unfold idx
  rw [order_split, List.idxOf_append_of_mem hm]
  exact List.idxOf_lt_length_iff.mpr hm

theorem idx_neuron (net : Net W) (fn : FastNet W) (h : OfNet net fn) (j : Nat) (nd : NNodeS W)
    (hj : net.nodes[j]? = some nd) (hs : nd.isSensor = false) : fn.nSensor ≤ idx net j := by
  have hm : j ∉ idxOfKind net Kind.bias ++ idxOfKind net Kind.input := by
    intro hm
    obtain ⟨nd', h1, h2⟩ := (mem_sensorPart net j).mp hm
    rw [hj] at h1
    simp only [Option.some.injEq] at h1
    subst h1
    rw [hs] at h2
    simp at h2
  rw [nSensor_eq net fn h]
  unfold idx
  rw [order_split, List.idxOf_append_of_notMem hm]
  omega

/-- a fast index at or beyond the sensors holds a listed output or a hidden node, i.e. a processed neuron -/
theorem order_neuron (net : Net W) {lvl : Nat → Nat} (hwf : TWF net lvl) (fn : FastNet W) (h : OfNet net fn) (t : Nat)
    (h1 : fn.nSensor ≤ t) (h2 : t < fn.nTotal) :
    ∃ j nd, (orderOf net)[t]? = some j ∧ j ∈ procList net ∧ net.nodes[j]? = some nd ∧ nd.isSensor = false := by
  rw [h.nTotal, ← hwf.len] at h2
  rw [nSensor_eq net fn h] at h1
  obtain ⟨j, hget⟩ : ∃ j, (orderOf net)[t]? = some j := ⟨_, List.getElem?_eq_getElem h2⟩
  have hget' := hget
  rw [order_split, List.getElem?_append_right h1] at hget'
  have hmem := List.mem_of_getElem? hget'
  refine ⟨j, ?_⟩
  rcases List.mem_append.mp hmem with hm | hm
  · obtain ⟨nd, hn, hk⟩ := hwf.outK _ hm
    exact ⟨nd, hget, by simp [procList, hm], hn, by simp [NNodeS.isSensor, hk, Kind.output, Kind.input, Kind.bias]⟩
  · obtain ⟨nd, hn, hk⟩ := (mem_idxOfKind net _ _).mp hm
    exact ⟨nd, hget, by simp [procList, hm], hn, by simp [NNodeS.isSensor, hk, Kind.hidden, Kind.input, Kind.bias]⟩

/-- the `k`-th listed output has fast index `nSensor + k` -/
theorem idx_output (net : Net W) {lvl : Nat → Nat} (hwf : TWF net lvl) (fn : FastNet W) (h : OfNet net fn) (k : Nat)
    (hk : k < net.outputs.length) : idx net (net.outputs[k]) = fn.nSensor + k := by
  apply idx_of_get net hwf
  rw [nSensor_eq net fn h, order_split, List.getElem?_append_right (by omega), Nat.add_sub_cancel_left,
    List.getElem?_append_left hk]
  exact List.getElem?_eq_getElem hk

theorem procList_mem_order (net : Net W) (j : Nat) (hj : j ∈ procList net) : j ∈ orderOf net := by
  simp only [procList, orderOf, List.mem_append] at hj ⊢
  rcases hj with (h | h) | h
  · exact Or.inl (Or.inl (Or.inr h))
  · exact Or.inr h
  · exact Or.inl (Or.inr h)

theorem procList_nodup (net : Net W) {lvl : Nat → Nat} (hwf : TWF net lvl) : (procList net).Nodup := by
  have h := order_nodup net hwf
  rw [order_split, List.append_assoc] at h
  have h2 := (List.nodup_append.mp h).2.1
  have hp : List.Perm (procList net) (idxOfKind net Kind.input ++ (net.outputs ++ idxOfKind net Kind.hidden)) := by
    unfold procList
    rw [List.append_assoc]
    exact List.Perm.append_left _ List.perm_append_comm
  exact hp.nodup_iff.mpr h2

/-! ### 7. the translated network satisfies the hypotheses of the fast-solver theorems (Kind A) -/

/-- rank of a fast index = rank of the node it stands for -/
def lvlF (net : Net W) (lvl : Nat → Nat) (t : Nat) : Nat := lvl ((orderOf net).getD t 0)

theorem lvlF_idx (net : Net W) {lvl : Nat → Nat} (hwf : TWF net lvl) (j : Nat) (hj : j ∈ orderOf net) :
    lvlF net lvl (idx net j) = lvl j := by
  unfold lvlF
  rw [order_idx net hwf j hj]

theorem lvlF_get (net : Net W) (lvl : Nat → Nat) (t j : Nat) (h : (orderOf net)[t]? = some j) : lvlF net lvl t = lvl j := by
  unfold lvlF
  rw [List.getD_eq_getElem?_getD, h]
  rfl

theorem mem_connsOf (net : Net W) (i : Nat) (c : FLink W) :
    c ∈ connsOf net i ↔ ∃ l ∈ incOf net i, isBiasAt net l.src = false ∧
      c = { src := idx net l.src, dst := idx net i, w := l.w } := by
  simp only [connsOf, connsFor, List.mem_map, List.mem_filter, Bool.not_eq_true']
  constructor
  · rintro ⟨l, ⟨h1, h2⟩, rfl⟩; exact ⟨l, h1, h2, rfl⟩
  · rintro ⟨l, h1, h2, rfl⟩; exact ⟨l, ⟨h1, h2⟩, rfl⟩

theorem mem_conns (net : Net W) (fn : FastNet W) (h : OfNet net fn) (c : FLink W) (hc : c ∈ fn.conns) :
    ∃ i ∈ procList net, ∃ l ∈ incOf net i, isBiasAt net l.src = false ∧
      c = { src := idx net l.src, dst := idx net i, w := l.w } := by
  rw [h.tia.conns, List.mem_flatMap] at hc
  obtain ⟨i, hi, hc⟩ := hc
  exact ⟨i, hi, (mem_connsOf net i c).mp hc⟩

theorem acts_get (net : Net W) (fn : FastNet W) (h : OfNet net fn) (t j : Nat) (nd : NNodeS W)
    (hget : (orderOf net)[t]? = some j) (hn : net.nodes[j]? = some nd) : fn.acts.getD t 0 = nd.act := by
  have ht : t < (orderOf net).length := (List.getElem?_eq_some_iff.mp hget).1
  rw [h.acts, List.getD_eq_getElem?_getD, List.getElem?_append_left (by simpa using ht), List.getElem?_map, hget]
  simp [hn]

/-- a neuron of a feed-forward network has rank ≥ 1 and its sources rank below it -/
theorem neuron_facts (net : Net W) (lvl : Nat → Nat) (hff : Solver.FFProps net lvl) (i : Nat) (nd : NNodeS W)
    (hi : net.nodes[i]? = some nd) (hs : nd.isSensor = false) :
    nd.isNeuron = true ∧ 1 ≤ lvl i ∧ ∀ l ∈ nd.incoming, lvl l.src < lvl i := by
  obtain ⟨h1, hne, hl⟩ := Solver.ffNode_neuron net lvl i nd (hff.node i nd hi) hs
  obtain ⟨l, hl'⟩ := List.exists_mem_of_ne_nil _ hne
  have := (hl l hl').2.2
  exact ⟨h1, by omega, fun l hl' => (hl l hl').2.2⟩

theorem valid_lt (net : Net W) (i : Nat) (nd : NNodeS W) (hi : net.nodes[i]? = some nd) : i < net.nodes.length :=
  (List.getElem?_eq_some_iff.mp hi).1

theorem translated_FFAll (net : Net W) (σ : Nat → W → Option W) (lvl : Nat → Nat) (hff : Solver.FFProps net lvl)
    (hwf : TWF net lvl) (fn : FastNet W) (h : OfNet net fn)
    (hσ : ∀ (i : Nat) (nd : NNodeS W), net.nodes[i]? = some nd → nd.isNeuron = true → ∀ x, (σ nd.act x).isSome = true) :
    FFAll fn σ (lvlF net lvl) := by
  have hlen : fn.nTotal = (orderOf net).length := by rw [h.nTotal, hwf.len]
  refine ⟨⟨fun c hc => ?_, fun t ht => ?_, ?_⟩, ?_, fun t h1 h2 => ?_, fun t h1 h2 => ?_⟩
  · -- every connection goes up in rank
    obtain ⟨i, hi, l, hl, _, rfl⟩ := mem_conns net fn h c hc
    have hio := procList_mem_order net i hi
    have hso := h.tia.src i hi l hl
    obtain ⟨nd, hn⟩ := order_valid net hwf i hio
    simp only
    rw [lvlF_idx net hwf _ hso, lvlF_idx net hwf _ hio, hlen]
    refine ⟨?_, idx_lt net hwf _ hso⟩
    rw [incOf_eq net i nd hn] at hl
    by_cases hs : nd.isSensor = true
    · rw [hwf.sens i nd hn hs] at hl; simp at hl
    · exact (neuron_facts net lvl hff i nd hn (by simpa using hs)).2.2 l hl
  · -- ranks are bounded
    rw [hlen] at ht
    have hget : (orderOf net)[t]? = some (orderOf net)[t] := List.getElem?_eq_getElem ht
    rw [lvlF_get net lvl t _ hget, h.nTotal]
    obtain ⟨nd, hn⟩ := order_valid net hwf _ (List.mem_of_getElem? hget)
    exact hwf.bound _ (valid_lt net _ nd hn)
  · rw [nSensor_eq net fn h, h.nOutput, hlen, order_split]
    simp only [List.length_append]
    omega
  · -- no pair of fast indices is joined twice
    unfold NoDupConn
    rw [h.tia.conns, List.pairwise_flatMap]
    constructor
    · intro i hi
      have hio := procList_mem_order net i hi
      obtain ⟨nd, hn⟩ := order_valid net hwf i hio
      have hnd := hwf.srcND i nd hn
      rw [← incOf_eq net i nd hn] at hnd
      unfold connsOf connsFor
      rw [List.pairwise_map]
      apply List.Pairwise.filter
      have hp : (incOf net i).Pairwise (fun a b => a.src ≠ b.src) := List.pairwise_map.mp hnd
      refine List.Pairwise.imp_of_mem ?_ hp
      intro a b ha hb hab hh
      exact hab (idx_inj net hwf _ _ (h.tia.src i hi a ha) (h.tia.src i hi b hb) hh.1)
    · refine (procList_nodup net hwf).pairwise_of_forall_ne ?_
      intro i hi i' hi' hne x hx y hy hh
      obtain ⟨_, _, _, rfl⟩ := (mem_connsOf net i x).mp hx
      obtain ⟨_, _, _, rfl⟩ := (mem_connsOf net i' y).mp hy
      exact hne (idx_inj net hwf _ _ (procList_mem_order net i hi) (procList_mem_order net i' hi') hh.2)
  · -- neurons have rank ≥ 1
    obtain ⟨j, nd, hget, _, hn, hs⟩ := order_neuron net hwf fn h t h1 h2
    rw [lvlF_get net lvl t j hget]
    exact (neuron_facts net lvl hff j nd hn hs).2.1
  · -- activation types of the neurons are registered
    obtain ⟨j, nd, hget, _, hn, hs⟩ := order_neuron net hwf fn h t h1 h2
    rw [acts_get net fn h t j nd hget hn]
    exact hσ j nd hn (neuron_facts net lvl hff j nd hn hs).1

theorem order_mem_procList (net : Net W) (j : Nat) (nd : NNodeS W) (hj : j ∈ orderOf net) (hn : net.nodes[j]? = some nd)
    (hk : nd.kind ≠ Kind.bias) : j ∈ procList net := by
  simp only [procList, orderOf, List.mem_append] at hj ⊢
  rcases hj with ((h | h) | h) | h
  · obtain ⟨nd', h1, h2⟩ := (mem_idxOfKind net _ j).mp h
    rw [hn] at h1
    simp only [Option.some.injEq] at h1
    subst h1
    exact absurd h2 hk
  · exact Or.inl (Or.inl h)
  · exact Or.inr h
  · exact Or.inl (Or.inr h)

/-- the connections into fast index `idx j` are exactly those emitted for node `j` -/
theorem filter_conns (net : Net W) {lvl : Nat → Nat} (hwf : TWF net lvl) (j : Nat) (hj : j ∈ orderOf net) (L : List Nat)
    (hL : ∀ a ∈ L, a ∈ orderOf net) (hnd : L.Nodup) :
    (L.flatMap (connsOf net)).filter (fun c => c.dst == idx net j) = if j ∈ L then connsOf net j else [] := by
  induction L with
  | nil => simp
  | cons a L ih =>
    obtain ⟨ha, hnd'⟩ := List.nodup_cons.mp hnd
    rw [List.flatMap_cons, List.filter_append, ih (fun a' h' => hL a' (by simp [h'])) hnd']
    by_cases haj : a = j
    · subst haj
      have : (connsOf net a).filter (fun c => c.dst == idx net a) = connsOf net a := by
        rw [List.filter_eq_self]
        intro c hc
        obtain ⟨_, _, _, rfl⟩ := (mem_connsOf net a c).mp hc
        simp
      simp [this, ha]
    · have : (connsOf net a).filter (fun c => c.dst == idx net j) = [] := by
        rw [List.filter_eq_nil_iff]
        intro c hc
        obtain ⟨_, _, _, rfl⟩ := (mem_connsOf net a c).mp hc
        simp only [beq_iff_eq]
        exact fun hh => haj (idx_inj net hwf _ _ (hL a (by simp)) hj hh)
      have hne : ¬ j = a := fun h => haj h.symm
      simp [this, hne]

theorem conns_into (net : Net W) {lvl : Nat → Nat} (hwf : TWF net lvl) (fn : FastNet W) (h : OfNet net fn) (j : Nat)
    (hj : j ∈ procList net) : fn.conns.filter (fun c => c.dst == idx net j) = connsOf net j := by
  rw [h.tia.conns, filter_conns net hwf j (procList_mem_order net j hj) (procList net)
    (fun a ha => procList_mem_order net a ha) (procList_nodup net hwf)]
  simp [hj]

theorem no_bias (net : Net W) (fn : FastNet W) (h : OfNet net fn) (h0 : ¬ fn.nBias > 0) : ∀ j, isBiasAt net j = false := by
  intro j
  cases hb : isBiasAt net j with
  | false => rfl
  | true =>
    simp only [isBiasAt, kindAt, beq_iff_eq, Option.map_eq_some_iff] at hb
    have hm := (mem_idxOfKind net Kind.bias j).mpr hb
    have : (idxOfKind net Kind.bias).length = 0 := by rw [← h.nBias]; omega
    rw [List.length_eq_zero_iff] at this
    rw [this] at hm
    simp at hm

/-- every node has a fast index (the index order is duplicate-free, inside the node table and as long as it) -/
theorem order_covers (net : Net W) {lvl : Nat → Nat} (hwf : TWF net lvl) (i : Nat) (hi : i < net.nodes.length) :
    i ∈ orderOf net := by
  have hsub : orderOf net ⊆ List.range net.nodes.length := by
    intro j hj
    obtain ⟨nd, hn⟩ := order_valid net hwf j hj
    exact List.mem_range.mpr (valid_lt net j nd hn)
  have hp := ((order_nodup net hwf).subperm hsub).perm_of_length_le (by rw [hwf.len]; simp)
  exact hp.mem_iff.mpr (List.mem_range.mpr hi)

/-! ### 8. Kind B: the folded biases and `fvalNode (ofNet net) (idx i) = evalNode net i` -/

section Exact
variable {K : Type} [Scalar K] [CommSemiring K] [ExactArith K]

structure TIB (net : Net K) (vals sig : Nat → K) (done : List Nat) (b : List K) (c : List (FLink K)) : Prop where
  len : b.length = net.nodes.length
  self : ∀ i ∈ done, i ∈ orderOf net
  sum : ∀ i ∈ done, tFold sig (connsOf net i) 0 + getW b (idx net i) = linkSum vals (incOf net i) 0
  zero : ∀ t, (∀ i ∈ done, t ≠ idx net i) → getW b t = 0

theorem TIB_step (net : Net K) {lvl : Nat → Nat} (hwf : TWF net lvl) (vals sig : Nat → K)
    (Hval : ∀ (j : Nat) (sn : NNodeS K), net.nodes[j]? = some sn → (sn.kind == Kind.bias) = true → vals j = 1)
    (Hsig : ∀ j, j ∈ orderOf net → sig (idx net j) = vals j)
    (all : List Nat) (hall : all.Nodup) (done : List Nat) (i : Nat) (rest : List Nat) (nd : NNodeS K) (t : Nat)
    (b : List K) (c : List (FLink K)) (b1 : List K) (c1 : List (FLink K)) (hsplit : all = done ++ i :: rest)
    (hn : net.nodes[i]? = some nd) (hl : lookupId (lkOf net) nd.id = some t)
    (hlinks : procIncoming.links net (lkOf net) t nd.incoming b c = .ok (b1, c1)) (hP : TIB net vals sig done b c) :
    TIB net vals sig (done ++ [i]) b1 c1 := by
  obtain ⟨hmem, ht⟩ := lookup_idx net hwf i t nd hn hl
  obtain ⟨h1, _, _, _⟩ := links_shape net hwf t nd.incoming b c b1 c1 hlinks
  have hinc := incOf_eq net i nd hn
  have htl : t < b.length := by rw [hP.len, ← hwf.len, ht]; exact idx_lt net hwf i hmem
  obtain ⟨new, g1, _, g3, g4, g5⟩ := translation_node net (lkOf net) t vals sig nd.incoming b c b1 c1 htl hlinks
    (fun l _ sn hsn hb => Hval l.src sn hsn hb)
    (fun l _ sn sIdx hsn hlk _ => by
      obtain ⟨hm, hs⟩ := lookup_idx net hwf l.src sIdx sn hsn hlk
      rw [hs]; exact Hsig _ hm)
  have hnew : new = connsOf net i := by
    have := List.append_cancel_left (g1.symm.trans h1)
    rw [this, connsOf, hinc, ht]
  have hid : i ∉ done := by
    rw [hsplit] at hall
    intro hi
    exact (List.nodup_append.mp hall).2.2 i hi i (by simp) rfl
  have hne : ∀ i' ∈ done, idx net i' ≠ t := by
    intro i' hi' he
    rw [ht] at he
    exact hid (idx_inj net hwf _ _ (hP.self i' hi') hmem he ▸ hi')
  refine ⟨by rw [g3, hP.len], ?_, ?_, ?_⟩
  · intro i' hi'
    rcases List.mem_append.mp hi' with h | h
    · exact hP.self i' h
    · simp only [List.mem_singleton] at h; subst h; exact hmem
  · intro i' hi'
    rcases List.mem_append.mp hi' with h | h
    · rw [g4 _ (hne i' h)]; exact hP.sum i' h
    · simp only [List.mem_singleton] at h
      subst h
      rw [← hnew, ← ht, g5, hinc, hP.zero t (fun i'' h'' => (hne i'' h'').symm), zero_add]
  · intro t' ht'
    have : t' ≠ t := by rw [ht]; exact ht' i (by simp)
    rw [g4 t' this]
    exact hP.zero t' (fun i' h' => ht' i' (by simp [h']))

theorem ofNet_TIB (net : Net K) {lvl : Nat → Nat} (hwf : TWF net lvl) (fn : FastNet K) (h : ofNet net = .ok fn)
    (vals sig : Nat → K)
    (Hval : ∀ (j : Nat) (sn : NNodeS K), net.nodes[j]? = some sn → (sn.kind == Kind.bias) = true → vals j = 1)
    (Hsig : ∀ j, j ∈ orderOf net → sig (idx net j) = vals j) :
    TIB net vals sig (procList net) fn.biasList fn.conns := by
  obtain ⟨b1, c1, b2, c2, b3, c3, h1, h2, h3, rfl⟩ := ofNet_inv net fn h
  have step := fun done i (rest : List Nat) nd t b c b1 c1 (hs : procList net = done ++ i :: rest) hn hl hlinks hP =>
    TIB_step net hwf vals sig Hval Hsig (procList net) (procList_nodup net hwf) done i rest nd t b c b1 c1 hs hn hl hlinks hP
  have rule := procIncoming_inv net (lkOf net) (TIB net vals sig) (procList net) step
  obtain ⟨s1, s2, s3⟩ := procList_split net
  have t0 : TIB net vals sig [] (List.replicate net.nodes.length (Scalar.zero : K)) [] :=
    ⟨by simp, by simp, by simp, fun t _ => by rw [getW_replicate_zero, ExactArith.zero_eq]⟩
  have t1 := rule _ [] _ _ _ _ _ s1 h1 t0
  have t2 := rule _ _ _ _ _ _ _ s2 h2 t1
  have t3 := rule _ _ [] _ _ _ _ s3 h3 t2
  exact t3

theorem sumIn_linkSum (ev : Nat → Option K) (vals : Nat → K) (ls : List (NLink K))
    (h : ∀ l ∈ ls, ev l.src = some (vals l.src)) (acc : K) : sumIn ev ls acc = some (linkSum vals ls acc) := by
  induction ls generalizing acc with
  | nil => rfl
  | cons l ls ih =>
    unfold sumIn
    rw [h l (by simp)]
    simp only
    rw [ih (fun l' h' => h l' (by simp [h']))]
    simp [linkSum]

theorem evalNode_sensor (net : Net K) (σ : Nat → K → Option K) (sens : Nat → K) (f j : Nat) (nd : NNodeS K)
    (hn : net.nodes[j]? = some nd) (hs : nd.isSensor = true) : evalNode net σ sens (f + 1) j = some (sens j) := by
  unfold evalNode
  simp [hn, hs]

/-- **The translation, globally (Kind B).**  For every non-bias node `j` that received a fast index: the feed-forward
    value of the fast representation at `idx j` is the feed-forward value of the network at `j`. -/
theorem fval_eq_eval_aux (net : Net K) (σ : Nat → K → Option K) (lvl : Nat → Nat) (hff : Solver.FFProps net lvl)
    (hwf : TWF net lvl) (fn : FastNet K) (hofn : ofNet net = .ok fn)
    (hσ : ∀ (i : Nat) (nd : NNodeS K), net.nodes[i]? = some nd → nd.isNeuron = true → ∀ x, (σ nd.act x).isSome = true)
    (sens sigF : Nat → K)
    (hb : ∀ (j : Nat) (nd : NNodeS K), net.nodes[j]? = some nd → (nd.kind == Kind.bias) = true → sens j = 1)
    (hs : ∀ (j : Nat) (nd : NNodeS K), net.nodes[j]? = some nd → nd.kind = Kind.input → sigF (idx net j) = sens j) :
    ∀ (n j : Nat) (nd : NNodeS K), j ∈ orderOf net → net.nodes[j]? = some nd → nd.kind ≠ Kind.bias → lvl j ≤ n →
      ∃ v, evalNode net σ sens (lvl j + 1) j = some v ∧ fvalNode fn σ sigF (lvl j + 1) (idx net j) = some v := by
  have hF := ofNet_facts net hwf fn hofn
  have hall := translated_FFAll net σ lvl hff hwf fn hF hσ
  let vals : Nat → K := fun j => (evalNode net σ sens (lvl j + 1) j).getD 0
  let sig : Nat → K := fun s => vals ((orderOf net).getD s 0)
  have Hval : ∀ (j : Nat) (sn : NNodeS K), net.nodes[j]? = some sn → (sn.kind == Kind.bias) = true → vals j = 1 := by
    intro j sn hsn hbk
    show (evalNode net σ sens (lvl j + 1) j).getD 0 = 1
    rw [evalNode_sensor net σ sens _ j sn hsn (by simp [NNodeS.isSensor, hbk]), Option.getD_some]
    exact hb j sn hsn hbk
  have Hsig : ∀ j, j ∈ orderOf net → sig (idx net j) = vals j := by
    intro j hj
    show vals ((orderOf net).getD (idx net j) 0) = vals j
    rw [order_idx net hwf j hj]
  have hB := ofNet_TIB net hwf fn hofn vals sig Hval Hsig
  intro n
  induction n with
  | zero =>
    intro j nd hj hn hk hl
    -- rank 0: an input sensor (a neuron has rank ≥ 1)
    by_cases hsn : nd.isSensor = true
    · have hki : nd.kind = Kind.input := by
        simp only [NNodeS.isSensor, Bool.or_eq_true, beq_iff_eq] at hsn
        rcases hsn with h | h
        · exact h
        · exact absurd h hk
      refine ⟨sens j, evalNode_sensor net σ sens _ j nd hn hsn, ?_⟩
      unfold fvalNode
      simp only [idx_sensor net fn hF j nd hn hsn, if_true]
      rw [hs j nd hn hki]
    · have := (neuron_facts net lvl hff j nd hn (by simpa using hsn)).2.1
      omega
  | succ n ih =>
    intro j nd hj hn hk hl
    by_cases hsn : nd.isSensor = true
    · have hki : nd.kind = Kind.input := by
        simp only [NNodeS.isSensor, Bool.or_eq_true, beq_iff_eq] at hsn
        rcases hsn with h | h
        · exact h
        · exact absurd h hk
      refine ⟨sens j, evalNode_sensor net σ sens _ j nd hn hsn, ?_⟩
      unfold fvalNode
      simp only [idx_sensor net fn hF j nd hn hsn, if_true]
      rw [hs j nd hn hki]
    · have hsn' : nd.isSensor = false := by simpa using hsn
      obtain ⟨hneu, hpos, hsrc⟩ := neuron_facts net lvl hff j nd hn hsn'
      have hjp := order_mem_procList net j nd hj hn hk
      have hinc := incOf_eq net j nd hn
      -- every source already has its value on both sides
      have hsrcv : ∀ l ∈ nd.incoming, evalNode net σ sens (lvl j) l.src = some (vals l.src) ∧
          (isBiasAt net l.src = false → fvalNode fn σ sigF (lvl j) (idx net l.src) = some (vals l.src)) := by
        intro l hl'
        have hso := hF.tia.src j hjp l (by rw [hinc]; exact hl')
        obtain ⟨sn, hsn2⟩ := order_valid net hwf _ hso
        have hlt := hsrc l hl'
        by_cases hbk : (sn.kind == Kind.bias) = true
        · constructor
          · have h1 := evalNode_sensor net σ sens (lvl l.src) l.src sn hsn2 (by simp [NNodeS.isSensor, hbk])
            have : vals l.src = sens l.src := by
              show (evalNode net σ sens (lvl l.src + 1) l.src).getD 0 = _
              rw [h1, Option.getD_some]
            rw [this]
            have hj1 : lvl j = (lvl j - 1) + 1 := by omega
            rw [hj1]
            exact evalNode_sensor net σ sens _ l.src sn hsn2 (by simp [NNodeS.isSensor, hbk])
          · intro hnb
            rw [isBiasAt_eq net l.src sn hsn2, hbk] at hnb
            simp at hnb
        · obtain ⟨v, e1, e2⟩ := ih l.src sn hso hsn2 (by simpa using hbk) (by omega)
          have : vals l.src = v := by
            show (evalNode net σ sens (lvl l.src + 1) l.src).getD 0 = _
            rw [e1, Option.getD_some]
          rw [this]
          exact ⟨Solver.evalNode_mono_le net σ sens _ _ (by omega) _ _ e1,
            fun _ => fvalNode_mono_le fn σ sigF _ _ (by omega) _ _ e2⟩
      -- the network side
      have hE : evalNode net σ sens (lvl j + 1) j = σ nd.act (linkSum vals nd.incoming 0) := by
        conv => lhs; unfold evalNode
        simp only [hn, hsn', Bool.false_eq_true, if_false]
        rw [sumIn_linkSum _ vals nd.incoming (fun l hl' => (hsrcv l hl').1), ExactArith.zero_eq]
      -- the fast side
      have hidx := idx_neuron net fn hF j nd hn hsn'
      have hget : (orderOf net)[idx net j]? = some j := by
        have := idx_lt net hwf j hj
        rw [List.getElem?_eq_getElem this]
        exact congrArg some (List.getElem_idxOf this)
      have hA : adjSum fn (fvalNode fn σ sigF (lvl j)) (idx net j) (revAdj fn (idx net j)) Scalar.zero =
          some (tFold sig (connsOf net j) 0) := by
        unfold revAdj
        rw [adjSum_tFold fn hall.nd _ sig (idx net j) _ (fun c hc => by
            simp only [List.mem_filter, beq_iff_eq] at hc; exact hc) (fun c hc => ?_) _,
          conns_into net hwf fn hF j hjp, ExactArith.zero_eq]
        rw [conns_into net hwf fn hF j hjp] at hc
        obtain ⟨l, hl', hnb, rfl⟩ := (mem_connsOf net j c).mp hc
        rw [hinc] at hl'
        simp only
        rw [(hsrcv l hl').2 hnb, Hsig _ (hF.tia.src j hjp l (by rw [hinc]; exact hl'))]
      have hsum := hB.sum j hjp
      rw [hinc] at hsum
      have hFv : fvalNode fn σ sigF (lvl j + 1) (idx net j) = σ nd.act (linkSum vals nd.incoming 0) := by
        conv => lhs; unfold fvalNode
        have hns : ¬ idx net j < fn.nSensor := by omega
        simp only [hns, if_false, hA]
        rw [acts_get net fn hF _ j nd hget hn]
        by_cases hnb : fn.nBias > 0
        · simp only [hnb, if_true]
          rw [ExactArith.add_eq, hsum]
        · simp only [hnb, if_false]
          have hz := hF.tia.nob (no_bias net fn hF hnb) (idx net j)
          rw [hz, ExactArith.zero_eq, add_zero] at hsum
          rw [hsum]
      have hsome := hσ j nd hn hneu (linkSum vals nd.incoming 0)
      obtain ⟨v, hv⟩ := Option.isSome_iff_exists.mp hsome
      exact ⟨v, by rw [hE, hv], by rw [hFv, hv]⟩

end Exact

end GoNeat.Fast
