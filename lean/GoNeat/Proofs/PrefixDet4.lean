/-
  C17 support, part 4: the error twin (`ErrPrefixDet`) for every composite operator up to `run`.
  The proofs are the exact twins of those in `PrefixDet.lean` / `PrefixDet2.lean`, with `epd_auto` for `pd_auto`.
-/
import GoNeat.Proofs.PrefixDet3

namespace GoNeat
open Scalar
variable {W : Type} [Scalar W]

/-! ### composite operators: Mutate -/

theorem newLinkWeight_errPrefixDet : ErrPrefixDet (newLinkWeight (W := W)) := by
  unfold newLinkWeight
  epd_auto

macro_rules | `(tactic| epd_leaf) => `(tactic| with_reducible exact newLinkWeight_errPrefixDet)

theorem singleRouletteThrow_errPrefixDet (probs : List W) : ErrPrefixDet (singleRouletteThrow probs) := by
  unfold singleRouletteThrow
  epd_auto

macro_rules | `(tactic| epd_leaf) => `(tactic| with_reducible exact singleRouletteThrow_errPrefixDet _)

theorem randomNodeActivationType_errPrefixDet (o : MutOpts W) : ErrPrefixDet (randomNodeActivationType o) := by
  unfold randomNodeActivationType
  epd_auto

macro_rules | `(tactic| epd_leaf) => `(tactic| with_reducible exact randomNodeActivationType_errPrefixDet _)

theorem linkWeightsLoop_errPrefixDet (power rate : W) (mt : WeightMutator) (severe : Bool) (genesCount endPart : W)
    (l : List (Gene W)) (num : W) :
    ErrPrefixDet (linkWeightsLoop power rate mt severe genesCount endPart l num) := by
  induction l generalizing num with
  | nil => epd_unfold linkWeightsLoop; epd_auto
  | cons x xs ih => epd_unfold linkWeightsLoop; epd_auto

macro_rules | `(tactic| epd_leaf) => `(tactic| with_reducible exact linkWeightsLoop_errPrefixDet _ _ _ _ _ _ _ _)

theorem mutateLinkWeights_errPrefixDet (g : Genome W) (power rate : W) (mt : WeightMutator) :
    ErrPrefixDet (mutateLinkWeights g power rate mt) := by
  unfold mutateLinkWeights
  epd_auto

macro_rules | `(tactic| epd_leaf) => `(tactic| with_reducible exact mutateLinkWeights_errPrefixDet _ _ _ _)

theorem traitMutateParams_errPrefixDet (power prob : W) (l : List W) : ErrPrefixDet (traitMutateParams power prob l) := by
  induction l with
  | nil => epd_unfold traitMutateParams; epd_auto
  | cons x xs ih => epd_unfold traitMutateParams; epd_auto

macro_rules | `(tactic| epd_leaf) => `(tactic| with_reducible exact traitMutateParams_errPrefixDet _ _ _)

theorem mutateRandomTrait_errPrefixDet (g : Genome W) (o : MutOpts W) : ErrPrefixDet (mutateRandomTrait g o) := by
  unfold mutateRandomTrait
  epd_auto

macro_rules | `(tactic| epd_leaf) => `(tactic| with_reducible exact mutateRandomTrait_errPrefixDet _ _)

omit [Scalar W] in
theorem mutateLinkTrait_errPrefixDet (g : Genome W) (n : Nat) : ErrPrefixDet (mutateLinkTrait g n) := by
  induction n generalizing g with
  | zero => epd_unfold mutateLinkTrait; epd_auto
  | succ n ih => epd_unfold mutateLinkTrait; epd_auto

macro_rules | `(tactic| epd_leaf) => `(tactic| with_reducible exact mutateLinkTrait_errPrefixDet _ _)

omit [Scalar W] in
theorem mutateNodeTrait_errPrefixDet (g : Genome W) (n : Nat) : ErrPrefixDet (mutateNodeTrait g n) := by
  induction n generalizing g with
  | zero => epd_unfold mutateNodeTrait; epd_auto
  | succ n ih => epd_unfold mutateNodeTrait; epd_auto

macro_rules | `(tactic| epd_leaf) => `(tactic| with_reducible exact mutateNodeTrait_errPrefixDet _ _)

omit [Scalar W] in
theorem mutateToggleEnable_errPrefixDet (g : Genome W) (n : Nat) : ErrPrefixDet (mutateToggleEnable g n) := by
  induction n generalizing g with
  | zero => epd_unfold mutateToggleEnable; epd_auto
  | succ n ih => epd_unfold mutateToggleEnable; epd_auto

macro_rules | `(tactic| epd_leaf) => `(tactic| with_reducible exact mutateToggleEnable_errPrefixDet _ _)

theorem mutateAllNonstructural_errPrefixDet (g : Genome W) (o : MutOpts W) : ErrPrefixDet (mutateAllNonstructural g o) := by
  unfold mutateAllNonstructural
  epd_auto

macro_rules | `(tactic| epd_leaf) => `(tactic| with_reducible exact mutateAllNonstructural_errPrefixDet _ _)

/-! #### mutateAddLink -/

theorem pickDistinct_errPrefixDet (nodesLen fns fuel : Nat) : ErrPrefixDet (pickDistinct nodesLen fns fuel) := by
  induction fuel with
  | zero => epd_unfold pickDistinct; epd_auto
  | succ n ih => epd_unfold pickDistinct; epd_auto

/-- fuel independence of a model error of `pickDistinct` -/
theorem pickDistinct_fuel_err (nodesLen fns : Nat) : ∀ fuel rs e, pickDistinct nodesLen fns fuel rs = .error (.error e) →
    ∃ used tail, rs = used ++ tail ∧
      ∀ fuel' rs', 1 ≤ fuel' → used.length ≤ fuel' →
        pickDistinct nodesLen fns fuel' (used ++ rs') = .error (.error e) := by
  intro fuel
  induction fuel with
  | zero => intro rs e h; simp only [pickDistinct] at h; cases h
  | succ fuel ih =>
    intro rs e h
    simp only [pickDistinct] at h
    split at h
    · next x h1 =>
      cases h
      obtain ⟨u, t, rfl, rep⟩ := Rand.intn_errPrefixDet _ _ _ h1
      refine ⟨u, t, rfl, fun fuel' rs' hf1 _ => ?_⟩
      cases fuel' with
      | zero => omega
      | succ f => simp only [pickDistinct, rep]
    · next n1 rs1 h1 =>
      obtain ⟨u1, hu1, rfl, rep1⟩ := Rand.intn_prefixDet1 _ _ _ _ h1
      have l1 : 1 ≤ u1.length := List.length_pos_iff.mpr hu1
      split at h
      · next x h2 =>
        cases h
        obtain ⟨u2, t, rfl, rep2⟩ := Rand.intn_errPrefixDet _ _ _ h2
        refine ⟨u1 ++ u2, t, by simp, fun fuel' rs' hf1 _ => ?_⟩
        cases fuel' with
        | zero => omega
        | succ f => simp only [pickDistinct, List.append_assoc, rep1, rep2]
      · next k rs2 h2 =>
        obtain ⟨u2, hu2, rfl, rep2⟩ := Rand.intn_prefixDet1 _ _ _ _ h2
        have l2 : 1 ≤ u2.length := List.length_pos_iff.mpr hu2
        split at h
        · next hc =>
          obtain ⟨u3, t, rfl, rep3⟩ := ih _ _ h
          refine ⟨u1 ++ (u2 ++ u3), t, by simp, fun fuel' rs' _ hf => ?_⟩
          simp only [List.length_append] at hf
          cases fuel' with
          | zero => omega
          | succ f =>
            simp only [pickDistinct, List.append_assoc, rep1, rep2, hc, if_true]
            exact rep3 _ _ (by omega) (by omega)
        · cases h

theorem pickDistinct_len_errPrefixDet (nodesLen fns : Nat) :
    ErrPrefixDet (fun rs => pickDistinct nodesLen fns rs.length rs) := by
  intro rs e h
  replace h : pickDistinct nodesLen fns rs.length rs = .error (.error e) := h
  obtain ⟨u, t, rfl, rep⟩ := pickDistinct_fuel_err _ _ _ _ _ h
  cases t with
  | nil =>
    cases u with
    | nil => simp [pickDistinct] at h
    | cons x u' => exact ⟨x :: u', [], rfl, fun rs' => rep _ _ (by simp) (by simp)⟩
  | cons y t' =>
    refine ⟨u ++ [y], t', by simp, fun rs' => ?_⟩
    have := rep (u ++ [y] ++ rs').length ([y] ++ rs') (by simp; omega) (by simp)
    simpa [List.append_assoc] using this

macro_rules | `(tactic| epd_leaf) => `(tactic| with_reducible exact pickDistinct_len_errPrefixDet _ _)

theorem pickPair_errPrefixDet (nodesLen fns : Nat) (doRecur : Bool) : ErrPrefixDet (pickPair (W := W) nodesLen fns doRecur) := by
  unfold pickPair
  epd_auto

macro_rules | `(tactic| epd_leaf) => `(tactic| with_reducible exact pickPair_errPrefixDet _ _ _)

theorem findOpenLink_errPrefixDet (g : Genome W) (fns : Nat) (doRecur : Bool) (tries : Nat) (last : Option (Node × Node)) :
    ErrPrefixDet (findOpenLink g fns doRecur tries last) := by
  induction tries generalizing last with
  | zero => epd_unfold findOpenLink; epd_auto
  | succ n ih => epd_unfold findOpenLink; epd_auto

macro_rules | `(tactic| epd_leaf) => `(tactic| with_reducible exact findOpenLink_errPrefixDet _ _ _ _ _)

theorem mutateAddLink_errPrefixDet (g : Genome W) (reg : Reg W) (o : MutOpts W) : ErrPrefixDet (mutateAddLink g reg o) := by
  unfold mutateAddLink
  epd_auto

macro_rules | `(tactic| epd_leaf) => `(tactic| with_reducible exact mutateAddLink_errPrefixDet _ _ _)

/-! #### mutateAddNode -/

theorem pickSplitSmall_errPrefixDet (g : Genome W) (l : List (Gene W)) (i : Nat) : ErrPrefixDet (pickSplitSmall g l i) := by
  induction l generalizing i with
  | nil => epd_unfold pickSplitSmall; epd_auto
  | cons x xs ih => epd_unfold pickSplitSmall; epd_auto

macro_rules | `(tactic| epd_leaf) => `(tactic| with_reducible exact pickSplitSmall_errPrefixDet _ _ _)

omit [Scalar W] in
theorem pickSplitLarge_errPrefixDet (g : Genome W) (tries : Nat) : ErrPrefixDet (pickSplitLarge g tries) := by
  induction tries with
  | zero => epd_unfold pickSplitLarge; epd_auto
  | succ n ih => epd_unfold pickSplitLarge; epd_auto

macro_rules | `(tactic| epd_leaf) => `(tactic| with_reducible exact pickSplitLarge_errPrefixDet _ _)

theorem mutateAddNode_errPrefixDet (g : Genome W) (reg : Reg W) (o : MutOpts W) : ErrPrefixDet (mutateAddNode g reg o) := by
  unfold mutateAddNode
  epd_auto

macro_rules | `(tactic| epd_leaf) => `(tactic| with_reducible exact mutateAddNode_errPrefixDet _ _ _)

/-! #### mutateConnectSensors -/

theorem connectOne_errPrefixDet (sensor output : Node) (g : Genome W) (reg : Reg W) (linkAdded : Bool) :
    ErrPrefixDet (connectOne sensor output g reg linkAdded) := by
  unfold connectOne
  epd_auto

macro_rules | `(tactic| epd_leaf) => `(tactic| with_reducible exact connectOne_errPrefixDet _ _ _ _ _)

theorem connectLoop_errPrefixDet (sensor : Node) (l : List Node) (g : Genome W) (reg : Reg W) (added : Bool) :
    ErrPrefixDet (connectLoop sensor l g reg added) := by
  induction l generalizing g reg added with
  | nil => epd_unfold connectLoop; epd_auto
  | cons x xs ih => epd_unfold connectLoop; epd_auto

macro_rules | `(tactic| epd_leaf) => `(tactic| with_reducible exact connectLoop_errPrefixDet _ _ _ _ _)

theorem mutateConnectSensors_errPrefixDet (g : Genome W) (reg : Reg W) : ErrPrefixDet (mutateConnectSensors g reg) := by
  unfold mutateConnectSensors
  epd_auto

macro_rules | `(tactic| epd_leaf) => `(tactic| with_reducible exact mutateConnectSensors_errPrefixDet _ _)

/-! ### composite operators: Mate -/

theorem disableDraw_errPrefixDet (e1 e2 : Bool) : ErrPrefixDet (disableDraw (W := W) e1 e2) := by
  unfold disableDraw
  epd_auto

macro_rules | `(tactic| epd_leaf) => `(tactic| with_reducible exact disableDraw_errPrefixDet _ _)

theorem multipointWalk_errPrefixDet (p1 p2 : Genome W) (newTraits : List (Trait W)) (t0 : Option Int) (better : Bool)
    (l1 l2 : List (Gene W)) (acc : MateAcc W) :
    ErrPrefixDet (multipointWalk p1 p2 newTraits t0 better l1 l2 acc) := by
  induction l1 generalizing l2 acc with
  | nil =>
    induction l2 generalizing acc with
    | nil => epd_unfold multipointWalk; epd_auto
    | cons y ys ih2 => epd_unfold multipointWalk; epd_auto
  | cons x xs ih1 =>
    induction l2 generalizing acc with
    | nil => epd_unfold multipointWalk; epd_auto
    | cons y ys ih2 => epd_unfold multipointWalk; epd_auto

macro_rules | `(tactic| epd_leaf) => `(tactic| with_reducible exact multipointWalk_errPrefixDet _ _ _ _ _ _ _ _)

theorem mateMultipoint_errPrefixDet (g og : Genome W) (genomeId : Int) (f1 f2 : W) :
    ErrPrefixDet (mateMultipoint g og genomeId f1 f2) := by
  unfold mateMultipoint
  epd_auto

macro_rules | `(tactic| epd_leaf) => `(tactic| with_reducible exact mateMultipoint_errPrefixDet _ _ _ _ _)

theorem avgChosen_errPrefixDet (p1 p2 : Genome W) (x y : Gene W) : ErrPrefixDet (avgChosen p1 p2 x y) := by
  unfold avgChosen
  epd_auto

macro_rules | `(tactic| epd_leaf) => `(tactic| with_reducible exact avgChosen_errPrefixDet _ _ _ _)

theorem multipointAvgWalk_errPrefixDet (p1 p2 : Genome W) (newTraits : List (Trait W)) (t0 : Option Int) (better : Bool)
    (l1 l2 : List (Gene W)) (acc : MateAcc W) :
    ErrPrefixDet (multipointAvgWalk p1 p2 newTraits t0 better l1 l2 acc) := by
  induction l1 generalizing l2 acc with
  | nil =>
    induction l2 generalizing acc with
    | nil => epd_unfold multipointAvgWalk; epd_auto
    | cons y ys ih2 => epd_unfold multipointAvgWalk; epd_auto
  | cons x xs ih1 =>
    induction l2 generalizing acc with
    | nil => epd_unfold multipointAvgWalk; epd_auto
    | cons y ys ih2 => epd_unfold multipointAvgWalk; epd_auto

macro_rules | `(tactic| epd_leaf) => `(tactic| with_reducible exact multipointAvgWalk_errPrefixDet _ _ _ _ _ _ _ _)

theorem mateMultipointAvg_errPrefixDet (g og : Genome W) (genomeId : Int) (f1 f2 : W) :
    ErrPrefixDet (mateMultipointAvg g og genomeId f1 f2) := by
  unfold mateMultipointAvg
  epd_auto

macro_rules | `(tactic| epd_leaf) => `(tactic| with_reducible exact mateMultipointAvg_errPrefixDet _ _ _ _ _)

theorem singlePointWalk_errPrefixDet (q1 q2 : Genome W) (newTraits : List (Trait W)) (t0 : Option Int) (crossPoint : Nat)
    (l1 l2 : List (Gene W)) (gc : Nat) (last : Option (Chosen W)) (acc : MateAcc W) :
    ErrPrefixDet (singlePointWalk q1 q2 newTraits t0 crossPoint l1 l2 gc last acc) := by
  induction l1 generalizing l2 gc last acc with
  | nil =>
    induction l2 generalizing gc last acc with
    | nil => epd_unfold singlePointWalk; epd_auto
    | cons y ys ih2 => epd_unfold singlePointWalk; epd_auto
  | cons x xs ih1 =>
    induction l2 generalizing gc last acc with
    | nil => epd_unfold singlePointWalk; epd_auto
    | cons y ys ih2 => cases last <;> (epd_unfold singlePointWalk; epd_auto)

macro_rules | `(tactic| epd_leaf) => `(tactic| with_reducible exact singlePointWalk_errPrefixDet _ _ _ _ _ _ _ _ _ _)

theorem mateSinglePoint_errPrefixDet (g og : Genome W) (genomeId : Int) : ErrPrefixDet (mateSinglePoint g og genomeId) := by
  unfold mateSinglePoint
  epd_auto

macro_rules | `(tactic| epd_leaf) => `(tactic| with_reducible exact mateSinglePoint_errPrefixDet _ _ _)


/-! ### Population -/

theorem giveLoop_errPrefixDet (o : EpochOpts W) (blocks : List Int) (l : List (Species W)) (blockIndex : Nat) (stolen : Int) :
    ErrPrefixDet (giveLoop o blocks l blockIndex stolen) := by
  induction l generalizing blockIndex stolen with
  | nil => epd_unfold giveLoop; epd_auto
  | cons s ss ih => epd_unfold giveLoop; epd_auto

macro_rules | `(tactic| epd_leaf) => `(tactic| with_reducible exact giveLoop_errPrefixDet _ _ _ _ _)

theorem giveBabiesToTheBest_errPrefixDet (sorted : List (Species W)) (o : EpochOpts W) :
    ErrPrefixDet (giveBabiesToTheBest sorted o) := by
  unfold giveBabiesToTheBest
  epd_auto

macro_rules | `(tactic| epd_leaf) => `(tactic| with_reducible exact giveBabiesToTheBest_errPrefixDet _ _)

theorem spawnLoop_errPrefixDet (g : Genome W) (n : Nat) (count : Int) (uid : Nat) : ErrPrefixDet (spawnLoop g n count uid) := by
  induction n generalizing count uid with
  | zero => epd_unfold spawnLoop; epd_auto
  | succ n ih => epd_unfold spawnLoop; epd_auto

macro_rules | `(tactic| epd_leaf) => `(tactic| with_reducible exact spawnLoop_errPrefixDet _ _ _ _)

theorem spawn_errPrefixDet (o : EpochOpts W) (g : Genome W) : ErrPrefixDet (spawn o g) := by
  unfold spawn
  epd_auto

macro_rules | `(tactic| epd_leaf) => `(tactic| with_reducible exact spawn_errPrefixDet _ _)

/-! ### Epoch -/

theorem mutateBaby_errPrefixDet (o : EpochOpts W) (g : Genome W) (reg : Reg W) : ErrPrefixDet (mutateBaby o g reg) := by
  unfold mutateBaby
  epd_auto

macro_rules | `(tactic| epd_leaf) => `(tactic| with_reducible exact mutateBaby_errPrefixDet _ _ _)

theorem pickOtherSpecies_errPrefixDet (s : Species W) (sorted : List (Species W)) (giveup : Nat) (cur : Species W) :
    ErrPrefixDet (pickOtherSpecies s sorted giveup cur) := by
  induction giveup generalizing cur with
  | zero => epd_unfold pickOtherSpecies; epd_auto
  | succ n ih => epd_unfold pickOtherSpecies; epd_auto

macro_rules | `(tactic| epd_leaf) => `(tactic| with_reducible exact pickOtherSpecies_errPrefixDet _ _ _ _)

theorem reproduceOne_errPrefixDet (o : EpochOpts W) (generation : Int) (s : Species W) (sorted : List (Species W))
    (champ : Org W) (count : Int) (st : ReproState W) :
    ErrPrefixDet (reproduceOne o generation s sorted champ count st) := by
  unfold reproduceOne
  epd_auto

macro_rules | `(tactic| epd_leaf) => `(tactic| with_reducible exact reproduceOne_errPrefixDet _ _ _ _ _ _ _)

theorem reproduceLoop_errPrefixDet (o : EpochOpts W) (generation : Int) (s : Species W) (sorted : List (Species W))
    (champ : Org W) (n : Nat) (count : Int) (st : ReproState W) :
    ErrPrefixDet (reproduceLoop o generation s sorted champ n count st) := by
  induction n generalizing count st with
  | zero => epd_unfold reproduceLoop; epd_auto
  | succ n ih => epd_unfold reproduceLoop; epd_auto

macro_rules | `(tactic| epd_leaf) => `(tactic| with_reducible exact reproduceLoop_errPrefixDet _ _ _ _ _ _ _ _)

theorem reproduceSpecies_errPrefixDet (o : EpochOpts W) (generation : Int) (s : Species W) (sorted : List (Species W))
    (reg : Reg W) (nextUid : Nat) :
    ErrPrefixDet (reproduceSpecies o generation s sorted reg nextUid) := by
  unfold reproduceSpecies
  epd_auto

macro_rules | `(tactic| epd_leaf) => `(tactic| with_reducible exact reproduceSpecies_errPrefixDet _ _ _ _ _ _)

theorem reproduceAll_errPrefixDet (o : EpochOpts W) (generation : Int) (sorted : List (Species W)) (l : List (Species W))
    (reg : Reg W) (uid : Nat) (babies : List (Org W)) :
    ErrPrefixDet (reproduceAll o generation sorted l reg uid babies) := by
  induction l generalizing reg uid babies with
  | nil => epd_unfold reproduceAll; epd_auto
  | cons s ss ih => epd_unfold reproduceAll; epd_auto

macro_rules | `(tactic| epd_leaf) => `(tactic| with_reducible exact reproduceAll_errPrefixDet _ _ _ _ _ _ _)

theorem prepareForReproduction_errPrefixDet (o : EpochOpts W) (p : Pop W) : ErrPrefixDet (prepareForReproduction o p) := by
  unfold prepareForReproduction
  epd_auto

macro_rules | `(tactic| epd_leaf) => `(tactic| with_reducible exact prepareForReproduction_errPrefixDet _ _)

theorem reproducePhase_errPrefixDet (o : EpochOpts W) (generation : Int) (p : Pop W) (ex : ExecState) :
    ErrPrefixDet (reproducePhase o generation p ex) := by
  unfold reproducePhase
  epd_auto

macro_rules | `(tactic| epd_leaf) => `(tactic| with_reducible exact reproducePhase_errPrefixDet _ _ _ _)

theorem nextEpoch_errPrefixDet (o : EpochOpts W) (generation : Int) (p : Pop W) : ErrPrefixDet (nextEpoch o generation p) := by
  unfold nextEpoch
  epd_auto

macro_rules | `(tactic| epd_leaf) => `(tactic| with_reducible exact nextEpoch_errPrefixDet _ _ _)

/-! ### Evolve -/

theorem evolve_errPrefixDet (o : EpochOpts W) (fit : Int → Genome W → W) (k : Nat) (generation : Int) (p : Pop W) :
    ErrPrefixDet (evolve o fit k generation p) := by
  induction k generalizing generation p with
  | zero => epd_unfold evolve; epd_auto
  | succ k ih => epd_unfold evolve; epd_auto

macro_rules | `(tactic| epd_leaf) => `(tactic| with_reducible exact evolve_errPrefixDet _ _ _ _ _)

theorem evolveTrace_errPrefixDet (o : EpochOpts W) (fit : Int → Genome W → W) (k : Nat) (generation : Int) (p : Pop W) :
    ErrPrefixDet (evolveTrace o fit k generation p) := by
  induction k generalizing generation p with
  | zero => epd_unfold evolveTrace; epd_auto
  | succ k ih => epd_unfold evolveTrace; epd_auto

theorem run_errPrefixDet (o : EpochOpts W) (fit : Int → Genome W → W) (g : Genome W) (k : Nat) :
    ErrPrefixDet (run o fit g k) := by
  unfold run
  epd_auto


/-- C17, error side: if a run fails with a model error, every stream that starts with the same determining prefix
    fails with the same error -/
theorem run_err_agree (o : EpochOpts W) (fit : Int → Genome W → W) (g : Genome W) (k : Nat)
    {rs : List Nat} {e : String} (h : run o fit g k rs = .error (.error e)) :
    ∃ used tail, rs = used ++ tail ∧ ∀ rs', run o fit g k (used ++ rs') = .error (.error e) :=
  run_errPrefixDet o fit g k rs e h

end GoNeat
