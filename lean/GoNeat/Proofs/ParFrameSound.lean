/-
  C16(b): soundness of the thread-local obligations (`PValid`, Proofs/ParFrameLogic.lean) for every scheduler:
  the global invariant `GInv` is kept by every registry operation of every thread, and each thread's obligation is
  carried along (`thread_step`, `pstep_sound`, `sched_sound`); a finished thread's postcondition can be read off
  (`flush`).
-/
import GoNeat.Proofs.ParFrameLogic

set_option linter.unusedSectionVars false

namespace GoNeat.C16
open GoNeat GoNeat.C03
variable {W : Type}

/-- global ghost state: the union of the bindings held by the threads (and the initial pool), and the drawn but not
    yet recorded numbers / node ids, tagged with the thread that owns them -/
structure Ghost where
  B : List Bind
  R : List Role
  pI : List (Nat × Int)
  pN : List (Nat × Int)

def upd (Ls : Nat → Local W) (t : Nat) (L : Local W) : Nat → Local W := fun u => if u = t then L else Ls u

theorem upd_same (Ls : Nat → Local W) (t : Nat) (L : Local W) : upd Ls t L t = L := by simp [upd]
theorem upd_other (Ls : Nat → Local W) {t u : Nat} (L : Local W) (h : u ≠ t) : upd Ls t L u = Ls u := by simp [upd, h]
theorem upd_upd (Ls : Nat → Local W) (t : Nat) (L1 L2 : Local W) : upd (upd Ls t L1) t L2 = upd Ls t L2 := by
  funext u; by_cases h : u = t <;> simp [upd, h]
theorem upd_self (Ls : Nat → Local W) (t : Nat) : upd Ls t (Ls t) = Ls := by
  funext u; by_cases h : u = t <;> simp [upd, h]

structure GlobOk (bi : Int) (reg : Reg W) (G : Ghost) : Prop where
  inv : InvB reg G.B G.R
  pI_nodup : (G.pI.map (·.2)).Nodup
  pI_le : ∀ p ∈ G.pI, p.2 ≤ reg.nextInn
  pI_B : ∀ p ∈ G.pI, ∀ b ∈ G.B, b.1 ≠ p.2
  pI_rec : ∀ p ∈ G.pI, p.2 ∉ regInns reg
  pN_nodup : (G.pN.map (·.2)).Nodup
  pN_le : ∀ p ∈ G.pN, p.2 ≤ reg.nextNode
  pN_R : ∀ p ∈ G.pN, ∀ r ∈ G.R, r.1 ≠ p.2
  pN_rec : ∀ p ∈ G.pN, p.2 ∉ regNodes reg
  rec_above : ∀ k ∈ regInns reg, bi < k
  pI_above : ∀ p ∈ G.pI, bi < p.2
  bi_le : bi ≤ reg.nextInn

structure LocOk (reg : Reg W) (G : Ghost) (t : Nat) (L : Local W) : Prop where
  subB : ∀ b ∈ L.B, b ∈ G.B
  subR : ∀ p ∈ L.R, p ∈ G.R
  known : ∀ i ∈ L.known, i ∈ reg.records
  ownI : ∀ k ∈ L.pendI, (t, k) ∈ G.pI
  ownN : ∀ k ∈ L.pendN, (t, k) ∈ G.pN

/-- the global invariant for `n` threads over the initial pool `B0`/`R0` -/
structure GInv (bi : Int) (B0 : List Bind) (R0 : List Role) (n : Nat) (reg : Reg W) (G : Ghost) (Ls : Nat → Local W) : Prop where
  glob : GlobOk bi reg G
  loc : ∀ t, LocOk reg G t (Ls t)
  covB : ∀ b ∈ G.B, b ∈ B0 ∨ ∃ t, t < n ∧ b ∈ (Ls t).B
  covR : ∀ p ∈ G.R, p ∈ R0 ∨ ∃ t, t < n ∧ p ∈ (Ls t).R
  baseB : ∀ b ∈ B0, b ∈ G.B
  baseR : ∀ p ∈ R0, p ∈ G.R

theorem snd_inj_of_nodup {l : List (Nat × Int)} (h : (l.map (·.2)).Nodup) {a b : Nat} {k : Int}
    (ha : (a, k) ∈ l) (hb : (b, k) ∈ l) : a = b := by
  induction l with
  | nil => cases ha
  | cons x xs ih =>
    rw [List.map_cons, List.nodup_cons] at h
    rcases List.mem_cons.mp ha with rfl | ha' <;> rcases List.mem_cons.mp hb with hb' | hb'
    · exact (Prod.mk.inj hb').1.symm
    · exact absurd (List.mem_map.mpr ⟨(b, k), hb', rfl⟩) h.1
    · subst hb'; exact absurd (List.mem_map.mpr ⟨(a, k), ha', rfl⟩) h.1
    · exact ih h.2 ha' hb'

/-- what the invariant lets a thread assume about a snapshot -/
theorem GInv.snapOk {bi : Int} {B0 : List Bind} {R0 : List Role} {n : Nat} {reg : Reg W} {G : Ghost} {Ls : Nat → Local W}
    (h : GInv bi B0 R0 n reg G Ls) (t : Nat) : SnapOk bi (Ls t) reg.records := by
  have hl := h.loc t
  refine ⟨fun i hi t2 b hb e => ?_, fun i hi t1 b hb e => ?_, fun i hi t1 b hb e => ?_, fun i hi t1 p hp e => ?_,
          fun i hi t1 => inn_ne_inn2 h.glob.inv.compat.innsNodup hi t1,
          fun i hi k hk => h.glob.rec_above k (mem_regInns hi hk)⟩
  · have hrec := h.glob.inv.compat.recs i hi
    unfold RecOk at hrec
    simp only [t2, if_true] at hrec
    exact hrec b (hl.subB b hb) e
  all_goals
    have hrec := h.glob.inv.compat.recs i hi
    unfold RecOk at hrec
    simp only [t1, if_true] at hrec
    obtain ⟨⟨y, _, _, _, _, hall⟩, hb2, hro⟩ := hrec
  · have := hall b (hl.subB b hb) e
    rw [this]; exact ⟨rfl, rfl⟩
  · exact hb2 b (hl.subB b hb) e
  · exact hro p (hl.subR p hp) e

theorem LocOk.mono {reg reg' : Reg W} {G G' : Ghost} {t : Nat} {L : Local W} (h : LocOk reg G t L)
    (hB : ∀ b ∈ G.B, b ∈ G'.B) (hR : ∀ p ∈ G.R, p ∈ G'.R) (hrec : ∀ i ∈ reg.records, i ∈ reg'.records)
    (hI : ∀ k ∈ L.pendI, (t, k) ∈ G.pI → (t, k) ∈ G'.pI) (hN : ∀ k ∈ L.pendN, (t, k) ∈ G.pN → (t, k) ∈ G'.pN) :
    LocOk reg' G' t L :=
  ⟨fun b hb => hB b (h.subB b hb), fun p hp => hR p (h.subR p hp), fun i hi => hrec i (h.known i hi),
   fun k hk => hI k hk (h.ownI k hk), fun k hk => hN k hk (h.ownN k hk)⟩

/-! ### the ghost rules -/

theorem GInv.ghostB {bi : Int} {B0 : List Bind} {R0 : List Role} {n : Nat} {reg : Reg W} {G : Ghost} {Ls : Nat → Local W}
    (h : GInv bi B0 R0 n reg G Ls) {t : Nat} (ht : t < n) {b : Bind} (hj : JustB (Ls t) b) :
    GInv bi B0 R0 n reg { G with B := b :: G.B } (upd Ls t { Ls t with B := b :: (Ls t).B }) := by
  have hl := h.loc t
  -- the new binding carries a recorded number and the invariant survives
  have key : InvB reg (b :: G.B) G.R ∧ b.1 ∈ regInns reg := by
    rcases hj with ⟨i, hi, t2, rfl⟩ | ⟨i, hi, t1, y, hy, hyo, rfl⟩ | ⟨i, hi, t1, rfl⟩
    · exact ⟨invB_add_link h.glob.inv (hl.known i hi) t2, mem_regInns (hl.known i hi) (inn_mem_recInns i)⟩
    · exact ⟨invB_add_split1 h.glob.inv (hl.known i hi) t1 (hl.subB y hy) hyo,
             mem_regInns (hl.known i hi) (inn_mem_recInns i)⟩
    · exact ⟨invB_add_split2 h.glob.inv (hl.known i hi) t1, mem_regInns (hl.known i hi) (inn2_mem_recInns i t1)⟩
  refine ⟨⟨key.1, h.glob.pI_nodup, h.glob.pI_le, ?_, h.glob.pI_rec, h.glob.pN_nodup, h.glob.pN_le, h.glob.pN_R,
           h.glob.pN_rec, h.glob.rec_above, h.glob.pI_above, h.glob.bi_le⟩, ?_, ?_, ?_, fun c hc => List.mem_cons_of_mem _ (h.baseB c hc), h.baseR⟩
  · intro p hp c hc
    rcases List.mem_cons.mp hc with rfl | hc'
    · intro e; exact h.glob.pI_rec p hp (e ▸ key.2)
    · exact h.glob.pI_B p hp c hc'
  · intro u
    by_cases hu : u = t
    · subst hu
      rw [upd_same]
      exact ⟨fun c hc => by
               rcases List.mem_cons.mp hc with rfl | hc'
               · exact List.mem_cons_self
               · exact List.mem_cons_of_mem _ (hl.subB c hc'),
             hl.subR, hl.known, hl.ownI, hl.ownN⟩
    · rw [upd_other _ _ hu]
      exact (h.loc u).mono (fun c hc => List.mem_cons_of_mem _ hc) (fun _ hp => hp) (fun _ hi => hi) (fun _ _ hk => hk)
        (fun _ _ hk => hk)
  · intro c hc
    rcases List.mem_cons.mp hc with rfl | hc'
    · exact .inr ⟨t, ht, by rw [upd_same]; exact List.mem_cons_self⟩
    · rcases h.covB c hc' with h0 | ⟨u, hu, hm⟩
      · exact .inl h0
      · refine .inr ⟨u, hu, ?_⟩
        by_cases hut : u = t
        · subst hut; rw [upd_same]; exact List.mem_cons_of_mem _ hm
        · rw [upd_other _ _ hut]; exact hm
  · intro p hp
    rcases h.covR p hp with h0 | ⟨u, hu, hm⟩
    · exact .inl h0
    · refine .inr ⟨u, hu, ?_⟩
      by_cases hut : u = t
      · subst hut; rw [upd_same]; exact hm
      · rw [upd_other _ _ hut]; exact hm

theorem GInv.ghostR {bi : Int} {B0 : List Bind} {R0 : List Role} {n : Nat} {reg : Reg W} {G : Ghost} {Ls : Nat → Local W}
    (h : GInv bi B0 R0 n reg G Ls) {t : Nat} (ht : t < n) {r : Role} (hj : JustR (Ls t) r) :
    GInv bi B0 R0 n reg { G with R := r :: G.R } (upd Ls t { Ls t with R := r :: (Ls t).R }) := by
  have hl := h.loc t
  obtain ⟨i, hi, t1, rfl⟩ := hj
  have hir := hl.known i hi
  refine ⟨⟨invB_add_role h.glob.inv hir t1, h.glob.pI_nodup, h.glob.pI_le, h.glob.pI_B, h.glob.pI_rec, h.glob.pN_nodup,
           h.glob.pN_le, ?_, h.glob.pN_rec, h.glob.rec_above, h.glob.pI_above, h.glob.bi_le⟩, ?_, ?_, ?_, h.baseB, fun c hc => List.mem_cons_of_mem _ (h.baseR c hc)⟩
  · intro p hp c hc
    rcases List.mem_cons.mp hc with rfl | hc'
    · intro e; exact h.glob.pN_rec p hp (e ▸ mem_regNodes hir t1)
    · exact h.glob.pN_R p hp c hc'
  · intro u
    by_cases hu : u = t
    · subst hu
      rw [upd_same]
      exact ⟨hl.subB, fun c hc => by
               rcases List.mem_cons.mp hc with rfl | hc'
               · exact List.mem_cons_self
               · exact List.mem_cons_of_mem _ (hl.subR c hc'),
             hl.known, hl.ownI, hl.ownN⟩
    · rw [upd_other _ _ hu]
      exact (h.loc u).mono (fun _ hb => hb) (fun c hc => List.mem_cons_of_mem _ hc) (fun _ hi => hi) (fun _ _ hk => hk)
        (fun _ _ hk => hk)
  · intro p hp
    rcases h.covB p hp with h0 | ⟨u, hu, hm⟩
    · exact .inl h0
    · refine .inr ⟨u, hu, ?_⟩
      by_cases hut : u = t
      · subst hut; rw [upd_same]; exact hm
      · rw [upd_other _ _ hut]; exact hm
  · intro c hc
    rcases List.mem_cons.mp hc with rfl | hc'
    · exact .inr ⟨t, ht, by rw [upd_same]; exact List.mem_cons_self⟩
    · rcases h.covR c hc' with h0 | ⟨u, hu, hm⟩
      · exact .inl h0
      · refine .inr ⟨u, hu, ?_⟩
        by_cases hut : u = t
        · subst hut; rw [upd_same]; exact List.mem_cons_of_mem _ hm
        · rw [upd_other _ _ hut]; exact hm

/-- replacing a thread's view by one with the same bindings (only `known` / nothing changed) -/
theorem GInv.upd_view {bi : Int} {B0 : List Bind} {R0 : List Role} {n : Nat} {reg : Reg W} {G : Ghost} {Ls : Nat → Local W}
    (h : GInv bi B0 R0 n reg G Ls) (t : Nat) {L' : Local W} (hloc : LocOk reg G t L')
    (hB : ∀ b ∈ (Ls t).B, b ∈ L'.B) (hR : ∀ p ∈ (Ls t).R, p ∈ L'.R) : GInv bi B0 R0 n reg G (upd Ls t L') := by
  refine ⟨h.glob, ?_, ?_, ?_, h.baseB, h.baseR⟩
  · intro u
    by_cases hu : u = t
    · subst hu; rw [upd_same]; exact hloc
    · rw [upd_other _ _ hu]; exact h.loc u
  · intro c hc
    rcases h.covB c hc with h0 | ⟨u, hu, hm⟩
    · exact .inl h0
    · refine .inr ⟨u, hu, ?_⟩
      by_cases hut : u = t
      · subst hut; rw [upd_same]; exact hB c hm
      · rw [upd_other _ _ hut]; exact hm
  · intro c hc
    rcases h.covR c hc with h0 | ⟨u, hu, hm⟩
    · exact .inl h0
    · refine .inr ⟨u, hu, ?_⟩
      by_cases hut : u = t
      · subst hut; rw [upd_same]; exact hR c hm
      · rw [upd_other _ _ hut]; exact hm

/-! ### the registry operations -/

theorem GInv.covers_upd {bi : Int} {B0 : List Bind} {R0 : List Role} {n : Nat} {reg : Reg W} {G : Ghost} {Ls : Nat → Local W}
    (h : GInv bi B0 R0 n reg G Ls) (t : Nat) {L' : Local W} (hB : L'.B = (Ls t).B) (hR : L'.R = (Ls t).R) :
    (∀ b ∈ G.B, b ∈ B0 ∨ ∃ u, u < n ∧ b ∈ (upd Ls t L' u).B) ∧ (∀ p ∈ G.R, p ∈ R0 ∨ ∃ u, u < n ∧ p ∈ (upd Ls t L' u).R) := by
  constructor
  · intro c hc
    rcases h.covB c hc with h0 | ⟨u, hu, hm⟩
    · exact .inl h0
    · refine .inr ⟨u, hu, ?_⟩
      by_cases hut : u = t
      · subst hut; rw [upd_same, hB]; exact hm
      · rw [upd_other _ _ hut]; exact hm
  · intro c hc
    rcases h.covR c hc with h0 | ⟨u, hu, hm⟩
    · exact .inl h0
    · refine .inr ⟨u, hu, ?_⟩
      by_cases hut : u = t
      · subst hut; rw [upd_same, hR]; exact hm
      · rw [upd_other _ _ hut]; exact hm

/-- `NextInnovationNumber()` by thread `t` -/
theorem GInv.nextInn {bi : Int} {B0 : List Bind} {R0 : List Role} {n : Nat} {reg : Reg W} {G : Ghost} {Ls : Nat → Local W}
    (h : GInv bi B0 R0 n reg G Ls) (t : Nat) :
    FreshI bi (Ls t) (reg.nextInn + 1) ∧
    GInv bi B0 R0 n reg.nextInnovation.2 { G with pI := (t, reg.nextInn + 1) :: G.pI }
      (upd Ls t { Ls t with pendI := (reg.nextInn + 1) :: (Ls t).pendI }) := by
  have hl := h.loc t
  have g := h.glob
  refine ⟨⟨fun b hb => ?_, fun hk => ?_, by have := g.bi_le; omega⟩,
          ⟨⟨?_, ?_, ?_, ?_, ?_, g.pN_nodup, g.pN_le, g.pN_R, g.pN_rec, g.rec_above, ?_,
            by have := g.bi_le; simp only [Reg.nextInnovation]; omega⟩, ?_, ?_, ?_, h.baseB, h.baseR⟩⟩
  · have := g.inv.above.inns b (hl.subB b hb); omega
  · have := g.pI_le _ (hl.ownI _ hk); simp only at this; omega
  · exact invB_counters g.inv rfl (by simp only [Reg.nextInnovation]; omega) (Int.le_refl _)
  · rw [List.map_cons, List.nodup_cons]
    refine ⟨fun hm => ?_, g.pI_nodup⟩
    obtain ⟨p, hp, e⟩ := List.mem_map.mp hm
    have := g.pI_le p hp
    simp only at e; omega
  · intro p hp
    simp only [Reg.nextInnovation]
    rcases List.mem_cons.mp hp with rfl | hp'
    · exact Int.le_refl _
    · have := g.pI_le p hp'; omega
  · intro p hp b hb
    rcases List.mem_cons.mp hp with rfl | hp'
    · have := g.inv.above.inns b hb; simp only; omega
    · exact g.pI_B p hp' b hb
  · intro p hp
    rcases List.mem_cons.mp hp with rfl | hp'
    · intro hm
      have := g.inv.above.recInns _ hm
      simp only at this; omega
    · exact g.pI_rec p hp'
  · intro p hp
    rcases List.mem_cons.mp hp with rfl | hp'
    · have := g.bi_le; simp only; omega
    · exact g.pI_above p hp'
  · intro u
    by_cases hu : u = t
    · subst hu
      rw [upd_same]
      refine ⟨hl.subB, hl.subR, hl.known, fun k hk => ?_, hl.ownN⟩
      rcases List.mem_cons.mp hk with rfl | hk'
      · exact List.mem_cons_self
      · exact List.mem_cons_of_mem _ (hl.ownI k hk')
    · rw [upd_other _ _ hu]
      exact (h.loc u).mono (fun _ hb => hb) (fun _ hp => hp) (fun _ hi => hi) (fun _ _ hk => List.mem_cons_of_mem _ hk)
        (fun _ _ hk => hk)
  · exact (h.covers_upd t (L' := { Ls t with pendI := (reg.nextInn + 1) :: (Ls t).pendI }) rfl rfl).1
  · exact (h.covers_upd t (L' := { Ls t with pendI := (reg.nextInn + 1) :: (Ls t).pendI }) rfl rfl).2

/-- `NextNodeId()` by thread `t` -/
theorem GInv.nextNode {bi : Int} {B0 : List Bind} {R0 : List Role} {n : Nat} {reg : Reg W} {G : Ghost} {Ls : Nat → Local W}
    (h : GInv bi B0 R0 n reg G Ls) (t : Nat) :
    FreshN (Ls t) (reg.nextNode + 1) ∧
    GInv bi B0 R0 n reg.nextNodeId.2 { G with pN := (t, reg.nextNode + 1) :: G.pN }
      (upd Ls t { Ls t with pendN := (reg.nextNode + 1) :: (Ls t).pendN }) := by
  have hl := h.loc t
  have g := h.glob
  refine ⟨⟨fun b hb e => ?_, fun hk => ?_⟩, ⟨⟨?_, g.pI_nodup, g.pI_le, g.pI_B, g.pI_rec, ?_, ?_, ?_, ?_, g.rec_above, g.pI_above, g.bi_le⟩, ?_, ?_, ?_, h.baseB, h.baseR⟩⟩
  · have := g.inv.above.ids b (hl.subR b hb); omega
  · have := g.pN_le _ (hl.ownN _ hk); simp only at this; omega
  · exact invB_counters g.inv rfl (Int.le_refl _) (by simp only [Reg.nextNodeId]; omega)
  · rw [List.map_cons, List.nodup_cons]
    refine ⟨fun hm => ?_, g.pN_nodup⟩
    obtain ⟨p, hp, e⟩ := List.mem_map.mp hm
    have := g.pN_le p hp
    simp only at e; omega
  · intro p hp
    simp only [Reg.nextNodeId]
    rcases List.mem_cons.mp hp with rfl | hp'
    · exact Int.le_refl _
    · have := g.pN_le p hp'; omega
  · intro p hp b hb
    rcases List.mem_cons.mp hp with rfl | hp'
    · have := g.inv.above.ids b hb; simp only; omega
    · exact g.pN_R p hp' b hb
  · intro p hp
    rcases List.mem_cons.mp hp with rfl | hp'
    · intro hm
      have := g.inv.above.recNodes _ hm
      simp only at this; omega
    · exact g.pN_rec p hp'
  · intro u
    by_cases hu : u = t
    · subst hu
      rw [upd_same]
      refine ⟨hl.subB, hl.subR, hl.known, hl.ownI, fun k hk => ?_⟩
      rcases List.mem_cons.mp hk with rfl | hk'
      · exact List.mem_cons_self
      · exact List.mem_cons_of_mem _ (hl.ownN k hk')
    · rw [upd_other _ _ hu]
      exact (h.loc u).mono (fun _ hb => hb) (fun _ hp => hp) (fun _ hi => hi) (fun _ _ hk => hk)
        (fun _ _ hk => List.mem_cons_of_mem _ hk)
  · exact (h.covers_upd t (L' := { Ls t with pendN := (reg.nextNode + 1) :: (Ls t).pendN }) rfl rfl).1
  · exact (h.covers_upd t (L' := { Ls t with pendN := (reg.nextNode + 1) :: (Ls t).pendN }) rfl rfl).2

def Ghost.afterStore (G : Ghost) (i : Innov W) : Ghost :=
  { G with pI := G.pI.filter (fun p => decide (p.2 ∉ recInns i)),
           pN := G.pN.filter (fun p => decide (¬ (i.typ = 1 ∧ p.2 = i.newNode))) }

theorem StoreOk.facts {L : Local W} {i : Innov W} (h : StoreOk L i) :
    (i.typ = 2 ∨ i.typ = 1) ∧ (∀ k ∈ recInns i, k ∈ L.pendI) ∧ (recInns i).Nodup ∧ (i.typ = 1 → i.newNode ∈ L.pendN) ∧
    (i.typ = 1 → ∃ y ∈ L.B, y.1 = i.oldInn ∧ y.2.1 = i.inId ∧ y.2.2.1 = i.outId) := by
  rcases h with ⟨t2, h1⟩ | ⟨t1, h1, h2, hne, hn, hy⟩
  · have : ¬ i.typ = 1 := by omega
    refine ⟨.inl t2, ?_, ?_, fun t => absurd t this, fun t => absurd t this⟩
    · intro k hk; unfold recInns at hk; simp only [this, if_false, List.mem_singleton] at hk; subst hk; exact h1
    · unfold recInns; simp [this]
  · refine ⟨.inr t1, ?_, ?_, fun _ => hn, fun _ => hy⟩
    · intro k hk; unfold recInns at hk; simp only [t1, if_true, List.mem_cons, List.not_mem_nil, or_false] at hk
      rcases hk with rfl | rfl
      · exact h1
      · exact h2
    · unfold recInns; simp [t1, hne]

/-- `StoreInnovation(i)` by thread `t` -/
theorem GInv.store {bi : Int} {B0 : List Bind} {R0 : List Role} {n : Nat} {reg : Reg W} {G : Ghost} {Ls : Nat → Local W}
    (h : GInv bi B0 R0 n reg G Ls) (t : Nat) {i : Innov W} (hs : StoreOk (Ls t) i) :
    GInv bi B0 R0 n (reg.store i) (G.afterStore i) (upd Ls t ((Ls t).afterStore i)) := by
  have hl := h.loc t
  have g := h.glob
  obtain ⟨htyp, hsub, hnd, hnode, hsplit⟩ := hs.facts
  have hown : ∀ k ∈ recInns i, (t, k) ∈ G.pI := fun k hk => hl.ownI k (hsub k hk)
  have hownN : i.typ = 1 → (t, i.newNode) ∈ G.pN := fun t1 => hl.ownN _ (hnode t1)
  have hfresh : FreshRec G.B G.R i := by
    refine ⟨htyp, fun b hb hk => g.pI_B _ (hown _ hk) b hb rfl, fun t1 p hp e => g.pN_R _ (hownN t1) p hp e, fun t1 => ?_⟩
    obtain ⟨y, hy, e⟩ := hsplit t1
    exact ⟨y, hl.subB y hy, e⟩
  have hinv : InvB (reg.store i) G.B G.R := by
    refine invB_frame (new := [i]) g.inv ⟨Int.le_refl _, Int.le_refl _, rfl⟩ (fun r hr => ?_) ?_ ?_ (fun r hr k hk => ?_)
      (fun r hr t1 => ?_)
    · rw [List.mem_singleton.mp hr]; exact hfresh
    · rw [regInns_store, List.nodup_append]
      exact ⟨g.inv.compat.innsNodup, hnd, fun a ha b hb e => g.pI_rec _ (hown b hb) (e ▸ ha)⟩
    · rw [regNodes_store]
      by_cases t1 : i.typ = 1
      · simp only [t1, if_true, List.nodup_append]
        exact ⟨g.inv.compat.nodesNodup, by simp, fun a ha b hb e => by
          simp only [List.mem_singleton] at hb; subst hb
          exact g.pN_rec _ (hownN t1) (e ▸ ha)⟩
      · simp only [t1, if_false, List.append_nil]; exact g.inv.compat.nodesNodup
    · rw [List.mem_singleton.mp hr] at hk; exact g.pI_le _ (hown k hk)
    · rw [List.mem_singleton.mp hr] at t1 ⊢; exact g.pN_le _ (hownN t1)
  have hpI : ∀ p, p ∈ (G.afterStore i).pI ↔ p ∈ G.pI ∧ p.2 ∉ recInns i := by
    intro p; simp [Ghost.afterStore, List.mem_filter]
  have hpN : ∀ p, p ∈ (G.afterStore i).pN ↔ p ∈ G.pN ∧ ¬ (i.typ = 1 ∧ p.2 = i.newNode) := by
    intro p; simp only [Ghost.afterStore, List.mem_filter, decide_eq_true_eq]
  refine ⟨⟨hinv, ?_, ?_, ?_, ?_, ?_, ?_, ?_, ?_, ?_, fun p hp => g.pI_above p ((hpI p).mp hp).1, g.bi_le⟩, ?_, ?_, ?_,
          h.baseB, h.baseR⟩
  · exact g.pI_nodup.sublist (List.filter_sublist.map _)
  · intro p hp; exact g.pI_le p ((hpI p).mp hp).1
  · intro p hp; exact g.pI_B p ((hpI p).mp hp).1
  · intro p hp
    rw [regInns_store, List.mem_append]
    rintro (hm | hm)
    · exact g.pI_rec p ((hpI p).mp hp).1 hm
    · exact ((hpI p).mp hp).2 hm
  · exact g.pN_nodup.sublist (List.filter_sublist.map _)
  · intro p hp; exact g.pN_le p ((hpN p).mp hp).1
  · intro p hp; exact g.pN_R p ((hpN p).mp hp).1
  · intro p hp
    rw [regNodes_store, List.mem_append]
    rintro (hm | hm)
    · exact g.pN_rec p ((hpN p).mp hp).1 hm
    · by_cases t1 : i.typ = 1
      · simp only [t1, if_true, List.mem_singleton] at hm
        exact ((hpN p).mp hp).2 ⟨t1, hm⟩
      · simp [t1] at hm
  · intro k hk
    rw [regInns_store, List.mem_append] at hk
    rcases hk with hk | hk
    · exact g.rec_above k hk
    · exact g.pI_above _ (hown k hk)
  · intro u
    by_cases hu : u = t
    · subst hu
      rw [upd_same]
      refine ⟨hl.subB, hl.subR, fun j hj => ?_, fun k hk => ?_, fun k hk => ?_⟩
      · simp only [Local.afterStore, List.mem_cons] at hj
        simp only [Reg.store, List.mem_append, List.mem_singleton]
        rcases hj with rfl | hj
        · exact .inr rfl
        · exact .inl (hl.known j hj)
      · simp only [Local.afterStore, List.mem_filter, decide_eq_true_eq] at hk
        exact (hpI _).mpr ⟨hl.ownI k hk.1, hk.2⟩
      · simp only [Local.afterStore, List.mem_filter, decide_eq_true_eq] at hk
        exact (hpN _).mpr ⟨hl.ownN k hk.1, hk.2⟩
    · rw [upd_other _ _ hu]
      refine (h.loc u).mono (fun _ hb => hb) (fun _ hp => hp)
        (fun j hj => by simp only [Reg.store, List.mem_append]; exact .inl hj) (fun k _ hk => ?_) (fun k _ hk => ?_)
      · refine (hpI _).mpr ⟨hk, fun hm => hu ?_⟩
        exact snd_inj_of_nodup g.pI_nodup hk (hown k hm)
      · refine (hpN _).mpr ⟨hk, fun hm => hu ?_⟩
        obtain ⟨t1, e⟩ := hm
        simp only at e
        exact snd_inj_of_nodup g.pN_nodup hk (e ▸ hownN t1)
  · exact (h.covers_upd t (L' := (Ls t).afterStore i) rfl rfl).1
  · exact (h.covers_upd t (L' := (Ls t).afterStore i) rfl rfl).2

/-! ### one step of one thread, any schedule -/

/-- **one registry operation of thread `t`** keeps the global invariant and the thread's obligation -/
theorem thread_step {α : Type} {Post : Local W → α → Prop} {bi : Int} {B0 : List Bind} {R0 : List Role} {n t : Nat} (ht : t < n)
    {L : Local W} {p : Prog W α} (hv : PValid bi Post L p) :
    ∀ {reg : Reg W} {G : Ghost} {Ls : Nat → Local W}, GInv bi B0 R0 n reg G Ls → Ls t = L →
      ∃ G' L', GInv bi B0 R0 n (p.step reg).2 G' (upd Ls t L') ∧ PValid bi Post L' (p.step reg).1 := by
  induction hv with
  | @done L a hp =>
    intro reg G Ls h e
    exact ⟨G, L, by rw [← e, upd_self]; exact h, .done hp⟩
  | @snap L k hk _ =>
    intro reg G Ls h e
    subst e
    refine ⟨G, { Ls t with known := reg.records ++ (Ls t).known }, ?_, hk _ (h.snapOk t)⟩
    have hl := h.loc t
    refine h.upd_view t ⟨hl.subB, hl.subR, fun i hi => ?_, hl.ownI, hl.ownN⟩ (fun _ hb => hb) (fun _ hp => hp)
    rcases List.mem_append.mp hi with hi | hi
    · exact hi
    · exact hl.known i hi
  | @nextInn L k hk _ =>
    intro reg G Ls h e
    subst e
    obtain ⟨hf, hg⟩ := h.nextInn t
    exact ⟨_, _, hg, hk _ hf⟩
  | @nextNode L k hk _ =>
    intro reg G Ls h e
    subst e
    obtain ⟨hf, hg⟩ := h.nextNode t
    exact ⟨_, _, hg, hk _ hf⟩
  | @store L i k hs hk _ =>
    intro reg G Ls h e
    subst e
    exact ⟨_, _, h.store t hs, hk⟩
  | @ghostB L b p hj _ ih =>
    intro reg G Ls h e
    subst e
    obtain ⟨G', L', hg, hv'⟩ := ih (h.ghostB ht hj) (upd_same _ _ _)
    rw [upd_upd] at hg
    exact ⟨G', L', hg, hv'⟩
  | @ghostR L r p hj _ ih =>
    intro reg G Ls h e
    subst e
    obtain ⟨G', L', hg, hv'⟩ := ih (h.ghostR ht hj) (upd_same _ _ _)
    rw [upd_upd] at hg
    exact ⟨G', L', hg, hv'⟩

/-- a finished thread: its postcondition holds for a view that the invariant covers -/
theorem flush {α : Type} {Post : Local W → α → Prop} {bi : Int} {B0 : List Bind} {R0 : List Role} {n t : Nat} (ht : t < n)
    {L : Local W} {p : Prog W α} (hv : PValid bi Post L p) :
    ∀ {reg : Reg W} {G : Ghost} {Ls : Nat → Local W} {a : α}, p = .done a → GInv bi B0 R0 n reg G Ls → Ls t = L →
      ∃ G' L', GInv bi B0 R0 n reg G' (upd Ls t L') ∧ Post L' a := by
  induction hv with
  | @done L a hp =>
    intro reg G Ls a' e h el
    cases e
    exact ⟨G, L, by rw [← el, upd_self]; exact h, hp⟩
  | snap => intro _ _ _ _ e; cases e
  | nextInn => intro _ _ _ _ e; cases e
  | nextNode => intro _ _ _ _ e; cases e
  | store => intro _ _ _ _ e; cases e
  | @ghostB L b p hj _ ih =>
    intro reg G Ls a e h el
    subst el
    obtain ⟨G', L', hg, hp⟩ := ih e (h.ghostB ht hj) (upd_same _ _ _)
    rw [upd_upd] at hg
    exact ⟨G', L', hg, hp⟩
  | @ghostR L r p hj _ ih =>
    intro reg G Ls a e h el
    subst el
    obtain ⟨G', L', hg, hp⟩ := ih e (h.ghostR ht hj) (upd_same _ _ _)
    rw [upd_upd] at hg
    exact ⟨G', L', hg, hp⟩

/-- the state of a parallel run is covered: invariant + every thread's obligation -/
structure Covered {α : Type} (bi : Int) (Post : Nat → Local W → α → Prop) (B0 : List Bind) (R0 : List Role) (st : PState W α) : Prop where
  ex : ∃ G Ls, GInv bi B0 R0 st.threads.length st.reg G Ls ∧
        ∀ t p, st.threads[t]? = some p → PValid bi (Post t) (Ls t) p

theorem pstep_sound {α : Type} {Post : Nat → Local W → α → Prop} {bi : Int} {B0 : List Bind} {R0 : List Role} {st : PState W α}
    (h : Covered bi Post B0 R0 st) (i : Nat) : Covered bi Post B0 R0 (pstep st i) := by
  obtain ⟨G, Ls, hg, hv⟩ := h.ex
  unfold pstep
  cases hp : st.threads[i]? with
  | none => exact ⟨G, Ls, hg, hv⟩
  | some p =>
    have hi : i < st.threads.length := by
      rcases Nat.lt_or_ge i st.threads.length with h | h
      · exact h
      · rw [List.getElem?_eq_none h] at hp; cases hp
    obtain ⟨G', L', hg', hv'⟩ := thread_step hi (hv i p hp) hg rfl
    refine ⟨G', upd Ls i L', by simpa using hg', ?_⟩
    intro t q hq
    simp only at hq
    by_cases hti : t = i
    · subst hti
      rw [List.getElem?_set_self hi] at hq
      cases hq
      rw [upd_same]; exact hv'
    · rw [List.getElem?_set_ne (Ne.symm hti)] at hq
      rw [upd_other _ _ hti]; exact hv t q hq

/-- **every scheduler** -/
theorem sched_sound {α : Type} {Post : Nat → Local W → α → Prop} {bi : Int} {B0 : List Bind} {R0 : List Role} (sched : List Nat) :
    ∀ {st : PState W α}, Covered bi Post B0 R0 st → Covered bi Post B0 R0 (runSched st sched) := by
  induction sched with
  | nil => intro st h; exact h
  | cons i is ih => intro st h; exact ih (pstep_sound h i)

theorem pstep_length {α : Type} (st : PState W α) (i : Nat) : (pstep st i).threads.length = st.threads.length := by
  unfold pstep; split <;> simp
theorem runSched_length {α : Type} (sched : List Nat) : ∀ (st : PState W α), (runSched st sched).threads.length = st.threads.length := by
  induction sched with
  | nil => intro st; rfl
  | cons i is ih => intro st; exact (ih _).trans (pstep_length st i)

/-- all finished threads flushed, one after the other -/
theorem flush_all {α : Type} {bi : Int} {Post : Nat → Local W → α → Prop} {B0 : List Bind} {R0 : List Role} {st : PState W α}
    (h : Covered bi Post B0 R0 st) :
    ∃ G Ls, GInv bi B0 R0 st.threads.length st.reg G Ls ∧ ∀ t a, st.threads[t]? = some (.done a) → Post t (Ls t) a := by
  obtain ⟨G, Ls, hg, hv⟩ := h.ex
  suffices hk : ∀ k, k ≤ st.threads.length → ∃ G Ls, GInv bi B0 R0 st.threads.length st.reg G Ls ∧
      (∀ t a, t < k → st.threads[t]? = some (.done a) → Post t (Ls t) a) ∧
      (∀ t p, k ≤ t → st.threads[t]? = some p → PValid bi (Post t) (Ls t) p) by
    obtain ⟨G', Ls', hg', h1, _⟩ := hk _ (Nat.le_refl _)
    refine ⟨G', Ls', hg', fun t a ht => h1 t a ?_ ht⟩
    rcases Nat.lt_or_ge t st.threads.length with h' | h'
    · exact h'
    · rw [List.getElem?_eq_none h'] at ht; cases ht
  intro k
  induction k with
  | zero => intro _; exact ⟨G, Ls, hg, fun _ _ h0 => absurd h0 (Nat.not_lt_zero _), fun t p _ hp => hv t p hp⟩
  | succ k ih =>
    intro hk
    obtain ⟨G1, Ls1, hg1, hd1, hv1⟩ := ih (Nat.le_of_succ_le hk)
    have hklt : k < st.threads.length := hk
    cases hp : st.threads[k]? with
    | none => rw [List.getElem?_eq_getElem hklt] at hp; cases hp
    | some p =>
      by_cases hdone : ∃ a, p = .done a
      · obtain ⟨a, rfl⟩ := hdone
        obtain ⟨G2, L2, hg2, hpost⟩ := flush hklt (hv1 k _ (Nat.le_refl _) hp) rfl hg1 rfl
        refine ⟨G2, upd Ls1 k L2, hg2, ?_, ?_⟩
        · intro t a' ht hta
          by_cases htk : t = k
          · subst htk
            rw [hp] at hta
            cases hta
            rw [upd_same]; exact hpost
          · rw [upd_other _ _ htk]; exact hd1 t a' (by omega) hta
        · intro t q ht hq
          rw [upd_other _ _ (by omega)]; exact hv1 t q (by omega) hq
      · refine ⟨G1, Ls1, hg1, ?_, fun t q ht hq => hv1 t q (by omega) hq⟩
        intro t a' ht hta
        by_cases htk : t = k
        · subst htk
          rw [hp] at hta
          cases hta
          exact absurd ⟨a', rfl⟩ hdone
        · exact hd1 t a' (by omega) hta

/-- the view a thread starts with: the bindings of the pool -/
def view0 (P : List (Genome W)) : Local W := ⟨binds P, roles P, [], [], []⟩

/-! ### counters never fall, records are never removed -/

theorem step_mono {α : Type} (p : Prog W α) (reg : Reg W) :
    reg.nextInn ≤ (p.step reg).2.nextInn ∧ reg.nextNode ≤ (p.step reg).2.nextNode ∧
    ∃ new, (p.step reg).2.records = reg.records ++ new := by
  cases p with
  | done a => exact ⟨Int.le_refl _, Int.le_refl _, [], by simp [Prog.step]⟩
  | snap k => exact ⟨Int.le_refl _, Int.le_refl _, [], by simp [Prog.step]⟩
  | nextNode k => exact ⟨Int.le_refl _, by simp only [Prog.step, Reg.nextNodeId]; omega, [], by simp [Prog.step, Reg.nextNodeId]⟩
  | nextInn k => exact ⟨by simp only [Prog.step, Reg.nextInnovation]; omega, Int.le_refl _, [], by simp [Prog.step, Reg.nextInnovation]⟩
  | store i k => exact ⟨Int.le_refl _, Int.le_refl _, [i], rfl⟩

theorem pstep_mono {α : Type} (st : PState W α) (i : Nat) :
    st.reg.nextInn ≤ (pstep st i).reg.nextInn ∧ st.reg.nextNode ≤ (pstep st i).reg.nextNode ∧
    ∃ new, (pstep st i).reg.records = st.reg.records ++ new := by
  unfold pstep
  split
  · exact ⟨Int.le_refl _, Int.le_refl _, [], by simp⟩
  · exact step_mono _ _

theorem runSched_mono {α : Type} (sched : List Nat) : ∀ (st : PState W α),
    st.reg.nextInn ≤ (runSched st sched).reg.nextInn ∧ st.reg.nextNode ≤ (runSched st sched).reg.nextNode ∧
    ∃ new, (runSched st sched).reg.records = st.reg.records ++ new := by
  induction sched with
  | nil => intro st; exact ⟨Int.le_refl _, Int.le_refl _, [], by simp [runSched]⟩
  | cons i is ih =>
    intro st
    obtain ⟨a1, a2, n1, e1⟩ := pstep_mono st i
    obtain ⟨b1, b2, n2, e2⟩ := ih (pstep st i)
    refine ⟨Int.le_trans a1 b1, Int.le_trans a2 b2, n1 ++ n2, ?_⟩
    show (runSched (pstep st i) is).reg.records = _
    rw [e2, e1, List.append_assoc]

end GoNeat.C16
