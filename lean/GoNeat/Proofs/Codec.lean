/-
  Helper lemmas for C15, part 2: the field maps of the YAML genome, the gob experiment stream and the JSON
  fast-solver model.  Core Lean only.
-/
import GoNeat.Model.Codec
import GoNeat.Proofs.PlainIO

namespace GoNeat.Codec
open GoNeat.PlainIO (Err Codec Line traitIdOf traitRef numTraitParams FloatsRoundTrip ActsRoundTrip refOK geneOK
  traitRef_of_refOK traitWithId_none_of_not_mem any_id_false_of_not_mem)

variable {F : Type}

/-! ### YAML -/

theorem kind_roundtrip : ∀ k, k < 4 → kindOfName (kindName k) = some k := by decide

theorem decFloats_map (f : F → F) (xs : List F) (hf : ∀ x ∈ xs, f x = x) :
    decFloats f (xs.map Val.flt) = .ok xs := by
  induction xs with
  | nil => rfl
  | cons x xs ih =>
    simp [decFloats, ih (fun y hy => hf y (List.mem_cons_of_mem _ hy)), hf x List.mem_cons_self]

theorem decTrait_enc (K : Consts F) (t : Trait F) (h : t.params.length = numTraitParams)
    (hs : ∀ x ∈ t.params, K.yf x = x) : decTrait K (encTrait t) = .ok t := by
  cases t with
  | mk id params =>
    simp only at h hs
    simp [decTrait, encTrait, get, decFloats_map K.yf params hs, h]

theorem decTraits_enc (K : Consts F) (ts acc : List (Trait F))
    (hlen : ∀ t ∈ ts, t.params.length = numTraitParams)
    (hst : ∀ t ∈ ts, ∀ x ∈ t.params, K.yf x = x)
    (hnd : ((acc ++ ts).map (·.id)).Nodup) :
    decTraits K acc (ts.map encTrait) = .ok (acc ++ ts) := by
  induction ts generalizing acc with
  | nil => simp [decTraits]
  | cons t ts ih =>
    have hnew : t.id ∉ acc.map (·.id) := by
      simp only [List.map_append, List.map_cons, List.nodup_append, List.nodup_cons] at hnd
      intro hmem
      exact hnd.2.2 _ hmem _ List.mem_cons_self rfl
    simp only [List.map_cons, decTraits, decTrait_enc K t (hlen t List.mem_cons_self) (hst t List.mem_cons_self),
      traitWithId_none_of_not_mem hnew]
    have := ih (acc ++ [t]) (fun t' ht' => hlen t' (List.mem_cons_of_mem _ ht'))
      (fun t' ht' => hst t' (List.mem_cons_of_mem _ ht')) (by simpa [List.append_assoc] using hnd)
    simpa [List.append_assoc] using this

theorem actOfName_of_match (C : Codec F) (hA : ActsRoundTrip C) {a : Nat}
    (h : (match C.actName a with
          | none => false
          | some nm => C.actOfName nm == some a) = true) :
    ∃ nm, C.actName a = some nm ∧ C.actOfName nm = some a := by
  cases hnm : C.actName a with
  | none => simp [hnm] at h
  | some nm => exact ⟨nm, rfl, hA _ _ hnm⟩

theorem decNode_enc (C : Codec F) (hA : ActsRoundTrip C) (traits : List (Trait F)) (n : Node)
    (h : ynodeOK C traits n = true) : decNode C traits (encNode C n) = .ok n := by
  simp only [ynodeOK, Bool.and_eq_true, decide_eq_true_eq] at h
  obtain ⟨⟨hk, href⟩, hact⟩ := h
  obtain ⟨nm, hnm, hback⟩ := actOfName_of_match C hA hact
  cases n with
  | mk id kind act trait =>
    simp only at hk href hnm hback
    simp [decNode, encNode, get, kind_roundtrip kind hk, hnm, hback, traitRef_of_refOK href]

theorem decNodes_enc (C : Codec F) (hA : ActsRoundTrip C) (traits : List (Trait F)) (ns acc : List Node)
    (hok : ∀ n ∈ ns, ynodeOK C traits n = true)
    (hnd : ((acc ++ ns).map (·.id)).Nodup) :
    decNodes C traits acc (ns.map (encNode C)) = .ok (acc ++ ns) := by
  induction ns generalizing acc with
  | nil => simp [decNodes]
  | cons n ns ih =>
    have hnew : n.id ∉ acc.map (·.id) := by
      simp only [List.map_append, List.map_cons, List.nodup_append, List.nodup_cons] at hnd
      intro hmem
      exact hnd.2.2 _ hmem _ List.mem_cons_self rfl
    simp only [List.map_cons, decNodes, decNode_enc C hA traits n (hok n List.mem_cons_self),
      any_id_false_of_not_mem hnew]
    have := ih (acc ++ [n]) (fun n' hn' => hok n' (List.mem_cons_of_mem _ hn')) (by simpa [List.append_assoc] using hnd)
    simpa [List.append_assoc] using this

theorem decGene_enc (K : Consts F) (traits : List (Trait F)) (nodes : List Node) (g : Gene F)
    (h : geneOK traits nodes g = true) (hw : K.yf g.w = g.w) (hm : K.yf g.mnum = g.mnum) :
    decGene K traits nodes (encGene g) = .ok g := by
  simp only [geneOK, Bool.and_eq_true] at h
  obtain ⟨⟨href, hs⟩, hd⟩ := h
  cases g with
  | mk inn src dst recur w mnum en trait =>
    simp only at href hs hd hw hm
    simp [decGene, encGene, get, hs, hd, hw, hm, traitRef_of_refOK href]

theorem decGenes_enc (K : Consts F) (traits : List (Trait F)) (nodes : List Node) (gs : List (Gene F))
    (h : ∀ g ∈ gs, geneOK traits nodes g = true) (hst : ∀ g ∈ gs, K.yf g.w = g.w ∧ K.yf g.mnum = g.mnum) :
    decGenes K traits nodes (gs.map encGene) = .ok gs := by
  induction gs with
  | nil => rfl
  | cons g gs ih =>
    simp [decGenes, decGene_enc K traits nodes g (h g List.mem_cons_self) (hst g List.mem_cons_self).1 (hst g List.mem_cons_self).2,
      ih (fun g' hg' => h g' (List.mem_cons_of_mem _ hg')) (fun g' hg' => hst g' (List.mem_cons_of_mem _ hg'))]

theorem decWires_enc [DecidableEq F] (K : Consts F) (nodes : List Node) (ws : List (Wire F)) (i : Nat)
    (h : ∀ w ∈ ws, wireOK K nodes w = true) : decWires K nodes (encWires i ws) = .ok ws := by
  induction ws generalizing i with
  | nil => rfl
  | cons w ws ih =>
    have hw := h w List.mem_cons_self
    simp only [wireOK, Bool.and_eq_true, decide_eq_true_eq, Bool.not_eq_true',
      Option.isNone_iff_eq_none] at hw
    obtain ⟨⟨⟨hmem, hone⟩, hrec⟩, htr⟩ := hw
    cases w with
    | mk node wt recur trait =>
      simp only at hmem hone hrec htr
      subst hone hrec htr
      simp [encWires, decWires, get, hmem, ih (i + 1) (fun w' hw' => h w' (List.mem_cons_of_mem _ hw'))]

theorem decModule_enc [DecidableEq F] (C : Codec F) (hA : ActsRoundTrip C) (K : Consts F) (traits : List (Trait F))
    (nodes : List Node) (m : Module F) (h : moduleOK C K traits nodes m = true) (hst : K.yf m.mnum = m.mnum) :
    decModule C K traits nodes (encModule C m) = .ok m := by
  simp only [moduleOK, Bool.and_eq_true, beq_iff_eq, Bool.not_eq_true', List.all_eq_true] at h
  obtain ⟨⟨⟨⟨⟨hk, href⟩, hact⟩, _⟩, hins⟩, houts⟩ := h
  obtain ⟨nm, hnm, hback⟩ := actOfName_of_match C hA hact
  cases m with
  | mk inn mnum en ctrl ins outs =>
    cases ctrl with
    | mk id kind act trait =>
      simp only at hk href hnm hback hins houts hst
      subst hk
      simp [decModule, encModule, get, hnm, hback, hst, traitRef_of_refOK href,
        decWires_enc K nodes ins 0 hins, decWires_enc K nodes outs 0 houts]

theorem decModules_enc [DecidableEq F] (C : Codec F) (hA : ActsRoundTrip C) (K : Consts F) (traits : List (Trait F))
    (nodes : List Node) (ms : List (Module F)) (h : ∀ m ∈ ms, moduleOK C K traits nodes m = true)
    (hst : ∀ m ∈ ms, K.yf m.mnum = m.mnum) :
    decModules C K traits nodes (ms.map (encModule C)) = .ok ms := by
  induction ms with
  | nil => rfl
  | cons m ms ih =>
    have hm := h m List.mem_cons_self
    have hfresh : nodes.any (·.id == m.ctrl.id) = false := by
      simp only [moduleOK, Bool.and_eq_true, Bool.not_eq_true'] at hm
      exact hm.1.1.2
    simp [decModules, decModule_enc C hA K traits nodes m hm (hst m List.mem_cons_self), hfresh,
      ih (fun m' hm' => h m' (List.mem_cons_of_mem _ hm')) (fun m' hm' => hst m' (List.mem_cons_of_mem _ hm'))]

/-! ### gob -/

theorem decOrg_enc (C : Codec F) (hF : FloatsRoundTrip C) (hA : ActsRoundTrip C) (o : Org F) (g : Genome F)
    (hg : o.genotype = some g) (hwf : PlainIO.WFio C g = true) (rest : List (GV F)) :
    decOrg C (encOrg C o ++ rest) = .ok (o, rest) := by
  cases o with
  | mk fitness isWinner generation expectedOffspring error genotype =>
    simp only at hg
    subst hg
    simp [decOrg, encOrg, PlainIO.readGenome_render_aux C hF hA g hwf]

theorem decGen_enc (C : Codec F) (hF : FloatsRoundTrip C) (hA : ActsRoundTrip C) (g : Generation F)
    (h : WFgen C g = true) (rest : List (GV F)) : decGen C (encGen C g ++ rest) = .ok (g, rest) := by
  cases g with
  | mk id executed solved fitness age complexity diversity winnerEvals winnerNodes winnerGenes duration trialId champion =>
    cases champion with
    | none => simp [WFgen] at h
    | some o =>
      cases ho : o.genotype with
      | none => simp [WFgen, ho] at h
      | some gn =>
        have hwf : PlainIO.WFio C gn = true := by simpa [WFgen, ho] using h
        simp [decGen, encGen, decOrg_enc C hF hA o gn ho hwf]

theorem decGens_enc (C : Codec F) (hF : FloatsRoundTrip C) (hA : ActsRoundTrip C) (gs : List (Generation F))
    (h : ∀ g ∈ gs, WFgen C g = true) (rest : List (GV F)) :
    decGens C gs.length (encGens C gs ++ rest) = .ok (gs, rest) := by
  induction gs with
  | nil => simp [decGens, encGens]
  | cons g gs ih =>
    simp [decGens, encGens, List.append_assoc, decGen_enc C hF hA g (h g List.mem_cons_self),
      ih (fun g' hg' => h g' (List.mem_cons_of_mem _ hg'))]

theorem decTrial_enc (C : Codec F) (hF : FloatsRoundTrip C) (hA : ActsRoundTrip C) (t : Trial F)
    (h : ∀ g ∈ t.gens, WFgen C g = true) (rest : List (GV F)) :
    decTrial C (encTrial C t ++ rest) = .ok (t, rest) := by
  cases t with
  | mk id gens =>
    have hn : ¬ ((gens.length : Int) < 0) := by omega
    simp [decTrial, encTrial, hn, decGens_enc C hF hA gens h]

theorem decTrials_enc (C : Codec F) (hF : FloatsRoundTrip C) (hA : ActsRoundTrip C) (ts : List (Trial F))
    (h : ∀ t ∈ ts, ∀ g ∈ t.gens, WFgen C g = true) (rest : List (GV F)) :
    decTrials C ts.length (encTrials C ts ++ rest) = .ok (ts, rest) := by
  induction ts with
  | nil => simp [decTrials, encTrials]
  | cons t ts ih =>
    simp [decTrials, encTrials, List.append_assoc, decTrial_enc C hF hA t (h t List.mem_cons_self),
      ih (fun t' ht' => h t' (List.mem_cons_of_mem _ ht'))]

/-! ### JSON -/

theorem decInts_map (xs : List Int) : decInts (xs.map (Val.int (F := F))) = .ok xs := by
  induction xs with
  | nil => rfl
  | cons x xs ih => simp [decInts, ih]

theorem actOK_spec (C : Codec F) (hA : ActsRoundTrip C) {a : Nat} (h : actOK C a = true) :
    ∃ nm, C.actName a = some nm ∧ C.actOfName nm = some a :=
  actOfName_of_match C hA h

theorem decActs_enc (C : Codec F) (hA : ActsRoundTrip C) (as : List Nat) (h : ∀ a ∈ as, actOK C a = true) :
    decActs C (as.map fun a => Val.str ((C.actName a).getD "")) = .ok as := by
  induction as with
  | nil => rfl
  | cons a as ih =>
    obtain ⟨nm, hnm, hback⟩ := actOK_spec C hA (h a List.mem_cons_self)
    simp [decActs, hnm, hback, ih (fun a' ha' => h a' (List.mem_cons_of_mem _ ha'))]

theorem decLinks_enc (ls : List (LinkIO F)) : decLinks (ls.map encLink) = .ok ls := by
  induction ls with
  | nil => rfl
  | cons l ls ih => cases l; simp [decLinks, encLink, get, ih]

theorem decMods_enc (C : Codec F) (hA : ActsRoundTrip C) (ms : List ModIO) (h : ∀ m ∈ ms, actOK C m.act = true) :
    decMods C (ms.map (encMod (F := F) C)) = .ok ms := by
  induction ms with
  | nil => rfl
  | cons m ms ih =>
    obtain ⟨nm, hnm, hback⟩ := actOK_spec C hA (h m List.mem_cons_self)
    cases m with
    | mk act ins outs =>
      simp only at hnm hback
      simp [decMods, encMod, get, hnm, hback, decInts_map, ih (fun m' hm' => h m' (List.mem_cons_of_mem _ hm'))]

end GoNeat.Codec
