/-
  C01 helper lemmas for the structural mutators: adding a gene / a node to a well-formed genome, the `haveGene`
  guard, and the preservation of the registry invariant `RegInv` by the four ways a structural mutator obtains
  its numbers (recorded link, fresh link, recorded node split, fresh node split).
-/
import GoNeat.Proofs.WFLemmas
import GoNeat.Proofs.MaxFrom

namespace GoNeat.C01
open GoNeat
variable {W : Type}

theorem geneKey_eq {z y : Gene W} (h : geneKey z = geneKey y) :
    z.inn = y.inn ∧ z.src = y.src ∧ z.dst = y.dst ∧ z.recur = y.recur ∧ z.link = y.link := by
  unfold geneKey at h
  simp only [Prod.mk.injEq] at h
  have hl := h.2
  unfold Gene.link at hl
  simp only [Prod.mk.injEq] at hl
  exact ⟨h.1, hl.1, hl.2.1, hl.2.2, h.2⟩

theorem typ_absurd {P : Prop} {r : Innov W} (h1 : r.typ = 1) (h2 : r.typ = 2) : P := by omega

/-- in a strictly ascending gene list the last gene carries the largest number -/
theorem sorted_le_last (genes : List (Gene W)) (hs : GenesSorted genes) (last : Gene W)
    (hl : genes.getLast? = some last) : ∀ y ∈ genes, y.inn ≤ last.inn := by
  obtain ⟨pre, rfl⟩ := List.getLast?_eq_some_iff.mp hl
  unfold GenesSorted at hs
  rw [List.pairwise_append] at hs
  intro y hy
  rcases List.mem_append.mp hy with h | h
  · have := hs.2.2 y h last (by simp); omega
  · simp at h; subst h; omega

/-- **the `haveGene` guard suffices**: if `haveGene x` is false and every gene of `g` carrying `x`'s number has
    `x`'s link (`RegCompat` for a recorded number), then no gene of `g` carries that number -/
theorem haveGene_false (g : Genome W) (x : Gene W) (hs : GenesSorted g.genes) (h : g.haveGene x = false)
    (hc : ∀ y ∈ g.genes, y.inn = x.inn → y.link = x.link) : ∀ y ∈ g.genes, y.inn ≠ x.inn := by
  intro y hy hinn
  have hsame : y.sameLink x = true := by
    have := hc y hy hinn
    unfold Gene.link at this
    simp only [Prod.mk.injEq] at this
    unfold Gene.sameLink
    simp [this.1, this.2.1, this.2.2]
  have hany : g.genes.any (·.sameLink x) = true := List.any_eq_true.mpr ⟨y, hy, hsame⟩
  -- (since fix 48b1f99 `getNextGeneInnovNum` takes the maximum: the order hypothesis `hs` is no longer used)
  have _ := hs
  unfold Genome.haveGene at h
  cases hni : g.nextGeneInnov with
  | error e =>
    obtain ⟨ni, e'⟩ := g.nextGeneInnov_ok (List.ne_nil_of_mem hy)
    rw [e'] at hni; cases hni
  | ok ni =>
    rw [hni] at h
    simp only at h
    have hmax := g.nextGeneInnov_gt ni hni y hy
    by_cases hc2 : x.inn ≥ ni
    · omega
    · rw [if_neg hc2, hany] at h; cases h

/-! ### adding a gene / a node -/

/-- inserting (in innovation order) a gene with a new number and a new link between existing nodes, not into a
    sensor, with a resolving trait reference keeps the genome well-formed -/
theorem addGene_wft (g : Genome W) (x : Gene W) (hw : WFT g)
    (hinn : ∀ y ∈ g.genes, y.inn ≠ x.inn) (hlink : ∀ y ∈ g.genes, y.link ≠ x.link)
    (hsrc : x.src ∈ nodeIds g) (hdst : x.dst ∈ nodeIds g)
    (hsens : ∀ n ∈ g.nodes, n.id = x.dst → n.isSensor = false) (htr : TraitRefOk g x.trait) :
    WFT { g with genes := geneInsert g.genes x } := by
  have hmem : ∀ y, y ∈ geneInsert g.genes x ↔ y = x ∨ y ∈ g.genes := fun y => mem_insertAt _ _ _ _
  have hsorted := insertAt_sorted (fun y : Gene W => y.inn) g.genes x hw.wf.genesSorted hinn
  refine ⟨⟨hsorted.1, ?_, hw.wf.nodesSorted, ?_, ⟨?_, hw.wf.traitRefs.2⟩, ?_, insertAt_ne_nil _ _ _, hw.wf.hasOutput,
           hw.wf.traits⟩, hw.tnz, hw.kinds⟩
  · have hp : (geneInsert g.genes x).Perm (x :: g.genes) := hsorted.2
    have : LinksDistinct (x :: g.genes) := by
      unfold LinksDistinct
      rw [List.pairwise_cons]
      exact ⟨fun y hy => (hlink y hy).symm, hw.wf.linksDistinct⟩
    unfold LinksDistinct at this ⊢
    exact (hp.pairwise_iff (fun h => Ne.symm h)).mpr this
  · intro y hy
    rcases (hmem y).mp hy with rfl | h
    · exact ⟨hsrc, hdst⟩
    · exact hw.wf.endpoints y h
  · intro y hy
    rcases (hmem y).mp hy with rfl | h
    · exact htr
    · exact hw.wf.traitRefs.1 y h
  · intro y hy n hn hid
    rcases (hmem y).mp hy with rfl | h
    · exact hsens n hn hid
    · exact hw.wf.noSensorTarget y h n hn hid

/-- inserting (in id order) a node with a new id and a resolving trait reference keeps the genome well-formed -/
theorem addNode_wft (g : Genome W) (n : Node) (hw : WFT g)
    (hid : ∀ m ∈ g.nodes, m.id ≠ n.id) (htr : TraitRefOk g n.trait) (hk : n.kind ≤ 3) :
    WFT { g with nodes := nodeInsert g.nodes n } := by
  have hmem : ∀ m, m ∈ nodeInsert g.nodes n ↔ m = n ∨ m ∈ g.nodes := fun m => mem_insertAt _ _ _ _
  have hsorted := insertAt_sorted (fun m : Node => m.id) g.nodes n hw.wf.nodesSorted hid
  have hsub : ∀ i ∈ nodeIds g, i ∈ nodeIds ({ g with nodes := nodeInsert g.nodes n } : Genome W) := by
    intro i hi
    obtain ⟨m, hm, e⟩ := List.mem_map.mp hi
    exact List.mem_map.mpr ⟨m, (hmem m).mpr (Or.inr hm), e⟩
  refine ⟨⟨hw.wf.genesSorted, hw.wf.linksDistinct, hsorted.1, ?_, ⟨hw.wf.traitRefs.1, ?_⟩, ?_, hw.wf.hasGene, ?_,
           hw.wf.traits⟩, hw.tnz, fun m hm => by
             rcases (hmem m).mp hm with rfl | h
             · exact hk
             · exact hw.kinds m h⟩
  · intro y hy
    exact ⟨hsub _ (hw.wf.endpoints y hy).1, hsub _ (hw.wf.endpoints y hy).2⟩
  · intro m hm
    rcases (hmem m).mp hm with rfl | h
    · exact htr
    · exact hw.wf.traitRefs.2 m h
  · intro y hy m hm hmid
    rcases (hmem m).mp hm with rfl | h
    · exfalso
      obtain ⟨k, hk, e⟩ := List.mem_map.mp (hw.wf.endpoints y hy).2
      exact hid k hk (by rw [e, hmid])
    · exact hw.wf.noSensorTarget y hy m h hmid
  · obtain ⟨m, hm, hk⟩ := hw.wf.hasOutput
    exact ⟨m, (hmem m).mpr (Or.inr hm), hk⟩

/-! ### the registry invariant under the four ways of obtaining numbers -/

/-- a gene carrying the number and link of a recorded link innovation is added -/
theorem regInv_recorded2 (reg : Reg W) (g g' : Genome W) (i : Innov W) (x : Gene W)
    (hi : i ∈ reg.records) (ht : i.typ = 2) (hx : x.inn = i.inn) (hxl : x.link = (i.inId, i.outId, i.recur))
    (hg : ∀ y ∈ g'.genes, y = x ∨ ∃ z ∈ g.genes, geneKey z = geneKey y) (hn : g'.nodes = g.nodes)
    (h : RegInv reg g) : RegInv reg g' := by
  refine ⟨?_, ⟨?_, by rw [hn]; exact h.above.2⟩, h.ok⟩
  · intro j hj
    obtain ⟨p22, p21, _⟩ := h.ok.2 i hi j hj
    refine ⟨fun tj y hy hinn => ?_, fun tj => ⟨fun y hy hinn => ?_, fun y hy hinn => ?_, ?_⟩⟩
    · rcases hg y hy with rfl | ⟨z, hz, e⟩
      · obtain ⟨e1, e2, e3⟩ := p22 ht tj (by rw [← hx, hinn])
        rw [hxl, e1, e2, e3]
      · obtain ⟨k1, _, _, _, k5⟩ := geneKey_eq e
        rw [← k5]; exact (h.compat j hj).1 tj z hz (by rw [k1, hinn])
    · rcases hg y hy with rfl | ⟨z, hz, e⟩
      · exact absurd (by rw [← hx, hinn]) (p21 ht tj).1
      · obtain ⟨k1, k2, k3, _, _⟩ := geneKey_eq e
        rw [← k2, ← k3]; exact ((h.compat j hj).2 tj).1 z hz (by rw [k1, hinn])
    · rcases hg y hy with rfl | ⟨z, hz, e⟩
      · exact absurd (by rw [← hx, hinn]) (p21 ht tj).2
      · obtain ⟨k1, k2, k3, k4, _⟩ := geneKey_eq e
        rw [← k2, ← k3, ← k4]; exact ((h.compat j hj).2 tj).2.1 z hz (by rw [k1, hinn])
    · rw [hn]; exact ((h.compat j hj).2 tj).2.2
  · intro y hy
    rcases hg y hy with rfl | ⟨z, hz, e⟩
    · rw [hx]; exact ((h.ok.1 i hi).1 ht)
    · rw [← (geneKey_eq e).1]; exact h.above.1 z hz

/-- a gene carrying a fresh number is added and the link innovation is recorded -/
theorem regInv_fresh2 (reg : Reg W) (g g' : Genome W) (x : Gene W) (r : Innov W)
    (hrt : r.typ = 2) (hri : r.inn = reg.nextInn + 1) (hrl : x.link = (r.inId, r.outId, r.recur))
    (hx : x.inn = reg.nextInn + 1)
    (hg : ∀ y ∈ g'.genes, y = x ∨ ∃ z ∈ g.genes, geneKey z = geneKey y) (hn : g'.nodes = g.nodes)
    (h : RegInv reg g) : RegInv (reg.nextInnovation.2.store r) g' := by
  have hrec : ∀ j, j ∈ (reg.nextInnovation.2.store r).records ↔ j ∈ reg.records ∨ j = r := by
    intro j; simp [Reg.store, Reg.nextInnovation]
  have hni : (reg.nextInnovation.2.store r).nextInn = reg.nextInn + 1 := rfl
  have hnn : (reg.nextInnovation.2.store r).nextNode = reg.nextNode := rfl
  have hold : ∀ z ∈ g.genes, z.inn ≤ reg.nextInn := h.above.1
  refine ⟨?_, ⟨?_, by rw [hn, hnn]; exact h.above.2⟩, ⟨?_, ?_⟩⟩
  · intro j hj
    rcases (hrec j).mp hj with hj' | rfl
    · have hj := hj'
      have hb := h.ok.1 j hj
      refine ⟨fun tj y hy hinn => ?_, fun tj => ⟨fun y hy hinn => ?_, fun y hy hinn => ?_, ?_⟩⟩
      · rcases hg y hy with rfl | ⟨z, hz, e⟩
        · have := hb.1 tj; omega
        · obtain ⟨k1, _, _, _, k5⟩ := geneKey_eq e
          rw [← k5]; exact (h.compat j hj).1 tj z hz (by rw [k1, hinn])
      · rcases hg y hy with rfl | ⟨z, hz, e⟩
        · have := (hb.2 tj).1; omega
        · obtain ⟨k1, k2, k3, _, _⟩ := geneKey_eq e
          rw [← k2, ← k3]; exact ((h.compat j hj).2 tj).1 z hz (by rw [k1, hinn])
      · rcases hg y hy with rfl | ⟨z, hz, e⟩
        · have := (hb.2 tj).2.1; omega
        · obtain ⟨k1, k2, k3, k4, _⟩ := geneKey_eq e
          rw [← k2, ← k3, ← k4]; exact ((h.compat j hj).2 tj).2.1 z hz (by rw [k1, hinn])
      · rw [hn]; exact ((h.compat j hj).2 tj).2.2
    · refine ⟨fun _ y hy hinn => ?_, fun tj => (by rw [hrt] at tj; cases tj)⟩
      rcases hg y hy with rfl | ⟨z, hz, e⟩
      · exact hrl
      · have := hold z hz
        have := (geneKey_eq e).1
        omega
  · intro y hy
    rw [hni]
    rcases hg y hy with rfl | ⟨z, hz, e⟩
    · omega
    · have := hold z hz
      have := (geneKey_eq e).1
      omega
  · intro j hj
    unfold RecBound
    rcases (hrec j).mp hj with hj' | rfl
    · have hb := h.ok.1 j hj'
      refine ⟨fun tj => ?_, fun tj => ?_⟩
      · rw [hni]; have := hb.1 tj; omega
      · rw [hni, hnn]; have := hb.2 tj; omega
    · refine ⟨fun _ => (by rw [hni]; omega), fun tj => (by rw [hrt] at tj; cases tj)⟩
  · intro i hi j hj
    unfold RecPairOk RecPair22 RecPair21 RecPair11
    by_cases ei : i ∈ reg.records <;> by_cases ej : j ∈ reg.records
    · exact h.ok.2 i ei j ej
    · have ejr : j = r := by rcases (hrec j).mp hj with h' | h'; exact absurd h' ej; exact h'
      subst ejr
      have hb := h.ok.1 i ei
      refine ⟨fun ti _ e => ?_, fun _ tj => (by rw [hrt] at tj; cases tj), fun _ tj => (by rw [hrt] at tj; cases tj)⟩
      have := hb.1 ti; omega
    · have eir : i = r := by rcases (hrec i).mp hi with h' | h'; exact absurd h' ei; exact h'
      subst eir
      have hb := h.ok.1 j ej
      refine ⟨fun _ tj e => ?_, fun _ tj => ?_, fun ti => (by rw [hrt] at ti; cases ti)⟩
      · have := hb.1 tj; omega
      · have := hb.2 tj; constructor <;> omega
    · have ejr : j = r := by rcases (hrec j).mp hj with h' | h'; exact absurd h' ej; exact h'
      have eir : i = r := by rcases (hrec i).mp hi with h' | h'; exact absurd h' ei; exact h'
      subst ejr; subst eir
      exact ⟨fun _ _ _ => ⟨rfl, rfl, rfl⟩, fun _ tj => (by rw [hrt] at tj; cases tj), fun ti => (by rw [hrt] at ti; cases ti)⟩

/-- the two genes and the node of a recorded node-split innovation are added -/
theorem regInv_recorded1 (reg : Reg W) (g g' : Genome W) (i : Innov W) (x1 x2 : Gene W) (n : Node)
    (hi : i ∈ reg.records) (ht : i.typ = 1)
    (h1 : x1.inn = i.inn ∧ x1.src = i.inId ∧ x1.dst = i.newNode)
    (h2 : x2.inn = i.inn2 ∧ x2.src = i.newNode ∧ x2.dst = i.outId ∧ x2.recur = false)
    (hnn : n.id = i.newNode ∧ n.kind = Kind.hidden)
    (hg : ∀ y ∈ g'.genes, y = x1 ∨ y = x2 ∨ ∃ z ∈ g.genes, geneKey z = geneKey y)
    (hn : ∀ m ∈ g'.nodes, m = n ∨ m ∈ g.nodes)
    (h : RegInv reg g) : RegInv reg g' := by
  have hbi := (h.ok.1 i hi).2 ht
  refine ⟨?_, ⟨?_, ?_⟩, h.ok⟩
  · intro j hj
    obtain ⟨_, _, pij⟩ := h.ok.2 i hi j hj
    obtain ⟨_, pji21, pji⟩ := h.ok.2 j hj i hi
    refine ⟨fun tj y hy hinn => ?_, fun tj => ⟨fun y hy hinn => ?_, fun y hy hinn => ?_, fun m hm hmid => ?_⟩⟩
    · rcases hg y hy with rfl | rfl | ⟨z, hz, e⟩
      · exact absurd (by rw [← h1.1, hinn]) (pji21 tj ht).1.symm
      · exact absurd (by rw [← h2.1, hinn]) (pji21 tj ht).2.symm
      · obtain ⟨k1, _, _, _, k5⟩ := geneKey_eq e
        rw [← k5]; exact (h.compat j hj).1 tj z hz (by rw [k1, hinn])
    · rcases hg y hy with rfl | rfl | ⟨z, hz, e⟩
      · obtain ⟨e1, e2⟩ := (pij ht tj).1 (by rw [← h1.1, hinn])
        rw [h1.2.1, h1.2.2, e1, e2]; exact ⟨rfl, rfl⟩
      · exact absurd (by rw [← h2.1, hinn]) (pji tj ht).2.2
      · obtain ⟨k1, k2, k3, _, _⟩ := geneKey_eq e
        rw [← k2, ← k3]; exact ((h.compat j hj).2 tj).1 z hz (by rw [k1, hinn])
    · rcases hg y hy with rfl | rfl | ⟨z, hz, e⟩
      · exact absurd (by rw [← h1.1, hinn]) (pij ht tj).2.2
      · obtain ⟨e1, e2⟩ := (pij ht tj).2.1 (by rw [← h2.1, hinn])
        rw [h2.2.1, h2.2.2.1, h2.2.2.2, e1, e2]; exact ⟨rfl, rfl, rfl⟩
      · obtain ⟨k1, k2, k3, k4, _⟩ := geneKey_eq e
        rw [← k2, ← k3, ← k4]; exact ((h.compat j hj).2 tj).2.1 z hz (by rw [k1, hinn])
    · rcases hn m hm with rfl | hm
      · exact hnn.2
      · exact ((h.compat j hj).2 tj).2.2 m hm hmid
  · intro y hy
    rcases hg y hy with rfl | rfl | ⟨z, hz, e⟩
    · rw [h1.1]; exact hbi.1
    · rw [h2.1]; exact hbi.2.1
    · rw [← (geneKey_eq e).1]; exact h.above.1 z hz
  · intro m hm
    rcases hn m hm with rfl | hm
    · rw [hnn.1]; exact hbi.2.2
    · exact h.above.2 m hm

/-- the registry after a fresh node split: node id, two innovation numbers, one record -/
def regAfterSplit (reg : Reg W) (r : Innov W) : Reg W :=
  ((reg.nextNodeId.2.nextInnovation.2).nextInnovation.2).store r

/-- the two genes and the node of a fresh node split are added and the innovation is recorded -/
theorem regInv_fresh1 (reg : Reg W) (g g' : Genome W) (r : Innov W) (x1 x2 : Gene W) (n : Node)
    (hrt : r.typ = 1) (hr1 : r.inn = reg.nextInn + 1) (hr2 : r.inn2 = reg.nextInn + 2) (hrn : r.newNode = reg.nextNode + 1)
    (h1 : x1.inn = r.inn ∧ x1.src = r.inId ∧ x1.dst = r.newNode)
    (h2 : x2.inn = r.inn2 ∧ x2.src = r.newNode ∧ x2.dst = r.outId ∧ x2.recur = false)
    (hnn : n.id = r.newNode ∧ n.kind = Kind.hidden)
    (hg : ∀ y ∈ g'.genes, y = x1 ∨ y = x2 ∨ ∃ z ∈ g.genes, geneKey z = geneKey y)
    (hn : ∀ m ∈ g'.nodes, m = n ∨ m ∈ g.nodes)
    (h : RegInv reg g) : RegInv (regAfterSplit reg r) g' := by
  have hrec : ∀ j, j ∈ (regAfterSplit reg r).records ↔ j ∈ reg.records ∨ j = r := by
    intro j; simp [regAfterSplit, Reg.store, Reg.nextInnovation, Reg.nextNodeId]
  have hni : (regAfterSplit reg r).nextInn = reg.nextInn + 1 + 1 := rfl
  have hnd : (regAfterSplit reg r).nextNode = reg.nextNode + 1 := rfl
  have hold : ∀ z ∈ g.genes, z.inn ≤ reg.nextInn := h.above.1
  have holdn : ∀ m ∈ g.nodes, m.id ≤ reg.nextNode := h.above.2
  refine ⟨?_, ⟨?_, ?_⟩, ⟨?_, ?_⟩⟩
  · intro j hj
    rcases (hrec j).mp hj with hj' | rfl
    · have hj := hj'
      have hb := h.ok.1 j hj
      refine ⟨fun tj y hy hinn => ?_, fun tj => ⟨fun y hy hinn => ?_, fun y hy hinn => ?_, fun m hm hmid => ?_⟩⟩
      · rcases hg y hy with rfl | rfl | ⟨z, hz, e⟩
        · have := hb.1 tj; omega
        · have := hb.1 tj; omega
        · obtain ⟨k1, _, _, _, k5⟩ := geneKey_eq e
          rw [← k5]; exact (h.compat j hj).1 tj z hz (by rw [k1, hinn])
      · rcases hg y hy with rfl | rfl | ⟨z, hz, e⟩
        · have := (hb.2 tj).1; omega
        · have := (hb.2 tj).1; omega
        · obtain ⟨k1, k2, k3, _, _⟩ := geneKey_eq e
          rw [← k2, ← k3]; exact ((h.compat j hj).2 tj).1 z hz (by rw [k1, hinn])
      · rcases hg y hy with rfl | rfl | ⟨z, hz, e⟩
        · have := (hb.2 tj).2.1; omega
        · have := (hb.2 tj).2.1; omega
        · obtain ⟨k1, k2, k3, k4, _⟩ := geneKey_eq e
          rw [← k2, ← k3, ← k4]; exact ((h.compat j hj).2 tj).2.1 z hz (by rw [k1, hinn])
      · rcases hn m hm with rfl | hm
        · exact hnn.2
        · exact ((h.compat j hj).2 tj).2.2 m hm hmid
    · refine ⟨fun tj => (by rw [hrt] at tj; cases tj), fun _ => ⟨fun y hy hinn => ?_, fun y hy hinn => ?_, fun m hm hmid => ?_⟩⟩
      · rcases hg y hy with rfl | rfl | ⟨z, hz, e⟩
        · exact ⟨h1.2.1, h1.2.2⟩
        · omega
        · have := hold z hz
          have := (geneKey_eq e).1
          omega
      · rcases hg y hy with rfl | rfl | ⟨z, hz, e⟩
        · omega
        · exact ⟨h2.2.1, h2.2.2.1, h2.2.2.2⟩
        · have := hold z hz
          have := (geneKey_eq e).1
          omega
      · rcases hn m hm with rfl | hm
        · exact hnn.2
        · have := holdn m hm; omega
  · intro y hy
    rw [hni]
    rcases hg y hy with rfl | rfl | ⟨z, hz, e⟩
    · omega
    · omega
    · have := hold z hz
      have := (geneKey_eq e).1
      omega
  · intro m hm
    rw [hnd]
    rcases hn m hm with rfl | hm
    · omega
    · have := holdn m hm; omega
  · intro j hj
    unfold RecBound
    rcases (hrec j).mp hj with hj' | rfl
    · have hb := h.ok.1 j hj'
      refine ⟨fun tj => ?_, fun tj => ?_⟩
      · rw [hni]; have := hb.1 tj; omega
      · rw [hni, hnd]; have := hb.2 tj; omega
    · refine ⟨fun tj => (by rw [hrt] at tj; cases tj), fun _ => (by rw [hni, hnd]; omega)⟩
  · intro i hi j hj
    unfold RecPairOk RecPair22 RecPair21 RecPair11
    by_cases ei : i ∈ reg.records <;> by_cases ej : j ∈ reg.records
    · exact h.ok.2 i ei j ej
    · have ejr : j = r := by rcases (hrec j).mp hj with h' | h'; exact absurd h' ej; exact h'
      subst ejr
      have hb := h.ok.1 i ei
      refine ⟨fun _ tj => (by rw [hrt] at tj; cases tj), fun ti _ => ?_, fun ti _ => ?_⟩
      · have := hb.1 ti; constructor <;> omega
      · have := hb.2 ti
        exact ⟨fun e => (by omega), fun e => (by omega), (by omega)⟩
    · have eir : i = r := by rcases (hrec i).mp hi with h' | h'; exact absurd h' ei; exact h'
      subst eir
      have hb := h.ok.1 j ej
      refine ⟨fun ti => (by rw [hrt] at ti; cases ti), fun ti => (by rw [hrt] at ti; cases ti), fun _ tj => ?_⟩
      have := hb.2 tj
      exact ⟨fun e => (by omega), fun e => (by omega), (by omega)⟩
    · have ejr : j = r := by rcases (hrec j).mp hj with h' | h'; exact absurd h' ej; exact h'
      have eir : i = r := by rcases (hrec i).mp hi with h' | h'; exact absurd h' ei; exact h'
      subst ejr; subst eir
      exact ⟨fun ti => (by rw [hrt] at ti; cases ti), fun ti => (by rw [hrt] at ti; cases ti),
             fun _ _ => ⟨fun _ => ⟨rfl, rfl⟩, fun _ => ⟨rfl, rfl⟩, (by omega)⟩⟩

/-! ### node ids are unique in a well-formed genome -/

theorem node_unique (nodes : List Node) (hs : NodesSorted nodes) (n m : Node) (hn : n ∈ nodes) (hm : m ∈ nodes)
    (hid : n.id = m.id) : n = m := by
  unfold NodesSorted at hs
  induction nodes with
  | nil => simp at hn
  | cons a t ih =>
    rw [List.pairwise_cons] at hs
    rcases List.mem_cons.mp hn with rfl | hn' <;> rcases List.mem_cons.mp hm with rfl | hm'
    · rfl
    · have := hs.1 m hm'; omega
    · have := hs.1 n hn'; omega
    · exact ih hs.2 hn' hm'

theorem not_mem_nodeIds_of_hasNode (g : Genome W) (id : Int) (h : g.hasNode id = false) : id ∉ nodeIds g := by
  intro hm
  have : (nodeById g.nodes id).isSome = true := by
    unfold nodeById
    rw [List.find?_isSome]
    obtain ⟨n, hn, e⟩ := List.mem_map.mp hm
    exact ⟨n, List.mem_reverse.mpr hn, by simp [e]⟩
  unfold Genome.hasNode at h
  rw [this] at h; cases h

/-- the node split: a new hidden node `n` between `a` and `b` with the genes `a → n` and `n → b` -/
theorem addSplit_wft (g : Genome W) (n : Node) (x1 x2 : Gene W) (hw : WFT g)
    (hnid : n.id ∉ nodeIds g) (hnh : n.kind = Kind.hidden) (hnt : TraitRefOk g n.trait)
    (h1 : x1.dst = n.id ∧ x1.src ∈ nodeIds g ∧ TraitRefOk g x1.trait)
    (h2 : x2.src = n.id ∧ x2.dst ∈ nodeIds g ∧ TraitRefOk g x2.trait)
    (h2s : ∀ m ∈ g.nodes, m.id = x2.dst → m.isSensor = false)
    (hi1 : ∀ y ∈ g.genes, y.inn ≠ x1.inn) (hi2 : ∀ y ∈ g.genes, y.inn ≠ x2.inn) (hi12 : x1.inn ≠ x2.inn) :
    WFT { g with genes := geneInsert (geneInsert g.genes x1) x2, nodes := nodeInsert g.nodes n } := by
  have hnid' : ∀ m ∈ g.nodes, m.id ≠ n.id := fun m hm e => hnid (List.mem_map.mpr ⟨m, hm, e⟩)
  have hnk : n.isSensor = false := by unfold Node.isSensor; rw [hnh]; rfl
  have w2 := addNode_wft g n hw hnid' hnt (by rw [hnh]; decide)
  have hmemN : ∀ m, m ∈ nodeInsert g.nodes n ↔ m = n ∨ m ∈ g.nodes := fun m => mem_insertAt _ _ _ _
  have hsubN : ∀ i ∈ nodeIds g, i ∈ nodeIds ({ g with nodes := nodeInsert g.nodes n } : Genome W) := by
    intro i hi
    obtain ⟨m, hm, e⟩ := List.mem_map.mp hi
    exact List.mem_map.mpr ⟨m, (hmemN m).mpr (Or.inr hm), e⟩
  have hnin : n.id ∈ nodeIds ({ g with nodes := nodeInsert g.nodes n } : Genome W) :=
    List.mem_map.mpr ⟨n, (hmemN n).mpr (Or.inl rfl), rfl⟩
  have hdstOld : ∀ y ∈ g.genes, y.dst ≠ n.id := fun y hy e => hnid (e ▸ (hw.wf.endpoints y hy).2)
  have hsrcOld : ∀ y ∈ g.genes, y.src ≠ n.id := fun y hy e => hnid (e ▸ (hw.wf.endpoints y hy).1)
  have w3 := addGene_wft ({ g with nodes := nodeInsert g.nodes n } : Genome W) x1 w2 hi1
    (fun y hy e => by
      unfold Gene.link at e; simp only [Prod.mk.injEq] at e
      exact hdstOld y hy (by rw [e.2.1, h1.1]))
    (hsubN _ h1.2.1) (by rw [h1.1]; exact hnin)
    (fun m hm e => by
      rcases (hmemN m).mp hm with rfl | hm'
      · exact hnk
      · exact absurd (by rw [e, h1.1]) (hnid' m hm'))
    h1.2.2
  have hmemG : ∀ y, y ∈ geneInsert g.genes x1 ↔ y = x1 ∨ y ∈ g.genes := fun y => mem_insertAt _ _ _ _
  have w4 := addGene_wft ({ g with nodes := nodeInsert g.nodes n, genes := geneInsert g.genes x1 } : Genome W) x2 w3
    (fun y hy => by
      rcases (hmemG y).mp hy with rfl | hy'
      · exact hi12
      · exact hi2 y hy')
    (fun y hy e => by
      unfold Gene.link at e; simp only [Prod.mk.injEq] at e
      rcases (hmemG y).mp hy with rfl | hy'
      · exact hnid (by rw [← h2.1, ← e.1]; exact h1.2.1)
      · exact hsrcOld y hy' (by rw [e.1, h2.1]))
    (by rw [h2.1]; exact hnin) (hsubN _ h2.2.1)
    (fun m hm e => by
      rcases (hmemN m).mp hm with rfl | hm'
      · exact absurd (e ▸ h2.2.1) hnid
      · exact h2s m hm' e)
    h2.2.2
  exact w4

/-! ### retention of the input/bias/output nodes -/

theorem Retains.of_nodes_eq (g g' : Genome W) (h : g'.nodes = g.nodes) : Retains g g' := by
  intro n hn _; exact ⟨n, by rw [h]; exact hn, rfl, rfl⟩

theorem Retains.of_nodes_sub (g g' : Genome W) (h : ∀ n ∈ g.nodes, n ∈ g'.nodes) : Retains g g' := by
  intro n hn _; exact ⟨n, h n hn, rfl, rfl⟩

end GoNeat.C01
