/-
  C12, fast solver, Kind A part: on an acyclic fast network the recursive activation evaluates every neuron it
  reaches exactly once and leaves in `neuronSignals` the feed-forward value `fvalNode` of the fast representation
  (sum over `reverseAdjacentList` with `adjacentMatrix` weights from 0, then the bias, then the activation) - same
  operations in the same order, so the statement is exact for every scalar type.
-/
import GoNeat.Proofs.FastFlush

set_option linter.unusedSectionVars false

namespace GoNeat.Fast
open GoNeat.Solver (Err)

variable {W : Type} [Scalar W]

/-- `acc + Σ ev(adj)·adjacentMatrix[adj][cur]` over a list of sources, in list order -/
def adjSum (fn : FastNet W) (ev : Nat → Option W) (cur : Nat) : List Nat → W → Option W
  | [], acc => some acc
  | adj :: rest, acc =>
    match ev adj with
    | none => none
    | some v => adjSum fn ev cur rest (Scalar.add acc (Scalar.mul v (matW fn adj cur)))

/-- the feed-forward function of the fast representation; `sig i` is the signal of sensor `i` -/
def fvalNode (fn : FastNet W) (σ : Nat → W → Option W) (sig : Nat → W) : Nat → Nat → Option W
  | 0, _ => none
  | f + 1, i =>
    if i < fn.nSensor then some (sig i)
    else
      match adjSum fn (fvalNode fn σ sig f) i (revAdj fn i) Scalar.zero with
      | none => none
      | some x => σ (fn.acts.getD i 0) (if fn.nBias > 0 then Scalar.add x (getW fn.biasList i) else x)

theorem adjSum_mono (fn : FastNet W) (e1 e2 : Nat → Option W) (h : ∀ j v, e1 j = some v → e2 j = some v) (cur : Nat)
    (adjs : List Nat) (acc x : W) (hx : adjSum fn e1 cur adjs acc = some x) : adjSum fn e2 cur adjs acc = some x := by
  induction adjs generalizing acc with
  | nil => exact hx
  | cons a rest ih =>
    unfold adjSum at hx ⊢
    cases h1 : e1 a with
    | none => rw [h1] at hx; simp at hx
    | some v => rw [h1] at hx; rw [h a v h1]; exact ih _ hx

theorem fvalNode_mono (fn : FastNet W) (σ : Nat → W → Option W) (sig : Nat → W) (f : Nat) :
    ∀ i v, fvalNode fn σ sig f i = some v → fvalNode fn σ sig (f + 1) i = some v := by
  induction f with
  | zero => intro i v h; simp [fvalNode] at h
  | succ f ih =>
    intro i v h
    unfold fvalNode at h ⊢
    by_cases hs : i < fn.nSensor
    · simpa [hs] using h
    · simp only [hs, if_false] at h ⊢
      cases hsum : adjSum fn (fvalNode fn σ sig f) i (revAdj fn i) Scalar.zero with
      | none => rw [hsum] at h; simp at h
      | some x =>
        rw [hsum] at h
        rw [adjSum_mono fn _ _ ih i _ _ x hsum]
        exact h

theorem fvalNode_mono_le (fn : FastNet W) (σ : Nat → W → Option W) (sig : Nat → W) (f g : Nat) (hfg : f ≤ g)
    (i : Nat) (v : W) (h : fvalNode fn σ sig f i = some v) : fvalNode fn σ sig g i = some v := by
  induction g with
  | zero =>
    have : f = 0 := by omega
    subst this; exact h
  | succ g ih =>
    by_cases hf : f = g + 1
    · subst hf; exact h
    · exact fvalNode_mono fn σ sig g i v (ih (by omega))

/-- acyclic fast network: every connection goes from a lower to a higher rank, inside the arrays; ranks bounded -/
structure FFFast (fn : FastNet W) (lvl : Nat → Nat) : Prop where
  conn : ∀ c ∈ fn.conns, lvl c.src < lvl c.dst ∧ c.src < fn.nTotal
  bound : ∀ j, j < fn.nTotal → lvl j ≤ fn.nTotal
  outs : fn.nSensor + fn.nOutput ≤ fn.nTotal

theorem revAdj_mem (fn : FastNet W) (lvl : Nat → Nat) (h : FFFast fn lvl) (cur a : Nat) (ha : a ∈ revAdj fn cur) :
    lvl a < lvl cur ∧ a < fn.nTotal := by
  unfold revAdj at ha
  simp only [List.mem_map, List.mem_filter, beq_iff_eq] at ha
  obtain ⟨c, ⟨hc, hd⟩, rfl⟩ := ha
  have := h.conn c hc
  rw [hd] at this
  exact this

/-- invariant of the recursion: array lengths; sensors are marked and hold `sig`; every marked node holds its value -/
structure RI (fn : FastNet W) (σ : Nat → W → Option W) (sig : Nat → W) (lvl : Nat → Nat) (s : FState W) : Prop where
  lenS : s.signals.length = fn.nTotal
  lenP : s.processing.length = fn.nTotal
  lenA : s.activated.length = fn.nTotal
  lenI : s.inAct.length = fn.nTotal
  sens : ∀ j, j < fn.nSensor → j < fn.nTotal → getB s.activated j = true ∧ getW s.signals j = sig j
  val : ∀ j, j < fn.nTotal → getB s.activated j = true → fvalNode fn σ sig (lvl j + 1) j = some (getW s.signals j)

theorem RI_addProc {fn : FastNet W} {σ : Nat → W → Option W} {sig : Nat → W} {lvl : Nat → Nat} {s : FState W}
    (h : RI fn σ sig lvl s) (cur : Nat) (x : W) : RI fn σ sig lvl (addProc s cur x) :=
  ⟨h.lenS, by simp [addProc, h.lenP], h.lenA, h.lenI, h.sens, h.val⟩

/-- result of a call on `cur` -/
structure Post (fn : FastNet W) (σ : Nat → W → Option W) (sig : Nat → W) (lvl : Nat → Nat) (cur : Nat)
    (s s' : FState W) : Prop where
  ri : RI fn σ sig lvl s'
  inAct : ∀ j, getB s'.inAct j = getB s.inAct j
  done : getB s'.activated cur = true
  proc : ∀ j, lvl cur < lvl j → getW s'.processing j = getW s.processing j

/-- the loop over the sources of `cur` -/
theorem recAdj_ff (fn : FastNet W) (σ : Nat → W → Option W) (sig : Nat → W) (lvl : Nat → Nat) (cur : Nat)
    (hcur : cur < fn.nTotal) (rc : Nat → FState W → Res W)
    (hrc : ∀ a s, lvl a < lvl cur → a < fn.nTotal → RI fn σ sig lvl s → getB s.activated a = false →
      (∀ j, getB s.inAct j = true → lvl a < lvl j) →
      (rc a s).2 = (true, none) ∧ Post fn σ sig lvl a s (rc a s).1)
    (adjs : List Nat) (hadj : ∀ a ∈ adjs, lvl a < lvl cur ∧ a < fn.nTotal) :
    ∀ (s : FState W), RI fn σ sig lvl s → (∀ j, getB s.inAct j = true → lvl cur ≤ lvl j) →
      (recAdj fn rc cur adjs s).2 = none ∧
      RI fn σ sig lvl (recAdj fn rc cur adjs s).1 ∧
      (∀ j, getB (recAdj fn rc cur adjs s).1.inAct j = getB s.inAct j) ∧
      (∀ j, j ≠ cur → lvl cur ≤ lvl j → getW (recAdj fn rc cur adjs s).1.processing j = getW s.processing j) ∧
      adjSum fn (fvalNode fn σ sig (lvl cur)) cur adjs (getW s.processing cur) =
        some (getW (recAdj fn rc cur adjs s).1.processing cur) := by
  induction adjs with
  | nil => intro s hri _; exact ⟨rfl, hri, fun _ => rfl, fun _ _ _ => rfl, rfl⟩
  | cons a rest ih =>
    intro s hri hstack
    obtain ⟨hla, hat⟩ := hadj a (by simp)
    have hrest : ∀ a' ∈ rest, lvl a' < lvl cur ∧ a' < fn.nTotal := fun a' h' => hadj a' (by simp [h'])
    -- `a` is not on the stack
    have hnot : getB s.inAct a = false := by
      cases h : getB s.inAct a with
      | false => rfl
      | true => have := hstack a h; omega
    -- continuation once `a` is marked in a state s1 that agrees with s above rank(a)
    have key : ∀ (s1 : FState W), RI fn σ sig lvl s1 → getB s1.activated a = true →
        (∀ j, getB s1.inAct j = getB s.inAct j) →
        (∀ j, lvl a < lvl j → getW s1.processing j = getW s.processing j) →
        (recAdj fn rc cur rest (addProc s1 cur (Scalar.mul (getW s1.signals a) (matW fn a cur)))).2 = none ∧
        RI fn σ sig lvl (recAdj fn rc cur rest (addProc s1 cur (Scalar.mul (getW s1.signals a) (matW fn a cur)))).1 ∧
        (∀ j, getB (recAdj fn rc cur rest (addProc s1 cur (Scalar.mul (getW s1.signals a) (matW fn a cur)))).1.inAct j
          = getB s.inAct j) ∧
        (∀ j, j ≠ cur → lvl cur ≤ lvl j →
          getW (recAdj fn rc cur rest (addProc s1 cur (Scalar.mul (getW s1.signals a) (matW fn a cur)))).1.processing j
            = getW s.processing j) ∧
        adjSum fn (fvalNode fn σ sig (lvl cur)) cur (a :: rest) (getW s.processing cur) =
          some (getW (recAdj fn rc cur rest
            (addProc s1 cur (Scalar.mul (getW s1.signals a) (matW fn a cur)))).1.processing cur) := by
      intro s1 hri1 hact1 hin1 hproc1
      have hstack1 : ∀ j, getB (addProc s1 cur (Scalar.mul (getW s1.signals a) (matW fn a cur))).inAct j = true →
          lvl cur ≤ lvl j := fun j hj => hstack j (by rw [← hin1 j]; exact hj)
      obtain ⟨i1, i2, i3, i4, i5⟩ := ih hrest _ (RI_addProc hri1 cur _) hstack1
      have hclen : cur < s1.processing.length := by rw [hri1.lenP]; exact hcur
      refine ⟨i1, i2, fun j => by rw [i3 j]; exact hin1 j, fun j hj hl => ?_, ?_⟩
      · rw [i4 j hj hl]
        simp only [addProc]
        rw [getW_set]
        have : ¬ (j = cur ∧ cur < s1.processing.length) := fun h => hj h.1
        simp only [this, if_false]
        exact hproc1 j (by omega)
      · unfold adjSum
        have hv := hri1.val a hat hact1
        have hv' : fvalNode fn σ sig (lvl cur) a = some (getW s1.signals a) :=
          fvalNode_mono_le fn σ sig _ _ (by omega) a _ hv
        simp only [hv']
        rw [← i5]
        congr 1
        simp only [addProc]
        rw [getW_set]
        simp only [hclen, and_self, if_true]
        rw [hproc1 cur hla]
    unfold recAdj
    simp only [hnot, Bool.false_eq_true, if_false]
    cases hact : getB s.activated a with
    | false =>
      simp only [Bool.not_false, if_true]
      obtain ⟨r1, r2⟩ := hrc a s hla hat hri hact (fun j hj => by have := hstack j hj; omega)
      rcases hcall : rc a s with ⟨s', r, e⟩
      rw [hcall] at r1 r2
      simp only [Prod.mk.injEq] at r1
      obtain ⟨rfl, rfl⟩ := r1
      simp only
      exact key s' r2.ri r2.done r2.inAct r2.proc
    | true =>
      simp only [Bool.not_true, Bool.false_eq_true, if_false]
      exact key s hri hact (fun _ => rfl) (fun _ _ => rfl)

/-- a call of `recursiveActivateNode` on an unmarked node whose stack lies strictly above it -/
theorem recNode_ff (fn : FastNet W) (σ : Nat → W → Option W) (sig : Nat → W) (lvl : Nat → Nat) (hff : FFFast fn lvl)
    (hσ : ∀ i, fn.nSensor ≤ i → i < fn.nTotal → ∀ x, (σ (fn.acts.getD i 0) x).isSome = true) (fuel : Nat) :
    ∀ (cur : Nat) (s : FState W), lvl cur < fuel → cur < fn.nTotal → RI fn σ sig lvl s →
      getB s.activated cur = false → (∀ j, getB s.inAct j = true → lvl cur < lvl j) →
      (recNode fn σ fuel cur s).2 = (true, none) ∧ Post fn σ sig lvl cur s (recNode fn σ fuel cur s).1 := by
  induction fuel with
  | zero => intro cur s h; omega
  | succ fuel ih =>
    intro cur s hfuel hcur hri hact hstack
    unfold recNode
    simp only [hact, Bool.false_eq_true, if_false]
    -- the start state
    have hnotI : getB s.inAct cur = false := by
      cases h : getB s.inAct cur with
      | false => rfl
      | true => have := hstack cur h; omega
    have hri1 : RI fn σ sig lvl (recStart s cur) :=
      ⟨hri.lenS, by simp [recStart, hri.lenP], hri.lenA, by simp [recStart, hri.lenI], hri.sens, hri.val⟩
    have hstack1 : ∀ j, getB (recStart s cur).inAct j = true → lvl cur ≤ lvl j := by
      intro j hj
      simp only [recStart] at hj
      rw [getB_set] at hj
      by_cases hjc : j = cur
      · subst hjc; omega
      · have : ¬ (j = cur ∧ cur < s.inAct.length) := fun h => hjc h.1
        simp only [this, if_false] at hj
        have := hstack j hj; omega
    have hrc : ∀ a s', lvl a < lvl cur → a < fn.nTotal → RI fn σ sig lvl s' → getB s'.activated a = false →
        (∀ j, getB s'.inAct j = true → lvl a < lvl j) →
        (recNode fn σ fuel a s').2 = (true, none) ∧ Post fn σ sig lvl a s' (recNode fn σ fuel a s').1 :=
      fun a s' hla hat hr ha hs => ih a s' (by omega) hat hr ha hs
    obtain ⟨l1, l2, l3, l4, l5⟩ := recAdj_ff fn σ sig lvl cur hcur (recNode fn σ fuel) hrc (revAdj fn cur)
      (fun a ha => revAdj_mem fn lvl hff cur a ha) (recStart s cur) hri1 hstack1
    rcases hloop : recAdj fn (recNode fn σ fuel) cur (revAdj fn cur) (recStart s cur) with ⟨s2, e⟩
    rw [hloop] at l1 l2 l3 l4 l5
    simp only at l1 l2 l3 l4 l5
    subst l1
    simp only
    -- the start cell is 0
    have hzero : getW (recStart s cur).processing cur = Scalar.zero := by
      simp only [recStart]
      rw [getW_set]
      simp [hri.lenP, hcur]
    rw [hzero] at l5
    -- cur is a neuron
    have hneuron : fn.nSensor ≤ cur := by
      apply Nat.le_of_not_lt
      intro hlt
      have := (hri.sens cur hlt hcur).1
      rw [hact] at this
      simp at this
    unfold recFinish
    simp only
    have hsome := hσ cur hneuron hcur
      (if fn.nBias > 0 then Scalar.add (getW s2.processing cur) (getW fn.biasList cur) else getW s2.processing cur)
    cases hout : σ (fn.acts.getD cur 0)
        (if fn.nBias > 0 then Scalar.add (getW s2.processing cur) (getW fn.biasList cur) else getW s2.processing cur) with
    | none => rw [hout] at hsome; simp at hsome
    | some v =>
      simp only
      refine ⟨by simp, ⟨⟨by simp [l2.lenS], by simp [l2.lenP], by simp [l2.lenA], by simp [l2.lenI], ?_, ?_⟩, ?_, ?_, ?_⟩⟩
      · -- sensors
        intro j hj hjt
        have hjc : j ≠ cur := by omega
        simp only
        rw [getB_set, getW_set]
        have h1 : ¬ (j = cur ∧ cur < s2.activated.length) := fun h => hjc h.1
        have h2 : ¬ (j = cur ∧ cur < s2.signals.length) := fun h => hjc h.1
        simp only [h1, h2, if_false]
        exact l2.sens j hj hjt
      · -- values
        intro j hjt hja
        simp only at hja ⊢
        rw [getW_set]
        by_cases hjc : j = cur
        · subst hjc
          simp only [l2.lenS, hcur, and_self, if_true]
          have hfv : fvalNode fn σ sig (lvl j + 1) j = some v := by
            unfold fvalNode
            have : ¬ j < fn.nSensor := by omega
            simp only [this, if_false]
            rw [l5]
            exact hout
          exact hfv
        · have h2 : ¬ (j = cur ∧ cur < s2.signals.length) := fun h => hjc h.1
          simp only [h2, if_false]
          rw [getB_set] at hja
          have h1 : ¬ (j = cur ∧ cur < s2.activated.length) := fun h => hjc h.1
          simp only [h1, if_false] at hja
          exact l2.val j hjt hja
      · -- stack restored
        intro j
        simp only
        rw [getB_set]
        by_cases hjc : j = cur
        · subst hjc
          simp only [l2.lenI, hcur, and_self, if_true]
          exact hnotI.symm
        · have h1 : ¬ (j = cur ∧ cur < s2.inAct.length) := fun h => hjc h.1
          simp only [h1, if_false]
          rw [l3 j]
          simp only [recStart]
          rw [getB_set]
          have h3 : ¬ (j = cur ∧ cur < s.inAct.length) := fun h => hjc h.1
          simp only [h3, if_false]
      · simp only
        rw [getB_set]
        simp [l2.lenA, hcur]
      · intro j hj
        have hjc : j ≠ cur := by intro h; subst h; omega
        simp only
        rw [getW_set]
        have h1 : ¬ (j = cur ∧ cur < s2.processing.length) := fun h => hjc h.1
        simp only [h1, if_false]
        rw [l4 j hjc (by omega)]
        simp only [recStart]
        rw [getW_set]
        have h3 : ¬ (j = cur ∧ cur < s.processing.length) := fun h => hjc h.1
        simp only [h3, if_false]

theorem getB_replicate_false (n j : Nat) : getB (List.replicate n false) j = false := by
  unfold getB
  by_cases h : j < n
  · simp [List.getD, h]
  · simp [List.getD, h]

/-- the loop of `RecursiveSteps` over the output neurons -/
theorem recOutputs_ff (fn : FastNet W) (σ : Nat → W → Option W) (sig : Nat → W) (lvl : Nat → Nat) (hff : FFFast fn lvl)
    (hσ : ∀ i, fn.nSensor ≤ i → i < fn.nTotal → ∀ x, (σ (fn.acts.getD i 0) x).isSome = true) (os : List Nat) :
    ∀ (res : Bool) (s : FState W), (∀ o ∈ os, o < fn.nTotal) → RI fn σ sig lvl s → (∀ j, getB s.inAct j = false) →
      (recOutputs fn σ os res s).2.2 = none ∧ (os ≠ [] → (recOutputs fn σ os res s).2.1 = true) ∧
      RI fn σ sig lvl (recOutputs fn σ os res s).1 ∧
      ∀ o ∈ os, getB (recOutputs fn σ os res s).1.activated o = true := by
  induction os with
  | nil => intro res s _ hri _; exact ⟨rfl, fun h => absurd rfl h, hri, fun o ho => by simp at ho⟩
  | cons o os ih =>
    intro res s hos hri hin
    have hot : o < fn.nTotal := hos o (by simp)
    have hrest : ∀ o' ∈ os, o' < fn.nTotal := fun o' h' => hos o' (by simp [h'])
    -- one call
    have hcall : (recNode fn σ (fn.nTotal + 1) o s).2 = (true, none) ∧
        RI fn σ sig lvl (recNode fn σ (fn.nTotal + 1) o s).1 ∧
        (∀ j, getB (recNode fn σ (fn.nTotal + 1) o s).1.inAct j = false) ∧
        getB (recNode fn σ (fn.nTotal + 1) o s).1.activated o = true := by
      cases hact : getB s.activated o with
      | true =>
        unfold recNode
        simp only [hact, if_true]
        refine ⟨by simp, ⟨hri.lenS, hri.lenP, hri.lenA, by simp [hri.lenI], hri.sens, hri.val⟩, fun j => ?_, by simp [hact]⟩
        rw [getB_set]
        split
        · rfl
        · exact hin j
      | false =>
        obtain ⟨c1, c2⟩ := recNode_ff fn σ sig lvl hff hσ (fn.nTotal + 1) o s (by have := hff.bound o hot; omega) hot hri hact
          (fun j hj => by rw [hin j] at hj; simp at hj)
        exact ⟨c1, c2.ri, fun j => by rw [c2.inAct j]; exact hin j, c2.done⟩
    obtain ⟨c1, c2, c3, c4⟩ := hcall
    unfold recOutputs
    rcases hr : recNode fn σ (fn.nTotal + 1) o s with ⟨s', r, e⟩
    rw [hr] at c1 c2 c3 c4
    simp only [Prod.mk.injEq] at c1
    obtain ⟨rfl, rfl⟩ := c1
    simp only
    obtain ⟨i1, i2, i3, i4⟩ := ih true s' hrest c2 c3
    refine ⟨i1, fun _ => ?_, i3, fun o' ho' => ?_⟩
    · cases os with
      | nil => rfl
      | cons o2 os2 => exact i2 (by simp)
    · rcases List.mem_cons.mp ho' with rfl | ho'
      · exact (recOutputs_Q fn σ os true s').actMono _ c4
      · exact i4 o' ho'

/-- **Fast recursive activation = feed-forward function of the fast representation (Kind A, exact).** -/
theorem recursiveSteps_ff (fn : FastNet W) (σ : Nat → W → Option W) (lvl : Nat → Nat) (hff : FFFast fn lvl)
    (hσ : ∀ i, fn.nSensor ≤ i → i < fn.nTotal → ∀ x, (σ (fn.acts.getD i 0) x).isSome = true)
    (s : FState W) (hS : s.signals.length = fn.nTotal) (hP : s.processing.length = fn.nTotal) (hout : 0 < fn.nOutput) :
    (recursiveSteps fn σ s).2 = (true, none) ∧
      ∀ k, k < fn.nOutput →
        fvalNode fn σ (getW s.signals) (lvl (fn.nSensor + k) + 1) (fn.nSensor + k) =
          some (getW (recursiveSteps fn σ s).1.signals (fn.nSensor + k)) := by
  have hri : RI fn σ (getW s.signals) lvl (recInit fn s) := by
    refine ⟨hS, hP, by simp [recInit], by simp [recInit], fun j hj hjt => ⟨?_, rfl⟩, fun j hjt hja => ?_⟩
    · simp only [recInit, getB_map_range, hjt, if_true]
      exact decide_eq_true hj
    · simp only [recInit, getB_map_range, hjt, if_true, decide_eq_true_eq] at hja
      unfold fvalNode
      simp [hja, recInit]
  have hin : ∀ j, getB (recInit fn s).inAct j = false := fun j => by simp [recInit, getB_replicate_false]
  have hos : ∀ o ∈ (List.range fn.nOutput).map (· + fn.nSensor), o < fn.nTotal := by
    intro o ho
    simp only [List.mem_map, List.mem_range] at ho
    obtain ⟨k, hk, rfl⟩ := ho
    have := hff.outs
    omega
  obtain ⟨r1, r2, r3, r4⟩ := recOutputs_ff fn σ (getW s.signals) lvl hff hσ _ false (recInit fn s) hos hri hin
  unfold recursiveSteps
  have hne : (List.range fn.nOutput).map (· + fn.nSensor) ≠ [] := by
    intro h
    have := congrArg List.length h
    simp at this
    omega
  refine ⟨?_, fun k hk => ?_⟩
  · have h2 := r2 hne
    rcases hr : recOutputs fn σ ((List.range fn.nOutput).map (· + fn.nSensor)) false (recInit fn s) with ⟨s', r, e⟩
    rw [hr] at r1 h2
    simp only at r1 h2
    rw [r1, h2]
  · have hmem : fn.nSensor + k ∈ (List.range fn.nOutput).map (· + fn.nSensor) := by
      simp only [List.mem_map, List.mem_range]
      exact ⟨k, hk, by omega⟩
    exact r3.val _ (hos _ hmem) (r4 _ hmem)

/-! ### one forward step, cell by cell (Kind A) -/

/-- what `forwardStep`'s first loop adds to one target cell: the connections into `t`, in connection order -/
def tFold (sig : Nat → W) (cs : List (FLink W)) (x : W) : W :=
  cs.foldl (fun a c => Scalar.add a (Scalar.mul (sig c.src) c.w)) x

/-- the cell of target `t` after the connection loop is the fold over the connections into `t` -/
theorem connLoop_cell (sig : List W) (cs : List (FLink W)) (p : List W) (t : Nat) (ht : t < p.length) :
    getW (connLoop sig cs p) t = tFold (getW sig) (cs.filter fun c => c.dst == t) (getW p t) := by
  induction cs generalizing p with
  | nil => rfl
  | cons c cs ih =>
    unfold connLoop
    rw [ih _ (by simpa using ht)]
    by_cases hc : c.dst = t
    · subst hc
      simp only [List.filter_cons, beq_self_eq_true, if_true, tFold, List.foldl_cons]
      rw [getW_set]
      simp [ht]
    · have : (c.dst == t) = false := by simpa using hc
      simp only [List.filter_cons, this, Bool.false_eq_true, if_false]
      rw [getW_set]
      have hne : ¬ (t = c.dst ∧ c.dst < p.length) := fun h => hc h.1.symm
      simp [hne]

/-- pre-activation value with the bias added as `forwardStep` does -/
def biased (fn : FastNet W) (i : Nat) (x : W) : W :=
  if fn.nBias > 0 then Scalar.add x (getW fn.biasList i) else x

theorem actLoop_spec (fn : FastNet W) (σ : Nat → W → Option W) (is : List Nat) :
    ∀ (p : List W), is.Nodup → (∀ i ∈ is, i < p.length ∧ ∀ x, (σ (fn.acts.getD i 0) x).isSome = true) →
      (actLoop fn σ is p).2 = none ∧ (actLoop fn σ is p).1.length = p.length ∧
      (∀ j, j ∉ is → getW (actLoop fn σ is p).1 j = getW p j) ∧
      (∀ i ∈ is, σ (fn.acts.getD i 0) (biased fn i (getW p i)) = some (getW (actLoop fn σ is p).1 i)) := by
  induction is with
  | nil => intro p _ _; exact ⟨rfl, rfl, fun _ _ => rfl, fun i hi => by simp at hi⟩
  | cons i is ih =>
    intro p hnd hall
    have hi := hall i (by simp)
    have hnd' := (List.nodup_cons.mp hnd)
    unfold actLoop
    simp only
    have hsome := hi.2 (biased fn i (getW p i))
    unfold biased at hsome
    cases hout : σ (fn.acts.getD i 0) (if fn.nBias > 0 then Scalar.add (getW p i) (getW fn.biasList i) else getW p i) with
    | none => rw [hout] at hsome; simp at hsome
    | some v =>
      simp only
      obtain ⟨a1, a2, a3, a4⟩ := ih (p.set i v) hnd'.2 (fun i' h' => ⟨by simpa using (hall i' (by simp [h'])).1,
        (hall i' (by simp [h'])).2⟩)
      refine ⟨a1, by rw [a2]; simp, fun j hj => ?_, fun i' hi' => ?_⟩
      · rw [a3 j (fun h => hj (by simp [h])), getW_set]
        have : ¬ (j = i ∧ i < p.length) := fun h => hj (by simp [h.1])
        simp [this]
      · rcases List.mem_cons.mp hi' with rfl | hi'
        · rw [a3 i' hnd'.1, getW_set]
          simp only [hi.1, and_self, if_true]
          unfold biased
          exact hout
        · have := a4 i' hi'
          rw [getW_set] at this
          have hne : ¬ (i' = i ∧ i < p.length) := fun h => hnd'.1 (h.1 ▸ hi')
          simp only [hne, if_false] at this
          exact this

theorem moveLoop_spec (delta : W) (check : Bool) (is : List Nat) :
    ∀ (sig p : List W) (r : Bool), is.Nodup → (∀ i ∈ is, i < sig.length ∧ i < p.length) →
      (∀ i ∈ is, getW (moveLoop delta check is sig p r).1 i = getW p i ∧
        getW (moveLoop delta check is sig p r).2.1 i = Scalar.zero) ∧
      (∀ j, j ∉ is → getW (moveLoop delta check is sig p r).2.1 j = getW p j) := by
  induction is with
  | nil => intro sig p r _ _; exact ⟨fun i hi => by simp at hi, fun _ _ => rfl⟩
  | cons i is ih =>
    intro sig p r hnd hall
    have hi := hall i (by simp)
    have hnd' := (List.nodup_cons.mp hnd)
    unfold moveLoop
    simp only
    obtain ⟨a1, a2⟩ := ih (sig.set i (getW p i)) (p.set i Scalar.zero)
      (if check then r && !(Scalar.lt delta (Scalar.abs (Scalar.sub (getW sig i) (getW p i)))) else r) hnd'.2
      (fun i' h' => by have := hall i' (by simp [h']); simpa using this)
    have hprops := moveLoop_props delta check is (sig.set i (getW p i)) (p.set i Scalar.zero)
      (if check then r && !(Scalar.lt delta (Scalar.abs (Scalar.sub (getW sig i) (getW p i)))) else r)
    refine ⟨fun i' hi' => ?_, fun j hj => ?_⟩
    · rcases List.mem_cons.mp hi' with rfl | hi'
      · rw [hprops.2.2 i' hnd'.1, a2 i' hnd'.1, getW_set, getW_set]
        simp [hi.1, hi.2]
      · have := a1 i' hi'
        rw [getW_set] at this
        have hne : ¬ (i' = i ∧ i < p.length) := fun h => hnd'.1 (h.1 ▸ hi')
        simp only [hne, if_false] at this
        exact this
    · rw [a2 j (fun h => hj (by simp [h])), getW_set]
      have : ¬ (j = i ∧ i < p.length) := fun h => hj (by simp [h.1])
      simp [this]

theorem neuronIdx_nodup (fn : FastNet W) : (neuronIdx fn).Nodup := by
  unfold neuronIdx
  rw [List.Nodup, List.pairwise_map]
  exact (List.nodup_range (n := fn.nTotal - fn.nSensor)).imp (fun h => by omega)

theorem mem_neuronIdx (fn : FastNet W) (i : Nat) : i ∈ neuronIdx fn ↔ fn.nSensor ≤ i ∧ i < fn.nTotal := by
  unfold neuronIdx
  simp only [List.mem_map, List.mem_range]
  constructor
  · rintro ⟨k, hk, rfl⟩; omega
  · intro h; exact ⟨i - fn.nSensor, by omega, by omega⟩

/-- **Single forward step (Kind A).**  From a state whose processing cells of the neurons are 0 (as after
    construction, `Flush` or a previous forward step), `forwardStep` reports no error, keeps the sensor signals, and
    sets every neuron `i` to  activation(Σ_{connections into i, connection order} signal(src)·weight  (+ biasList[i]))
    computed from the signals BEFORE the step; the neurons' processing cells are 0 again. -/
theorem forwardStep_cell (fn : FastNet W) (σ : Nat → W → Option W) (delta : W) (s : FState W)
    (hS : s.signals.length = fn.nTotal) (hP : s.processing.length = fn.nTotal)
    (hσ : ∀ i, fn.nSensor ≤ i → i < fn.nTotal → ∀ x, (σ (fn.acts.getD i 0) x).isSome = true)
    (hzero : ∀ i, fn.nSensor ≤ i → i < fn.nTotal → getW s.processing i = Scalar.zero) :
    (forwardStep fn σ delta s).2.2 = none ∧
      (∀ j, j < fn.nSensor → getW (forwardStep fn σ delta s).1.signals j = getW s.signals j) ∧
      (∀ i, fn.nSensor ≤ i → i < fn.nTotal →
        σ (fn.acts.getD i 0) (biased fn i (tFold (getW s.signals) (fn.conns.filter fun c => c.dst == i) Scalar.zero)) =
          some (getW (forwardStep fn σ delta s).1.signals i) ∧
        getW (forwardStep fn σ delta s).1.processing i = Scalar.zero) := by
  unfold forwardStep
  simp only
  have hlen1 : (connLoop s.signals fn.conns s.processing).length = fn.nTotal := by rw [length_connLoop, hP]
  obtain ⟨a1, a2, a3, a4⟩ := actLoop_spec fn σ (neuronIdx fn) (connLoop s.signals fn.conns s.processing)
    (neuronIdx_nodup fn) (fun i hi => by
      rw [mem_neuronIdx] at hi
      exact ⟨by rw [hlen1]; exact hi.2, hσ i hi.1 hi.2⟩)
  rcases hact : actLoop fn σ (neuronIdx fn) (connLoop s.signals fn.conns s.processing) with ⟨p2, e⟩
  rw [hact] at a1 a2 a3 a4
  simp only at a1 a2 a3 a4
  subst a1
  simp only
  have hall : ∀ i ∈ neuronIdx fn, i < s.signals.length ∧ i < p2.length := by
    intro i hi
    rw [mem_neuronIdx] at hi
    rw [hS, a2, hlen1]
    exact ⟨hi.2, hi.2⟩
  obtain ⟨m1, _⟩ := moveLoop_spec delta (!(Scalar.le delta Scalar.zero)) (neuronIdx fn) s.signals p2 true
    (neuronIdx_nodup fn) hall
  have mp := moveLoop_props delta (!(Scalar.le delta Scalar.zero)) (neuronIdx fn) s.signals p2 true
  refine ⟨by simp, fun j hj => ?_, fun i hi hit => ?_⟩
  · exact mp.2.2 j (fun h => by rw [mem_neuronIdx] at h; omega)
  · have hmem : i ∈ neuronIdx fn := (mem_neuronIdx fn i).mpr ⟨hi, hit⟩
    obtain ⟨m1a, m1b⟩ := m1 i hmem
    refine ⟨?_, m1b⟩
    rw [m1a, ← a4 i hmem, connLoop_cell _ _ _ _ (by rw [hP]; exact hit), hzero i hi hit]

end GoNeat.Fast
