/-
  C16 / C02 "without error" for the PARALLEL executor, part 1: a safety logic for threads (`Prog`) under ARBITRARY
  interference on the shared registry, and the three non-atomic structural mutators.

  The only thing a thread's error exits depend on that another thread can change is the content of a registry
  snapshot: a link record found there dictates a trait index (`traitAt g inn.traitNum`).  So the rely/guarantee pair is

      rely       every record of every snapshot names a valid trait index     (`TraitRecs T recs`)
      guarantee  every record a thread stores names a valid trait index        (`TraitRec T i`)

  with `T` the common trait count of the population.  The numbers the counters hand out are arbitrary (`∀ n`).
  `PSafe T Post p` : whatever the snapshots (satisfying the rely) and the numbers are, `p` stores only good records and
  its result satisfies `Post`.  For results of type `R α` the postcondition is `OkV Q`: not a model error
  (`.error (.error msg)`); running out of the finite random stream is allowed; a value satisfies `Q` and the rest of the
  stream is still `Valid` (63-bit raw values).
  Kind A (the float fact `UnitMulLe` is an explicit hypothesis exactly as in the sequential lemmas).
-/
import GoNeat.Proofs.NoErrorRepro
import GoNeat.Model.ParEpoch

set_option linter.unusedSectionVars false

namespace GoNeat.C16
open GoNeat Scalar GoNeat.NoErr
variable {W : Type} [Scalar W] {α β : Type}

/-- a link record names a trait index below the common trait count -/
def TraitRec (T : Nat) (i : Innov W) : Prop := i.typ = 2 → 0 ≤ i.traitNum ∧ i.traitNum.toNat < T
def TraitRecs (T : Nat) (recs : List (Innov W)) : Prop := ∀ i ∈ recs, TraitRec T i

theorem traitRecs_iff (T : Nat) (reg : Reg W) : TraitRecs T reg.records ↔ RecTraits T reg := Iff.rfl

/-- thread-local safety under arbitrary interference: one rule per registry operation -/
inductive PSafe (T : Nat) (Post : α → Prop) : Prog W α → Prop
  | done {a} : Post a → PSafe T Post (.done a)
  | snap {k} : (∀ recs, TraitRecs T recs → PSafe T Post (k recs)) → PSafe T Post (.snap k)
  | nextNode {k} : (∀ n, PSafe T Post (k n)) → PSafe T Post (.nextNode k)
  | nextInn {k} : (∀ n, PSafe T Post (k n)) → PSafe T Post (.nextInn k)
  | store {i k} : TraitRec T i → PSafe T Post k → PSafe T Post (.store i k)

theorem PSafe.bind {T : Nat} {Post1 : α → Prop} {Post2 : β → Prop} {p : Prog W α} {f : α → Prog W β}
    (h : PSafe T Post1 p) (hf : ∀ a, Post1 a → PSafe T Post2 (f a)) : PSafe T Post2 (p.bind f) := by
  induction h with
  | done hp => exact hf _ hp
  | snap _ ih => exact .snap (fun recs hr => ih recs hr)
  | nextNode _ ih => exact .nextNode (fun n => ih n)
  | nextInn _ ih => exact .nextInn (fun n => ih n)
  | store hs _ ih => exact .store hs ih

theorem PSafe.mono {T : Nat} {Post1 Post2 : α → Prop} {p : Prog W α} (h : PSafe T Post1 p)
    (hm : ∀ a, Post1 a → Post2 a) : PSafe T Post2 p := by
  induction h with
  | done hp => exact .done (hm _ hp)
  | snap _ ih => exact .snap (fun recs hr => ih recs hr)
  | nextNode _ ih => exact .nextNode (fun n => ih n)
  | nextInn _ ih => exact .nextInn (fun n => ih n)
  | store hs _ ih => exact .store hs ih

/-- a finished thread satisfies its postcondition -/
theorem PSafe.result {T : Nat} {Post : α → Prop} {a : α} (h : PSafe T Post (.done a : Prog W α)) : Post a := by
  cases h; assumption

/-- postcondition on a result over the raw stream: no model error; a value satisfies `Q`, the rest is still `Valid` -/
def OkV (Q : α → Prop) : R α → Prop
  | .ok (a, rs) => Q a ∧ Valid rs
  | .error .outOfRandom => True
  | .error (.error _) => False

theorem OkV.of_error {P : β → Prop} {Q : α → Prop} {e : Stop} (h : Safe P (.error e : R β)) : OkV Q (.error e : R α) := by
  cases e <;> simp_all [Safe, OkV]

theorem OkV.of_errorE {P : β → Prop} {Q : α → Prop} {e : Stop} (h : SafeE P (.error e : Except Stop β)) :
    OkV Q (.error e : R α) := absurd h (by simp [SafeE])

theorem OkV.error_cast {P : β → Prop} {Q : α → Prop} {e : Stop} (h : OkV P (.error e : R β)) : OkV Q (.error e : R α) := by
  cases e <;> simp_all [OkV]

theorem OkV.mono {P Q : α → Prop} {r : R α} (h : OkV P r) (hpq : ∀ a, P a → Q a) : OkV Q r := by
  match r, h with
  | .ok (a, _), h => exact ⟨hpq a h.1, h.2⟩
  | .error .outOfRandom, _ => trivial

theorem OkV.ne {Q : α → Prop} {r : R α} (h : OkV Q r) (msg : String) : r ≠ .error (.error msg) := by
  intro e; rw [e] at h; exact h

/-! ### the genome after one structural step is `Like` the genome before -/

theorem insertAt_length {γ : Type} (l : List γ) (i : Nat) (a : γ) : (insertAt l i a).length = l.length + 1 := by
  unfold insertAt
  simp only [List.length_append, List.length_take, List.length_cons, List.length_drop]
  omega

theorem geneInsert_length (l : List (Gene W)) (x : Gene W) : (geneInsert l x).length = l.length + 1 := insertAt_length _ _ _

theorem like_addGene (g : Genome W) (x : Gene W) : Like g { g with genes := geneInsert g.genes x } :=
  ⟨by simp [geneInsert_length], Nat.le_refl _, rfl⟩

theorem setEnabledAt_length (l : List (Gene W)) (k : Nat) (b : Bool) : (setEnabledAt l k b).length = l.length := by
  simp [setEnabledAt]

theorem like_disable (g : Genome W) (k : Nat) : Like g { g with genes := setEnabledAt g.genes k false } :=
  ⟨by simp [setEnabledAt_length], Nat.le_refl _, rfl⟩

theorem nodeInsert_length (l : List Node) (n : Node) : (nodeInsert l n).length = l.length + 1 :=
  insertAt_length _ _ _

theorem like_split (g : Genome W) (k : Nat) (x y : Gene W) (n : Node) :
    Like g { g with genes := geneInsert (geneInsert (setEnabledAt g.genes k false) x) y, nodes := nodeInsert g.nodes n } :=
  ⟨by simp [geneInsert_length, setEnabledAt_length]; omega, by simp [nodeInsert_length], rfl⟩

/-! ### mutateConnectSensors -/

theorem connectOneP_safe (T : Nat) (sensor output : Node) (g : Genome W) (added : Bool) (rs : List Nat) (hv : Valid rs)
    (ht : g.traits ≠ []) (hT : g.traits.length = T) :
    PSafe T (OkV (fun r => ∀ x, r = some x → Like g x.1)) (connectOneP sensor output g added rs) := by
  unfold connectOneP
  split
  · exact .done ⟨fun x hx => (by cases hx; exact Like.refl g), hv⟩
  · refine .snap (fun recs hr => ?_)
    split
    · next inn hfind =>
      have hmem := List.mem_of_find?_eq_some hfind
      have hp := List.find?_some hfind
      have htyp : inn.typ = 2 := by simp only [Bool.and_eq_true, beq_iff_eq] at hp; exact hp.1.1.1
      have h3 := traitAt_safe g inn.traitNum (hr inn hmem htyp).1 (by rw [hT]; exact (hr inn hmem htyp).2)
      split
      · next e he => rw [he] at h3; exact .done (OkV.of_errorE h3)
      · next tr he =>
        simp only
        split
        · exact .done ⟨fun x hx => (by cases hx), hv⟩
        · exact .done ⟨fun x hx => (by cases hx; exact like_addGene g _), hv⟩
    · have h1 := safe_intn g.traits.length (List.length_pos_iff.mpr ht) rs
      split
      · next e he => rw [he] at h1; exact .done (OkV.of_error h1)
      · next traitNum rs1 he =>
        have hv1 := valid_of_ok (Rand.intn_prefixDet _) hv he
        rw [he] at h1
        have hk : traitNum < g.traits.length := h1
        have h2 := safe_newLinkWeight (W := W) rs1
        split
        · next e he2 => rw [he2] at h2; exact .done (OkV.of_error h2)
        · next w rs2 he2 =>
          have hv2 := valid_of_ok newLinkWeight_prefixDet hv1 he2
          refine .nextInn (fun innId => ?_)
          have h3 := traitAt_safe_nat g traitNum hk
          split
          · next e he3 => rw [he3] at h3; exact .done (OkV.of_errorE h3)
          · next tr he3 =>
            refine .store (fun _ => ⟨by simp, by simpa [← hT] using hk⟩) (.done ⟨fun x hx => ?_, hv2⟩)
            cases hx; exact like_addGene g _

theorem connectLoopP_safe (T : Nat) (sensor : Node) (outs : List Node) :
    ∀ (g : Genome W) (added : Bool) (rs : List Nat), Valid rs → g.traits ≠ [] → g.traits.length = T →
      PSafe T (OkV (fun r => Like g r.1)) (connectLoopP sensor outs g added rs) := by
  induction outs with
  | nil => intro g added rs hv _ _; exact .done ⟨Like.refl g, hv⟩
  | cons o os ih =>
    intro g added rs hv ht hT
    unfold connectLoopP
    refine (connectOneP_safe T sensor o g added rs hv ht hT).bind (fun r hr => ?_)
    split
    · exact .done hr.error_cast
    · exact .done ⟨Like.refl g, hr.2⟩
    · next g' added' rs' =>
      have hl : Like g g' := hr.1 _ rfl
      have hlen := hl.traitsLen
      refine (ih g' added' rs' hr.2 ?_ (by rw [hlen, hT])).mono (fun a ha => ha.mono (fun x hx => hl.trans hx))
      intro e; rw [e] at hlen; exact ht (List.length_eq_zero_iff.mp hlen.symm)

theorem mutateConnectSensorsP_safe (T : Nat) (g : Genome W) (rs : List Nat) (hv : Valid rs) (hg : g.genes ≠ [])
    (ht : g.traits ≠ []) (hT : g.traits.length = T) :
    PSafe T (OkV (fun r => Like g r.1)) (mutateConnectSensorsP g rs) := by
  unfold mutateConnectSensorsP
  rw [if_neg (by simpa using hg)]
  simp only
  split
  · exact .done ⟨Like.refl g, hv⟩
  · next hne =>
    have hpos : 0 < ((g.nodes.filter (·.isSensor)).filter (fun s => !g.genes.any (fun x => x.src == s.id))).length := by
      apply List.length_pos_iff.mpr; intro h; simp [h] at hne
    have h1 := safe_intn _ hpos rs
    split
    · next e he => rw [he] at h1; exact .done (OkV.of_error h1)
    · next k rs1 he =>
      have hv1 := valid_of_ok (Rand.intn_prefixDet _) hv he
      rw [he] at h1
      split
      · next hn => rw [List.getElem?_eq_none_iff] at hn; have : k < _ := h1; omega
      · exact connectLoopP_safe T _ _ g false rs1 hv1 ht hT

/-! ### mutateAddLink -/

theorem mutateAddLinkP_safe (T : Nat) (g : Genome W) (o : MutOpts W) (rs : List Nat) (hv : Valid rs)
    (hg : g.genes ≠ []) (hout : ∃ n ∈ g.nodes, n.kind = Kind.output) (hs : NodesSorted g.nodes)
    (ht : g.traits ≠ []) (hT : g.traits.length = T) :
    PSafe T (OkV (fun r => Like g r.1)) (mutateAddLinkP g o rs) := by
  unfold mutateAddLinkP
  rw [if_neg (by simpa using hg)]
  rw [if_neg (by
    obtain ⟨n, hn, hk⟩ := hout
    simp only [Bool.not_eq_true, Bool.not_eq_false', List.any_eq_true]
    exact ⟨n, hn, by simp [hk]⟩)]
  have hf := safe_float64 (W := W) rs
  split
  · next e he => rw [he] at hf; exact .done (OkV.of_error hf)
  · next f rs1 he =>
    have hv1 := valid_of_ok Rand.float64_prefixDet hv he
    simp only
    generalize lt f o.recurOnlyProb = doRecur
    have hfns : (g.nodes.takeWhile (·.isSensor)).length < g.nodes.length := by
      obtain ⟨n, hn, hk⟩ := hout
      exact takeWhile_lt _ _ ⟨n, hn, by simp [Node.isSensor, hk, Kind.output, Kind.input, Kind.bias]⟩
    have hfo := safe_findOpenLink g _ (by omega) hfns doRecur o.newLinkTries none rs1
    split
    · next e he2 => rw [he2] at hfo; exact .done (OkV.of_error hfo)
    · next rs2 he2 => exact .done ⟨Like.refl g, valid_of_ok (findOpenLink_prefixDet _ _ _ _ _) hv1 he2⟩
    · next rs2 he2 => exact .done ⟨Like.refl g, valid_of_ok (findOpenLink_prefixDet _ _ _ _ _) hv1 he2⟩
    · next n1 n2 rs2 he2 =>
      have hv2 := valid_of_ok (findOpenLink_prefixDet _ _ _ _ _) hv1 he2
      rw [he2] at hfo
      have hfo' : FoundOk g doRecur (some (n1, n2), true) := hfo
      obtain ⟨m1, m2, i1, i2, hm, hn1, hn2, hne⟩ := hfo' rfl
      simp only [Option.some.injEq, Prod.mk.injEq] at hm
      obtain ⟨rfl, rfl⟩ := hm
      have hself : (n1.id == n2.id && !doRecur) = false := by
        cases hd : doRecur with
        | true => simp
        | false =>
          have := ids_ne_of_sorted g.nodes hs hn1 hn2 (hne hd)
          simp [this]
      refine .snap (fun recs hr => ?_)
      split
      · next inn hfind =>
        have hmem := List.mem_of_find?_eq_some hfind
        have hp := List.find?_some hfind
        have htyp : inn.typ = 2 := by simp only [Bool.and_eq_true, beq_iff_eq] at hp; exact hp.1.1.1
        have h3 := traitAt_safe g inn.traitNum (hr inn hmem htyp).1 (by rw [hT]; exact (hr inn hmem htyp).2)
        split
        · next e he3 => rw [he3] at h3; exact .done (OkV.of_errorE h3)
        · next tr he3 =>
          split
          · exact .done ⟨Like.refl g, hv2⟩
          · rw [if_neg (by simp [hself])]
            exact .done ⟨like_addGene g _, hv2⟩
      · have h1 := safe_intn g.traits.length (List.length_pos_iff.mpr ht) rs2
        split
        · next e he3 => rw [he3] at h1; exact .done (OkV.of_error h1)
        · next traitNum rs3 he3 =>
          have hv3 := valid_of_ok (Rand.intn_prefixDet _) hv2 he3
          rw [he3] at h1
          have hk : traitNum < g.traits.length := h1
          have h2 := safe_newLinkWeight (W := W) rs3
          split
          · next e he4 => rw [he4] at h2; exact .done (OkV.of_error h2)
          · next w rs4 he4 =>
            have hv4 := valid_of_ok newLinkWeight_prefixDet hv3 he4
            refine .nextInn (fun innId => ?_)
            have h3 := traitAt_safe_nat g traitNum hk
            split
            · next e he5 => rw [he5] at h3; exact .done (OkV.of_errorE h3)
            · next tr he5 =>
              refine .store (fun _ => ⟨by simp, by simpa [← hT] using hk⟩) ?_
              rw [if_neg (by simp [hself])]
              exact .done ⟨like_addGene g _, hv4⟩

/-! ### mutateAddNode -/

theorem mutateAddNodeP_safe (hlaw : UnitMulLe W) (T : Nat) (g : Genome W) (o : MutOpts W) (rs : List Nat) (hv : Valid rs)
    (ha : ActOk o) (ht : g.traits ≠ []) :
    PSafe T (OkV (fun r => Like g r.1)) (mutateAddNodeP g o rs) := by
  unfold mutateAddNodeP
  split
  · exact .done ⟨Like.refl g, hv⟩
  · next hg =>
    have hg' : g.genes ≠ [] := by simpa using hg
    simp only
    have hp : Safe (fun r => ∀ k, r = some k → k < g.genes.length)
        (if g.genes.length < 15 then pickSplitSmall g g.genes 0 rs else pickSplitLarge g 20 rs) := by
      split
      · exact (safe_pickSplitSmall g g.genes 0 rs).mono (fun a ha k hk => by have := ha k hk; omega)
      · exact safe_pickSplitLarge g hg' 20 rs
    have hvp : ∀ a rs1, (if g.genes.length < 15 then pickSplitSmall g g.genes 0 rs else pickSplitLarge g 20 rs) = .ok (a, rs1) →
        Valid rs1 := by
      intro a rs1 he
      split at he
      · exact valid_of_ok (pickSplitSmall_prefixDet g g.genes 0) hv he
      · exact valid_of_ok (pickSplitLarge_prefixDet g 20) hv he
    split
    · next e he => rw [he] at hp; exact .done (OkV.of_error hp)
    · next rs1 he => exact .done ⟨Like.refl g, hvp _ _ he⟩
    · next k rs1 he =>
      have hv1 := hvp _ _ he
      rw [he] at hp
      have hk : k < g.genes.length := (hp : ∀ k', some k = some k' → k' < g.genes.length) k rfl
      split
      · next hn => rw [List.getElem?_eq_none_iff] at hn; omega
      · next gene hgene =>
        have h3 := traitAt_safe ({ g with genes := setEnabledAt g.genes k false } : Genome W) 0 (Int.le_refl 0)
          (by simpa using List.length_pos_iff.mpr ht)
        refine .snap (fun recs _ => ?_)
        split
        · split
          · next e he3 => rw [he3] at h3; exact .done (OkV.of_errorE h3)
          · next tr0 he3 =>
            split
            · exact .done ⟨like_disable g k, hv1⟩
            · exact .done ⟨like_split g k _ _ _, hv1⟩
        · refine .nextNode (fun newNodeId => ?_)
          split
          · next e he3 => rw [he3] at h3; exact .done (OkV.of_errorE h3)
          · next tr0 he3 =>
            have h4 := safe_randomNodeActivationType hlaw o ha rs1 hv1
            split
            · next e he4 => rw [he4] at h4; exact .done (OkV.of_error h4)
            · next act rs2 he4 =>
              have hv2 := valid_of_ok (randomNodeActivationType_prefixDet o) hv1 he4
              refine .nextInn (fun inn1 => .nextInn (fun inn2 => ?_))
              exact .store (fun h => by simp at h) (.done ⟨like_split g k _ _ _, hv2⟩)

end GoNeat.C16
