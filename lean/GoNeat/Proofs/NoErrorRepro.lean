/-
  C02 "without error": `mutateBaby`, `reproduceOne`, `reproduceLoop`, `reproduceSpecies`, `reproduceAll` never return
  an implementation error, given the C01 pool invariant (`PoolOk`), the registry invariant `RecTraits`, one trait shape
  `S` for the whole pool, non-empty species, a usable activator table (`ActOk`) and the two float facts `UnitMulLe`
  and `PickLaw`.  Every lemma re-establishes `RecTraits` and the common shape for the pool extended by the babies
  (`ReproPost`); `PoolOk` for the extended pool is Props/C01 (`reproduce*_closed`).
  Kind A.
-/
import GoNeat.Proofs.NoErrorMate
import GoNeat.Props.C01

set_option linter.unusedSectionVars false

namespace GoNeat.NoErr
open GoNeat Scalar GoNeat.C01
variable {W : Type} [Scalar W] {α : Type}

theorem Safe.cast {P : α → Prop} {r r' : R α} (h : Safe P r) (e : r = r') : Safe P r' := e ▸ h

/-- float fact used by the interspecies mate choice: for a draw `f ∈ [0,1)` and `n > 0` species,
    `floor(f/4 * n)` is an index below `n` -/
def PickLaw (W : Type) [Scalar W] : Prop :=
  ∀ (x n : Nat), x < 2 ^ 63 → 0 < n → eq (ofUnit63 x : W) one = false →
    0 ≤ floorInt (mul (div (ofUnit63 x : W) (ofInt 4)) (ofInt (n : Int))) ∧
    (floorInt (mul (div (ofUnit63 x : W) (ofInt 4)) (ofInt (n : Int)))).toNat < n

theorem traitsLen_of_shape {g : Genome W} {S : List Nat} (h : shape g = S) : g.traits.length = S.length := by
  rw [← h]; simp [shape]

/-! ### mutateBaby -/

/-- the structural stage of `mutateBaby` -/
def structStage (o : EpochOpts W) (g : Genome W) (reg : Reg W) (f1 : W) (rs1 : List Nat) : R (Genome W × Reg W × Bool) :=
  if lt f1 o.mutateAddNodeProb then
    match mutateAddNode g reg o.mopts rs1 with
    | .error e => .error e
    | .ok ((g', reg', _), rs2) => .ok ((g', reg', true), rs2)
  else
    match Rand.float64 (W := W) rs1 with
    | .error e => .error e
    | .ok (f2, rs2) =>
      if lt f2 o.mutateAddLinkProb then
        match mutateAddLink g reg o.mopts rs2 with
        | .error e => .error e
        | .ok ((g', reg', _), rs3) => .ok ((g', reg', true), rs3)
      else
        match Rand.float64 (W := W) rs2 with
        | .error e => .error e
        | .ok (f3, rs3) =>
          if lt f3 o.mutateConnectSensors then mutateConnectSensors g reg rs3
          else .ok ((g, reg, false), rs3)

theorem mutateBaby_eq (o : EpochOpts W) (g : Genome W) (reg : Reg W) (rs : List Nat) :
    mutateBaby o g reg rs =
      match Rand.float64 (W := W) rs with
      | .error e => .error e
      | .ok (f1, rs1) =>
        match structStage o g reg f1 rs1 with
        | .error e => .error e
        | .ok ((g', reg', true), rs') => .ok ((g', reg', true), rs')
        | .ok ((g', reg', false), rs') =>
          match mutateAllNonstructural g' o.mopts rs' with
          | .error e => .error e
          | .ok (g'', rs'') => .ok ((g'', reg', false), rs'') := rfl

/-- postcondition of a baby mutation inside a pool `P` of shape `S` -/
def BabyPost (S : List Nat) (P : List (Genome W)) (r : Genome W × Reg W × Bool) : Prop :=
  RecTraits S.length r.2.1 ∧ shape r.1 = S ∧ Fits r.2.1 P r.1 ∧ PoolOk r.2.1 P

theorem basic_of_wf {g : Genome W} (h : WF g) : Basic g := by
  refine ⟨h.hasGene, ?_, ?_⟩
  · obtain ⟨n, hn, _⟩ := h.hasOutput; intro e; rw [e] at hn; cases hn
  · have := h.traits; unfold TraitsConsecutive at this; intro e; rw [e] at this; exact this

theorem safe_structStage (hlaw : UnitMulLe W) (o : EpochOpts W) (ha : ActOk o.mopts) (g : Genome W) (reg : Reg W) (f1 : W)
    (rs1 : List Nat) (hv : Valid rs1) (S : List Nat) (P : List (Genome W)) (hP : PoolOk reg P) (hf : Fits reg P g) (hsh : shape g = S)
    (hr : RecTraits S.length reg) : Safe (BabyPost S P) (structStage o g reg f1 rs1) := by
  have hb := basic_of_wf hf.wft.wf
  have hr' : RecTraits g.traits.length reg := by rw [traitsLen_of_shape hsh]; exact hr
  have post : ∀ (r : Genome W × Reg W × Bool), StructPost g r → Fits r.2.1 P r.1 ∧ PoolOk r.2.1 P → BabyPost S P r := by
    intro r hs hc
    refine ⟨by rw [← traitsLen_of_shape hsh]; exact hs.1, ?_, hc.1, hc.2⟩
    rw [← hsh]; unfold shape; rw [hs.2]
  unfold structStage
  split
  · have h1 := (safe_mutateAddNode hlaw g reg o.mopts rs1 hv ha hb.traits hr').and_ok
      (Q := fun r => StructPost g r ∧ Fits r.2.1 P r.1 ∧ PoolOk r.2.1 P)
      (fun a rs' e hp => ⟨hp, addNode_closed o.mopts rs1 rs' a.2.2 hP hf e⟩)
    split
    · next e he => rw [he] at h1; exact h1.of_error
    · next g' reg' b rs2 he => rw [he] at h1; exact post (g', reg', true) h1.1 h1.2
  · have f2 := safe_float64 (W := W) rs1
    split
    · next e he => rw [he] at f2; exact f2.of_error
    · next f2v rs2 _ =>
      split
      · have h1 := (safe_mutateAddLink g reg o.mopts rs2 hb.genes hf.wft.wf.hasOutput hf.wft.wf.nodesSorted hb.traits hr').and_ok
          (Q := fun r => StructPost g r ∧ Fits r.2.1 P r.1 ∧ PoolOk r.2.1 P)
          (fun a rs' e hp => ⟨hp, addLink_closed o.mopts rs2 rs' a.2.2 hP hf e⟩)
        split
        · next e he => rw [he] at h1; exact h1.of_error
        · next g' reg' b rs3 he => rw [he] at h1; exact post (g', reg', true) h1.1 h1.2
      · have f3 := safe_float64 (W := W) rs2
        split
        · next e he => rw [he] at f3; exact f3.of_error
        · next f3v rs3 _ =>
          split
          · exact ((safe_mutateConnectSensors g reg rs3 hb.genes hb.traits hr').and_ok
              (Q := fun r => StructPost g r ∧ Fits r.2.1 P r.1 ∧ PoolOk r.2.1 P)
              (fun a rs' e hp => ⟨hp, connectSensors_closed rs3 rs' a.2.2 hP hf e⟩)).mono (fun r hr => post r hr.1 hr.2)
          · exact post (g, reg, false) ⟨hr', rfl⟩ ⟨hf, hP⟩

/-- **the mutation chain of a fresh baby never fails** -/
theorem safe_mutateBaby (hlaw : UnitMulLe W) (o : EpochOpts W) (ha : ActOk o.mopts) (g : Genome W) (reg : Reg W)
    (rs : List Nat) (hv : Valid rs) (S : List Nat) (P : List (Genome W)) (hP : PoolOk reg P) (hf : Fits reg P g) (hsh : shape g = S)
    (hr : RecTraits S.length reg) : Safe (BabyPost S P) (mutateBaby o g reg rs) := by
  rw [mutateBaby_eq]
  have f1 := safe_float64 (W := W) rs
  split
  · next e he => rw [he] at f1; exact f1.of_error
  · next f1v rs1 hf1 =>
    have hs := safe_structStage hlaw o ha g reg f1v rs1 (valid_of_ok Rand.float64_prefixDet hv hf1) S P hP hf hsh hr
    split
    · next e he => rw [he] at hs; exact hs.of_error
    · next g' reg' rs' he => rw [he] at hs; exact hs
    · next g' reg' rs' he =>
      rw [he] at hs
      obtain ⟨h1, h2, h3, h4⟩ : BabyPost S P (g', reg', false) := hs
      have hn := safe_mutateAllNonstructural g' o.mopts rs' (basic_of_wf h3.wft.wf)
      split
      · next e he2 => rw [he2] at hn; exact hn.of_error
      · next g'' rs'' he2 =>
        rw [he2] at hn
        have hl : Like g' g'' := hn
        exact ⟨h1, hl.shape.trans h2, nonstructural_closed o.mopts rs' rs'' h3 he2, h4⟩

/-! ### reproduceOne -/

theorem safe_pickOtherSpecies (hpick : PickLaw W) (s : Species W) (sorted : List (Species W)) (hne : sorted ≠ [])
    (n : Nat) (cur : Species W) (rs : List Nat) (hv : Valid rs) :
    Safe (fun sp => sp = cur ∨ sp ∈ sorted) (pickOtherSpecies s sorted n cur rs) := by
  have h0 : Safe (fun _ => True) (pickOtherSpecies s sorted n cur rs) := by
    induction n generalizing cur rs with
    | zero => unfold pickOtherSpecies; trivial
    | succ k ih =>
      unfold pickOtherSpecies
      split
      · have hf := safe_float64 (W := W) rs
        split
        · next e he => rw [he] at hf; exact hf.of_error
        · next f rs' he =>
          have hv' := valid_of_ok Rand.float64_prefixDet hv he
          rw [he] at hf
          obtain ⟨x, hxm, rfl, hx⟩ := hf
          obtain ⟨p1, p2⟩ := hpick x sorted.length (hv x hxm) (List.length_pos_iff.mpr hne) hx
          simp only
          rw [if_neg (by omega)]
          split
          · next hn => rw [List.getElem?_eq_none_iff] at hn; omega
          · exact ih _ _ hv'
      · trivial
  exact h0.and_ok (fun a rs' e _ => pickOtherSpecies_mem s sorted n cur a rs rs' e)

/-- the mutation of a super-champion offspring -/
def superMutated (o : EpochOpts W) (st : ReproState W) (g0 : Genome W) (rs : List Nat) : R (Genome W × Reg W × Bool) :=
  if st.superChamp > 1 then
    match Rand.float64 (W := W) rs with
    | .error e => .error e
    | .ok (f, rs1) =>
      if lt f (ofDec 8 1) || eq o.mutateAddLinkProb zero then
        match mutateLinkWeights g0 o.mopts.weightMutPower one .gaussian rs1 with
        | .error e => .error e
        | .ok (g1, rs2) => .ok ((g1, st.reg, false), rs2)
      else
        match mutateAddLink g0 st.reg o.mopts rs1 with
        | .error e => .error e
        | .ok ((g1, reg1, _), rs2) => .ok ((g1, reg1, true), rs2)
  else .ok ((g0, st.reg, false), rs)

theorem safe_superMutated (o : EpochOpts W) (st : ReproState W) (g0 : Genome W) (rs : List Nat) (S : List Nat)
    (hw : WF g0) (hsh : shape g0 = S) (hr : RecTraits S.length st.reg) :
    Safe (fun r => RecTraits S.length r.2.1 ∧ shape r.1 = S) (superMutated o st g0 rs) := by
  have hb := basic_of_wf hw
  unfold superMutated
  split
  · have hf := safe_float64 (W := W) rs
    split
    · next e he => rw [he] at hf; exact hf.of_error
    · next f rs1 _ =>
      split
      · have h1 := safe_mutateLinkWeights g0 o.mopts.weightMutPower one .gaussian rs1 hb.genes
        split
        · next e he => rw [he] at h1; exact h1.of_error
        · next g1 rs2 he =>
          rw [he] at h1
          have hl : Like g0 g1 := h1
          exact ⟨hr, hl.shape.trans hsh⟩
      · have h1 := safe_mutateAddLink g0 st.reg o.mopts rs1 hb.genes hw.hasOutput hw.nodesSorted hb.traits
          (by rw [traitsLen_of_shape hsh]; exact hr)
        split
        · next e he => rw [he] at h1; exact h1.of_error
        · next g1 reg1 b rs2 he =>
          rw [he] at h1
          obtain ⟨a1, a2⟩ : StructPost g0 (g1, reg1, b) := h1
          refine ⟨by rw [← traitsLen_of_shape hsh]; exact a1, ?_⟩
          rw [← hsh]; unfold shape; rw [a2]
  · exact ⟨hr, hsh⟩

/-- the choice of the second parent -/
def dadStage (o : EpochOpts W) (s : Species W) (sorted : List (Species W)) (f2 : W) (rs3 : List Nat) : R (Org W) :=
  if gt f2 o.interspeciesMateRate then
    match Rand.intn s.orgs.length rs3 with
    | .error e => .error e
    | .ok (k2, rs4) =>
      match s.orgs[k2]? with
      | none => .error (.error "panic:index")
      | some d => .ok (d, rs4)
  else
    match pickOtherSpecies s sorted 5 s rs3 with
    | .error e => .error e
    | .ok (sp, rs4) =>
      match sp.orgs.head? with
      | none => .error (.error "panic:index")
      | some d => .ok (d, rs4)

theorem dadStage_prefixDet (o : EpochOpts W) (s : Species W) (sorted : List (Species W)) (f2 : W) :
    PrefixDet (dadStage o s sorted f2) := by
  unfold dadStage
  pd_auto

theorem safe_dadStage (hpick : PickLaw W) (o : EpochOpts W) (s : Species W) (sorted : List (Species W)) (f2 : W) (rs3 : List Nat)
    (hv : Valid rs3) (hne : s.orgs ≠ []) (hsne : sorted ≠ []) (hspne : ∀ sp ∈ sorted, sp.orgs ≠ []) :
    Safe (fun d => d ∈ s.orgs ∨ ∃ sp ∈ sorted, d ∈ sp.orgs) (dadStage o s sorted f2 rs3) := by
  unfold dadStage
  split
  · have h1 := safe_intn s.orgs.length (List.length_pos_iff.mpr hne) rs3
    split
    · next e he => rw [he] at h1; exact h1.of_error
    · next k rs4 he =>
      rw [he] at h1
      have hk : k < s.orgs.length := h1
      split
      · next hn => rw [List.getElem?_eq_none_iff] at hn; omega
      · next d hd => exact Or.inl (List.mem_of_getElem? hd)
  · have h1 := safe_pickOtherSpecies hpick s sorted hsne 5 s rs3 hv
    split
    · next e he => rw [he] at h1; exact h1.of_error
    · next sp rs4 he =>
      rw [he] at h1
      have hsp : sp = s ∨ sp ∈ sorted := h1
      have hspo : sp.orgs ≠ [] := by rcases hsp with rfl | h; exact hne; exact hspne sp h
      split
      · next hn => cases hso : sp.orgs with
        | nil => exact absurd hso hspo
        | cons a l => rw [hso] at hn; cases hn
      · next d hd =>
        have hdm : d ∈ sp.orgs := List.mem_of_mem_head? hd
        rcases hsp with rfl | h
        · exact Or.inl hdm
        · exact Or.inr ⟨sp, h, hdm⟩

/-- the choice of the crossover -/
def childStage (o : EpochOpts W) (mom dad : Org W) (count : Int) (f3 : W) (rs5 : List Nat) : R (Genome W) :=
  if lt f3 o.mateMultipointProb then
    mateMultipoint mom.genome dad.genome count mom.originalFitness dad.originalFitness rs5
  else
    match Rand.float64 (W := W) rs5 with
    | .error e => .error e
    | .ok (f4, rs6) =>
      if lt f4 (div o.mateMultipointAvgProb (add o.mateMultipointAvgProb o.mateSinglepointProb)) then
        mateMultipointAvg mom.genome dad.genome count mom.originalFitness dad.originalFitness rs6
      else mateSinglePoint mom.genome dad.genome count rs6

theorem childStage_prefixDet (o : EpochOpts W) (mom dad : Org W) (count : Int) (f3 : W) :
    PrefixDet (childStage o mom dad count f3) := by
  unfold childStage
  pd_auto

theorem safe_childStage (o : EpochOpts W) (mom dad : Org W) (count : Int) (f3 : W) (rs5 : List Nat)
    (reg : Reg W) (P : List (Genome W)) (S : List Nat)
    (fm : Fits reg P mom.genome) (fd : Fits reg P dad.genome) (hd : dad.genome ∈ P)
    (hs1 : shape mom.genome = S) (hs2 : shape dad.genome = S) :
    Safe (fun c => shape c = S ∧ Fits reg P c) (childStage o mom dad count f3 rs5) := by
  have hl : NodeLineage mom.genome dad.genome := fm.nodes _ hd
  have hh : SharedHead mom.genome dad.genome := fm.head _ hd
  have hm : MateOk mom.genome dad.genome :=
    mateOk_of_wf _ _ fm.wft.wf fd.wft.wf fm.nomod fd.nomod hl.2.1 (hs1.trans hs2.symm)
  unfold childStage
  split
  · exact ((safe_mateMultipoint _ _ count _ _ rs5 hm).and_ok (Q := fun c => shape c = S ∧ Fits reg P c)
      (fun c rs' e hp => ⟨hp.trans hs1, child_closed fm fd hl hh (mateMultipoint_out _ _ _ _ _ _ _ _ fm.wft fd.wft e)⟩))
  · have f4 := safe_float64 (W := W) rs5
    split
    · next e he => rw [he] at f4; exact f4.of_error
    · next f4v rs6 _ =>
      split
      · exact ((safe_mateMultipointAvg _ _ count _ _ rs6 hm).and_ok (Q := fun c => shape c = S ∧ Fits reg P c)
          (fun c rs' e hp => ⟨hp.trans hs1, child_closed fm fd hl hh (mateMultipointAvg_out _ _ _ _ _ _ _ _ fm.wft fd.wft e)⟩))
      · exact ((safe_mateSinglePoint _ _ count rs6 hm fm.wft.wf.hasGene fd.wft.wf.hasGene).and_ok
          (Q := fun c => shape c = S ∧ Fits reg P c)
          (fun c rs' e hp => ⟨hp.trans hs1, child_closed fm fd hl hh (mateSinglePoint_out _ _ _ _ _ _ fm.wft fd.wft e)⟩))

/-- what one more baby keeps: the registry invariant and the common trait shape of the extended pool -/
def ReproPost (S : List Nat) (P0 : List (Genome W)) (st : ReproState W) : Prop :=
  RecTraits S.length st.reg ∧ ∀ g ∈ poolOf P0 st, shape g = S

theorem post_finish {S : List Nat} {P0 : List (Genome W)} {st st' : ReproState W} {g1 : Genome W}
    (hreg : RecTraits S.length st'.reg) (hb : st'.babies.map (·.genome) = st.babies.map (·.genome) ++ [g1])
    (hsh : ∀ g ∈ poolOf P0 st, shape g = S) (h1 : shape g1 = S) : ReproPost S P0 st' := by
  refine ⟨hreg, ?_⟩
  intro g hg
  unfold poolOf at hg hsh
  rw [hb, ← List.append_assoc] at hg
  rcases List.mem_append.mp hg with h | h
  · exact hsh g h
  · simp only [List.mem_singleton] at h; rw [h]; exact h1

/-- **one offspring never fails**, whichever branch `Species.reproduce` takes -/
theorem safe_reproduceOne (hlaw : UnitMulLe W) (hpick : PickLaw W) (o : EpochOpts W) (ha : ActOk o.mopts) (generation : Int)
    (s : Species W) (sorted : List (Species W)) (champ : Org W) (count : Int) (st : ReproState W) (rs : List Nat) (hv : Valid rs)
    (P0 : List (Genome W)) (S : List Nat)
    (hchamp : champ.genome ∈ P0) (hs : ∀ x ∈ s.orgs, x.genome ∈ P0)
    (hsorted : ∀ sp ∈ sorted, ∀ x ∈ sp.orgs, x.genome ∈ P0)
    (hne : s.orgs ≠ []) (hsne : sorted ≠ []) (hspne : ∀ sp ∈ sorted, sp.orgs ≠ [])
    (hP : PoolOk st.reg (poolOf P0 st)) (hr : RecTraits S.length st.reg) (hsh : ∀ g ∈ poolOf P0 st, shape g = S) :
    Safe (ReproPost S P0) (reproduceOne o generation s sorted champ count st rs) := by
  have hin : ∀ g ∈ P0, Fits st.reg (poolOf P0 st) g := fun g hg => hP g (List.mem_append_left _ hg)
  have hshin : ∀ g ∈ P0, shape g = S := fun g hg => hsh g (List.mem_append_left _ hg)
  have hdup : ∀ g ∈ P0, g.duplicate count = .ok { g with id := count } := by
    intro g hg
    obtain ⟨d, h1, h2, _⟩ := duplicate_wf g count (hin g hg).wft (hin g hg).nomod
    rw [h1, h2]
  have fdup : ∀ g ∈ P0, Fits st.reg (poolOf P0 st) { g with id := count } :=
    fun g hg => dup_closed count (hin g hg) (hdup g hg)
  unfold reproduceOne
  simp only
  split
  · -- super-champion offspring
    split
    · next e he => rw [hdup _ hchamp] at he; cases he
    · next g0 he =>
      rw [hdup _ hchamp] at he; cases he
      have hm := safe_superMutated o st { champ.genome with id := count } rs S (fdup _ hchamp).wft.wf (hshin champ.genome hchamp) hr
      split
      · next e he2 => exact (hm.cast he2).of_error
      · next g1 reg1 ms rs' he2 =>
        have h2 : RecTraits S.length reg1 ∧ shape g1 = S := hm.cast he2
        exact post_finish (g1 := g1) h2.1 (by simp [newOrganism]) hsh h2.2
  · split
    · -- champion clone
      split
      · next e he => rw [hdup _ hchamp] at he; cases he
      · next g0 he =>
        rw [hdup _ hchamp] at he; cases he
        exact post_finish (g1 := { champ.genome with id := count }) hr (by simp [newOrganism]) hsh (hshin champ.genome hchamp)
    · have f1 := safe_float64 (W := W) rs
      split
      · next e he => rw [he] at f1; exact f1.of_error
      · next f rs1 hf1 =>
        have hv1 := valid_of_ok Rand.float64_prefixDet hv hf1
        have hi := safe_intn s.orgs.length (List.length_pos_iff.mpr hne) rs1
        split
        · -- mutation only
          split
          · next e he => rw [he] at hi; exact hi.of_error
          · next k rs2 he =>
            have hv2 := valid_of_ok (Rand.intn_prefixDet _) hv1 he
            rw [he] at hi
            have hk : k < s.orgs.length := hi
            split
            · next hn => rw [List.getElem?_eq_none_iff] at hn; omega
            · next mom hmom =>
              have hm : mom.genome ∈ P0 := hs mom (List.mem_of_getElem? hmom)
              split
              · next e he2 => rw [hdup _ hm] at he2; cases he2
              · next g0 he2 =>
                rw [hdup _ hm] at he2; cases he2
                have hb := safe_mutateBaby hlaw o ha { mom.genome with id := count } st.reg rs2 hv2 S (poolOf P0 st) hP
                  (fdup _ hm) (hshin mom.genome hm) hr
                split
                · next e he3 => rw [he3] at hb; exact hb.of_error
                · next g1 reg1 ms rs3 he3 =>
                  rw [he3] at hb
                  have hb' : BabyPost S (poolOf P0 st) (g1, reg1, ms) := hb
                  exact post_finish (g1 := g1) hb'.1 (by simp [newOrganism]) hsh hb'.2.1
        · -- mating
          split
          · next e he => rw [he] at hi; exact hi.of_error
          · next k rs2 he =>
            have hv2 := valid_of_ok (Rand.intn_prefixDet _) hv1 he
            rw [he] at hi
            have hk : k < s.orgs.length := hi
            split
            · next hn => rw [List.getElem?_eq_none_iff] at hn; omega
            · next mom hmom =>
              have hm : mom.genome ∈ P0 := hs mom (List.mem_of_getElem? hmom)
              have f2 := safe_float64 (W := W) rs2
              split
              · next e he2 => rw [he2] at f2; exact f2.of_error
              · next f2v rs3 hf2 =>
                have hv3 := valid_of_ok Rand.float64_prefixDet hv2 hf2
                have hd := safe_dadStage hpick o s sorted f2v rs3 hv3 hne hsne hspne
                split
                · next e he3 => exact (hd.cast he3).of_error
                · next dad rs4 he3 =>
                  have hv4 : Valid rs4 := valid_of_ok (dadStage_prefixDet o s sorted f2v) hv3 he3
                  have hdm : dad ∈ s.orgs ∨ ∃ sp ∈ sorted, dad ∈ sp.orgs := hd.cast he3
                  have hdP : dad.genome ∈ P0 := by
                    rcases hdm with h | ⟨sp, h1, h2⟩
                    · exact hs _ h
                    · exact hsorted sp h1 _ h2
                  have f3 := safe_float64 (W := W) rs4
                  split
                  · next e he4 => rw [he4] at f3; exact f3.of_error
                  · next f3v rs5 hf3 =>
                    have hv5 := valid_of_ok Rand.float64_prefixDet hv4 hf3
                    have hc := safe_childStage o mom dad count f3v rs5 st.reg (poolOf P0 st) S (hin _ hm) (hin _ hdP)
                      (List.mem_append_left _ hdP) (hshin mom.genome hm) (hshin _ hdP)
                    split
                    · next e he5 => exact (hc.cast he5).of_error
                    · next child rs7 he5 =>
                      have hv7 : Valid rs7 := valid_of_ok (childStage_prefixDet o mom dad count f3v) hv5 he5
                      have hc' : shape child = S ∧ Fits st.reg (poolOf P0 st) child := hc.cast he5
                      have f5 := safe_float64 (W := W) rs7
                      split
                      · next e he6 => rw [he6] at f5; exact f5.of_error
                      · next f5v rs8 hf5 =>
                        have hv8 := valid_of_ok Rand.float64_prefixDet hv7 hf5
                        split
                        · have hb := safe_mutateBaby hlaw o ha child st.reg rs8 hv8 S (poolOf P0 st) hP hc'.2 hc'.1 hr
                          split
                          · next e he7 => rw [he7] at hb; exact hb.of_error
                          · next g1 reg1 ms rs9 he7 =>
                            rw [he7] at hb
                            have hb' : BabyPost S (poolOf P0 st) (g1, reg1, ms) := hb
                            exact post_finish (g1 := g1) hb'.1 (by simp [newOrganism]) hsh hb'.2.1
                        · exact post_finish (g1 := child) hr (by simp [newOrganism]) hsh hc'.1

/-! ### reproduceLoop, reproduceSpecies, reproduceAll -/

theorem safe_reproduceLoop (hlaw : UnitMulLe W) (hpick : PickLaw W) (o : EpochOpts W) (ha : ActOk o.mopts) (generation : Int)
    (s : Species W) (sorted : List (Species W)) (champ : Org W) (P0 : List (Genome W)) (S : List Nat)
    (hchamp : champ.genome ∈ P0) (hs : ∀ x ∈ s.orgs, x.genome ∈ P0)
    (hsorted : ∀ sp ∈ sorted, ∀ x ∈ sp.orgs, x.genome ∈ P0)
    (hne : s.orgs ≠ []) (hsne : sorted ≠ []) (hspne : ∀ sp ∈ sorted, sp.orgs ≠ [])
    (n : Nat) (count : Int) (st : ReproState W) (rs : List Nat) (hv : Valid rs)
    (hP : PoolOk st.reg (poolOf P0 st)) (hr : RecTraits S.length st.reg) (hsh : ∀ g ∈ poolOf P0 st, shape g = S) :
    Safe (fun st' => ReproPost S P0 st' ∧ PoolOk st'.reg (poolOf P0 st'))
      (reproduceLoop o generation s sorted champ n count st rs) := by
  induction n generalizing count st rs with
  | zero => unfold reproduceLoop; exact ⟨⟨hr, hsh⟩, hP⟩
  | succ k ih =>
    unfold reproduceLoop
    have h1 := (safe_reproduceOne hlaw hpick o ha generation s sorted champ count st rs hv P0 S hchamp hs hsorted hne hsne hspne
      hP hr hsh).and_ok (Q := fun st' => ReproPost S P0 st' ∧ PoolOk st'.reg (poolOf P0 st'))
      (fun st' rs' e hp => ⟨hp, reproduceOne_closed o generation s sorted champ count st st' rs rs' P0 hchamp hs hsorted hP e⟩)
    split
    · next e he => rw [he] at h1; exact h1.of_error
    · next st' rs' he =>
      have h1' : ReproPost S P0 st' ∧ PoolOk st'.reg (poolOf P0 st') := by rw [he] at h1; exact h1
      exact ih (count + 1) st' rs' (valid_of_ok (reproduceOne_prefixDet _ _ _ _ _ _ _) hv he) h1'.2 h1'.1.1 h1'.1.2

/-- the state of the pool between species: registry invariant, pool invariant, one shape -/
structure PoolEnv (S : List Nat) (reg : Reg W) (P : List (Genome W)) : Prop where
  pool : PoolOk reg P
  recs : RecTraits S.length reg
  shaped : ∀ g ∈ P, shape g = S

/-- **`Species.reproduce` never fails** on a non-empty species -/
theorem safe_reproduceSpecies (hlaw : UnitMulLe W) (hpick : PickLaw W) (o : EpochOpts W) (ha : ActOk o.mopts) (generation : Int)
    (s : Species W) (sorted : List (Species W)) (reg : Reg W) (uid : Nat) (rs : List Nat) (hv : Valid rs) (P0 : List (Genome W)) (S : List Nat)
    (hs : ∀ x ∈ s.orgs, x.genome ∈ P0) (hsorted : ∀ sp ∈ sorted, ∀ x ∈ sp.orgs, x.genome ∈ P0)
    (hne : s.orgs ≠ []) (hsne : sorted ≠ []) (hspne : ∀ sp ∈ sorted, sp.orgs ≠ [])
    (henv : PoolEnv S reg P0) :
    Safe (fun r => PoolEnv S r.2.1 (P0 ++ r.1.map (·.genome))) (reproduceSpecies o generation s sorted reg uid rs) := by
  unfold reproduceSpecies
  split
  · next hn => cases hso : s.orgs with
    | nil => exact absurd hso hne
    | cons a l => rw [hso] at hn; cases hn
  · next champ hchamp =>
    simp only
    have hl := safe_reproduceLoop hlaw hpick o ha generation s sorted champ P0 S (hs champ (List.mem_of_mem_head? hchamp)) hs hsorted
      hne hsne hspne s.expectedOffspring.toNat 0
      { superChamp := champ.superChampOffspring, champCloneDone := false, reg := reg, nextUid := uid, babies := [] } rs hv
      (by simpa [poolOf] using henv.pool) henv.recs (by simpa [poolOf] using henv.shaped)
    split
    · next e he => rw [he] at hl; exact hl.of_error
    · next st rs' he =>
      rw [he] at hl
      have hl' : ReproPost S P0 st ∧ PoolOk st.reg (poolOf P0 st) := hl
      exact ⟨hl'.2, hl'.1.1, hl'.1.2⟩

/-- **reproduction of all species never fails** -/
theorem safe_reproduceAll (hlaw : UnitMulLe W) (hpick : PickLaw W) (o : EpochOpts W) (ha : ActOk o.mopts) (generation : Int)
    (sorted : List (Species W)) (P0 : List (Genome W)) (S : List Nat)
    (hsorted : ∀ sp ∈ sorted, ∀ x ∈ sp.orgs, x.genome ∈ P0) (hsne : sorted ≠ []) (hspne : ∀ sp ∈ sorted, sp.orgs ≠ [])
    (ss : List (Species W)) (hss : ∀ s ∈ ss, ∀ x ∈ s.orgs, x.genome ∈ P0) (hssne : ∀ s ∈ ss, s.orgs ≠ [])
    (reg : Reg W) (uid : Nat) (babies : List (Org W)) (rs : List Nat) (hv : Valid rs)
    (henv : PoolEnv S reg (P0 ++ babies.map (·.genome))) :
    Safe (fun r => PoolEnv S r.2.1 (P0 ++ r.1.map (·.genome))) (reproduceAll o generation sorted ss reg uid babies rs) := by
  induction ss generalizing reg uid babies rs with
  | nil => unfold reproduceAll; exact henv
  | cons s t ih =>
    unfold reproduceAll
    have h1 := safe_reproduceSpecies hlaw hpick o ha generation s sorted reg uid rs hv (P0 ++ babies.map (·.genome)) S
      (fun x hx => List.mem_append_left _ (hss s (by simp) x hx))
      (fun sp hsp' x hx => List.mem_append_left _ (hsorted sp hsp' x hx))
      (hssne s (by simp)) hsne hspne henv
    split
    · next e he => rw [he] at h1; exact h1.of_error
    · next bs reg' uid' rs' he =>
      have h1' : PoolEnv S reg' ((P0 ++ babies.map (·.genome)) ++ bs.map (·.genome)) := by rw [he] at h1; exact h1
      exact ih (fun s' hs' => hss s' (List.mem_cons_of_mem _ hs')) (fun s' hs' => hssne s' (List.mem_cons_of_mem _ hs'))
        reg' uid' (babies ++ bs) rs' (valid_of_ok (reproduceSpecies_prefixDet _ _ _ _ _ _) hv he) (by simpa [List.append_assoc] using h1')

end GoNeat.NoErr
