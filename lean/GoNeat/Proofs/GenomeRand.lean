/-
  Helper lemmas about the model of `newGenomeRand` (Model/GenomeRand.lean): what the three node loops build, what one
  matrix cell / one row / all columns contribute, for every random stream.  Kind A: no law of the scalar type is used.
-/
import GoNeat.Model.GenomeRand
import GoNeat.Spec.GenomeRand

set_option linter.unusedSectionVars false
set_option linter.unusedVariables false

namespace GoNeat.GenRand
open GoNeat Scalar
variable {W : Type} [Scalar W]

/-! ### nodes -/

/-- what a node of the random genome looks like: id range ↦ kind, always trait 1 -/
def NodeFact (nIn n firstOutput nOut : Nat) (x : Node) : Prop :=
  x.trait = some 1 ∧
  ((1 ≤ x.id ∧ x.id ≤ (nIn : Int) ∧ x.kind = (if x.id = (nIn : Int) then Kind.bias else Kind.input)) ∨
   ((nIn : Int) < x.id ∧ x.id ≤ ((nIn + n : Nat) : Int) ∧ x.kind = Kind.hidden) ∨
   (((firstOutput : Nat) : Int) ≤ x.id ∧ x.id < ((firstOutput + nOut : Nat) : Int) ∧ x.kind = Kind.output))

theorem sensorNodes_mem (nIn : Nat) (x : Node) (h : x ∈ sensorNodes nIn) :
    x.trait = some 1 ∧ 1 ≤ x.id ∧ x.id ≤ (nIn : Int) ∧ x.kind = (if x.id = (nIn : Int) then Kind.bias else Kind.input) := by
  unfold sensorNodes at h
  obtain ⟨i, hi, rfl⟩ := List.mem_map.mp h
  have hi' := List.mem_range.mp hi
  refine ⟨rfl, by simp only; omega, by simp only; omega, ?_⟩
  simp only
  by_cases hc : i + 1 = nIn
  · rw [if_pos hc, if_pos (by omega)]
  · rw [if_neg hc, if_neg (by omega)]

theorem sensorNodes_sorted (nIn : Nat) : NodesSorted (sensorNodes nIn) := by
  unfold NodesSorted sensorNodes
  rw [List.pairwise_map]
  exact List.Pairwise.imp (fun {a b} (h : a < b) => by simp only; omega) List.pairwise_lt_range

theorem outputNodes_mem (fo nOut : Nat) (x : Node) (h : x ∈ outputNodes fo nOut) :
    x.trait = some 1 ∧ ((fo : Nat) : Int) ≤ x.id ∧ x.id < ((fo + nOut : Nat) : Int) ∧ x.kind = Kind.output := by
  unfold outputNodes at h
  obtain ⟨i, hi, rfl⟩ := List.mem_map.mp h
  have hi' := List.mem_range.mp hi
  exact ⟨rfl, by simp only; omega, by simp only; omega, rfl⟩

theorem outputNodes_sorted (fo nOut : Nat) : NodesSorted (outputNodes fo nOut) := by
  unfold NodesSorted outputNodes
  rw [List.pairwise_map]
  exact List.Pairwise.imp (fun {a b} (h : a < b) => by simp only; omega) List.pairwise_lt_range

theorem outputNodes_ne_nil (fo nOut : Nat) (h : 1 ≤ nOut) : ∃ x ∈ outputNodes fo nOut, x.kind = Kind.output := by
  refine ⟨{ id := ((fo + 0 : Nat) : Int), kind := Kind.output, act := defaultActivation, trait := some 1 }, ?_, rfl⟩
  unfold outputNodes
  exact List.mem_map.mpr ⟨0, List.mem_range.mpr (by omega), rfl⟩

theorem hiddenNodes_spec (o : MutOpts W) (k i : Nat) (rs rs' : List Nat) (ns : List Node)
    (h : hiddenNodes o k i rs = .ok (ns, rs')) :
    NodesSorted ns ∧ ns.length = k ∧
      ∀ x ∈ ns, x.trait = some 1 ∧ ((i : Nat) : Int) ≤ x.id ∧ x.id < ((i + k : Nat) : Int) ∧ x.kind = Kind.hidden := by
  induction k generalizing i rs rs' ns with
  | zero =>
    simp only [hiddenNodes, Except.ok.injEq, Prod.mk.injEq] at h
    obtain ⟨rfl, _⟩ := h
    exact ⟨List.Pairwise.nil, rfl, fun x hx => by cases hx⟩
  | succ k ih =>
    unfold hiddenNodes at h
    split at h
    · cases h
    · rename_i a rs1 ha
      split at h
      · cases h
      · rename_i rest rs2 hrest
        simp only [Except.ok.injEq, Prod.mk.injEq] at h
        obtain ⟨rfl, _⟩ := h
        obtain ⟨s, l, m⟩ := ih (i + 1) rs1 rs2 rest hrest
        refine ⟨?_, by simp [l], ?_⟩
        · unfold NodesSorted
          rw [List.pairwise_cons]
          refine ⟨fun b hb => ?_, s⟩
          have := (m b hb).2.1
          simp only; omega
        · intro x hx
          rcases List.mem_cons.mp hx with rfl | hx
          · exact ⟨rfl, by simp only; omega, by simp only; omega, rfl⟩
          · obtain ⟨a1, a2, a3, a4⟩ := m x hx
            exact ⟨a1, by omega, by omega, a4⟩

/-- the node list `sensors ++ hidden ++ outputs` -/
theorem nodes_fact (nIn n fo nOut : Nat) (hid : List Node)
    (hh : ∀ x ∈ hid, x.trait = some 1 ∧ ((nIn + 1 : Nat) : Int) ≤ x.id ∧ x.id < ((nIn + 1 + n : Nat) : Int) ∧ x.kind = Kind.hidden) :
    ∀ x ∈ sensorNodes nIn ++ hid ++ outputNodes fo nOut, NodeFact nIn n fo nOut x := by
  intro x hx
  rcases List.mem_append.mp hx with hx | hx
  · rcases List.mem_append.mp hx with hx | hx
    · obtain ⟨a, b, c, d⟩ := sensorNodes_mem nIn x hx
      exact ⟨a, .inl ⟨b, c, d⟩⟩
    · obtain ⟨a, b, c, d⟩ := hh x hx
      exact ⟨a, .inr (.inl ⟨by omega, by omega, d⟩)⟩
  · obtain ⟨a, b, c, d⟩ := outputNodes_mem fo nOut x hx
    exact ⟨a, .inr (.inr ⟨b, c, d⟩)⟩

theorem nodes_sorted (nIn n fo nOut : Nat) (hid : List Node) (hs : NodesSorted hid) (hfo : nIn + n < fo)
    (hh : ∀ x ∈ hid, x.trait = some 1 ∧ ((nIn + 1 : Nat) : Int) ≤ x.id ∧ x.id < ((nIn + 1 + n : Nat) : Int) ∧ x.kind = Kind.hidden) :
    NodesSorted (sensorNodes nIn ++ hid ++ outputNodes fo nOut) := by
  unfold NodesSorted
  rw [List.pairwise_append]
  refine ⟨?_, outputNodes_sorted fo nOut, ?_⟩
  · rw [List.pairwise_append]
    refine ⟨sensorNodes_sorted nIn, hs, fun a ha b hb => ?_⟩
    have := (sensorNodes_mem nIn a ha).2.2.1
    have := (hh b hb).2.1
    omega
  · intro a ha b hb
    have hb' := (outputNodes_mem fo nOut b hb).2.1
    rcases List.mem_append.mp ha with ha | ha
    · have := (sensorNodes_mem nIn a ha).2.2.1
      omega
    · have := (hh a ha).2.2.1
      omega

/-! ### one matrix cell -/

/-- what the gene made for matrix cell (column `col`, row `row`) with running index `count` looks like -/
structure CellFact (d : RandDims) (recurrent : Bool) (nodes : List Node) (col row count : Nat) (x : Gene W) : Prop where
  inn : x.inn = (count : Int)
  src : x.src = (row : Int)
  dst : x.dst = (col : Int)
  inM : d.inMatrix col row = true
  recur : x.recur = !decide (col > row)
  allowed : col > row ∨ recurrent = true
  en : x.en = true
  mnum : x.mnum = x.w
  trait : x.trait = some 1
  srcIn : x.src ∈ nodes.map (·.id)
  dstIn : x.dst ∈ nodes.map (·.id)

/-- the condition under which the Go code creates a gene for a cell -/
def Creates (d : RandDims) (recurrent : Bool) (bit : Bool) (col row : Nat) : Prop :=
  bit = true ∧ d.inMatrix col row = true ∧ (col > row ∨ recurrent = true)

theorem cellGene_spec (d : RandDims) (recurrent : Bool) (nodes : List Node) (bit : Bool) (col row count : Nat)
    (rs rs1 : List Nat) (gs : List (Gene W)) (h : cellGene d recurrent nodes bit col row count rs = .ok (gs, rs1)) :
    (∀ x ∈ gs, CellFact d recurrent nodes col row count x) ∧ GenesSorted gs ∧ (gs = [] ↔ ¬ Creates d recurrent bit col row) := by
  unfold cellGene at h
  simp only at h
  split at h
  · rename_i hc
    simp only [Bool.and_eq_true] at hc
    split at h
    · rename_i hr
      simp only [Bool.or_eq_true, decide_eq_true_eq] at hr
      split at h
      · rename_i a b ha hb
        split at h
        · cases h
        · rename_i w rs2 hw
          simp only [Except.ok.injEq, Prod.mk.injEq] at h
          obtain ⟨rfl, _⟩ := h
          have ha' := List.find?_some ha
          have hb' := List.find?_some hb
          simp only [beq_iff_eq] at ha' hb'
          refine ⟨fun x hx => ?_, List.pairwise_singleton _ _, ?_⟩
          · simp only [List.mem_singleton] at hx
            subst hx
            exact { inn := rfl, src := ha', dst := hb', inM := hc.2, recur := rfl, allowed := hr, en := rfl, mnum := rfl,
                    trait := rfl,
                    srcIn := List.mem_map.mpr ⟨a, List.mem_of_find?_eq_some ha, rfl⟩,
                    dstIn := List.mem_map.mpr ⟨b, List.mem_of_find?_eq_some hb, rfl⟩ }
          · constructor
            · intro h0; cases h0
            · intro hn; exact absurd ⟨hc.1, hc.2, hr⟩ hn
      · cases h
    · rename_i hr
      simp only [Bool.or_eq_true, decide_eq_true_eq] at hr
      simp only [Except.ok.injEq, Prod.mk.injEq] at h
      obtain ⟨rfl, _⟩ := h
      exact ⟨fun x hx => (by cases hx), List.Pairwise.nil, ⟨fun _ hcr => hr hcr.2.2, fun _ => rfl⟩⟩
  · rename_i hc
    simp only [Bool.and_eq_true] at hc
    simp only [Except.ok.injEq, Prod.mk.injEq] at h
    obtain ⟨rfl, _⟩ := h
    exact ⟨fun x hx => (by cases hx), List.Pairwise.nil, ⟨fun _ hcr => hc ⟨hcr.1, hcr.2.1⟩, fun _ => rfl⟩⟩

/-! ### one column, all columns -/

/-- cell `count` of the connection matrix is set and the Go code creates a gene for it -/
def CreatesAt (d : RandDims) (recurrent : Bool) (cm : List Bool) (col row count : Nat) : Prop :=
  cm[count]? = some true ∧ d.inMatrix col row = true ∧ (col > row ∨ recurrent = true)

theorem rowLoop_spec (d : RandDims) (recurrent : Bool) (nodes : List Node) (cm : List Bool) (col k row count : Nat)
    (rs rs' : List Nat) (gs : List (Gene W)) (c : Nat)
    (h : rowLoop d recurrent nodes cm col k row count rs = .ok ((gs, c), rs')) :
    c = count + k ∧
    (∀ x ∈ gs, ∃ j, j < k ∧ CellFact d recurrent nodes col (row + j) (count + j) x) ∧
    GenesSorted gs ∧
    (gs = [] ↔ ∀ j, j < k → ¬ CreatesAt d recurrent cm col (row + j) (count + j)) := by
  induction k generalizing row count rs rs' gs c with
  | zero =>
    simp only [rowLoop, Except.ok.injEq, Prod.mk.injEq] at h
    obtain ⟨⟨rfl, rfl⟩, _⟩ := h
    exact ⟨rfl, fun x hx => (by cases hx), List.Pairwise.nil, ⟨fun _ j hj => (by omega), fun _ => rfl⟩⟩
  | succ k ih =>
    unfold rowLoop at h
    split at h
    · cases h
    · rename_i bit hbit
      split at h
      · cases h
      · rename_i g1 rs1 hcell
        split at h
        · cases h
        · rename_i rest c1 rs2 hrest
          simp only [Except.ok.injEq, Prod.mk.injEq] at h
          obtain ⟨⟨rfl, rfl⟩, _⟩ := h
          obtain ⟨f1, s1, e1⟩ := cellGene_spec d recurrent nodes bit col row count rs rs1 g1 hcell
          obtain ⟨hc, f2, s2, e2⟩ := ih (row + 1) (count + 1) rs1 rs2 rest c1 hrest
          refine ⟨by omega, ?_, ?_, ?_⟩
          · intro x hx
            rcases List.mem_append.mp hx with hx | hx
            · exact ⟨0, by omega, f1 x hx⟩
            · obtain ⟨j, hj, hf⟩ := f2 x hx
              refine ⟨j + 1, by omega, ?_⟩
              have e1 : row + (j + 1) = row + 1 + j := by omega
              have e2 : count + (j + 1) = count + 1 + j := by omega
              rw [e1, e2]; exact hf
          · unfold GenesSorted
            rw [List.pairwise_append]
            refine ⟨s1, s2, fun a ha b hb => ?_⟩
            have h1 := (f1 a ha).inn
            obtain ⟨j, _, hf⟩ := f2 b hb
            have h2 := hf.inn
            omega
          · rw [List.append_eq_nil_iff, e1, e2]
            constructor
            · rintro ⟨hn, hall⟩ j hj
              rcases j with _ | j
              · intro hcr
                exact hn ⟨by have := hcr.1; simp only [Nat.add_zero, hbit, Option.some.injEq] at this; exact this, hcr.2.1, hcr.2.2⟩
              · have e1 : row + (j + 1) = row + 1 + j := by omega
                have e2 : count + (j + 1) = count + 1 + j := by omega
                rw [e1, e2]; exact hall j (by omega)
            · intro hall
              refine ⟨fun hcr => hall 0 (by omega) ⟨by simp only [Nat.add_zero, hbit, hcr.1], hcr.2.1, hcr.2.2⟩, fun j hj => ?_⟩
              have := hall (j + 1) (by omega)
              have e1 : row + (j + 1) = row + 1 + j := by omega
              have e2 : count + (j + 1) = count + 1 + j := by omega
              rw [e1, e2] at this; exact this

theorem colLoop_spec (d : RandDims) (recurrent : Bool) (nodes : List Node) (cm : List Bool) (k col count : Nat)
    (rs rs' : List Nat) (gs : List (Gene W)) (c : Nat)
    (h : colLoop d recurrent nodes cm k col count rs = .ok ((gs, c), rs')) :
    c = count + k * d.total ∧
    (∀ x ∈ gs, ∃ i j, i < k ∧ j < d.total ∧ CellFact d recurrent nodes (col + i) (1 + j) (count + i * d.total + j) x) ∧
    GenesSorted gs ∧
    (gs = [] ↔ ∀ i j, i < k → j < d.total → ¬ CreatesAt d recurrent cm (col + i) (1 + j) (count + i * d.total + j)) := by
  induction k generalizing col count rs rs' gs c with
  | zero =>
    simp only [colLoop, Except.ok.injEq, Prod.mk.injEq] at h
    obtain ⟨⟨rfl, rfl⟩, _⟩ := h
    exact ⟨by omega, fun x hx => (by cases hx), List.Pairwise.nil, ⟨fun _ i j hi => (by omega), fun _ => rfl⟩⟩
  | succ k ih =>
    unfold colLoop at h
    split at h
    · cases h
    · rename_i g1 c1 rs1 hrow
      split at h
      · cases h
      · rename_i rest c2 rs2 hrest
        simp only [Except.ok.injEq, Prod.mk.injEq] at h
        obtain ⟨⟨rfl, rfl⟩, _⟩ := h
        obtain ⟨hc1, f1, s1, e1⟩ := rowLoop_spec d recurrent nodes cm col d.total 1 count rs rs1 g1 c1 hrow
        obtain ⟨hc2, f2, s2, e2⟩ := ih (col + 1) c1 rs1 rs2 rest c2 hrest
        have hsm : ∀ i : Nat, (i + 1) * d.total = i * d.total + d.total := fun i => Nat.succ_mul i d.total
        refine ⟨by rw [hc2, hc1, hsm]; omega, ?_, ?_, ?_⟩
        · intro x hx
          rcases List.mem_append.mp hx with hx | hx
          · obtain ⟨j, hj, hf⟩ := f1 x hx
            refine ⟨0, j, by omega, hj, ?_⟩
            have a1 : col + 0 = col := by omega
            have a2 : count + 0 * d.total + j = count + j := by omega
            rw [a1, a2]; exact hf
          · obtain ⟨i, j, hi, hj, hf⟩ := f2 x hx
            refine ⟨i + 1, j, by omega, hj, ?_⟩
            have a1 : col + (i + 1) = col + 1 + i := by omega
            have a2 : count + (i + 1) * d.total + j = c1 + i * d.total + j := by rw [hsm, hc1]; omega
            rw [a1, a2]; exact hf
        · unfold GenesSorted
          rw [List.pairwise_append]
          refine ⟨s1, s2, fun a ha b hb => ?_⟩
          obtain ⟨j, hj, hf⟩ := f1 a ha
          obtain ⟨i', j', _, _, hf'⟩ := f2 b hb
          have h1 := hf.inn
          have h2 := hf'.inn
          rw [h1, h2, hc1]
          have : count + j < count + d.total + i' * d.total + j' := by omega
          exact Int.ofNat_lt.mpr this
        · rw [List.append_eq_nil_iff, e1, e2]
          constructor
          · rintro ⟨h0, hall⟩ i j hi hj
            rcases i with _ | i
            · have a1 : col + 0 = col := by omega
              have a2 : count + 0 * d.total + j = count + j := by omega
              rw [a1, a2]; exact h0 j hj
            · have a1 : col + (i + 1) = col + 1 + i := by omega
              have a2 : count + (i + 1) * d.total + j = c1 + i * d.total + j := by rw [hsm, hc1]; omega
              rw [a1, a2]; exact hall i j (by omega) hj
          · intro hall
            refine ⟨fun j hj => ?_, fun i j hi hj => ?_⟩
            · have := hall 0 j (by omega) hj
              have a1 : col + 0 = col := by omega
              have a2 : count + 0 * d.total + j = count + j := by omega
              rw [a1, a2] at this; exact this
            · have := hall (i + 1) j (by omega) hj
              have a1 : col + (i + 1) = col + 1 + i := by omega
              have a2 : count + (i + 1) * d.total + j = c1 + i * d.total + j := by rw [hsm, hc1]; omega
              rw [a1, a2] at this; exact this

/-! ### the whole constructor -/

theorem drawMatrix_length (linkProb : W) (k : Nat) (rs rs' : List Nat) (cm : List Bool)
    (h : drawMatrix linkProb k rs = .ok (cm, rs')) : cm.length = k := by
  induction k generalizing rs rs' cm with
  | zero => simp only [drawMatrix, Except.ok.injEq, Prod.mk.injEq] at h; obtain ⟨rfl, _⟩ := h; rfl
  | succ k ih =>
    unfold drawMatrix at h
    split at h
    · cases h
    · split at h
      · cases h
      · rename_i cm1 rs2 hrest
        simp only [Except.ok.injEq, Prod.mk.injEq] at h
        obtain ⟨rfl, _⟩ := h
        simp [ih _ _ _ hrest]

/-- everything the loops establish about a genome `newGenomeRand` returns -/
structure Facts (newId : Int) (nIn nOut n mH : Nat) (recurrent : Bool) (g : Genome W) : Prop where
  id : g.id = newId
  traits : g.traits = [{ id := 1, params := List.replicate numTraitParams zero }]
  modules : g.modules = []
  nodesFact : ∀ x ∈ g.nodes, NodeFact nIn n (nIn + mH + 1) nOut x
  nodesSorted : n ≤ mH → NodesSorted g.nodes
  hasOutput : 1 ≤ nOut → HasOutput g
  genesSorted : GenesSorted g.genes
  cells : ∀ x ∈ g.genes, ∃ i j, i < nIn + nOut + mH ∧ j < nIn + nOut + mH ∧
    CellFact (randDims nIn nOut n mH) recurrent g.nodes (1 + i) (1 + j) (i * (nIn + nOut + mH) + j) x

theorem firstOutput_eq (nIn nOut n mH : Nat) : (randDims nIn nOut n mH).firstOutput = nIn + mH + 1 := by
  simp only [randDims]; omega

theorem newGenomeRand_facts (newId : Int) (nIn nOut n mH : Nat) (recurrent : Bool) (linkProb : W) (o : MutOpts W)
    (rs rs' : List Nat) (g : Genome W) (h : newGenomeRand newId nIn nOut n mH recurrent linkProb o rs = .ok (g, rs')) :
    Facts newId nIn nOut n mH recurrent g ∧
    ∃ cm rs1, drawMatrix linkProb ((nIn + nOut + mH) * (nIn + nOut + mH)) rs = .ok (cm, rs1) ∧
      (g.genes = [] ↔ ∀ i j, i < nIn + nOut + mH → j < nIn + nOut + mH →
        ¬ CreatesAt (randDims nIn nOut n mH) recurrent cm (1 + i) (1 + j) (i * (nIn + nOut + mH) + j)) := by
  unfold newGenomeRand at h
  simp only at h
  split at h
  · cases h
  · rename_i cm rs1 hcm
    split at h
    · cases h
    · rename_i hid rs2 hhid
      split at h
      · cases h
      · rename_i genes c rs3 hcol
        simp only [Except.ok.injEq, Prod.mk.injEq] at h
        obtain ⟨rfl, _⟩ := h
        rw [firstOutput_eq] at hcol
        obtain ⟨hs, hl, hm⟩ := hiddenNodes_spec o n (nIn + 1) rs1 rs2 hid hhid
        obtain ⟨_, f, s, e⟩ := colLoop_spec _ recurrent _ cm _ 1 0 rs2 rs3 genes c hcol
        have htot : (randDims nIn nOut n mH).total = nIn + nOut + mH := rfl
        rw [htot] at f e
        refine ⟨{ id := rfl, traits := rfl, modules := rfl,
                  nodesFact := by simp only [firstOutput_eq]; exact nodes_fact nIn n _ nOut hid hm,
                  nodesSorted := fun hn => by simp only [firstOutput_eq]; exact nodes_sorted nIn n _ nOut hid hs (by omega) hm,
                  hasOutput := fun ho => by
                    obtain ⟨x, hx, hk⟩ := outputNodes_ne_nil (randDims nIn nOut n mH).firstOutput nOut ho
                    exact ⟨x, List.mem_append_right _ hx, hk⟩,
                  genesSorted := s,
                  cells := fun x hx => by
                    obtain ⟨i, j, hi, hj, hf⟩ := f x hx
                    have a : 0 + i * (nIn + nOut + mH) + j = i * (nIn + nOut + mH) + j := by omega
                    rw [a] at hf
                    simp only [firstOutput_eq]
                    exact ⟨i, j, hi, hj, hf⟩ }, cm, rs1, hcm, ?_⟩
        rw [e]
        constructor
        · intro hall i j hi hj
          have := hall i j hi hj
          have a : 0 + i * (nIn + nOut + mH) + j = i * (nIn + nOut + mH) + j := by omega
          rw [a] at this; exact this
        · intro hall i j hi hj
          have := hall i j hi hj
          have a : 0 + i * (nIn + nOut + mH) + j = i * (nIn + nOut + mH) + j := by omega
          rw [a]; exact this

end GoNeat.GenRand
