/-
  Kind B (exact arithmetic) helper lemmas for C12: the network → fast-solver translation folds the bias links of a
  neuron into `biasList` and keeps the other links as connections; in a commutative (semi)ring the fast solver's
  pre-activation value  Σ_{connections into t} signal·weight + biasList[t]  equals the standard solver's
  Σ_{incoming links} weight·source  with bias sources valued 1 - the two differ only in summation order, operand
  order of the products and the position of the bias terms, which is why the cross-solver statement of C12 is
  "up to floating-point summation order".

  `ExactArith K` bridges the core-only `Scalar` operations to Mathlib's algebraic structure on the same type.
-/
import GoNeat.Proofs.FastFF
import GoNeat.Proofs.ScalarInt
import Mathlib.Algebra.Ring.Int.Defs
import Mathlib.Tactic.Ring

set_option linter.unusedSectionVars false

namespace GoNeat

/-- the `Scalar` operations of `K` are the ring operations -/
class ExactArith (K : Type) [Scalar K] [CommSemiring K] : Prop where
  zero_eq : (Scalar.zero : K) = 0
  one_eq : (Scalar.one : K) = 1
  add_eq : ∀ a b : K, Scalar.add a b = a + b
  mul_eq : ∀ a b : K, Scalar.mul a b = a * b

open ExactInt in
instance : ExactArith Int := ⟨rfl, rfl, fun _ _ => rfl, fun _ _ => rfl⟩

namespace Fast
open GoNeat.Solver (Err)

variable {W : Type} [Scalar W]

section Exact
variable {K : Type} [Scalar K] [CommSemiring K] [ExactArith K]

/-- Σ weight·value over a link list, as the standard solver accumulates it (from `acc`, in list order) -/
def linkSum (vals : Nat → K) (ls : List (NLink K)) (acc : K) : K :=
  ls.foldl (fun a l => Scalar.add a (Scalar.mul l.w (vals l.src))) acc

theorem linkSum_shift (vals : Nat → K) (ls : List (NLink K)) (acc : K) :
    linkSum vals ls acc = acc + linkSum vals ls 0 := by
  induction ls generalizing acc with
  | nil => simp [linkSum]
  | cons l ls ih =>
    simp only [linkSum, List.foldl_cons] at ih ⊢
    rw [ih (Scalar.add acc _), ih (Scalar.add 0 _), ExactArith.add_eq, ExactArith.add_eq]
    ring

theorem tFold_shift (sig : Nat → K) (cs : List (FLink K)) (x : K) : tFold sig cs x = x + tFold sig cs 0 := by
  induction cs generalizing x with
  | nil => simp [tFold]
  | cons c cs ih =>
    simp only [tFold, List.foldl_cons] at ih ⊢
    rw [ih (Scalar.add x _), ih (Scalar.add 0 _), ExactArith.add_eq, ExactArith.add_eq]
    ring

/-- **Translation lemma (one neuron, Kind B).**  Let the inner loop of `processIncomingConnections` for a target
    neuron with fast index `t` run over the incoming links `ls`, turning `(biases, conns)` into `(b', c')`.  Let
    `vals` give the value of every network node and `sig` the signal at every fast index, such that they agree
    through `neuronLookup` on the non-bias sources and bias sources have value 1.  Then `c' = conns ++ new`, every
    new connection targets `t`, no other bias cell changes, and in exact arithmetic

      (Σ_{c ∈ new} sig(c.src)·c.w) + b'[t]  =  biases[t] + Σ_{l ∈ ls} l.w·vals(l.src). -/
theorem translation_node (net : Net K) (lk : List (Int × Nat)) (t : Nat) (vals sig : Nat → K)
    (ls : List (NLink K)) (b : List K) (c : List (FLink K)) (b' : List K) (c' : List (FLink K))
    (ht : t < b.length)
    (hrun : procIncoming.links net lk t ls b c = .ok (b', c'))
    (hval : ∀ l ∈ ls, ∀ sn, net.nodes[l.src]? = some sn →
      (sn.kind == Kind.bias) = true → vals l.src = 1)
    (hsig : ∀ l ∈ ls, ∀ sn sIdx, net.nodes[l.src]? = some sn → lookupId lk sn.id = some sIdx →
      (sn.kind == Kind.bias) = false → sig sIdx = vals l.src) :
    ∃ new, c' = c ++ new ∧ (∀ n ∈ new, n.dst = t) ∧ b'.length = b.length ∧
      (∀ j, j ≠ t → getW b' j = getW b j) ∧
      tFold sig new 0 + getW b' t = getW b t + linkSum vals ls 0 := by
  induction ls generalizing b c with
  | nil =>
    simp only [procIncoming.links, Except.ok.injEq, Prod.mk.injEq] at hrun
    obtain ⟨rfl, rfl⟩ := hrun
    exact ⟨[], by simp, by simp, rfl, fun _ _ => rfl, by simp [tFold, linkSum]⟩
  | cons l ls ih =>
    unfold procIncoming.links at hrun
    cases hn : net.nodes[l.src]? with
    | none => rw [hn] at hrun; simp at hrun
    | some sn =>
      rw [hn] at hrun
      simp only at hrun
      cases hl : lookupId lk sn.id with
      | none => rw [hl] at hrun; simp at hrun
      | some sIdx =>
        rw [hl] at hrun
        simp only at hrun
        have hval' : ∀ l' ∈ ls, ∀ sn, net.nodes[l'.src]? = some sn → (sn.kind == Kind.bias) = true → vals l'.src = 1 :=
          fun l' h' => hval l' (by simp [h'])
        have hsig' : ∀ l' ∈ ls, ∀ sn sIdx, net.nodes[l'.src]? = some sn → lookupId lk sn.id = some sIdx →
            (sn.kind == Kind.bias) = false → sig sIdx = vals l'.src := fun l' h' => hsig l' (by simp [h'])
        by_cases hb : (sn.kind == Kind.bias) = true
        · -- bias link: folded into biases[t]
          simp only [hb, if_true] at hrun
          obtain ⟨new, h1, h2, h3, h4, h5⟩ := ih (b.set t (Scalar.add (getW b t) l.w)) c (by simpa using ht) hrun
            hval' hsig'
          refine ⟨new, h1, h2, by rw [h3]; simp, fun j hj => ?_, ?_⟩
          · rw [h4 j hj, getW_set]
            simp [hj]
          · rw [h5, getW_set]
            simp only [ht, and_self, if_true]
            have hv := hval l (by simp) sn hn hb
            simp only [linkSum, List.foldl_cons]
            have := linkSum_shift vals ls (Scalar.add 0 (Scalar.mul l.w (vals l.src)))
            simp only [linkSum] at this
            rw [this, hv, ExactArith.add_eq, ExactArith.add_eq, ExactArith.mul_eq]
            ring
        · -- ordinary link: one new connection
          have hb' : (sn.kind == Kind.bias) = false := by simpa using hb
          simp only [hb', Bool.false_eq_true, if_false] at hrun
          obtain ⟨new, h1, h2, h3, h4, h5⟩ := ih b (c ++ [{ src := sIdx, dst := t, w := l.w }]) ht hrun hval' hsig'
          refine ⟨{ src := sIdx, dst := t, w := l.w } :: new, by rw [h1]; simp, ?_, h3, h4, ?_⟩
          · intro n hn'
            rcases List.mem_cons.mp hn' with rfl | hn'
            · rfl
            · exact h2 n hn'
          · have hs := hsig l (by simp) sn sIdx hn hl hb'
            simp only [tFold, List.foldl_cons]
            have e1 := tFold_shift sig new (Scalar.add 0 (Scalar.mul (sig sIdx) l.w))
            simp only [tFold] at e1 h5
            rw [e1]
            simp only [linkSum, List.foldl_cons]
            have e2 := linkSum_shift vals ls (Scalar.add 0 (Scalar.mul l.w (vals l.src)))
            simp only [linkSum] at e2 h5
            rw [e2, hs, ExactArith.add_eq, ExactArith.add_eq, ExactArith.mul_eq, ExactArith.mul_eq]
            have h5' : List.foldl (fun a c => Scalar.add a (Scalar.mul (sig c.src) c.w)) 0 new + getW b' t =
                getW b t + List.foldl (fun a l => Scalar.add a (Scalar.mul l.w (vals l.src))) 0 ls := h5
            calc 0 + vals l.src * l.w + List.foldl (fun a c => Scalar.add a (Scalar.mul (sig c.src) c.w)) 0 new + getW b' t
                = vals l.src * l.w + (List.foldl (fun a c => Scalar.add a (Scalar.mul (sig c.src) c.w)) 0 new + getW b' t) := by ring
              _ = vals l.src * l.w + (getW b t + List.foldl (fun a l => Scalar.add a (Scalar.mul l.w (vals l.src))) 0 ls) := by rw [h5']
              _ = getW b t + (0 + l.w * vals l.src + List.foldl (fun a l => Scalar.add a (Scalar.mul l.w (vals l.src))) 0 ls) := by ring

end Exact
end Fast
end GoNeat
