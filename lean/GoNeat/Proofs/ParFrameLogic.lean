/-
  C16(b): a rely/guarantee argument for threads (`Prog`) that share the registry, for EVERY scheduler.

  * `Local`   ghost view of one thread: the bindings `B`/`R` its genomes hold, the numbers / node ids it has drawn from
              the counters and not yet recorded (`pendI`/`pendN`, it OWNS them), the records it has seen or stored (`known`).
  * `PValid bi Post L p`   the thread-local proof obligation of program `p` from view `L`: one rule per registry operation.
              What a thread may ASSUME after an operation is only what survives every interference of the others
              (`SnapOk`: a snapshot's records agree with the thread's own bindings; `FreshI`/`FreshN`: a drawn number is
              new to the thread); what it must GUARANTEE when it stores (`StoreOk`): the record consists of numbers it
              drew itself (never "the next consecutive one"), a split record names a gene it holds.  New bindings enter a
              thread's genomes only as dictated by a record it knows (`JustB`/`JustR`, ghost rules).
  * `GInv`    the global invariant: C03's `InvB` for the registry and the union of all views, ownership of pending
              numbers (pairwise distinct, held by nobody, not recorded, at most the counters).
  * `thread_step`, `sched_sound`   every step of every thread keeps `GInv` and the thread's `PValid`.
-/
import GoNeat.Proofs.ParFrame
import GoNeat.Model.ParEpoch

set_option linter.unusedSectionVars false

namespace GoNeat.C16
open GoNeat GoNeat.C03
variable {W : Type}

/-! ### adding a binding that a record dictates -/

theorem invB_add_bind {reg : Reg W} {B : List Bind} {R : List Role} (h : InvB reg B R) {i : Innov W} {b : Bind}
    (hi : i ∈ reg.records) (hk : b.1 ∈ recInns i) (hagree : ∀ a ∈ B, a.1 = b.1 → a = b) (hself : RecOk (b :: B) R i) :
    InvB reg (b :: B) R := by
  refine ⟨?_, h.roles, ⟨?_, h.compat.innsNodup, h.compat.nodesNodup⟩, ⟨?_, h.above.ids, h.above.recInns, h.above.recNodes⟩⟩
  · intro a ha c hc e
    rcases List.mem_cons.mp ha with rfl | ha' <;> rcases List.mem_cons.mp hc with rfl | hc'
    · rfl
    · exact (hagree c hc' e.symm).symm
    · exact hagree a ha' e
    · exact h.genes a ha' c hc' e
  · intro j hj
    by_cases hij : j = i
    · subst hij; exact hself
    · have := (h.compat.recs j hj).add_foreign [b] []
        (by
          intro c hc hkj
          simp only [List.mem_singleton] at hc
          subst hc
          exact hij (rec_inj h.compat.innsNodup hj hi hkj hk))
        (by simp)
      simpa using this
  · intro c hc
    rcases List.mem_cons.mp hc with rfl | hc'
    · exact h.above.recInns _ (mem_regInns hi hk)
    · exact h.above.inns c hc'

/-- the binding of a recorded link innovation -/
theorem invB_add_link {reg : Reg W} {B : List Bind} {R : List Role} (h : InvB reg B R) {i : Innov W}
    (hi : i ∈ reg.records) (t2 : i.typ = 2) : InvB reg ((i.inn, i.inId, i.outId, i.recur) :: B) R := by
  have hrec := h.compat.recs i hi
  unfold RecOk at hrec
  simp only [t2, if_true] at hrec
  refine invB_add_bind h hi (inn_mem_recInns i) (fun a ha e => hrec a ha e) ?_
  unfold RecOk
  simp only [t2, if_true]
  intro c hc e
  rcases List.mem_cons.mp hc with rfl | hc'
  · rfl
  · exact hrec c hc' e

/-- the first binding (`in → new node`, flag of the split gene) of a recorded node innovation -/
theorem invB_add_split1 {reg : Reg W} {B : List Bind} {R : List Role} (h : InvB reg B R) {i : Innov W}
    (hi : i ∈ reg.records) (t1 : i.typ = 1) {y : Bind} (hy : y ∈ B) (hyo : y.1 = i.oldInn) :
    InvB reg ((i.inn, i.inId, i.newNode, y.2.2.2) :: B) R := by
  have hrec := h.compat.recs i hi
  unfold RecOk at hrec
  simp only [t1, if_true] at hrec
  obtain ⟨⟨y', hy', e1, e2, e3, hall⟩, hb2, hro⟩ := hrec
  have hyy : y = y' := h.genes y hy y' hy' (hyo.trans e1.symm)
  subst hyy
  refine invB_add_bind h hi (inn_mem_recInns i) (fun a ha e => hall a ha e) ?_
  unfold RecOk
  simp only [t1, if_true]
  refine ⟨⟨y, List.mem_cons_of_mem _ hy', e1, e2, e3, ?_⟩, ?_, hro⟩
  · intro c hc e
    rcases List.mem_cons.mp hc with rfl | hc'
    · rfl
    · exact hall c hc' e
  · intro c hc e
    rcases List.mem_cons.mp hc with rfl | hc'
    · exact absurd e (inn_ne_inn2 h.compat.innsNodup hi t1)
    · exact hb2 c hc' e

/-- the second binding (`new node → out`, non-recurrent) of a recorded node innovation -/
theorem invB_add_split2 {reg : Reg W} {B : List Bind} {R : List Role} (h : InvB reg B R) {i : Innov W}
    (hi : i ∈ reg.records) (t1 : i.typ = 1) : InvB reg ((i.inn2, i.newNode, i.outId, false) :: B) R := by
  have hrec := h.compat.recs i hi
  unfold RecOk at hrec
  simp only [t1, if_true] at hrec
  obtain ⟨⟨y', hy', e1, e2, e3, hall⟩, hb2, hro⟩ := hrec
  refine invB_add_bind h hi (inn2_mem_recInns i t1) (fun a ha e => hb2 a ha e) ?_
  unfold RecOk
  simp only [t1, if_true]
  refine ⟨⟨y', List.mem_cons_of_mem _ hy', e1, e2, e3, ?_⟩, ?_, hro⟩
  · intro c hc e
    rcases List.mem_cons.mp hc with rfl | hc'
    · exact absurd e.symm (inn_ne_inn2 h.compat.innsNodup hi t1)
    · exact hall c hc' e
  · intro c hc e
    rcases List.mem_cons.mp hc with rfl | hc'
    · rfl
    · exact hb2 c hc' e

/-- the hidden node of a recorded node innovation -/
theorem invB_add_role {reg : Reg W} {B : List Bind} {R : List Role} (h : InvB reg B R) {i : Innov W}
    (hi : i ∈ reg.records) (t1 : i.typ = 1) : InvB reg B ((i.newNode, Kind.hidden) :: R) := by
  have hrec := h.compat.recs i hi
  unfold RecOk at hrec
  simp only [t1, if_true] at hrec
  obtain ⟨_, _, hro⟩ := hrec
  refine ⟨h.genes, ?_, ⟨?_, h.compat.innsNodup, h.compat.nodesNodup⟩, ⟨h.above.inns, ?_, h.above.recInns, h.above.recNodes⟩⟩
  · intro a ha c hc e
    rcases List.mem_cons.mp ha with rfl | ha' <;> rcases List.mem_cons.mp hc with rfl | hc'
    · rfl
    · exact (hro c hc' e.symm).symm
    · exact hro a ha' e
    · exact h.roles a ha' c hc' e
  · intro j hj
    have := (h.compat.recs j hj).add_foreign [] [(i.newNode, Kind.hidden)] (by simp) (by simp)
    simpa using this
  · intro c hc
    rcases List.mem_cons.mp hc with rfl | hc'
    · exact h.above.recNodes _ (mem_regNodes hi t1)
    · exact h.above.ids c hc'

/-! ### thread views and the thread-local obligations -/

structure Local (W : Type) where
  B : List Bind
  R : List Role
  pendI : List Int
  pendN : List Int
  known : List (Innov W)

/-- what a thread may assume about the records of a snapshot: they agree with the bindings it holds -/
structure SnapOk (bi : Int) (L : Local W) (recs : List (Innov W)) : Prop where
  link : ∀ i ∈ recs, i.typ = 2 → ∀ b ∈ L.B, b.1 = i.inn → b = (i.inn, i.inId, i.outId, i.recur)
  node1 : ∀ i ∈ recs, i.typ = 1 → ∀ b ∈ L.B, b.1 = i.inn → b.2.1 = i.inId ∧ b.2.2.1 = i.newNode
  node2 : ∀ i ∈ recs, i.typ = 1 → ∀ b ∈ L.B, b.1 = i.inn2 → b = (i.inn2, i.newNode, i.outId, false)
  nodeR : ∀ i ∈ recs, i.typ = 1 → ∀ p ∈ L.R, p.1 = i.newNode → p.2 = Kind.hidden
  ne12 : ∀ i ∈ recs, i.typ = 1 → i.inn ≠ i.inn2
  above : ∀ i ∈ recs, ∀ k ∈ recInns i, bi < k

def FreshI (bi : Int) (L : Local W) (n : Int) : Prop := (∀ b ∈ L.B, b.1 < n) ∧ n ∉ L.pendI ∧ bi < n
def FreshN (L : Local W) (n : Int) : Prop := (∀ p ∈ L.R, p.1 ≠ n) ∧ n ∉ L.pendN

/-- what a thread must guarantee when it stores a record: it drew the numbers itself -/
def StoreOk (L : Local W) (i : Innov W) : Prop :=
  (i.typ = 2 ∧ i.inn ∈ L.pendI) ∨
  (i.typ = 1 ∧ i.inn ∈ L.pendI ∧ i.inn2 ∈ L.pendI ∧ i.inn ≠ i.inn2 ∧ i.newNode ∈ L.pendN ∧
    ∃ y ∈ L.B, y.1 = i.oldInn ∧ y.2.1 = i.inId ∧ y.2.2.1 = i.outId)

def Local.afterStore (L : Local W) (i : Innov W) : Local W :=
  { L with pendI := L.pendI.filter (fun n => decide (n ∉ recInns i)),
           pendN := L.pendN.filter (fun n => decide (¬ (i.typ = 1 ∧ n = i.newNode))),
           known := i :: L.known }

def JustB (L : Local W) (b : Bind) : Prop :=
  (∃ i ∈ L.known, i.typ = 2 ∧ b = (i.inn, i.inId, i.outId, i.recur)) ∨
  (∃ i ∈ L.known, i.typ = 1 ∧ ∃ y ∈ L.B, y.1 = i.oldInn ∧ b = (i.inn, i.inId, i.newNode, y.2.2.2)) ∨
  (∃ i ∈ L.known, i.typ = 1 ∧ b = (i.inn2, i.newNode, i.outId, false))

def JustR (L : Local W) (p : Role) : Prop := ∃ i ∈ L.known, i.typ = 1 ∧ p = (i.newNode, Kind.hidden)

inductive PValid {α : Type} (bi : Int) (Post : Local W → α → Prop) : Local W → Prog W α → Prop
  | done {L a} : Post L a → PValid bi Post L (.done a)
  | snap {L k} : (∀ recs, SnapOk bi L recs → PValid bi Post { L with known := recs ++ L.known } (k recs)) → PValid bi Post L (.snap k)
  | nextInn {L k} : (∀ n, FreshI bi L n → PValid bi Post { L with pendI := n :: L.pendI } (k n)) → PValid bi Post L (.nextInn k)
  | nextNode {L k} : (∀ n, FreshN L n → PValid bi Post { L with pendN := n :: L.pendN } (k n)) → PValid bi Post L (.nextNode k)
  | store {L i k} : StoreOk L i → PValid bi Post (L.afterStore i) k → PValid bi Post L (.store i k)
  | ghostB {L b p} : JustB L b → PValid bi Post { L with B := b :: L.B } p → PValid bi Post L p
  | ghostR {L r p} : JustR L r → PValid bi Post { L with R := r :: L.R } p → PValid bi Post L p

/-- sequential composition -/
theorem PValid.bind {α β : Type} {bi : Int} {Post1 : Local W → α → Prop} {Post2 : Local W → β → Prop} {L : Local W} {p : Prog W α}
    {f : α → Prog W β} (h : PValid bi Post1 L p) (hf : ∀ L' a, Post1 L' a → PValid bi Post2 L' (f a)) :
    PValid bi Post2 L (p.bind f) := by
  induction h with
  | done hp => exact hf _ _ hp
  | snap _ ih => exact .snap (fun recs hs => ih recs hs)
  | nextInn _ ih => exact .nextInn (fun n hn => ih n hn)
  | nextNode _ ih => exact .nextNode (fun n hn => ih n hn)
  | store hs _ ih => exact .store hs ih
  | ghostB hj _ ih => exact .ghostB hj ih
  | ghostR hj _ ih => exact .ghostR hj ih

theorem PValid.mono {α : Type} {bi : Int} {Post1 Post2 : Local W → α → Prop} {L : Local W} {p : Prog W α}
    (h : PValid bi Post1 L p) (hm : ∀ L' a, Post1 L' a → Post2 L' a) : PValid bi Post2 L p := by
  induction h with
  | done hp => exact .done (hm _ _ hp)
  | snap _ ih => exact .snap (fun recs hs => ih recs hs)
  | nextInn _ ih => exact .nextInn (fun n hn => ih n hn)
  | nextNode _ ih => exact .nextNode (fun n hn => ih n hn)
  | store hs _ ih => exact .store hs ih
  | ghostB hj _ ih => exact .ghostB hj ih
  | ghostR hj _ ih => exact .ghostR hj ih

end GoNeat.C16
