/-
  C12, fast solver, Kind A: the layer induction for `ForwardSteps` and `Relax`.

  * `NoDupConn`: no (source,target) pair carries two connections.  Then `adjacentMatrix[s][t]` is the weight of THE
    connection s→t and the sum `forwardStep` accumulates for a target (connections into it, connection order) is the
    sum `fvalNode` takes over `reverseAdjacentList` with `adjacentMatrix` weights - same operations, same order
    (`adjSum_tFold`).
  * `forwardStep_full`: one step from ANY state (processing cells possibly dirty), including the `isRelaxed` result.
  * `Lay n s`: the state after `n` clean steps - every neuron of rank ≤ n holds `fvalNode`.
  * `fwdLoop_lay`, `relaxLoop_lay`: the loops of `ForwardSteps` / `Relax` advance the layer invariant by the number
    of steps they execute; `relaxCount` is that number.
-/
import GoNeat.Proofs.FastFF

set_option linter.unusedSectionVars false

namespace GoNeat.Fast
open GoNeat.Solver (Err)

variable {W : Type} [Scalar W]

/-- no node pair is joined twice -/
def NoDupConn (fn : FastNet W) : Prop :=
  fn.conns.Pairwise fun a b => ¬ (a.src = b.src ∧ a.dst = b.dst)

instance (fn : FastNet W) : Decidable (NoDupConn fn) := by unfold NoDupConn; infer_instance

theorem matWAux_none (s t : Nat) (cs : List (FLink W)) (acc : W) (h : ∀ c ∈ cs, ¬ (c.src = s ∧ c.dst = t)) :
    matWAux s t cs acc = acc := by
  induction cs generalizing acc with
  | nil => rfl
  | cons c cs ih =>
    unfold matWAux
    have hc := h c (by simp)
    have : (c.src == s && c.dst == t) = false := by
      cases h1 : (c.src == s && c.dst == t) with
      | false => rfl
      | true =>
        simp only [Bool.and_eq_true, beq_iff_eq] at h1
        exact absurd h1 hc
    rw [this]
    exact ih acc (fun c' h' => h c' (by simp [h']))

theorem matWAux_mem (cs : List (FLink W)) (hp : cs.Pairwise fun a b => ¬ (a.src = b.src ∧ a.dst = b.dst))
    (c : FLink W) (hc : c ∈ cs) (acc : W) : matWAux c.src c.dst cs acc = c.w := by
  induction cs generalizing acc with
  | nil => simp at hc
  | cons d cs ih =>
    obtain ⟨hd, hp'⟩ := List.pairwise_cons.mp hp
    unfold matWAux
    by_cases hin : c ∈ cs
    · exact ih hp' hin _
    · have hcd : c = d := by
        rcases List.mem_cons.mp hc with h | h
        · exact h
        · exact absurd h hin
      subst hcd
      simp only [beq_self_eq_true, Bool.and_self, if_true]
      exact matWAux_none _ _ cs _ (fun c' h' hh => hd c' h' ⟨hh.1.symm, hh.2.symm⟩)

/-- the weight `adjacentMatrix` holds for a connection of a duplicate-free connection list is its own weight -/
theorem matW_conn (fn : FastNet W) (hnd : NoDupConn fn) (c : FLink W) (hc : c ∈ fn.conns) :
    matW fn c.src c.dst = c.w :=
  matWAux_mem fn.conns hnd c hc _

/-- **bridge**: over connections into `i`, the reverse-adjacency sum with matrix weights is the connection-order fold -/
theorem adjSum_tFold (fn : FastNet W) (hnd : NoDupConn fn) (ev : Nat → Option W) (sig : Nat → W) (i : Nat)
    (L : List (FLink W)) (hL : ∀ c ∈ L, c ∈ fn.conns ∧ c.dst = i) (hev : ∀ c ∈ L, ev c.src = some (sig c.src))
    (acc : W) : adjSum fn ev i (L.map (·.src)) acc = some (tFold sig L acc) := by
  induction L generalizing acc with
  | nil => rfl
  | cons c L ih =>
    simp only [List.map_cons]
    unfold adjSum
    rw [hev c (by simp)]
    simp only
    have hw : matW fn c.src i = c.w := by
      have := matW_conn fn hnd c (hL c (by simp)).1
      rw [(hL c (by simp)).2] at this
      exact this
    rw [hw, ih (fun c' h' => hL c' (by simp [h'])) (fun c' h' => hev c' (by simp [h']))]
    simp only [tFold, List.foldl_cons]

/-! ### `isRelaxed` -/

theorem all_congr_mem {α : Type} (l : List α) (f g : α → Bool) (h : ∀ a ∈ l, f a = g a) : l.all f = l.all g := by
  induction l with
  | nil => rfl
  | cons a l ih =>
    simp only [List.all_cons]
    rw [h a (by simp), ih (fun a' h' => h a' (by simp [h']))]

/-- the difference test of the third loop -/
def relaxedAt (delta : W) (old new : Nat → W) (i : Nat) : Bool :=
  !(Scalar.lt delta (Scalar.abs (Scalar.sub (old i) (new i))))

theorem moveLoop_res (delta : W) (check : Bool) (is : List Nat) :
    ∀ (sig p : List W) (r : Bool), is.Nodup →
      (moveLoop delta check is sig p r).2.2 =
        (r && (!check || is.all (relaxedAt delta (getW sig) (getW p)))) := by
  induction is with
  | nil => intro sig p r _; simp [moveLoop]
  | cons i is ih =>
    intro sig p r hnd
    have hnd' := List.nodup_cons.mp hnd
    unfold moveLoop
    simp only
    rw [ih _ _ _ hnd'.2]
    have hc : is.all (relaxedAt delta (getW (sig.set i (getW p i))) (getW (p.set i Scalar.zero))) =
        is.all (relaxedAt delta (getW sig) (getW p)) := by
      apply all_congr_mem
      intro a ha
      have hne : ¬ (a = i ∧ i < sig.length) := fun h => hnd'.1 (h.1 ▸ ha)
      have hne' : ¬ (a = i ∧ i < p.length) := fun h => hnd'.1 (h.1 ▸ ha)
      simp only [relaxedAt, getW_set, hne, hne', if_false]
    rw [hc]
    simp only [List.all_cons, relaxedAt]
    cases check <;> cases r <;> simp

/-- **One forward step from any state (Kind A).**  No error; array lengths kept; sensor signals kept; every neuron
    `i` becomes activation(processing[i] + Σ_{connections into i} signal·weight (+ bias)); neurons' processing cells
    are 0 afterwards; the result is `true` for `delta ≤ 0`, otherwise "no neuron moved by more than `delta`". -/
theorem forwardStep_full (fn : FastNet W) (σ : Nat → W → Option W) (delta : W) (s : FState W)
    (hS : s.signals.length = fn.nTotal) (hP : s.processing.length = fn.nTotal)
    (hσ : ∀ i, fn.nSensor ≤ i → i < fn.nTotal → ∀ x, (σ (fn.acts.getD i 0) x).isSome = true) :
    (forwardStep fn σ delta s).2.2 = none ∧
      (forwardStep fn σ delta s).1.signals.length = fn.nTotal ∧
      (forwardStep fn σ delta s).1.processing.length = fn.nTotal ∧
      (∀ j, j < fn.nSensor → getW (forwardStep fn σ delta s).1.signals j = getW s.signals j) ∧
      (∀ i, fn.nSensor ≤ i → i < fn.nTotal →
        σ (fn.acts.getD i 0) (biased fn i (tFold (getW s.signals) (fn.conns.filter fun c => c.dst == i)
            (getW s.processing i))) = some (getW (forwardStep fn σ delta s).1.signals i) ∧
        getW (forwardStep fn σ delta s).1.processing i = Scalar.zero) ∧
      (forwardStep fn σ delta s).2.1 =
        (Scalar.le delta Scalar.zero ||
          (neuronIdx fn).all (relaxedAt delta (getW s.signals) (getW (forwardStep fn σ delta s).1.signals))) := by
  unfold forwardStep
  simp only
  have hlen1 : (connLoop s.signals fn.conns s.processing).length = fn.nTotal := by rw [length_connLoop, hP]
  obtain ⟨a1, a2, a3, a4⟩ := actLoop_spec fn σ (neuronIdx fn) (connLoop s.signals fn.conns s.processing)
    (neuronIdx_nodup fn) (fun i hi => by
      rw [mem_neuronIdx] at hi
      exact ⟨by rw [hlen1]; exact hi.2, hσ i hi.1 hi.2⟩)
  rcases hact : actLoop fn σ (neuronIdx fn) (connLoop s.signals fn.conns s.processing) with ⟨p2, e⟩
  rw [hact] at a1 a2 a3 a4
  simp only at a1 a2 a3 a4
  subst a1
  simp only
  have hall : ∀ i ∈ neuronIdx fn, i < s.signals.length ∧ i < p2.length := by
    intro i hi
    rw [mem_neuronIdx] at hi
    rw [hS, a2, hlen1]
    exact ⟨hi.2, hi.2⟩
  obtain ⟨m1, _⟩ := moveLoop_spec delta (!(Scalar.le delta Scalar.zero)) (neuronIdx fn) s.signals p2 true
    (neuronIdx_nodup fn) hall
  have mp := moveLoop_props delta (!(Scalar.le delta Scalar.zero)) (neuronIdx fn) s.signals p2 true
  have mr := moveLoop_res delta (!(Scalar.le delta Scalar.zero)) (neuronIdx fn) s.signals p2 true (neuronIdx_nodup fn)
  refine ⟨trivial, by rw [mp.1, hS], by rw [mp.2.1, a2, hlen1], fun j hj => ?_, fun i hi hit => ?_, ?_⟩
  · exact mp.2.2 j (fun h => by rw [mem_neuronIdx] at h; omega)
  · have hmem : i ∈ neuronIdx fn := (mem_neuronIdx fn i).mpr ⟨hi, hit⟩
    obtain ⟨m1a, m1b⟩ := m1 i hmem
    refine ⟨?_, m1b⟩
    rw [m1a, ← a4 i hmem, connLoop_cell _ _ _ _ (by rw [hP]; exact hit)]
  · rw [mr]
    simp only [Bool.true_and, Bool.not_not]
    congr 1
    apply all_congr_mem
    intro i hi
    simp only [relaxedAt]
    rw [(m1 i hi).1]

/-! ### the layer invariant -/

/-- `Lay n s`: arrays have the right length, the neurons' processing cells are clean, the sensors hold `sig`, and
    every neuron of rank ≤ n holds its feed-forward value -/
structure Lay (fn : FastNet W) (σ : Nat → W → Option W) (sig : Nat → W) (lvl : Nat → Nat) (n : Nat) (s : FState W) :
    Prop where
  lenS : s.signals.length = fn.nTotal
  lenP : s.processing.length = fn.nTotal
  clean : ∀ i, fn.nSensor ≤ i → i < fn.nTotal → getW s.processing i = Scalar.zero
  sens : ∀ j, j < fn.nSensor → getW s.signals j = sig j
  val : ∀ i, fn.nSensor ≤ i → i < fn.nTotal → lvl i ≤ n → fvalNode fn σ sig (lvl i + 1) i = some (getW s.signals i)

theorem Lay.mono {fn : FastNet W} {σ : Nat → W → Option W} {sig : Nat → W} {lvl : Nat → Nat} {n m : Nat} {s : FState W}
    (h : Lay fn σ sig lvl n s) (hm : m ≤ n) : Lay fn σ sig lvl m s :=
  ⟨h.lenS, h.lenP, h.clean, h.sens, fun i a b c => h.val i a b (by omega)⟩

/-- hypotheses on the fast network shared by the layer lemmas -/
structure FFAll (fn : FastNet W) (σ : Nat → W → Option W) (lvl : Nat → Nat) : Prop where
  ff : FFFast fn lvl
  nd : NoDupConn fn
  pos : ∀ i, fn.nSensor ≤ i → i < fn.nTotal → 1 ≤ lvl i
  tot : ∀ i, fn.nSensor ≤ i → i < fn.nTotal → ∀ x, (σ (fn.acts.getD i 0) x).isSome = true

/-- the value a clean step gives neuron `i` when all its sources hold their feed-forward values -/
theorem step_val (fn : FastNet W) (σ : Nat → W → Option W) (sig : Nat → W) (lvl : Nat → Nat) (h : FFAll fn σ lvl)
    (old : Nat → W) (hsens : ∀ j, j < fn.nSensor → old j = sig j) (n : Nat)
    (hval : ∀ a, fn.nSensor ≤ a → a < fn.nTotal → lvl a ≤ n → fvalNode fn σ sig (lvl a + 1) a = some (old a))
    (i : Nat) (hi : fn.nSensor ≤ i) (hl : lvl i ≤ n + 1) :
    fvalNode fn σ sig (lvl i + 1) i =
      σ (fn.acts.getD i 0) (biased fn i (tFold old (fn.conns.filter fun c => c.dst == i) Scalar.zero)) := by
  have hns : ¬ i < fn.nSensor := by omega
  have hb : adjSum fn (fvalNode fn σ sig (lvl i)) i (revAdj fn i) Scalar.zero =
      some (tFold old (fn.conns.filter fun c => c.dst == i) Scalar.zero) := by
    unfold revAdj
    refine adjSum_tFold fn h.nd _ old i _ (fun c hc => ?_) (fun c hc => ?_) _
    · simp only [List.mem_filter, beq_iff_eq] at hc
      exact hc
    · simp only [List.mem_filter, beq_iff_eq] at hc
      obtain ⟨hlt, hct⟩ := h.ff.conn c hc.1
      rw [hc.2] at hlt
      by_cases hcs : c.src < fn.nSensor
      · have : lvl i = (lvl i - 1) + 1 := by omega
        rw [this]
        unfold fvalNode
        simp only [hcs, if_true]
        rw [hsens _ hcs]
      · have := hval c.src (by omega) hct (by omega)
        exact fvalNode_mono_le fn σ sig _ _ (by omega) _ _ this
  conv => lhs; unfold fvalNode
  simp only [hns, if_false, hb, biased]

theorem forwardStep_lay (fn : FastNet W) (σ : Nat → W → Option W) (sig : Nat → W) (lvl : Nat → Nat)
    (h : FFAll fn σ lvl) (delta : W) (n : Nat) (s : FState W) (hL : Lay fn σ sig lvl n s) :
    (forwardStep fn σ delta s).2.2 = none ∧ Lay fn σ sig lvl (n + 1) (forwardStep fn σ delta s).1 := by
  obtain ⟨f1, f2, f3, f4, f5, _⟩ := forwardStep_full fn σ delta s hL.lenS hL.lenP h.tot
  refine ⟨f1, f2, f3, fun i a b => (f5 i a b).2, fun j hj => by rw [f4 j hj, hL.sens j hj], fun i hi hit hl => ?_⟩
  have := (f5 i hi hit).1
  rw [hL.clean i hi hit] at this
  rw [← this]
  exact step_val fn σ sig lvl h (getW s.signals) hL.sens n hL.val i hi hl

/-- a step from a state in which every neuron already holds its value reports "relaxed" (for `delta > 0`: provided
    `delta < |v - v|` is false for the values `v` of the neurons) -/
theorem forwardStep_relaxed (fn : FastNet W) (σ : Nat → W → Option W) (sig : Nat → W) (lvl : Nat → Nat)
    (h : FFAll fn σ lvl) (delta : W) (n : Nat) (s : FState W) (hL : Lay fn σ sig lvl n s)
    (hD : ∀ i, fn.nSensor ≤ i → i < fn.nTotal → lvl i ≤ n)
    (hδ : ∀ i, fn.nSensor ≤ i → i < fn.nTotal → ∀ v, fvalNode fn σ sig (lvl i + 1) i = some v →
      Scalar.lt delta (Scalar.abs (Scalar.sub v v)) = false) :
    (forwardStep fn σ delta s).2.1 = true := by
  obtain ⟨_, _, _, _, _, f6⟩ := forwardStep_full fn σ delta s hL.lenS hL.lenP h.tot
  have hL' := (forwardStep_lay fn σ sig lvl h delta n s hL).2
  rw [f6]
  simp only [Bool.or_eq_true, List.all_eq_true]
  right
  intro i hi
  rw [mem_neuronIdx] at hi
  have h1 := hL.val i hi.1 hi.2 (hD i hi.1 hi.2)
  have h2 := hL'.val i hi.1 hi.2 (by have := hD i hi.1 hi.2; omega)
  rw [h1] at h2
  simp only [Option.some.injEq] at h2
  simp only [relaxedAt, ← h2, hδ i hi.1 hi.2 _ h1, Bool.not_false]

/-! ### `ForwardSteps` -/

theorem fwdLoop_lay (fn : FastNet W) (σ : Nat → W → Option W) (sig : Nat → W) (lvl : Nat → Nat) (h : FFAll fn σ lvl)
    (k : Nat) : ∀ (n : Nat) (res : Bool) (s : FState W), Lay fn σ sig lvl n s →
      (fwdLoop fn σ k res s).2.2 = none ∧ Lay fn σ sig lvl (n + k) (fwdLoop fn σ k res s).1 ∧
      (Scalar.le (Scalar.zero : W) Scalar.zero = true → 1 ≤ k → (fwdLoop fn σ k res s).2.1 = true) := by
  induction k with
  | zero => intro n res s hL; exact ⟨rfl, hL, fun _ h0 => by omega⟩
  | succ k ih =>
    intro n res s hL
    obtain ⟨e1, hL1⟩ := forwardStep_lay fn σ sig lvl h Scalar.zero n s hL
    obtain ⟨_, _, _, _, _, f6⟩ := forwardStep_full fn σ Scalar.zero s hL.lenS hL.lenP h.tot
    unfold fwdLoop
    rcases hs : forwardStep fn σ Scalar.zero s with ⟨s', r, e⟩
    rw [hs] at e1 hL1 f6
    simp only at e1 hL1 f6
    subst e1
    simp only
    obtain ⟨i1, i2, i3⟩ := ih (n + 1) r s' hL1
    refine ⟨i1, by rw [show n + (k + 1) = n + 1 + k by omega]; exact i2, fun hle _ => ?_⟩
    by_cases hk : 1 ≤ k
    · exact i3 hle hk
    · have : k = 0 := by omega
      subst this
      simp only [fwdLoop]
      rw [f6, hle]
      rfl

/-! ### `Relax` -/

/-- number of forward steps `relaxLoop` executes -/
def relaxCount (fn : FastNet W) (σ : Nat → W → Option W) (delta : W) : Nat → FState W → Nat
  | 0, _ => 0
  | k + 1, s =>
    match forwardStep fn σ delta s with
    | (_, _, some _) => 1
    | (_, true, none) => 1
    | (s', false, none) => 1 + relaxCount fn σ delta k s'

theorem relaxCount_le (fn : FastNet W) (σ : Nat → W → Option W) (delta : W) (k : Nat) (s : FState W) :
    relaxCount fn σ delta k s ≤ k := by
  induction k generalizing s with
  | zero => simp [relaxCount]
  | succ k ih =>
    unfold relaxCount
    rcases hs : forwardStep fn σ delta s with ⟨s', r, e⟩
    cases e with
    | some e => simp
    | none =>
      cases r with
      | true => simp
      | false => simp only; have := ih s'; omega

/-- `Relax` advances the layer invariant by the number of steps it executes; it reports `true` unless it used up
    all `k` steps -/
theorem relaxLoop_lay (fn : FastNet W) (σ : Nat → W → Option W) (sig : Nat → W) (lvl : Nat → Nat) (h : FFAll fn σ lvl)
    (delta : W) (k : Nat) : ∀ (n : Nat) (res : Bool) (s : FState W), Lay fn σ sig lvl n s →
      (relaxLoop fn σ delta k res s).2.2 = none ∧
      Lay fn σ sig lvl (n + relaxCount fn σ delta k s) (relaxLoop fn σ delta k res s).1 ∧
      ((relaxLoop fn σ delta k res s).2.1 = false → relaxCount fn σ delta k s = k) ∧
      (1 ≤ k → 1 ≤ relaxCount fn σ delta k s) := by
  induction k with
  | zero => intro n res s hL; exact ⟨rfl, hL, fun _ => rfl, fun h0 => by omega⟩
  | succ k ih =>
    intro n res s hL
    obtain ⟨e1, hL1⟩ := forwardStep_lay fn σ sig lvl h delta n s hL
    unfold relaxLoop relaxCount
    rcases hs : forwardStep fn σ delta s with ⟨s', r, e⟩
    rw [hs] at e1 hL1
    simp only at e1 hL1
    subst e1
    cases r with
    | true => exact ⟨rfl, hL1, fun hf => by simp at hf, fun _ => Nat.le_refl 1⟩
    | false =>
      simp only
      obtain ⟨i1, i2, i3, _⟩ := ih (n + 1) false s' hL1
      refine ⟨i1, ?_, fun hf => by have := i3 hf; omega, fun _ => by omega⟩
      rw [show n + (1 + relaxCount fn σ delta k s') = n + 1 + relaxCount fn σ delta k s' by omega]
      exact i2

/-- with `delta > 0` (and `delta < |v - v|` false on the neurons' values) `Relax` stops one step after every neuron
    holds its value: from a state after `n` clean steps it executes at most `(D - n) + 1` steps, `D` = largest rank,
    and reports `true` when it was allowed that many -/
theorem relaxLoop_stops (fn : FastNet W) (σ : Nat → W → Option W) (sig : Nat → W) (lvl : Nat → Nat) (h : FFAll fn σ lvl)
    (delta : W) (D : Nat) (hD : ∀ i, fn.nSensor ≤ i → i < fn.nTotal → lvl i ≤ D)
    (hδ : ∀ i, fn.nSensor ≤ i → i < fn.nTotal → ∀ v, fvalNode fn σ sig (lvl i + 1) i = some v →
      Scalar.lt delta (Scalar.abs (Scalar.sub v v)) = false)
    (k : Nat) : ∀ (n : Nat) (res : Bool) (s : FState W), Lay fn σ sig lvl n s →
      relaxCount fn σ delta k s ≤ (D - n) + 1 ∧
      ((D - n) + 1 ≤ k → (relaxLoop fn σ delta k res s).2.1 = true) := by
  induction k with
  | zero => intro n res s _; exact ⟨by simp [relaxCount], fun h0 => by omega⟩
  | succ k ih =>
    intro n res s hL
    obtain ⟨e1, hL1⟩ := forwardStep_lay fn σ sig lvl h delta n s hL
    have hrel : D ≤ n → (forwardStep fn σ delta s).2.1 = true := fun hn =>
      forwardStep_relaxed fn σ sig lvl h delta n s hL (fun i a b => by have := hD i a b; omega) hδ
    unfold relaxLoop relaxCount
    rcases hs : forwardStep fn σ delta s with ⟨s', r, e⟩
    rw [hs] at e1 hL1 hrel
    simp only at e1 hL1 hrel
    subst e1
    cases r with
    | true => exact ⟨by simp, fun _ => rfl⟩
    | false =>
      simp only
      have hn : n < D := by
        rcases Nat.lt_or_ge n D with h' | h'
        · exact h'
        · have := hrel h'; simp at this
      obtain ⟨i1, i2⟩ := ih (n + 1) false s' hL1
      exact ⟨by omega, fun hk => i2 (by omega)⟩

/-- `delta ≤ 0`: exactly one step, result `true` -/
theorem relaxLoop_nonpos (fn : FastNet W) (σ : Nat → W → Option W) (delta : W) (s : FState W)
    (hS : s.signals.length = fn.nTotal) (hP : s.processing.length = fn.nTotal)
    (hσ : ∀ i, fn.nSensor ≤ i → i < fn.nTotal → ∀ x, (σ (fn.acts.getD i 0) x).isSome = true)
    (hle : Scalar.le delta Scalar.zero = true) (k : Nat) (res : Bool) :
    relaxLoop fn σ delta (k + 1) res s = ((forwardStep fn σ delta s).1, true, none) := by
  obtain ⟨f1, _, _, _, _, f6⟩ := forwardStep_full fn σ delta s hS hP hσ
  rw [hle, Bool.true_or] at f6
  unfold relaxLoop
  rcases hs : forwardStep fn σ delta s with ⟨s', r, e⟩
  rw [hs] at f1 f6
  simp only at f1 f6
  subst f1 f6
  rfl

/-! ### `relaxCount` is the number of forward steps: the state `Relax` leaves is the state of `ForwardSteps(relaxCount)` -/

theorem moveLoop_indep (d d' : W) (ck ck' : Bool) (is : List Nat) :
    ∀ (sig p : List W) (r r' : Bool),
      (moveLoop d ck is sig p r).1 = (moveLoop d' ck' is sig p r').1 ∧
      (moveLoop d ck is sig p r).2.1 = (moveLoop d' ck' is sig p r').2.1 := by
  induction is with
  | nil => intro sig p r r'; exact ⟨rfl, rfl⟩
  | cons i is ih =>
    intro sig p r r'
    unfold moveLoop
    exact ih _ _ _ _

/-- the state and the error of a forward step do not depend on `delta` -/
theorem forwardStep_indep (fn : FastNet W) (σ : Nat → W → Option W) (d d' : W) (s : FState W) :
    (forwardStep fn σ d s).1 = (forwardStep fn σ d' s).1 ∧ (forwardStep fn σ d s).2.2 = (forwardStep fn σ d' s).2.2 := by
  unfold forwardStep
  simp only
  rcases actLoop fn σ (neuronIdx fn) (connLoop s.signals fn.conns s.processing) with ⟨p2, e⟩
  cases e with
  | some e => exact ⟨rfl, rfl⟩
  | none =>
    simp only
    obtain ⟨h1, h2⟩ := moveLoop_indep d d' (!(Scalar.le d Scalar.zero)) (!(Scalar.le d' Scalar.zero)) (neuronIdx fn)
      s.signals p2 true true
    exact ⟨by rw [h1, h2], trivial⟩

theorem relaxLoop_state (fn : FastNet W) (σ : Nat → W → Option W) (delta : W) (k : Nat) :
    ∀ (res res' : Bool) (s : FState W),
      (relaxLoop fn σ delta k res s).1 = (fwdLoop fn σ (relaxCount fn σ delta k s) res' s).1 ∧
      (relaxLoop fn σ delta k res s).2.2 = (fwdLoop fn σ (relaxCount fn σ delta k s) res' s).2.2 := by
  induction k with
  | zero => intro res res' s; exact ⟨rfl, rfl⟩
  | succ k ih =>
    intro res res' s
    obtain ⟨i1, i2⟩ := forwardStep_indep fn σ delta Scalar.zero s
    unfold relaxLoop relaxCount
    rcases hs : forwardStep fn σ delta s with ⟨s', r, e⟩
    rw [hs] at i1 i2
    simp only at i1 i2
    cases e with
    | some e =>
      simp only
      unfold fwdLoop
      rcases hs0 : forwardStep fn σ Scalar.zero s with ⟨s0, r0, e0⟩
      rw [hs0] at i1 i2
      simp only at i1 i2
      subst i1 i2
      exact ⟨rfl, rfl⟩
    | none =>
      cases r with
      | true =>
        simp only
        unfold fwdLoop
        rcases hs0 : forwardStep fn σ Scalar.zero s with ⟨s0, r0, e0⟩
        rw [hs0] at i1 i2
        simp only at i1 i2
        subst i1 i2
        exact ⟨rfl, rfl⟩
      | false =>
        simp only
        rw [show 1 + relaxCount fn σ delta k s' = relaxCount fn σ delta k s' + 1 by omega]
        conv => rhs; unfold fwdLoop
        conv => lhs; rhs; unfold fwdLoop
        rcases hs0 : forwardStep fn σ Scalar.zero s with ⟨s0, r0, e0⟩
        rw [hs0] at i1 i2
        simp only at i1 i2
        subst i1 i2
        exact ih false r0 s'

end GoNeat.Fast
