/-
  Helper lemmas for C11, graph-view part: on ANY network that `expresses` a well-formed genome the queries of
  network_graph.go answer what the genome-level specification (Spec/Genesis.lean) says.  Core Lean only.
-/
import GoNeat.Spec.Genesis

set_option linter.unusedSectionVars false

namespace GoNeat.Genesis

variable {W : Type}

theorem any_eq_isSome_find {α} (p : α → Bool) (l : List α) : l.any p = (l.find? p).isSome := by
  induction l with
  | nil => rfl
  | cons a l ih =>
    simp only [List.any_cons, List.find?_cons]
    cases p a <;> simp [ih]

/-! ### the first loop of `edgeBetween` -/

theorem scanUV_spec (uid vid : Int) (l : List (NNodeS W)) :
    ∀ (u0 v0 : Option (NNodeS W)), (l.map (·.id)).Nodup →
      (u0.isSome → ∀ nd ∈ l, nd.id ≠ uid) → (v0.isSome → ∀ nd ∈ l, nd.id ≠ vid) →
      scanUV uid vid l u0 v0 = (u0.or (l.find? (·.id == uid)), v0.or (l.find? (·.id == vid))) := by
  induction l with
  | nil => intro u0 v0 _ _ _; simp [scanUV]
  | cons nd rest ih =>
    intro u0 v0 hnd hu hv
    rw [List.map_cons, List.nodup_cons] at hnd
    have hnd' := hnd.2
    have hfresh : ∀ x ∈ rest, x.id ≠ nd.id := by
      intro x hx heq
      exact hnd.1 (heq ▸ List.mem_map.mpr ⟨x, hx, rfl⟩)
    have hu' : u0.isSome → ∀ x ∈ rest, x.id ≠ uid := fun h x hx => hu h x (by simp [hx])
    have hv' : v0.isSome → ∀ x ∈ rest, x.id ≠ vid := fun h x hx => hv h x (by simp [hx])
    unfold scanUV
    by_cases hU : nd.id = uid
    · have hu0 : u0 = none := by
        cases u0 with
        | none => rfl
        | some a => exact absurd hU (hu rfl nd (by simp))
      have hUb : (nd.id == uid) = true := by simpa using hU
      have hrestU : ∀ x ∈ rest, x.id ≠ uid := fun x hx => hU ▸ hfresh x hx
      by_cases hV : nd.id = vid
      · have hv0 : v0 = none := by
          cases v0 with
          | none => rfl
          | some a => exact absurd hV (hv rfl nd (by simp))
        have hVb : (nd.id == vid) = true := by simpa using hV
        subst hu0 hv0
        simp [hUb, hVb]
      · have hVb : (nd.id == vid) = false := by simpa using hV
        subst hu0
        cases v0 with
        | some b => simp [hUb, hVb]
        | none =>
          simp only [hUb, hVb, ↓reduceIte, Bool.false_eq_true, Option.isSome_some, Option.isSome_none, Bool.and_false]
          rw [ih (some nd) none hnd' (fun _ => hrestU) (fun h => by simp at h)]
          simp [hUb, hVb]
    · have hUb : (nd.id == uid) = false := by simpa using hU
      by_cases hV : nd.id = vid
      · have hv0 : v0 = none := by
          cases v0 with
          | none => rfl
          | some a => exact absurd hV (hv rfl nd (by simp))
        have hVb : (nd.id == vid) = true := by simpa using hV
        have hrestV : ∀ x ∈ rest, x.id ≠ vid := fun x hx => hV ▸ hfresh x hx
        subst hv0
        cases u0 with
        | some a => simp [hUb, hVb]
        | none =>
          simp only [hUb, hVb, ↓reduceIte, Bool.false_eq_true, Option.isSome_some, Option.isSome_none, Bool.false_and]
          rw [ih none (some nd) hnd' (fun h => by simp at h) (fun _ => hrestV)]
          simp [hUb, hVb]
      · have hVb : (nd.id == vid) = false := by simpa using hV
        simp only [hUb, hVb, Bool.false_eq_true, ↓reduceIte]
        cases u0 with
        | none =>
          simp only [Option.isSome_none, Bool.false_and, Bool.false_eq_true, ↓reduceIte]
          rw [ih none v0 hnd' hu' hv']
          simp [hUb, hVb]
        | some a =>
          cases v0 with
          | none =>
            simp only [Option.isSome_none, Bool.and_false, Bool.false_eq_true, ↓reduceIte]
            rw [ih (some a) none hnd' hu' hv']
            simp [hUb, hVb]
          | some b => simp

theorem scanUV_top (uid vid : Int) (l : List (NNodeS W)) (h : (l.map (·.id)).Nodup) :
    scanUV uid vid l none none = (l.find? (·.id == uid), l.find? (·.id == vid)) := by
  rw [scanUV_spec uid vid l none none h (fun h => by simp at h) (fun h => by simp at h)]
  simp

/-! ### what the Bool predicates say -/

section
variable [DecidableEq W]

/-- `expresses`, as propositions -/
structure Expressed (g : Genome W) (netId : Int) (net : Net W) : Prop where
  id : net.id = netId
  triples : nodeTriples net.nodes = g.nodes.map fun n => (n.id, n.kind, n.act)
  inputs : net.inputs = positions (fun n => n.kind == Kind.input || n.kind == Kind.bias) g.nodes 0
  outputs : net.outputs = positions (fun n => n.kind == Kind.output) g.nodes 0
  links : ∀ nd ∈ net.nodes, nd.incoming.map (elink net) = linksInto g nd.id ∧ nd.outgoing.map (elink net) = linksOutOf g nd.id
  ctrlTriples : nodeTriples net.ctrl = (enabledMods g).map fun m => (m.ctrl.id, m.ctrl.kind, m.ctrl.act)
  ctrlLinks : ∀ p ∈ net.ctrl.zip (enabledMods g),
    p.1.incoming.map (elink net) = modIns p.2 ∧ p.1.outgoing.map (elink net) = modOuts p.2

theorem expressed_iff (g : Genome W) (netId : Int) (net : Net W) :
    expresses g netId net = true ↔ Expressed g netId net := by
  unfold expresses
  simp only [Bool.and_eq_true, beq_iff_eq, List.all_eq_true]
  constructor
  · rintro ⟨⟨⟨⟨⟨⟨h1, h2⟩, h3⟩, h4⟩, h5⟩, h6⟩, h7⟩
    exact ⟨h1, h2, h3, h4, h5, h6, h7⟩
  · rintro ⟨h1, h2, h3, h4, h5, h6, h7⟩
    exact ⟨⟨⟨⟨⟨⟨h1, h2⟩, h3⟩, h4⟩, h5⟩, h6⟩, h7⟩

end

/-- `GenomeOk`, as propositions -/
structure Ok (g : Genome W) : Prop where
  nodup : (nodeIds' g ++ g.modules.map (·.ctrl.id)).Nodup
  genes : ∀ x ∈ g.genes, x.src ∈ nodeIds' g ∧ x.dst ∈ nodeIds' g
  wires : ∀ m ∈ g.modules, (∀ w ∈ m.ins, w.node ∈ nodeIds' g) ∧ (∀ w ∈ m.outs, w.node ∈ nodeIds' g)

theorem ok_iff (g : Genome W) : GenomeOk g = true ↔ Ok g := by
  unfold GenomeOk
  simp only [Bool.and_eq_true, decide_eq_true_eq, List.all_eq_true, List.contains_iff_mem]
  constructor
  · rintro ⟨⟨h1, h2⟩, h3⟩
    exact ⟨h1, h2, h3⟩
  · rintro ⟨h1, h2, h3⟩
    exact ⟨⟨h1, h2⟩, h3⟩

theorem Ok.nodupNodes {g : Genome W} (h : Ok g) : (nodeIds' g).Nodup := (List.nodup_append.mp h.nodup).1

theorem map_fst_triples (l : List (NNodeS W)) : (nodeTriples l).map (·.1) = l.map (·.id) := by
  unfold nodeTriples; simp

section
variable [DecidableEq W]

theorem Expressed.ids {g : Genome W} {netId : Int} {net : Net W} (h : Expressed g netId net) :
    net.nodes.map (·.id) = nodeIds' g := by
  rw [← map_fst_triples, h.triples]
  unfold nodeIds'; simp

/-! ### edges on ids -/

/-- all expressed gene links, in gene order -/
def EG (g : Genome W) : List (ELink W) := (enabledGenes g).map elinkOfGene

theorem linksInto_eq (g : Genome W) (v : Int) : linksInto g v = (EG g).filter fun e => e.dst == some v := by
  unfold linksInto EG
  rw [List.filter_map]
  congr 1

theorem linksOutOf_eq (g : Genome W) (u : Int) : linksOutOf g u = (EG g).filter fun e => e.src == some u := by
  unfold linksOutOf EG
  rw [List.filter_map]
  congr 1

theorem dirEdges_nomod {g : Genome W} (hm : enabledMods g = []) : dirEdges g = EG g := by
  unfold dirEdges EG; simp [hm]

theorem find_into (g : Genome W) (u v : Int) :
    (linksInto g v).find? (fun e => e.src == some u) = (EG g).find? fun e => e.src == some u && e.dst == some v := by
  rw [linksInto_eq, List.find?_filter]
  congr 1
  funext e
  cases (e.dst == some v) <;> cases (e.src == some u) <;> rfl

theorem find_outOf (g : Genome W) (u v : Int) :
    (linksOutOf g u).find? (fun e => e.dst == some v) = (EG g).find? fun e => e.src == some u && e.dst == some v := by
  rw [linksOutOf_eq, List.find?_filter]
  congr 1
  funext e
  cases (e.dst == some v) <;> cases (e.src == some u) <;> rfl

/-- no expressed gene link starts (ends) at an id that is not a node id -/
theorem EG_src_mem {g : Genome W} (hok : Ok g) {e : ELink W} (he : e ∈ EG g) :
    ∃ a b, e.src = some a ∧ e.dst = some b ∧ a ∈ nodeIds' g ∧ b ∈ nodeIds' g := by
  unfold EG at he
  obtain ⟨x, hx, rfl⟩ := List.mem_map.mp he
  have hx' : x ∈ g.genes := (List.mem_filter.mp hx).1
  exact ⟨x.src, x.dst, rfl, rfl, (hok.genes x hx').1, (hok.genes x hx').2⟩

theorem EG_find_none_of_absent {g : Genome W} (hok : Ok g) {u v : Int} (h : u ∉ nodeIds' g ∨ v ∉ nodeIds' g) :
    (EG g).find? (fun e => e.src == some u && e.dst == some v) = none := by
  rw [List.find?_eq_none]
  intro e he hp
  obtain ⟨a, b, ha, hb, hma, hmb⟩ := EG_src_mem hok he
  simp only [ha, hb, Bool.and_eq_true, beq_iff_eq, Option.some.injEq] at hp
  rcases h with h | h
  · exact h (hp.1 ▸ hma)
  · exact h (hp.2 ▸ hmb)

/-! ### `edgeBetween` on a network that expresses a genome without enabled modules -/

theorem find_node {net : Net W} {u : Int} {nd : NNodeS W} (h : net.nodes.find? (·.id == u) = some nd) :
    nd ∈ net.nodes ∧ nd.id = u :=
  ⟨List.mem_of_find?_eq_some h, by simpa using List.find?_some h⟩

theorem find_node_none {g : Genome W} {netId : Int} {net : Net W} (hx : Expressed g netId net) {u : Int}
    (h : net.nodes.find? (·.id == u) = none) : u ∉ nodeIds' g := by
  rw [← hx.ids]
  intro hm
  obtain ⟨nd, hnd, hid⟩ := List.mem_map.mp hm
  have := List.find?_eq_none.mp h nd hnd
  simp [hid] at this

theorem ctrl_nil {g : Genome W} {netId : Int} {net : Net W} (hx : Expressed g netId net) (hm : enabledMods g = []) :
    net.ctrl = [] := by
  have := hx.ctrlTriples
  rw [hm] at this
  unfold nodeTriples at this
  simpa using this

/-- the P of the specification -/
def edgeP (u v : Int) : ELink W → Bool := fun e => e.src == some u && e.dst == some v

theorem incoming_find {g : Genome W} {netId : Int} {net : Net W} (hx : Expressed g netId net) {vN : NNodeS W}
    (hv : vN ∈ net.nodes) (u : Int) :
    (vN.incoming.find? fun l => idAt net l.src == some u).map (elink net) = (EG g).find? (edgeP u vN.id) := by
  have h1 : (vN.incoming.map (elink net)).find? (fun e => e.src == some u) =
      (vN.incoming.find? fun l => idAt net l.src == some u).map (elink net) := by
    rw [List.find?_map]; rfl
  rw [← h1, (hx.links vN hv).1, find_into]; rfl

theorem outgoing_find {g : Genome W} {netId : Int} {net : Net W} (hx : Expressed g netId net) {uN : NNodeS W}
    (hu : uN ∈ net.nodes) (v : Int) :
    (uN.outgoing.find? fun l => idAt net l.dst == some v).map (elink net) = (EG g).find? (edgeP uN.id v) := by
  have h1 : (uN.outgoing.map (elink net)).find? (fun e => e.dst == some v) =
      (uN.outgoing.find? fun l => idAt net l.dst == some v).map (elink net) := by
    rw [List.find?_map]; rfl
  rw [← h1, (hx.links uN hu).2, find_outOf]; rfl

/-- `edgeBetween(u, v, directed = true)`: the first expressed gene `u → v`; nil when there is none, in particular
    when `u` or `v` is not a node id -/
theorem edgeBetween_directed {g : Genome W} {netId : Int} {net : Net W} (hok : Ok g) (hx : Expressed g netId net)
    (hm : enabledMods g = []) (u v : Int) :
    (edgeBetween net u v true).map (elink net) = (EG g).find? (edgeP u v) := by
  have hnd : (net.nodes.map (·.id)).Nodup := by rw [hx.ids]; exact hok.nodupNodes
  have hc := ctrl_nil hx hm
  unfold edgeBetween
  rw [scanUV_top u v net.nodes hnd]
  cases hu : net.nodes.find? (·.id == u) with
  | none =>
    have hnone : none = (EG g).find? (edgeP u v) :=
      (EG_find_none_of_absent hok (u := u) (v := v) (Or.inl (find_node_none hx hu))).symm
    cases hv : net.nodes.find? (·.id == v) with
    | none => simpa using hnone
    | some vN => simpa [hc, ctrlScan] using hnone
  | some uN =>
    obtain ⟨huM, huI⟩ := find_node hu
    cases hv : net.nodes.find? (·.id == v) with
    | none =>
      have hnone : none = (EG g).find? (edgeP u v) :=
        (EG_find_none_of_absent hok (u := u) (v := v) (Or.inr (find_node_none hx hv))).symm
      simpa [hc, ctrlScan] using hnone
    | some vN =>
      obtain ⟨hvM, hvI⟩ := find_node hv
      have hA := incoming_find hx hvM u
      have hB := outgoing_find hx huM v
      rw [hvI] at hA
      rw [huI] at hB
      simp only [Bool.not_true, Bool.false_eq_true, ↓reduceIte]
      cases hf : vN.incoming.find? (fun l => idAt net l.src == some u) with
      | some l => rw [hf] at hA; simpa using hA
      | none => simpa using hB

/-- `edgeBetween(u, v, directed = false)`: the first expressed gene `v → u`, else the first `u → v` -/
theorem edgeBetween_undirected {g : Genome W} {netId : Int} {net : Net W} (hok : Ok g) (hx : Expressed g netId net)
    (hm : enabledMods g = []) (u v : Int) :
    (edgeBetween net u v false).map (elink net) = ((EG g).find? (edgeP v u)).or ((EG g).find? (edgeP u v)) := by
  have hnd : (net.nodes.map (·.id)).Nodup := by rw [hx.ids]; exact hok.nodupNodes
  have hc := ctrl_nil hx hm
  unfold edgeBetween
  rw [scanUV_top u v net.nodes hnd]
  cases hu : net.nodes.find? (·.id == u) with
  | none =>
    have h1 := EG_find_none_of_absent hok (u := u) (v := v) (Or.inl (find_node_none hx hu))
    have h2 := EG_find_none_of_absent hok (u := v) (v := u) (Or.inr (find_node_none hx hu))
    unfold edgeP
    rw [h1, h2]
    cases hv : net.nodes.find? (·.id == v) with
    | none => simp
    | some vN => simp [hc, ctrlScan]
  | some uN =>
    obtain ⟨huM, huI⟩ := find_node hu
    cases hv : net.nodes.find? (·.id == v) with
    | none =>
      have h1 := EG_find_none_of_absent hok (u := u) (v := v) (Or.inr (find_node_none hx hv))
      have h2 := EG_find_none_of_absent hok (u := v) (v := u) (Or.inl (find_node_none hx hv))
      unfold edgeP
      rw [h1, h2]
      simp [hc, ctrlScan]
    | some vN =>
      have hA := incoming_find hx huM v
      have hB := outgoing_find hx huM v
      rw [huI] at hA hB
      simp only [Bool.not_false, ↓reduceIte]
      cases hf : uN.incoming.find? (fun l => idAt net l.src == some v) with
      | some l => rw [hf] at hA; rw [← hA]; simp
      | none => rw [hf] at hA; rw [← hA, ← hB]; simp

/-! ### `Node`, `Nodes`, `From`, `To` -/

theorem allMIMO_triples {g : Genome W} {netId : Int} {net : Net W} (hx : Expressed g netId net) :
    nodeTriples (allMIMO net) =
      (g.nodes.map fun n => (n.id, n.kind, n.act)) ++ (enabledMods g).map fun m => (m.ctrl.id, m.ctrl.kind, m.ctrl.act) := by
  unfold allMIMO nodeTriples
  rw [List.map_append]
  have h1 := hx.triples
  have h2 := hx.ctrlTriples
  unfold nodeTriples at h1 h2
  rw [h1, h2]

/-- `Node(id)`: modules included -/
theorem node_spec' {g : Genome W} {netId : Int} {net : Net W} (hx : Expressed g netId net) (u : Int) :
    node? net u = specNode g u := by
  unfold node? nodeWithID specNode
  rw [← allMIMO_triples hx]
  unfold nodeTriples
  rw [List.find?_map]
  rfl

/-- `Nodes()`: modules included -/
theorem nodes_spec' {g : Genome W} {netId : Int} {net : Net W} (hx : Expressed g netId net) :
    nodeIds net = specNodes g := by
  unfold nodeIds specNodes
  rw [← map_fst_triples, allMIMO_triples hx]
  unfold nodeIds'
  simp [Function.comp_def]

theorem from_spec' {g : Genome W} {netId : Int} {net : Net W} (hx : Expressed g netId net)
    (hm : enabledMods g = []) (u : Int) : fromIds net u = specFrom g u := by
  have hc := ctrl_nil hx hm
  unfold fromIds nodeWithID allMIMO specFrom
  rw [hc, hm, List.append_nil]
  cases hu : net.nodes.find? (·.id == u) with
  | none =>
    have := find_node_none hx hu
    simp [this]
  | some nd =>
    obtain ⟨hM, hI⟩ := find_node hu
    have hcn : (nodeIds' g).contains u = true := by
      rw [List.contains_iff_mem, ← hx.ids]
      exact List.mem_map.mpr ⟨nd, hM, hI⟩
    have := (hx.links nd hM).2
    rw [hI] at this
    simp only [hcn, ↓reduceIte, List.filter_nil, List.map_nil, List.append_nil, ← this, List.map_map]
    rfl

theorem to_spec' {g : Genome W} {netId : Int} {net : Net W} (hx : Expressed g netId net)
    (hm : enabledMods g = []) (v : Int) : toIds net v = specTo g v := by
  have hc := ctrl_nil hx hm
  unfold toIds nodeWithID allMIMO specTo
  rw [hc, hm, List.append_nil]
  cases hu : net.nodes.find? (·.id == v) with
  | none =>
    have := find_node_none hx hu
    simp [this]
  | some nd =>
    obtain ⟨hM, hI⟩ := find_node hu
    have hcn : (nodeIds' g).contains v = true := by
      rw [List.contains_iff_mem, ← hx.ids]
      exact List.mem_map.mpr ⟨nd, hM, hI⟩
    have := (hx.links nd hM).1
    rw [hI] at this
    simp only [hcn, ↓reduceIte, List.filter_nil, List.map_nil, List.append_nil, ← this, List.map_map]
    rfl

end

end GoNeat.Genesis
