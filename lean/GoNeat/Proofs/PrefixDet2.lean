/-
  C17 support, part 2: prefix determinism of the population level (`giveBabiesToTheBest`, `spawn`, reproduction,
  the epoch turnover) and of the whole run (`evolve`, `evolveTrace`, `run`).
-/
import GoNeat.Proofs.PrefixDet

namespace GoNeat
open Scalar
variable {W : Type} [Scalar W]

/-! ### Population -/

theorem giveLoop_prefixDet (o : EpochOpts W) (blocks : List Int) (l : List (Species W)) (blockIndex : Nat) (stolen : Int) :
    PrefixDet (giveLoop o blocks l blockIndex stolen) := by
  induction l generalizing blockIndex stolen with
  | nil => pd_unfold giveLoop; pd_auto
  | cons s ss ih => pd_unfold giveLoop; pd_auto

macro_rules | `(tactic| pd_leaf) => `(tactic| with_reducible exact giveLoop_prefixDet _ _ _ _ _)

theorem giveBabiesToTheBest_prefixDet (sorted : List (Species W)) (o : EpochOpts W) :
    PrefixDet (giveBabiesToTheBest sorted o) := by
  unfold giveBabiesToTheBest
  pd_auto

macro_rules | `(tactic| pd_leaf) => `(tactic| with_reducible exact giveBabiesToTheBest_prefixDet _ _)

theorem spawnLoop_prefixDet (g : Genome W) (n : Nat) (count : Int) (uid : Nat) : PrefixDet (spawnLoop g n count uid) := by
  induction n generalizing count uid with
  | zero => pd_unfold spawnLoop; pd_auto
  | succ n ih => pd_unfold spawnLoop; pd_auto

macro_rules | `(tactic| pd_leaf) => `(tactic| with_reducible exact spawnLoop_prefixDet _ _ _ _)

theorem spawn_prefixDet (o : EpochOpts W) (g : Genome W) : PrefixDet (spawn o g) := by
  unfold spawn
  pd_auto

macro_rules | `(tactic| pd_leaf) => `(tactic| with_reducible exact spawn_prefixDet _ _)

/-! ### Epoch -/

theorem mutateBaby_prefixDet (o : EpochOpts W) (g : Genome W) (reg : Reg W) : PrefixDet (mutateBaby o g reg) := by
  unfold mutateBaby
  pd_auto

macro_rules | `(tactic| pd_leaf) => `(tactic| with_reducible exact mutateBaby_prefixDet _ _ _)

theorem pickOtherSpecies_prefixDet (s : Species W) (sorted : List (Species W)) (giveup : Nat) (cur : Species W) :
    PrefixDet (pickOtherSpecies s sorted giveup cur) := by
  induction giveup generalizing cur with
  | zero => pd_unfold pickOtherSpecies; pd_auto
  | succ n ih => pd_unfold pickOtherSpecies; pd_auto

macro_rules | `(tactic| pd_leaf) => `(tactic| with_reducible exact pickOtherSpecies_prefixDet _ _ _ _)

theorem reproduceOne_prefixDet (o : EpochOpts W) (generation : Int) (s : Species W) (sorted : List (Species W))
    (champ : Org W) (count : Int) (st : ReproState W) :
    PrefixDet (reproduceOne o generation s sorted champ count st) := by
  unfold reproduceOne
  pd_auto

macro_rules | `(tactic| pd_leaf) => `(tactic| with_reducible exact reproduceOne_prefixDet _ _ _ _ _ _ _)

theorem reproduceLoop_prefixDet (o : EpochOpts W) (generation : Int) (s : Species W) (sorted : List (Species W))
    (champ : Org W) (n : Nat) (count : Int) (st : ReproState W) :
    PrefixDet (reproduceLoop o generation s sorted champ n count st) := by
  induction n generalizing count st with
  | zero => pd_unfold reproduceLoop; pd_auto
  | succ n ih => pd_unfold reproduceLoop; pd_auto

macro_rules | `(tactic| pd_leaf) => `(tactic| with_reducible exact reproduceLoop_prefixDet _ _ _ _ _ _ _ _)

theorem reproduceSpecies_prefixDet (o : EpochOpts W) (generation : Int) (s : Species W) (sorted : List (Species W))
    (reg : Reg W) (nextUid : Nat) :
    PrefixDet (reproduceSpecies o generation s sorted reg nextUid) := by
  unfold reproduceSpecies
  pd_auto

macro_rules | `(tactic| pd_leaf) => `(tactic| with_reducible exact reproduceSpecies_prefixDet _ _ _ _ _ _)

theorem reproduceAll_prefixDet (o : EpochOpts W) (generation : Int) (sorted : List (Species W)) (l : List (Species W))
    (reg : Reg W) (uid : Nat) (babies : List (Org W)) :
    PrefixDet (reproduceAll o generation sorted l reg uid babies) := by
  induction l generalizing reg uid babies with
  | nil => pd_unfold reproduceAll; pd_auto
  | cons s ss ih => pd_unfold reproduceAll; pd_auto

macro_rules | `(tactic| pd_leaf) => `(tactic| with_reducible exact reproduceAll_prefixDet _ _ _ _ _ _ _)

theorem prepareForReproduction_prefixDet (o : EpochOpts W) (p : Pop W) : PrefixDet (prepareForReproduction o p) := by
  unfold prepareForReproduction
  pd_auto

macro_rules | `(tactic| pd_leaf) => `(tactic| with_reducible exact prepareForReproduction_prefixDet _ _)

theorem reproducePhase_prefixDet (o : EpochOpts W) (generation : Int) (p : Pop W) (ex : ExecState) :
    PrefixDet (reproducePhase o generation p ex) := by
  unfold reproducePhase
  pd_auto

macro_rules | `(tactic| pd_leaf) => `(tactic| with_reducible exact reproducePhase_prefixDet _ _ _ _)

theorem nextEpoch_prefixDet (o : EpochOpts W) (generation : Int) (p : Pop W) : PrefixDet (nextEpoch o generation p) := by
  unfold nextEpoch
  pd_auto

macro_rules | `(tactic| pd_leaf) => `(tactic| with_reducible exact nextEpoch_prefixDet _ _ _)

/-! ### Evolve -/

theorem evolve_prefixDet (o : EpochOpts W) (fit : Int → Genome W → W) (k : Nat) (generation : Int) (p : Pop W) :
    PrefixDet (evolve o fit k generation p) := by
  induction k generalizing generation p with
  | zero => pd_unfold evolve; pd_auto
  | succ k ih => pd_unfold evolve; pd_auto

macro_rules | `(tactic| pd_leaf) => `(tactic| with_reducible exact evolve_prefixDet _ _ _ _ _)

theorem evolveTrace_prefixDet (o : EpochOpts W) (fit : Int → Genome W → W) (k : Nat) (generation : Int) (p : Pop W) :
    PrefixDet (evolveTrace o fit k generation p) := by
  induction k generalizing generation p with
  | zero => pd_unfold evolveTrace; pd_auto
  | succ k ih => pd_unfold evolveTrace; pd_auto

macro_rules | `(tactic| pd_leaf) => `(tactic| with_reducible exact evolveTrace_prefixDet _ _ _ _ _)

theorem run_prefixDet (o : EpochOpts W) (fit : Int → Genome W → W) (g : Genome W) (k : Nat) :
    PrefixDet (run o fit g k) := by
  unfold run
  pd_auto

macro_rules | `(tactic| pd_leaf) => `(tactic| with_reducible exact run_prefixDet _ _ _ _)

/-- C17 in the form used by the twin-run check: two raw streams that agree on the prefix consumed by the first
    run give the same final population (and each run returns its own remainder) -/
theorem run_agree (o : EpochOpts W) (fit : Int → Genome W → W) (g : Genome W) (k : Nat)
    {rs₁ rs₂ rest₁ rest₂ : List Nat} {p : Pop W}
    (h : run o fit g k rs₁ = .ok (p, rest₁)) (hpre : ∃ used, rs₁ = used ++ rest₁ ∧ rs₂ = used ++ rest₂) :
    run o fit g k rs₂ = .ok (p, rest₂) :=
  prefixDet_agree (run_prefixDet o fit g k) h hpre

theorem evolveTrace_agree (o : EpochOpts W) (fit : Int → Genome W → W) (k : Nat) (generation : Int) (p : Pop W)
    {rs₁ rs₂ rest₁ rest₂ : List Nat} {ps : List (Pop W)}
    (h : evolveTrace o fit k generation p rs₁ = .ok (ps, rest₁))
    (hpre : ∃ used, rs₁ = used ++ rest₁ ∧ rs₂ = used ++ rest₂) :
    evolveTrace o fit k generation p rs₂ = .ok (ps, rest₂) :=
  prefixDet_agree (evolveTrace_prefixDet o fit k generation p) h hpre

end GoNeat
