/-
  C17 support: *prefix determinism* of every random computation of the model.

  The result of a `Rand` computation depends only on the prefix of the raw stream that it reports as
  consumed.  Closure lemmas, a small tactic (`pd_auto`) that decomposes the state-passing shape
  `fun rs => match m rs with | .error e => .error e | .ok (a, rs1) => …` mechanically, all primitives of
  `Model/Rand.lean` and the composite operators up to `run`.

  Core Lean only (`import Lean` for the tactic).
-/
import Lean
import GoNeat.Model.Evolve

namespace GoNeat
open Scalar

/-- the result depends only on the consumed prefix: the consumed part is a prefix of the input, the rest is
    returned untouched, and on ANY stream that starts with the same consumed prefix the computation returns the
    same value and exactly the new remainder -/
def PrefixDet {α : Type} (m : Rand α) : Prop :=
  ∀ rs a rest, m rs = .ok (a, rest) → ∃ used, rs = used ++ rest ∧ ∀ rs', m (used ++ rs') = .ok (a, rs')

/-- strict variant: at least one raw draw is consumed -/
def PrefixDet1 {α : Type} (m : Rand α) : Prop :=
  ∀ rs a rest, m rs = .ok (a, rest) →
    ∃ used, used ≠ [] ∧ rs = used ++ rest ∧ ∀ rs', m (used ++ rs') = .ok (a, rs')

theorem PrefixDet1.toPrefixDet {α} {m : Rand α} (h : PrefixDet1 m) : PrefixDet m := by
  intro rs a rest e
  obtain ⟨u, _, h1, h2⟩ := h rs a rest e
  exact ⟨u, h1, h2⟩

/-! ### closure lemmas -/

theorem PrefixDet.pure' {α} (a : α) : PrefixDet (Rand.pure' a) := by
  intro rs b rest h
  simp only [Rand.pure', Except.ok.injEq, Prod.mk.injEq] at h
  obtain ⟨rfl, rfl⟩ := h
  exact ⟨[], rfl, fun _ => rfl⟩

theorem PrefixDet.fail {α} (e : String) : PrefixDet (Rand.fail (α := α) e) := by
  intro rs b rest h
  simp [Rand.fail] at h

/-- `fun rs => .ok (v, rs)` -/
theorem PrefixDet.ok_fun {α} (v : α) : PrefixDet (fun rs => (Except.ok (v, rs) : R α)) :=
  PrefixDet.pure' v

/-- `fun _ => .error e` -/
theorem PrefixDet.error_fun {α} (e : Stop) : PrefixDet (fun _ => (Except.error e : R α)) := by
  intro rs b rest h
  cases h

/-- the general continuation lemma: `K` post-processes the result of `m`; errors stay errors and on a
    success `(a, rs)` the continuation is prefix-deterministic in `rs` -/
theorem PrefixDet.of_cont {α β} (m : Rand α) (K : R α → R β)
    (hm : PrefixDet m)
    (herr : ∀ e b, K (.error e) ≠ .ok b)
    (hok : ∀ a, PrefixDet (fun rs => K (.ok (a, rs)))) :
    PrefixDet (fun rs => K (m rs)) := by
  intro rs b rest h
  replace h : K (m rs) = .ok (b, rest) := h
  cases hm' : m rs with
  | error e => rw [hm'] at h; exact absurd h (herr e _)
  | ok p =>
    obtain ⟨a, rs1⟩ := p
    rw [hm'] at h
    obtain ⟨u1, rfl, rep1⟩ := hm _ _ _ hm'
    obtain ⟨u2, rfl, rep2⟩ := hok a rs1 b rest h
    refine ⟨u1 ++ u2, by simp, fun rs' => ?_⟩
    show K (m ((u1 ++ u2) ++ rs')) = _
    rw [List.append_assoc, rep1]
    exact rep2 rs'

theorem PrefixDet.bind' {α β} {m : Rand α} {f : α → Rand β} (hm : PrefixDet m) (hf : ∀ a, PrefixDet (f a)) :
    PrefixDet (Rand.bind' m f) :=
  PrefixDet.of_cont m (fun r => match r with | .error e => .error e | .ok (a, rs') => f a rs') hm
    (by intro e b h; cases h) (fun a => hf a)

/-- the recurring shape, stated with an explicit `match` -/
theorem PrefixDet.of_match {α β} {m : Rand α} {k : α → Rand β} (hm : PrefixDet m) (hk : ∀ a, PrefixDet (k a)) :
    PrefixDet (fun rs => match m rs with | .error e => .error e | .ok (a, rs1) => k a rs1) :=
  PrefixDet.bind' hm hk

theorem PrefixDet.ite_fun {α} (c : Prop) [Decidable c] {m₁ m₂ : Rand α} (h₁ : PrefixDet m₁) (h₂ : PrefixDet m₂) :
    PrefixDet (fun rs => if c then m₁ rs else m₂ rs) := by
  by_cases hc : c
  · simpa [hc] using h₁
  · simpa [hc] using h₂

theorem PrefixDet.ite {α} (c : Prop) [Decidable c] {m₁ m₂ : Rand α} (h₁ : PrefixDet m₁) (h₂ : PrefixDet m₂) :
    PrefixDet (if c then m₁ else m₂) := by
  by_cases hc : c
  · simpa [hc] using h₁
  · simpa [hc] using h₂

/-- lifting a pure `Except Stop` computation -/
def Rand.liftExcept {α} (x : Except Stop α) : Rand α := fun rs =>
  match x with
  | .error e => .error e
  | .ok a => .ok (a, rs)

theorem PrefixDet.liftExcept {α} (x : Except Stop α) : PrefixDet (Rand.liftExcept x) := by
  cases x with
  | error e => exact PrefixDet.error_fun e
  | ok a => exact PrefixDet.ok_fun a

/-- a pure `Except Stop` computation followed by a prefix-deterministic continuation -/
theorem PrefixDet.of_except {α β} (x : Except Stop β) {k : β → Rand α} (hk : ∀ b, PrefixDet (k b)) :
    PrefixDet (fun rs => match x with | .error e => .error e | .ok b => k b rs) := by
  cases x with
  | error e => exact PrefixDet.error_fun e
  | ok b => exact hk b

/-- if two streams agree on the consumed prefix the results are equal -/
theorem prefixDet_agree {α} {m : Rand α} (hm : PrefixDet m) {rs₁ rs₂ rest₁ rest₂ : List Nat} {a : α}
    (h : m rs₁ = .ok (a, rest₁)) (hpre : ∃ used, rs₁ = used ++ rest₁ ∧ rs₂ = used ++ rest₂) :
    m rs₂ = .ok (a, rest₂) := by
  obtain ⟨u, rfl, rep⟩ := hm _ _ _ h
  obtain ⟨u', h1, rfl⟩ := hpre
  have : u = u' := List.append_cancel_right h1
  subst this
  exact rep _

/-- eta-expanded presentation (used by `pd_unfold`) -/
theorem PrefixDet.eta {α} {m : Rand α} (h : PrefixDet (fun rs => m rs)) : PrefixDet m := h

/-! ### the decomposition tactic -/

section Tactic
open Lean Meta Elab Tactic

/-- is `e` (instantiated body of `fun rs => e`) a matcher application one of whose discriminants mentions `rs`?
    returns that discriminant -/
def findRsDiscr (body : Expr) (rs : FVarId) : MetaM (Option Expr) := do
  let some app ← matchMatcherApp? body | return none
  for d in app.discrs do
    if d.containsFVar rs then return some d
  return none

/-- repeatedly case-split the components of the freshly introduced result value until the matcher applied to
    `.ok (a, rs)` reduces -/
partial def destructLoop (g : MVarId) (fvs : List FVarId) : MetaM (List MVarId) := g.withContext do
  let tgt ← instantiateMVars (← g.getType)
  let f := tgt.appArg!
  let stuck ← lambdaBoundedTelescope f 1 fun _ body => do
    let body := body.headBeta
    match ← matchMatcherApp? body with
    | none => return false
    | some _ =>
      match ← reduceMatcher? body with
      | ReduceMatcherResult.reduced _ => return false
      | _ => return true
  if !stuck then return [g]
  -- pick the first component of product / option / bool type
  let rec pick : List FVarId → List FVarId → MetaM (Option (FVarId × List FVarId))
    | _, [] => return none
    | pre, fv :: rest => do
      let ty ← whnfD (← fv.getType)
      if ty.isAppOf ``Prod || ty.isAppOf ``Option || ty.isConstOf ``Bool then
        return some (fv, pre.reverse ++ rest)
      else pick (fv :: pre) rest
  match ← pick [] fvs with
  | none => return [g]
  | some (fv, others) =>
    let subgoals ← g.cases fv
    let mut res := []
    for s in subgoals do
      let newFvs := s.fields.toList.filterMap fun e => if e.isFVar then some e.fvarId! else none
      let others' := others.filterMap fun o =>
        match s.subst.get o with
        | .fvar o' => some o'
        | _ => none
      res := res ++ (← destructLoop s.mvarId (newFvs ++ others'))
    return res

/-- `PrefixDet (fun rs => match d[rs] with alts)`  ⟶  `PrefixDet (fun rs => d[rs])`, the error side condition
    (closed automatically) and one goal per success alternative -/
elab "pd_cont" : tactic => withMainContext do
  let g ← getMainGoal
  let tgt ← instantiateMVars (← g.getType)
  unless tgt.isAppOfArity ``PrefixDet 2 do throwError "pd_cont: goal is not PrefixDet"
  let f := tgt.appArg!
  unless f.isLambda do throwError "pd_cont: not a lambda"
  let (m, K) ← lambdaBoundedTelescope f 1 fun xs body => do
    let rs := xs[0]!
    let body := body.headBeta
    let some d ← findRsDiscr body rs.fvarId! | throwError "pd_cont: no discriminant mentions the stream"
    let m ← mkLambdaFVars #[rs] d
    let bodyAbs ← kabstract body d
    if bodyAbs.containsFVar rs.fvarId! then throwError "pd_cont: the stream is used outside the discriminant"
    let K := Lean.mkLambda `r .default (← inferType d) bodyAbs
    return (m, K)
  let e ← mkAppM ``PrefixDet.of_cont #[m, K]
  let newGoals ← g.apply e
  match newGoals with
  | [gm, gerr, gok] =>
    -- error side condition
    let gerrs ← Tactic.run gerr do
      evalTactic (← `(tactic| (intro e b h; first | (dsimp only at h; cases h) | (simp at h))))
    -- success alternatives
    let (a, gok') ← gok.intro `a
    let goks ← destructLoop gok' [a]
    let mut out := []
    for g' in goks do
      out := out ++ (← Tactic.run g' do evalTactic (← `(tactic| dsimp only)))
    replaceMainGoal ([gm] ++ gerrs ++ out)
  | _ => throwError "pd_cont: unexpected number of goals"

/-- `intro` only for a syntactic `∀` (never unfolds `PrefixDet`) -/
elab "pd_intro" : tactic => withMainContext do
  let g ← getMainGoal
  let tgt ← instantiateMVars (← g.getType)
  unless tgt.isForall do throwError "pd_intro: not a forall"
  let (_, g') ← g.intro1
  replaceMainGoal [g']

end Tactic

/-- extensible leaf closer: known `…_prefixDet` lemmas are registered with `macro_rules` -/
syntax "pd_leaf" : tactic
macro_rules | `(tactic| pd_leaf) => `(tactic| with_reducible apply_assumption)

section Tactic2
open Lean Meta Elab Tactic

/-- one structural decomposition step, chosen by the syntactic shape of the goal -/
elab "pd_step" : tactic => withMainContext do
  let g ← getMainGoal
  let tgt ← instantiateMVars (← g.getType)
  let tgt := tgt.consumeMData
  if tgt.isForall then
    let (_, g') ← g.intro1
    replaceMainGoal [g']
    return
  unless tgt.isAppOfArity ``PrefixDet 2 do throwError "pd_step: goal is not PrefixDet"
  let f := tgt.appArg!
  unless f.isLambda do
    evalTactic (← `(tactic| pd_leaf))
    return
  -- classify the body
  let kind : Nat × Option Expr ← lambdaBoundedTelescope f 1 fun xs body => do
    let rs := xs[0]!
    let body := body.consumeMData
    if body.isLet then
      let b' := (body.letBody!.instantiate1 body.letValue!).headBeta
      let f' ← mkLambdaFVars #[rs] b'
      return (0, some (mkApp tgt.appFn! f'))
    if body.isHeadBetaTarget then
      let f' ← mkLambdaFVars #[rs] body.headBeta
      return (0, some (mkApp tgt.appFn! f'))
    if body.isAppOf ``Except.ok then return (1, none)
    if body.isAppOf ``Except.error then return (2, none)
    if body.isAppOf ``ite then return (3, none)
    match ← matchMatcherApp? body with
    | some app =>
      if app.discrs.any (·.containsFVar rs.fvarId!) then return (4, none) else return (5, none)
    | none =>
      if body.isApp && body.appArg! == rs && !(body.appFn!.containsFVar rs.fvarId!) then
        return (6, some (mkApp tgt.appFn! body.appFn!))
      else return (7, none)
  match kind with
  | (0, some t) => replaceMainGoal [← g.replaceTargetDefEq t]
  | (1, _) => evalTactic (← `(tactic| exact PrefixDet.ok_fun _))
  | (2, _) => evalTactic (← `(tactic| exact PrefixDet.error_fun _))
  | (3, _) => evalTactic (← `(tactic| apply PrefixDet.ite_fun))
  | (4, _) => evalTactic (← `(tactic| pd_cont))
  | (5, _) => evalTactic (← `(tactic| split))
  | (6, some t) =>
    replaceMainGoal [← g.replaceTargetDefEq t]
    evalTactic (← `(tactic| pd_leaf))
  | _ => evalTactic (← `(tactic| pd_leaf))

end Tactic2

syntax "pd_auto" : tactic
macro_rules | `(tactic| pd_auto) => `(tactic| repeat' pd_step)

/-! ### the primitives of `Model/Rand.lean` -/

namespace Rand

theorem int63_prefixDet1 : PrefixDet1 int63 := by
  intro rs a rest h
  cases rs with
  | nil => cases h
  | cons x rs =>
    simp only [int63, Except.ok.injEq, Prod.mk.injEq] at h
    obtain ⟨rfl, rfl⟩ := h
    exact ⟨[x], by simp, rfl, fun _ => rfl⟩

theorem int63_prefixDet : PrefixDet int63 := int63_prefixDet1.toPrefixDet

theorem float64_prefixDet1 {W} [Scalar W] : PrefixDet1 (float64 (W := W)) := by
  intro rs
  induction rs with
  | nil => intro a rest h; cases h
  | cons x rs ih =>
    intro a rest h
    unfold float64 at h
    by_cases hc : Scalar.eq (Scalar.ofUnit63 x : W) Scalar.one = true
    · simp only [hc, if_true] at h
      obtain ⟨u, _, rfl, rep⟩ := ih a rest h
      refine ⟨x :: u, by simp, rfl, fun rs' => ?_⟩
      show float64 (x :: (u ++ rs')) = _
      unfold float64
      simp only [hc, if_true]
      exact rep rs'
    · simp only [hc] at h
      obtain ⟨rfl, rfl⟩ := h
      refine ⟨[x], by simp, rfl, fun rs' => ?_⟩
      show float64 (x :: rs') = _
      unfold float64
      simp only [hc]
      rfl

theorem float64_prefixDet {W} [Scalar W] : PrefixDet (float64 (W := W)) := float64_prefixDet1.toPrefixDet

theorem float32Ge03_prefixDet1 (W) [Scalar W] : PrefixDet1 (float32Ge03 W) := by
  intro rs
  induction rs with
  | nil => intro a rest h; cases h
  | cons x rs ih =>
    intro a rest h
    unfold float32Ge03 at h
    by_cases hc : Scalar.eq (Scalar.ofUnit63 x : W) Scalar.one = true
    · simp only [hc, if_true] at h
      obtain ⟨u, _, rfl, rep⟩ := ih a rest h
      refine ⟨x :: u, by simp, rfl, fun rs' => ?_⟩
      show float32Ge03 W (x :: (u ++ rs')) = _
      unfold float32Ge03
      simp only [hc, if_true]
      exact rep rs'
    · by_cases hd : Scalar.f32IsOne (Scalar.ofUnit63 x : W) = true
      · simp only [hc, hd, if_true] at h
        obtain ⟨u, _, rfl, rep⟩ := ih a rest h
        refine ⟨x :: u, by simp, rfl, fun rs' => ?_⟩
        show float32Ge03 W (x :: (u ++ rs')) = _
        unfold float32Ge03
        simp only [hc, hd, if_true]
        exact rep rs'
      · simp only [hc, hd] at h
        obtain ⟨rfl, rfl⟩ := h
        refine ⟨[x], by simp, rfl, fun rs' => ?_⟩
        show float32Ge03 W (x :: rs') = _
        unfold float32Ge03
        simp only [hc, hd]
        rfl

theorem float32Ge03_prefixDet (W) [Scalar W] : PrefixDet (float32Ge03 W) := (float32Ge03_prefixDet1 W).toPrefixDet

theorem int31nLoop_prefixDet1 (n max : Nat) : PrefixDet1 (int31nLoop n max) := by
  intro rs
  induction rs with
  | nil => intro a rest h; cases h
  | cons x rs ih =>
    intro a rest h
    unfold int31nLoop at h
    by_cases hc : int31OfRaw x > max
    · simp only [hc, if_true] at h
      obtain ⟨u, _, rfl, rep⟩ := ih a rest h
      refine ⟨x :: u, by simp, rfl, fun rs' => ?_⟩
      show int31nLoop n max (x :: (u ++ rs')) = _
      unfold int31nLoop
      simp only [hc, if_true]
      exact rep rs'
    · simp only [hc] at h
      obtain ⟨rfl, rfl⟩ := h
      refine ⟨[x], by simp, rfl, fun rs' => ?_⟩
      show int31nLoop n max (x :: rs') = _
      unfold int31nLoop
      simp only [hc]
      rfl

theorem int31nLoop_prefixDet (n max : Nat) : PrefixDet (int31nLoop n max) := (int31nLoop_prefixDet1 n max).toPrefixDet

theorem intn_prefixDet1 (n : Nat) : PrefixDet1 (intn n) := by
  intro rs a rest h
  unfold intn at h
  by_cases h0 : n = 0
  · simp [h0] at h
  · by_cases hp : n &&& (n - 1) = 0
    · simp only [h0, hp, if_true, if_false] at h
      cases rs with
      | nil => cases h
      | cons x rs =>
        simp only [Except.ok.injEq, Prod.mk.injEq] at h
        obtain ⟨rfl, rfl⟩ := h
        refine ⟨[x], by simp, rfl, fun rs' => ?_⟩
        unfold intn
        simp only [h0, hp, if_true, if_false]
        rfl
    · simp only [h0, hp, if_false] at h
      obtain ⟨u, hu, rfl, rep⟩ := int31nLoop_prefixDet1 _ _ _ _ _ h
      refine ⟨u, hu, rfl, fun rs' => ?_⟩
      unfold intn
      simp only [h0, hp, if_false]
      exact rep rs'

theorem intn_prefixDet (n : Nat) : PrefixDet (intn n) := (intn_prefixDet1 n).toPrefixDet

theorem randSign_prefixDet1 : PrefixDet1 randSign := by
  intro rs a rest h
  cases rs with
  | nil => cases h
  | cons x rs =>
    simp only [randSign, Except.ok.injEq, Prod.mk.injEq] at h
    obtain ⟨rfl, rfl⟩ := h
    exact ⟨[x], by simp, rfl, fun _ => rfl⟩

theorem randSign_prefixDet : PrefixDet randSign := randSign_prefixDet1.toPrefixDet

end Rand

/-- non-vacuity: `Rand.intn 3` runs the rejection loop (the first raw draw `2147483647 <<< 32` is rejected, the second,
    `5 <<< 32`, is accepted); two streams that share the consumed two draws and differ afterwards give the same
    value and their own remainders -/
example : Rand.intn 3 [9223372032559808512, 21474836480, 7, 8] = .ok (2, [7, 8]) := by rfl

example : Rand.intn 3 [9223372032559808512, 21474836480, 100] = .ok (2, [100]) :=
  prefixDet_agree (Rand.intn_prefixDet 3) (rs₁ := [9223372032559808512, 21474836480, 7, 8]) (rest₁ := [7, 8])
    (by rfl) ⟨[9223372032559808512, 21474836480], rfl, rfl⟩

macro_rules | `(tactic| pd_leaf) => `(tactic| with_reducible exact Rand.int63_prefixDet)
macro_rules | `(tactic| pd_leaf) => `(tactic| with_reducible exact Rand.float64_prefixDet)
macro_rules | `(tactic| pd_leaf) => `(tactic| with_reducible exact Rand.float32Ge03_prefixDet _)
macro_rules | `(tactic| pd_leaf) => `(tactic| with_reducible exact Rand.int31nLoop_prefixDet _ _)
macro_rules | `(tactic| pd_leaf) => `(tactic| with_reducible exact Rand.intn_prefixDet _)
macro_rules | `(tactic| pd_leaf) => `(tactic| with_reducible exact Rand.randSign_prefixDet)

variable {W : Type} [Scalar W]

theorem Rand.signedUnit_prefixDet : PrefixDet (Rand.signedUnit (W := W)) := by
  unfold Rand.signedUnit
  pd_auto

macro_rules | `(tactic| pd_leaf) => `(tactic| with_reducible exact Rand.signedUnit_prefixDet)

/-! ### composite operators: Mutate -/

theorem newLinkWeight_prefixDet : PrefixDet (newLinkWeight (W := W)) := by
  unfold newLinkWeight
  pd_auto

macro_rules | `(tactic| pd_leaf) => `(tactic| with_reducible exact newLinkWeight_prefixDet)

theorem singleRouletteThrow_prefixDet (probs : List W) : PrefixDet (singleRouletteThrow probs) := by
  unfold singleRouletteThrow
  pd_auto

macro_rules | `(tactic| pd_leaf) => `(tactic| with_reducible exact singleRouletteThrow_prefixDet _)

theorem randomNodeActivationType_prefixDet (o : MutOpts W) : PrefixDet (randomNodeActivationType o) := by
  unfold randomNodeActivationType
  pd_auto

macro_rules | `(tactic| pd_leaf) => `(tactic| with_reducible exact randomNodeActivationType_prefixDet _)

/-- present a partially applied recursive function as `fun rs => f … rs` and unfold one step -/
syntax "pd_unfold " ident : tactic
macro_rules | `(tactic| pd_unfold $f) => `(tactic| (refine PrefixDet.eta ?_; simp only [$f:ident]))

theorem linkWeightsLoop_prefixDet (power rate : W) (mt : WeightMutator) (severe : Bool) (genesCount endPart : W)
    (l : List (Gene W)) (num : W) :
    PrefixDet (linkWeightsLoop power rate mt severe genesCount endPart l num) := by
  induction l generalizing num with
  | nil => pd_unfold linkWeightsLoop; pd_auto
  | cons x xs ih => pd_unfold linkWeightsLoop; pd_auto

macro_rules | `(tactic| pd_leaf) => `(tactic| with_reducible exact linkWeightsLoop_prefixDet _ _ _ _ _ _ _ _)

theorem mutateLinkWeights_prefixDet (g : Genome W) (power rate : W) (mt : WeightMutator) :
    PrefixDet (mutateLinkWeights g power rate mt) := by
  unfold mutateLinkWeights
  pd_auto

macro_rules | `(tactic| pd_leaf) => `(tactic| with_reducible exact mutateLinkWeights_prefixDet _ _ _ _)

theorem traitMutateParams_prefixDet (power prob : W) (l : List W) : PrefixDet (traitMutateParams power prob l) := by
  induction l with
  | nil => pd_unfold traitMutateParams; pd_auto
  | cons x xs ih => pd_unfold traitMutateParams; pd_auto

macro_rules | `(tactic| pd_leaf) => `(tactic| with_reducible exact traitMutateParams_prefixDet _ _ _)

theorem mutateRandomTrait_prefixDet (g : Genome W) (o : MutOpts W) : PrefixDet (mutateRandomTrait g o) := by
  unfold mutateRandomTrait
  pd_auto

macro_rules | `(tactic| pd_leaf) => `(tactic| with_reducible exact mutateRandomTrait_prefixDet _ _)

omit [Scalar W] in
theorem mutateLinkTrait_prefixDet (g : Genome W) (n : Nat) : PrefixDet (mutateLinkTrait g n) := by
  induction n generalizing g with
  | zero => pd_unfold mutateLinkTrait; pd_auto
  | succ n ih => pd_unfold mutateLinkTrait; pd_auto

macro_rules | `(tactic| pd_leaf) => `(tactic| with_reducible exact mutateLinkTrait_prefixDet _ _)

omit [Scalar W] in
theorem mutateNodeTrait_prefixDet (g : Genome W) (n : Nat) : PrefixDet (mutateNodeTrait g n) := by
  induction n generalizing g with
  | zero => pd_unfold mutateNodeTrait; pd_auto
  | succ n ih => pd_unfold mutateNodeTrait; pd_auto

macro_rules | `(tactic| pd_leaf) => `(tactic| with_reducible exact mutateNodeTrait_prefixDet _ _)

omit [Scalar W] in
theorem mutateToggleEnable_prefixDet (g : Genome W) (n : Nat) : PrefixDet (mutateToggleEnable g n) := by
  induction n generalizing g with
  | zero => pd_unfold mutateToggleEnable; pd_auto
  | succ n ih => pd_unfold mutateToggleEnable; pd_auto

macro_rules | `(tactic| pd_leaf) => `(tactic| with_reducible exact mutateToggleEnable_prefixDet _ _)

theorem mutateAllNonstructural_prefixDet (g : Genome W) (o : MutOpts W) : PrefixDet (mutateAllNonstructural g o) := by
  unfold mutateAllNonstructural
  pd_auto

macro_rules | `(tactic| pd_leaf) => `(tactic| with_reducible exact mutateAllNonstructural_prefixDet _ _)

/-! #### mutateAddLink -/

theorem pickDistinct_prefixDet (nodesLen fns fuel : Nat) : PrefixDet (pickDistinct nodesLen fns fuel) := by
  induction fuel with
  | zero => pd_unfold pickDistinct; pd_auto
  | succ n ih => pd_unfold pickDistinct; pd_auto

/-- fuel independence: a successful `pickDistinct` replays on every stream that starts with the consumed prefix,
    for every fuel that is at least the length of that prefix (each round consumes at least one draw) -/
theorem pickDistinct_fuel (nodesLen fns : Nat) : ∀ fuel rs a rest, pickDistinct nodesLen fns fuel rs = .ok (a, rest) →
    ∃ used, rs = used ++ rest ∧
      ∀ fuel' rs', used.length ≤ fuel' → pickDistinct nodesLen fns fuel' (used ++ rs') = .ok (a, rs') := by
  intro fuel
  induction fuel with
  | zero => intro rs a rest h; simp only [pickDistinct] at h; cases h
  | succ fuel ih =>
    intro rs a rest h
    simp only [pickDistinct] at h
    split at h
    · cases h
    · next n1 rs1 h1 =>
      split at h
      · cases h
      · next k rs2 h2 =>
        obtain ⟨u1, hu1, rfl, rep1⟩ := Rand.intn_prefixDet1 _ _ _ _ h1
        obtain ⟨u2, hu2, rfl, rep2⟩ := Rand.intn_prefixDet1 _ _ _ _ h2
        have l1 : 1 ≤ u1.length := List.length_pos_iff.mpr hu1
        have l2 : 1 ≤ u2.length := List.length_pos_iff.mpr hu2
        split at h
        · next hc =>
          obtain ⟨u3, rfl, rep3⟩ := ih _ _ _ h
          refine ⟨u1 ++ (u2 ++ u3), by simp, fun fuel' rs' hf => ?_⟩
          simp only [List.length_append] at hf
          cases fuel' with
          | zero => omega
          | succ f =>
            simp only [pickDistinct, List.append_assoc, rep1, rep2, hc, if_true]
            exact rep3 _ _ (by omega)
        · next hc =>
          simp only [Except.ok.injEq, Prod.mk.injEq] at h
          obtain ⟨rfl, rfl⟩ := h
          refine ⟨u1 ++ u2, by simp, fun fuel' rs' hf => ?_⟩
          simp only [List.length_append] at hf
          cases fuel' with
          | zero => omega
          | succ f =>
            simp only [pickDistinct, List.append_assoc, rep1, rep2, hc]
            rfl

/-- `pickDistinct` fuelled by the length of the stream (as `pickPair` calls it) -/
theorem pickDistinct_len_prefixDet (nodesLen fns : Nat) :
    PrefixDet (fun rs => pickDistinct nodesLen fns rs.length rs) := by
  intro rs a rest h
  obtain ⟨u, rfl, rep⟩ := pickDistinct_fuel _ _ _ _ _ _ h
  exact ⟨u, rfl, fun rs' => rep _ _ (by simp)⟩

macro_rules | `(tactic| pd_leaf) => `(tactic| with_reducible exact pickDistinct_len_prefixDet _ _)

theorem pickPair_prefixDet (nodesLen fns : Nat) (doRecur : Bool) : PrefixDet (pickPair (W := W) nodesLen fns doRecur) := by
  unfold pickPair
  pd_auto

macro_rules | `(tactic| pd_leaf) => `(tactic| with_reducible exact pickPair_prefixDet _ _ _)

theorem findOpenLink_prefixDet (g : Genome W) (fns : Nat) (doRecur : Bool) (tries : Nat) (last : Option (Node × Node)) :
    PrefixDet (findOpenLink g fns doRecur tries last) := by
  induction tries generalizing last with
  | zero => pd_unfold findOpenLink; pd_auto
  | succ n ih => pd_unfold findOpenLink; pd_auto

macro_rules | `(tactic| pd_leaf) => `(tactic| with_reducible exact findOpenLink_prefixDet _ _ _ _ _)

theorem mutateAddLink_prefixDet (g : Genome W) (reg : Reg W) (o : MutOpts W) : PrefixDet (mutateAddLink g reg o) := by
  unfold mutateAddLink
  pd_auto

macro_rules | `(tactic| pd_leaf) => `(tactic| with_reducible exact mutateAddLink_prefixDet _ _ _)

/-! #### mutateAddNode -/

theorem pickSplitSmall_prefixDet (g : Genome W) (l : List (Gene W)) (i : Nat) : PrefixDet (pickSplitSmall g l i) := by
  induction l generalizing i with
  | nil => pd_unfold pickSplitSmall; pd_auto
  | cons x xs ih => pd_unfold pickSplitSmall; pd_auto

macro_rules | `(tactic| pd_leaf) => `(tactic| with_reducible exact pickSplitSmall_prefixDet _ _ _)

omit [Scalar W] in
theorem pickSplitLarge_prefixDet (g : Genome W) (tries : Nat) : PrefixDet (pickSplitLarge g tries) := by
  induction tries with
  | zero => pd_unfold pickSplitLarge; pd_auto
  | succ n ih => pd_unfold pickSplitLarge; pd_auto

macro_rules | `(tactic| pd_leaf) => `(tactic| with_reducible exact pickSplitLarge_prefixDet _ _)

theorem mutateAddNode_prefixDet (g : Genome W) (reg : Reg W) (o : MutOpts W) : PrefixDet (mutateAddNode g reg o) := by
  unfold mutateAddNode
  pd_auto

macro_rules | `(tactic| pd_leaf) => `(tactic| with_reducible exact mutateAddNode_prefixDet _ _ _)

/-! #### mutateConnectSensors -/

theorem connectOne_prefixDet (sensor output : Node) (g : Genome W) (reg : Reg W) (linkAdded : Bool) :
    PrefixDet (connectOne sensor output g reg linkAdded) := by
  unfold connectOne
  pd_auto

macro_rules | `(tactic| pd_leaf) => `(tactic| with_reducible exact connectOne_prefixDet _ _ _ _ _)

theorem connectLoop_prefixDet (sensor : Node) (l : List Node) (g : Genome W) (reg : Reg W) (added : Bool) :
    PrefixDet (connectLoop sensor l g reg added) := by
  induction l generalizing g reg added with
  | nil => pd_unfold connectLoop; pd_auto
  | cons x xs ih => pd_unfold connectLoop; pd_auto

macro_rules | `(tactic| pd_leaf) => `(tactic| with_reducible exact connectLoop_prefixDet _ _ _ _ _)

theorem mutateConnectSensors_prefixDet (g : Genome W) (reg : Reg W) : PrefixDet (mutateConnectSensors g reg) := by
  unfold mutateConnectSensors
  pd_auto

macro_rules | `(tactic| pd_leaf) => `(tactic| with_reducible exact mutateConnectSensors_prefixDet _ _)

/-! ### composite operators: Mate -/

theorem disableDraw_prefixDet (e1 e2 : Bool) : PrefixDet (disableDraw (W := W) e1 e2) := by
  unfold disableDraw
  pd_auto

macro_rules | `(tactic| pd_leaf) => `(tactic| with_reducible exact disableDraw_prefixDet _ _)

theorem multipointWalk_prefixDet (p1 p2 : Genome W) (newTraits : List (Trait W)) (t0 : Option Int) (better : Bool)
    (l1 l2 : List (Gene W)) (acc : MateAcc W) :
    PrefixDet (multipointWalk p1 p2 newTraits t0 better l1 l2 acc) := by
  induction l1 generalizing l2 acc with
  | nil =>
    induction l2 generalizing acc with
    | nil => pd_unfold multipointWalk; pd_auto
    | cons y ys ih2 => pd_unfold multipointWalk; pd_auto
  | cons x xs ih1 =>
    induction l2 generalizing acc with
    | nil => pd_unfold multipointWalk; pd_auto
    | cons y ys ih2 => pd_unfold multipointWalk; pd_auto

macro_rules | `(tactic| pd_leaf) => `(tactic| with_reducible exact multipointWalk_prefixDet _ _ _ _ _ _ _ _)

theorem mateMultipoint_prefixDet (g og : Genome W) (genomeId : Int) (f1 f2 : W) :
    PrefixDet (mateMultipoint g og genomeId f1 f2) := by
  unfold mateMultipoint
  pd_auto

macro_rules | `(tactic| pd_leaf) => `(tactic| with_reducible exact mateMultipoint_prefixDet _ _ _ _ _)

theorem avgChosen_prefixDet (p1 p2 : Genome W) (x y : Gene W) : PrefixDet (avgChosen p1 p2 x y) := by
  unfold avgChosen
  pd_auto

macro_rules | `(tactic| pd_leaf) => `(tactic| with_reducible exact avgChosen_prefixDet _ _ _ _)

theorem multipointAvgWalk_prefixDet (p1 p2 : Genome W) (newTraits : List (Trait W)) (t0 : Option Int) (better : Bool)
    (l1 l2 : List (Gene W)) (acc : MateAcc W) :
    PrefixDet (multipointAvgWalk p1 p2 newTraits t0 better l1 l2 acc) := by
  induction l1 generalizing l2 acc with
  | nil =>
    induction l2 generalizing acc with
    | nil => pd_unfold multipointAvgWalk; pd_auto
    | cons y ys ih2 => pd_unfold multipointAvgWalk; pd_auto
  | cons x xs ih1 =>
    induction l2 generalizing acc with
    | nil => pd_unfold multipointAvgWalk; pd_auto
    | cons y ys ih2 => pd_unfold multipointAvgWalk; pd_auto

macro_rules | `(tactic| pd_leaf) => `(tactic| with_reducible exact multipointAvgWalk_prefixDet _ _ _ _ _ _ _ _)

theorem mateMultipointAvg_prefixDet (g og : Genome W) (genomeId : Int) (f1 f2 : W) :
    PrefixDet (mateMultipointAvg g og genomeId f1 f2) := by
  unfold mateMultipointAvg
  pd_auto

macro_rules | `(tactic| pd_leaf) => `(tactic| with_reducible exact mateMultipointAvg_prefixDet _ _ _ _ _)

theorem singlePointWalk_prefixDet (q1 q2 : Genome W) (newTraits : List (Trait W)) (t0 : Option Int) (crossPoint : Nat)
    (l1 l2 : List (Gene W)) (gc : Nat) (last : Option (Chosen W)) (acc : MateAcc W) :
    PrefixDet (singlePointWalk q1 q2 newTraits t0 crossPoint l1 l2 gc last acc) := by
  induction l1 generalizing l2 gc last acc with
  | nil =>
    induction l2 generalizing gc last acc with
    | nil => pd_unfold singlePointWalk; pd_auto
    | cons y ys ih2 => pd_unfold singlePointWalk; pd_auto
  | cons x xs ih1 =>
    induction l2 generalizing gc last acc with
    | nil => pd_unfold singlePointWalk; pd_auto
    | cons y ys ih2 => cases last <;> (pd_unfold singlePointWalk; pd_auto)

macro_rules | `(tactic| pd_leaf) => `(tactic| with_reducible exact singlePointWalk_prefixDet _ _ _ _ _ _ _ _ _ _)

theorem mateSinglePoint_prefixDet (g og : Genome W) (genomeId : Int) : PrefixDet (mateSinglePoint g og genomeId) := by
  unfold mateSinglePoint
  pd_auto

macro_rules | `(tactic| pd_leaf) => `(tactic| with_reducible exact mateSinglePoint_prefixDet _ _ _)

end GoNeat
