/-
  Helper lemmas for property C03: the copy operators (duplicate, the three crossovers) introduce no new binding -
  every gene of the result carries `(inn, src, dst, recur)` of a gene of an input genome, every node `(id, kind)` of
  a node of an input genome.  For the averaging operators this needs the parents' bindings to be consistent (the
  averaged gene takes each endpoint and the flag from either parent).  No well-formedness hypothesis.
-/
import GoNeat.Proofs.RegistryLemmas
import GoNeat.Model.Mate

set_option linter.unusedSectionVars false

namespace GoNeat.C03
open GoNeat Scalar
variable {W : Type} [Scalar W]

/-! ### duplicate -/

theorem dupGenes_binds (traits : List (Trait W)) (nodes : List Node) (l l' : List (Gene W))
    (h : dupGenes traits nodes l = .ok l') : l'.map geneBind = l.map geneBind := by
  induction l generalizing l' with
  | nil => simp only [dupGenes, Except.ok.injEq] at h; subst h; rfl
  | cons x xs ih =>
    unfold dupGenes at h
    split at h
    · cases h
    · split at h
      · cases h
      · split at h
        · cases h
        · rename_i gs' hgs
          simp only [Except.ok.injEq] at h
          subst h
          simp only [List.map_cons, ih _ hgs]
          rfl

theorem duplicate_binds (g g' : Genome W) (id : Int) (h : g.duplicate id = .ok g') :
    g'.genes.map geneBind = g.genes.map geneBind ∧ g'.nodes.map nodeRole = g.nodes.map nodeRole := by
  unfold Genome.duplicate at h
  simp only at h
  split at h
  · cases h
  · rename_i genes hg
    split at h
    · cases h
    · simp only [Except.ok.injEq] at h
      subst h
      refine ⟨dupGenes_binds _ _ _ _ hg, ?_⟩
      simp only [List.map_map]
      rfl

/-! ### crossover: everything collected comes from allowed bindings -/

/-- the gene and the endpoint node objects of a chosen gene carry allowed bindings -/
def ChosenFrom (P : List Bind) (Q : List Role) (c : Chosen W) : Prop :=
  geneBind c.gene ∈ P ∧ (∀ m, c.srcN = some m → nodeRole m ∈ Q) ∧ (∀ m, c.dstN = some m → nodeRole m ∈ Q)

def AccFrom (P : List Bind) (Q : List Role) (acc : MateAcc W) : Prop :=
  (∀ x ∈ acc.genes, geneBind x ∈ P) ∧ (∀ n ∈ acc.nodes, nodeRole n ∈ Q)

theorem nodeById_mem {nodes : List Node} {id : Int} {m : Node} (h : nodeById nodes id = some m) : m ∈ nodes := by
  unfold nodeById at h
  exact List.mem_reverse.mp (List.mem_of_find?_eq_some h)

theorem ensureNode_from {Q : List Role} (nt : List (Trait W)) (t0 : Option Int) (nodes nodes' : List Node) (n : Node)
    (h : ensureNode nt t0 nodes n = .ok nodes') (hn : nodeRole n ∈ Q) (hq : ∀ m ∈ nodes, nodeRole m ∈ Q) :
    ∀ m ∈ nodes', nodeRole m ∈ Q := by
  unfold ensureNode at h
  split at h
  · cases h; exact hq
  · split at h
    · cases h
    · simp only [Except.ok.injEq] at h
      subst h
      intro m hm
      rcases (mem_nodeInsert _ _ _).mp hm with rfl | hm'
      · exact hn
      · exact hq m hm'

theorem addChosen_from {P : List Bind} {Q : List Role} (nt : List (Trait W)) (t0 : Option Int) (acc acc' : MateAcc W)
    (c : Chosen W) (dis : Bool) (hacc : AccFrom P Q acc) (hc : ChosenFrom P Q c)
    (h : addChosen nt t0 acc c dis = .ok acc') : AccFrom P Q acc' := by
  unfold addChosen at h
  split at h
  · cases h; exact hacc
  · split at h
    · rename_i sn dn hs hd
      split at h
      · cases h
      · rename_i nodes1 h1
        split at h
        · cases h
        · rename_i nodes2 h2
          split at h
          · cases h
          · simp only [Except.ok.injEq] at h
            subst h
            have q1 := ensureNode_from nt t0 _ _ sn h1 (hc.2.1 sn hs) hacc.2
            have q2 := ensureNode_from nt t0 _ _ dn h2 (hc.2.2 dn hd) q1
            refine ⟨?_, q2⟩
            intro x hx
            rcases List.mem_append.mp hx with hx | hx
            · exact hacc.1 x hx
            · simp only [List.mem_singleton] at hx
              subst hx
              exact hc.1
    · cases h

theorem chooseFrom_ok {P : List Bind} {Q : List Role} (p : Genome W) (x : Gene W) (hx : x ∈ p.genes)
    (hp : ∀ b ∈ p.genes.map geneBind, b ∈ P) (hq : ∀ r ∈ p.nodes.map nodeRole, r ∈ Q) : ChosenFrom P Q (chooseFrom p x) :=
  ⟨hp _ (List.mem_map_of_mem hx), fun _ hm => hq _ (List.mem_map_of_mem (nodeById_mem hm)),
   fun _ hm => hq _ (List.mem_map_of_mem (nodeById_mem hm))⟩

/-- the averaged gene of two matching genes: each endpoint and the flag come from either parent - equal under
    consistency of the allowed bindings -/
theorem avgChosen_ok {P : List Bind} {Q : List Role} (hP : ConsistentB P) (p1 p2 : Genome W) (x y : Gene W)
    (hx : x ∈ p1.genes) (hy : y ∈ p2.genes) (hxy : x.inn = y.inn)
    (hp1 : ∀ b ∈ p1.genes.map geneBind, b ∈ P) (hq1 : ∀ r ∈ p1.nodes.map nodeRole, r ∈ Q)
    (hp2 : ∀ b ∈ p2.genes.map geneBind, b ∈ P) (hq2 : ∀ r ∈ p2.nodes.map nodeRole, r ∈ Q)
    (rs rs' : List Nat) (c : Chosen W) (h : avgChosen p1 p2 x y rs = .ok (c, rs')) : ChosenFrom P Q c := by
  have hbx : geneBind x ∈ P := hp1 _ (List.mem_map_of_mem hx)
  have hby : geneBind y ∈ P := hp2 _ (List.mem_map_of_mem hy)
  have he : geneBind x = geneBind y := hP _ hbx _ hby hxy
  simp only [geneBind, Prod.mk.injEq] at he
  obtain ⟨_, hs, hd, hr⟩ := he
  unfold avgChosen at h
  split at h
  · cases h
  · split at h
    · cases h
    · split at h
      · cases h
      · split at h
        · cases h
        · split at h
          · cases h
          · simp only [Except.ok.injEq, Prod.mk.injEq] at h
            obtain ⟨rfl, _⟩ := h
            refine ⟨?_, ?_, ?_⟩
            · simp only [geneBind, ← hs, ← hd, ← hr, ite_self]
              exact hbx
            · intro m hm
              dsimp only at hm
              split at hm
              · exact hq1 _ (List.mem_map_of_mem (nodeById_mem hm))
              · exact hq2 _ (List.mem_map_of_mem (nodeById_mem hm))
            · intro m hm
              dsimp only at hm
              split at hm
              · exact hq1 _ (List.mem_map_of_mem (nodeById_mem hm))
              · exact hq2 _ (List.mem_map_of_mem (nodeById_mem hm))

theorem tail_of {α} {p : α → Prop} {a : α} {l : List α} (h : ∀ z ∈ a :: l, p z) : ∀ z ∈ l, p z :=
  fun z hz => h z (List.mem_cons_of_mem _ hz)

theorem multipointWalk_from {P : List Bind} {Q : List Role} (p1 p2 : Genome W) (nt : List (Trait W)) (t0 : Option Int)
    (better : Bool) (xs ys : List (Gene W)) (acc acc' : MateAcc W) (rs rs' : List Nat)
    (hp1 : ∀ b ∈ p1.genes.map geneBind, b ∈ P) (hq1 : ∀ r ∈ p1.nodes.map nodeRole, r ∈ Q)
    (hp2 : ∀ b ∈ p2.genes.map geneBind, b ∈ P) (hq2 : ∀ r ∈ p2.nodes.map nodeRole, r ∈ Q)
    (h : multipointWalk p1 p2 nt t0 better xs ys acc rs = .ok (acc', rs'))
    (hx : ∀ x ∈ xs, x ∈ p1.genes) (hy : ∀ y ∈ ys, y ∈ p2.genes) (hacc : AccFrom P Q acc) : AccFrom P Q acc' := by
  fun_induction multipointWalk p1 p2 nt t0 better xs ys acc rs
  all_goals try (cases h; done)
  case case1 => cases h; exact hacc
  case case2 ih => exact ih h hx (tail_of hy) hacc
  case case4 y ys acc rs hb acc1 he ih =>
    exact ih h hx (tail_of hy) (addChosen_from _ _ _ _ _ _ hacc (chooseFrom_ok p2 y (hy y List.mem_cons_self) hp2 hq2) he)
  case case5 ih => exact ih h (tail_of hx) hy hacc
  case case7 x xs acc rs hb acc1 he ih =>
    exact ih h (tail_of hx) hy (addChosen_from _ _ _ _ _ _ hacc (chooseFrom_ok p1 x (hx x List.mem_cons_self) hp1 hq1) he)
  case case11 x xs y ys acc rs heq f rs1 hf c dis rs2 hdd acc1 he ih =>
    refine ih h (tail_of hx) (tail_of hy) (addChosen_from _ _ _ _ _ _ hacc ?_ he)
    dsimp only [c]
    split
    · exact chooseFrom_ok p1 x (hx x List.mem_cons_self) hp1 hq1
    · exact chooseFrom_ok p2 y (hy y List.mem_cons_self) hp2 hq2
  case case12 ih => exact ih h (tail_of hx) hy hacc
  case case14 x xs y ys acc rs hne hlt hb acc1 he ih =>
    exact ih h (tail_of hx) hy (addChosen_from _ _ _ _ _ _ hacc (chooseFrom_ok p1 x (hx x List.mem_cons_self) hp1 hq1) he)
  case case15 ih => exact ih h hx (tail_of hy) hacc
  case case17 x xs y ys acc rs hne hlt hb acc1 he ih =>
    exact ih h hx (tail_of hy) (addChosen_from _ _ _ _ _ _ hacc (chooseFrom_ok p2 y (hy y List.mem_cons_self) hp2 hq2) he)

theorem multipointAvgWalk_from {P : List Bind} {Q : List Role} (hP : ConsistentB P) (p1 p2 : Genome W) (nt : List (Trait W))
    (t0 : Option Int) (better : Bool) (xs ys : List (Gene W)) (acc acc' : MateAcc W) (rs rs' : List Nat)
    (hp1 : ∀ b ∈ p1.genes.map geneBind, b ∈ P) (hq1 : ∀ r ∈ p1.nodes.map nodeRole, r ∈ Q)
    (hp2 : ∀ b ∈ p2.genes.map geneBind, b ∈ P) (hq2 : ∀ r ∈ p2.nodes.map nodeRole, r ∈ Q)
    (h : multipointAvgWalk p1 p2 nt t0 better xs ys acc rs = .ok (acc', rs'))
    (hx : ∀ x ∈ xs, x ∈ p1.genes) (hy : ∀ y ∈ ys, y ∈ p2.genes) (hacc : AccFrom P Q acc) : AccFrom P Q acc' := by
  fun_induction multipointAvgWalk p1 p2 nt t0 better xs ys acc rs
  all_goals try (cases h; done)
  case case1 => cases h; exact hacc
  case case2 ih => exact ih h hx (tail_of hy) hacc
  case case4 y ys acc rs hb acc1 he ih =>
    exact ih h hx (tail_of hy) (addChosen_from _ _ _ _ _ _ hacc (chooseFrom_ok p2 y (hy y List.mem_cons_self) hp2 hq2) he)
  case case5 ih => exact ih h (tail_of hx) hy hacc
  case case7 x xs acc rs hb acc1 he ih =>
    exact ih h (tail_of hx) hy (addChosen_from _ _ _ _ _ _ hacc (chooseFrom_ok p1 x (hx x List.mem_cons_self) hp1 hq1) he)
  case case10 x xs y ys acc rs heq c rs1 hav acc1 he ih =>
    exact ih h (tail_of hx) (tail_of hy) (addChosen_from _ _ _ _ _ _ hacc
      (avgChosen_ok hP p1 p2 x y (hx x List.mem_cons_self) (hy y List.mem_cons_self) heq hp1 hq1 hp2 hq2 _ _ _ hav) he)
  case case11 ih => exact ih h (tail_of hx) hy hacc
  case case13 x xs y ys acc rs hne hlt hb acc1 he ih =>
    exact ih h (tail_of hx) hy (addChosen_from _ _ _ _ _ _ hacc (chooseFrom_ok p1 x (hx x List.mem_cons_self) hp1 hq1) he)
  case case14 ih => exact ih h hx (tail_of hy) hacc
  case case16 x xs y ys acc rs hne hlt hb acc1 he ih =>
    exact ih h hx (tail_of hy) (addChosen_from _ _ _ _ _ _ hacc (chooseFrom_ok p2 y (hy y List.mem_cons_self) hp2 hq2) he)

theorem singlePointWalk_from {P : List Bind} {Q : List Role} (hP : ConsistentB P) (q1 q2 : Genome W) (nt : List (Trait W))
    (t0 : Option Int) (cp : Nat) (xs ys : List (Gene W)) (gc : Nat) (last : Option (Chosen W)) (acc acc' : MateAcc W)
    (rs rs' : List Nat)
    (hp1 : ∀ b ∈ q1.genes.map geneBind, b ∈ P) (hq1 : ∀ r ∈ q1.nodes.map nodeRole, r ∈ Q)
    (hp2 : ∀ b ∈ q2.genes.map geneBind, b ∈ P) (hq2 : ∀ r ∈ q2.nodes.map nodeRole, r ∈ Q)
    (h : singlePointWalk q1 q2 nt t0 cp xs ys gc last acc rs = .ok (acc', rs'))
    (hx : ∀ x ∈ xs, x ∈ q1.genes) (hy : ∀ y ∈ ys, y ∈ q2.genes) (hacc : AccFrom P Q acc) : AccFrom P Q acc' := by
  fun_induction singlePointWalk q1 q2 nt t0 cp xs ys gc last acc rs
  all_goals try (cases h; done)
  case case1 => cases h; exact hacc
  case case3 y ys gc l acc rs c acc1 he ih =>
    exact ih h hx (tail_of hy) (addChosen_from _ _ _ _ _ _ hacc (chooseFrom_ok q2 y (hy y List.mem_cons_self) hp2 hq2) he)
  case case5 x xs y ys gc l acc rs heq hlt c acc1 he ih =>
    exact ih h (tail_of hx) (tail_of hy) (addChosen_from _ _ _ _ _ _ hacc (chooseFrom_ok q1 x (hx x List.mem_cons_self) hp1 hq1) he)
  case case7 x xs y ys gc l acc rs heq hnlt hgt c acc1 he ih =>
    exact ih h (tail_of hx) (tail_of hy) (addChosen_from _ _ _ _ _ _ hacc (chooseFrom_ok q2 y (hy y List.mem_cons_self) hp2 hq2) he)
  case case10 x xs y ys gc l acc rs heq hnlt hngt c rs1 hav acc1 he ih =>
    exact ih h (tail_of hx) (tail_of hy) (addChosen_from _ _ _ _ _ _ hacc
      (avgChosen_ok hP q1 q2 x y (hx x List.mem_cons_self) (hy y List.mem_cons_self) heq hp1 hq1 hp2 hq2 _ _ _ hav) he)
  case case12 x xs y ys gc l acc rs hne hlt hgc c acc1 he ih =>
    exact ih h (tail_of hx) hy (addChosen_from _ _ _ _ _ _ hacc (chooseFrom_ok q1 x (hx x List.mem_cons_self) hp1 hq1) he)
  case case14 x xs y ys gc l acc rs hne hlt hgc c acc1 he ih =>
    exact ih h hx (tail_of hy) (addChosen_from _ _ _ _ _ _ hacc (chooseFrom_ok q2 y (hy y List.mem_cons_self) hp2 hq2) he)
  case case15 => cases h; exact hacc
  case case16 ih => exact ih h hx (tail_of hy) hacc

/-! ### the prologue: IO nodes are copies of the second parent's nodes -/

theorem ioNodes_from {Q : List Role} (nt : List (Trait W)) (t0 : Option Int) (ns acc acc' : List Node)
    (h : ioNodes nt t0 ns acc = .ok acc') (hn : ∀ n ∈ ns, nodeRole n ∈ Q) (ha : ∀ n ∈ acc, nodeRole n ∈ Q) :
    ∀ n ∈ acc', nodeRole n ∈ Q := by
  induction ns generalizing acc with
  | nil => simp only [ioNodes, Except.ok.injEq] at h; subst h; exact ha
  | cons n ns ih =>
    unfold ioNodes at h
    split at h
    · split at h
      · cases h
      · refine ih _ h (tail_of hn) ?_
        intro m hm
        rcases (mem_nodeInsert _ _ _).mp hm with rfl | hm'
        · exact hn n List.mem_cons_self
        · exact ha m hm'
    · exact ih _ h (tail_of hn) ha

theorem matePrologue_from {Q : List Role} (g og : Genome W) (nt : List (Trait W)) (t0 : Option Int) (nodes : List Node)
    (h : matePrologue g og = .ok (nt, t0, nodes)) (hq2 : ∀ r ∈ og.nodes.map nodeRole, r ∈ Q) : ∀ n ∈ nodes, nodeRole n ∈ Q := by
  unfold matePrologue at h
  split at h
  · cases h
  · split at h
    · cases h
    · split at h
      · cases h
      · simp only at h
        split at h
        · cases h
        · rename_i nodes' hio
          simp only [Except.ok.injEq, Prod.mk.injEq] at h
          obtain ⟨_, _, rfl⟩ := h
          exact ioNodes_from _ _ _ _ _ hio (fun n hn => hq2 _ (List.mem_map_of_mem hn)) (by simp)

/-- **copy lemma for the three crossovers**: with both parents' bindings among the consistent allowed bindings
    `P`, `Q`, so are the child's -/
theorem mate_from {P : List Bind} {Q : List Role} (hP : ConsistentB P) (g og : Genome W) (id : Int) (f1 f2 : W)
    (rs rs' : List Nat) (c : Genome W)
    (hp1 : ∀ b ∈ g.genes.map geneBind, b ∈ P) (hq1 : ∀ r ∈ g.nodes.map nodeRole, r ∈ Q)
    (hp2 : ∀ b ∈ og.genes.map geneBind, b ∈ P) (hq2 : ∀ r ∈ og.nodes.map nodeRole, r ∈ Q) :
    (mateMultipoint g og id f1 f2 rs = .ok (c, rs') → (∀ b ∈ c.genes.map geneBind, b ∈ P) ∧ (∀ r ∈ c.nodes.map nodeRole, r ∈ Q)) ∧
    (mateMultipointAvg g og id f1 f2 rs = .ok (c, rs') → (∀ b ∈ c.genes.map geneBind, b ∈ P) ∧ (∀ r ∈ c.nodes.map nodeRole, r ∈ Q)) ∧
    (mateSinglePoint g og id rs = .ok (c, rs') → (∀ b ∈ c.genes.map geneBind, b ∈ P) ∧ (∀ r ∈ c.nodes.map nodeRole, r ∈ Q)) := by
  have fin : ∀ acc : MateAcc W, AccFrom P Q acc →
      (∀ b ∈ acc.genes.map geneBind, b ∈ P) ∧ (∀ r ∈ acc.nodes.map nodeRole, r ∈ Q) := by
    intro acc ha
    exact ⟨fun b hb => by obtain ⟨x, hx, rfl⟩ := List.mem_map.mp hb; exact ha.1 x hx,
           fun r hr => by obtain ⟨x, hx, rfl⟩ := List.mem_map.mp hr; exact ha.2 x hx⟩
  refine ⟨fun h => ?_, fun h => ?_, fun h => ?_⟩
  · unfold mateMultipoint at h
    split at h
    · cases h
    · rename_i nt t0 nodes hpro
      simp only at h
      split at h
      · cases h
      · rename_i acc rs1 hw
        simp only [Except.ok.injEq, Prod.mk.injEq] at h
        obtain ⟨rfl, _⟩ := h
        exact fin _ (multipointWalk_from g og nt t0 _ _ _ _ _ _ _ hp1 hq1 hp2 hq2 hw (fun _ hx => hx) (fun _ hy => hy)
          ⟨by simp, matePrologue_from g og nt t0 nodes hpro hq2⟩)
  · unfold mateMultipointAvg at h
    split at h
    · cases h
    · rename_i nt t0 nodes hpro
      simp only at h
      split at h
      · cases h
      · rename_i acc rs1 hw
        simp only [Except.ok.injEq, Prod.mk.injEq] at h
        obtain ⟨rfl, _⟩ := h
        exact fin _ (multipointAvgWalk_from hP g og nt t0 _ _ _ _ _ _ _ hp1 hq1 hp2 hq2 hw (fun _ hx => hx) (fun _ hy => hy)
          ⟨by simp, matePrologue_from g og nt t0 nodes hpro hq2⟩)
  · unfold mateSinglePoint at h
    split at h
    · cases h
    · rename_i nt t0 nodes hpro
      simp only at h
      split at h
      · cases h
      · split at h
        · cases h
        · rename_i acc rs1 hw
          simp only [Except.ok.injEq, Prod.mk.injEq] at h
          obtain ⟨rfl, _⟩ := h
          have hacc0 : AccFrom P Q ({ nodes := nodes, genes := [] } : MateAcc W) :=
            ⟨by simp, matePrologue_from g og nt t0 nodes hpro hq2⟩
          by_cases hs : g.genes.length < og.genes.length
          · simp only [hs, ↓reduceIte] at hw
            exact fin _ (singlePointWalk_from hP g og nt t0 _ _ _ _ _ _ _ _ _ hp1 hq1 hp2 hq2 hw (fun _ hx => hx) (fun _ hy => hy) hacc0)
          · simp only [hs, ↓reduceIte] at hw
            exact fin _ (singlePointWalk_from hP og g nt t0 _ _ _ _ _ _ _ _ _ hp2 hq2 hp1 hq1 hw (fun _ hx => hx) (fun _ hy => hy) hacc0)

end GoNeat.C03
