/-
  C16(b): the non-atomic structural mutators of Model/ParEpoch.lean, run back to back on one registry, ARE the atomic
  model functions of Model/Mutate.lean (which are co-simulated bit-exactly with the Go code).
-/
import GoNeat.Model.ParEpoch

set_option linter.unusedSectionVars false

namespace GoNeat.C16
open GoNeat Scalar
variable {W : Type} [Scalar W]

theorem run_bind {α β : Type} (p : Prog W α) (f : α → Prog W β) (reg : Reg W) :
    (p.bind f).run reg = (f (p.run reg).1).run (p.run reg).2 := by
  induction p generalizing reg with
  | done a => rfl
  | snap k ih => simp only [Prog.bind, Prog.run]; exact ih _ _
  | nextNode k ih => simp only [Prog.bind, Prog.run]; exact ih _ _
  | nextInn k ih => simp only [Prog.bind, Prog.run]; exact ih _ _
  | store i k ih => simp only [Prog.bind, Prog.run]; exact ih _

theorem mutateAddLinkP_run (g : Genome W) (reg : Reg W) (o : MutOpts W) (rs : List Nat) :
    packM ((mutateAddLinkP g o rs).run reg) = mutateAddLink g reg o rs := by
  unfold mutateAddLinkP mutateAddLink
  split
  · rfl
  split
  · rfl
  rcases Rand.float64 (W := W) rs with e | ⟨f, rs1⟩
  · rfl
  simp only
  generalize findOpenLink g _ _ _ _ rs1 = fo
  rcases fo with e | ⟨⟨l, b⟩, rs2⟩
  · rfl
  cases b
  · rfl
  rcases l with _ | ⟨n1, n2⟩
  · rfl
  simp only [Prog.run]
  generalize List.find? _ reg.records = fi
  rcases fi with _ | inn
  · simp only
    rcases Rand.intn g.traits.length rs2 with e | ⟨tn, rs3⟩
    · rfl
    simp only
    rcases newLinkWeight (W := W) rs3 with e | ⟨w, rs4⟩
    · rfl
    simp only [Prog.run, Reg.nextInnovation]
    rcases traitAt g tn with e | tr
    · rfl
    simp only [Prog.run]
    split <;> rfl
  · simp only
    rcases traitAt g inn.traitNum with e | tr
    · rfl
    simp only
    split
    · rfl
    split <;> rfl
theorem mutateAddNodeP_run (g : Genome W) (reg : Reg W) (o : MutOpts W) (rs : List Nat) :
    packM ((mutateAddNodeP g o rs).run reg) = mutateAddNode g reg o rs := by
  unfold mutateAddNodeP mutateAddNode
  split
  · rfl
  simp only
  generalize (if g.genes.length < 15 then pickSplitSmall g g.genes 0 rs else pickSplitLarge g 20 rs) = pk
  rcases pk with e | ⟨_ | k, rs1⟩
  · rfl
  · rfl
  simp only
  rcases g.genes[k]? with _ | gene
  · rfl
  simp only [Prog.run]
  generalize List.find? _ reg.records = fi
  rcases fi with _ | inn
  · simp only [Prog.run, Reg.nextNodeId]
    generalize traitAt _ 0 = ta
    rcases ta with e | tr
    · rfl
    simp only
    rcases randomNodeActivationType o rs1 with e | ⟨act, rs2⟩
    · rfl
    rfl
  · simp only
    generalize traitAt _ 0 = ta
    rcases ta with e | tr
    · rfl
    simp only
    split <;> rfl

def packC (x : CRes W × Reg W) : R (Option (Genome W × Reg W × Bool)) :=
  match x.1 with
  | .error e => .error e
  | .ok (none, rs) => .ok (none, rs)
  | .ok (some (g, b), rs) => .ok (some (g, x.2, b), rs)

theorem connectOneP_run (sensor output : Node) (g : Genome W) (reg : Reg W) (added : Bool) (rs : List Nat) :
    packC ((connectOneP sensor output g added rs).run reg) = connectOne sensor output g reg added rs := by
  unfold connectOneP connectOne
  split
  · rfl
  simp only [Prog.run]
  generalize List.find? _ reg.records = fi
  rcases fi with _ | inn
  · simp only
    rcases Rand.intn g.traits.length rs with e | ⟨tn, rs3⟩
    · rfl
    simp only
    rcases newLinkWeight (W := W) rs3 with e | ⟨w, rs4⟩
    · rfl
    simp only [Prog.run, Reg.nextInnovation]
    rcases traitAt g tn with e | tr
    · rfl
    rfl
  · simp only
    rcases traitAt g inn.traitNum with e | tr
    · rfl
    simp only
    split <;> rfl

theorem connectOneP_run_none (sensor output : Node) (g : Genome W) (reg : Reg W) (added : Bool) (rs rs' : List Nat)
    (h : ((connectOneP sensor output g added rs).run reg).1 = .ok (none, rs')) :
    ((connectOneP sensor output g added rs).run reg).2 = reg := by
  unfold connectOneP at h ⊢
  split at h
  · rename_i hc; rw [if_pos hc]; rfl
  rename_i hc; rw [if_neg hc]
  simp only [Prog.run] at h ⊢
  generalize List.find? _ reg.records = fi at h ⊢
  rcases fi with _ | inn
  · simp only at h ⊢
    generalize Rand.intn g.traits.length rs = ri at h ⊢
    rcases ri with e | ⟨tn, rs3⟩
    · rfl
    simp only at h ⊢
    generalize newLinkWeight (W := W) rs3 = nw at h ⊢
    rcases nw with e | ⟨w, rs4⟩
    · rfl
    simp only [Prog.run, Reg.nextInnovation] at h ⊢
    generalize traitAt g tn = ta at h ⊢
    rcases ta with e | tr
    · cases h
    · cases h
  · simp only at h ⊢
    rcases traitAt g inn.traitNum with e | tr
    · rfl
    simp only
    split <;> rfl

theorem connectLoopP_run (sensor : Node) (outs : List Node) (g : Genome W) (reg : Reg W) (added : Bool) (rs : List Nat) :
    packM ((connectLoopP sensor outs g added rs).run reg) = connectLoop sensor outs g reg added rs := by
  induction outs generalizing g reg added rs with
  | nil => rfl
  | cons o os ih =>
    unfold connectLoopP connectLoop
    rw [run_bind, ← connectOneP_run]
    have hn := connectOneP_run_none sensor o g reg added rs
    generalize (connectOneP sensor o g added rs).run reg = x at hn
    rcases x with ⟨e | ⟨_ | ⟨g', b⟩, rs'⟩, reg'⟩
    · rfl
    · have : reg' = reg := hn rs' rfl
      subst this; rfl
    · exact ih g' reg' b rs'

theorem mutateConnectSensorsP_run (g : Genome W) (reg : Reg W) (rs : List Nat) :
    packM ((mutateConnectSensorsP g rs).run reg) = mutateConnectSensors g reg rs := by
  unfold mutateConnectSensorsP mutateConnectSensors
  split
  · rfl
  simp only
  split
  · rfl
  generalize Rand.intn _ rs = ri
  rcases ri with e | ⟨k, rs1⟩
  · rfl
  simp only
  generalize (List.filter _ _)[k]? = ge
  rcases ge with _ | s
  · rfl
  exact connectLoopP_run _ _ _ _ _ _

/-- every structural mutation, back to back = atomic model -/
theorem mutKind_run (k : MutKind W) (g : Genome W) (reg : Reg W) (rs : List Nat) :
    packM ((k.prog g rs).run reg) = k.atomic g reg rs := by
  cases k with
  | addLink o => exact mutateAddLinkP_run g reg o rs
  | addNode o => exact mutateAddNodeP_run g reg o rs
  | connectSensors => exact mutateConnectSensorsP_run g reg rs

/-! ### the species goroutine -/

theorem paramStage_tail (o : EpochOpts W) (x : MRes W × Reg W) :
    packM ((paramStage o x.1).run x.2) = (match packM x with
      | .error e => .error e
      | .ok ((g', reg', true), rs') => .ok ((g', reg', true), rs')
      | .ok ((g', reg', false), rs') =>
        match mutateAllNonstructural g' o.mopts rs' with
        | .error e => .error e
        | .ok (g'', rs'') => .ok ((g'', reg', false), rs'')) := by
  rcases x with ⟨e | ⟨⟨g', b⟩, rs'⟩, reg'⟩
  · rfl
  cases b
  · simp only [paramStage, packM]
    rcases mutateAllNonstructural g' o.mopts rs' with e | ⟨g'', rs''⟩ <;> rfl
  · rfl

theorem mutateBabyP_run (o : EpochOpts W) (g : Genome W) (reg : Reg W) (rs : List Nat) :
    packM ((mutateBabyP o g rs).run reg) = mutateBaby o g reg rs := by
  unfold mutateBabyP mutateBaby structStageP
  rcases Rand.float64 (W := W) rs with e | ⟨f1, rs1⟩
  · rfl
  simp only
  by_cases h1 : lt f1 o.mutateAddNodeProb = true
  · rw [if_pos h1, if_pos h1, run_bind, run_bind, ← mutateAddNodeP_run]
    generalize (mutateAddNodeP g o.mopts rs1).run reg = x
    rcases x with ⟨e | ⟨⟨g', b⟩, rs'⟩, reg'⟩ <;> rfl
  · rw [if_neg h1, if_neg h1]
    rcases Rand.float64 (W := W) rs1 with e | ⟨f2, rs2⟩
    · rfl
    simp only
    by_cases h2 : lt f2 o.mutateAddLinkProb = true
    · rw [if_pos h2, if_pos h2, run_bind, run_bind, ← mutateAddLinkP_run]
      generalize (mutateAddLinkP g o.mopts rs2).run reg = x
      rcases x with ⟨e | ⟨⟨g', b⟩, rs'⟩, reg'⟩ <;> rfl
    · rw [if_neg h2, if_neg h2]
      rcases Rand.float64 (W := W) rs2 with e | ⟨f3, rs3⟩
      · rfl
      simp only
      by_cases h3 : lt f3 o.mutateConnectSensors = true
      · rw [if_pos h3, if_pos h3, run_bind, ← mutateConnectSensorsP_run]
        exact paramStage_tail o _
      · rw [if_neg h3, if_neg h3]
        simp only [Prog.bind, paramStage, packM]
        rcases mutateAllNonstructural g o.mopts rs3 with e | ⟨g'', rs''⟩ <;> rfl

def packS (x : SRes W × Reg W) : R (ReproState W) :=
  match x.1 with
  | .error e => .error e
  | .ok (st', rs') => .ok ({ st' with reg := x.2 }, rs')

theorem reproduceOneP_run (o : EpochOpts W) (generation : Int) (s : Species W) (sorted : List (Species W)) (champ : Org W)
    (count : Int) (st : ReproState W) (r : Reg W) (rs : List Nat) :
    packS ((reproduceOneP o generation s sorted champ count st rs).run r) =
      reproduceOne o generation s sorted champ count { st with reg := r } rs := by
  unfold reproduceOneP reproduceOne
  simp only
  by_cases hsc : st.superChamp > 0
  · rw [if_pos hsc, if_pos hsc]
    rcases champ.genome.duplicate count with e | g0
    · rfl
    simp only
    rw [run_bind]
    unfold superChampMutP
    by_cases h1 : st.superChamp > 1
    · rw [if_pos h1, if_pos h1]
      rcases Rand.float64 (W := W) rs with e | ⟨f, rs1⟩
      · rfl
      simp only
      by_cases h8 : (lt f (ofDec 8 1) || eq o.mutateAddLinkProb zero) = true
      · rw [if_pos h8, if_pos h8]
        rcases mutateLinkWeights g0 o.mopts.weightMutPower one .gaussian rs1 with e | ⟨g1, rs2⟩ <;> rfl
      · rw [if_neg h8, if_neg h8, run_bind, ← mutateAddLinkP_run]
        generalize (mutateAddLinkP g0 o.mopts rs1).run r = x
        rcases x with ⟨e | ⟨⟨g', b⟩, rs'⟩, reg'⟩ <;> rfl
    · rw [if_neg h1, if_neg h1]; rfl
  · rw [if_neg hsc, if_neg hsc]
    by_cases hcc : (!st.champCloneDone && decide (s.expectedOffspring > 5)) = true
    · rw [if_pos hcc, if_pos hcc]
      rcases champ.genome.duplicate count with e | g0 <;> rfl
    · rw [if_neg hcc, if_neg hcc]
      rcases Rand.float64 (W := W) rs with e | ⟨f, rs1⟩
      · rfl
      simp only
      by_cases hmo : (lt f o.mutateOnlyProb || s.orgs.length == 1) = true
      · rw [if_pos hmo, if_pos hmo]
        rcases Rand.intn s.orgs.length rs1 with e | ⟨k, rs2⟩
        · rfl
        simp only
        rcases s.orgs[k]? with _ | mom
        · rfl
        simp only
        rcases mom.genome.duplicate count with e | g0
        · rfl
        simp only
        rw [run_bind, ← mutateBabyP_run]
        generalize (mutateBabyP o g0 rs2).run r = x
        rcases x with ⟨e | ⟨⟨g', b⟩, rs'⟩, reg'⟩ <;> rfl
      · rw [if_neg hmo, if_neg hmo]
        rcases Rand.intn s.orgs.length rs1 with e | ⟨k, rs2⟩
        · rfl
        simp only
        rcases s.orgs[k]? with _ | mom
        · rfl
        simp only
        rcases Rand.float64 (W := W) rs2 with e | ⟨f2, rs3⟩
        · rfl
        simp only
        generalize hx : (if gt f2 o.interspeciesMateRate = true then _ else _ : R (Org W)) = x
        have hpd : pickDad o s sorted f2 rs3 = x := Eq.trans rfl hx
        rw [hpd]
        rcases x with e | ⟨dad, rs4⟩
        · rfl
        simp only
        rcases Rand.float64 (W := W) rs4 with e | ⟨f3, rs5⟩
        · rfl
        simp only
        generalize hy : (if lt f3 o.mateMultipointProb = true then _ else _ : R (Genome W)) = y
        have hmc : mateChild o mom dad count f3 rs5 = y := Eq.trans rfl hy
        rw [hmc]
        rcases y with e | ⟨child, rs7⟩
        · rfl
        simp only
        rcases Rand.float64 (W := W) rs7 with e | ⟨f5, rs8⟩
        · rfl
        simp only
        split
        · rw [run_bind, ← mutateBabyP_run]
          generalize (mutateBabyP o child rs8).run r = x
          rcases x with ⟨e | ⟨⟨g', b⟩, rs'⟩, reg'⟩ <;> rfl
        · rfl

theorem reproduceLoopP_run (o : EpochOpts W) (generation : Int) (s : Species W) (sorted : List (Species W)) (champ : Org W)
    (n : Nat) : ∀ (count : Int) (st : ReproState W) (r : Reg W) (rs : List Nat),
    packS ((reproduceLoopP o generation s sorted champ n count st rs).run r) =
      reproduceLoop o generation s sorted champ n count { st with reg := r } rs := by
  induction n with
  | zero => intro count st r rs; rfl
  | succ n ih =>
    intro count st r rs
    unfold reproduceLoopP reproduceLoop
    rw [run_bind, ← reproduceOneP_run]
    generalize (reproduceOneP o generation s sorted champ count st rs).run r = x
    rcases x with ⟨e | ⟨st', rs'⟩, reg'⟩
    · rfl
    · exact ih (count + 1) st' reg' rs'

/-- the sequential result type from a species goroutine's `run` -/
def packB (x : BRes W × Reg W) : R (List (Org W) × Reg W × Nat) :=
  match x.1 with
  | .error e => .error e
  | .ok ((babies, uid), rs') => .ok ((babies, x.2, uid), rs')

/-- **a species goroutine run alone = `Species.reproduce` of the sequential model** -/
theorem reproduceSpeciesP_run (o : EpochOpts W) (generation : Int) (s : Species W) (sorted : List (Species W)) (reg : Reg W)
    (nextUid : Nat) (rs : List Nat) :
    packB ((reproduceSpeciesP o generation s sorted reg nextUid rs).run reg) =
      reproduceSpecies o generation s sorted reg nextUid rs := by
  unfold reproduceSpeciesP reproduceSpecies
  rcases s.orgs.head? with _ | champ
  · simp only
    split <;> rfl
  simp only
  rw [run_bind]
  have := reproduceLoopP_run o generation s sorted champ s.expectedOffspring.toNat 0
    { superChamp := champ.superChampOffspring, champCloneDone := false, reg := reg, nextUid := nextUid, babies := [] } reg rs
  simp only at this
  rw [← this]
  generalize (reproduceLoopP o generation s sorted champ s.expectedOffspring.toNat 0 _ rs).run reg = x
  rcases x with ⟨e | ⟨st', rs'⟩, reg'⟩ <;> rfl

end GoNeat.C16
