/-
  C16(b): the non-atomic structural mutators of Model/ParEpoch.lean, run back to back on one registry, ARE the atomic
  model functions of Model/Mutate.lean (which are co-simulated bit-exactly with the Go code).
-/
import GoNeat.Model.ParEpoch

set_option linter.unusedSectionVars false

namespace GoNeat.C16
open GoNeat Scalar
variable {W : Type} [Scalar W]

theorem run_bind {α β : Type} (p : Prog W α) (f : α → Prog W β) (reg : Reg W) :
    (p.bind f).run reg = (f (p.run reg).1).run (p.run reg).2 := by
  induction p generalizing reg with
  | done a => rfl
  | snap k ih => simp only [Prog.bind, Prog.run]; exact ih _ _
  | nextNode k ih => simp only [Prog.bind, Prog.run]; exact ih _ _
  | nextInn k ih => simp only [Prog.bind, Prog.run]; exact ih _ _
  | store i k ih => simp only [Prog.bind, Prog.run]; exact ih _

theorem mutateAddLinkP_run (g : Genome W) (reg : Reg W) (o : MutOpts W) (rs : List Nat) :
    packM ((mutateAddLinkP g o rs).run reg) = mutateAddLink g reg o rs := by
  unfold mutateAddLinkP mutateAddLink
  split
  · rfl
  split
  · rfl
  rcases Rand.float64 (W := W) rs with e | ⟨f, rs1⟩
  · rfl
  simp only
  generalize findOpenLink g _ _ _ _ rs1 = fo
  rcases fo with e | ⟨⟨l, b⟩, rs2⟩
  · rfl
  cases b
  · rfl
  rcases l with _ | ⟨n1, n2⟩
  · rfl
  simp only [Prog.run]
  generalize List.find? _ reg.records = fi
  rcases fi with _ | inn
  · simp only
    rcases Rand.intn g.traits.length rs2 with e | ⟨tn, rs3⟩
    · rfl
    simp only
    rcases newLinkWeight (W := W) rs3 with e | ⟨w, rs4⟩
    · rfl
    simp only [Prog.run, Reg.nextInnovation]
    rcases traitAt g tn with e | tr
    · rfl
    simp only [Prog.run]
    split <;> rfl
  · simp only
    rcases traitAt g inn.traitNum with e | tr
    · rfl
    simp only
    split
    · rfl
    split <;> rfl
theorem mutateAddNodeP_run (g : Genome W) (reg : Reg W) (o : MutOpts W) (rs : List Nat) :
    packM ((mutateAddNodeP g o rs).run reg) = mutateAddNode g reg o rs := by
  unfold mutateAddNodeP mutateAddNode
  split
  · rfl
  simp only
  generalize (if g.genes.length < 15 then pickSplitSmall g g.genes 0 rs else pickSplitLarge g 20 rs) = pk
  rcases pk with e | ⟨_ | k, rs1⟩
  · rfl
  · rfl
  simp only
  rcases g.genes[k]? with _ | gene
  · rfl
  simp only [Prog.run]
  generalize List.find? _ reg.records = fi
  rcases fi with _ | inn
  · simp only [Prog.run, Reg.nextNodeId]
    generalize traitAt _ 0 = ta
    rcases ta with e | tr
    · rfl
    simp only
    rcases randomNodeActivationType o rs1 with e | ⟨act, rs2⟩
    · rfl
    rfl
  · simp only
    generalize traitAt _ 0 = ta
    rcases ta with e | tr
    · rfl
    simp only
    split <;> rfl

def packC (x : CRes W × Reg W) : R (Option (Genome W × Reg W × Bool)) :=
  match x.1 with
  | .error e => .error e
  | .ok (none, rs) => .ok (none, rs)
  | .ok (some (g, b), rs) => .ok (some (g, x.2, b), rs)

theorem connectOneP_run (sensor output : Node) (g : Genome W) (reg : Reg W) (added : Bool) (rs : List Nat) :
    packC ((connectOneP sensor output g added rs).run reg) = connectOne sensor output g reg added rs := by
  unfold connectOneP connectOne
  split
  · rfl
  simp only [Prog.run]
  generalize List.find? _ reg.records = fi
  rcases fi with _ | inn
  · simp only
    rcases Rand.intn g.traits.length rs with e | ⟨tn, rs3⟩
    · rfl
    simp only
    rcases newLinkWeight (W := W) rs3 with e | ⟨w, rs4⟩
    · rfl
    simp only [Prog.run, Reg.nextInnovation]
    rcases traitAt g tn with e | tr
    · rfl
    rfl
  · simp only
    rcases traitAt g inn.traitNum with e | tr
    · rfl
    simp only
    split <;> rfl

theorem connectOneP_run_none (sensor output : Node) (g : Genome W) (reg : Reg W) (added : Bool) (rs rs' : List Nat)
    (h : ((connectOneP sensor output g added rs).run reg).1 = .ok (none, rs')) :
    ((connectOneP sensor output g added rs).run reg).2 = reg := by
  unfold connectOneP at h ⊢
  split at h
  · rename_i hc; rw [if_pos hc]; rfl
  rename_i hc; rw [if_neg hc]
  simp only [Prog.run] at h ⊢
  generalize List.find? _ reg.records = fi at h ⊢
  rcases fi with _ | inn
  · simp only at h ⊢
    generalize Rand.intn g.traits.length rs = ri at h ⊢
    rcases ri with e | ⟨tn, rs3⟩
    · rfl
    simp only at h ⊢
    generalize newLinkWeight (W := W) rs3 = nw at h ⊢
    rcases nw with e | ⟨w, rs4⟩
    · rfl
    simp only [Prog.run, Reg.nextInnovation] at h ⊢
    generalize traitAt g tn = ta at h ⊢
    rcases ta with e | tr
    · cases h
    · cases h
  · simp only at h ⊢
    rcases traitAt g inn.traitNum with e | tr
    · rfl
    simp only
    split <;> rfl

theorem connectLoopP_run (sensor : Node) (outs : List Node) (g : Genome W) (reg : Reg W) (added : Bool) (rs : List Nat) :
    packM ((connectLoopP sensor outs g added rs).run reg) = connectLoop sensor outs g reg added rs := by
  induction outs generalizing g reg added rs with
  | nil => rfl
  | cons o os ih =>
    unfold connectLoopP connectLoop
    rw [run_bind, ← connectOneP_run]
    have hn := connectOneP_run_none sensor o g reg added rs
    generalize (connectOneP sensor o g added rs).run reg = x at hn
    rcases x with ⟨e | ⟨_ | ⟨g', b⟩, rs'⟩, reg'⟩
    · rfl
    · have : reg' = reg := hn rs' rfl
      subst this; rfl
    · exact ih g' reg' b rs'

theorem mutateConnectSensorsP_run (g : Genome W) (reg : Reg W) (rs : List Nat) :
    packM ((mutateConnectSensorsP g rs).run reg) = mutateConnectSensors g reg rs := by
  unfold mutateConnectSensorsP mutateConnectSensors
  split
  · rfl
  simp only
  split
  · rfl
  generalize Rand.intn _ rs = ri
  rcases ri with e | ⟨k, rs1⟩
  · rfl
  simp only
  generalize (List.filter _ _)[k]? = ge
  rcases ge with _ | s
  · rfl
  exact connectLoopP_run _ _ _ _ _ _

/-- every structural mutation, back to back = atomic model -/
theorem mutKind_run (k : MutKind W) (g : Genome W) (reg : Reg W) (rs : List Nat) :
    packM ((k.prog g rs).run reg) = k.atomic g reg rs := by
  cases k with
  | addLink o => exact mutateAddLinkP_run g reg o rs
  | addNode o => exact mutateAddNodeP_run g reg o rs
  | connectSensors => exact mutateConnectSensorsP_run g reg rs

end GoNeat.C16
