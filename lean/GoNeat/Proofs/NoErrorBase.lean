/-
  Property C02, clause "turning over an epoch succeeds without error": vocabulary and the random primitives.

  `Safe Post r`  : the result `r` of a computation over the raw stream is not an implementation error
                   (`.error (.error msg)`); running out of random numbers on a finite stream is allowed; and if it is
                   a value, the value satisfies `Post`.
  `SafeE Post r` : the same for a computation that draws nothing (it must return a value).
  Kind A: every lemma holds for every scalar type, every stream.
-/
import GoNeat.Model.Epoch
import GoNeat.Proofs.MateLemmas
import GoNeat.Proofs.PrefixDet2

namespace GoNeat.NoErr
open GoNeat Scalar
variable {W : Type} [Scalar W] {α β : Type}

def Safe (Post : α → Prop) : R α → Prop
  | .ok (a, _) => Post a
  | .error .outOfRandom => True
  | .error (.error _) => False

def SafeE (Post : α → Prop) : Except Stop α → Prop
  | .ok a => Post a
  | .error _ => False

theorem Safe.of_error {P : α → Prop} {Q : β → Prop} {e : Stop} (h : Safe P (.error e : R α)) : Safe Q (.error e : R β) := by
  cases e <;> simp_all [Safe]

theorem Safe.mono {P Q : α → Prop} {r : R α} (h : Safe P r) (hpq : ∀ a, P a → Q a) : Safe Q r := by
  match r, h with
  | .ok (a, _), h => exact hpq a h
  | .error .outOfRandom, _ => trivial

/-- strengthen the postcondition with facts that follow from the equation `r = ok …` (existing closure theorems) -/
theorem Safe.and_ok {P Q : α → Prop} {r : R α} (h : Safe P r) (hq : ∀ a rs, r = .ok (a, rs) → P a → Q a) : Safe Q r := by
  match r, h, hq with
  | .ok (a, rs), h, hq => exact hq a rs rfl h
  | .error .outOfRandom, _, _ => trivial

theorem Safe.ne {P : α → Prop} {r : R α} (h : Safe P r) (msg : String) : r ≠ .error (.error msg) := by
  intro e; rw [e] at h; exact h

theorem Safe.post {P : α → Prop} {r : R α} (h : Safe P r) {a : α} {rs : List Nat} (e : r = .ok (a, rs)) : P a := by
  rw [e] at h; exact h

theorem safe_of_ne {r : R α} (h : ∀ msg, r ≠ .error (.error msg)) : Safe (fun _ => True) r := by
  match r, h with
  | .ok (a, _), _ => trivial
  | .error .outOfRandom, _ => trivial
  | .error (.error m), h => exact absurd rfl (h m)

theorem SafeE.of_error {P : α → Prop} {Q : β → Prop} {e : Stop} (h : SafeE P (.error e : Except Stop α)) : Safe Q (.error e : R β) :=
  absurd h (by simp [SafeE])

theorem SafeE.of_errorE {P : α → Prop} {Q : β → Prop} {e : Stop} (h : SafeE P (.error e : Except Stop α)) :
    SafeE Q (.error e : Except Stop β) := absurd h (by simp [SafeE])

theorem SafeE.ok {P : α → Prop} {r : Except Stop α} (h : SafeE P r) : ∃ a, r = .ok a ∧ P a := by
  match r, h with
  | .ok a, h => exact ⟨a, rfl, h⟩

theorem SafeE.post {P : α → Prop} {r : Except Stop α} (h : SafeE P r) {a : α} (e : r = .ok a) : P a := by
  rw [e] at h; exact h

theorem SafeE.mono {P Q : α → Prop} {r : Except Stop α} (h : SafeE P r) (hpq : ∀ a, P a → Q a) : SafeE Q r := by
  match r, h with
  | .ok a, h => exact hpq a h

/-! ### the random primitives -/

/-- the raw stream consists of 63-bit values — what `rand.Int63()` returns (DESIGN §2.3).  The float facts
    (`UnitMulLe`, `PickLaw`) speak about draws in `[0,1)`, i.e. about such raw values only. -/
def Valid (rs : List Nat) : Prop := ∀ x ∈ rs, x < 2 ^ 63
instance (rs : List Nat) : Decidable (Valid rs) := by unfold Valid; infer_instance

/-- every computation of the model returns an unconsumed rest of its input stream (C17, `PrefixDet`) -/
theorem valid_of_ok {m : Rand α} (hm : PrefixDet m) {rs rs' : List Nat} {a : α} (hv : Valid rs) (he : m rs = .ok (a, rs')) :
    Valid rs' := by
  obtain ⟨used, hu, _⟩ := hm rs a rs' he
  intro x hx; exact hv x (by rw [hu]; exact List.mem_append_right _ hx)

/-- `rand.Float64` returns a unit-interval draw different from 1, made of a raw value of the stream -/
def IsDraw (rs : List Nat) (f : W) : Prop := ∃ x ∈ rs, f = ofUnit63 x ∧ eq f one = false

theorem safe_float64 (rs : List Nat) : Safe (IsDraw (W := W) rs) (Rand.float64 (W := W) rs) := by
  induction rs with
  | nil => simp [Rand.float64, Safe]
  | cons x rs ih =>
    unfold Rand.float64
    simp only
    split
    · exact ih.mono (fun f ⟨y, hy, h⟩ => ⟨y, List.mem_cons_of_mem _ hy, h⟩)
    · rename_i h
      exact ⟨x, List.mem_cons_self, rfl, by simpa using h⟩

theorem safe_float32 (rs : List Nat) : Safe (fun _ => True) (Rand.float32Ge03 W rs) := by
  induction rs with
  | nil => simp [Rand.float32Ge03, Safe]
  | cons x rs ih =>
    unfold Rand.float32Ge03
    simp only
    split
    · exact ih
    · split
      · exact ih
      · trivial

theorem safe_int31nLoop (n max : Nat) (rs : List Nat) : Safe (fun _ => True) (Rand.int31nLoop n max rs) := by
  induction rs with
  | nil => simp [Rand.int31nLoop, Safe]
  | cons x rs ih =>
    unfold Rand.int31nLoop
    simp only
    split
    · exact ih
    · trivial

/-- `rand.Intn(n)` with `n > 0` does not panic and returns a value below `n` -/
theorem safe_intn (n : Nat) (hn : 0 < n) (rs : List Nat) : Safe (fun k => k < n) (Rand.intn n rs) := by
  have h0 : Safe (fun _ => True) (Rand.intn n rs) := by
    unfold Rand.intn
    split
    · omega
    · split
      · split <;> trivial
      · exact safe_int31nLoop _ _ _
  exact h0.and_ok (fun a rs' e _ => C04.intn_lt n rs rs' a e)

theorem safe_randSign (rs : List Nat) : Safe (fun _ => True) (Rand.randSign rs) := by
  cases rs <;> simp [Rand.randSign, Safe]

theorem safe_signedUnit (rs : List Nat) : Safe (fun _ => True) (Rand.signedUnit (W := W) rs) := by
  unfold Rand.signedUnit
  have h1 := safe_randSign rs
  split
  · next e he => rw [he] at h1; exact h1.of_error
  · next s rs1 he =>
    have h2 := safe_float64 (W := W) rs1
    split
    · next e he2 => rw [he2] at h2; exact h2.of_error
    · trivial

end GoNeat.NoErr
