/-
  C02 "without error": a spawned population (`NewPopulation`) satisfies the population hypotheses `PopOk` of the epoch
  theorem — helper lemmas (species stay non-empty under speciation; spawned organisms are unmarked copies of the
  start genome's trait shape).  Kind A.
-/
import GoNeat.Proofs.NoErrorEpoch

set_option linter.unusedSectionVars false

namespace GoNeat.NoErr
open GoNeat Scalar GoNeat.C01 GoNeat.C02
variable {W : Type} [Scalar W]

theorem speciateOne_nonempty (o : EpochOpts W) (p p' : Pop W) (org : Org W) (h : speciateOne o p org = .ok p')
    (hne : ∀ s ∈ p.species, s.orgs ≠ []) : ∀ s ∈ p'.species, s.orgs ≠ [] := by
  unfold speciateOne at h
  simp only at h
  have hnew : ∀ s : Species W, s.orgs = [org] → ∀ s' ∈ p.species ++ [s], s'.orgs ≠ [] := by
    intro s hs s' hs'
    rcases List.mem_append.mp hs' with h1 | h1
    · exact hne s' h1
    · simp only [List.mem_singleton] at h1; rw [h1, hs]; simp
  split at h
  · cases h; exact hnew _ rfl
  · split at h
    · cases h
    · split at h
      · cases h
        intro s hs
        rcases C01.mem_modify _ _ _ _ hs with h1 | ⟨s0, hs0, rfl⟩
        · exact hne s h1
        · simp
      · cases h; exact hnew _ rfl

theorem speciateLoop_nonempty (o : EpochOpts W) (p p' : Pop W) (orgs : List (Org W)) (h : speciateLoop o p orgs = .ok p')
    (hne : ∀ s ∈ p.species, s.orgs ≠ []) : ∀ s ∈ p'.species, s.orgs ≠ [] := by
  induction orgs generalizing p with
  | nil => unfold speciateLoop at h; cases h; exact hne
  | cons x xs ih =>
    unfold speciateLoop at h
    split at h
    · cases h
    · next p1 h1 => exact ih p1 h (speciateOne_nonempty o p p1 x h1 hne)

theorem mutateLinkWeights_traits (g g' : Genome W) (power rate : W) (mt : WeightMutator) (rs rs' : List Nat)
    (h : mutateLinkWeights g power rate mt rs = .ok (g', rs')) : g'.traits = g.traits := by
  unfold mutateLinkWeights at h
  split at h
  · cases h
  · split at h
    · cases h
    · simp only at h
      split at h
      · cases h
      · cases h; rfl

theorem duplicate_traits (g d : Genome W) (id : Int) (h : g.duplicate id = .ok d) : d.traits = g.traits := by
  unfold Genome.duplicate at h
  simp only at h
  split at h
  · cases h
  · split at h
    · cases h
    · cases h; rfl

theorem spawnLoop_orgs (g : Genome W) (n : Nat) (count : Int) (uid : Nat) (orgs : List (Org W)) (rs rs' : List Nat)
    (h : spawnLoop g n count uid rs = .ok (orgs, rs')) : ∀ x ∈ orgs, x.toEliminate = false ∧ shape x.genome = shape g := by
  induction n generalizing count uid orgs rs rs' with
  | zero => simp only [spawnLoop, Except.ok.injEq, Prod.mk.injEq] at h; obtain ⟨rfl, _⟩ := h; intro x hx; cases hx
  | succ n ih =>
    unfold spawnLoop at h
    split at h
    · cases h
    · next d hd =>
      split at h
      · cases h
      · next d' rs1 hm =>
        split at h
        · cases h
        · next rest rs2 hr =>
          simp only [Except.ok.injEq, Prod.mk.injEq] at h
          obtain ⟨rfl, _⟩ := h
          intro x hx
          rcases List.mem_cons.mp hx with rfl | hx'
          · refine ⟨rfl, ?_⟩
            show d'.traits.map _ = g.traits.map _
            rw [mutateLinkWeights_traits _ _ _ _ _ _ _ hm, duplicate_traits _ _ _ hd]
          · exact ih _ _ _ _ _ hr x hx'

end GoNeat.NoErr
