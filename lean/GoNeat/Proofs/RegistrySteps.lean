/-
  Helper lemmas for property C03 (Props/C03.lean): the structural mutators factor through the resolve steps of
  Spec/Registry.lean (`LinkStep`, `LinkSteps`, `NodeStep`); the steps preserve the invariant (local form) and issue only
  fresh numbers (`GenInv`, `Issued`); parametric mutators keep all bindings (`SameBinds`).
-/
import GoNeat.Proofs.RegistryLemmas
import GoNeat.Proofs.CopyBinds
import GoNeat.Props.C05

set_option linter.unusedSectionVars false

namespace GoNeat.C03
open GoNeat Scalar
variable {W : Type} [Scalar W]

/-- gene bindings / node roles of one genome -/
abbrev gb (g : Genome W) : List Bind := g.genes.map geneBind
abbrev gr (g : Genome W) : List Role := g.nodes.map nodeRole

/-! ### the structural mutators factor through the resolve steps -/

theorem resolveLink_of_found {reg : Reg W} {s d : Int} {r : Bool} {i : Innov W}
    (hf : reg.records.find? (linkMatch s d r) = some i) (w : W) (tn : Int) : resolveLink reg s d r w tn = (i.inn, reg) := by
  unfold resolveLink; rw [hf]
theorem resolveLink_of_none {reg : Reg W} {s d : Int} {r : Bool}
    (hf : reg.records.find? (linkMatch s d r) = none) (w : W) (tn : Int) :
    resolveLink reg s d r w tn =
      (reg.nextInn + 1, (reg.nextInnovation.2).store { typ := 2, inId := s, outId := d, inn := reg.nextInn + 1, inn2 := 0, w := w,
                                                        traitNum := tn, newNode := 0, oldInn := 0, recur := r }) := by
  unfold resolveLink; rw [hf]; rfl

/-- what an add-link / connect-sensors step does: nothing, or one gene whose number was resolved for its link -/
def LinkStep (g : Genome W) (reg : Reg W) (g' : Genome W) (reg' : Reg W) : Prop :=
  (g' = g ∧ reg' = reg) ∨
  ∃ (s d : Int) (r : Bool) (w : W) (tn k : Int) (gene : Gene W),
    resolveLink reg s d r w tn = (k, reg') ∧ geneBind gene = (k, s, d, r) ∧
    g' = { g with genes := geneInsert g.genes gene }

theorem mutateAddLink_steps (g g' : Genome W) (reg reg' : Reg W) (o : MutOpts W) (rs rs' : List Nat) (res : Bool)
    (h : mutateAddLink g reg o rs = .ok ((g', reg', res), rs')) : LinkStep g reg g' reg' := by
  unfold mutateAddLink at h
  split at h
  · cases h
  · split at h
    · cases h
    · split at h
      · cases h
      · simp only at h
        split at h
        · cases h
        · simp only [Except.ok.injEq, Prod.mk.injEq] at h
          obtain ⟨⟨rfl, rfl, _⟩, _⟩ := h
          exact .inl ⟨rfl, rfl⟩
        · simp only [Except.ok.injEq, Prod.mk.injEq] at h
          obtain ⟨⟨rfl, rfl, _⟩, _⟩ := h
          exact .inl ⟨rfl, rfl⟩
        · rename_i n1 n2 rs2 hf
          split at h
          · rename_i inn hfind
            split at h
            · cases h
            · split at h
              · simp only [Except.ok.injEq, Prod.mk.injEq] at h
                obtain ⟨⟨rfl, rfl, _⟩, _⟩ := h
                exact .inl ⟨rfl, rfl⟩
              · split at h
                · cases h
                · simp only [Except.ok.injEq, Prod.mk.injEq] at h
                  obtain ⟨⟨rfl, rfl, _⟩, _⟩ := h
                  exact .inr ⟨_, _, _, inn.w, inn.traitNum, _, _, resolveLink_of_found hfind _ _, rfl, rfl⟩
          · rename_i hfind
            split at h
            · cases h
            · split at h
              · cases h
              · split at h
                · cases h
                · split at h
                  · cases h
                  · simp only [Except.ok.injEq, Prod.mk.injEq] at h
                    obtain ⟨⟨rfl, rfl, _⟩, _⟩ := h
                    exact .inr ⟨_, _, _, _, _, _, _, resolveLink_of_none hfind _ _, rfl, rfl⟩

/-- several link steps in a row (connect-sensors adds one gene per non-sensor node) -/
inductive LinkSteps : Genome W → Reg W → Genome W → Reg W → Prop where
  | refl (g : Genome W) (reg : Reg W) : LinkSteps g reg g reg
  | step {g g1 g' : Genome W} {reg reg1 reg' : Reg W} : LinkStep g reg g1 reg1 → LinkSteps g1 reg1 g' reg' → LinkSteps g reg g' reg'

theorem connectOne_steps (sensor output : Node) (g g' : Genome W) (reg reg' : Reg W) (added added' : Bool) (rs rs' : List Nat)
    (h : connectOne sensor output g reg added rs = .ok (some (g', reg', added'), rs')) : LinkStep g reg g' reg' := by
  unfold connectOne at h
  have hpred : (fun i : Innov W => i.typ == 2 && i.inId == sensor.id && i.outId == output.id && !i.recur) =
      linkMatch sensor.id output.id false := by
    funext i; simp [linkMatch]
  rw [hpred] at h
  split at h
  · simp only [Except.ok.injEq, Prod.mk.injEq, Option.some.injEq] at h
    obtain ⟨⟨rfl, rfl, _⟩, _⟩ := h
    exact .inl ⟨rfl, rfl⟩
  · split at h
    · rename_i inn hfind
      split at h
      · cases h
      · dsimp only at h
        split at h
        · simp at h
        · simp only [Except.ok.injEq, Prod.mk.injEq, Option.some.injEq] at h
          obtain ⟨⟨rfl, rfl, _⟩, _⟩ := h
          exact .inr ⟨_, _, _, inn.w, inn.traitNum, _, _, resolveLink_of_found hfind _ _, rfl, rfl⟩
    · rename_i hfind
      split at h
      · cases h
      · split at h
        · cases h
        · simp only at h
          split at h
          · cases h
          · simp only [Except.ok.injEq, Prod.mk.injEq, Option.some.injEq] at h
            obtain ⟨⟨rfl, rfl, _⟩, _⟩ := h
            exact .inr ⟨_, _, _, _, _, _, _, resolveLink_of_none hfind _ _, rfl, rfl⟩

theorem connectLoop_steps (sensor : Node) (outs : List Node) (g g' : Genome W) (reg reg' : Reg W) (added res : Bool)
    (rs rs' : List Nat) (h : connectLoop sensor outs g reg added rs = .ok ((g', reg', res), rs')) : LinkSteps g reg g' reg' := by
  induction outs generalizing g reg added rs with
  | nil =>
    simp only [connectLoop, Except.ok.injEq, Prod.mk.injEq] at h
    obtain ⟨⟨rfl, rfl, _⟩, _⟩ := h
    exact .refl _ _
  | cons o os ih =>
    unfold connectLoop at h
    split at h
    · cases h
    · simp only [Except.ok.injEq, Prod.mk.injEq] at h
      obtain ⟨⟨rfl, rfl, _⟩, _⟩ := h
      exact .refl _ _
    · rename_i g1 reg1 added1 rs1 h1
      exact .step (connectOne_steps _ _ _ _ _ _ _ _ _ _ h1) (ih _ _ _ _ h)

theorem mutateConnectSensors_steps (g g' : Genome W) (reg reg' : Reg W) (rs rs' : List Nat) (res : Bool)
    (h : mutateConnectSensors g reg rs = .ok ((g', reg', res), rs')) : LinkSteps g reg g' reg' := by
  unfold mutateConnectSensors at h
  split at h
  · cases h
  · simp only at h
    split at h
    · simp only [Except.ok.injEq, Prod.mk.injEq] at h
      obtain ⟨⟨rfl, rfl, _⟩, _⟩ := h
      exact .refl _ _
    · split at h
      · cases h
      · split at h
        · cases h
        · exact connectLoop_steps _ _ _ _ _ _ _ _ _ _ h

/-! ### add-node -/

theorem resolveNode_of_found {reg : Reg W} {s d o : Int} {i : Innov W}
    (hf : reg.records.find? (nodeMatch s d o) = some i) : resolveNode reg s d o = ((i.newNode, i.inn, i.inn2), reg) := by
  unfold resolveNode; rw [hf]
theorem resolveNode_of_none {reg : Reg W} {s d o : Int} (hf : reg.records.find? (nodeMatch s d o) = none) :
    resolveNode reg s d o =
      ((reg.nextNode + 1, reg.nextInn + 1, reg.nextInn + 1 + 1),
       ({ reg with nextInn := reg.nextInn + 1 + 1, nextNode := reg.nextNode + 1 } : Reg W).store
          { typ := 1, inId := s, outId := d, inn := reg.nextInn + 1, inn2 := reg.nextInn + 1 + 1, w := Scalar.zero,
            traitNum := 0, newNode := reg.nextNode + 1, oldInn := o, recur := false }) := by
  unfold resolveNode; rw [hf]; rfl

/-- what an add-node step does: nothing structural (at most a gene disabled), or the split of a gene `old` of the
    genome with node id and numbers resolved for the request `(old.src, old.dst, old.inn)` -/
def NodeStep (g : Genome W) (reg : Reg W) (g' : Genome W) (reg' : Reg W) : Prop :=
  (gb g' = gb g ∧ g'.nodes = g.nodes ∧ reg' = reg) ∨
  ∃ (old : Gene W) (n k1 k2 : Int) (node : Node) (gene1 gene2 : Gene W) (g1 : Genome W),
    old ∈ g.genes ∧ resolveNode reg old.src old.dst old.inn = ((n, k1, k2), reg') ∧
    gb g1 = gb g ∧ g1.nodes = g.nodes ∧
    geneBind gene1 = (k1, old.src, n, old.recur) ∧ geneBind gene2 = (k2, n, old.dst, false) ∧ nodeRole node = (n, Kind.hidden) ∧
    g' = { g1 with genes := geneInsert (geneInsert g1.genes gene1) gene2, nodes := nodeInsert g1.nodes node }

theorem gb_setEnabledAt (g : Genome W) (k : Nat) (b : Bool) : gb ({ g with genes := setEnabledAt g.genes k b } : Genome W) = gb g :=
  C05.modify_map_skel g.genes k b

theorem mutateAddNode_steps (g g' : Genome W) (reg reg' : Reg W) (o : MutOpts W) (rs rs' : List Nat) (res : Bool)
    (h : mutateAddNode g reg o rs = .ok ((g', reg', res), rs')) : NodeStep g reg g' reg' := by
  unfold mutateAddNode at h
  split at h
  · simp only [Except.ok.injEq, Prod.mk.injEq] at h
    obtain ⟨⟨rfl, rfl, _⟩, _⟩ := h
    exact .inl ⟨rfl, rfl, rfl⟩
  · simp only at h
    split at h
    · cases h
    · simp only [Except.ok.injEq, Prod.mk.injEq] at h
      obtain ⟨⟨rfl, rfl, _⟩, _⟩ := h
      exact .inl ⟨rfl, rfl, rfl⟩
    · rename_i k rs1 hpick
      split at h
      · cases h
      · rename_i old hold
        have hmem : old ∈ g.genes := List.mem_of_getElem? hold
        have hpred : (fun i : Innov W => i.typ == 1 && i.inId == old.src && i.outId == old.dst && i.oldInn == old.inn) =
            nodeMatch old.src old.dst old.inn := rfl
        rw [hpred] at h
        split at h
        · rename_i inn hfind
          split at h
          · cases h
          · split at h
            · simp only [Except.ok.injEq, Prod.mk.injEq] at h
              obtain ⟨⟨rfl, rfl, _⟩, _⟩ := h
              exact .inl ⟨gb_setEnabledAt g k false, rfl, rfl⟩
            · simp only [Except.ok.injEq, Prod.mk.injEq] at h
              obtain ⟨⟨rfl, rfl, _⟩, _⟩ := h
              exact .inr ⟨old, _, _, _, _, _, _, _, hmem, resolveNode_of_found hfind, gb_setEnabledAt g k false, rfl, rfl, rfl, rfl, rfl⟩
        · rename_i hfind
          split at h
          · cases h
          · split at h
            · cases h
            · simp only [Except.ok.injEq, Prod.mk.injEq] at h
              obtain ⟨⟨rfl, rfl, _⟩, _⟩ := h
              exact .inr ⟨old, _, _, _, _, _, _, _, hmem, resolveNode_of_none hfind, gb_setEnabledAt g k false, rfl, rfl, rfl, rfl, rfl⟩

/-! ### the steps preserve the invariant (local form: the mutated genome in front of an arbitrary rest of the pool) -/

theorem insert_gene_congr {reg : Reg W} {g : Genome W} {gene : Gene W} {b : Bind} {B0 : List Bind} {R : List Role}
    (h : InvB reg (b :: (gb g ++ B0)) R) (hb : geneBind gene = b) :
    InvB reg (gb ({ g with genes := geneInsert g.genes gene } : Genome W) ++ B0) R := by
  refine h.congr ?_ ?_ (List.Subset.refl _)
  · intro x hx
    simp only [List.mem_append, List.mem_map, mem_geneInsert, List.mem_cons] at hx ⊢
    rcases hx with ⟨y, rfl | hy, rfl⟩ | hx
    · exact .inl hb
    · exact .inr (.inl ⟨y, hy, rfl⟩)
    · exact .inr (.inr hx)
  · intro x hx
    simp only [List.mem_append, List.mem_map, mem_geneInsert, List.mem_cons] at hx ⊢
    rcases hx with rfl | ⟨y, hy, rfl⟩ | hx
    · exact .inl ⟨gene, .inl rfl, hb⟩
    · exact .inl ⟨y, .inr hy, rfl⟩
    · exact .inr hx

theorem LinkStep.inv {g g' : Genome W} {reg reg' : Reg W} (hs : LinkStep g reg g' reg') {B0 : List Bind} {R0 : List Role}
    (h : InvB reg (gb g ++ B0) (gr g ++ R0)) : InvB reg' (gb g' ++ B0) (gr g' ++ R0) := by
  rcases hs with ⟨rfl, rfl⟩ | ⟨s, d, r, w, tn, k, gene, hres, hb, rfl⟩
  · exact h
  · exact insert_gene_congr (resolveLink_inv h s d r w tn k hres) hb

theorem LinkSteps.inv {g g' : Genome W} {reg reg' : Reg W} (hs : LinkSteps g reg g' reg') {B0 : List Bind} {R0 : List Role}
    (h : InvB reg (gb g ++ B0) (gr g ++ R0)) : InvB reg' (gb g' ++ B0) (gr g' ++ R0) := by
  induction hs with
  | refl => exact h
  | step h1 _ ih => exact ih (h1.inv h)

theorem NodeStep.inv {g g' : Genome W} {reg reg' : Reg W} (hs : NodeStep g reg g' reg') {B0 : List Bind} {R0 : List Role}
    (h : InvB reg (gb g ++ B0) (gr g ++ R0)) : InvB reg' (gb g' ++ B0) (gr g' ++ R0) := by
  rcases hs with ⟨e1, e2, rfl⟩ | ⟨old, n, k1, k2, node, gene1, gene2, g1, hmem, hres, e1, e2, hb1, hb2, hn, rfl⟩
  · unfold gr; rw [e1, e2]; exact h
  · have hold : (old.inn, old.src, old.dst, old.recur) ∈ gb g ++ B0 :=
      List.mem_append_left _ (List.mem_map.mpr ⟨old, hmem, rfl⟩)
    have h' := resolveNode_inv h old.src old.dst old.inn old.recur hold n k1 k2 hres
    refine h'.congr ?_ ?_ ?_
    · intro x hx
      simp only [gb, List.mem_append, List.mem_map, mem_geneInsert, List.mem_cons] at hx ⊢
      rcases hx with ⟨y, rfl | rfl | hy, rfl⟩ | hx
      · exact .inr (.inl hb2)
      · exact .inl hb1
      · have : geneBind y ∈ gb g1 := List.mem_map.mpr ⟨y, hy, rfl⟩
        rw [e1] at this
        obtain ⟨z, hz, ez⟩ := List.mem_map.mp this
        exact .inr (.inr (.inl ⟨z, hz, ez⟩))
      · exact .inr (.inr (.inr hx))
    · intro x hx
      simp only [gb, List.mem_append, List.mem_map, mem_geneInsert, List.mem_cons] at hx ⊢
      rcases hx with rfl | rfl | ⟨y, hy, rfl⟩ | hx
      · exact .inl ⟨gene1, .inr (.inl rfl), hb1⟩
      · exact .inl ⟨gene2, .inl rfl, hb2⟩
      · have : geneBind y ∈ gb g := List.mem_map.mpr ⟨y, hy, rfl⟩
        rw [← e1] at this
        obtain ⟨z, hz, ez⟩ := List.mem_map.mp this
        exact .inl ⟨z, .inr (.inr hz), ez⟩
      · exact .inr hx
    · intro x hx
      simp only [gr, List.mem_append, List.mem_map, mem_nodeInsert, List.mem_cons] at hx ⊢
      rcases hx with ⟨y, rfl | hy, rfl⟩ | hx
      · exact .inl hn
      · rw [e2] at hy; exact .inr (.inl ⟨y, hy, rfl⟩)
      · exact .inr (.inr hx)

/-- from the pool form of the invariant to the local form and back -/
theorem Inv.local {reg : Reg W} {gs : List (Genome W)} (h : Inv reg gs) {g : Genome W} (hg : g ∈ gs) :
    InvB reg (gb g ++ binds gs) (gr g ++ roles gs) :=
  InvB.add_known h (fun _ hb => by obtain ⟨x, hx, rfl⟩ := List.mem_map.mp hb; exact mem_binds_of_mem hg hx)
    (fun _ hr => by obtain ⟨x, hx, rfl⟩ := List.mem_map.mp hr; exact mem_roles_of_mem hg hx)

theorem Inv.of_local {reg : Reg W} {gs : List (Genome W)} {g' : Genome W}
    (h : InvB reg (gb g' ++ binds gs) (gr g' ++ roles gs)) : Inv reg (g' :: gs) := by
  unfold Inv; rw [binds_cons, roles_cons]; exact h

/-- the registry within a generation whose counters started at `(bi, bn)`: counters never fall below the start, and
    everything recorded in this generation was issued above the start -/
structure GenInv (bi bn : Int) (reg : Reg W) : Prop where
  innMono : bi ≤ reg.nextInn
  nodeMono : bn ≤ reg.nextNode
  recInns : ∀ k ∈ regInns reg, bi < k
  recNodes : ∀ k ∈ regNodes reg, bn < k

/-- at the start of a generation (no records) `GenInv` holds for the current counters -/
theorem GenInv.start (reg : Reg W) (h : reg.records = []) : GenInv reg.nextInn reg.nextNode reg :=
  ⟨Int.le_refl _, Int.le_refl _, by simp [regInns_def, h], by simp [regNodes_def, h]⟩

/-- the new registry keeps all old records (lookups of later requests still find them) -/
def RegExtends (a b : Reg W) : Prop := ∃ suf, b.records = a.records ++ suf
theorem RegExtends.refl (a : Reg W) : RegExtends a a := ⟨[], by simp⟩
theorem RegExtends.trans {a b c : Reg W} (h1 : RegExtends a b) (h2 : RegExtends b c) : RegExtends a c := by
  obtain ⟨s1, e1⟩ := h1; obtain ⟨s2, e2⟩ := h2
  exact ⟨s1 ++ s2, by rw [e2, e1, List.append_assoc]⟩

theorem resolveLink_issued {bi bn : Int} {reg reg' : Reg W} (hg : GenInv bi bn reg) (s d : Int) (r : Bool) (w : W) (tn k : Int)
    (hres : resolveLink reg s d r w tn = (k, reg')) :
    GenInv bi bn reg' ∧ bi < k ∧ reg.nextInn ≤ reg'.nextInn ∧ reg'.nextNode = reg.nextNode ∧ RegExtends reg reg' ∧
    (k ∈ regInns reg ∨ (reg.nextInn < k ∧ k ≤ reg'.nextInn)) := by
  unfold resolveLink at hres
  split at hres
  · rename_i i hf
    obtain ⟨rfl, rfl⟩ := Prod.mk.inj hres
    have hk := mem_regInns (List.mem_of_find?_eq_some hf) (inn_mem_recInns i)
    exact ⟨hg, hg.recInns _ hk, Int.le_refl _, rfl, .refl _, .inl hk⟩
  · simp only [Reg.nextInnovation] at hres
    obtain ⟨rfl, rfl⟩ := Prod.mk.inj hres
    have h1 := hg.innMono
    refine ⟨⟨?_, hg.nodeMono, ?_, ?_⟩, by omega, ?_, rfl, ⟨[_], rfl⟩, .inr ⟨by omega, ?_⟩⟩
    · simp only [Reg.store]; omega
    · intro k hk
      rw [regInns_store, List.mem_append] at hk
      rcases hk with hk | hk
      · exact hg.recInns k hk
      · simp [recInns] at hk; omega
    · intro k hk
      rw [regNodes_store] at hk
      simp only [if_neg (show ¬ ((2 : Nat) = 1) by decide), List.append_nil] at hk
      exact hg.recNodes k hk
    · simp only [Reg.store]; omega
    · simp only [Reg.store]; omega

theorem resolveNode_issued {bi bn : Int} {reg reg' : Reg W} (hg : GenInv bi bn reg) (s d o n k1 k2 : Int)
    (hres : resolveNode reg s d o = ((n, k1, k2), reg')) :
    GenInv bi bn reg' ∧ bi < k1 ∧ bi < k2 ∧ bn < n ∧ reg.nextInn ≤ reg'.nextInn ∧ reg.nextNode ≤ reg'.nextNode ∧ RegExtends reg reg' ∧
    ((k1 ∈ regInns reg ∧ k2 ∈ regInns reg ∧ n ∈ regNodes reg) ∨
     (reg.nextInn < k1 ∧ k1 < k2 ∧ k2 ≤ reg'.nextInn ∧ reg.nextNode < n ∧ n ≤ reg'.nextNode)) := by
  unfold resolveNode at hres
  split at hres
  · rename_i i hf
    obtain ⟨hnums, rfl⟩ := Prod.mk.inj hres
    obtain ⟨rfl, hk⟩ := Prod.mk.inj hnums
    obtain ⟨rfl, rfl⟩ := Prod.mk.inj hk
    have hi := List.mem_of_find?_eq_some hf
    obtain ⟨t1, _⟩ := (nodeMatch_iff _ _ _ i).mp (List.find?_some hf)
    have m1 := mem_regInns hi (inn_mem_recInns i)
    have m2 := mem_regInns hi (inn2_mem_recInns i t1)
    have m3 := mem_regNodes hi t1
    exact ⟨hg, hg.recInns _ m1, hg.recInns _ m2, hg.recNodes _ m3, Int.le_refl _, Int.le_refl _, .refl _, .inl ⟨m1, m2, m3⟩⟩
  · simp only [Reg.nextInnovation, Reg.nextNodeId] at hres
    obtain ⟨hnums, rfl⟩ := Prod.mk.inj hres
    obtain ⟨rfl, hk⟩ := Prod.mk.inj hnums
    obtain ⟨rfl, rfl⟩ := Prod.mk.inj hk
    have h1 := hg.innMono
    have h2 := hg.nodeMono
    refine ⟨⟨?_, ?_, ?_, ?_⟩, by omega, by omega, by omega, ?_, ?_, ⟨[_], rfl⟩, .inr ⟨by omega, by omega, ?_, by omega, ?_⟩⟩
    · simp only [Reg.store]; omega
    · simp only [Reg.store]; omega
    · intro k hk
      rw [regInns_store, List.mem_append] at hk
      rcases hk with hk | hk
      · exact hg.recInns k hk
      · simp [recInns] at hk; omega
    · intro k hk
      rw [regNodes_store, List.mem_append] at hk
      rcases hk with hk | hk
      · exact hg.recNodes k hk
      · simp at hk; omega
    all_goals (simp only [Reg.store]; omega)

/-- what a mutation may add to a genome, relative to the counters `(bi, bn)` at the start of the generation: every
    gene carries a binding the genome already had or a number above `bi`; every node a role the genome already had
    or an id above `bn` -/
def IssuedAbove (bi bn : Int) (g g' : Genome W) : Prop :=
  (∀ x ∈ g'.genes, geneBind x ∈ gb g ∨ bi < x.inn) ∧ (∀ n ∈ g'.nodes, nodeRole n ∈ gr g ∨ bn < n.id)

theorem IssuedAbove.refl (bi bn : Int) (g : Genome W) : IssuedAbove bi bn g g :=
  ⟨fun _ hx => .inl (List.mem_map_of_mem hx), fun _ hn => .inl (List.mem_map_of_mem hn)⟩

theorem IssuedAbove.trans {bi bn : Int} {g g1 g2 : Genome W} (h1 : IssuedAbove bi bn g g1) (h2 : IssuedAbove bi bn g1 g2) :
    IssuedAbove bi bn g g2 := by
  refine ⟨fun x hx => ?_, fun n hn => ?_⟩
  · rcases h2.1 x hx with hb | hb
    · obtain ⟨y, hy, e⟩ := List.mem_map.mp hb
      rcases h1.1 y hy with hb' | hb'
      · exact .inl (e ▸ hb')
      · refine .inr ?_
        have : y.inn = x.inn := congrArg (·.1) e
        omega
    · exact .inr hb
  · rcases h2.2 n hn with hb | hb
    · obtain ⟨y, hy, e⟩ := List.mem_map.mp hb
      rcases h1.2 y hy with hb' | hb'
      · exact .inl (e ▸ hb')
      · refine .inr ?_
        have : y.id = n.id := congrArg (·.1) e
        omega
    · exact .inr hb

/-- the facts `issued_fresh` states about one structural mutation -/
structure Issued (bi bn : Int) (g : Genome W) (reg : Reg W) (g' : Genome W) (reg' : Reg W) : Prop where
  gen : GenInv bi bn reg'
  innMono : reg.nextInn ≤ reg'.nextInn
  nodeMono : reg.nextNode ≤ reg'.nextNode
  ext : RegExtends reg reg'
  above : IssuedAbove bi bn g g'

theorem Issued.refl {bi bn : Int} {reg : Reg W} (hg : GenInv bi bn reg) (g : Genome W) : Issued bi bn g reg g reg :=
  ⟨hg, Int.le_refl _, Int.le_refl _, .refl _, .refl _ _ _⟩

theorem Issued.trans {bi bn : Int} {g g1 g2 : Genome W} {reg reg1 reg2 : Reg W} (h1 : Issued bi bn g reg g1 reg1)
    (h2 : Issued bi bn g1 reg1 g2 reg2) : Issued bi bn g reg g2 reg2 :=
  ⟨h2.gen, Int.le_trans h1.innMono h2.innMono, Int.le_trans h1.nodeMono h2.nodeMono, h1.ext.trans h2.ext, h1.above.trans h2.above⟩

theorem LinkStep.issued {bi bn : Int} {g g' : Genome W} {reg reg' : Reg W} (hs : LinkStep g reg g' reg') (hg : GenInv bi bn reg) :
    Issued bi bn g reg g' reg' := by
  rcases hs with ⟨rfl, rfl⟩ | ⟨s, d, r, w, tn, k, gene, hres, hb, rfl⟩
  · exact .refl hg _
  · obtain ⟨hg', hk, hm, hn, hext, _⟩ := resolveLink_issued hg s d r w tn k hres
    refine ⟨hg', hm, by omega, hext, ⟨fun x hx => ?_, fun n hn => .inl (List.mem_map_of_mem hn)⟩⟩
    rcases (mem_geneInsert _ _ _).mp hx with rfl | hx'
    · exact .inr (by have : x.inn = k := congrArg (·.1) hb; omega)
    · exact .inl (List.mem_map_of_mem hx')

theorem LinkSteps.issued {bi bn : Int} {g g' : Genome W} {reg reg' : Reg W} (hs : LinkSteps g reg g' reg') (hg : GenInv bi bn reg) :
    Issued bi bn g reg g' reg' := by
  induction hs with
  | refl => exact .refl hg _
  | step h1 _ ih => exact (h1.issued hg).trans (ih (h1.issued hg).gen)

theorem NodeStep.issued {bi bn : Int} {g g' : Genome W} {reg reg' : Reg W} (hs : NodeStep g reg g' reg') (hg : GenInv bi bn reg) :
    Issued bi bn g reg g' reg' := by
  rcases hs with ⟨e1, e2, rfl⟩ | ⟨old, n, k1, k2, node, gene1, gene2, g1, hmem, hres, e1, e2, hb1, hb2, hn, rfl⟩
  · refine ⟨hg, Int.le_refl _, Int.le_refl _, .refl _, ⟨fun x hx => .inl ?_, fun n hn => .inl ?_⟩⟩
    · rw [← e1]; exact List.mem_map_of_mem hx
    · unfold gr; rw [← e2]; exact List.mem_map_of_mem hn
  · obtain ⟨hg', h1, h2, h3, hm, hm', hext, _⟩ := resolveNode_issued hg _ _ _ n k1 k2 hres
    refine ⟨hg', hm, hm', hext, ⟨fun x hx => ?_, fun m hm => ?_⟩⟩
    · rcases (mem_geneInsert _ _ _).mp hx with rfl | hx'
      · exact .inr (by have : x.inn = k2 := congrArg (·.1) hb2; omega)
      · rcases (mem_geneInsert _ _ _).mp hx' with rfl | hx''
        · exact .inr (by have : x.inn = k1 := congrArg (·.1) hb1; omega)
        · exact .inl (by rw [← e1]; exact List.mem_map_of_mem hx'')
    · rcases (mem_nodeInsert _ _ _).mp hm with rfl | hm'
      · exact .inr (by have : m.id = n := congrArg (·.1) hn; omega)
      · exact .inl (by unfold gr; rw [← e2]; exact List.mem_map_of_mem hm')

theorem resolveLink_finds {reg reg' : Reg W} (s d : Int) (r : Bool) (w : W) (tn k : Int)
    (hres : resolveLink reg s d r w tn = (k, reg')) : ∃ i, reg'.records.find? (linkMatch s d r) = some i ∧ i.inn = k := by
  unfold resolveLink at hres
  split at hres
  · rename_i i hf
    obtain ⟨rfl, rfl⟩ := Prod.mk.inj hres
    exact ⟨i, hf, rfl⟩
  · rename_i hf
    simp only [Reg.nextInnovation] at hres
    obtain ⟨rfl, rfl⟩ := Prod.mk.inj hres
    refine ⟨{ typ := 2, inId := s, outId := d, inn := reg.nextInn + 1, inn2 := 0, w := w, traitNum := tn, newNode := 0,
              oldInn := 0, recur := r }, ?_, rfl⟩
    simp only [Reg.store, List.find?_append, hf, Option.none_or]
    rw [List.find?_cons_of_pos]
    simp [linkMatch]

theorem resolveNode_finds {reg reg' : Reg W} (s d o n k1 k2 : Int)
    (hres : resolveNode reg s d o = ((n, k1, k2), reg')) :
    ∃ i, reg'.records.find? (nodeMatch s d o) = some i ∧ i.newNode = n ∧ i.inn = k1 ∧ i.inn2 = k2 := by
  unfold resolveNode at hres
  split at hres
  · rename_i i hf
    obtain ⟨hnums, rfl⟩ := Prod.mk.inj hres
    obtain ⟨rfl, hk⟩ := Prod.mk.inj hnums
    obtain ⟨rfl, rfl⟩ := Prod.mk.inj hk
    exact ⟨i, hf, rfl, rfl, rfl⟩
  · rename_i hf
    simp only [Reg.nextInnovation, Reg.nextNodeId] at hres
    obtain ⟨hnums, rfl⟩ := Prod.mk.inj hres
    obtain ⟨rfl, hk⟩ := Prod.mk.inj hnums
    obtain ⟨rfl, rfl⟩ := Prod.mk.inj hk
    refine ⟨{ typ := 1, inId := s, outId := d, inn := reg.nextInn + 1, inn2 := reg.nextInn + 1 + 1, w := Scalar.zero,
              traitNum := 0, newNode := reg.nextNode + 1, oldInn := o, recur := false }, ?_, rfl, rfl, rfl⟩
    simp only [Reg.store, List.find?_append, hf, Option.none_or]
    rw [List.find?_cons_of_pos]
    simp [nodeMatch]

theorem find?_extends {a b : Reg W} (h : RegExtends a b) (p : Innov W → Bool) (i : Innov W)
    (hf : a.records.find? p = some i) : b.records.find? p = some i := by
  obtain ⟨suf, e⟩ := h
  rw [e, List.find?_append, hf]; rfl

/-- the result carries exactly the bindings of the input (same lists of `(inn,src,dst,recur)` and `(id,kind)`) -/
def SameBinds (g g' : Genome W) : Prop := gb g' = gb g ∧ gr g' = gr g

theorem SameBinds.refl (g : Genome W) : SameBinds g g := ⟨rfl, rfl⟩
theorem SameBinds.trans {a b c : Genome W} (h1 : SameBinds a b) (h2 : SameBinds b c) : SameBinds a c :=
  ⟨h2.1.trans h1.1, h2.2.trans h1.2⟩

theorem skel_eq_bind : (C05.Gene.skel : Gene W → _) = geneBind := rfl

theorem reenableFirst_binds (l : List (Gene W)) : (reenableFirst l).map geneBind = l.map geneBind := by
  induction l with
  | nil => rfl
  | cons x xs ih =>
    unfold reenableFirst
    split
    · rfl
    · simp only [List.map_cons, ih]

/-- **C03 (parametric mutators).** Weight, trait, toggle-enable and re-enable mutations leave every binding as it is. -/
theorem parametric_sameBinds (g g' : Genome W) (o : MutOpts W) (power rate : W) (mt : WeightMutator) (times : Nat)
    (rs rs' : List Nat) :
    (mutateLinkWeights g power rate mt rs = .ok (g', rs') → SameBinds g g') ∧
    (mutateRandomTrait g o rs = .ok (g', rs') → SameBinds g g') ∧
    (mutateLinkTrait g times rs = .ok (g', rs') → SameBinds g g') ∧
    (mutateNodeTrait g times rs = .ok (g', rs') → SameBinds g g') ∧
    (mutateToggleEnable g times rs = .ok (g', rs') → SameBinds g g') ∧
    (mutateGeneReEnable g = .ok g' → SameBinds g g') := by
  refine ⟨fun h => ?_, fun h => ?_, fun h => ?_, fun h => ?_, fun h => ?_, fun h => ?_⟩
  · obtain ⟨_, hn, _, _, hc, _⟩ := C05.mutateLinkWeights_paramOnly g g' power rate mt rs rs' h
    refine ⟨?_, by unfold gr; rw [hn]⟩
    have := congrArg (List.map (fun (c : Int × Int × Int × Bool × Bool × Option Int) => (c.1, c.2.1, c.2.2.1, c.2.2.2.1))) hc
    simp only [List.map_map] at this
    exact this
  · obtain ⟨hn, hg, _, _⟩ := C05.mutateRandomTrait_paramOnly g g' o rs rs' h
    exact ⟨by unfold gb; rw [hg], by unfold gr; rw [hn]⟩
  · obtain ⟨hn, _, _, hs, _, _⟩ := C05.mutateLinkTrait_paramOnly times g g' rs rs' h
    exact ⟨by rw [skel_eq_bind] at hs; exact hs, by unfold gr; rw [hn]⟩
  · obtain ⟨hg, _, _, hn⟩ := C05.mutateNodeTrait_paramOnly times g g' rs rs' h
    refine ⟨by unfold gb; rw [hg], ?_⟩
    have := congrArg (List.map (fun (c : Int × Nat × Nat) => (c.1, c.2.1))) hn
    simp only [List.map_map] at this
    exact this
  · obtain ⟨hn, _, _, hs, _⟩ := C05.mutateToggleEnable_spec times g g' rs rs' h
    exact ⟨by rw [skel_eq_bind] at hs; exact hs, by unfold gr; rw [hn]⟩
  · obtain ⟨hn, _, _, hg⟩ := C05.mutateGeneReEnable_spec g g' h
    exact ⟨by unfold gb; rw [hg]; exact reenableFirst_binds _, by unfold gr; rw [hn]⟩

/-- one stage of `mutateAllNonstructural`: draw, then maybe apply `f` -/
theorem stage_sameBinds (prob : W) (f : Genome W → Rand (Genome W))
    (hf : ∀ g g' rs rs', f g rs = .ok (g', rs') → SameBinds g g') (g g' : Genome W) (rs rs' : List Nat)
    (h : (match Rand.float64 (W := W) rs with
          | .error e => (.error e : Except Stop (Genome W × List Nat))
          | .ok (x, rs1) => if lt x prob then f g rs1 else .ok (g, rs1)) = .ok (g', rs')) : SameBinds g g' := by
  split at h
  · cases h
  · split at h
    · exact hf _ _ _ _ h
    · simp only [Except.ok.injEq, Prod.mk.injEq] at h
      obtain ⟨rfl, _⟩ := h
      exact .refl _

theorem mutateAllNonstructural_sameBinds (g g' : Genome W) (o : MutOpts W) (rs rs' : List Nat)
    (h : mutateAllNonstructural g o rs = .ok (g', rs')) : SameBinds g g' := by
  unfold mutateAllNonstructural at h
  simp only at h
  split at h
  · cases h
  · rename_i g1 rs1 h1
    have s1 := stage_sameBinds _ _ (fun a b c d hh => (parametric_sameBinds a b o zero zero .gaussian 0 c d).2.1 hh) _ _ _ _ h1
    split at h
    · cases h
    · rename_i g2 rs2 h2
      have s2 := stage_sameBinds _ _ (fun a b c d hh => (parametric_sameBinds a b o zero zero .gaussian 1 c d).2.2.1 hh) _ _ _ _ h2
      split at h
      · cases h
      · rename_i g3 rs3 h3
        have s3 := stage_sameBinds _ _ (fun a b c d hh => (parametric_sameBinds a b o zero zero .gaussian 1 c d).2.2.2.1 hh) _ _ _ _ h3
        split at h
        · cases h
        · rename_i g4 rs4 h4
          have s4 := stage_sameBinds _ _ (fun a b c d hh => (parametric_sameBinds a b o o.weightMutPower one .gaussian 1 c d).1 hh) _ _ _ _ h4
          split at h
          · cases h
          · rename_i g5 rs5 h5
            have s5 := stage_sameBinds _ _ (fun a b c d hh => (parametric_sameBinds a b o zero zero .gaussian 1 c d).2.2.2.2.1 hh) _ _ _ _ h5
            have s6 : SameBinds g5 g' := by
              split at h
              · cases h
              · split at h
                · split at h
                  · cases h
                  · rename_i gg hre
                    simp only [Except.ok.injEq, Prod.mk.injEq] at h
                    obtain ⟨rfl, _⟩ := h
                    exact (parametric_sameBinds g5 gg o zero zero .gaussian 1 rs rs).2.2.2.2.2 hre
                · simp only [Except.ok.injEq, Prod.mk.injEq] at h
                  obtain ⟨rfl, _⟩ := h
                  exact .refl _
            exact ((((s1.trans s2).trans s3).trans s4).trans s5).trans s6

/-- adding a genome all of whose bindings the pool already holds keeps the invariant -/
theorem Inv.add_copy {reg : Reg W} {gs : List (Genome W)} (h : Inv reg gs) (g' : Genome W)
    (hb : ∀ b ∈ gb g', b ∈ binds gs) (hr : ∀ r ∈ gr g', r ∈ roles gs) : Inv reg (g' :: gs) :=
  Inv.of_local (InvB.add_known h hb hr)

theorem Inv.add_same {reg : Reg W} {gs : List (Genome W)} (h : Inv reg gs) {g g' : Genome W} (hg : g ∈ gs)
    (hs : SameBinds g g') : Inv reg (g' :: gs) :=
  h.add_copy g' (fun b hb => by rw [hs.1] at hb; obtain ⟨x, hx, rfl⟩ := List.mem_map.mp hb; exact mem_binds_of_mem hg hx)
    (fun r hr => by rw [hs.2] at hr; obtain ⟨x, hx, rfl⟩ := List.mem_map.mp hr; exact mem_roles_of_mem hg hx)

end GoNeat.C03
