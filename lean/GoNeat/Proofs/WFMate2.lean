/-
  C01 helper lemmas for the population-level closure of the crossovers: the walks only append genes, a child of parents
  that share their first gene starts with that gene's number, the child is of the parents' node lineage and satisfies
  the registry invariant the parents satisfy.
-/
import GoNeat.Proofs.WFMate

namespace GoNeat.C01
open GoNeat Scalar
variable {W : Type} [Scalar W]

/-! ### the walks only append -/

theorem addChosen_mono (nt : List (Trait W)) (t0 : Option Int) (acc acc' : MateAcc W) (c : Chosen W) (dis : Bool)
    (h : addChosen nt t0 acc c dis = .ok acc') : ∀ a ∈ acc.genes, a ∈ acc'.genes := by
  intro a ha
  rcases C04.addChosen_genes nt t0 acc acc' c dis h with ⟨_, rfl⟩ | ⟨_, g', e, _⟩
  · exact ha
  · rw [e]; exact List.mem_append_left _ ha

/-- on an empty gene list the chosen gene is always added -/
theorem addChosen_first (nt : List (Trait W)) (t0 : Option Int) (acc acc' : MateAcc W) (c : Chosen W) (dis : Bool)
    (h : addChosen nt t0 acc c dis = .ok acc') (he : acc.genes = []) : ∃ a ∈ acc'.genes, a.inn = c.gene.inn := by
  rcases C04.addChosen_genes nt t0 acc acc' c dis h with ⟨hany, _⟩ | ⟨_, g', e, ei, _⟩
  · rw [he] at hany; simp at hany
  · exact ⟨g', by rw [e]; simp, ei⟩

theorem multipointWalk_mono (p1 p2 : Genome W) (nt : List (Trait W)) (t0 : Option Int) (better : Bool)
    (l1 l2 : List (Gene W)) (acc : MateAcc W) (rs : List Nat) (acc' : MateAcc W) (rs' : List Nat)
    (h : multipointWalk p1 p2 nt t0 better l1 l2 acc rs = .ok (acc', rs')) : ∀ a ∈ acc.genes, a ∈ acc'.genes := by
  fun_induction multipointWalk p1 p2 nt t0 better l1 l2 acc rs
  case case1 => simp only [Except.ok.injEq, Prod.mk.injEq] at h; obtain ⟨rfl, _⟩ := h; exact fun a ha => ha
  case case2 ih => exact ih h
  case case3 => cases h
  case case4 hadd ih => exact fun a ha => ih h a (addChosen_mono _ _ _ _ _ _ hadd a ha)
  case case5 ih => exact ih h
  case case6 => cases h
  case case7 hadd ih => exact fun a ha => ih h a (addChosen_mono _ _ _ _ _ _ hadd a ha)
  case case8 => cases h
  case case9 => cases h
  case case10 => cases h
  case case11 hadd ih => exact fun a ha => ih h a (addChosen_mono _ _ _ _ _ _ hadd a ha)
  case case12 ih => exact ih h
  case case13 => cases h
  case case14 hadd ih => exact fun a ha => ih h a (addChosen_mono _ _ _ _ _ _ hadd a ha)
  case case15 ih => exact ih h
  case case16 => cases h
  case case17 hadd ih => exact fun a ha => ih h a (addChosen_mono _ _ _ _ _ _ hadd a ha)

theorem multipointAvgWalk_mono (p1 p2 : Genome W) (nt : List (Trait W)) (t0 : Option Int) (better : Bool)
    (l1 l2 : List (Gene W)) (acc : MateAcc W) (rs : List Nat) (acc' : MateAcc W) (rs' : List Nat)
    (h : multipointAvgWalk p1 p2 nt t0 better l1 l2 acc rs = .ok (acc', rs')) : ∀ a ∈ acc.genes, a ∈ acc'.genes := by
  fun_induction multipointAvgWalk p1 p2 nt t0 better l1 l2 acc rs
  case case1 => simp only [Except.ok.injEq, Prod.mk.injEq] at h; obtain ⟨rfl, _⟩ := h; exact fun a ha => ha
  case case2 ih => exact ih h
  case case3 => cases h
  case case4 hadd ih => exact fun a ha => ih h a (addChosen_mono _ _ _ _ _ _ hadd a ha)
  case case5 ih => exact ih h
  case case6 => cases h
  case case7 hadd ih => exact fun a ha => ih h a (addChosen_mono _ _ _ _ _ _ hadd a ha)
  case case8 => cases h
  case case9 => cases h
  case case10 hadd ih => exact fun a ha => ih h a (addChosen_mono _ _ _ _ _ _ hadd a ha)
  case case11 ih => exact ih h
  case case12 => cases h
  case case13 hadd ih => exact fun a ha => ih h a (addChosen_mono _ _ _ _ _ _ hadd a ha)
  case case14 ih => exact ih h
  case case15 => cases h
  case case16 hadd ih => exact fun a ha => ih h a (addChosen_mono _ _ _ _ _ _ hadd a ha)

theorem singlePointWalk_mono (q1 q2 : Genome W) (nt : List (Trait W)) (t0 : Option Int) (cp : Nat)
    (l1 l2 : List (Gene W)) (gc : Nat) (last : Option (Chosen W)) (acc : MateAcc W) (rs : List Nat)
    (acc' : MateAcc W) (rs' : List Nat)
    (h : singlePointWalk q1 q2 nt t0 cp l1 l2 gc last acc rs = .ok (acc', rs')) : ∀ a ∈ acc.genes, a ∈ acc'.genes := by
  fun_induction singlePointWalk q1 q2 nt t0 cp l1 l2 gc last acc rs
  case case1 => simp only [Except.ok.injEq, Prod.mk.injEq] at h; obtain ⟨rfl, _⟩ := h; exact fun a ha => ha
  case case2 => cases h
  case case3 hadd ih => exact fun a ha => ih h a (addChosen_mono _ _ _ _ _ _ hadd a ha)
  case case4 => cases h
  case case5 hadd ih => exact fun a ha => ih h a (addChosen_mono _ _ _ _ _ _ hadd a ha)
  case case6 => cases h
  case case7 hadd ih => exact fun a ha => ih h a (addChosen_mono _ _ _ _ _ _ hadd a ha)
  case case8 => cases h
  case case9 => cases h
  case case10 hadd ih => exact fun a ha => ih h a (addChosen_mono _ _ _ _ _ _ hadd a ha)
  case case11 => cases h
  case case12 hadd ih => exact fun a ha => ih h a (addChosen_mono _ _ _ _ _ _ hadd a ha)
  case case13 => cases h
  case case14 hadd ih => exact fun a ha => ih h a (addChosen_mono _ _ _ _ _ _ hadd a ha)
  case case15 => simp only [Except.ok.injEq, Prod.mk.injEq] at h; obtain ⟨rfl, _⟩ := h; exact fun a ha => ha
  case case16 ih => exact ih h

/-! ### parents that start with the same number: so does the child -/

theorem multipointWalk_head (p1 p2 : Genome W) (nt : List (Trait W)) (t0 : Option Int) (better : Bool)
    (x : Gene W) (xs : List (Gene W)) (y : Gene W) (ys : List (Gene W)) (acc : MateAcc W) (rs : List Nat)
    (acc' : MateAcc W) (rs' : List Nat) (heq : x.inn = y.inn) (he : acc.genes = [])
    (h : multipointWalk p1 p2 nt t0 better (x :: xs) (y :: ys) acc rs = .ok (acc', rs')) :
    ∃ a ∈ acc'.genes, a.inn = x.inn := by
  rw [multipointWalk] at h
  simp only [heq, ↓reduceIte] at h
  split at h
  · cases h
  · rename_i f rs1 _
    split at h
    · cases h
    · split at h
      · cases h
      · rename_i acc1 hadd
        obtain ⟨a, ha, ea⟩ := addChosen_first _ _ _ _ _ _ hadd he
        refine ⟨a, multipointWalk_mono _ _ _ _ _ _ _ _ _ _ _ h a ha, ?_⟩
        rw [ea]
        split
        · rfl
        · exact heq.symm

theorem multipointAvgWalk_head (p1 p2 : Genome W) (nt : List (Trait W)) (t0 : Option Int) (better : Bool)
    (x : Gene W) (xs : List (Gene W)) (y : Gene W) (ys : List (Gene W)) (acc : MateAcc W) (rs : List Nat)
    (acc' : MateAcc W) (rs' : List Nat) (heq : x.inn = y.inn) (he : acc.genes = [])
    (hx : x ∈ p1.genes) (hy : y ∈ p2.genes)
    (h : multipointAvgWalk p1 p2 nt t0 better (x :: xs) (y :: ys) acc rs = .ok (acc', rs')) :
    ∃ a ∈ acc'.genes, a.inn = x.inn := by
  rw [multipointAvgWalk] at h
  simp only [heq, ↓reduceIte] at h
  split at h
  · cases h
  · rename_i c rs1 havg
    split at h
    · cases h
    · rename_i acc1 hadd
      obtain ⟨a, ha, ea⟩ := addChosen_first _ _ _ _ _ _ hadd he
      refine ⟨a, multipointAvgWalk_mono _ _ _ _ _ _ _ _ _ _ _ h a ha, ?_⟩
      rw [ea]; exact (legit_avgChosen p1 p2 x y hx hy heq c rs rs1 havg).2

theorem singlePointWalk_head (q1 q2 : Genome W) (nt : List (Trait W)) (t0 : Option Int) (cp : Nat)
    (x : Gene W) (xs : List (Gene W)) (y : Gene W) (ys : List (Gene W)) (gc : Nat) (last : Option (Chosen W))
    (acc : MateAcc W) (rs : List Nat) (acc' : MateAcc W) (rs' : List Nat) (heq : x.inn = y.inn) (he : acc.genes = [])
    (hx : x ∈ q1.genes) (hy : y ∈ q2.genes)
    (h : singlePointWalk q1 q2 nt t0 cp (x :: xs) (y :: ys) gc last acc rs = .ok (acc', rs')) :
    ∃ a ∈ acc'.genes, a.inn = x.inn := by
  unfold singlePointWalk at h
  simp only [heq, ↓reduceIte] at h
  split at h
  · split at h
    · cases h
    · rename_i acc1 hadd
      obtain ⟨a, ha, ea⟩ := addChosen_first _ _ _ _ _ _ hadd he
      exact ⟨a, singlePointWalk_mono _ _ _ _ _ _ _ _ _ _ _ _ _ h a ha, by rw [ea]; rfl⟩
  · split at h
    · split at h
      · cases h
      · rename_i acc1 hadd
        obtain ⟨a, ha, ea⟩ := addChosen_first _ _ _ _ _ _ hadd he
        exact ⟨a, singlePointWalk_mono _ _ _ _ _ _ _ _ _ _ _ _ _ h a ha, by rw [ea]; exact heq.symm⟩
    · split at h
      · cases h
      · rename_i c rs1 havg
        split at h
        · cases h
        · rename_i acc1 hadd
          obtain ⟨a, ha, ea⟩ := addChosen_first _ _ _ _ _ _ hadd he
          refine ⟨a, singlePointWalk_mono _ _ _ _ _ _ _ _ _ _ _ _ _ h a ha, ?_⟩
          rw [ea]; exact (legit_avgChosen q1 q2 x y hx hy heq c rs rs1 havg).2

/-! ### strictly ascending lists with the same members are equal -/

omit [Scalar W] in
theorem sorted_ext (l1 l2 : List Int) (h1 : l1.Pairwise (· < ·)) (h2 : l2.Pairwise (· < ·))
    (hm : ∀ i, i ∈ l1 ↔ i ∈ l2) : l1 = l2 := by
  induction l1 generalizing l2 with
  | nil =>
    cases l2 with
    | nil => rfl
    | cons b u => exact absurd ((hm b).mpr (by simp)) (by simp)
  | cons a t ih =>
    cases l2 with
    | nil => exact absurd ((hm a).mp (by simp)) (by simp)
    | cons b u =>
      rw [List.pairwise_cons] at h1 h2
      have hab : a = b := by
        have ha := (hm a).mp (by simp)
        have hb := (hm b).mpr (by simp)
        rcases List.mem_cons.mp ha with e | e
        · exact e
        · rcases List.mem_cons.mp hb with e' | e'
          · exact e'.symm
          · have := h1.1 b e'; have := h2.1 a e; omega
      subst hab
      congr 1
      apply ih u h1.2 h2.2
      intro i
      constructor
      · intro hi
        rcases List.mem_cons.mp ((hm i).mp (List.mem_cons_of_mem _ hi)) with e | e
        · have := h1.1 i hi; omega
        · exact e
      · intro hi
        rcases List.mem_cons.mp ((hm i).mpr (List.mem_cons_of_mem _ hi)) with e | e
        · have := h2.1 i hi; omega
        · exact e

omit [Scalar W] in
theorem ioIds_sorted (g : Genome W) (h : NodesSorted g.nodes) : (ioIds g).Pairwise (· < ·) := by
  unfold ioIds
  rw [List.pairwise_map]
  exact List.Pairwise.filter _ h

omit [Scalar W] in
theorem mem_ioIds {g : Genome W} {i : Int} : i ∈ ioIds g ↔ ∃ n ∈ g.nodes, n.kind ≠ Kind.hidden ∧ n.id = i := by
  unfold ioIds
  simp only [List.mem_map, List.mem_filter, bne_iff_ne, ne_eq]
  constructor
  · rintro ⟨n, ⟨hn, hk⟩, e⟩; exact ⟨n, hn, hk, e⟩
  · rintro ⟨n, hn, hk, e⟩; exact ⟨n, ⟨hn, hk⟩, e⟩

/-! ### the child fits into its parents' population -/

/-- the child of well-formed parents of one node lineage: its first gene, its node lineage, the registry invariant -/
theorem child_fits (p1 p2 : Genome W) (nt : List (Trait W)) (acc : MateAcc W) (id : Int)
    (hinv : AccInv p1 p2 nt acc) (hs : GenesSorted acc.genes)
    (hw1 : WFT p1) (hw2 : WFT p2) (hl : NodeLineage p1 p2) (hnt : nt.map (·.id) = p1.traits.map (·.id)) :
    let c : Genome W := { id := id, traits := nt, nodes := acc.nodes, genes := acc.genes }
    (SharedHead p1 p2 → (∃ a ∈ acc.genes, ∀ x ∈ p1.genes.take 1, a.inn = x.inn) → SharedHead c p1 ∧ SharedHead c p2) ∧
    (∀ b : Genome W, NodeLineage p1 b → NodeLineage p2 b → NodeLineage c b) ∧
    (∀ reg : Reg W, RegInv reg p1 → RegInv reg p2 → RegInv reg c) := by
  intro c
  have hkind : ∀ m ∈ acc.nodes, ∃ n, (n ∈ p1.nodes ∨ n ∈ p2.nodes) ∧ n.id = m.id ∧ n.kind = m.kind := hinv.nodesFrom
  refine ⟨?_, ?_, ?_⟩
  · intro hh ⟨a, ha, hax⟩
    -- all child numbers are at least the common first number
    cases hg1 : p1.genes with
    | nil => exact absurd hg1 hw1.wf.hasGene
    | cons x xs =>
      cases hg2 : p2.genes with
      | nil => exact absurd hg2 hw2.wf.hasGene
      | cons y ys =>
        have hxy : x.inn = y.inn := by
          unfold SharedHead at hh; rw [hg1, hg2] at hh; simpa using hh
        have hax' : a.inn = x.inn := hax x (by rw [hg1]; simp)
        have hmin1 : ∀ z ∈ p1.genes, x.inn ≤ z.inn := by
          intro z hz
          have hs1 := hw1.wf.genesSorted
          rw [hg1] at hs1 hz
          rcases List.mem_cons.mp hz with rfl | hz'
          · omega
          · have := (sorted_cons hs1).2 z hz'; omega
        have hmin2 : ∀ z ∈ p2.genes, x.inn ≤ z.inn := by
          intro z hz
          have hs2 := hw2.wf.genesSorted
          rw [hg2] at hs2 hz
          rcases List.mem_cons.mp hz with rfl | hz'
          · omega
          · have := (sorted_cons hs2).2 z hz'; omega
        have hmin : ∀ z ∈ acc.genes, x.inn ≤ z.inn := by
          intro z hz
          obtain ⟨y1, _, _, m1, _, _, i1, _⟩ := hinv.prov z hz
          rw [← i1]
          rcases m1 with m | m
          · exact hmin1 y1 m
          · exact hmin2 y1 m
        have hhead : acc.genes.head?.map (·.inn) = some x.inn := by
          cases hc : acc.genes with
          | nil => rw [hc] at ha; simp at ha
          | cons f rest =>
            have hf := hmin f (by rw [hc]; simp)
            rw [hc] at hs ha
            have hle : f.inn ≤ a.inn := by
              rcases List.mem_cons.mp ha with rfl | ha'
              · omega
              · have := (sorted_cons hs).2 a ha'; omega
            simp only [List.head?_cons, Option.map_some, Option.some.injEq]
            omega
        constructor
        · show acc.genes.head?.map (·.inn) = p1.genes.head?.map (·.inn)
          rw [hhead, hg1]; rfl
        · show acc.genes.head?.map (·.inn) = p2.genes.head?.map (·.inn)
          rw [hhead, hg2, hxy]; rfl
  · intro b hb1 hb2
    refine ⟨?_, ?_, ?_⟩
    · intro m hm k hk e
      obtain ⟨n, hn, e1, e2⟩ := hkind m hm
      rw [← e2]
      rcases hn with hn | hn
      · exact hb1.1 n hn k hk (by rw [e1, e])
      · exact hb2.1 n hn k hk (by rw [e1, e])
    · show nt.map (·.id) = traitIds b
      rw [hnt]; exact hb1.2.1
    · have : ioIds c = ioIds p2 := by
        apply sorted_ext _ _ (ioIds_sorted c hinv.nodesSorted) (ioIds_sorted p2 hw2.wf.nodesSorted)
        intro i
        rw [mem_ioIds, mem_ioIds]
        constructor
        · rintro ⟨m, hm, hk, e⟩
          obtain ⟨n, hn, e1, e2⟩ := hkind m hm
          rcases hn with hn | hn
          · have h1 : i ∈ ioIds p1 := mem_ioIds.mpr ⟨n, hn, by rw [e2]; exact hk, by rw [e1, e]⟩
            rw [hl.2.2] at h1
            exact mem_ioIds.mp h1
          · exact ⟨n, hn, by rw [e2]; exact hk, by rw [e1, e]⟩
        · rintro ⟨n, hn, hk, e⟩
          obtain ⟨m, hm, e1, e2⟩ := hinv.io n hn hk
          exact ⟨m, hm, by rw [e2]; exact hk, by rw [e1, e]⟩
      rw [this]; exact hb2.2.2
  · intro reg hi1 hi2
    have hpar : ∀ z : Gene W, (z ∈ p1.genes ∨ z ∈ p2.genes) → ∀ i ∈ reg.records,
        (i.typ = 2 → z.inn = i.inn → z.link = (i.inId, i.outId, i.recur)) ∧
        (i.typ = 1 → (z.inn = i.inn → z.src = i.inId ∧ z.dst = i.newNode) ∧
                     (z.inn = i.inn2 → z.src = i.newNode ∧ z.dst = i.outId ∧ z.recur = false)) ∧
        z.inn ≤ reg.nextInn := by
      intro z hz i hi
      rcases hz with hz | hz
      · exact ⟨fun t e => (hi1.compat i hi).1 t z hz e,
               fun t => ⟨fun e => ((hi1.compat i hi).2 t).1 z hz e, fun e => ((hi1.compat i hi).2 t).2.1 z hz e⟩,
               hi1.above.1 z hz⟩
      · exact ⟨fun t e => (hi2.compat i hi).1 t z hz e,
               fun t => ⟨fun e => ((hi2.compat i hi).2 t).1 z hz e, fun e => ((hi2.compat i hi).2 t).2.1 z hz e⟩,
               hi2.above.1 z hz⟩
    refine ⟨?_, ⟨?_, ?_⟩, hi1.ok⟩
    · intro i hi
      refine ⟨fun t x hx e => ?_, fun t => ⟨fun x hx e => ?_, fun x hx e => ?_, fun m hm e => ?_⟩⟩
      · obtain ⟨y1, y2, y3, m1, m2, m3, i1, i2, i3, s, d, r⟩ := hinv.prov x hx
        have l1 := (hpar y1 m1 i hi).1 t (by rw [i1, e])
        have l2 := (hpar y2 m2 i hi).1 t (by rw [i2, e])
        have l3 := (hpar y3 m3 i hi).1 t (by rw [i3, e])
        unfold Gene.link at l1 l2 l3 ⊢
        simp only [Prod.mk.injEq] at l1 l2 l3 ⊢
        exact ⟨by rw [s, l1.1], by rw [d, l2.2.1], by rw [r, l3.2.2]⟩
      · obtain ⟨y1, y2, y3, m1, m2, m3, i1, i2, i3, s, d, r⟩ := hinv.prov x hx
        have l1 := ((hpar y1 m1 i hi).2.1 t).1 (by rw [i1, e])
        have l2 := ((hpar y2 m2 i hi).2.1 t).1 (by rw [i2, e])
        exact ⟨by rw [s, l1.1], by rw [d, l2.2]⟩
      · obtain ⟨y1, y2, y3, m1, m2, m3, i1, i2, i3, s, d, r⟩ := hinv.prov x hx
        have l1 := ((hpar y1 m1 i hi).2.1 t).2 (by rw [i1, e])
        have l2 := ((hpar y2 m2 i hi).2.1 t).2 (by rw [i2, e])
        have l3 := ((hpar y3 m3 i hi).2.1 t).2 (by rw [i3, e])
        exact ⟨by rw [s, l1.1], by rw [d, l2.2.1], by rw [r, l3.2.2]⟩
      · obtain ⟨n, hn, e1, e2⟩ := hkind m hm
        rw [← e2]
        rcases hn with hn | hn
        · exact ((hi1.compat i hi).2 t).2.2 n hn (by rw [e1, e])
        · exact ((hi2.compat i hi).2 t).2.2 n hn (by rw [e1, e])
    · intro x hx
      obtain ⟨y1, _, _, m1, _, _, i1, _⟩ := hinv.prov x hx
      rw [← i1]
      rcases m1 with m | m
      · exact hi1.above.1 y1 m
      · exact hi2.above.1 y1 m
    · intro m hm
      obtain ⟨n, hn, e1, _⟩ := hkind m hm
      rw [← e1]
      rcases hn with hn | hn
      · exact hi1.above.2 n hn
      · exact hi2.above.2 n hn

/-! ### what a successful crossover hands to the closure argument -/

/-- the child is the finished accumulator of a walk that kept `AccInv`, collected genes in ascending order, and — when
    the parents share their first gene — collected a gene with that number -/
def MateOut (g og : Genome W) (id : Int) (c : Genome W) (needHead : Bool) : Prop :=
  ∃ (nt : List (Trait W)) (acc : MateAcc W),
    c = { id := id, traits := nt, nodes := acc.nodes, genes := acc.genes } ∧
    nt.map (·.id) = g.traits.map (·.id) ∧ AccInv g og nt acc ∧ GenesSorted acc.genes ∧
    ((needHead = true → SharedHead g og) → acc.genes ≠ []) ∧
    (SharedHead g og → ∃ a ∈ acc.genes, ∀ x ∈ g.genes.take 1, a.inn = x.inn)

omit [Scalar W] in
theorem walkInv_start' (p1 p2 : Genome W) (nt : List (Trait W)) (nodes : List Node) (l1 l2 : List (Gene W))
    (h : AccInv p1 p2 nt { nodes := nodes, genes := [] }) : WalkInv p1 p2 nt { nodes := nodes, genes := [] } l1 l2 :=
  ⟨h, by simp [GenesSorted], by simp, by simp⟩

omit [Scalar W] in
theorem heads_of_shared (g og : Genome W) (hw1 : WFT g) (hw2 : WFT og) (hh : SharedHead g og) :
    ∃ x xs y ys, g.genes = x :: xs ∧ og.genes = y :: ys ∧ x.inn = y.inn := by
  cases hg : g.genes with
  | nil => exact absurd hg hw1.wf.hasGene
  | cons x xs =>
    cases hg2 : og.genes with
    | nil => exact absurd hg2 hw2.wf.hasGene
    | cons y ys =>
      refine ⟨x, xs, y, ys, rfl, rfl, ?_⟩
      unfold SharedHead at hh; rw [hg, hg2] at hh; simpa using hh

theorem mateMultipoint_out (g og : Genome W) (id : Int) (f1 f2 : W) (rs rs' : List Nat) (c : Genome W)
    (hw1 : WFT g) (hw2 : WFT og) (h : mateMultipoint g og id f1 f2 rs = .ok (c, rs')) : MateOut g og id c false := by
  unfold mateMultipoint at h
  split at h
  · cases h
  · rename_i nt t0 nodes hpro
    simp only at h
    split at h
    · cases h
    · rename_i acc rs1 hwalk
      simp only [Except.ok.injEq, Prod.mk.injEq] at h
      obtain ⟨rfl, _⟩ := h
      obtain ⟨hids, hz, hacc⟩ := matePrologue_spec g og nt t0 nodes hpro hw1 hw2
      obtain ⟨a, b, c⟩ := multipointWalk_inv g og nt t0 _ g.genes og.genes _ rs acc rs1 hz hw1.wf.genesSorted
        hw2.wf.genesSorted (fun _ hx => hx) (fun _ hy => hy) (walkInv_start' g og nt nodes _ _ hacc) hwalk
      refine ⟨nt, acc, rfl, hids, a, b, fun _ => ?_, fun hh => ?_⟩
      · apply c
        right
        cases hb : p1Better f1 f2 g.genes.length og.genes.length
        · exact Or.inr ⟨rfl, hw2.wf.hasGene⟩
        · exact Or.inl ⟨rfl, hw1.wf.hasGene⟩
      · obtain ⟨x, xs, y, ys, e1, e2, exy⟩ := heads_of_shared g og hw1 hw2 hh
        rw [e1, e2] at hwalk
        obtain ⟨a', ha', ea'⟩ := multipointWalk_head g og nt t0 _ x xs y ys _ rs acc rs1 exy rfl hwalk
        exact ⟨a', ha', fun z hz => by rw [e1] at hz; simp at hz; rw [hz]; exact ea'⟩

theorem mateMultipointAvg_out (g og : Genome W) (id : Int) (f1 f2 : W) (rs rs' : List Nat) (c : Genome W)
    (hw1 : WFT g) (hw2 : WFT og) (h : mateMultipointAvg g og id f1 f2 rs = .ok (c, rs')) : MateOut g og id c false := by
  unfold mateMultipointAvg at h
  split at h
  · cases h
  · rename_i nt t0 nodes hpro
    simp only at h
    split at h
    · cases h
    · rename_i acc rs1 hwalk
      simp only [Except.ok.injEq, Prod.mk.injEq] at h
      obtain ⟨rfl, _⟩ := h
      obtain ⟨hids, hz, hacc⟩ := matePrologue_spec g og nt t0 nodes hpro hw1 hw2
      obtain ⟨a, b, c⟩ := multipointAvgWalk_inv g og nt t0 _ g.genes og.genes _ rs acc rs1 hz hw1.wf.genesSorted
        hw2.wf.genesSorted (fun _ hx => hx) (fun _ hy => hy) (walkInv_start' g og nt nodes _ _ hacc) hwalk
      refine ⟨nt, acc, rfl, hids, a, b, fun _ => ?_, fun hh => ?_⟩
      · apply c
        right
        cases hb : p1Better f1 f2 g.genes.length og.genes.length
        · exact Or.inr ⟨rfl, hw2.wf.hasGene⟩
        · exact Or.inl ⟨rfl, hw1.wf.hasGene⟩
      · obtain ⟨x, xs, y, ys, e1, e2, exy⟩ := heads_of_shared g og hw1 hw2 hh
        have hx : x ∈ g.genes := by rw [e1]; simp
        have hy : y ∈ og.genes := by rw [e2]; simp
        rw [e1, e2] at hwalk
        obtain ⟨a', ha', ea'⟩ := multipointAvgWalk_head g og nt t0 _ x xs y ys _ rs acc rs1 exy rfl hx hy hwalk
        exact ⟨a', ha', fun z hz => by rw [e1] at hz; simp at hz; rw [hz]; exact ea'⟩

theorem mateSinglePoint_out (g og : Genome W) (id : Int) (rs rs' : List Nat) (c : Genome W)
    (hw1 : WFT g) (hw2 : WFT og) (h : mateSinglePoint g og id rs = .ok (c, rs')) : MateOut g og id c true := by
  unfold mateSinglePoint at h
  split at h
  · cases h
  · rename_i nt t0 nodes hpro
    simp only at h
    split at h
    · cases h
    · rename_i cp rs1 _
      split at h
      · cases h
      · rename_i acc rs2 hwalk
        simp only [Except.ok.injEq, Prod.mk.injEq] at h
        obtain ⟨rfl, _⟩ := h
        obtain ⟨hids, hz, hacc⟩ := matePrologue_spec g og nt t0 nodes hpro hw1 hw2
        by_cases hsh : g.genes.length < og.genes.length
        · simp only [hsh, decide_true, ↓reduceIte] at hwalk
          obtain ⟨a, b, c⟩ := singlePointWalk_inv g og g og (Or.inl ⟨rfl, rfl⟩) nt t0 cp g.genes og.genes 0 none _ rs1
            acc rs2 hz hw1.wf.genesSorted hw2.wf.genesSorted (fun _ h => h) (fun _ h => h) hacc (by simp [GenesSorted])
            (by simp) (by simp) hwalk
          refine ⟨nt, acc, rfl, hids, a, b, fun hh => ?_, fun hh => ?_⟩
          · obtain ⟨x, xs, y, ys, e1, e2, exy⟩ := heads_of_shared g og hw1 hw2 (hh rfl)
            exact c (Or.inr ⟨x, xs, y, ys, e1, e2, exy⟩)
          · obtain ⟨x, xs, y, ys, e1, e2, exy⟩ := heads_of_shared g og hw1 hw2 hh
            have hx : x ∈ g.genes := by rw [e1]; simp
            have hy : y ∈ og.genes := by rw [e2]; simp
            rw [e1, e2] at hwalk
            obtain ⟨a', ha', ea'⟩ := singlePointWalk_head g og nt t0 cp x xs y ys 0 none _ rs1 acc rs2 exy rfl hx hy hwalk
            exact ⟨a', ha', fun z hz => by rw [e1] at hz; simp at hz; rw [hz]; exact ea'⟩
        · simp only [hsh, decide_false, Bool.false_eq_true, ↓reduceIte] at hwalk
          obtain ⟨a, b, c⟩ := singlePointWalk_inv g og og g (Or.inr ⟨rfl, rfl⟩) nt t0 cp og.genes g.genes 0 none _ rs1
            acc rs2 hz hw2.wf.genesSorted hw1.wf.genesSorted (fun _ h => h) (fun _ h => h) hacc (by simp [GenesSorted])
            (by simp) (by simp) hwalk
          refine ⟨nt, acc, rfl, hids, a, b, fun hh => ?_, fun hh => ?_⟩
          · obtain ⟨x, xs, y, ys, e1, e2, exy⟩ := heads_of_shared g og hw1 hw2 (hh rfl)
            exact c (Or.inr ⟨y, ys, x, xs, e2, e1, exy.symm⟩)
          · obtain ⟨x, xs, y, ys, e1, e2, exy⟩ := heads_of_shared g og hw1 hw2 hh
            have hx : x ∈ g.genes := by rw [e1]; simp
            have hy : y ∈ og.genes := by rw [e2]; simp
            rw [e1, e2] at hwalk
            obtain ⟨a', ha', ea'⟩ := singlePointWalk_head og g nt t0 cp y ys x xs 0 none _ rs1 acc rs2 exy.symm rfl hy hx hwalk
            exact ⟨a', ha', fun z hz => by rw [e1] at hz; simp at hz; rw [hz, exy]; exact ea'⟩

/-- **closure of a crossover inside a population**: parents that are well-formed, of one node lineage and share their
    first gene give a child that is well-formed, retains both parents' input/bias/output nodes, shares the first gene,
    is of the node lineage of everything its parents are, and satisfies every registry invariant both parents satisfy -/
theorem mateOut_closed (g og : Genome W) (id : Int) (c : Genome W) (nh : Bool) (hw1 : WFT g) (hw2 : WFT og)
    (hl : NodeLineage g og) (hh : SharedHead g og) (ho : MateOut g og id c nh) :
    WFT c ∧ Retains og c ∧ Retains g c ∧ c.modules = [] ∧ SharedHead c g ∧ SharedHead c og ∧
    (∀ b : Genome W, NodeLineage g b → NodeLineage og b → NodeLineage c b) ∧
    (∀ reg : Reg W, RegInv reg g → RegInv reg og → RegInv reg c) := by
  obtain ⟨nt, acc, rfl, hids, hacc, hsorted, hne, hhead⟩ := ho
  obtain ⟨w, r1, r2⟩ := child_wft g og nt acc id hacc hsorted (hne (fun _ => hh)) hw1 hw2 hl hids
  obtain ⟨f1, f2, f3⟩ := child_fits g og nt acc id hacc hsorted hw1 hw2 hl hids
  obtain ⟨s1, s2⟩ := f1 hh (hhead hh)
  exact ⟨w, r1, r2, rfl, s1, s2, f2, f3⟩

end GoNeat.C01
