/-
  Helper lemmas for C11, graph view in the presence of ENABLED modules: the control-node branches of `edgeBetween`
  (as repaired by 513f15a), `From` / `To` with control nodes.  On any network that `expresses` a well-formed genome
  the answers are those of the genome-level specification (Spec/Genesis.lean: `specEdge`, `specHasEdge`, `specFrom`,
  `specTo` over `dirEdges` = enabled genes, then per enabled module its input wires `node → ctrl` and output wires
  `ctrl → node`).  Core Lean only.

  Method: a control node is looked at only through its id and the id-level images of its wire lists (`cview`);
  `Expressed` says that these views are exactly the views of the enabled modules (`mview`), so the search loops
  become functions of the genome (`vScan`), compared with `List.find?` over `dirEdges` by induction over the modules.
-/
import GoNeat.Proofs.GraphView

set_option linter.unusedSectionVars false
set_option linter.unusedVariables false

namespace GoNeat.Genesis

variable {W : Type}

/-! ### views -/

/-- what the graph view reads of a control node: its id and its wires on ids -/
structure CView (W : Type) where
  id : Int
  ins : List (ELink W)
  outs : List (ELink W)

def cview (net : Net W) (cn : NNodeS W) : CView W :=
  ⟨cn.id, cn.incoming.map (elink net), cn.outgoing.map (elink net)⟩

def mview (m : Module W) : CView W := ⟨m.ctrl.id, modIns m, modOuts m⟩

def vEdgeOut (c : CView W) (oid : Int) (directed vKnown : Bool) : Option (Option (ELink W)) :=
  match c.outs.find? fun e => e.dst == some oid with
  | some l => if !directed then some (some l) else if vKnown then some (some l) else some none
  | none => none

def vEdge (c : CView W) (oid : Int) (directed uKnown vKnown : Bool) : Option (Option (ELink W)) :=
  match c.ins.find? fun e => e.src == some oid with
  | some l => if !directed || uKnown then some (some l) else vEdgeOut c oid directed vKnown
  | none => vEdgeOut c oid directed vKnown

def vScan (cid oid : Int) (directed uKnown vKnown : Bool) : List (CView W) → Option (ELink W)
  | [] => none
  | c :: rest =>
    if c.id != cid then vScan cid oid directed uKnown vKnown rest
    else
      match vEdge c oid directed uKnown vKnown with
      | some r => r
      | none => vScan cid oid directed uKnown vKnown rest

theorem ctrlEdgeOut_view (net : Net W) (cn : NNodeS W) (oid : Int) (d vk : Bool) :
    (ctrlEdgeOut net cn oid d vk).map (Option.map (elink net)) = vEdgeOut (cview net cn) oid d vk := by
  unfold ctrlEdgeOut vEdgeOut cview
  simp only
  rw [List.find?_map]
  have : ((fun e : ELink W => e.dst == some oid) ∘ elink net) = fun l => idAt net l.dst == some oid := rfl
  rw [this]
  cases cn.outgoing.find? fun l => idAt net l.dst == some oid with
  | none => rfl
  | some l => cases d <;> cases vk <;> rfl

theorem ctrlEdge_view (net : Net W) (cn : NNodeS W) (oid : Int) (d uk vk : Bool) :
    (ctrlEdge net cn oid d uk vk).map (Option.map (elink net)) = vEdge (cview net cn) oid d uk vk := by
  unfold ctrlEdge vEdge
  have hin : (cview net cn).ins.find? (fun e => e.src == some oid) =
      (cn.incoming.find? fun l => idAt net l.src == some oid).map (elink net) := by
    unfold cview; simp only; rw [List.find?_map]; rfl
  rw [hin]
  cases cn.incoming.find? fun l => idAt net l.src == some oid with
  | none => exact ctrlEdgeOut_view net cn oid d vk
  | some l =>
    simp only [Option.map_some]
    by_cases h : (!d || uk) = true
    · simp [h]
    · simp only [h, Bool.false_eq_true, ↓reduceIte]
      exact ctrlEdgeOut_view net cn oid d vk

theorem ctrlScan_view (net : Net W) (cid oid : Int) (d uk vk : Bool) (cs : List (NNodeS W)) :
    (ctrlScan net cid oid d uk vk cs).map (elink net) = vScan cid oid d uk vk (cs.map (cview net)) := by
  induction cs with
  | nil => rfl
  | cons cn rest ih =>
    unfold ctrlScan
    simp only [List.map_cons]
    unfold vScan
    have hid : (cview net cn).id = cn.id := rfl
    rw [hid]
    by_cases hc : (cn.id != cid) = true
    · simp only [hc, ↓reduceIte]; exact ih
    · simp only [hc, Bool.false_eq_true, ↓reduceIte]
      rw [← ctrlEdge_view]
      cases ctrlEdge net cn oid d uk vk with
      | none => exact ih
      | some r => rfl

/-! ### the control nodes of an expressed network are the enabled modules -/

theorem zip_of_map_eq {α β γ} (f : α → γ) (g : β → γ) :
    ∀ (l1 : List α) (l2 : List β), l1.map f = l2.map g → ∀ p ∈ l1.zip l2, f p.1 = g p.2 := by
  intro l1
  induction l1 with
  | nil => intro l2 _ p hp; simp at hp
  | cons a l ih =>
    intro l2 h p hp
    cases l2 with
    | nil => simp at hp
    | cons b l' =>
      simp only [List.map_cons, List.cons.injEq] at h
      simp only [List.zip_cons_cons, List.mem_cons] at hp
      rcases hp with rfl | hp
      · exact h.1
      · exact ih l' h.2 p hp

theorem map_eq_of_zip {α β γ} (f : α → γ) (g : β → γ) :
    ∀ (l1 : List α) (l2 : List β), l1.length = l2.length → (∀ p ∈ l1.zip l2, f p.1 = g p.2) → l1.map f = l2.map g := by
  intro l1
  induction l1 with
  | nil => intro l2 hl _; cases l2 with
    | nil => rfl
    | cons b l' => simp at hl
  | cons a l ih =>
    intro l2 hl h
    cases l2 with
    | nil => simp at hl
    | cons b l' =>
      simp only [List.map_cons, List.cons.injEq]
      exact ⟨h (a, b) (by simp), ih l' (by simpa using hl) (fun p hp => h p (by simp [hp]))⟩

section
variable [DecidableEq W]

theorem ctrl_views {g : Genome W} {netId : Int} {net : Net W} (hx : Expressed g netId net) :
    net.ctrl.map (cview net) = (enabledMods g).map mview := by
  have hlen : net.ctrl.length = (enabledMods g).length := by
    have := congrArg List.length hx.ctrlTriples
    simpa [nodeTriples] using this
  apply map_eq_of_zip _ _ _ _ hlen
  intro p hp
  have hid := zip_of_map_eq (fun nd : NNodeS W => (nd.id, nd.kind, nd.act))
    (fun m : Module W => (m.ctrl.id, m.ctrl.kind, m.ctrl.act)) net.ctrl (enabledMods g) hx.ctrlTriples p hp
  obtain ⟨h1, h2⟩ := hx.ctrlLinks p hp
  unfold cview mview
  simp only [Prod.mk.injEq] at hid
  rw [hid.1, h1, h2]

end

/-! ### the module wires on ids -/

theorem find_congr {α} {p q : α → Bool} (l : List α) (h : ∀ a ∈ l, p a = q a) : l.find? p = l.find? q := by
  induction l with
  | nil => rfl
  | cons a l ih =>
    simp only [List.find?_cons, h a (by simp)]
    rw [ih (fun b hb => h b (by simp [hb]))]

/-- all wires of the modules `M`: per module its input wires `node → ctrl`, then its output wires `ctrl → node` -/
def modEdgesOf (M : List (Module W)) : List (ELink W) := M.flatMap fun m => modIns m ++ modOuts m

theorem modEdgesOf_cons (m : Module W) (ms : List (Module W)) :
    modEdgesOf (m :: ms) = modIns m ++ (modOuts m ++ modEdgesOf ms) := by
  unfold modEdgesOf; rw [List.flatMap_cons, List.append_assoc]

theorem dirEdges_eq (g : Genome W) : dirEdges g = EG g ++ modEdgesOf (enabledMods g) := rfl

theorem mem_modIns {m : Module W} {e : ELink W} (h : e ∈ modIns m) :
    ∃ w ∈ m.ins, e.src = some w.node ∧ e.dst = some m.ctrl.id := by
  unfold modIns at h
  obtain ⟨w, hw, rfl⟩ := List.mem_map.mp h
  exact ⟨w, hw, rfl, rfl⟩

theorem mem_modOuts {m : Module W} {e : ELink W} (h : e ∈ modOuts m) :
    ∃ w ∈ m.outs, e.src = some m.ctrl.id ∧ e.dst = some w.node := by
  unfold modOuts at h
  obtain ⟨w, hw, rfl⟩ := List.mem_map.mp h
  exact ⟨w, hw, rfl, rfl⟩

/-- the modules are well-formed relative to the ordinary node ids `ids`: control ids are no ordinary ids and pairwise
    different, every wire names an ordinary node -/
structure ModsOk (ids : List Int) (M : List (Module W)) : Prop where
  fresh : ∀ m ∈ M, m.ctrl.id ∉ ids
  ins : ∀ m ∈ M, ∀ w ∈ m.ins, w.node ∈ ids
  outs : ∀ m ∈ M, ∀ w ∈ m.outs, w.node ∈ ids
  distinct : (M.map (·.ctrl.id)).Nodup

theorem ModsOk.tail {ids : List Int} {m : Module W} {ms : List (Module W)} (h : ModsOk ids (m :: ms)) : ModsOk ids ms :=
  ⟨fun x hx => h.fresh x (by simp [hx]), fun x hx => h.ins x (by simp [hx]), fun x hx => h.outs x (by simp [hx]),
   by have := h.distinct; rw [List.map_cons, List.nodup_cons] at this; exact this.2⟩

theorem ModsOk.head_ne {ids : List Int} {m : Module W} {ms : List (Module W)} (h : ModsOk ids (m :: ms)) :
    ∀ x ∈ ms, x.ctrl.id ≠ m.ctrl.id := by
  intro x hx heq
  have := h.distinct
  rw [List.map_cons, List.nodup_cons] at this
  exact this.1 (heq ▸ List.mem_map.mpr ⟨x, hx, rfl⟩)

theorem modsOk_of_ok {g : Genome W} (hok : Ok g) : ModsOk (nodeIds' g) (enabledMods g) := by
  have hnd := List.nodup_append.mp hok.nodup
  have hsub : (enabledMods g).Sublist g.modules := List.filter_sublist
  refine ⟨?_, ?_, ?_, ?_⟩
  · intro m hm hmem
    have hm' : m ∈ g.modules := (List.mem_filter.mp hm).1
    exact hnd.2.2 _ hmem _ (List.mem_map.mpr ⟨m, hm', rfl⟩) rfl
  · intro m hm
    exact (hok.wires m (List.mem_filter.mp hm).1).1
  · intro m hm
    exact (hok.wires m (List.mem_filter.mp hm).1).2
  · exact List.Pairwise.sublist (hsub.map _) hnd.2.1

/-- no wire joins two ordinary nodes, two non-ordinary ids, ... -/
theorem modEdges_none_ordinary {ids : List Int} {M : List (Module W)} (h : ModsOk ids M) {u v : Int}
    (hu : u ∈ ids) (hv : v ∈ ids) : (modEdgesOf M).find? (edgeP u v) = none := by
  rw [List.find?_eq_none]
  intro e he hp
  unfold modEdgesOf at he
  obtain ⟨m, hm, hem⟩ := List.mem_flatMap.mp he
  simp only [edgeP, Bool.and_eq_true, beq_iff_eq] at hp
  rcases List.mem_append.mp hem with h1 | h1
  · obtain ⟨w, _, _, hd⟩ := mem_modIns h1
    rw [hd] at hp
    exact h.fresh m hm (Option.some.inj hp.2 ▸ hv)
  · obtain ⟨w, _, hs, _⟩ := mem_modOuts h1
    rw [hs] at hp
    exact h.fresh m hm (Option.some.inj hp.1 ▸ hu)

theorem modEdges_none_absent {ids : List Int} {M : List (Module W)} (h : ModsOk ids M) {u v : Int}
    (hu : u ∉ ids) (hv : v ∉ ids) : (modEdgesOf M).find? (edgeP u v) = none := by
  rw [List.find?_eq_none]
  intro e he hp
  unfold modEdgesOf at he
  obtain ⟨m, hm, hem⟩ := List.mem_flatMap.mp he
  simp only [edgeP, Bool.and_eq_true, beq_iff_eq] at hp
  rcases List.mem_append.mp hem with h1 | h1
  · obtain ⟨w, hw, hs, _⟩ := mem_modIns h1
    rw [hs] at hp
    exact hu (Option.some.inj hp.1 ▸ h.ins m hm w hw)
  · obtain ⟨w, hw, _, hd⟩ := mem_modOuts h1
    rw [hd] at hp
    exact hv (Option.some.inj hp.2 ▸ h.outs m hm w hw)

/-- nothing ends at (starts from) a control id that no module of the list has -/
theorem modEdges_none_to {ids : List Int} {M : List (Module W)} (h : ModsOk ids M) {u c : Int}
    (hu : u ∈ ids) (hc : ∀ m ∈ M, m.ctrl.id ≠ c) : (modEdgesOf M).find? (edgeP u c) = none := by
  rw [List.find?_eq_none]
  intro e he hp
  unfold modEdgesOf at he
  obtain ⟨m, hm, hem⟩ := List.mem_flatMap.mp he
  simp only [edgeP, Bool.and_eq_true, beq_iff_eq] at hp
  rcases List.mem_append.mp hem with h1 | h1
  · obtain ⟨w, _, _, hd⟩ := mem_modIns h1
    rw [hd] at hp
    exact hc m hm (Option.some.inj hp.2)
  · obtain ⟨w, _, hs, _⟩ := mem_modOuts h1
    rw [hs] at hp
    exact h.fresh m hm (Option.some.inj hp.1 ▸ hu)

/-! ### the three uses of the control-node search, against `find?` over the module wires -/

/-- directed query that STARTS at a non-ordinary id `c` and ends at an ordinary node `o` -/
theorem vScan_from_ctrl {ids : List Int} (M : List (Module W)) (h : ModsOk ids M) {c o : Int} (hc : c ∉ ids) :
    vScan c o true false true (M.map mview) = (modEdgesOf M).find? (edgeP c o) := by
  induction M with
  | nil => rfl
  | cons m ms ih =>
    have ih' := ih h.tail
    rw [modEdgesOf_cons, List.find?_append, List.find?_append]
    have hins : (modIns m).find? (edgeP c o) = none := by
      rw [List.find?_eq_none]
      intro e he hp
      obtain ⟨w, hw, hs, _⟩ := mem_modIns he
      simp only [edgeP, Bool.and_eq_true, beq_iff_eq] at hp
      rw [hs] at hp
      exact hc (Option.some.inj hp.1 ▸ h.ins m (by simp) w hw)
    rw [hins, Option.none_or]
    simp only [List.map_cons]
    unfold vScan
    have hid : (mview m).id = m.ctrl.id := rfl
    rw [hid]
    by_cases hmc : m.ctrl.id = c
    · have hb : (m.ctrl.id != c) = false := by simp [hmc]
      simp only [hb, Bool.false_eq_true, ↓reduceIte]
      have hE : vEdge (mview m) o true false true = vEdgeOut (mview m) o true true := by
        unfold vEdge
        cases (mview m).ins.find? fun e => e.src == some o <;> simp
      rw [hE]
      unfold vEdgeOut
      have hcongr : (modOuts m).find? (edgeP c o) = (modOuts m).find? (fun e => e.dst == some o) := by
        apply find_congr
        intro e he
        obtain ⟨w, _, hs, _⟩ := mem_modOuts he
        simp [edgeP, hs, hmc]
      rw [hcongr]
      have hv : (mview m).outs = modOuts m := rfl
      rw [hv]
      cases (modOuts m).find? fun e => e.dst == some o with
      | none => simpa using ih'
      | some l => simp
    · have hb : (m.ctrl.id != c) = true := by simp [hmc]
      simp only [hb, ↓reduceIte]
      have houts : (modOuts m).find? (edgeP c o) = none := by
        rw [List.find?_eq_none]
        intro e he hp
        obtain ⟨w, _, hs, _⟩ := mem_modOuts he
        simp only [edgeP, Bool.and_eq_true, beq_iff_eq] at hp
        rw [hs] at hp
        exact hmc (Option.some.inj hp.1)
      rw [houts, Option.none_or]
      exact ih'

/-- directed query that starts at an ordinary node `o` and ENDS at a non-ordinary id `c` -/
theorem vScan_to_ctrl {ids : List Int} (M : List (Module W)) (h : ModsOk ids M) {c o : Int} (ho : o ∈ ids) :
    vScan c o true true false (M.map mview) = (modEdgesOf M).find? (edgeP o c) := by
  induction M with
  | nil => rfl
  | cons m ms ih =>
    have ih' := ih h.tail
    rw [modEdgesOf_cons, List.find?_append, List.find?_append]
    have houts : (modOuts m).find? (edgeP o c) = none := by
      rw [List.find?_eq_none]
      intro e he hp
      obtain ⟨w, _, hs, _⟩ := mem_modOuts he
      simp only [edgeP, Bool.and_eq_true, beq_iff_eq] at hp
      rw [hs] at hp
      exact h.fresh m (by simp) (Option.some.inj hp.1 ▸ ho)
    rw [houts, Option.none_or]
    simp only [List.map_cons]
    unfold vScan
    have hid : (mview m).id = m.ctrl.id := rfl
    rw [hid]
    by_cases hmc : m.ctrl.id = c
    · have hb : (m.ctrl.id != c) = false := by simp [hmc]
      simp only [hb, Bool.false_eq_true, ↓reduceIte]
      have hcongr : (modIns m).find? (edgeP o c) = (modIns m).find? (fun e => e.src == some o) := by
        apply find_congr
        intro e he
        obtain ⟨w, _, _, hd⟩ := mem_modIns he
        simp [edgeP, hd, hmc]
      rw [hcongr]
      have hrest : (modEdgesOf ms).find? (edgeP o c) = none :=
        modEdges_none_to h.tail ho (fun x hx => hmc ▸ h.head_ne x hx)
      unfold vEdge
      have hv : (mview m).ins = modIns m := rfl
      rw [hv]
      cases (modIns m).find? fun e => e.src == some o with
      | some l => simp
      | none =>
        simp only [Option.none_or, hrest]
        unfold vEdgeOut
        cases (mview m).outs.find? fun e => e.dst == some o with
        | some l => simp
        | none => simpa [hrest] using ih'
    · have hb : (m.ctrl.id != c) = true := by simp [hmc]
      simp only [hb, ↓reduceIte]
      have hins : (modIns m).find? (edgeP o c) = none := by
        rw [List.find?_eq_none]
        intro e he hp
        obtain ⟨w, _, _, hd⟩ := mem_modIns he
        simp only [edgeP, Bool.and_eq_true, beq_iff_eq] at hp
        rw [hd] at hp
        exact hmc (Option.some.inj hp.2)
      rw [hins, Option.none_or]
      exact ih'

/-- undirected query between a non-ordinary id `c` and an ordinary node `o` -/
theorem vScan_between {ids : List Int} (M : List (Module W)) (h : ModsOk ids M) {c o : Int} (hc : c ∉ ids) (ho : o ∈ ids)
    (uk vk : Bool) :
    (vScan c o false uk vk (M.map mview)).isSome =
      (((modEdgesOf M).find? (edgeP o c)).isSome || ((modEdgesOf M).find? (edgeP c o)).isSome) := by
  induction M with
  | nil => rfl
  | cons m ms ih =>
    have ih' := ih h.tail
    rw [modEdgesOf_cons, List.find?_append, List.find?_append, List.find?_append, List.find?_append]
    have h1 : (modOuts m).find? (edgeP o c) = none := by
      rw [List.find?_eq_none]
      intro e he hp
      obtain ⟨w, _, hs, _⟩ := mem_modOuts he
      simp only [edgeP, Bool.and_eq_true, beq_iff_eq] at hp
      rw [hs] at hp
      exact h.fresh m (by simp) (Option.some.inj hp.1 ▸ ho)
    have h2 : (modIns m).find? (edgeP c o) = none := by
      rw [List.find?_eq_none]
      intro e he hp
      obtain ⟨w, hw, hs, _⟩ := mem_modIns he
      simp only [edgeP, Bool.and_eq_true, beq_iff_eq] at hp
      rw [hs] at hp
      exact hc (Option.some.inj hp.1 ▸ h.ins m (by simp) w hw)
    rw [h1, h2, Option.none_or, Option.none_or]
    simp only [List.map_cons]
    unfold vScan
    have hid : (mview m).id = m.ctrl.id := rfl
    rw [hid]
    by_cases hmc : m.ctrl.id = c
    · have hb : (m.ctrl.id != c) = false := by simp [hmc]
      simp only [hb, Bool.false_eq_true, ↓reduceIte]
      have hci : (modIns m).find? (edgeP o c) = (modIns m).find? (fun e => e.src == some o) := by
        apply find_congr
        intro e he
        obtain ⟨w, _, _, hd⟩ := mem_modIns he
        simp [edgeP, hd, hmc]
      have hco : (modOuts m).find? (edgeP c o) = (modOuts m).find? (fun e => e.dst == some o) := by
        apply find_congr
        intro e he
        obtain ⟨w, _, hs, _⟩ := mem_modOuts he
        simp [edgeP, hs, hmc]
      rw [hci, hco]
      unfold vEdge vEdgeOut
      have hv1 : (mview m).ins = modIns m := rfl
      have hv2 : (mview m).outs = modOuts m := rfl
      rw [hv1, hv2]
      cases (modIns m).find? fun e => e.src == some o with
      | some l => simp
      | none =>
        cases (modOuts m).find? fun e => e.dst == some o with
        | some l => simp
        | none => simpa using ih'
    · have hb : (m.ctrl.id != c) = true := by simp [hmc]
      simp only [hb, ↓reduceIte]
      have h3 : (modIns m).find? (edgeP o c) = none := by
        rw [List.find?_eq_none]
        intro e he hp
        obtain ⟨w, _, _, hd⟩ := mem_modIns he
        simp only [edgeP, Bool.and_eq_true, beq_iff_eq] at hp
        rw [hd] at hp
        exact hmc (Option.some.inj hp.2)
      have h4 : (modOuts m).find? (edgeP c o) = none := by
        rw [List.find?_eq_none]
        intro e he hp
        obtain ⟨w, _, hs, _⟩ := mem_modOuts he
        simp only [edgeP, Bool.and_eq_true, beq_iff_eq] at hp
        rw [hs] at hp
        exact hmc (Option.some.inj hp.1)
      rw [h3, h4, Option.none_or, Option.none_or]
      exact ih'

/-! ### `edgeBetween` on a network that expresses a well-formed genome, modules included -/

section
variable [DecidableEq W]

theorem mem_ids_of_find {g : Genome W} {netId : Int} {net : Net W} (hx : Expressed g netId net) {u : Int} {nd : NNodeS W}
    (h : net.nodes.find? (·.id == u) = some nd) : u ∈ nodeIds' g := by
  obtain ⟨hM, hI⟩ := find_node h
  rw [← hx.ids]
  exact List.mem_map.mpr ⟨nd, hM, hI⟩

theorem EG_none_left {g : Genome W} (hok : Ok g) {u v : Int} (h : u ∉ nodeIds' g) :
    (EG g).find? (edgeP u v) = none := EG_find_none_of_absent hok (Or.inl h)

theorem EG_none_right {g : Genome W} (hok : Ok g) {u v : Int} (h : v ∉ nodeIds' g) :
    (EG g).find? (edgeP u v) = none := EG_find_none_of_absent hok (Or.inr h)

/-- `edgeBetween(u, v, directed = true)` = the first edge `u → v` of `dirEdges`: the first enabled gene, else the first
    wire of the enabled module whose control node is `u` or `v` -/
theorem edgeBetween_directed_mod {g : Genome W} {netId : Int} {net : Net W} (hok : Ok g) (hx : Expressed g netId net)
    (u v : Int) : (edgeBetween net u v true).map (elink net) = (dirEdges g).find? (edgeP u v) := by
  have hnd : (net.nodes.map (·.id)).Nodup := by rw [hx.ids]; exact hok.nodupNodes
  have hM := modsOk_of_ok hok
  rw [dirEdges_eq, List.find?_append]
  unfold edgeBetween
  rw [scanUV_top u v net.nodes hnd]
  cases hu : net.nodes.find? (·.id == u) with
  | none =>
    have hua := find_node_none hx hu
    rw [EG_none_left hok hua, Option.none_or]
    cases hv : net.nodes.find? (·.id == v) with
    | none =>
      rw [modEdges_none_absent hM hua (find_node_none hx hv)]; rfl
    | some vN =>
      simp only
      rw [ctrlScan_view, ctrl_views hx]
      exact vScan_from_ctrl _ hM hua
  | some uN =>
    have hum := mem_ids_of_find hx hu
    obtain ⟨huM, huI⟩ := find_node hu
    cases hv : net.nodes.find? (·.id == v) with
    | none =>
      have hva := find_node_none hx hv
      rw [EG_none_right hok hva, Option.none_or]
      simp only
      rw [ctrlScan_view, ctrl_views hx]
      exact vScan_to_ctrl _ hM hum
    | some vN =>
      have hvm := mem_ids_of_find hx hv
      obtain ⟨hvM, hvI⟩ := find_node hv
      rw [modEdges_none_ordinary hM hum hvm, Option.or_none]
      have hA := incoming_find hx hvM u
      have hB := outgoing_find hx huM v
      rw [hvI] at hA
      rw [huI] at hB
      simp only [Bool.not_true, Bool.false_eq_true, ↓reduceIte]
      cases hf : vN.incoming.find? (fun l => idAt net l.src == some u) with
      | some l => rw [hf] at hA; simpa using hA
      | none => simpa using hB

/-- `edgeBetween(u, v, directed = false)` finds something iff `dirEdges` has an edge `u → v` or `v → u` -/
theorem edgeBetween_undirected_mod {g : Genome W} {netId : Int} {net : Net W} (hok : Ok g) (hx : Expressed g netId net)
    (u v : Int) :
    (edgeBetween net u v false).isSome =
      (((dirEdges g).find? (edgeP u v)).isSome || ((dirEdges g).find? (edgeP v u)).isSome) := by
  have hnd : (net.nodes.map (·.id)).Nodup := by rw [hx.ids]; exact hok.nodupNodes
  have hM := modsOk_of_ok hok
  have hsome : ∀ o : Option (NLink W), o.isSome = (o.map (elink net)).isSome := fun o => by cases o <;> rfl
  rw [dirEdges_eq, List.find?_append, List.find?_append]
  unfold edgeBetween
  rw [scanUV_top u v net.nodes hnd]
  cases hu : net.nodes.find? (·.id == u) with
  | none =>
    have hua := find_node_none hx hu
    rw [EG_none_left hok hua, EG_none_right hok hua, Option.none_or, Option.none_or]
    cases hv : net.nodes.find? (·.id == v) with
    | none =>
      have hva := find_node_none hx hv
      rw [modEdges_none_absent hM hua hva, modEdges_none_absent hM hva hua]; rfl
    | some vN =>
      simp only
      rw [hsome, ctrlScan_view, ctrl_views hx, vScan_between _ hM hua (mem_ids_of_find hx hv), Bool.or_comm]
  | some uN =>
    have hum := mem_ids_of_find hx hu
    obtain ⟨huM, huI⟩ := find_node hu
    cases hv : net.nodes.find? (·.id == v) with
    | none =>
      have hva := find_node_none hx hv
      rw [EG_none_right hok hva, EG_none_left hok hva, Option.none_or, Option.none_or]
      simp only
      rw [hsome, ctrlScan_view, ctrl_views hx, vScan_between _ hM hva hum]
    | some vN =>
      have hvm := mem_ids_of_find hx hv
      rw [modEdges_none_ordinary hM hum hvm, modEdges_none_ordinary hM hvm hum, Option.or_none, Option.or_none]
      have hA := incoming_find hx huM v
      have hB := outgoing_find hx huM v
      rw [huI] at hA hB
      simp only [Bool.not_false, ↓reduceIte]
      cases hf : uN.incoming.find? (fun l => idAt net l.src == some v) with
      | some l => rw [hf] at hA; rw [← hA]; simp
      | none =>
        rw [hf] at hA
        rw [← hA, ← hB]
        cases uN.outgoing.find? (fun l => idAt net l.dst == some v) <;> rfl

/-! ### `From` / `To` with control nodes -/

theorem filter_map_map {α β γ} (f : α → β) (p : β → Bool) (k : β → γ) (l : List α) :
    ((l.map f).filter p).map k = (l.filter (p ∘ f)).map (k ∘ f) := by
  rw [List.filter_map, List.map_map]

/-- the control nodes fed by `u` are the enabled modules listing `u` as an input -/
theorem ctrl_fed_by {g : Genome W} {netId : Int} {net : Net W} (hx : Expressed g netId net) (u : Int) :
    (net.ctrl.filter fun cn => cn.incoming.any fun l => idAt net l.src == some u).map (fun cn => some cn.id) =
      ((enabledMods g).filter fun m => m.ins.any fun w => w.node == u).map fun m => some m.ctrl.id := by
  have h1 := filter_map_map (cview net) (fun c : CView W => c.ins.any fun e => e.src == some u) (fun c => some c.id) net.ctrl
  have h2 := filter_map_map (mview (W := W)) (fun c : CView W => c.ins.any fun e => e.src == some u) (fun c => some c.id)
    (enabledMods g)
  rw [ctrl_views hx, h2] at h1
  have e1 : ((fun c : CView W => c.ins.any fun e => e.src == some u) ∘ cview net) =
      fun cn => cn.incoming.any fun l => idAt net l.src == some u := by
    funext cn; simp only [Function.comp, cview, List.any_map]; rfl
  have e2 : ((fun c : CView W => c.ins.any fun e => e.src == some u) ∘ mview (W := W)) =
      fun m => m.ins.any fun w => w.node == u := by
    funext m; simp only [Function.comp, mview, modIns, List.any_map]
    congr 1
  rw [e1, e2] at h1
  exact h1.symm

theorem ctrl_feeding {g : Genome W} {netId : Int} {net : Net W} (hx : Expressed g netId net) (v : Int) :
    (net.ctrl.filter fun cn => cn.outgoing.any fun l => idAt net l.dst == some v).map (fun cn => some cn.id) =
      ((enabledMods g).filter fun m => m.outs.any fun w => w.node == v).map fun m => some m.ctrl.id := by
  have h1 := filter_map_map (cview net) (fun c : CView W => c.outs.any fun e => e.dst == some v) (fun c => some c.id) net.ctrl
  have h2 := filter_map_map (mview (W := W)) (fun c : CView W => c.outs.any fun e => e.dst == some v) (fun c => some c.id)
    (enabledMods g)
  rw [ctrl_views hx, h2] at h1
  have e1 : ((fun c : CView W => c.outs.any fun e => e.dst == some v) ∘ cview net) =
      fun cn => cn.outgoing.any fun l => idAt net l.dst == some v := by
    funext cn; simp only [Function.comp, cview, List.any_map]; rfl
  have e2 : ((fun c : CView W => c.outs.any fun e => e.dst == some v) ∘ mview (W := W)) =
      fun m => m.outs.any fun w => w.node == v := by
    funext m; simp only [Function.comp, mview, modOuts, List.any_map]
    congr 1
  rw [e1, e2] at h1
  exact h1.symm

/-- looking a control node up by id = looking the enabled module up by its control id -/
theorem ctrl_find {g : Genome W} {netId : Int} {net : Net W} (hx : Expressed g netId net) (u : Int) :
    (net.ctrl.find? (·.id == u)).map (cview net) = ((enabledMods g).find? (·.ctrl.id == u)).map mview := by
  have h1 : (net.ctrl.map (cview net)).find? (fun c => c.id == u) = (net.ctrl.find? (·.id == u)).map (cview net) := by
    rw [List.find?_map]; rfl
  have h2 : ((enabledMods g).map mview).find? (fun c : CView W => c.id == u) =
      ((enabledMods g).find? (·.ctrl.id == u)).map mview := by
    rw [List.find?_map]; rfl
  rw [← h1, ← h2, ctrl_views hx]

theorem from_spec_mod {g : Genome W} {netId : Int} {net : Net W} (hok : Ok g) (hx : Expressed g netId net) (u : Int) :
    fromIds net u = specFrom g u := by
  have hM := modsOk_of_ok hok
  unfold fromIds nodeWithID allMIMO specFrom
  rw [List.find?_append, ctrl_fed_by hx u]
  cases hu : net.nodes.find? (·.id == u) with
  | some nd =>
    obtain ⟨hMem, hI⟩ := find_node hu
    have hcn : (nodeIds' g).contains u = true := by
      rw [List.contains_iff_mem]; exact mem_ids_of_find hx hu
    have := (hx.links nd hMem).2
    rw [hI] at this
    simp only [Option.some_or, hcn, ↓reduceIte, ← this, List.map_map]
    rfl
  | none =>
    have hua := find_node_none hx hu
    have hcn : (nodeIds' g).contains u = false := by simpa using hua
    have hnil : ((enabledMods g).filter fun m => m.ins.any fun w => w.node == u) = [] := by
      rw [List.filter_eq_nil_iff]
      intro m hm hany
      obtain ⟨w, hw, hwu⟩ := List.any_eq_true.mp hany
      exact hua ((by simpa using hwu : w.node = u) ▸ hM.ins m hm w hw)
    simp only [Option.none_or, hcn, Bool.false_eq_true, ↓reduceIte, hnil, List.map_nil, List.append_nil]
    have hf := ctrl_find hx u
    cases hc : net.ctrl.find? (·.id == u) with
    | none =>
      rw [hc] at hf
      cases hm : (enabledMods g).find? (·.ctrl.id == u) with
      | none => rfl
      | some m => rw [hm] at hf; simp at hf
    | some cn =>
      rw [hc] at hf
      cases hm : (enabledMods g).find? (·.ctrl.id == u) with
      | none => rw [hm] at hf; simp at hf
      | some m =>
        rw [hm] at hf
        simp only [Option.map_some, Option.some.injEq] at hf
        have houts : cn.outgoing.map (elink net) = modOuts m := by
          have := congrArg CView.outs hf
          simpa [cview, mview] using this
        have : cn.outgoing.map (fun l => idAt net l.dst) = (cn.outgoing.map (elink net)).map (·.dst) := by
          rw [List.map_map]; rfl
        simp only [this, houts, modOuts, List.map_map]
        rfl

theorem to_spec_mod {g : Genome W} {netId : Int} {net : Net W} (hok : Ok g) (hx : Expressed g netId net) (v : Int) :
    toIds net v = specTo g v := by
  have hM := modsOk_of_ok hok
  unfold toIds nodeWithID allMIMO specTo
  rw [List.find?_append, ctrl_feeding hx v]
  cases hu : net.nodes.find? (·.id == v) with
  | some nd =>
    obtain ⟨hMem, hI⟩ := find_node hu
    have hcn : (nodeIds' g).contains v = true := by
      rw [List.contains_iff_mem]; exact mem_ids_of_find hx hu
    have := (hx.links nd hMem).1
    rw [hI] at this
    simp only [Option.some_or, hcn, ↓reduceIte, ← this, List.map_map]
    rfl
  | none =>
    have hua := find_node_none hx hu
    have hcn : (nodeIds' g).contains v = false := by simpa using hua
    have hnil : ((enabledMods g).filter fun m => m.outs.any fun w => w.node == v) = [] := by
      rw [List.filter_eq_nil_iff]
      intro m hm hany
      obtain ⟨w, hw, hwu⟩ := List.any_eq_true.mp hany
      exact hua ((by simpa using hwu : w.node = v) ▸ hM.outs m hm w hw)
    simp only [Option.none_or, hcn, Bool.false_eq_true, ↓reduceIte, hnil, List.map_nil, List.append_nil]
    have hf := ctrl_find hx v
    cases hc : net.ctrl.find? (·.id == v) with
    | none =>
      rw [hc] at hf
      cases hm : (enabledMods g).find? (·.ctrl.id == v) with
      | none => rfl
      | some m => rw [hm] at hf; simp at hf
    | some cn =>
      rw [hc] at hf
      cases hm : (enabledMods g).find? (·.ctrl.id == v) with
      | none => rw [hm] at hf; simp at hf
      | some m =>
        rw [hm] at hf
        simp only [Option.map_some, Option.some.injEq] at hf
        have hins : cn.incoming.map (elink net) = modIns m := by
          have := congrArg CView.ins hf
          simpa [cview, mview] using this
        have : cn.incoming.map (fun l => idAt net l.src) = (cn.incoming.map (elink net)).map (·.src) := by
          rw [List.map_map]; rfl
        simp only [this, hins, modIns, List.map_map]
        rfl

end

end GoNeat.Genesis
