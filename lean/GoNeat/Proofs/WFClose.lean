/-
  C01 population-level closure, the algebra: `Fits reg P g` (the genome `g` is well-formed, satisfies the registry
  invariant and is of the node lineage of — and shares its first gene with — every member of the pool `P`) and
  `PoolOk reg P` (every member fits).  Every operator keeps both.
-/
import GoNeat.Proofs.WFStep
import GoNeat.Proofs.WFPop

namespace GoNeat.C01
open GoNeat Scalar
variable {W : Type} [Scalar W]

omit [Scalar W] in
theorem NodeLineage.symm' {a b : Genome W} (h : NodeLineage a b) : NodeLineage b a :=
  ⟨fun n hn m hm e => (h.1 m hm n hn e.symm).symm, h.2.1.symm, h.2.2.symm⟩

omit [Scalar W] in
theorem NodeLineage.refl' (g : Genome W) (hs : NodesSorted g.nodes) : NodeLineage g g :=
  ⟨fun n hn m hm e => by rw [node_unique g.nodes hs n m hn hm e], rfl, rfl⟩

omit [Scalar W] in
theorem SharedHead.symm' {a b : Genome W} (h : SharedHead a b) : SharedHead b a := Eq.symm h
omit [Scalar W] in
theorem SharedHead.trans' {a b c : Genome W} (h1 : SharedHead a b) (h2 : SharedHead b c) : SharedHead a c := Eq.trans h1 h2

structure Fits (reg : Reg W) (P : List (Genome W)) (g : Genome W) : Prop where
  wft : WFT g
  nomod : g.modules = []
  rinv : RegInv reg g
  hbr : HeadBelowRecords reg g
  nodes : ∀ b ∈ P, NodeLineage g b
  head : ∀ b ∈ P, SharedHead g b

instance (reg : Reg W) (P : List (Genome W)) (g : Genome W) : Decidable (Fits reg P g) :=
  if h : WFT g ∧ g.modules = [] ∧ RegInv reg g ∧ HeadBelowRecords reg g ∧ (∀ b ∈ P, NodeLineage g b) ∧ (∀ b ∈ P, SharedHead g b)
  then isTrue ⟨h.1, h.2.1, h.2.2.1, h.2.2.2.1, h.2.2.2.2.1, h.2.2.2.2.2⟩
  else isFalse (fun f => h ⟨f.wft, f.nomod, f.rinv, f.hbr, f.nodes, f.head⟩)

/-- every member of the pool fits into the pool -/
def PoolOk (reg : Reg W) (P : List (Genome W)) : Prop := ∀ g ∈ P, Fits reg P g
instance (reg : Reg W) (P : List (Genome W)) : Decidable (PoolOk reg P) := by unfold PoolOk; infer_instance

omit [Scalar W] in
theorem PoolOk.add {reg : Reg W} {P : List (Genome W)} {c : Genome W} (hP : PoolOk reg P) (hc : Fits reg P c) :
    PoolOk reg (P ++ [c]) := by
  intro g hg
  rcases List.mem_append.mp hg with hg' | hg'
  · have f := hP g hg'
    refine ⟨f.wft, f.nomod, f.rinv, f.hbr, ?_, ?_⟩
    · intro b hb
      rcases List.mem_append.mp hb with hb' | hb'
      · exact f.nodes b hb'
      · simp only [List.mem_singleton] at hb'; subst hb'; exact (hc.nodes g hg').symm'
    · intro b hb
      rcases List.mem_append.mp hb with hb' | hb'
      · exact f.head b hb'
      · simp only [List.mem_singleton] at hb'; subst hb'; exact (hc.head g hg').symm'
  · simp only [List.mem_singleton] at hg'
    subst hg'
    refine ⟨hc.wft, hc.nomod, hc.rinv, hc.hbr, ?_, ?_⟩
    · intro b hb
      rcases List.mem_append.mp hb with hb' | hb'
      · exact hc.nodes b hb'
      · simp only [List.mem_singleton] at hb'; subst hb'; exact NodeLineage.refl' _ hc.wft.wf.nodesSorted
    · intro b hb
      rcases List.mem_append.mp hb with hb' | hb'
      · exact hc.head b hb'
      · simp only [List.mem_singleton] at hb'; subst hb'; rfl

omit [Scalar W] in
theorem Fits.ext {reg reg' : Reg W} {P : List (Genome W)} {g : Genome W} (h : Fits reg P g) (he : RegExt reg reg')
    (hok : RegOk reg') : Fits reg' P g :=
  ⟨h.wft, h.nomod, h.rinv.ext he hok, h.hbr.ext h.rinv.above he, h.nodes, h.head⟩

omit [Scalar W] in
theorem PoolOk.ext {reg reg' : Reg W} {P : List (Genome W)} (h : PoolOk reg P) (he : RegExt reg reg') (hok : RegOk reg') :
    PoolOk reg' P := fun g hg => (h g hg).ext he hok

omit [Scalar W] in
theorem ioIds_of_shape (g g' : Genome W) (h : g'.nodes.map Node.shape = g.nodes.map Node.shape) : ioIds g' = ioIds g := by
  have key : ∀ l : List Node, (l.filter (fun n => n.kind != Kind.hidden)).map (·.id) =
      ((l.map Node.shape).filter (fun p => p.2 != Kind.hidden)).map (·.1) := by
    intro l
    induction l with
    | nil => rfl
    | cons a t ih =>
      simp only [List.filter_cons, List.map_cons, Node.shape]
      split <;> simp_all [Node.shape]
  unfold ioIds
  rw [key, key, h]

omit [Scalar W] in
/-- a skeleton-preserving step keeps the genome fitting -/
theorem Fits.skel {reg : Reg W} {P : List (Genome W)} {g g' : Genome W} (h : Fits reg P g) (hs : SameSkel g g')
    (hr : TraitRefsOwned g') : Fits reg P g' := by
  have hm : g'.modules = [] := by rw [hs.mods]; exact h.nomod
  have hinn : g'.genes.map (·.inn) = g.genes.map (·.inn) := hs.inns
  have hhead : g'.genes.head?.map (·.inn) = g.genes.head?.map (·.inn) := by
    have := congrArg List.head? hinn
    simpa [List.head?_map] using this
  refine ⟨hs.wft hr h.wft, hm, hs.regInv reg h.rinv, ?_, ?_, ?_⟩
  · intro h0 hh i hi
    have : (g'.genes.take 1).map (·.inn) = (g.genes.take 1).map (·.inn) := by
      rw [List.map_take, List.map_take, hinn]
    have hm' : h0.inn ∈ (g.genes.take 1).map (·.inn) := by rw [← this]; exact List.mem_map_of_mem hh
    obtain ⟨h1, hh1, e⟩ := List.mem_map.mp hm'
    rw [← e]; exact h.hbr h1 hh1 i hi
  · intro b hb
    have hl := h.nodes b hb
    refine ⟨?_, by rw [hs.tids]; exact hl.2.1, by rw [ioIds_of_shape g g' hs.nodes]; exact hl.2.2⟩
    intro m hm' k hk e
    obtain ⟨n, hn, en⟩ := exists_of_map_eq Node.shape hs.nodes hm'
    unfold Node.shape at en
    simp only [Prod.mk.injEq] at en
    rw [← en.2]; exact hl.1 n hn k hk (by rw [en.1, e])
  · intro b hb
    have := h.head b hb
    unfold SharedHead at this ⊢
    rw [hhead]; exact this

omit [Scalar W] in
/-- a structural step keeps the mutated genome fitting and the pool intact under the grown registry -/
theorem struct_closed {reg reg' : Reg W} {P : List (Genome W)} {g g' : Genome W} (hP : PoolOk reg P) (hf : Fits reg P g)
    (hs : StepRel reg g reg' g') (hw' : WFT g') (hi' : RegInv reg' g') : Fits reg' P g' ∧ PoolOk reg' P := by
  obtain ⟨f1, f2, f3⟩ := hs.fits hw' hf.wft hf.rinv hf.hbr
  refine ⟨⟨hw', by rw [hs.mods]; exact hf.nomod, hi', f1, ?_, ?_⟩, hP.ext hs.ext hi'.ok⟩
  · intro b hb; exact f2 b (hP b hb).rinv (hf.nodes b hb)
  · intro b hb; exact f3 b (hf.head b hb)

/-- the child of two fitting parents fits -/
theorem child_closed {reg : Reg W} {P : List (Genome W)} {g og c : Genome W} {id : Int} {nh : Bool}
    (h1 : Fits reg P g) (h2 : Fits reg P og) (hl : NodeLineage g og) (hh : SharedHead g og) (ho : MateOut g og id c nh) :
    Fits reg P c := by
  obtain ⟨w, _, _, m, s1, _, nl, ri⟩ := mateOut_closed g og id c nh h1.wft h2.wft hl hh ho
  refine ⟨w, m, ri reg h1.rinv h2.rinv, ?_, fun b hb => nl b (h1.nodes b hb) (h2.nodes b hb),
          fun b hb => SharedHead.trans' s1 (h1.head b hb)⟩
  -- the child's first gene carries the number of its parent's first gene
  intro h0 hh0 i hi
  unfold SharedHead at s1
  cases hc : c.genes with
  | nil => rw [hc] at hh0; simp at hh0
  | cons f t =>
    rw [hc] at hh0 s1
    simp only [List.take_succ_cons, List.take_zero, List.mem_singleton] at hh0
    subst hh0
    cases hg : g.genes with
    | nil => rw [hg] at s1; simp at s1
    | cons f' t' =>
      rw [hg] at s1
      simp only [List.head?_cons, Option.map_some, Option.some.injEq] at s1
      rw [s1]; exact h1.hbr f' (by rw [hg]; simp) i hi

end GoNeat.C01
