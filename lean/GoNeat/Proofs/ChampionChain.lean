/-
  Helper lemmas for Props/C10Epoch.lean (property C10 end to end).  Kind A throughout.

  1. a preservation chain through `prepareForReproduction` for an ARBITRARY organism key `k` that is invariant under the
     three field updates the phase performs after the fitness adjustment (expected offspring, population-champion flag,
     super-champion reservation) — the `xkey` chain of Proofs/ExpectedChain.lean with the key as a parameter;
  2. `prepare_decomp`: the stages of `prepareForReproduction` exposed as equations;
  3. the super-champion reservation of every organism left after the phase is at most the quota of its species
     (`prepare_sc_le`), derived from the phase itself: zero-quota species are purged, stolen babies and delta coding add
     the same amount to the reservation of the top organism and to the quota;
  4. babies are whole organisms that speciation only moves and the final purge only renumbers (`reproduce_finalize_has_copy`).
-/
import GoNeat.Proofs.ExpectedChain
import GoNeat.Props.C09Prepare
import GoNeat.Props.C10
import GoNeat.Proofs.WFPrepare

namespace GoNeat.C10
open GoNeat Scalar
variable {W : Type} [Scalar W] {κ : Type}

/-! ### 1. the key chain -/

/-- species id and the keys of the members, in order -/
def gkey (k : Org W → κ) (s : Species W) : Int × List κ := (s.id, s.orgs.map k)

def InvEO (k : Org W → κ) : Prop := ∀ (t : Org W) (v : W), k { t with expectedOffspring := v } = k t
def InvPC (k : Org W → κ) : Prop := ∀ t : Org W, k { t with isPopChampion := true } = k t
def InvSC (k : Org W → κ) : Prop := ∀ (t : Org W) (v : Int), k { t with superChampOffspring := v } = k t

theorem assignQuotas_gkeys (k : Org W → κ) (ss : List (Species W)) (skim : W) (tot : Int) :
    (assignQuotas ss skim tot).1.map (gkey k) = ss.map (gkey k) := by
  induction ss generalizing skim tot with
  | nil => rfl
  | cons s ss ih =>
    simp only [assignQuotas, List.map_cons]
    rw [ih]; rfl

omit [Scalar W] in
theorem map_gkeys_of_pres (k : Org W → κ) (ss : List (Species W)) (f : Species W → Species W)
    (hf : ∀ s, gkey k (f s) = gkey k s) : (ss.map f).map (gkey k) = ss.map (gkey k) := by
  simp [List.map_map, Function.comp_def, hf]

omit [Scalar W] in
theorem modify_gkeys_of_pres (k : Org W → κ) (ss : List (Species W)) (i : Nat) (f : Species W → Species W)
    (hf : ∀ s, gkey k (f s) = gkey k s) : (ss.modify i f).map (gkey k) = ss.map (gkey k) := by
  induction ss generalizing i with
  | nil => simp
  | cons s ss ih =>
    cases i with
    | zero => simp [List.modify, hf]
    | succ i => simp [List.modify_succ_cons, ih]

omit [Scalar W] in
theorem fixupQuotas_gkeys (k : Org W → κ) (ss : List (Species W)) (a b : Int) :
    (fixupQuotas ss a b).map (gkey k) = ss.map (gkey k) := by
  unfold fixupQuotas
  split
  · split
    · rfl
    · split
      · exact (modify_gkeys_of_pres k _ _ _ (by intro s; rfl)).trans (map_gkeys_of_pres k _ _ (by intro s; rfl))
      · exact modify_gkeys_of_pres k _ _ _ (by intro s; rfl)
  · rfl

omit [Scalar W] in
theorem setTopOrg_gkey (k : Org W → κ) (s : Species W) (f : Org W → Org W) (hf : ∀ t, k (f t) = k t) :
    gkey k (setTopOrg s f) = gkey k s := by
  unfold setTopOrg; split
  · rfl
  · rename_i o os h; simp [gkey, h, hf o]

omit [Scalar W] in
theorem deltaCoding_gkeys (k : Org W → κ) (hk : InvSC k) (sorted l : List (Species W)) (o : EpochOpts W)
    (h : deltaCoding sorted o = .ok l) : l.map (gkey k) = sorted.map (gkey k) := by
  unfold deltaCoding at h
  simp only at h
  split at h
  · cases h
  · split at h
    · cases h
    · cases h
      simp only [List.map_cons, List.map_nil, List.cons.injEq, and_true]
      exact setTopOrg_gkey k _ _ (by intro t; exact hk t _)
  · split at h
    · cases h
    · cases h
      simp only [List.map_cons, List.map_map]
      congr 1
      · exact setTopOrg_gkey k _ _ (by intro t; exact hk t _)
      · congr 1
        · exact setTopOrg_gkey k _ _ (by intro t; exact hk t _)

omit [Scalar W] in
theorem stealLoop_gkeys (k : Org W → κ) (bs : Int) (l : List (Species W)) (stolen : Int) :
    (stealLoop bs l stolen).1.map (gkey k) = l.map (gkey k) := by
  induction l generalizing stolen with
  | nil => rfl
  | cons s ss ih =>
    unfold stealLoop
    split
    · split
      · split
        · simp only [List.map_cons, ih]; rfl
        · simp only [List.map_cons, ih]; rfl
      · simp only [List.map_cons, ih]
    · rfl

theorem giveLoop_gkeys (k : Org W → κ) (hk : InvSC k) (o : EpochOpts W) (blocks : List Int) (l l' : List (Species W)) (bi : Nat)
    (stolen left : Int) (rs rs' : List Nat) (h : giveLoop o blocks l bi stolen rs = .ok ((l', left), rs')) :
    l'.map (gkey k) = l.map (gkey k) := by
  induction l generalizing l' bi stolen left rs rs' with
  | nil => simp only [giveLoop, Except.ok.injEq, Prod.mk.injEq] at h; obtain ⟨⟨rfl, _⟩, _⟩ := h; rfl
  | cons s ss ih =>
    unfold giveLoop at h
    split at h
    · split at h
      · cases h
      · rename_i rest st rs1 hrec
        simp only [Except.ok.injEq, Prod.mk.injEq] at h
        obtain ⟨⟨rfl, _⟩, _⟩ := h
        simp [ih _ _ _ _ _ _ hrec]
    · simp only at h
      split at h
      · cases h
      · rename_i s' st rs1 hstep
        have hk' : gkey k s' = gkey k s := by
          split at hstep
          · simp only [Except.ok.injEq, Prod.mk.injEq] at hstep
            obtain ⟨⟨rfl, _⟩, _⟩ := hstep
            exact setTopOrg_gkey k _ _ (by intro t; exact hk t _)
          · split at hstep
            · split at hstep
              · cases hstep
              · split at hstep
                · split at hstep
                  · simp only [Except.ok.injEq, Prod.mk.injEq] at hstep
                    obtain ⟨⟨rfl, _⟩, _⟩ := hstep
                    exact setTopOrg_gkey k _ _ (by intro t; exact hk t _)
                  · simp only [Except.ok.injEq, Prod.mk.injEq] at hstep
                    obtain ⟨⟨rfl, _⟩, _⟩ := hstep
                    exact setTopOrg_gkey k _ _ (by intro t; exact hk t _)
                · simp only [Except.ok.injEq, Prod.mk.injEq] at hstep
                  obtain ⟨⟨rfl, _⟩, _⟩ := hstep
                  rfl
            · simp only [Except.ok.injEq, Prod.mk.injEq] at hstep
              obtain ⟨⟨rfl, _⟩, _⟩ := hstep
              rfl
        split at h
        · simp only [Except.ok.injEq, Prod.mk.injEq] at h
          obtain ⟨⟨rfl, _⟩, _⟩ := h
          simp [hk']
        · split at h
          · cases h
          · rename_i rest st' rs2 hrec
            simp only [Except.ok.injEq, Prod.mk.injEq] at h
            obtain ⟨⟨rfl, _⟩, _⟩ := h
            simp [hk', ih _ _ _ _ _ _ hrec]

theorem giveBabies_gkeys (k : Org W → κ) (hk : InvSC k) (sorted l : List (Species W)) (o : EpochOpts W) (rs rs' : List Nat)
    (h : giveBabiesToTheBest sorted o rs = .ok (l, rs')) : l.map (gkey k) = sorted.map (gkey k) := by
  unfold giveBabiesToTheBest at h
  simp only at h
  split at h
  · cases h
  · rename_i l1 left rs1 hgive
    have h1 := giveLoop_gkeys k hk _ _ _ _ _ _ _ _ _ hgive
    have h2 : ((stealLoop o.babiesStolen sorted.reverse 0).1.reverse).map (gkey k) = sorted.map (gkey k) := by
      rw [List.map_reverse, stealLoop_gkeys, List.map_reverse, List.reverse_reverse]
    split at h
    · split at h
      · cases h
      · split at h
        · cases h
        · simp only [Except.ok.injEq, Prod.mk.injEq] at h
          obtain ⟨rfl, _⟩ := h
          rw [← h2, ← h1]
          simp only [List.map_cons, List.cons.injEq, and_true]
          exact setTopOrg_gkey k _ _ (by intro t; exact hk t _)
    · simp only [Except.ok.injEq, Prod.mk.injEq] at h
      obtain ⟨rfl, _⟩ := h
      rw [h1, h2]

/-- the redistribution step of `prepareForReproduction` (delta coding, stolen babies, or nothing) as a relation -/
def Redistributed (o : EpochOpts W) (sorted1 : List (Species W)) (e : Int) (rs : List Nat) (sorted2 : List (Species W))
    (ehlc : Int) (rs1 : List Nat) : Prop :=
  (if e ≥ o.dropOffAge + 5 then
      match deltaCoding sorted1 o with
      | .error er => .error er
      | .ok l => .ok ((l, 0), rs)
    else if o.babiesStolen > 0 then
      match giveBabiesToTheBest sorted1 o rs with
      | .error er => .error er
      | .ok (l, rs') => .ok ((l, e), rs')
    else .ok ((sorted1, e), rs) : R (List (Species W) × Int)) = .ok ((sorted2, ehlc), rs1)

theorem redistribute_gkeys (k : Org W → κ) (hk : InvSC k) (sorted1 : List (Species W)) (o : EpochOpts W) (e : Int) (rs : List Nat)
    (sorted2 : List (Species W)) (ehlc : Int) (rs1 : List Nat) (h : Redistributed o sorted1 e rs sorted2 ehlc rs1) :
    sorted2.map (gkey k) = sorted1.map (gkey k) := by
  unfold Redistributed at h
  split at h
  · split at h
    · cases h
    · rename_i l hd
      simp only [Except.ok.injEq, Prod.mk.injEq] at h
      obtain ⟨⟨rfl, _⟩, _⟩ := h
      exact deltaCoding_gkeys k hk _ _ _ hd
  · split at h
    · split at h
      · cases h
      · rename_i l rs2 hg
        simp only [Except.ok.injEq, Prod.mk.injEq] at h
        obtain ⟨⟨rfl, _⟩, _⟩ := h
        exact giveBabies_gkeys k hk _ _ _ _ _ hg
    · simp only [Except.ok.injEq, Prod.mk.injEq] at h
      obtain ⟨⟨rfl, _⟩, _⟩ := h
      rfl

omit [Scalar W] in
theorem ids_of_gkeys (k : Org W → κ) (a : List (Species W)) : a.map (·.id) = (a.map (gkey k)).map (·.1) := by
  simp [gkey, Function.comp_def]

omit [Scalar W] in
theorem writeBack_gkeys (k : Org W → κ) (species updated : List (Species W)) (hnd : (species.map (·.id)).Nodup)
    (hperm : (updated.map (gkey k)).Perm (species.map (gkey k))) :
    (writeBack species updated).map (gkey k) = species.map (gkey k) := by
  unfold writeBack
  rw [List.map_map]
  apply List.map_congr_left
  intro s hs
  simp only [Function.comp]
  cases hf : updated.find? (fun x => x.id == s.id) with
  | none => rfl
  | some x =>
    simp only [Option.getD_some]
    have hx : x ∈ updated := List.mem_of_find?_eq_some hf
    have hid : x.id = s.id := by
      have := List.find?_some hf
      simpa using this
    have : gkey k x ∈ species.map (gkey k) := hperm.mem_iff.mp (List.mem_map_of_mem hx)
    obtain ⟨s', hs', e⟩ := List.mem_map.mp this
    have hid' : s'.id = s.id := by
      have := congrArg (fun k => k.1) e
      simp only [gkey] at this
      rw [this, hid]
    have : s' = s := C02.nodup_map_inj (·.id) hnd hs' hs hid'
    rw [← e, this]

theorem purgeZero_gkeys (k : Org W → κ) (hk : InvEO k) (q : Pop W) :
    ((purgeZeroOffspringSpecies q).species.map (gkey k)).Sublist (q.species.map (gkey k)) := by
  unfold purgeZeroOffspringSpecies
  simp only
  refine (List.Sublist.map _ List.filter_sublist).trans ?_
  rw [fixupQuotas_gkeys, assignQuotas_gkeys]
  rw [map_gkeys_of_pres k _ _ (by
    intro s
    simp only [gkey, List.map_map, Prod.mk.injEq, true_and]
    apply List.map_congr_left
    intro x _
    simp only [Function.comp]
    split
    · rfl
    · exact hk x _)]
  exact List.Sublist.refl _

/-! ### 2. the stages of `prepareForReproduction` -/

/-- **the preparation phase, stage by stage**: fitness adjustment (`species1`), quota assignment and zero-quota purge
    (`pz`), species sort (`best :: tail`) with the population-champion flag, redistribution (`sorted2`), write-back by id
    (`pre.species`), removal of the organisms marked for elimination (`doomed`). -/
theorem prepare_decomp (o : EpochOpts W) (p p1 : Pop W) (ex : ExecState) (rs rs' : List Nat)
    (h : prepareForReproduction o p rs = .ok ((p1, ex), rs')) :
    ∃ (species1 : List (Species W)) (best : Species W) (tail : List (Species W)) (e : Int) (sorted2 : List (Species W))
      (ehlc : Int) (doomed : List Nat) (pre : Pop W),
      adjustAll o p.species = .ok species1 ∧
      sortSpeciesDesc (purgeZeroOffspringSpecies ({ p with species := species1 } : Pop W)).species = best :: tail ∧
      Redistributed o (setTopOrg best (fun t => { t with isPopChampion := true }) :: tail) e rs sorted2 ehlc rs' ∧
      pre.species = writeBack (purgeZeroOffspringSpecies ({ p with species := species1 } : Pop W)).species sorted2 ∧
      pre.organisms = p.organisms ∧
      doomed = (pre.orgList.filter (·.toEliminate)).map (·.uid) ∧
      p1.species = pre.species.map (fun s => { s with orgs := s.orgs.filter (fun x => !doomed.contains x.uid) }) ∧
      p1.organisms = p.organisms.filter (fun u => !doomed.contains u) ∧ p1.nextUid = p.nextUid := by
  unfold prepareForReproduction at h
  split at h
  · cases h
  · rename_i species1 hadj
    simp only at h
    have hz3 : (purgeZeroOffspringSpecies ({ p with species := species1 } : Pop W)).organisms = p.organisms := rfl
    have hz4 : (purgeZeroOffspringSpecies ({ p with species := species1 } : Pop W)).nextUid = p.nextUid := rfl
    generalize hpz : purgeZeroOffspringSpecies ({ p with species := species1 } : Pop W) = pz at h hz3 hz4
    split at h
    · cases h
    · rename_i best tail hsorted
      split at h
      · cases h
      · rename_i top htop
        split at h
        · cases h
        · rename_i sorted2 ehlc rs1 hred
          simp only [Except.ok.injEq, Prod.mk.injEq] at h
          obtain ⟨⟨rfl, _⟩, rfl⟩ := h
          rw [hsorted, List.tail_cons] at hred
          subst hpz
          exact ⟨species1, best, tail, _, sorted2, ehlc, _,
            { purgeZeroOffspringSpecies ({ p with species := species1 } : Pop W) with
              species := writeBack (purgeZeroOffspringSpecies ({ p with species := species1 } : Pop W)).species sorted2 },
            hadj, hsorted, hred, rfl, rfl, rfl, rfl, rfl, rfl⟩

/-- what the chain gives for the stages of `prepare_decomp`: the redistributed list is a rearrangement of the purged
    species, which are (in order) some of the adjusted species; the write-back by id restores the order -/
theorem chain_gkeys (k : Org W → κ) (hEO : InvEO k) (hPC : InvPC k) (hSC : InvSC k) (o : EpochOpts W) (p : Pop W)
    (species1 : List (Species W)) (best : Species W) (tail : List (Species W)) (e : Int) (rs : List Nat)
    (sorted2 : List (Species W)) (ehlc : Int) (rs' : List Nat)
    (hnd : (p.species.map (·.id)).Nodup) (hadj : adjustAll o p.species = .ok species1)
    (hsorted : sortSpeciesDesc (purgeZeroOffspringSpecies ({ p with species := species1 } : Pop W)).species = best :: tail)
    (hred : Redistributed o (setTopOrg best (fun t => { t with isPopChampion := true }) :: tail) e rs sorted2 ehlc rs') :
    (sorted2.map (gkey k)).Perm ((purgeZeroOffspringSpecies ({ p with species := species1 } : Pop W)).species.map (gkey k)) ∧
    ((purgeZeroOffspringSpecies ({ p with species := species1 } : Pop W)).species.map (·.id)).Nodup ∧
    ((purgeZeroOffspringSpecies ({ p with species := species1 } : Pop W)).species.map (gkey k)).Sublist (species1.map (gkey k)) ∧
    (writeBack (purgeZeroOffspringSpecies ({ p with species := species1 } : Pop W)).species sorted2).map (gkey k) =
      (purgeZeroOffspringSpecies ({ p with species := species1 } : Pop W)).species.map (gkey k) := by
  have hz1 := purgeZero_gkeys k hEO ({ p with species := species1 } : Pop W)
  simp only at hz1
  generalize purgeZeroOffspringSpecies ({ p with species := species1 } : Pop W) = pz at hsorted hz1 ⊢
  have hk2 := redistribute_gkeys k hSC _ _ _ _ _ _ _ hred
  have hperm : (sorted2.map (gkey k)).Perm (pz.species.map (gkey k)) := by
    rw [hk2]
    simp only [List.map_cons]
    rw [setTopOrg_gkey k _ _ (by intro t; exact hPC t)]
    have := (goSort_perm (fun a b => speciesLess b a) pz.species).map (gkey k)
    unfold sortSpeciesDesc at hsorted
    rw [hsorted] at this
    simpa using this
  have hids1 : species1.map (·.id) = p.species.map (·.id) := by
    rw [C02.ids_of_keys, C02.adjustAll_keys o _ _ hadj, ← C02.ids_of_keys]
  have hndz : (pz.species.map (·.id)).Nodup := by
    have hsub : (pz.species.map (·.id)).Sublist (species1.map (·.id)) := by
      rw [ids_of_gkeys k pz.species, ids_of_gkeys k species1]
      exact hz1.map _
    rw [hids1] at hsub
    exact hsub.nodup hnd
  exact ⟨hperm, hndz, hz1, writeBack_gkeys k pz.species sorted2 hndz hperm⟩

/-! ### 3. the super-champion reservation never exceeds the quota -/

/-- no member of the species has clones reserved (true of every organism entering an epoch: babies are created with a
    zero reservation) -/
def AllZ (s : Species W) : Prop := ∀ x ∈ s.orgs, x.superChampOffspring = 0
/-- the reservation of every member is non-negative and at most the species' quota -/
def ScLe (s : Species W) : Prop := ∀ x ∈ s.orgs, 0 ≤ x.superChampOffspring ∧ x.superChampOffspring ≤ s.expectedOffspring

omit [Scalar W] in
theorem allZ_of_gkey {s s' : Species W}
    (h : gkey (fun x : Org W => x.superChampOffspring) s = gkey (fun x : Org W => x.superChampOffspring) s') (hz : AllZ s') :
    AllZ s := by
  intro x hx
  have hm : x.superChampOffspring ∈ s.orgs.map (fun x : Org W => x.superChampOffspring) := List.mem_map_of_mem hx
  have e := congrArg Prod.snd h
  simp only [gkey] at e
  rw [e] at hm
  obtain ⟨y, hy, hxy⟩ := List.mem_map.mp hm
  rw [← hxy]; exact hz y hy

omit [Scalar W] in
theorem markOrgs_sc (n : Int) (l : List (Org W)) (i : Nat) :
    (markOrgs n l i).map (fun x => x.superChampOffspring) = l.map (fun x => x.superChampOffspring) := by
  induction l generalizing i with
  | nil => rfl
  | cons x xs ih => simp [markOrgs, ih]

theorem adjustFitness_allZ (o : EpochOpts W) (s s' : Species W) (h : adjustFitness o s = .ok s') (hz : AllZ s) : AllZ s' := by
  unfold adjustFitness at h
  simp only at h
  split at h
  · cases h
  · rename_i top rest hsort
    cases h
    intro x hx
    have h1 := List.mem_map_of_mem (f := fun x : Org W => x.superChampOffspring) hx
    simp only [markOrgs_sc] at h1
    obtain ⟨y, hy, hyx⟩ := List.mem_map.mp h1
    have hy' := (goSort_perm _ _).mem_iff.mp hy
    obtain ⟨x0, hx0, rfl⟩ := List.mem_map.mp hy'
    rw [← hyx]; exact hz x0 hx0

omit [Scalar W] in
theorem setTopOrg_mem (s : Species W) (f : Org W → Org W) (x : Org W) (hx : x ∈ (setTopOrg s f).orgs) :
    x ∈ s.orgs ∨ ∃ t ∈ s.orgs, x = f t := by
  unfold setTopOrg at hx
  split at hx
  · left; exact hx
  · rename_i o os h
    simp only [List.mem_cons] at hx
    rcases hx with rfl | hx
    · right; exact ⟨o, by rw [h]; simp, rfl⟩
    · left; rw [h]; simp [hx]

omit [Scalar W] in
theorem scLe_setTop (s s' : Species W) (f : Org W → Org W) (ho : s'.orgs = (setTopOrg s f).orgs)
    (hrest : ∀ x ∈ s.orgs, 0 ≤ x.superChampOffspring ∧ x.superChampOffspring ≤ s'.expectedOffspring)
    (hf : ∀ t ∈ s.orgs, 0 ≤ (f t).superChampOffspring ∧ (f t).superChampOffspring ≤ s'.expectedOffspring) : ScLe s' := by
  intro x hx
  rw [ho] at hx
  rcases setTopOrg_mem s f x hx with h1 | ⟨t, ht, rfl⟩
  · exact hrest x h1
  · exact hf t ht

/-- the species handed to the redistribution step have positive quotas (zero-quota species have just been purged) and
    no reservation yet -/
theorem sorted1_P0 (o : EpochOpts W) (p : Pop W) (species1 : List (Species W)) (best : Species W) (tail : List (Species W))
    (hz : ∀ s ∈ p.species, AllZ s) (hadj : adjustAll o p.species = .ok species1)
    (hsorted : sortSpeciesDesc (purgeZeroOffspringSpecies ({ p with species := species1 } : Pop W)).species = best :: tail) :
    ∀ s ∈ setTopOrg best (fun t => { t with isPopChampion := true }) :: tail, 0 < s.expectedOffspring ∧ AllZ s := by
  have hz1 : ∀ s ∈ species1, AllZ s := by
    intro s' hs'
    obtain ⟨s, hs, ha⟩ := C09.adjustAll_mem o _ _ hadj s' hs'
    exact adjustFitness_allZ o s s' ha (hz s hs)
  have hpz : ∀ s ∈ (purgeZeroOffspringSpecies ({ p with species := species1 } : Pop W)).species, 0 < s.expectedOffspring ∧ AllZ s := by
    intro s hs
    constructor
    · rw [C09.purgeZero_eq] at hs
      have := (List.mem_filter.mp hs).2
      simpa using this
    · have hsub := purgeZero_gkeys (fun x : Org W => x.superChampOffspring) (by intro t v; rfl) ({ p with species := species1 } : Pop W)
      have := hsub.subset (List.mem_map_of_mem hs)
      obtain ⟨sa, hsa, e⟩ := List.mem_map.mp this
      exact allZ_of_gkey e.symm (hz1 sa hsa)
  have hmem : ∀ s ∈ best :: tail, s ∈ (purgeZeroOffspringSpecies ({ p with species := species1 } : Pop W)).species := by
    intro s hs
    rw [← hsorted] at hs
    exact (goSort_perm _ _).mem_iff.mp hs
  intro s hs
  rcases List.mem_cons.mp hs with rfl | h'
  · obtain ⟨q, z⟩ := hpz best (hmem best (by simp))
    refine ⟨by rw [C09.quota_setTopOrg]; exact q, ?_⟩
    exact allZ_of_gkey (setTopOrg_gkey _ _ _ (by intro t; rfl)) z
  · exact hpz s (hmem s (by simp [h']))

theorem deltaCoding_scLe (sorted l : List (Species W)) (o : EpochOpts W) (h : deltaCoding sorted o = .ok l)
    (hz : ∀ s ∈ sorted, AllZ s) : ∀ s ∈ l, ScLe s := by
  unfold deltaCoding at h
  simp only at h
  split at h
  · cases h
  · rename_i s0
    split at h
    · cases h
    · cases h
      intro s hs
      simp only [List.mem_singleton] at hs
      subst hs
      have z := hz s0 (by simp)
      refine scLe_setTop s0 _ _ rfl ?_ ?_
      · intro x hx; rw [z x hx]; exact ⟨Int.le_refl 0, by simp only; omega⟩
      · intro t _; exact ⟨by simp only; omega, by simp only; omega⟩
  · rename_i s1 s2 rest
    split at h
    · cases h
    · cases h
      intro s hs
      simp only [List.mem_cons, List.mem_map] at hs
      rcases hs with rfl | rfl | ⟨s0, hs0, rfl⟩
      · have z := hz s1 (by simp)
        refine scLe_setTop s1 _ _ rfl ?_ ?_
        · intro x hx; rw [z x hx]; exact ⟨Int.le_refl 0, by simp only; omega⟩
        · intro t _; exact ⟨by simp only; omega, by simp only; omega⟩
      · have z := hz s2 (by simp)
        refine scLe_setTop s2 _ _ rfl ?_ ?_
        · intro x hx; rw [z x hx]; exact ⟨Int.le_refl 0, by simp only; omega⟩
        · intro t _; exact ⟨by simp only; omega, by simp only; omega⟩
      · have z := hz s0 (by simp [hs0])
        intro x hx
        rw [z x hx]; exact ⟨Int.le_refl 0, Int.le_refl 0⟩

theorem stealLoop_P0 (bs : Int) (l : List (Species W)) (stolen : Int)
    (h : ∀ s ∈ l, 0 < s.expectedOffspring ∧ AllZ s) : ∀ s ∈ (stealLoop bs l stolen).1, 0 < s.expectedOffspring ∧ AllZ s := by
  induction l generalizing stolen with
  | nil => intro s hs; simp [stealLoop] at hs
  | cons x xs ih =>
    have hx := h x (by simp)
    have ihx := fun st => ih st (fun s hs => h s (by simp [hs]))
    unfold stealLoop
    split
    · split
      · rename_i hc
        simp only [Bool.and_eq_true, decide_eq_true_eq] at hc
        split
        · intro s hs
          rcases List.mem_cons.mp hs with rfl | h'
          · exact ⟨by simp only; omega, hx.2⟩
          · exact ihx _ s h'
        · intro s hs
          rcases List.mem_cons.mp hs with rfl | h'
          · exact ⟨by simp, hx.2⟩
          · exact ihx _ s h'
      · intro s hs
        rcases List.mem_cons.mp hs with rfl | h'
        · exact hx
        · exact ihx _ s h'
    · exact h

theorem giveLoop_scLe (o : EpochOpts W) (blocks : List Int) (hb : ∀ b ∈ blocks, 0 ≤ b) (l l' : List (Species W)) (bi : Nat)
    (stolen left : Int) (rs rs' : List Nat) (h0 : 0 ≤ stolen) (hP : ∀ s ∈ l, 0 ≤ s.expectedOffspring ∧ ScLe s)
    (h : giveLoop o blocks l bi stolen rs = .ok ((l', left), rs')) : ∀ s ∈ l', 0 ≤ s.expectedOffspring ∧ ScLe s := by
  induction l generalizing l' bi stolen left rs rs' with
  | nil => simp only [giveLoop, Except.ok.injEq, Prod.mk.injEq] at h; obtain ⟨⟨rfl, _⟩, _⟩ := h; intro s hs; cases hs
  | cons x xs ih =>
    have hx := hP x (by simp)
    have hxs : ∀ s ∈ xs, 0 ≤ s.expectedOffspring ∧ ScLe s := fun s hs => hP s (by simp [hs])
    -- adding `b ≥ 0` to the top organism's reservation and to the quota
    have hadd : ∀ b : Int, 0 ≤ b →
        (0 ≤ ({ setTopOrg x (fun t => { t with superChampOffspring := b }) with expectedOffspring := x.expectedOffspring + b } : Species W).expectedOffspring ∧
         ScLe ({ setTopOrg x (fun t => { t with superChampOffspring := b }) with expectedOffspring := x.expectedOffspring + b } : Species W)) := by
      intro b hb0
      refine ⟨by simp only; omega, scLe_setTop x _ _ rfl ?_ ?_⟩
      · intro y hy; have := hx.2 y hy; exact ⟨this.1, by simp only; omega⟩
      · intro t _; exact ⟨by simp only; omega, by simp only; omega⟩
    unfold giveLoop at h
    split at h
    · split at h
      · cases h
      · rename_i rest st rs1 hrec
        simp only [Except.ok.injEq, Prod.mk.injEq] at h
        obtain ⟨⟨rfl, _⟩, _⟩ := h
        intro s hs
        rcases List.mem_cons.mp hs with rfl | h'
        · exact hx
        · exact ih _ _ _ _ _ _ h0 hxs hrec s h'
    · simp only at h
      split at h
      · cases h
      · rename_i s' st rs1 hstep
        have hk : (0 ≤ s'.expectedOffspring ∧ ScLe s') ∧ (st ≤ 0 ∨ 0 ≤ st) := by
          split at hstep
          · rename_i hc
            simp only [Except.ok.injEq, Prod.mk.injEq] at hstep
            obtain ⟨⟨rfl, rfl⟩, _⟩ := hstep
            have hbk : 0 ≤ (blocks[bi]?).getD 0 := by
              cases hq : blocks[bi]? with
              | none => simp
              | some b => simp; exact hb b (List.mem_of_getElem? hq)
            exact ⟨hadd _ hbk, by omega⟩
          · split at hstep
            · split at hstep
              · cases hstep
              · split at hstep
                · split at hstep
                  · simp only [Except.ok.injEq, Prod.mk.injEq] at hstep
                    obtain ⟨⟨rfl, rfl⟩, _⟩ := hstep
                    exact ⟨hadd 3 (by omega), by omega⟩
                  · simp only [Except.ok.injEq, Prod.mk.injEq] at hstep
                    obtain ⟨⟨rfl, rfl⟩, _⟩ := hstep
                    exact ⟨hadd stolen h0, by omega⟩
                · simp only [Except.ok.injEq, Prod.mk.injEq] at hstep
                  obtain ⟨⟨rfl, rfl⟩, _⟩ := hstep
                  exact ⟨hx, by omega⟩
            · simp only [Except.ok.injEq, Prod.mk.injEq] at hstep
              obtain ⟨⟨rfl, rfl⟩, _⟩ := hstep
              exact ⟨hx, by omega⟩
        split at h
        · simp only [Except.ok.injEq, Prod.mk.injEq] at h
          obtain ⟨⟨rfl, _⟩, _⟩ := h
          intro s hs
          rcases List.mem_cons.mp hs with rfl | h'
          · exact hk.1
          · exact hxs s h'
        · rename_i hpos
          split at h
          · cases h
          · rename_i rest st' rs2 hrec
            simp only [Except.ok.injEq, Prod.mk.injEq] at h
            obtain ⟨⟨rfl, _⟩, _⟩ := h
            intro s hs
            rcases List.mem_cons.mp hs with rfl | h'
            · exact hk.1
            · exact ih _ _ _ _ _ _ (by omega) hxs hrec s h'

theorem giveBabies_scLe (sorted sorted' : List (Species W)) (o : EpochOpts W) (rs rs' : List Nat)
    (hbs : 0 ≤ o.babiesStolen) (hP0 : ∀ s ∈ sorted, 0 < s.expectedOffspring ∧ AllZ s)
    (h : giveBabiesToTheBest sorted o rs = .ok (sorted', rs')) : ∀ s ∈ sorted', ScLe s := by
  unfold giveBabiesToTheBest at h
  simp only at h
  have hst := stealLoop_P0 (W := W) o.babiesStolen sorted.reverse 0 (fun s hs => hP0 s (List.mem_reverse.mp hs))
  have hsn := C09.stealLoop_nonneg (W := W) o.babiesStolen hbs sorted.reverse 0 (Int.le_refl 0)
  split at h
  · cases h
  · rename_i l1 left rs1 hgive
    have hb : ∀ b ∈ [o.babiesStolen / 5, o.babiesStolen / 5, o.babiesStolen / 10], 0 ≤ b := by
      intro b hb'
      simp only [List.mem_cons, List.mem_nil_iff, or_false] at hb'
      rcases hb' with rfl | rfl | rfl <;> omega
    have h1 := giveLoop_scLe o _ hb _ _ _ _ _ _ _ hsn (fun s hs => by
      obtain ⟨q, z⟩ := hst s (List.mem_reverse.mp hs)
      exact ⟨by omega, fun x hx => by rw [z x hx]; exact ⟨by omega, by omega⟩⟩) hgive
    split at h
    · rename_i hleft
      split at h
      · cases h
      · rename_i s ss
        split at h
        · cases h
        · simp only [Except.ok.injEq, Prod.mk.injEq] at h
          obtain ⟨rfl, _⟩ := h
          intro x hx
          rcases List.mem_cons.mp hx with rfl | h'
          · have hs := h1 s (by simp)
            refine scLe_setTop s _ _ rfl ?_ ?_
            · intro y hy; have := hs.2 y hy; exact ⟨this.1, by simp only; omega⟩
            · intro t ht; have := hs.2 t ht; exact ⟨by simp only; omega, by simp only; omega⟩
          · exact (h1 x (by simp [h'])).2
    · simp only [Except.ok.injEq, Prod.mk.injEq] at h
      obtain ⟨rfl, _⟩ := h
      exact fun s hs => (h1 s hs).2

theorem redistribute_scLe (sorted1 : List (Species W)) (o : EpochOpts W) (e : Int) (rs : List Nat)
    (sorted2 : List (Species W)) (ehlc : Int) (rs1 : List Nat) (h : Redistributed o sorted1 e rs sorted2 ehlc rs1)
    (hP0 : ∀ s ∈ sorted1, 0 < s.expectedOffspring ∧ AllZ s) : ∀ s ∈ sorted2, ScLe s := by
  unfold Redistributed at h
  split at h
  · split at h
    · cases h
    · rename_i l hd
      simp only [Except.ok.injEq, Prod.mk.injEq] at h
      obtain ⟨⟨rfl, _⟩, _⟩ := h
      exact deltaCoding_scLe _ _ _ hd (fun s hs => (hP0 s hs).2)
  · split at h
    · rename_i hbs
      split at h
      · cases h
      · rename_i l rs2 hg
        simp only [Except.ok.injEq, Prod.mk.injEq] at h
        obtain ⟨⟨rfl, _⟩, _⟩ := h
        exact giveBabies_scLe _ _ _ _ _ (by omega) hP0 hg
    · simp only [Except.ok.injEq, Prod.mk.injEq] at h
      obtain ⟨⟨rfl, _⟩, _⟩ := h
      intro s hs x hx
      obtain ⟨q, z⟩ := hP0 s hs
      rw [z x hx]; exact ⟨by omega, by omega⟩

/-- **the reservation bound, derived from the preparation phase.**  If no organism enters the epoch with clones reserved
    (`superChampOffspring = 0`, true of every newborn) and species ids are unique, then after `prepareForReproduction`
    the reservation of EVERY organism left is non-negative and at most the quota of its species — whichever of delta coding, stolen
    babies or neither ran, for every scalar type, stream and option setting. -/
theorem prepare_sc_le (o : EpochOpts W) (p p1 : Pop W) (ex : ExecState) (rs rs' : List Nat)
    (hnd : (p.species.map (·.id)).Nodup) (hz : ∀ s ∈ p.species, AllZ s)
    (h : prepareForReproduction o p rs = .ok ((p1, ex), rs')) : ∀ s ∈ p1.species, ScLe s := by
  obtain ⟨species1, best, tail, e, sorted2, ehlc, doomed, pre, hadj, hsorted, hred, hpre, _, _, hsp, _, _⟩ :=
    prepare_decomp o p p1 ex rs rs' h
  have hP0 := sorted1_P0 o p species1 best tail hz hadj hsorted
  have hle := redistribute_scLe _ _ _ _ _ _ _ hred hP0
  obtain ⟨hperm, hndz, _, _⟩ := chain_gkeys (fun _ : Org W => ()) (by intro t v; rfl) (by intro t; rfl) (by intro t v; rfl)
    o p species1 best tail e rs sorted2 ehlc rs' hnd hadj hsorted hred
  have hids : ((purgeZeroOffspringSpecies ({ p with species := species1 } : Pop W)).species.map (·.id)).Perm (sorted2.map (·.id)) := by
    rw [ids_of_gkeys (fun _ : Org W => ()), ids_of_gkeys (fun _ : Org W => ()) sorted2]
    exact (hperm.map _).symm
  obtain ⟨_, w2⟩ := C09.writeBack_quota _ sorted2 (hids.nodup_iff.mp hndz) hids
  intro s hs
  rw [hsp, hpre] at hs
  obtain ⟨m, hm, rfl⟩ := List.mem_map.mp hs
  intro x hx
  exact hle m (w2 m hm) x (List.mem_filter.mp hx).1

/-! ### 4. from the babies of one species to the next generation -/

/-- `reproduce_has_champion` with the reservation bounded from above only (a non-positive reservation takes the
    champion-clone branch) -/
theorem reproduceSpecies_has_copy (o : EpochOpts W) (gen : Int) (s : Species W) (sorted : List (Species W)) (reg reg' : Reg W)
    (uid uid' : Nat) (babies : List (Org W)) (champ : Org W) (rs rs' : List Nat)
    (hchamp : s.orgs.head? = some champ) (hrefs : C06.RefsOk champ.genome)
    (hq : s.expectedOffspring > 5) (hsc : champ.superChampOffspring ≤ s.expectedOffspring)
    (h : reproduceSpecies o gen s sorted reg uid rs = .ok ((babies, reg', uid'), rs')) :
    ∃ b ∈ babies, IsCopy champ b := by
  unfold reproduceSpecies at h
  rw [hchamp] at h
  simp only at h
  split at h
  · cases h
  · rename_i st rs1 hloop
    simp only [Except.ok.injEq, Prod.mk.injEq] at h
    obtain ⟨⟨rfl, _, _⟩, _⟩ := h
    apply reproduceLoop_has_copy o gen s sorted champ hrefs _ _ _ _ _ _ hloop
    simp only
    have hn : (s.expectedOffspring.toNat : Int) = s.expectedOffspring := Int.toNat_of_nonneg (by omega)
    by_cases h0 : 1 ≤ champ.superChampOffspring
    · right; left; exact ⟨h0, by omega⟩
    · right; right; exact ⟨by omega, trivial, hq, by omega⟩

theorem reproduceAll_acc (o : EpochOpts W) (gen : Int) (sorted ss : List (Species W)) (reg reg' : Reg W) (uid uid' : Nat)
    (acc babies : List (Org W)) (rs rs' : List Nat)
    (h : reproduceAll o gen sorted ss reg uid acc rs = .ok ((babies, reg', uid'), rs')) : ∀ b ∈ acc, b ∈ babies := by
  induction ss generalizing reg uid acc rs with
  | nil => simp only [reproduceAll, Except.ok.injEq, Prod.mk.injEq] at h; obtain ⟨⟨rfl, _, _⟩, _⟩ := h; exact fun b hb => hb
  | cons s ss ih =>
    unfold reproduceAll at h
    split at h
    · cases h
    · intro b hb; exact ih _ _ _ _ h b (List.mem_append_left _ hb)

/-- the babies of ALL species contain the copy made for any one of them -/
theorem reproduceAll_has_copy (o : EpochOpts W) (gen : Int) (sorted ss : List (Species W)) (reg reg' : Reg W) (uid uid' : Nat)
    (acc babies : List (Org W)) (rs rs' : List Nat)
    (h : reproduceAll o gen sorted ss reg uid acc rs = .ok ((babies, reg', uid'), rs'))
    (s : Species W) (hs : s ∈ ss) (champ : Org W) (hchamp : s.orgs.head? = some champ) (hrefs : C06.RefsOk champ.genome)
    (hq : s.expectedOffspring > 5) (hsc : champ.superChampOffspring ≤ s.expectedOffspring) :
    ∃ b ∈ babies, IsCopy champ b := by
  induction ss generalizing reg uid acc rs with
  | nil => cases hs
  | cons s0 ss ih =>
    unfold reproduceAll at h
    split at h
    · cases h
    · rename_i bs reg1 uid1 rs1 hs0
      rcases List.mem_cons.mp hs with rfl | hs'
      · obtain ⟨b, hb, hc⟩ := reproduceSpecies_has_copy o gen _ sorted _ _ _ _ _ champ _ _ hchamp hrefs hq hsc hs0
        exact ⟨b, reproduceAll_acc _ _ _ _ _ _ _ _ _ _ _ _ h b (List.mem_append_right _ hb), hc⟩
      · exact ih _ _ _ _ h hs'

/-- reproduction returns only if every species still has a first organism -/
theorem reproduceAll_heads (o : EpochOpts W) (gen : Int) (sorted ss : List (Species W)) (reg reg' : Reg W) (uid uid' : Nat)
    (acc babies : List (Org W)) (rs rs' : List Nat)
    (h : reproduceAll o gen sorted ss reg uid acc rs = .ok ((babies, reg', uid'), rs')) :
    ∀ s ∈ ss, ∃ champ, s.orgs.head? = some champ := by
  induction ss generalizing reg uid acc rs with
  | nil => intro s hs; cases hs
  | cons s0 ss ih =>
    unfold reproduceAll at h
    split at h
    · cases h
    · rename_i bs reg1 uid1 rs1 hs0
      intro s hs
      rcases List.mem_cons.mp hs with rfl | hs'
      · unfold reproduceSpecies at hs0
        split at hs0
        · split at hs0 <;> cases hs0
        · rename_i champ hc; exact ⟨champ, hc⟩
      · exact ih _ _ _ _ h s hs'

/-! newborns carry no reservation -/

theorem reproduceOne_sc (o : EpochOpts W) (gen : Int) (s : Species W) (sorted : List (Species W)) (champ : Org W)
    (count : Int) (st st' : ReproState W) (rs rs' : List Nat)
    (h : reproduceOne o gen s sorted champ count st rs = .ok (st', rs')) :
    ∃ b, st'.babies = st.babies ++ [b] ∧ b.superChampOffspring = 0 := by
  unfold reproduceOne at h
  simp only at h
  repeat' (split at h)
  all_goals (first
    | (simp only [Except.ok.injEq, Prod.mk.injEq] at h; obtain ⟨rfl, _⟩ := h; exact ⟨_, rfl, rfl⟩)
    | cases h)

theorem reproduceLoop_sc (o : EpochOpts W) (gen : Int) (s : Species W) (sorted : List (Species W)) (champ : Org W)
    (n : Nat) (count : Int) (st st' : ReproState W) (rs rs' : List Nat)
    (h : reproduceLoop o gen s sorted champ n count st rs = .ok (st', rs'))
    (hz : ∀ b ∈ st.babies, b.superChampOffspring = 0) : ∀ b ∈ st'.babies, b.superChampOffspring = 0 := by
  induction n generalizing count st rs with
  | zero => simp [reproduceLoop] at h; obtain ⟨rfl, _⟩ := h; exact hz
  | succ n ih =>
    unfold reproduceLoop at h
    split at h
    · cases h
    · rename_i st1 rs1 hone
      obtain ⟨b, hb, hb0⟩ := reproduceOne_sc _ _ _ _ _ _ _ _ _ _ hone
      apply ih _ _ _ h
      intro x hx
      rw [hb] at hx
      rcases List.mem_append.mp hx with h' | h'
      · exact hz x h'
      · simp only [List.mem_singleton] at h'; rw [h']; exact hb0

theorem reproduceAll_sc (o : EpochOpts W) (gen : Int) (sorted ss : List (Species W)) (reg reg' : Reg W) (uid uid' : Nat)
    (acc babies : List (Org W)) (rs rs' : List Nat)
    (h : reproduceAll o gen sorted ss reg uid acc rs = .ok ((babies, reg', uid'), rs'))
    (hz : ∀ b ∈ acc, b.superChampOffspring = 0) : ∀ b ∈ babies, b.superChampOffspring = 0 := by
  induction ss generalizing reg uid acc rs with
  | nil => simp only [reproduceAll, Except.ok.injEq, Prod.mk.injEq] at h; obtain ⟨⟨rfl, _, _⟩, _⟩ := h; exact hz
  | cons s ss ih =>
    unfold reproduceAll at h
    split at h
    · cases h
    · rename_i bs reg1 uid1 rs1 hs
      apply ih _ _ _ _ h
      intro b hb
      rcases List.mem_append.mp hb with h' | h'
      · exact hz b h'
      · unfold reproduceSpecies at hs
        split at hs
        · split at hs <;> cases hs
        · simp only at hs
          split at hs
          · cases hs
          · rename_i st rs2 hloop
            simp only [Except.ok.injEq, Prod.mk.injEq] at hs
            obtain ⟨⟨rfl, _, _⟩, _⟩ := hs
            exact reproduceLoop_sc _ _ _ _ _ _ _ _ _ _ _ hloop (by intro x hx; cases hx) b h'

/-! speciation only moves organisms -/

omit [Scalar W] in
theorem modify_append_mem (ss : List (Species W)) (i : Nat) (org : Org W) (hi : i < ss.length) :
    (∃ s ∈ ss.modify i (fun s => { s with orgs := s.orgs ++ [org] }), org ∈ s.orgs) ∧
    ∀ s ∈ ss, ∀ x ∈ s.orgs, ∃ s' ∈ ss.modify i (fun s => { s with orgs := s.orgs ++ [org] }), x ∈ s'.orgs := by
  induction ss generalizing i with
  | nil => simp at hi
  | cons a t ih =>
    cases i with
    | zero =>
      simp only [List.modify_zero_cons]
      refine ⟨⟨_, List.mem_cons_self, by simp⟩, ?_⟩
      intro s hs x hx
      rcases List.mem_cons.mp hs with rfl | h'
      · exact ⟨_, List.mem_cons_self, by simp [hx]⟩
      · exact ⟨s, List.mem_cons_of_mem _ h', hx⟩
    | succ i =>
      simp only [List.modify_succ_cons]
      obtain ⟨⟨s1, hs1, ho⟩, hall⟩ := ih i (by simpa using hi)
      refine ⟨⟨s1, List.mem_cons_of_mem _ hs1, ho⟩, ?_⟩
      intro s hs x hx
      rcases List.mem_cons.mp hs with rfl | h'
      · exact ⟨s, List.mem_cons_self, hx⟩
      · obtain ⟨s', hs', hx'⟩ := hall s h' x hx
        exact ⟨s', List.mem_cons_of_mem _ hs', hx'⟩

theorem speciateOne_fwd (o : EpochOpts W) (p p' : Pop W) (org : Org W) (h : speciateOne o p org = .ok p') :
    (∃ s ∈ p'.species, org ∈ s.orgs) ∧ ∀ s ∈ p.species, ∀ x ∈ s.orgs, ∃ s' ∈ p'.species, x ∈ s'.orgs := by
  unfold speciateOne at h
  simp only at h
  have hnew : ∀ sN : Species W, org ∈ sN.orgs →
      (∃ s ∈ p.species ++ [sN], org ∈ s.orgs) ∧ ∀ s ∈ p.species, ∀ x ∈ s.orgs, ∃ s' ∈ p.species ++ [sN], x ∈ s'.orgs := by
    intro sN ho
    exact ⟨⟨sN, by simp, ho⟩, fun s hs x hx => ⟨s, by simp [hs], hx⟩⟩
  split at h
  · cases h; exact hnew _ (by simp)
  · split at h
    · cases h
    · split at h
      · rename_i i hb
        cases h
        have hi : i < p.species.length := by
          have := C02.bestCompatible_lt o org.genome p.species 0 none maxVal (by intro b h; cases h) i hb; simpa using this
        exact modify_append_mem _ _ _ hi
      · cases h; exact hnew _ (by simp)

/-- every arriving organism ends up, unchanged, in a species; nothing that was there is lost -/
theorem speciateLoop_fwd (o : EpochOpts W) (p p' : Pop W) (orgs : List (Org W)) (h : speciateLoop o p orgs = .ok p') :
    (∀ x ∈ orgs, ∃ s ∈ p'.species, x ∈ s.orgs) ∧ ∀ s ∈ p.species, ∀ x ∈ s.orgs, ∃ s' ∈ p'.species, x ∈ s'.orgs := by
  induction orgs generalizing p with
  | nil => simp only [speciateLoop] at h; cases h; exact ⟨(by intro x hx; cases hx), fun s hs x hx => ⟨s, hs, hx⟩⟩
  | cons a t ih =>
    unfold speciateLoop at h
    split at h
    · cases h
    · rename_i p1 h1
      obtain ⟨⟨sa, hsa, ha⟩, hold⟩ := speciateOne_fwd o p p1 a h1
      obtain ⟨i1, i2⟩ := ih _ h
      refine ⟨?_, ?_⟩
      · intro x hx
        rcases List.mem_cons.mp hx with rfl | h'
        · exact i2 sa hsa x ha
        · exact i1 x h'
      · intro s hs x hx
        obtain ⟨s1, hs1, hx1⟩ := hold s hs x hx
        exact i2 s1 hs1 x hx1

/-! the final purge removes the old generation and renumbers genome ids — nothing else -/

omit [Scalar W] in
theorem renumber_fwd (l : List (Org W)) (k : Int) :
    ∀ x ∈ l, ∃ id, ({ x with genome := { x.genome with id := id } } : Org W) ∈ renumber l k := by
  induction l generalizing k with
  | nil => intro x hx; cases hx
  | cons a t ih =>
    intro x hx
    unfold renumber
    rcases List.mem_cons.mp hx with rfl | h'
    · exact ⟨k, List.mem_cons_self⟩
    · obtain ⟨id, hid⟩ := ih (k + 1) x h'
      exact ⟨id, List.mem_cons_of_mem _ hid⟩

omit [Scalar W] in
theorem renumber_bwd (l : List (Org W)) (k : Int) :
    ∀ x' ∈ renumber l k, ∃ x ∈ l, x' = { x with genome := { x.genome with id := x'.genome.id } } := by
  induction l generalizing k with
  | nil => intro x hx; simp [renumber] at hx
  | cons a t ih =>
    intro x' hx'
    unfold renumber at hx'
    rcases List.mem_cons.mp hx' with rfl | h'
    · exact ⟨a, List.mem_cons_self, rfl⟩
    · obtain ⟨x, hx, e⟩ := ih (k + 1) x' h'
      exact ⟨x, List.mem_cons_of_mem _ hx, e⟩

omit [Scalar W] in
theorem purgeOrAgeLoop_fwd (ss : List (Species W)) (k : Int) :
    ∀ s ∈ ss, ∀ x ∈ s.orgs, ∃ s' ∈ purgeOrAgeLoop ss k, ∃ id,
      ({ x with genome := { x.genome with id := id } } : Org W) ∈ s'.orgs := by
  induction ss generalizing k with
  | nil => intro s hs; cases hs
  | cons a t ih =>
    intro s hs x hx
    unfold purgeOrAgeLoop
    split
    · rename_i he
      rcases List.mem_cons.mp hs with rfl | h'
      · have : s.orgs = [] := by simpa using he
        rw [this] at hx; cases hx
      · exact ih _ s h' x hx
    · rcases List.mem_cons.mp hs with rfl | h'
      · obtain ⟨id, hid⟩ := renumber_fwd s.orgs k x hx
        exact ⟨_, List.mem_cons_self, id, hid⟩
      · obtain ⟨s', hs', r⟩ := ih _ s h' x hx
        exact ⟨s', List.mem_cons_of_mem _ hs', r⟩

omit [Scalar W] in
theorem purgeOrAgeLoop_bwd (ss : List (Species W)) (k : Int) :
    ∀ s' ∈ purgeOrAgeLoop ss k, ∀ x' ∈ s'.orgs, ∃ s ∈ ss, ∃ x ∈ s.orgs,
      x' = { x with genome := { x.genome with id := x'.genome.id } } := by
  induction ss generalizing k with
  | nil => intro s hs; simp [purgeOrAgeLoop] at hs
  | cons a t ih =>
    intro s' hs' x' hx'
    unfold purgeOrAgeLoop at hs'
    split at hs'
    · obtain ⟨s, hs, r⟩ := ih _ s' hs' x' hx'
      exact ⟨s, List.mem_cons_of_mem _ hs, r⟩
    · rcases List.mem_cons.mp hs' with rfl | h'
      · obtain ⟨x, hx, e⟩ := renumber_bwd _ _ x' hx'
        exact ⟨a, List.mem_cons_self, x, hx, e⟩
      · obtain ⟨s, hs, r⟩ := ih _ s' h' x' hx'
        exact ⟨s, List.mem_cons_of_mem _ hs, r⟩

omit [Scalar W] in
/-- an organism that is not of the old generation survives `finalizeReproduction` with nothing but its genome id changed,
    in a species of the new population and listed in its organism list -/
theorem finalize_fwd (p2 : Pop W) (s : Species W) (hs : s ∈ p2.species) (x : Org W) (hx : x ∈ s.orgs)
    (hnew : x.uid ∉ p2.organisms) :
    ∃ s' ∈ (finalizeReproduction p2).species, ∃ id,
      ({ x with genome := { x.genome with id := id } } : Org W) ∈ s'.orgs ∧ x.uid ∈ (finalizeReproduction p2).organisms := by
  have h1 : ({ s with orgs := s.orgs.filter (fun o => !p2.organisms.contains o.uid) } : Species W) ∈ (purgeOldGeneration p2).species := by
    unfold purgeOldGeneration
    exact List.mem_map.mpr ⟨s, hs, rfl⟩
  have h2 : x ∈ ({ s with orgs := s.orgs.filter (fun o => !p2.organisms.contains o.uid) } : Species W).orgs := by
    simp only [List.mem_filter, hx, true_and, Bool.not_eq_true', List.contains_eq_mem, decide_eq_false_iff_not]
    exact hnew
  obtain ⟨s', hs', id, hid⟩ := purgeOrAgeLoop_fwd (purgeOldGeneration p2).species 0 _ h1 x h2
  refine ⟨s', hs', id, hid, ?_⟩
  show x.uid ∈ (purgeOrAgeLoop (purgeOldGeneration p2).species 0).flatMap (fun s => s.orgs.map (·.uid))
  exact List.mem_flatMap.mpr ⟨s', hs', List.mem_map.mpr ⟨_, hid, rfl⟩⟩

omit [Scalar W] in
theorem finalize_bwd (p2 : Pop W) : ∀ s' ∈ (finalizeReproduction p2).species, ∀ x' ∈ s'.orgs,
    ∃ s ∈ p2.species, ∃ x ∈ s.orgs, x.uid ∉ p2.organisms ∧ x' = { x with genome := { x.genome with id := x'.genome.id } } := by
  intro s' hs' x' hx'
  have hs'' : s' ∈ purgeOrAgeLoop (purgeOldGeneration p2).species 0 := hs'
  obtain ⟨s1, hs1, x, hx, e⟩ := purgeOrAgeLoop_bwd _ _ s' hs'' x' hx'
  unfold purgeOldGeneration at hs1
  obtain ⟨s, hs, rfl⟩ := List.mem_map.mp hs1
  simp only [List.mem_filter, Bool.not_eq_true', List.contains_eq_mem, decide_eq_false_iff_not] at hx
  exact ⟨s, hs, x, hx.1, hx.2, e⟩

/-- **from one species' champion to the next generation.**  If the reproduction phase returns, then for every species of
    the prepared population with quota above five whose first organism's reservation does not exceed the quota, the
    finalised population holds — in one of its species and in its organism list — an organism whose genome is that
    organism's genome under a new id. -/
theorem reproduce_finalize_has_copy (o : EpochOpts W) (gen : Int) (p1 p2 : Pop W) (ex : ExecState) (rs rs' : List Nat)
    (hu : C02.UidInv p1) (h : reproducePhase o gen p1 ex rs = .ok (p2, rs'))
    (s : Species W) (hs : s ∈ p1.species) (champ : Org W) (hchamp : s.orgs.head? = some champ)
    (hrefs : C06.RefsOk champ.genome) (hq : s.expectedOffspring > 5)
    (hsc : champ.superChampOffspring ≤ s.expectedOffspring) :
    ∃ s' ∈ (finalizeReproduction p2).species, ∃ x ∈ s'.orgs, x.uid ∈ (finalizeReproduction p2).organisms ∧ IsCopy champ x := by
  unfold reproducePhase at h
  simp only at h
  split at h
  · cases h
  · rename_i babies reg uid rs1 hall
    split at h
    · cases h
    · split at h
      · cases h
      · rename_i p2' hsp
        simp only [Except.ok.injEq, Prod.mk.injEq] at h
        obtain ⟨rfl, _⟩ := h
        obtain ⟨b, hb, hcopy⟩ := reproduceAll_has_copy o gen _ _ _ _ _ _ _ _ _ _ hall s hs champ hchamp hrefs hq hsc
        obtain ⟨_, _, hge⟩ := C02.reproduceAll_uids o gen _ _ _ _ _ _ [] babies _ _ hall (by simp) (by simp)
        unfold speciate at hsp
        split at hsp
        · cases hsp
        · obtain ⟨hfw, _⟩ := speciateLoop_fwd o _ _ _ hsp
          obtain ⟨_, horg, _⟩ := C02.speciateLoop_uids o _ _ _ hsp
          simp only at horg
          obtain ⟨sb, hsb, hbs⟩ := hfw b hb
          have hnew : b.uid ∉ p2'.organisms := by
            rw [horg]
            intro hmem
            have := hu.below _ hmem
            rcases hge b.uid (List.mem_map_of_mem hb) with h' | h'
            · simp at h'
            · omega
          obtain ⟨s', hs', id, hx', hlist⟩ := finalize_fwd p2' sb hsb b hbs hnew
          refine ⟨s', hs', _, hx', hlist, ?_⟩
          obtain ⟨i, hi⟩ := hcopy
          exact ⟨id, by show ({ b.genome with id := id } : Genome W) = _; rw [hi]⟩

/-- every organism of the finalised population is a newborn: no reservation -/
theorem reproduce_finalize_allZ (o : EpochOpts W) (gen : Int) (p1 p2 : Pop W) (ex : ExecState) (rs rs' : List Nat)
    (hu : C02.UidInv p1) (h : reproducePhase o gen p1 ex rs = .ok (p2, rs')) :
    ∀ s ∈ (finalizeReproduction p2).species, AllZ s := by
  unfold reproducePhase at h
  simp only at h
  split at h
  · cases h
  · rename_i babies reg uid rs1 hall
    split at h
    · cases h
    · split at h
      · cases h
      · rename_i p2' hsp
        simp only [Except.ok.injEq, Prod.mk.injEq] at h
        obtain ⟨rfl, _⟩ := h
        have hb0 := reproduceAll_sc o gen _ _ _ _ _ _ _ _ _ _ hall (by intro b hb; cases hb)
        unfold speciate at hsp
        split at hsp
        · cases hsp
        · obtain ⟨hbw, _⟩ := C01.speciateLoop_orgs o _ _ _ hsp
          obtain ⟨_, horg, _⟩ := C02.speciateLoop_uids o _ _ _ hsp
          simp only at horg
          intro s' hs' x' hx'
          obtain ⟨s, hs, x, hx, hnew, e⟩ := finalize_bwd p2' s' hs' x' hx'
          rw [e]
          show x.superChampOffspring = 0
          rcases hbw x (C01.mem_allOrgs.mpr ⟨s, hs, hx⟩) with h' | h'
          · exfalso
            apply hnew
            rw [horg]
            obtain ⟨s0, hs0, hx0⟩ := C01.mem_allOrgs.mp h'
            apply hu.listed
            simp only [C02.orgUids, List.mem_flatMap, List.mem_map]
            exact ⟨s0, hs0, x, hx0, rfl⟩
          · exact hb0 x h'

/-! ### 5. the first organism after the fitness adjustment, and why it is not removed -/

/-- the head of the adjusted species is a member of the old one: same allocation id and genome, its raw fitness recorded
    as original fitness; with at least one parent kept it is not marked for elimination unless it already was -/
theorem adjustFitness_head (o : EpochOpts W) (s s' : Species W) (top : Org W) (rest : List (Org W))
    (h : adjustFitness o s = .ok s') (hs' : s'.orgs = top :: rest) :
    ∃ y ∈ s.orgs, top.uid = y.uid ∧ top.genome = y.genome ∧ top.originalFitness = y.fitness ∧
      (1 ≤ C09.numParents o s.orgs.length → top.toEliminate = y.toEliminate) := by
  unfold adjustFitness at h
  simp only at h
  split at h
  · cases h
  · rename_i t r hsort
    cases h
    rw [hsort] at hs'
    simp only [markOrgs, List.cons.injEq] at hs'
    obtain ⟨rfl, _⟩ := hs'
    have htmem : t ∈ sortOrgsDesc (s.orgs.map (adjustOrg (if (s.age - s.ageOfLastImprovement + 1) - o.dropOffAge = 0 then 1 else (s.age - s.ageOfLastImprovement + 1) - o.dropOffAge) s.age o s.orgs.length)) := by
      rw [hsort]; simp
    have := (goSort_perm _ _).mem_iff.mp htmem
    obtain ⟨y, hy, rfl⟩ := List.mem_map.mp this
    refine ⟨y, hy, rfl, rfl, rfl, ?_⟩
    intro h1
    unfold C09.numParents at h1
    have hn : ¬ (((0 : Nat) : Int) ≥ floorInt (add (mul o.survivalThresh (ofInt (s.orgs.length : Int))) one)) := by
      omega
    simp only [hn, ↓reduceIte]
    rfl

/-- an organism that is not marked is not among the doomed, when allocation ids are pairwise distinct -/
theorem not_doomed (pre : Pop W) (hnd : (C02.orgUids pre.species).Nodup) (m : Species W) (hm : m ∈ pre.species)
    (x : Org W) (hx : x ∈ m.orgs) (hte : x.toEliminate = false) :
    ((pre.orgList.filter (·.toEliminate)).map (·.uid)).contains x.uid = false := by
  have hfind : pre.findOrg x.uid = some x := C09.findOrg_of_mem pre hnd m hm x hx
  simp only [List.contains_eq_mem, List.mem_map, List.mem_filter, decide_eq_false_iff_not]
  rintro ⟨y, ⟨hyl, hyte⟩, hyu⟩
  unfold Pop.orgList at hyl
  obtain ⟨u, _, hfy⟩ := List.mem_filterMap.mp hyl
  obtain ⟨sy, hsy, hyin, _⟩ := C09.findOrg_some_mem pre u y hfy
  have hfy' : pre.findOrg y.uid = some y := C09.findOrg_of_mem pre hnd sy hsy y hyin
  rw [hyu, hfind] at hfy'
  cases hfy'
  rw [hte] at hyte; cases hyte

omit [Scalar W] in
theorem uids_of_gkeys (k : Org W → κ) (u : κ → Nat) (hu : ∀ x, u (k x) = x.uid) (a : List (Species W)) :
    C02.orgUids a = (a.map (gkey k)).flatMap (fun g => g.2.map u) := by
  simp only [gkey, C02.orgUids, List.flatMap_map, List.map_map, Function.comp_def, hu]

end GoNeat.C10
