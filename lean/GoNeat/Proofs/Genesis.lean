/-
  Helper lemmas for C11, expression part: `Genesis.genesis` of a well-formed genome yields a network that
  `expresses` it (Spec/Genesis.lean).  Core Lean only.
-/
import GoNeat.Proofs.GraphView

set_option linter.unusedSectionVars false

namespace GoNeat.Genesis

variable {W : Type}

/-! ### the link loop, by node index -/

/-- the link an enabled gene is expressed as -/
def expr (nodes : List Node) (x : Gene W) : Option (NLink W) := if x.en then geneLink nodes x else none

/-- links entering / leaving the node at index `i`, in gene order -/
def into (nodes : List Node) (genes : List (Gene W)) (i : Nat) : List (NLink W) :=
  (genes.filterMap (expr nodes)).filter fun l => l.dst == i
def outOf (nodes : List Node) (genes : List (Gene W)) (i : Nat) : List (NLink W) :=
  (genes.filterMap (expr nodes)).filter fun l => l.src == i

def withLinks (ins outs : List (NLink W)) (nd : NNodeS W) : NNodeS W :=
  { nd with incoming := nd.incoming ++ ins, outgoing := nd.outgoing ++ outs }

theorem getElem?_addLink (tbl : List (NNodeS W)) (l : NLink W) (i : Nat) :
    (addLink tbl l)[i]? =
      (tbl[i]?).map (withLinks (if l.dst = i then [l] else []) (if l.src = i then [l] else [])) := by
  unfold addLink
  rw [List.getElem?_modify, List.getElem?_modify]
  cases tbl[i]? with
  | none => rfl
  | some nd =>
    by_cases h1 : l.dst = i <;> by_cases h2 : l.src = i <;> simp [h1, h2, withLinks]

theorem linkGenes_spec (nodes : List Node) (genes : List (Gene W)) :
    ∀ (tbl tbl' : List (NNodeS W)), linkGenes nodes genes tbl = .ok tbl' →
      ∀ i, tbl'[i]? = (tbl[i]?).map (withLinks (into nodes genes i) (outOf nodes genes i)) := by
  induction genes with
  | nil =>
    intro tbl tbl' h i
    simp only [linkGenes, Except.ok.injEq] at h
    subst h
    cases tbl[i]? <;> simp [into, outOf, withLinks]
  | cons x gs ih =>
    intro tbl tbl' h i
    unfold linkGenes at h
    by_cases hen : x.en = true
    · simp only [hen, Bool.not_true, Bool.false_eq_true, ↓reduceIte] at h
      cases hl : geneLink nodes x with
      | none => simp [hl] at h
      | some l =>
        simp only [hl] at h
        rw [ih _ _ h i, getElem?_addLink]
        have he : expr nodes x = some l := by simp [expr, hen, hl]
        cases tbl[i]? with
        | none => rfl
        | some nd =>
          simp only [Option.map_some, Option.some.injEq, withLinks, into, outOf, List.filterMap_cons, he,
            List.filter_cons]
          by_cases h1 : l.dst = i <;> by_cases h2 : l.src = i <;> simp [h1, h2]
    · have hen' : x.en = false := by simpa using hen
      simp only [hen', Bool.not_false, ↓reduceIte] at h
      rw [ih _ _ h i]
      have he : expr nodes x = none := by simp [expr, hen']
      simp only [into, outOf, List.filterMap_cons, he]

/-! ### resolving ids -/

theorem idxOf_some {nodes : List Node} {a : Int} {s : Nat} (h : idxOf nodes a = some s) :
    (nodes[s]?).map (·.id) = some a := by
  unfold idxOf at h
  obtain ⟨hlt, hp, _⟩ := List.findIdx?_eq_some_iff_getElem.mp h
  rw [List.getElem?_eq_getElem hlt]
  simpa using hp

/-- with pairwise different ids the position of an id is unique -/
theorem idxOf_unique {nodes : List Node} (hnd : (nodes.map (·.id)).Nodup) {a : Int} {s t : Nat}
    (hs : (nodes[s]?).map (·.id) = some a) (ht : (nodes[t]?).map (·.id) = some a) : s = t := by
  have hs' : (nodes.map (·.id))[s]? = some a := by rw [List.getElem?_map]; exact hs
  have ht' : (nodes.map (·.id))[t]? = some a := by rw [List.getElem?_map]; exact ht
  obtain ⟨h1, e1⟩ := List.getElem?_eq_some_iff.mp hs'
  obtain ⟨h2, e2⟩ := List.getElem?_eq_some_iff.mp ht'
  have hp := List.pairwise_iff_getElem.mp hnd
  rcases Nat.lt_trichotomy s t with h | h | h
  · exact absurd (e1.trans e2.symm) (hp s t h1 h2 h)
  · exact h
  · exact absurd (e2.trans e1.symm) (hp t s h2 h1 h)

theorem idxOf_of_mem {nodes : List Node} {a : Int} (h : a ∈ nodes.map (·.id)) : ∃ s, idxOf nodes a = some s := by
  unfold idxOf
  obtain ⟨n, hn, hid⟩ := List.mem_map.mp h
  cases hf : nodes.findIdx? (·.id == a) with
  | some s => exact ⟨s, rfl⟩
  | none =>
    rw [List.findIdx?_eq_none_iff] at hf
    have := hf n hn
    simp [hid] at this

theorem geneLink_some {nodes : List Node} {x : Gene W} {l : NLink W} (h : geneLink nodes x = some l) :
    idxOf nodes x.src = some l.src ∧ idxOf nodes x.dst = some l.dst ∧ l.w = x.w ∧ l.recur = x.recur := by
  unfold geneLink at h
  cases hs : idxOf nodes x.src with
  | none => simp [hs] at h
  | some s =>
    cases hd : idxOf nodes x.dst with
    | none => simp [hs, hd] at h
    | some d =>
      simp only [hs, hd, Option.some.injEq] at h
      subst h
      exact ⟨rfl, rfl, rfl, rfl⟩

theorem geneLink_of_mem {nodes : List Node} {x : Gene W} (hs : x.src ∈ nodes.map (·.id)) (hd : x.dst ∈ nodes.map (·.id)) :
    ∃ l, geneLink nodes x = some l := by
  obtain ⟨s, hs'⟩ := idxOf_of_mem hs
  obtain ⟨d, hd'⟩ := idxOf_of_mem hd
  exact ⟨{ src := s, dst := d, w := x.w, recur := x.recur }, by simp [geneLink, hs', hd']⟩

/-- the network resolves indices back to the ids they were made from -/
def Resolves (nodes : List Node) (net : Net W) : Prop := ∀ a k, idxOf nodes a = some k → idAt net k = some a

theorem elink_geneLink {nodes : List Node} {net : Net W} (hr : Resolves nodes net) {x : Gene W} {l : NLink W}
    (h : geneLink nodes x = some l) : elink net l = elinkOfGene x := by
  obtain ⟨h1, h2, h3, h4⟩ := geneLink_some h
  unfold elink elinkOfGene
  rw [hr _ _ h1, hr _ _ h2, h3, h4]

/-- id-level view of the links entering the node at index `i` (id `a`) -/
theorem into_map {nodes : List Node} {net : Net W} (hr : Resolves nodes net) (hnd : (nodes.map (·.id)).Nodup)
    {i : Nat} {a : Int} (hi : (nodes[i]?).map (·.id) = some a) (gs : List (Gene W))
    (hg : ∀ x ∈ gs, x.src ∈ nodes.map (·.id) ∧ x.dst ∈ nodes.map (·.id)) :
    (into nodes gs i).map (elink net) = ((gs.filter (·.en)).filter (·.dst == a)).map elinkOfGene := by
  unfold into
  induction gs with
  | nil => rfl
  | cons x gs ih =>
    have ih' := ih (fun y hy => hg y (by simp [hy]))
    cases hen : x.en with
    | false =>
      have he : expr nodes x = none := by simp [expr, hen]
      simp only [List.filterMap_cons, he, List.filter_cons, hen, Bool.false_eq_true, ↓reduceIte]
      exact ih'
    | true =>
      obtain ⟨l, hl⟩ := geneLink_of_mem (hg x (by simp)).1 (hg x (by simp)).2
      have he : expr nodes x = some l := by simp [expr, hen, hl]
      obtain ⟨_, h2, _, _⟩ := geneLink_some hl
      have hd := idxOf_some h2
      have hiff : (l.dst == i) = (x.dst == a) := by
        by_cases hc : l.dst = i
        · have : x.dst = a := by
            rw [hc, hi] at hd
            exact (Option.some.inj hd).symm
          simp [hc, this]
        · have : x.dst ≠ a := by
            intro heq
            exact hc (idxOf_unique hnd (heq ▸ hd) hi)
          have h1 : (x.dst == a) = false := by simpa using this
          rw [h1]; simpa using hc
      simp only [List.filterMap_cons, he, List.filter_cons, hen, ↓reduceIte, hiff]
      by_cases hc : (x.dst == a) = true
      · simp only [hc, ↓reduceIte, List.map_cons, elink_geneLink hr hl]
        rw [ih']
      · simp only [hc, Bool.false_eq_true, ↓reduceIte]
        exact ih'

theorem outOf_map {nodes : List Node} {net : Net W} (hr : Resolves nodes net) (hnd : (nodes.map (·.id)).Nodup)
    {i : Nat} {a : Int} (hi : (nodes[i]?).map (·.id) = some a) (gs : List (Gene W))
    (hg : ∀ x ∈ gs, x.src ∈ nodes.map (·.id) ∧ x.dst ∈ nodes.map (·.id)) :
    (outOf nodes gs i).map (elink net) = ((gs.filter (·.en)).filter (·.src == a)).map elinkOfGene := by
  unfold outOf
  induction gs with
  | nil => rfl
  | cons x gs ih =>
    have ih' := ih (fun y hy => hg y (by simp [hy]))
    cases hen : x.en with
    | false =>
      have he : expr nodes x = none := by simp [expr, hen]
      simp only [List.filterMap_cons, he, List.filter_cons, hen, Bool.false_eq_true, ↓reduceIte]
      exact ih'
    | true =>
      obtain ⟨l, hl⟩ := geneLink_of_mem (hg x (by simp)).1 (hg x (by simp)).2
      have he : expr nodes x = some l := by simp [expr, hen, hl]
      obtain ⟨h1, _, _, _⟩ := geneLink_some hl
      have hd := idxOf_some h1
      have hiff : (l.src == i) = (x.src == a) := by
        by_cases hc : l.src = i
        · have : x.src = a := by
            rw [hc, hi] at hd
            exact (Option.some.inj hd).symm
          simp [hc, this]
        · have : x.src ≠ a := by
            intro heq
            exact hc (idxOf_unique hnd (heq ▸ hd) hi)
          have h1 : (x.src == a) = false := by simpa using this
          rw [h1]; simpa using hc
      simp only [List.filterMap_cons, he, List.filter_cons, hen, ↓reduceIte, hiff]
      by_cases hc : (x.src == a) = true
      · simp only [hc, ↓reduceIte, List.map_cons, elink_geneLink hr hl]
        rw [ih']
      · simp only [hc, Bool.false_eq_true, ↓reduceIte]
        exact ih'

/-! ### control nodes -/

theorem wireLinks_in {nodes : List Node} {net : Net W} (hr : Resolves nodes net) {c : Nat} {cid : Int}
    (hc : idAt net c = some cid) (ws : List (Wire W)) :
    ∀ ls, wireLinks nodes c true ws = .ok ls →
      ls.map (elink net) = ws.map fun w => (⟨some w.node, some cid, w.w, false⟩ : ELink W) := by
  induction ws with
  | nil => intro ls h; simp only [wireLinks, Except.ok.injEq] at h; subst h; rfl
  | cons w ws ih =>
    intro ls h
    unfold wireLinks at h
    cases hk : idxOf nodes w.node with
    | none => simp [hk] at h
    | some k =>
      cases hrec : wireLinks nodes c true ws with
      | error e => simp [hk, hrec] at h
      | ok ls' =>
        simp only [hk, hrec, ↓reduceIte, Except.ok.injEq] at h
        subst h
        simp only [List.map_cons, ih ls' hrec, elink, hr _ _ hk, hc]

theorem wireLinks_out {nodes : List Node} {net : Net W} (hr : Resolves nodes net) {c : Nat} {cid : Int}
    (hc : idAt net c = some cid) (ws : List (Wire W)) :
    ∀ ls, wireLinks nodes c false ws = .ok ls →
      ls.map (elink net) = ws.map fun w => (⟨some cid, some w.node, w.w, false⟩ : ELink W) := by
  induction ws with
  | nil => intro ls h; simp only [wireLinks, Except.ok.injEq] at h; subst h; rfl
  | cons w ws ih =>
    intro ls h
    unfold wireLinks at h
    cases hk : idxOf nodes w.node with
    | none => simp [hk] at h
    | some k =>
      cases hrec : wireLinks nodes c false ws with
      | error e => simp [hk, hrec] at h
      | ok ls' =>
        simp only [hk, hrec, Bool.false_eq_true, ↓reduceIte, Except.ok.injEq] at h
        subst h
        simp only [List.map_cons, ih ls' hrec, elink, hr _ _ hk, hc]

theorem ctrlNodes_spec (nodes : List Node) (mods : List (Module W)) :
    ∀ (next : Nat) (cs : List (NNodeS W)), ctrlNodes nodes mods next = .ok cs →
      nodeTriples cs = (mods.filter (·.en)).map (fun m => (m.ctrl.id, m.ctrl.kind, m.ctrl.act)) ∧
      ∀ net : Net W, Resolves nodes net → (∀ j c, cs[j]? = some c → idAt net (next + j) = some c.id) →
        ∀ p ∈ cs.zip (mods.filter (·.en)),
          p.1.incoming.map (elink net) = modIns p.2 ∧ p.1.outgoing.map (elink net) = modOuts p.2 := by
  induction mods with
  | nil =>
    intro next cs h
    simp only [ctrlNodes, Except.ok.injEq] at h
    subst h
    exact ⟨rfl, fun _ _ _ p hp => by simp at hp⟩
  | cons m ms ih =>
    intro next cs h
    unfold ctrlNodes at h
    cases hen : m.en with
    | false =>
      simp only [hen, Bool.not_false, ↓reduceIte] at h
      have := ih next cs h
      simpa [List.filter_cons, hen] using this
    | true =>
      simp only [hen, Bool.not_true, Bool.false_eq_true, ↓reduceIte] at h
      cases hin : wireLinks nodes next true m.ins with
      | error e => simp [hin] at h
      | ok ins =>
        cases hout : wireLinks nodes next false m.outs with
        | error e => simp [hin, hout] at h
        | ok outs =>
          cases hrec : ctrlNodes nodes ms (next + 1) with
          | error e => simp [hin, hout, hrec] at h
          | ok cs' =>
            simp only [hin, hout, hrec, Except.ok.injEq] at h
            subst h
            obtain ⟨ht, hl⟩ := ih (next + 1) cs' hrec
            refine ⟨by simp [nodeTriples, List.filter_cons, hen] at ht ⊢; exact ht, ?_⟩
            intro net hr hpos p hp
            simp only [List.filter_cons, hen, ↓reduceIte, List.zip_cons_cons, List.mem_cons] at hp
            rcases hp with rfl | hp
            · have hc : idAt net next = some m.ctrl.id := by simpa using hpos 0 _ rfl
              exact ⟨by simpa [modIns] using wireLinks_in hr hc m.ins ins hin,
                     by simpa [modOuts] using wireLinks_out hr hc m.outs outs hout⟩
            · refine hl net hr (fun j c hj => ?_) p hp
              have := hpos (j + 1) c (by simpa using hj)
              rwa [show next + (j + 1) = next + 1 + j by omega] at this

/-! ### assembly -/

/-- the pieces `genesis` is made of, when it succeeds -/
theorem genesis_ok {g : Genome W} {netId : Int} {net : Net W} (h : genesis g netId = .ok net) :
    ∃ tbl cs, linkGenes g.nodes g.genes (g.nodes.map copyNode) = .ok tbl ∧
      ctrlNodes g.nodes g.modules g.nodes.length = .ok cs ∧
      net = { id := netId, nodes := tbl,
              inputs := positions (fun n => n.kind == Kind.input || n.kind == Kind.bias) g.nodes 0,
              outputs := positions (fun n => n.kind == Kind.output) g.nodes 0, ctrl := cs } ∧
      g.genes.isEmpty = false ∧ (positions (fun n => n.kind == Kind.output) g.nodes 0).isEmpty = false := by
  unfold genesis at h
  cases hge : g.genes.isEmpty with
  | true => simp [hge] at h
  | false =>
    cases hout : (positions (fun n => n.kind == Kind.output) g.nodes 0).isEmpty with
    | true => simp [hge, hout] at h
    | false =>
      simp only [hge, hout, Bool.false_eq_true, ↓reduceIte] at h
      cases hl : linkGenes g.nodes g.genes (g.nodes.map copyNode) with
      | error e => simp [hl] at h
      | ok tbl =>
        cases hc : ctrlNodes g.nodes g.modules g.nodes.length with
        | error e => simp [hl, hc] at h
        | ok cs =>
          simp only [hl, hc, Except.ok.injEq] at h
          exact ⟨tbl, cs, rfl, rfl, h.symm, rfl, rfl⟩

/-- node `i` of the expressed network: the copy of genome node `i` with the links of the enabled genes -/
theorem genesis_node {g : Genome W} {tbl : List (NNodeS W)}
    (hl : linkGenes g.nodes g.genes (g.nodes.map copyNode) = .ok tbl) (i : Nat) :
    tbl[i]? = (g.nodes[i]?).map fun n =>
      { id := n.id, kind := n.kind, act := n.act, incoming := into g.nodes g.genes i, outgoing := outOf g.nodes g.genes i } := by
  rw [linkGenes_spec _ _ _ _ hl i, List.getElem?_map]
  cases g.nodes[i]? with
  | none => rfl
  | some n => simp [withLinks, copyNode]

theorem genesis_triples {g : Genome W} {tbl : List (NNodeS W)}
    (hl : linkGenes g.nodes g.genes (g.nodes.map copyNode) = .ok tbl) :
    nodeTriples tbl = g.nodes.map fun n => (n.id, n.kind, n.act) := by
  apply List.ext_getElem?
  intro i
  unfold nodeTriples
  rw [List.getElem?_map, List.getElem?_map, genesis_node hl i]
  cases g.nodes[i]? <;> rfl

section
variable [DecidableEq W]

/-- `Genesis` of a well-formed genome yields a network that expresses it (`Spec.expresses`) -/
theorem genesis_expressed {g : Genome W} {netId : Int} {net : Net W} (hok : Ok g) (h : genesis g netId = .ok net) :
    Expressed g netId net := by
  obtain ⟨tbl, cs, hl, hc, rfl, _, _⟩ := genesis_ok h
  have htr := genesis_triples hl
  have hlen : tbl.length = g.nodes.length := by
    have := congrArg List.length htr
    simpa [nodeTriples] using this
  have hnd : (g.nodes.map (·.id)).Nodup := hok.nodupNodes
  -- indices resolve back to ids
  have hres : Resolves g.nodes
      ({ id := netId, nodes := tbl, inputs := positions (fun n => n.kind == Kind.input || n.kind == Kind.bias) g.nodes 0,
         outputs := positions (fun n => n.kind == Kind.output) g.nodes 0, ctrl := cs } : Net W) := by
    intro a k hk
    have hid := idxOf_some hk
    have hklt : k < tbl.length := by
      rw [hlen]
      cases hg : g.nodes[k]? with
      | none => simp [hg] at hid
      | some n => exact (List.getElem?_eq_some_iff.mp hg).1
    unfold idAt allMIMO
    simp only
    rw [List.getElem?_append_left hklt, genesis_node hl k]
    cases hg : g.nodes[k]? with
    | none => simp [hg] at hid
    | some n => simpa [hg] using hid
  have hpos : ∀ j c, cs[j]? = some c →
      idAt ({ id := netId, nodes := tbl, inputs := positions (fun n => n.kind == Kind.input || n.kind == Kind.bias) g.nodes 0,
              outputs := positions (fun n => n.kind == Kind.output) g.nodes 0, ctrl := cs } : Net W)
        (g.nodes.length + j) = some c.id := by
    intro j c hj
    unfold idAt allMIMO
    simp only
    rw [← hlen, List.getElem?_append_right (Nat.le_add_right _ _), Nat.add_sub_cancel_left, hj]
    rfl
  obtain ⟨hct, hcl⟩ := ctrlNodes_spec g.nodes g.modules g.nodes.length cs hc
  refine ⟨rfl, htr, rfl, rfl, ?_, hct, hcl _ hres hpos⟩
  intro nd hndm
  obtain ⟨i, hilt, hi⟩ := List.getElem_of_mem hndm
  have hi' : tbl[i]? = some nd := by rw [List.getElem?_eq_getElem hilt, hi]
  rw [genesis_node hl i] at hi'
  cases hg : g.nodes[i]? with
  | none => simp [hg] at hi'
  | some n =>
    simp only [hg, Option.map_some, Option.some.injEq] at hi'
    subst hi'
    have hia : (g.nodes[i]?).map (·.id) = some n.id := by simp [hg]
    have hgenes : ∀ x ∈ g.genes, x.src ∈ g.nodes.map (·.id) ∧ x.dst ∈ g.nodes.map (·.id) := hok.genes
    exact ⟨into_map hres hnd hia g.genes hgenes, outOf_map hres hnd hia g.genes hgenes⟩

end

/-! ### disabled genes contribute nothing; counts -/

theorem linkGenes_filter (nodes : List Node) (genes : List (Gene W)) :
    ∀ tbl, linkGenes nodes (genes.filter (·.en)) tbl = linkGenes nodes genes tbl := by
  induction genes with
  | nil => intro tbl; rfl
  | cons x gs ih =>
    intro tbl
    cases hen : x.en with
    | false => simp [List.filter_cons, hen, linkGenes, ih]
    | true =>
      simp only [List.filter_cons, hen, ↓reduceIte, linkGenes, Bool.not_true, Bool.false_eq_true]
      cases geneLink nodes x with
      | none => rfl
      | some l => exact ih _

theorem sum_incoming_addLink (tbl : List (NNodeS W)) (l : NLink W) (h : l.dst < tbl.length) :
    ((addLink tbl l).map fun nd => nd.incoming.length).sum = (tbl.map fun nd => nd.incoming.length).sum + 1 := by
  unfold addLink
  have h2 : ∀ (t : List (NNodeS W)) (k : Nat),
      ((t.modify k fun nd => { nd with outgoing := nd.outgoing ++ [l] }).map fun nd => nd.incoming.length) =
        t.map fun nd => nd.incoming.length := by
    intro t k
    apply List.ext_getElem?
    intro i
    rw [List.getElem?_map, List.getElem?_map, List.getElem?_modify]
    cases t[i]? with
    | none => rfl
    | some nd => by_cases hk : k = i <;> simp [hk]
  rw [h2]
  -- modifying position `l.dst` adds one
  have h1 : ∀ (t : List (NNodeS W)) (k : Nat), k < t.length →
      ((t.modify k fun nd => { nd with incoming := nd.incoming ++ [l] }).map fun nd => nd.incoming.length).sum =
        (t.map fun nd => nd.incoming.length).sum + 1 := by
    intro t
    induction t with
    | nil => intro k hk; simp at hk
    | cons a t ih =>
      intro k hk
      cases k with
      | zero => simp [List.modify]; omega
      | succ k =>
        have := ih k (by simpa using hk)
        simp only [List.modify_succ_cons, List.map_cons, List.sum_cons, this]
        omega
  exact h1 tbl l.dst h

theorem length_addLink (tbl : List (NNodeS W)) (l : NLink W) : (addLink tbl l).length = tbl.length := by
  unfold addLink; simp

theorem geneLink_lt {nodes : List Node} {x : Gene W} {l : NLink W} (h : geneLink nodes x = some l) :
    l.src < nodes.length ∧ l.dst < nodes.length := by
  obtain ⟨h1, h2, _, _⟩ := geneLink_some h
  have a := idxOf_some h1
  have b := idxOf_some h2
  constructor
  · cases hg : nodes[l.src]? with
    | none => simp [hg] at a
    | some n => exact (List.getElem?_eq_some_iff.mp hg).1
  · cases hg : nodes[l.dst]? with
    | none => simp [hg] at b
    | some n => exact (List.getElem?_eq_some_iff.mp hg).1

/-- every enabled gene adds exactly one incoming link -/
theorem linkGenes_sum (nodes : List Node) (genes : List (Gene W)) :
    ∀ (tbl tbl' : List (NNodeS W)), tbl.length = nodes.length → linkGenes nodes genes tbl = .ok tbl' →
      tbl'.length = nodes.length ∧
      (tbl'.map fun nd => nd.incoming.length).sum = (tbl.map fun nd => nd.incoming.length).sum + (genes.filter (·.en)).length := by
  induction genes with
  | nil => intro tbl tbl' hlen h; simp only [linkGenes, Except.ok.injEq] at h; subst h; simp [hlen]
  | cons x gs ih =>
    intro tbl tbl' hlen h
    unfold linkGenes at h
    cases hen : x.en with
    | false =>
      simp only [hen, Bool.not_false, ↓reduceIte] at h
      simpa [List.filter_cons, hen] using ih tbl tbl' hlen h
    | true =>
      simp only [hen, Bool.not_true, Bool.false_eq_true, ↓reduceIte] at h
      cases hl : geneLink nodes x with
      | none => simp [hl] at h
      | some l =>
        simp only [hl] at h
        have hlt := (geneLink_lt hl).2
        obtain ⟨h1, h2⟩ := ih (addLink tbl l) tbl' (by rw [length_addLink, hlen]) h
        refine ⟨h1, ?_⟩
        rw [h2, sum_incoming_addLink tbl l (by omega)]
        simp [List.filter_cons, hen]
        omega

theorem wireLinks_length {nodes : List Node} {c : Nat} {inc : Bool} (ws : List (Wire W)) :
    ∀ ls, wireLinks nodes c inc ws = .ok ls → ls.length = ws.length := by
  induction ws with
  | nil => intro ls h; simp only [wireLinks, Except.ok.injEq] at h; subst h; rfl
  | cons w ws ih =>
    intro ls h
    unfold wireLinks at h
    cases hk : idxOf nodes w.node with
    | none => simp [hk] at h
    | some k =>
      cases hrec : wireLinks nodes c inc ws with
      | error e => simp [hk, hrec] at h
      | ok ls' =>
        simp only [hk, hrec, Except.ok.injEq] at h
        subst h
        simp [ih ls' hrec]

theorem ctrlNodes_sum (nodes : List Node) (mods : List (Module W)) :
    ∀ (next : Nat) (cs : List (NNodeS W)), ctrlNodes nodes mods next = .ok cs →
      cs.length = (mods.filter (·.en)).length ∧
      (cs.map fun cn => cn.incoming.length + cn.outgoing.length).sum =
        ((mods.filter (·.en)).map fun m => m.ins.length + m.outs.length).sum := by
  induction mods with
  | nil => intro next cs h; simp only [ctrlNodes, Except.ok.injEq] at h; subst h; simp
  | cons m ms ih =>
    intro next cs h
    unfold ctrlNodes at h
    cases hen : m.en with
    | false =>
      simp only [hen, Bool.not_false, ↓reduceIte] at h
      simpa [List.filter_cons, hen] using ih next cs h
    | true =>
      simp only [hen, Bool.not_true, Bool.false_eq_true, ↓reduceIte] at h
      cases hin : wireLinks nodes next true m.ins with
      | error e => simp [hin] at h
      | ok ins =>
        cases hout : wireLinks nodes next false m.outs with
        | error e => simp [hin, hout] at h
        | ok outs =>
          cases hrec : ctrlNodes nodes ms (next + 1) with
          | error e => simp [hin, hout, hrec] at h
          | ok cs' =>
            simp only [hin, hout, hrec, Except.ok.injEq] at h
            subst h
            obtain ⟨h1, h2⟩ := ih (next + 1) cs' hrec
            simp [List.filter_cons, hen, h1, h2, wireLinks_length _ _ hin, wireLinks_length _ _ hout]

/-- `NodeCount`, `LinkCount`, `Complexity` of an expressed network: for EVERY genome `Genesis` accepts -/
theorem genesis_counts' {g : Genome W} {netId : Int} {net : Net W} (h : genesis g netId = .ok net) :
    nodeCount net = g.nodes.length + (g.modules.filter (·.en)).length ∧
    linkCount net = (g.genes.filter (·.en)).length +
      ((g.modules.filter (·.en)).map fun m => m.ins.length + m.outs.length).sum := by
  obtain ⟨tbl, cs, hl, hc, rfl, _, _⟩ := genesis_ok h
  obtain ⟨h1, h2⟩ := linkGenes_sum g.nodes g.genes _ tbl (by simp) hl
  obtain ⟨h3, h4⟩ := ctrlNodes_sum g.nodes g.modules _ cs hc
  unfold nodeCount linkCount
  simp only [h1, h3, h2, h4]
  have : ((g.nodes.map (copyNode (W := W))).map fun nd => nd.incoming.length).sum = 0 := by
    induction g.nodes with
    | nil => rfl
    | cons a l ih => simpa [copyNode] using ih
  rw [this]
  simp

theorem filter_insertAt_length {α} (p : α → Bool) (l : List α) (i : Nat) (a : α) (ha : p a = true) :
    ((insertAt l i a).filter p).length = (l.filter p).length + 1 := by
  unfold insertAt
  rw [List.filter_append, List.filter_cons, if_pos ha, List.length_append, List.length_cons]
  have : (l.filter p).length = ((l.take i).filter p).length + ((l.drop i).filter p).length := by
    rw [← List.length_append, ← List.filter_append, List.take_append_drop]
  omega

/-! ### a well-formed genome with genes and an output is always expressed -/

theorem linkGenes_total {nodes : List Node} (genes : List (Gene W))
    (hg : ∀ x ∈ genes, x.src ∈ nodes.map (·.id) ∧ x.dst ∈ nodes.map (·.id)) :
    ∀ tbl, ∃ tbl', linkGenes nodes genes tbl = .ok tbl' := by
  induction genes with
  | nil => intro tbl; exact ⟨tbl, rfl⟩
  | cons x gs ih =>
    intro tbl
    have ih' := ih (fun y hy => hg y (by simp [hy]))
    unfold linkGenes
    cases hen : x.en with
    | false => simpa using ih' tbl
    | true =>
      obtain ⟨l, hl⟩ := geneLink_of_mem (hg x (by simp)).1 (hg x (by simp)).2
      simpa [hl] using ih' (addLink tbl l)

theorem wireLinks_total {nodes : List Node} (c : Nat) (inc : Bool) (ws : List (Wire W))
    (hw : ∀ w ∈ ws, w.node ∈ nodes.map (·.id)) : ∃ ls, wireLinks nodes c inc ws = .ok ls := by
  induction ws with
  | nil => exact ⟨[], rfl⟩
  | cons w ws ih =>
    obtain ⟨ls, hls⟩ := ih (fun y hy => hw y (by simp [hy]))
    obtain ⟨k, hk⟩ := idxOf_of_mem (hw w (by simp))
    unfold wireLinks
    simp [hk, hls]

theorem ctrlNodes_total {nodes : List Node} (mods : List (Module W))
    (hm : ∀ m ∈ mods, (∀ w ∈ m.ins, w.node ∈ nodes.map (·.id)) ∧ (∀ w ∈ m.outs, w.node ∈ nodes.map (·.id))) :
    ∀ next, ∃ cs, ctrlNodes nodes mods next = .ok cs := by
  induction mods with
  | nil => intro next; exact ⟨[], rfl⟩
  | cons m ms ih =>
    intro next
    have ih' := ih (fun y hy => hm y (by simp [hy]))
    unfold ctrlNodes
    cases hen : m.en with
    | false => simpa using ih' next
    | true =>
      obtain ⟨ins, hin⟩ := wireLinks_total next true m.ins (hm m (by simp)).1
      obtain ⟨outs, hout⟩ := wireLinks_total next false m.outs (hm m (by simp)).2
      obtain ⟨cs, hcs⟩ := ih' (next + 1)
      simp [hin, hout, hcs]

theorem genesis_total {g : Genome W} (hok : Ok g) (netId : Int) (hg : g.genes.isEmpty = false)
    (ho : g.nodes.any (fun n => n.kind == Kind.output) = true) : ∃ net, genesis g netId = .ok net := by
  obtain ⟨tbl, hl⟩ := linkGenes_total g.genes hok.genes (g.nodes.map copyNode)
  obtain ⟨cs, hc⟩ := ctrlNodes_total g.modules hok.wires g.nodes.length
  have hpos : (positions (fun n => n.kind == Kind.output) g.nodes 0).isEmpty = false := by
    have key : ∀ (l : List Node) (k : Nat), l.any (fun n => n.kind == Kind.output) = true →
        (positions (fun n => n.kind == Kind.output) l k).isEmpty = false := by
      intro l
      induction l with
      | nil => intro k h; simp at h
      | cons a l ih =>
        intro k h
        unfold positions
        cases ha : (a.kind == Kind.output) with
        | true => simp
        | false =>
          simp only [Bool.false_eq_true, ↓reduceIte]
          apply ih
          simpa [ha] using h
    exact key g.nodes 0 ho
  unfold genesis
  simp [hg, hpos, hl, hc]

end GoNeat.Genesis
