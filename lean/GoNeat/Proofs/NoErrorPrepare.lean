/-
  C02 "without error": `speciate`, `adjustAll`, `deltaCoding`, `giveBabiesToTheBest` and the whole
  `prepareForReproduction` never return an implementation error, given non-empty species, unique species ids, at
  least one organism, and the C09 quota facts (raw quotas non-negative, raw total at most the population size).
  Kind A.
-/
import GoNeat.Proofs.NoErrorRepro
import GoNeat.Props.C09Prepare
import GoNeat.Props.C09ParentsEpoch

set_option linter.unusedSectionVars false

namespace GoNeat.NoErr
open GoNeat Scalar GoNeat.C02 GoNeat.C09
variable {W : Type} [Scalar W]

/-! ### speciate -/

theorem safe_speciateOne (o : EpochOpts W) (p : Pop W) (org : Org W) (hct : eq o.compatThreshold zero = false) :
    SafeE (fun _ => True) (speciateOne o p org) := by
  unfold speciateOne
  simp only
  split
  · trivial
  · rw [if_neg (by simp [hct])]
    split <;> trivial

theorem safe_speciateLoop (o : EpochOpts W) (p : Pop W) (orgs : List (Org W)) (hct : eq o.compatThreshold zero = false) :
    SafeE (fun _ => True) (speciateLoop o p orgs) := by
  induction orgs generalizing p with
  | nil => unfold speciateLoop; trivial
  | cons x xs ih =>
    unfold speciateLoop
    have h1 := safe_speciateOne o p x hct
    split
    · next e he => rw [he] at h1; exact h1.of_errorE
    · exact ih _

/-- **speciation never fails** for a non-empty batch and a non-zero compatibility threshold -/
theorem safe_speciate (o : EpochOpts W) (p : Pop W) (orgs : List (Org W)) (hne : orgs ≠ [])
    (hct : eq o.compatThreshold zero = false) : SafeE (fun _ => True) (speciate o p orgs) := by
  unfold speciate
  rw [if_neg (by simpa using hne)]
  exact safe_speciateLoop o p orgs hct

/-! ### non-emptiness read off the keys -/

theorem orgs_ne_of_key {a b : Species W} (h : ukey a = ukey b) (hb : b.orgs ≠ []) : a.orgs ≠ [] := by
  have hl : a.orgs.length = b.orgs.length := by simpa [ukey] using congrArg (fun k => k.2.length) h
  intro e; apply hb; apply List.length_eq_zero_iff.mp; rw [← hl, e]; rfl

theorem ne_of_keys_sub {a b : List (Species W)} (h : ∀ k ∈ a.map ukey, k ∈ b.map ukey) (hb : ∀ s ∈ b, s.orgs ≠ []) :
    ∀ s ∈ a, s.orgs ≠ [] := by
  intro s hs
  obtain ⟨s', hs', e⟩ := List.mem_map.mp (h _ (List.mem_map_of_mem hs))
  exact orgs_ne_of_key e.symm (hb s' hs')

theorem ne_of_keys {a b : List (Species W)} (h : a.map ukey = b.map ukey) (hb : ∀ s ∈ b, s.orgs ≠ []) :
    ∀ s ∈ a, s.orgs ≠ [] := ne_of_keys_sub (by rw [h]; exact fun _ hk => hk) hb

theorem list_ne_of_map_eq {α β} {f : α → β} {a b : List α} (h : a.map f = b.map f) (hb : b ≠ []) : a ≠ [] := by
  intro e; rw [e] at h; cases b with
  | nil => exact hb rfl
  | cons x xs => simp at h

/-! ### adjustFitness -/

theorem safe_adjustFitness (o : EpochOpts W) (s : Species W) (h : s.orgs ≠ []) :
    SafeE (fun s' => s'.orgs ≠ []) (adjustFitness o s) := by
  unfold adjustFitness
  simp only
  split
  · next heq =>
    exfalso
    have hp := (goSort_perm (fun a b => orgLess b a)
      (s.orgs.map (adjustOrg (if s.age - s.ageOfLastImprovement + 1 - o.dropOffAge = 0 then 1 else
        s.age - s.ageOfLastImprovement + 1 - o.dropOffAge) s.age o s.orgs.length))).length_eq
    unfold sortOrgsDesc at heq
    rw [heq] at hp
    simp only [List.length_nil, List.length_map] at hp
    exact h (List.length_eq_zero_iff.mp hp.symm)
  · next top rest heq =>
    show markOrgs _ _ 0 ≠ []
    intro e
    have := congrArg List.length e
    rw [markOrgs_length, heq] at this
    simp at this

theorem safe_adjustAll (o : EpochOpts W) (ss : List (Species W)) (h : ∀ s ∈ ss, s.orgs ≠ []) :
    SafeE (fun ss' => ∀ s' ∈ ss', s'.orgs ≠ []) (adjustAll o ss) := by
  induction ss with
  | nil => unfold adjustAll; intro s hs; cases hs
  | cons s t ih =>
    unfold adjustAll
    have h1 := safe_adjustFitness o s (h s (by simp))
    split
    · next e he => rw [he] at h1; exact h1.of_errorE
    · next s' he =>
      rw [he] at h1
      have h2 := ih (fun x hx => h x (List.mem_cons_of_mem _ hx))
      split
      · next e he2 => rw [he2] at h2; exact h2.of_errorE
      · next t' he2 =>
        rw [he2] at h2
        intro x hx
        rcases List.mem_cons.mp hx with rfl | hx'
        · exact h1
        · exact (h2 : ∀ s' ∈ t', s'.orgs ≠ []) x hx'

/-! ### delta coding and stolen babies -/

theorem safe_deltaCoding (sorted : List (Species W)) (o : EpochOpts W) (hl : sorted ≠ []) (h : ∀ s ∈ sorted, s.orgs ≠ []) :
    SafeE (fun _ => True) (deltaCoding sorted o) := by
  unfold deltaCoding
  simp only
  split
  · exact absurd rfl hl
  · next s => rw [if_neg (by simpa using h s (by simp))]; trivial
  · next s1 s2 rest =>
    rw [if_neg (by
      have a := h s1 (by simp); have b := h s2 (by simp)
      simp [a, b])]
    trivial

theorem safe_giveLoop (o : EpochOpts W) (blocks : List Int) (l : List (Species W)) (bi : Nat) (stolen : Int) (rs : List Nat) :
    Safe (fun _ => True) (giveLoop o blocks l bi stolen rs) := by
  induction l generalizing bi stolen rs with
  | nil => unfold giveLoop; trivial
  | cons s ss ih =>
    unfold giveLoop
    split
    · have := ih bi stolen rs
      split
      · next e he => rw [he] at this; exact this.of_error
      · trivial
    · simp only
      split
      · next e he =>
        split at he
        · cases he
        · split at he
          · have hf := safe_float64 (W := W) rs
            split at he
            · next e' he' => cases he; rw [he'] at hf; exact hf.of_error
            · split at he
              · split at he <;> cases he
              · cases he
          · cases he
      · next s' st rs1 he =>
        split
        · trivial
        · have := ih (bi + 1) st rs1
          split
          · next e he2 => rw [he2] at this; exact this.of_error
          · trivial

theorem safe_giveBabies (sorted : List (Species W)) (o : EpochOpts W) (rs : List Nat) (hl : sorted ≠ [])
    (h : ∀ s ∈ sorted, s.orgs ≠ []) : Safe (fun _ => True) (giveBabiesToTheBest sorted o rs) := by
  unfold giveBabiesToTheBest
  have hk := stealLoop_keys o.babiesStolen sorted.reverse 0
  generalize stealLoop o.babiesStolen sorted.reverse 0 = r at hk
  obtain ⟨revAfter, stolen⟩ := r
  simp only at hk ⊢
  have hg := safe_giveLoop o [o.babiesStolen / 5, o.babiesStolen / 5, o.babiesStolen / 10] revAfter.reverse 0 stolen rs
  split
  · next e he => rw [he] at hg; exact hg.of_error
  · next l left rs' he =>
    have hk2 := giveLoop_keys o _ _ l 0 stolen left rs rs' he
    have hkeys : l.map ukey = sorted.map ukey := by
      rw [hk2, List.map_reverse, hk, List.map_reverse, List.reverse_reverse]
    split
    · split
      · next hnil => exact absurd (list_ne_of_map_eq hkeys hl) (by simp)
      · next s ss =>
        rw [if_neg (by simpa using ne_of_keys hkeys h s (by simp))]
        trivial
    · trivial

theorem safe_redistribute (sorted1 : List (Species W)) (o : EpochOpts W) (e : Int) (rs : List Nat) (hl : sorted1 ≠ [])
    (h : ∀ s ∈ sorted1, s.orgs ≠ []) :
    Safe (fun _ => True)
      (if e ≥ o.dropOffAge + 5 then
          match deltaCoding sorted1 o with
          | .error er => .error er
          | .ok l => .ok ((l, 0), rs)
        else if o.babiesStolen > 0 then
          match giveBabiesToTheBest sorted1 o rs with
          | .error er => .error er
          | .ok (l, rs') => .ok ((l, e), rs')
        else .ok ((sorted1, e), rs) : R (List (Species W) × Int)) := by
  split
  · have := safe_deltaCoding sorted1 o hl h
    split
    · next er he => rw [he] at this; exact this.of_error
    · trivial
  · split
    · have := safe_giveBabies sorted1 o rs hl h
      split
      · next er he => rw [he] at this; exact this.of_error
      · trivial
    · trivial

/-! ### the zero-quota purge leaves a species -/

theorem purgeZero_nonempty (p' : Pop W) (hsp : p'.species ≠ [])
    (hnn : ∀ s ∈ (rawAssign p').1, 0 ≤ s.expectedOffspring)
    (hle : (rawAssign p').2 ≤ (p'.organisms.length : Int)) (hn : 1 ≤ p'.organisms.length) :
    (purgeZeroOffspringSpecies p').species ≠ [] := by
  have hne1 : (rawAssign p').1 ≠ [] := by
    unfold rawAssign
    simp only
    exact list_ne_of_map_eq (assignQuotas_keys _ _ _) (by simpa using hsp)
  have htot := rawAssign_total p'
  have ht := (fixupQuotas_total (rawAssign p').1 (p'.organisms.length : Int) hne1 hnn).1 (by rw [← htot]; exact hle)
  have hfn := fixupQuotas_nonneg (rawAssign p').1 (quotaSum (rawAssign p').1) (p'.organisms.length : Int) (by omega) hnn
  have hf := quotaSum_filter_pos _ hfn
  intro hnil
  rw [purgeZero_eq, htot] at hnil
  rw [hnil, ht] at hf
  simp only [quotaSum, List.map_nil, List.sum_nil] at hf
  omega

/-- the C09 facts about the rounded quota computation that the turnover relies on (raw quotas non-negative, raw total
    at most the population size); computed from the options and the population, hence decidable -/
def QuotaOk (o : EpochOpts W) (p : Pop W) : Prop :=
  ∀ species1, adjustAll o p.species = .ok species1 →
    (∀ s ∈ (rawAssign ({ p with species := species1 } : Pop W)).1, 0 ≤ s.expectedOffspring) ∧
    (rawAssign ({ p with species := species1 } : Pop W)).2 ≤ (o.popSize : Int)

instance (o : EpochOpts W) (p : Pop W) : Decidable (QuotaOk o p) :=
  match h : adjustAll o p.species with
  | .error e => isTrue (fun s hs => by rw [h] at hs; cases hs)
  | .ok species1 =>
    if h2 : (∀ s ∈ (rawAssign ({ p with species := species1 } : Pop W)).1, 0 ≤ s.expectedOffspring) ∧
        (rawAssign ({ p with species := species1 } : Pop W)).2 ≤ (o.popSize : Int) then
      isTrue (fun s hs => by rw [h] at hs; cases hs; exact h2)
    else isFalse (fun hq => h2 (hq species1 h))

theorem writeBack_has_id (species updated : List (Species W)) (b : Species W) (hb : b ∈ species) :
    ∃ s' ∈ writeBack species updated, s'.id = b.id := by
  unfold writeBack
  refine ⟨_, List.mem_map_of_mem hb, ?_⟩
  cases hf : updated.find? (fun x => x.id == b.id) with
  | none => rfl
  | some x => simpa using List.find?_some hf

theorem purgeOrganisms_has_id (p : Pop W) (i : Int) (h : ∃ s ∈ p.species, s.id = i) :
    ∃ s ∈ (purgeOrganisms p).species, s.id = i := by
  obtain ⟨s, hs, e⟩ := h
  unfold purgeOrganisms
  simp only
  exact ⟨_, List.mem_map_of_mem hs, e⟩

/-- **the preparation phase never fails**, and the species order it hands to the reproduction phase is not empty -/
theorem safe_prepare (o : EpochOpts W) (p : Pop W) (rs : List Nat) (hne : ∀ s ∈ p.species, s.orgs ≠ []) (hsp : p.species ≠ [])
    (hsize : p.organisms.length = o.popSize) (hpop : 1 ≤ o.popSize) (hq : QuotaOk o p) :
    Safe (fun r => (r.2.sortedIds.filterMap (fun i => r.1.species.find? (·.id == i))) ≠ [])
      (prepareForReproduction o p rs) := by
  unfold prepareForReproduction
  have ha := safe_adjustAll o p.species hne
  split
  · next e he => rw [he] at ha; exact ha.of_error
  · next species1 hadj =>
    rw [hadj] at ha
    have hne1 : ∀ s' ∈ species1, s'.orgs ≠ [] := ha
    obtain ⟨hnn, hle⟩ := hq species1 hadj
    have hsp1 : species1 ≠ [] := list_ne_of_map_eq (adjustAll_keys o _ _ hadj) hsp
    have hpzne := purgeZero_nonempty ({ p with species := species1 } : Pop W) hsp1 hnn
      (by show _ ≤ (p.organisms.length : Int); rw [hsize]; exact hle) (by show 1 ≤ p.organisms.length; omega)
    have hpzo : ∀ s ∈ (purgeZeroOffspringSpecies ({ p with species := species1 } : Pop W)).species, s.orgs ≠ [] :=
      ne_of_keys_sub (purgeZero_keys ({ p with species := species1 } : Pop W)).1.subset hne1
    simp only
    generalize purgeZeroOffspringSpecies ({ p with species := species1 } : Pop W) = pz at hpzne hpzo
    have hperm := goSort_perm (fun a b => speciesLess b a) pz.species
    split
    · next hnil =>
      exfalso
      unfold sortSpeciesDesc at hnil
      rw [hnil] at hperm
      exact hpzne (List.length_eq_zero_iff.mp (by simpa using hperm.length_eq.symm))
    · next best tail hsorted =>
      have hsorted' : sortSpeciesDesc pz.species = best :: tail := hsorted
      unfold sortSpeciesDesc at hsorted
      have hmem : ∀ s ∈ best :: tail, s ∈ pz.species := by
        intro s hs; rw [← hsorted] at hs; exact (GoNeat.goSort_mem _ _ _).mp hs
      have hbo := hpzo best (hmem best (by simp))
      split
      · next hn => cases hso : best.orgs with
        | nil => exact absurd hso hbo
        | cons a l => rw [hso] at hn; cases hn
      · next top htop =>
        have hs1 : ∀ s ∈ setTopOrg best (fun t => { t with isPopChampion := true }) :: (sortSpeciesDesc pz.species).tail, s.orgs ≠ [] := by
          intro s hs
          rw [hsorted'] at hs
          rcases List.mem_cons.mp hs with rfl | hs'
          · exact orgs_ne_of_key (setTopOrg_key _ _ (by intro t; exact ⟨rfl, rfl⟩)) hbo
          · exact hpzo s (hmem s (List.mem_cons_of_mem _ hs'))
        have hred := safe_redistribute (setTopOrg best (fun t => { t with isPopChampion := true }) :: (sortSpeciesDesc pz.species).tail) o
          (if gt top.originalFitness pz.highestFitness then 0 else pz.epochsHighestLastChanged + 1) rs (by simp) hs1
        split
        · next e he => exact (hred.cast he).of_error
        · next sorted2 ehlc rs' he =>
          have hk2 := redistribute_keys _ _ _ _ _ _ _ he
          show List.filterMap _ (sorted2.map (·.id)) ≠ []
          cases sorted2 with
          | nil => simp at hk2
          | cons h2 t2 =>
            simp only [List.map_cons, List.cons.injEq] at hk2
            have hid : h2.id = best.id := by
              have := congrArg (fun k => k.1.1) (hk2.1.trans (setTopOrg_key _ _ (by intro t; exact ⟨rfl, rfl⟩)))
              simpa [ukey, skey] using this
            intro hnil
            have hnone := (List.filterMap_eq_nil_iff.mp hnil) h2.id (by simp)
            obtain ⟨s', hs', hs'id⟩ := writeBack_has_id pz.species (h2 :: t2) best (hmem best (by simp))
            have hsome : (List.find? (fun x => x.id == h2.id) (purgeOrganisms
                { pz with highestFitness := if gt top.originalFitness pz.highestFitness then top.originalFitness else pz.highestFitness,
                          species := writeBack pz.species (h2 :: t2), epochsHighestLastChanged := ehlc }).species).isSome := by
              rw [List.find?_isSome]
              obtain ⟨x, hx, hxid⟩ := purgeOrganisms_has_id
                { pz with highestFitness := if gt top.originalFitness pz.highestFitness then top.originalFitness else pz.highestFitness,
                          species := writeBack pz.species (h2 :: t2), epochsHighestLastChanged := ehlc } best.id ⟨s', hs', hs'id⟩
              exact ⟨x, hx, by simp [hxid, hid]⟩
            have hnone' : List.find? (fun (x : Species W) => x.id == h2.id) _ = none := hnone
            rw [hnone'] at hsome
            cases hsome

end GoNeat.NoErr
