/-
  Helper lemmas for property C03 (Props/C03.lean): the invariant `InvB` over bindings is a property of the *set*
  of bindings; the resolve steps `resolveLink` / `resolveNode` preserve it; membership lemmas for the ordered
  insertions.  Core Lean only.
-/
import GoNeat.Spec.Registry

namespace GoNeat.C03
open GoNeat
variable {W : Type}

/-! ### lists -/

theorem flatMap_nodup_inj {α β : Type} (f : α → List β) (l : List α) (h : (l.flatMap f).Nodup)
    {i j : α} (hi : i ∈ l) (hj : j ∈ l) {k : β} (ki : k ∈ f i) (kj : k ∈ f j) : i = j := by
  induction l with
  | nil => cases hi
  | cons a t ih =>
    rw [List.flatMap_cons, List.nodup_append] at h
    obtain ⟨_, ht, hd⟩ := h
    rcases List.mem_cons.mp hi with rfl | hi' <;> rcases List.mem_cons.mp hj with rfl | hj'
    · rfl
    · exact absurd rfl (hd k ki k (List.mem_flatMap.mpr ⟨j, hj', kj⟩))
    · exact absurd rfl (hd k kj k (List.mem_flatMap.mpr ⟨i, hi', ki⟩))
    · exact ih ht hi' hj'

theorem mem_insertAt {α} (l : List α) (i : Nat) (a x : α) : x ∈ insertAt l i a ↔ x = a ∨ x ∈ l := by
  unfold insertAt
  rw [List.mem_append, List.mem_cons]
  constructor
  · rintro (h | h | h)
    · exact .inr (List.mem_of_mem_take h)
    · exact .inl h
    · exact .inr (List.mem_of_mem_drop h)
  · rintro (h | h)
    · exact .inr (.inl h)
    · rw [← List.take_append_drop i l, List.mem_append] at h
      rcases h with h | h
      · exact .inl h
      · exact .inr (.inr h)

theorem mem_geneInsert (l : List (Gene W)) (a x : Gene W) : x ∈ geneInsert l a ↔ x = a ∨ x ∈ l := mem_insertAt _ _ _ _
theorem mem_nodeInsert (l : List Node) (a x : Node) : x ∈ nodeInsert l a ↔ x = a ∨ x ∈ l := mem_insertAt _ _ _ _

theorem mem_setEnabledAt (l : List (Gene W)) (k : Nat) (b : Bool) (x : Gene W) (h : x ∈ setEnabledAt l k b) :
    ∃ y ∈ l, geneBind x = geneBind y := by
  unfold setEnabledAt at h
  induction l generalizing k with
  | nil => simp at h
  | cons a t ih =>
    cases k with
    | zero =>
      simp only [List.modify_zero_cons, List.mem_cons] at h
      rcases h with rfl | h
      · exact ⟨a, List.mem_cons_self, rfl⟩
      · exact ⟨x, List.mem_cons_of_mem _ h, rfl⟩
    | succ k =>
      simp only [List.modify_succ_cons, List.mem_cons] at h
      rcases h with rfl | h
      · exact ⟨x, List.mem_cons_self, rfl⟩
      · obtain ⟨y, hy, e⟩ := ih k h
        exact ⟨y, List.mem_cons_of_mem _ hy, e⟩

/-! ### bindings of pools -/

theorem binds_cons (g : Genome W) (gs : List (Genome W)) : binds (g :: gs) = g.genes.map geneBind ++ binds gs := by
  simp [binds]
theorem roles_cons (g : Genome W) (gs : List (Genome W)) : roles (g :: gs) = g.nodes.map nodeRole ++ roles gs := by
  simp [roles]

theorem mem_binds_of_mem {g : Genome W} {gs : List (Genome W)} (hg : g ∈ gs) {x : Gene W} (hx : x ∈ g.genes) :
    geneBind x ∈ binds gs :=
  List.mem_flatMap.mpr ⟨g, hg, List.mem_map_of_mem hx⟩
theorem mem_roles_of_mem {g : Genome W} {gs : List (Genome W)} (hg : g ∈ gs) {n : Node} (hn : n ∈ g.nodes) :
    nodeRole n ∈ roles gs :=
  List.mem_flatMap.mpr ⟨g, hg, List.mem_map_of_mem hn⟩

/-! ### the invariant depends only on the set of bindings -/

theorem RecOk.congr {B B' : List Bind} {R R' : List Role} {i : Innov W} (h : RecOk B R i)
    (hs : B' ⊆ B) (hs' : B ⊆ B') (hr : R' ⊆ R) : RecOk B' R' i := by
  unfold RecOk at h ⊢
  by_cases h2 : i.typ = 2
  · simp only [h2, if_true] at h ⊢
    exact fun b hb e => h b (hs hb) e
  · by_cases h1 : i.typ = 1
    · simp only [h1, if_true] at h ⊢
      obtain ⟨⟨y, hy, e1, e2, e3, hall⟩, hb2, hro⟩ := h
      exact ⟨⟨y, hs' hy, e1, e2, e3, fun b hb e => hall b (hs hb) e⟩, fun b hb e => hb2 b (hs hb) e,
             fun p hp e => hro p (hr hp) e⟩
    · simp only [h2, h1, if_false]

theorem InvB.congr {reg : Reg W} {B B' : List Bind} {R R' : List Role} (h : InvB reg B R)
    (hs : B' ⊆ B) (hs' : B ⊆ B') (hr : R' ⊆ R) : InvB reg B' R' where
  genes := fun a ha b hb e => h.genes a (hs ha) b (hs hb) e
  roles := fun a ha b hb e => h.roles a (hr ha) b (hr hb) e
  compat := ⟨fun i hi => (h.compat.recs i hi).congr hs hs' hr, h.compat.innsNodup, h.compat.nodesNodup⟩
  above := ⟨fun b hb => h.above.inns b (hs hb), fun p hp => h.above.ids p (hr hp), h.above.recInns, h.above.recNodes⟩

/-- adding bindings that the pool already holds changes nothing -/
theorem InvB.add_known {reg : Reg W} {B Bn : List Bind} {R Rn : List Role} (h : InvB reg B R)
    (hb : Bn ⊆ B) (hr : Rn ⊆ R) : InvB reg (Bn ++ B) (Rn ++ R) :=
  h.congr (List.append_subset.mpr ⟨hb, List.Subset.refl _⟩) (List.subset_append_right _ _)
    (List.append_subset.mpr ⟨hr, List.Subset.refl _⟩)

/-! ### registry bookkeeping -/

theorem inn_mem_recInns (i : Innov W) : i.inn ∈ recInns i := by
  unfold recInns; split <;> simp
theorem inn2_mem_recInns (i : Innov W) (h : i.typ = 1) : i.inn2 ∈ recInns i := by
  unfold recInns; simp [h]

theorem mem_regInns {reg : Reg W} {i : Innov W} (hi : i ∈ reg.records) {k : Int} (hk : k ∈ recInns i) : k ∈ regInns reg :=
  List.mem_flatMap.mpr ⟨i, hi, hk⟩
theorem mem_regNodes {reg : Reg W} {i : Innov W} (hi : i ∈ reg.records) (h1 : i.typ = 1) : i.newNode ∈ regNodes reg := by
  unfold regNodes
  exact List.mem_map.mpr ⟨i, List.mem_filter.mpr ⟨hi, by simp [h1]⟩, rfl⟩

theorem rec_inj {reg : Reg W} (hn : (regInns reg).Nodup) {i j : Innov W} (hi : i ∈ reg.records) (hj : j ∈ reg.records)
    {k : Int} (ki : k ∈ recInns i) (kj : k ∈ recInns j) : i = j :=
  flatMap_nodup_inj recInns reg.records hn hi hj ki kj

theorem inn_ne_inn2 {reg : Reg W} (hn : (regInns reg).Nodup) {i : Innov W} (hi : i ∈ reg.records) (h1 : i.typ = 1) :
    i.inn ≠ i.inn2 := by
  have := (List.pairwise_flatMap.mp hn).1 i hi
  unfold recInns at this
  simp only [h1, if_true] at this
  simpa using this

theorem linkMatch_iff (s d : Int) (r : Bool) (i : Innov W) :
    linkMatch s d r i = true ↔ i.typ = 2 ∧ i.inId = s ∧ i.outId = d ∧ i.recur = r := by
  unfold linkMatch; simp [and_assoc]
theorem nodeMatch_iff (s d o : Int) (i : Innov W) :
    nodeMatch s d o i = true ↔ i.typ = 1 ∧ i.inId = s ∧ i.outId = d ∧ i.oldInn = o := by
  unfold nodeMatch; simp [and_assoc]

/-! ### what the store/counter operations do to the derived lists -/

section

@[simp] theorem regInns_counters (l : List (Innov W)) (a b : Int) :
    regInns ({ records := l, nextInn := a, nextNode := b } : Reg W) = l.flatMap recInns := rfl
@[simp] theorem regNodes_counters (l : List (Innov W)) (a b : Int) :
    regNodes ({ records := l, nextInn := a, nextNode := b } : Reg W) = (l.filter (fun i => i.typ == 1)).map (·.newNode) := rfl
theorem regInns_def (reg : Reg W) : regInns reg = reg.records.flatMap recInns := rfl
theorem regNodes_def (reg : Reg W) : regNodes reg = (reg.records.filter (fun i => i.typ == 1)).map (·.newNode) := rfl

theorem regInns_store (reg : Reg W) (i : Innov W) : regInns (reg.store i) = regInns reg ++ recInns i := by
  simp [regInns, Reg.store, List.flatMap_append]
theorem regNodes_store (reg : Reg W) (i : Innov W) :
    regNodes (reg.store i) = regNodes reg ++ (if i.typ = 1 then [i.newNode] else []) := by
  unfold regNodes Reg.store
  by_cases h : i.typ = 1 <;> simp [List.filter_append, h]

/-- a pool binding whose number is none of a record's numbers is irrelevant for that record -/
theorem RecOk.add_foreign {B : List Bind} {R : List Role} {i : Innov W} (h : RecOk B R i) (Bn : List Bind) (Rn : List Role)
    (hb : ∀ b ∈ Bn, b.1 ∉ recInns i) (hr : ∀ p ∈ Rn, p.2 = Kind.hidden) : RecOk (Bn ++ B) (Rn ++ R) i := by
  unfold RecOk at h ⊢
  by_cases h2 : i.typ = 2
  · simp only [h2, if_true] at h ⊢
    intro b hb' e
    rcases List.mem_append.mp hb' with hn | ho
    · exact absurd (e ▸ inn_mem_recInns i) (hb b hn)
    · exact h b ho e
  · by_cases h1 : i.typ = 1
    · simp only [h1, if_true] at h ⊢
      obtain ⟨⟨y, hy, e1, e2, e3, hall⟩, hb2, hro⟩ := h
      refine ⟨⟨y, List.mem_append_right _ hy, e1, e2, e3, ?_⟩, ?_, ?_⟩
      · intro b hb' e
        rcases List.mem_append.mp hb' with hn | ho
        · exact absurd (e ▸ inn_mem_recInns i) (hb b hn)
        · exact hall b ho e
      · intro b hb' e
        rcases List.mem_append.mp hb' with hn | ho
        · exact absurd (e ▸ inn2_mem_recInns i h1) (hb b hn)
        · exact hb2 b ho e
      · intro p hp e
        rcases List.mem_append.mp hp with hn | ho
        · exact hr p hn
        · exact hro p ho e
    · simp only [h2, h1, if_false]

end

/-! ### the resolve steps preserve the invariant -/

section

/-- **resolve, new link.** Whatever number the registry hands out for the request `(s,d,r)` - the recorded one or a
    fresh one - binding it to `(s,d,r)` keeps the invariant. -/
theorem resolveLink_inv {reg reg' : Reg W} {B : List Bind} {R : List Role} (h : InvB reg B R)
    (s d : Int) (r : Bool) (w : W) (tn : Int) (k : Int) (hres : resolveLink reg s d r w tn = (k, reg')) :
    InvB reg' ((k, s, d, r) :: B) R := by
  unfold resolveLink at hres
  split at hres
  · -- a matching record: the recorded number
    rename_i i hf
    obtain ⟨rfl, rfl⟩ := Prod.mk.inj hres
    have hi := List.mem_of_find?_eq_some hf
    obtain ⟨t2, rfl, rfl, rfl⟩ := (linkMatch_iff _ _ _ i).mp (List.find?_some hf)
    have hrec := h.compat.recs i hi
    unfold RecOk at hrec
    simp only [t2, if_true] at hrec
    refine ⟨?_, h.roles, ⟨?_, h.compat.innsNodup, h.compat.nodesNodup⟩, ⟨?_, h.above.ids, h.above.recInns, h.above.recNodes⟩⟩
    · intro a ha b hb e
      rcases List.mem_cons.mp ha with rfl | ha' <;> rcases List.mem_cons.mp hb with rfl | hb'
      · rfl
      · exact (hrec b hb' e.symm).symm
      · exact hrec a ha' e
      · exact h.genes a ha' b hb' e
    · intro j hj
      by_cases hij : j = i
      · subst hij
        unfold RecOk
        simp only [t2, if_true]
        intro b hb e
        rcases List.mem_cons.mp hb with rfl | hb'
        · rfl
        · exact hrec b hb' e
      · have := (h.compat.recs j hj).add_foreign [(i.inn, i.inId, i.outId, i.recur)] []
          (by
            intro b hb hk
            simp only [List.mem_singleton] at hb
            subst hb
            exact hij (rec_inj h.compat.innsNodup hj hi hk (inn_mem_recInns i)))
          (by simp)
        simpa using this
    · intro b hb
      rcases List.mem_cons.mp hb with rfl | hb'
      · exact h.above.recInns _ (mem_regInns hi (inn_mem_recInns i))
      · exact h.above.inns b hb'
  · -- no matching record: a fresh number, recorded
    rename_i hf
    simp only [Reg.nextInnovation] at hres
    obtain ⟨rfl, rfl⟩ := Prod.mk.inj hres
    have hfresh : ∀ b ∈ B, b.1 ≠ reg.nextInn + 1 := fun b hb e => by have := h.above.inns b hb; omega
    refine ⟨?_, h.roles, ⟨?_, ?_, ?_⟩, ⟨?_, ?_, ?_, ?_⟩⟩
    · intro a ha b hb e
      rcases List.mem_cons.mp ha with rfl | ha' <;> rcases List.mem_cons.mp hb with rfl | hb'
      · rfl
      · exact absurd e.symm (hfresh b hb')
      · exact absurd e (hfresh a ha')
      · exact h.genes a ha' b hb' e
    · intro j hj
      simp only [Reg.store, List.mem_append, List.mem_singleton] at hj
      rcases hj with hj | rfl
      · have := (h.compat.recs j hj).add_foreign [(reg.nextInn + 1, s, d, r)] []
          (by
            intro b hb hk
            simp only [List.mem_singleton] at hb
            subst hb
            have := h.above.recInns _ (mem_regInns hj hk)
            simp only at this
            omega)
          (by simp)
        simpa using this
      · unfold RecOk
        simp only [if_true]
        intro b hb e
        rcases List.mem_cons.mp hb with rfl | hb'
        · rfl
        · exact absurd e (hfresh b hb')
    · rw [regInns_store, List.nodup_append]
      refine ⟨h.compat.innsNodup, by simp [recInns], ?_⟩
      intro a ha b hb e
      simp [recInns] at hb
      have := h.above.recInns a ha
      omega
    · rw [regNodes_store]
      simpa [regNodes_def] using h.compat.nodesNodup
    · intro b hb
      simp only [Reg.store]
      rcases List.mem_cons.mp hb with rfl | hb'
      · simp
      · have := h.above.inns b hb'; omega
    · intro p hp; simpa [Reg.store] using h.above.ids p hp
    · intro k hk
      rw [regInns_store, List.mem_append] at hk
      simp only [Reg.store]
      rcases hk with hk | hk
      · have := h.above.recInns k hk; omega
      · simp [recInns] at hk
        omega
    · intro k hk
      rw [regNodes_store] at hk
      simp only [if_neg (show ¬ ((2 : Nat) = 1) by decide), List.append_nil] at hk
      exact h.above.recNodes k hk

variable [Scalar W]

/-- **resolve, split.** Whatever node id and numbers the registry hands out for the request "split gene
    `old : s→d`" (which is in the pool with flag `r`), binding them to `s→n` (flag `r`), `n→d` (non-recurrent) and
    a hidden node `n` keeps the invariant. -/
theorem resolveNode_inv {reg reg' : Reg W} {B : List Bind} {R : List Role} (h : InvB reg B R)
    (s d old : Int) (r : Bool) (hold : (old, s, d, r) ∈ B) (n k1 k2 : Int)
    (hres : resolveNode reg s d old = ((n, k1, k2), reg')) :
    InvB reg' ((k1, s, n, r) :: (k2, n, d, false) :: B) ((n, Kind.hidden) :: R) := by
  unfold resolveNode at hres
  split at hres
  · -- a matching record: the recorded node id and numbers
    rename_i i hf
    obtain ⟨hnums, rfl⟩ := Prod.mk.inj hres
    obtain ⟨rfl, hk⟩ := Prod.mk.inj hnums
    obtain ⟨rfl, rfl⟩ := Prod.mk.inj hk
    have hi := List.mem_of_find?_eq_some hf
    obtain ⟨t1, rfl, rfl, rfl⟩ := (nodeMatch_iff _ _ _ i).mp (List.find?_some hf)
    have hrec := h.compat.recs i hi
    unfold RecOk at hrec
    simp only [t1, if_true] at hrec
    obtain ⟨⟨y, hy, e1, e2, e3, hall⟩, hb2, hro⟩ := hrec
    have hyr : y.2.2.2 = r := by
      have := h.genes y hy _ hold e1
      rw [this]
    rw [hyr] at hall
    have hne := inn_ne_inn2 h.compat.innsNodup hi t1
    refine ⟨?_, ?_, ⟨?_, h.compat.innsNodup, h.compat.nodesNodup⟩, ⟨?_, ?_, h.above.recInns, h.above.recNodes⟩⟩
    · intro a ha b hb e
      simp only [List.mem_cons] at ha hb
      rcases ha with rfl | rfl | ha' <;> rcases hb with rfl | rfl | hb'
      · rfl
      · exact absurd e hne
      · exact (hall b hb' e.symm).symm
      · exact absurd e.symm hne
      · rfl
      · exact (hb2 b hb' e.symm).symm
      · exact hall a ha' e
      · exact hb2 a ha' e
      · exact h.genes a ha' b hb' e
    · intro a ha b hb e
      simp only [List.mem_cons] at ha hb
      rcases ha with rfl | ha' <;> rcases hb with rfl | hb'
      · rfl
      · exact (hro b hb' e.symm).symm
      · exact hro a ha' e
      · exact h.roles a ha' b hb' e
    · intro j hj
      by_cases hij : j = i
      · subst hij
        unfold RecOk
        simp only [t1, if_true]
        refine ⟨⟨y, by simp [hy], e1, e2, e3, ?_⟩, ?_, ?_⟩
        · intro b hb e
          simp only [List.mem_cons] at hb
          rcases hb with rfl | rfl | hb'
          · rw [hyr]
          · exact absurd e.symm hne
          · rw [hyr]; exact hall b hb' e
        · intro b hb e
          simp only [List.mem_cons] at hb
          rcases hb with rfl | rfl | hb'
          · exact absurd e hne
          · rfl
          · exact hb2 b hb' e
        · intro p hp e
          simp only [List.mem_cons] at hp
          rcases hp with rfl | hp'
          · rfl
          · exact hro p hp' e
      · have := (h.compat.recs j hj).add_foreign [(i.inn, i.inId, i.newNode, r), (i.inn2, i.newNode, i.outId, false)]
          [(i.newNode, Kind.hidden)]
          (by
            intro b hb hk
            simp only [List.mem_cons, List.not_mem_nil, or_false] at hb
            rcases hb with rfl | rfl
            · exact hij (rec_inj h.compat.innsNodup hj hi hk (inn_mem_recInns i))
            · exact hij (rec_inj h.compat.innsNodup hj hi hk (inn2_mem_recInns i t1)))
          (by simp)
        simpa using this
    · intro b hb
      simp only [List.mem_cons] at hb
      rcases hb with rfl | rfl | hb'
      · exact h.above.recInns _ (mem_regInns hi (inn_mem_recInns i))
      · exact h.above.recInns _ (mem_regInns hi (inn2_mem_recInns i t1))
      · exact h.above.inns b hb'
    · intro p hp
      simp only [List.mem_cons] at hp
      rcases hp with rfl | hp'
      · exact h.above.recNodes _ (mem_regNodes hi t1)
      · exact h.above.ids p hp'
  · -- no matching record: fresh node id and numbers, recorded
    rename_i hf
    simp only [Reg.nextInnovation, Reg.nextNodeId] at hres
    obtain ⟨hnums, rfl⟩ := Prod.mk.inj hres
    obtain ⟨rfl, hk⟩ := Prod.mk.inj hnums
    obtain ⟨rfl, rfl⟩ := Prod.mk.inj hk
    have hB : ∀ b ∈ B, b.1 ≤ reg.nextInn := h.above.inns
    have hR : ∀ p ∈ R, p.1 ≤ reg.nextNode := h.above.ids
    refine ⟨?_, ?_, ⟨?_, ?_, ?_⟩, ⟨?_, ?_, ?_, ?_⟩⟩
    · intro a ha b hb e
      simp only [List.mem_cons] at ha hb
      rcases ha with rfl | rfl | ha' <;> rcases hb with rfl | rfl | hb'
      · rfl
      · simp only at e; omega
      · have := hB b hb'; simp only at e; omega
      · simp only at e; omega
      · rfl
      · have := hB b hb'; simp only at e; omega
      · have := hB a ha'; simp only at e; omega
      · have := hB a ha'; simp only at e; omega
      · exact h.genes a ha' b hb' e
    · intro a ha b hb e
      simp only [List.mem_cons] at ha hb
      rcases ha with rfl | ha' <;> rcases hb with rfl | hb'
      · rfl
      · have := hR b hb'; simp only at e; omega
      · have := hR a ha'; simp only at e; omega
      · exact h.roles a ha' b hb' e
    · intro j hj
      simp only [Reg.store, List.mem_append, List.mem_singleton] at hj
      rcases hj with hj | rfl
      · have := (h.compat.recs j hj).add_foreign
          [(reg.nextInn + 1, s, reg.nextNode + 1, r), (reg.nextInn + 1 + 1, reg.nextNode + 1, d, false)]
          [(reg.nextNode + 1, Kind.hidden)]
          (by
            intro b hb hk
            have hle := h.above.recInns _ (mem_regInns hj hk)
            simp only [List.mem_cons, List.not_mem_nil, or_false] at hb
            rcases hb with rfl | rfl <;> (simp only at hle; omega))
          (by simp)
        simpa using this
      · unfold RecOk
        simp only [if_true, show ¬ ((1 : Nat) = 2) by decide, if_false]
        refine ⟨⟨(old, s, d, r), by simp [hold], rfl, rfl, rfl, ?_⟩, ?_, ?_⟩
        · intro b hb e
          simp only [List.mem_cons] at hb
          rcases hb with rfl | rfl | hb'
          · rfl
          · simp only at e; omega
          · have := hB b hb'; omega
        · intro b hb e
          simp only [List.mem_cons] at hb
          rcases hb with rfl | rfl | hb'
          · simp only at e; omega
          · rfl
          · have := hB b hb'; omega
        · intro p hp e
          simp only [List.mem_cons] at hp
          rcases hp with rfl | hp'
          · rfl
          · have := hR p hp'; omega
    · rw [regInns_store, List.nodup_append]
      refine ⟨h.compat.innsNodup, by simp [recInns]; omega, ?_⟩
      intro a ha b hb e
      simp [recInns] at hb
      have := h.above.recInns a ha
      omega
    · rw [regNodes_store, List.nodup_append]
      refine ⟨h.compat.nodesNodup, by simp, ?_⟩
      intro a ha b hb e
      simp at hb
      have := h.above.recNodes a ha
      omega
    · intro b hb
      simp only [Reg.store]
      simp only [List.mem_cons] at hb
      rcases hb with rfl | rfl | hb'
      · simp only; omega
      · simp only; omega
      · have := hB b hb'; omega
    · intro p hp
      simp only [Reg.store]
      simp only [List.mem_cons] at hp
      rcases hp with rfl | hp'
      · simp only; omega
      · have := hR p hp'; omega
    · intro k hk
      rw [regInns_store, List.mem_append] at hk
      simp only [Reg.store]
      rcases hk with hk | hk
      · have := h.above.recInns k hk; omega
      · simp [recInns] at hk
        omega
    · intro k hk
      rw [regNodes_store, List.mem_append] at hk
      simp only [Reg.store]
      rcases hk with hk | hk
      · have := h.above.recNodes k hk; omega
      · simp at hk
        omega

end

end GoNeat.C03
