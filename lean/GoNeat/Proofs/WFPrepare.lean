/-
  C01 population-level closure: the phases of an epoch other than reproduction create no genome.
  `prepareForReproduction` (fitness adjustment, sorting, quota bookkeeping, purging) only re-orders, re-labels and
  removes organisms; `finalizeReproduction` removes the old generation and renumbers genome ids.
-/
import GoNeat.Proofs.WFPop
import GoNeat.Model.Epoch
import GoNeat.Proofs.SortLemmas

namespace GoNeat.C01
open GoNeat Scalar
variable {W : Type} [Scalar W]

/-- every genome held by `ss'` is a genome held by `ss` -/
def GenomesSub (ss' ss : List (Species W)) : Prop :=
  ∀ s' ∈ ss', ∀ x ∈ s'.orgs, ∃ s ∈ ss, ∃ y ∈ s.orgs, y.genome = x.genome

omit [Scalar W] in
theorem GenomesSub.refl (ss : List (Species W)) : GenomesSub ss ss := fun s hs x hx => ⟨s, hs, x, hx, rfl⟩
omit [Scalar W] in
theorem GenomesSub.trans {a b c : List (Species W)} (h1 : GenomesSub a b) (h2 : GenomesSub b c) : GenomesSub a c := by
  intro s hs x hx
  obtain ⟨s1, hs1, y, hy, e⟩ := h1 s hs x hx
  obtain ⟨s2, hs2, z, hz, e2⟩ := h2 s1 hs1 y hy
  exact ⟨s2, hs2, z, hz, e2.trans e⟩

omit [Scalar W] in
/-- species-wise: each new species' members carry genomes of one old species -/
theorem GenomesSub.of_map (ss : List (Species W)) (f : Species W → Species W)
    (hf : ∀ s, ∀ x ∈ (f s).orgs, ∃ y ∈ s.orgs, y.genome = x.genome) : GenomesSub (ss.map f) ss := by
  intro s' hs' x hx
  obtain ⟨s, hs, rfl⟩ := List.mem_map.mp hs'
  obtain ⟨y, hy, e⟩ := hf s x hx
  exact ⟨s, hs, y, hy, e⟩

omit [Scalar W] in
theorem GenomesSub.of_sub (ss' ss : List (Species W)) (h : ∀ s ∈ ss', s ∈ ss) : GenomesSub ss' ss :=
  fun s hs x hx => ⟨s, h s hs, x, hx, rfl⟩

/-! ### sorting is a permutation -/

omit [Scalar W] in
theorem go_mem {α} (less : α → α → Bool) (x : α) (revLeft acc : List α) (z : α) :
    z ∈ goInsertionSort.go less x revLeft acc ↔ z = x ∨ z ∈ revLeft ∨ z ∈ acc := by
  induction revLeft generalizing acc with
  | nil => unfold goInsertionSort.go; simp
  | cons y ys ih =>
    unfold goInsertionSort.go
    split
    · rw [ih]; simp only [List.mem_cons]; grind
    · simp only [List.mem_append, List.mem_reverse, List.mem_cons]; grind

omit [Scalar W] in
theorem goInsertionSort_mem {α} (less : α → α → Bool) (l : List α) (z : α) : z ∈ goInsertionSort less l ↔ z ∈ l := by
  unfold goInsertionSort
  have key : ∀ (init : List α), z ∈ l.foldl (fun sorted x => goInsertionSort.go less x sorted.reverse []) init ↔
      z ∈ init ∨ z ∈ l := by
    induction l with
    | nil => intro init; simp
    | cons a t ih =>
      intro init
      rw [List.foldl_cons, ih, go_mem]
      simp only [List.mem_reverse, List.not_mem_nil, or_false, List.mem_cons]
      grind
  rw [key]; simp

/-! ### fitness adjustment -/

omit [Scalar W] in
theorem markOrgs_genomes (np : Int) (l : List (Org W)) (i : Nat) : ∀ x ∈ markOrgs np l i, ∃ y ∈ l, y.genome = x.genome := by
  induction l generalizing i with
  | nil => unfold markOrgs; simp
  | cons a t ih =>
    unfold markOrgs
    intro x hx
    rcases List.mem_cons.mp hx with rfl | h
    · exact ⟨a, by simp, rfl⟩
    · obtain ⟨y, hy, e⟩ := ih _ x h
      exact ⟨y, List.mem_cons_of_mem _ hy, e⟩

theorem adjustFitness_genomes (o : EpochOpts W) (s s' : Species W) (h : adjustFitness o s = .ok s') :
    ∀ x ∈ s'.orgs, ∃ y ∈ s.orgs, y.genome = x.genome := by
  unfold adjustFitness at h
  simp only at h
  split at h
  · cases h
  · rename_i top rest hsort
    cases h
    intro x hx
    obtain ⟨y, hy, e⟩ := markOrgs_genomes _ _ _ x hx
    unfold sortOrgsDesc at hy
    rw [GoNeat.goSort_mem] at hy
    obtain ⟨z, hz, rfl⟩ := List.mem_map.mp hy
    exact ⟨z, hz, by rw [← e]; rfl⟩

theorem adjustAll_genomes (o : EpochOpts W) (ss ss' : List (Species W)) (h : adjustAll o ss = .ok ss') :
    GenomesSub ss' ss := by
  induction ss generalizing ss' with
  | nil => unfold adjustAll at h; cases h; exact GenomesSub.refl _
  | cons s t ih =>
    unfold adjustAll at h
    split at h
    · cases h
    · rename_i s1 hs1
      split at h
      · cases h
      · rename_i t1 ht1
        cases h
        intro s' hs' x hx
        rcases List.mem_cons.mp hs' with rfl | h'
        · obtain ⟨y, hy, e⟩ := adjustFitness_genomes o s _ hs1 x hx
          exact ⟨s, by simp, y, hy, e⟩
        · obtain ⟨s0, hs0, y, hy, e⟩ := ih _ ht1 s' h' x hx
          exact ⟨s0, List.mem_cons_of_mem _ hs0, y, hy, e⟩

/-! ### quota bookkeeping: only `expectedOffspring` and fields of the top organism change -/

/-- the organisms of `s'` carry the genomes of the organisms of `s`, one for one -/
def SameOrgGenomes (s' s : Species W) : Prop := s'.orgs.map (·.genome) = s.orgs.map (·.genome)

omit [Scalar W] in
theorem SameOrgGenomes.sub {s' s : Species W} (h : SameOrgGenomes s' s) : ∀ x ∈ s'.orgs, ∃ y ∈ s.orgs, y.genome = x.genome := by
  intro x hx
  have : x.genome ∈ s.orgs.map (·.genome) := by rw [← h]; exact List.mem_map_of_mem hx
  obtain ⟨y, hy, e⟩ := List.mem_map.mp this
  exact ⟨y, hy, e⟩

omit [Scalar W] in
theorem setTopOrg_same (s : Species W) (f : Org W → Org W) (hf : ∀ o, (f o).genome = o.genome) :
    SameOrgGenomes (setTopOrg s f) s := by
  unfold setTopOrg SameOrgGenomes
  split
  · rfl
  · rename_i heq; simp [heq, hf]

omit [Scalar W] in
theorem SameOrgGenomes.trans' {a b c : Species W} (h1 : SameOrgGenomes a b) (h2 : SameOrgGenomes b c) : SameOrgGenomes a c := by
  unfold SameOrgGenomes at *; rw [h1, h2]

omit [Scalar W] in
theorem SameOrgGenomes.of_orgs {a b c : Species W} (h : a.orgs = b.orgs) (e : SameOrgGenomes b c) : SameOrgGenomes a c := by
  unfold SameOrgGenomes at *; rw [h]; exact e

omit [Scalar W] in
/-- a species whose top organism got new bookkeeping fields and whose quota changed -/
theorem top_same (s : Species W) (f : Org W → Org W) (hf : ∀ o, (f o).genome = o.genome) (s1 : Species W)
    (h : s1.orgs = (setTopOrg s f).orgs) : SameOrgGenomes s1 s :=
  SameOrgGenomes.of_orgs h (setTopOrg_same s f hf)

/-- closes `SameOrgGenomes s1 s` where `s1` is `s` with re-labelled fields and a re-labelled top organism -/
macro "same_top" : tactic =>
  `(tactic| (unfold SameOrgGenomes setTopOrg; split <;> (rename_i heq; simp [heq])))

/-- a list of species obtained by re-labelling species of another list (each new species has the member genomes of
    some old species) -/
def Relabel (ss' ss : List (Species W)) : Prop := ∀ s' ∈ ss', ∃ s ∈ ss, SameOrgGenomes s' s

omit [Scalar W] in
theorem Relabel.sub {ss' ss : List (Species W)} (h : Relabel ss' ss) : GenomesSub ss' ss := by
  intro s' hs' x hx
  obtain ⟨s, hs, e⟩ := h s' hs'
  obtain ⟨y, hy, ey⟩ := e.sub x hx
  exact ⟨s, hs, y, hy, ey⟩

omit [Scalar W] in
theorem Relabel.refl (ss : List (Species W)) : Relabel ss ss := fun s hs => ⟨s, hs, rfl⟩
omit [Scalar W] in
theorem Relabel.trans {a b c : List (Species W)} (h1 : Relabel a b) (h2 : Relabel b c) : Relabel a c := by
  intro s hs
  obtain ⟨s1, hs1, e1⟩ := h1 s hs
  obtain ⟨s2, hs2, e2⟩ := h2 s1 hs1
  exact ⟨s2, hs2, e1.trans' e2⟩

omit [Scalar W] in
theorem Relabel.of_map (ss : List (Species W)) (f : Species W → Species W) (hf : ∀ s, SameOrgGenomes (f s) s) :
    Relabel (ss.map f) ss := by
  intro s' hs'
  obtain ⟨s, hs, rfl⟩ := List.mem_map.mp hs'
  exact ⟨s, hs, hf s⟩

omit [Scalar W] in
theorem Relabel.modify (ss : List (Species W)) (i : Nat) (f : Species W → Species W) (hf : ∀ s, SameOrgGenomes (f s) s) :
    Relabel (ss.modify i f) ss := by
  intro s' hs'
  rcases mem_modify _ _ _ _ hs' with h | ⟨s, hs, rfl⟩
  · exact ⟨s', h, rfl⟩
  · exact ⟨s, hs, hf s⟩

omit [Scalar W] in
theorem Relabel.of_sub (ss' ss : List (Species W)) (h : ∀ s ∈ ss', s ∈ ss) : Relabel ss' ss :=
  fun s hs => ⟨s, h s hs, rfl⟩

theorem assignQuotas_relabel (ss : List (Species W)) (skim : W) (tot : Int) : Relabel (assignQuotas ss skim tot).1 ss := by
  induction ss generalizing skim tot with
  | nil => unfold assignQuotas; exact Relabel.refl _
  | cons s t ih =>
    unfold assignQuotas
    simp only
    intro s' hs'
    rcases List.mem_cons.mp hs' with rfl | h
    · exact ⟨s, by simp, rfl⟩
    · obtain ⟨s0, hs0, e⟩ := ih _ _ s' h
      exact ⟨s0, List.mem_cons_of_mem _ hs0, e⟩

omit [Scalar W] in
theorem fixupQuotas_relabel (ss : List (Species W)) (a b : Int) : Relabel (fixupQuotas ss a b) ss := by
  unfold fixupQuotas
  split
  · split
    · exact Relabel.refl _
    · split
      · refine Relabel.trans (Relabel.modify _ _ _ ?_) (Relabel.of_map _ _ ?_) <;> intro s <;> rfl
      · refine Relabel.modify _ _ _ ?_; intro s; rfl
  · exact Relabel.refl _

theorem purgeZero_relabel (p : Pop W) : Relabel (purgeZeroOffspringSpecies p).species p.species := by
  unfold purgeZeroOffspringSpecies
  simp only
  refine (Relabel.of_sub _ _ (fun s hs => (List.mem_filter.mp hs).1)).trans ?_
  refine (fixupQuotas_relabel _ _ _).trans ?_
  refine (assignQuotas_relabel _ _ _).trans ?_
  apply Relabel.of_map
  intro s
  unfold SameOrgGenomes
  simp only [List.map_map]
  congr 1
  funext o
  simp only [Function.comp]
  split <;> rfl

theorem sortSpecies_relabel (ss : List (Species W)) : Relabel (sortSpeciesDesc ss) ss := by
  apply Relabel.of_sub
  intro s hs
  unfold sortSpeciesDesc at hs
  exact (GoNeat.goSort_mem _ _ _).mp hs

theorem deltaCoding_relabel (sorted sorted' : List (Species W)) (o : EpochOpts W) (h : deltaCoding sorted o = .ok sorted') :
    Relabel sorted' sorted := by
  unfold deltaCoding at h
  simp only at h
  split at h
  · cases h
  · rename_i s0
    split at h
    · cases h
    · cases h
      intro s' hs'
      simp only [List.mem_singleton] at hs'
      subst hs'
      exact ⟨s0, by simp, (by same_top)⟩
  · rename_i s1 s2 rest
    split at h
    · cases h
    · cases h
      intro s' hs'
      rcases List.mem_cons.mp hs' with rfl | h1
      · exact ⟨s1, by simp, (by same_top)⟩
      · rcases List.mem_cons.mp h1 with rfl | h2
        · exact ⟨s2, by simp, (by same_top)⟩
        · obtain ⟨s, hs, rfl⟩ := List.mem_map.mp h2
          exact ⟨s, by simp [hs], rfl⟩

omit [Scalar W] in
theorem stealLoop_relabel (b : Int) (ss : List (Species W)) (st : Int) : Relabel (stealLoop b ss st).1 ss := by
  induction ss generalizing st with
  | nil => unfold stealLoop; exact Relabel.refl _
  | cons s t ih =>
    unfold stealLoop
    have lift : ∀ (s1 : Species W) (rest : List (Species W)), SameOrgGenomes s1 s → Relabel rest t →
        Relabel (s1 :: rest) (s :: t) := by
      intro s1 rest e hr s' hs'
      rcases List.mem_cons.mp hs' with rfl | h
      · exact ⟨s, by simp, e⟩
      · obtain ⟨s0, hs0, e0⟩ := hr s' h
        exact ⟨s0, List.mem_cons_of_mem _ hs0, e0⟩
    split
    · split
      · split
        · exact lift _ _ rfl (ih _)
        · exact lift _ _ rfl (ih _)
      · exact lift _ _ rfl (ih _)
    · exact Relabel.refl _

theorem giveLoop_relabel (o : EpochOpts W) (blocks : List Int) (ss : List (Species W)) (bi : Nat) (st : Int)
    (rs rs' : List Nat) (l : List (Species W)) (left : Int) (h : giveLoop o blocks ss bi st rs = .ok ((l, left), rs')) :
    Relabel l ss := by
  induction ss generalizing bi st rs l left with
  | nil => unfold giveLoop at h; cases h; exact Relabel.refl _
  | cons s t ih =>
    have lift : ∀ (s1 : Species W) (rest : List (Species W)), SameOrgGenomes s1 s → Relabel rest t →
        Relabel (s1 :: rest) (s :: t) := by
      intro s1 rest e hr s' hs'
      rcases List.mem_cons.mp hs' with rfl | h
      · exact ⟨s, by simp, e⟩
      · obtain ⟨s0, hs0, e0⟩ := hr s' h
        exact ⟨s0, List.mem_cons_of_mem _ hs0, e0⟩
    unfold giveLoop at h
    split at h
    · split at h
      · cases h
      · rename_i rest st1 rs1 hrec
        cases h
        exact lift _ _ rfl (ih _ _ _ _ _ hrec)
    · simp only at h
      have hstep : ∀ (s1 : Species W) (st1 : Int) (rs1 : List Nat),
          (if bi < 3 && st ≥ (blocks[bi]?).getD 0 then
              (.ok (({ setTopOrg s (fun t => { t with superChampOffspring := (blocks[bi]?).getD 0 }) with
                       expectedOffspring := s.expectedOffspring + (blocks[bi]?).getD 0 }, st - (blocks[bi]?).getD 0), rs) : R (Species W × Int))
            else if bi ≥ 3 then
              match Rand.float64 (W := W) rs with
              | .error e => .error e
              | .ok (f, rs') =>
                if gt f (ofDec 1 1) then
                  if st > 3 then
                    .ok (({ setTopOrg s (fun t => { t with superChampOffspring := 3 }) with expectedOffspring := s.expectedOffspring + 3 },
                          st - 3), rs')
                  else
                    .ok (({ setTopOrg s (fun t => { t with superChampOffspring := st }) with expectedOffspring := s.expectedOffspring + st },
                          0), rs')
                else .ok ((s, st), rs')
            else .ok ((s, st), rs)) = .ok ((s1, st1), rs1) → SameOrgGenomes s1 s := by
        intro s1 st1 rs1 hs
        split at hs
        · cases hs; exact (by same_top)
        · split at hs
          · split at hs
            · cases hs
            · split at hs
              · split at hs
                · cases hs; exact (by same_top)
                · cases hs; exact (by same_top)
              · cases hs; rfl
          · cases hs; rfl
      split at h
      · cases h
      · rename_i s1 st1 rs1 hs
        have e1 := hstep s1 st1 rs1 hs
        split at h
        · cases h
          exact lift _ _ e1 (Relabel.refl _)
        · split at h
          · cases h
          · rename_i rest st2 rs2 hrec
            cases h
            exact lift _ _ e1 (ih _ _ _ _ _ hrec)

theorem giveBabies_relabel (sorted sorted' : List (Species W)) (o : EpochOpts W) (rs rs' : List Nat)
    (h : giveBabiesToTheBest sorted o rs = .ok (sorted', rs')) : Relabel sorted' sorted := by
  unfold giveBabiesToTheBest at h
  simp only at h
  have hsteal : Relabel (stealLoop o.babiesStolen sorted.reverse 0).1.reverse sorted := by
    intro s hs
    obtain ⟨s0, hs0, e⟩ := stealLoop_relabel o.babiesStolen sorted.reverse 0 s (List.mem_reverse.mp hs)
    exact ⟨s0, List.mem_reverse.mp hs0, e⟩
  split at h
  · cases h
  · rename_i l left rs1 hg
    have hl := (giveLoop_relabel o _ _ _ _ _ _ _ _ hg).trans hsteal
    split at h
    · split at h
      · cases h
      · rename_i s ss
        split at h
        · cases h
        · cases h
          intro s' hs'
          rcases List.mem_cons.mp hs' with rfl | h'
          · obtain ⟨s0, hs0, e⟩ := hl s (by simp)
            exact ⟨s0, hs0, SameOrgGenomes.trans' (b := s) (by same_top) e⟩
          · exact hl s' (List.mem_cons_of_mem _ h')
    · cases h; exact hl

omit [Scalar W] in
theorem writeBack_relabel (species updated : List (Species W)) (hu : Relabel updated species) :
    Relabel (writeBack species updated) species := by
  unfold writeBack
  intro s' hs'
  obtain ⟨s, hs, rfl⟩ := List.mem_map.mp hs'
  cases hf : updated.find? (·.id == s.id) with
  | none => exact ⟨s, hs, by simp [hf]; rfl⟩
  | some u =>
    simp only [hf, Option.getD_some]
    exact hu u (List.mem_of_find?_eq_some hf)

omit [Scalar W] in
theorem purgeOrganisms_sub (p : Pop W) : GenomesSub (purgeOrganisms p).species p.species := by
  unfold purgeOrganisms
  simp only
  apply GenomesSub.of_map
  intro s x hx
  exact ⟨x, (List.mem_filter.mp hx).1, rfl⟩

theorem redistribute_relabel (c1 c2 : Prop) [Decidable c1] [Decidable c2] (sorted1 : List (Species W)) (o : EpochOpts W)
    (rs : List Nat) (e0 : Int) (sorted2 : List (Species W)) (ehlc : Int) (rs1 : List Nat)
    (h : (if c1 then
            (match deltaCoding sorted1 o with
             | .error e => .error e
             | .ok l => .ok ((l, 0), rs))
          else if c2 then
            (match giveBabiesToTheBest sorted1 o rs with
             | .error e => .error e
             | .ok (l, rs') => .ok ((l, e0), rs'))
          else .ok ((sorted1, e0), rs)) = (.ok ((sorted2, ehlc), rs1) : R (List (Species W) × Int))) :
    Relabel sorted2 sorted1 := by
  by_cases h1 : c1
  · rw [if_pos h1] at h
    split at h
    · cases h
    · rename_i l hdc
      cases h
      exact deltaCoding_relabel _ _ o hdc
  · rw [if_neg h1] at h
    by_cases h2 : c2
    · rw [if_pos h2] at h
      split at h
      · cases h
      · rename_i l rs2 hgb
        cases h
        exact giveBabies_relabel _ _ o _ _ hgb
    · rw [if_neg h2] at h
      cases h
      exact Relabel.refl _

/-- **the preparation phase creates no genome and does not touch the registry** -/
theorem prepare_genomes (o : EpochOpts W) (p p1 : Pop W) (ex : ExecState) (rs rs' : List Nat)
    (h : prepareForReproduction o p rs = .ok ((p1, ex), rs')) : GenomesSub p1.species p.species ∧ p1.reg = p.reg := by
  unfold prepareForReproduction at h
  split at h
  · cases h
  · rename_i species1 hadj
    simp only at h
    have h1 : GenomesSub species1 p.species := adjustAll_genomes o _ _ hadj
    have h2 : Relabel (purgeZeroOffspringSpecies { p with species := species1 }).species species1 := purgeZero_relabel _
    have h3 := sortSpecies_relabel (purgeZeroOffspringSpecies { p with species := species1 }).species
    split at h
    · cases h
    · rename_i best rest hsorted
      split at h
      · cases h
      · rename_i top _
        have hs1 : Relabel (setTopOrg best (fun t => { t with isPopChampion := true }) ::
            (sortSpeciesDesc (purgeZeroOffspringSpecies { p with species := species1 }).species).tail)
            (purgeZeroOffspringSpecies { p with species := species1 }).species := by
          rw [hsorted]
          intro s' hs'
          rcases List.mem_cons.mp hs' with rfl | h'
          · obtain ⟨s0, hs0, e⟩ := h3 best (by rw [hsorted]; simp)
            exact ⟨s0, hs0, SameOrgGenomes.trans' (b := best) (by same_top) e⟩
          · exact h3 s' (by rw [hsorted]; exact List.mem_cons_of_mem _ h')
        split at h
        · cases h
        · rename_i sorted2 ehlc rs1 hredist
          have hs2 : Relabel sorted2 (purgeZeroOffspringSpecies { p with species := species1 }).species :=
            (redistribute_relabel _ _ _ o rs _ sorted2 ehlc rs1 hredist).trans hs1
          simp only [Except.ok.injEq, Prod.mk.injEq] at h
          obtain ⟨⟨rfl, _⟩, _⟩ := h
          refine ⟨?_, rfl⟩
          refine (purgeOrganisms_sub _).trans ?_
          simp only
          exact ((writeBack_relabel _ _ hs2).sub).trans (h2.sub.trans h1)

end GoNeat.C01
