/-
  Helper lemmas for Props/C05Check.lean: how the executable relations of Spec/Mutation.lean (filters by innovation
  number / node id, positional zips, field-wise equality tests) evaluate on lists built by ordered insertion,
  `List.modify` and `reenableFirst`.  Every lemma holds for every scalar type; `weq` is any reflexive test.
-/
import GoNeat.Spec.Mutation
import GoNeat.Proofs.WFLemmas
import GoNeat.Proofs.MutateLemmas

namespace GoNeat.C05
open GoNeat Scalar MutationSpec
variable {W : Type}

/-! ### the equality tests are reflexive -/

theorem geneEq_refl (weq : W → W → Bool) (hrefl : ∀ a, weq a a = true) (a : Gene W) : geneEq weq a a = true := by
  simp [geneEq, optEq, hrefl]

theorem genesEq_refl (weq : W → W → Bool) (hrefl : ∀ a, weq a a = true) (l : List (Gene W)) : genesEq weq l l = true := by
  unfold genesEq
  rw [Bool.and_eq_true]
  refine ⟨by simp, ?_⟩
  induction l with
  | nil => rfl
  | cons a t ih => simp only [List.zip_cons_cons, List.all_cons, geneEq_refl weq hrefl, ih, Bool.and_self]

theorem traitEq_refl (weq : W → W → Bool) (hrefl : ∀ a, weq a a = true) (t : Trait W) : traitEq weq t t = true := by
  unfold traitEq
  simp only [beq_self_eq_true, Bool.true_and]
  generalize t.params = l
  induction l with
  | nil => rfl
  | cons a t ih => simp only [List.zip_cons_cons, List.all_cons, hrefl, ih, Bool.and_self]

theorem traitsEq_refl (weq : W → W → Bool) (hrefl : ∀ a, weq a a = true) (l : List (Trait W)) : traitsEq weq l l = true := by
  unfold traitsEq
  rw [Bool.and_eq_true]
  refine ⟨by simp, ?_⟩
  induction l with
  | nil => rfl
  | cons a t ih => simp only [List.zip_cons_cons, List.all_cons, traitEq_refl weq hrefl, ih, Bool.and_self]

/-! ### filters over ordered insertion -/

theorem filter_insertAt_pos {α} (l : List α) (i : Nat) (a : α) (p : α → Bool) (ha : p a = true)
    (hl : ∀ x ∈ l, p x = false) : (insertAt l i a).filter p = [a] := by
  unfold insertAt
  rw [List.filter_append, List.filter_cons, if_pos ha]
  have h1 : (l.take i).filter p = [] := List.filter_eq_nil_iff.mpr (fun x hx => by simp [hl x (List.mem_of_mem_take hx)])
  have h2 : (l.drop i).filter p = [] := List.filter_eq_nil_iff.mpr (fun x hx => by simp [hl x (List.mem_of_mem_drop hx)])
  rw [h1, h2]; rfl

/-- a second insertion next to a list whose filter is a singleton: the two survivors, in either order -/
theorem filter_insertAt_two {α} (m : List α) (j : Nat) (a b : α) (p : α → Bool) (hm : m.filter p = [a]) (hb : p b = true) :
    (insertAt m j b).filter p = [a, b] ∨ (insertAt m j b).filter p = [b, a] := by
  unfold insertAt
  rw [List.filter_append, List.filter_cons, if_pos hb]
  have h : (m.take j).filter p ++ (m.drop j).filter p = [a] := by rw [← List.filter_append, List.take_append_drop, hm]
  rcases List.append_eq_singleton_iff.mp h with ⟨h1, h2⟩ | ⟨h1, h2⟩
  · right; rw [h1, h2]; rfl
  · left; rw [h1, h2]; rfl

theorem filter_foldl_geneInsert_neg (new l : List (Gene W)) (p : Gene W → Bool) (h : ∀ x ∈ new, p x = false) :
    (new.foldl geneInsert l).filter p = l.filter p := by
  induction new generalizing l with
  | nil => rfl
  | cons a as ih =>
    simp only [List.foldl_cons]
    rw [ih _ (fun x hx => h x (List.mem_cons_of_mem _ hx))]
    exact C01.insertAt_filter_of_neg _ _ _ _ (h a List.mem_cons_self)

theorem sorted_inns_nodup (l : List (Gene W)) (h : GenesSorted l) : (l.map (·.inn)).Nodup := by
  rw [List.Nodup, List.pairwise_map]
  exact h.imp (fun h => by omega)

theorem sorted_ids_nodup (l : List Node) (h : NodesSorted l) : (l.map (·.id)).Nodup := by
  rw [List.Nodup, List.pairwise_map]
  exact h.imp (fun h => by omega)

/-! ### the positional comparison of a list with its one-place modification -/

theorem zip_modify_changed {α} (q : α → α → Bool) (hq : ∀ a, q a a = true) (f : α → α) (l : List α) (k : Nat) (old : α)
    (hk : l[k]? = some old) (hne : q old (f old) = false) :
    (List.zip l (l.modify k f)).filter (fun (a, b) => !q a b) = [(old, f old)] := by
  induction l generalizing k with
  | nil => simp at hk
  | cons x xs ih =>
    cases k with
    | zero =>
      simp only [List.getElem?_cons_zero, Option.some.injEq] at hk
      subst hk
      simp only [List.modify_zero_cons, List.zip_cons_cons, List.filter_cons, hne, Bool.not_false, ↓reduceIte, List.cons.injEq,
        true_and]
      rw [List.filter_eq_nil_iff]
      intro ab hab
      obtain ⟨i, hi⟩ := List.getElem?_of_mem hab
      rw [List.getElem?_zip_eq_some] at hi
      have : ab.1 = ab.2 := by rw [hi.1] at hi; exact Option.some.inj hi.2
      obtain ⟨a, b⟩ := ab
      simp only at this; subst this
      simp [hq]
    | succ k =>
      simp only [List.getElem?_cons_succ] at hk
      simp only [List.modify_succ_cons, List.zip_cons_cons, List.filter_cons, hq, Bool.not_true, Bool.false_eq_true, ↓reduceIte]
      exact ih k hk

/-! ### `paramOnlyRel` -/

theorem paramOnlyRel_none (g g' : Genome W)
    (hn : g'.nodes.map (fun n => (n.id, n.kind, n.act)) = g.nodes.map (fun n => (n.id, n.kind, n.act)))
    (hg : g'.genes.map (fun x => (x.inn, x.src, x.dst, x.recur)) = g.genes.map (fun x => (x.inn, x.src, x.dst, x.recur)))
    (ht : g'.traits.map (·.id) = g.traits.map (·.id)) : paramOnlyRel g g' = none := by
  unfold paramOnlyRel skeleton nodeSkeleton
  simp [hn, hg, ht]

end GoNeat.C05
