/-
  Helper lemmas for Props/C05Check.lean: how the executable relations of Spec/Mutation.lean (filters by innovation
  number / node id, positional zips, field-wise equality tests) evaluate on lists built by ordered insertion,
  `List.modify` and `reenableFirst`.  Every lemma holds for every scalar type; `weq` is any reflexive test.
-/
import GoNeat.Spec.Mutation
import GoNeat.Proofs.WFLemmas
import GoNeat.Proofs.MutateLemmas

namespace GoNeat.C05
open GoNeat Scalar MutationSpec
variable {W : Type}

/-! ### the equality tests are reflexive -/

theorem geneEq_refl (weq : W → W → Bool) (hrefl : ∀ a, weq a a = true) (a : Gene W) : geneEq weq a a = true := by
  simp [geneEq, optEq, hrefl]

theorem genesEq_refl (weq : W → W → Bool) (hrefl : ∀ a, weq a a = true) (l : List (Gene W)) : genesEq weq l l = true := by
  unfold genesEq
  rw [Bool.and_eq_true]
  refine ⟨by simp, ?_⟩
  induction l with
  | nil => rfl
  | cons a t ih => simp only [List.zip_cons_cons, List.all_cons, geneEq_refl weq hrefl, ih, Bool.and_self]

theorem traitEq_refl (weq : W → W → Bool) (hrefl : ∀ a, weq a a = true) (t : Trait W) : traitEq weq t t = true := by
  unfold traitEq
  simp only [beq_self_eq_true, Bool.true_and]
  generalize t.params = l
  induction l with
  | nil => rfl
  | cons a t ih => simp only [List.zip_cons_cons, List.all_cons, hrefl, ih, Bool.and_self]

theorem traitsEq_refl (weq : W → W → Bool) (hrefl : ∀ a, weq a a = true) (l : List (Trait W)) : traitsEq weq l l = true := by
  unfold traitsEq
  rw [Bool.and_eq_true]
  refine ⟨by simp, ?_⟩
  induction l with
  | nil => rfl
  | cons a t ih => simp only [List.zip_cons_cons, List.all_cons, traitEq_refl weq hrefl, ih, Bool.and_self]

/-! ### filters over ordered insertion -/

theorem filter_insertAt_pos {α} (l : List α) (i : Nat) (a : α) (p : α → Bool) (ha : p a = true)
    (hl : ∀ x ∈ l, p x = false) : (insertAt l i a).filter p = [a] := by
  unfold insertAt
  rw [List.filter_append, List.filter_cons, if_pos ha]
  have h1 : (l.take i).filter p = [] := List.filter_eq_nil_iff.mpr (fun x hx => by simp [hl x (List.mem_of_mem_take hx)])
  have h2 : (l.drop i).filter p = [] := List.filter_eq_nil_iff.mpr (fun x hx => by simp [hl x (List.mem_of_mem_drop hx)])
  rw [h1, h2]; rfl

/-- a second insertion next to a list whose filter is a singleton: the two survivors, in either order -/
theorem filter_insertAt_two {α} (m : List α) (j : Nat) (a b : α) (p : α → Bool) (hm : m.filter p = [a]) (hb : p b = true) :
    (insertAt m j b).filter p = [a, b] ∨ (insertAt m j b).filter p = [b, a] := by
  unfold insertAt
  rw [List.filter_append, List.filter_cons, if_pos hb]
  have h : (m.take j).filter p ++ (m.drop j).filter p = [a] := by rw [← List.filter_append, List.take_append_drop, hm]
  rcases List.append_eq_singleton_iff.mp h with ⟨h1, h2⟩ | ⟨h1, h2⟩
  · right; rw [h1, h2]; rfl
  · left; rw [h1, h2]; rfl

theorem filter_foldl_geneInsert_neg (new l : List (Gene W)) (p : Gene W → Bool) (h : ∀ x ∈ new, p x = false) :
    (new.foldl geneInsert l).filter p = l.filter p := by
  induction new generalizing l with
  | nil => rfl
  | cons a as ih =>
    simp only [List.foldl_cons]
    rw [ih _ (fun x hx => h x (List.mem_cons_of_mem _ hx))]
    exact C01.insertAt_filter_of_neg _ _ _ _ (h a List.mem_cons_self)

theorem sorted_inns_nodup (l : List (Gene W)) (h : GenesSorted l) : (l.map (·.inn)).Nodup := by
  rw [List.Nodup, List.pairwise_map]
  exact h.imp (fun h => by omega)

theorem sorted_ids_nodup (l : List Node) (h : NodesSorted l) : (l.map (·.id)).Nodup := by
  rw [List.Nodup, List.pairwise_map]
  exact h.imp (fun h => by omega)

/-! ### the positional comparison of a list with its one-place modification -/

theorem zip_modify_changed {α} (q : α → α → Bool) (hq : ∀ a, q a a = true) (f : α → α) (l : List α) (k : Nat) (old : α)
    (hk : l[k]? = some old) (hne : q old (f old) = false) :
    (List.zip l (l.modify k f)).filter (fun (a, b) => !q a b) = [(old, f old)] := by
  induction l generalizing k with
  | nil => simp at hk
  | cons x xs ih =>
    cases k with
    | zero =>
      simp only [List.getElem?_cons_zero, Option.some.injEq] at hk
      subst hk
      simp only [List.modify_zero_cons, List.zip_cons_cons, List.filter_cons, hne, Bool.not_false, ↓reduceIte, List.cons.injEq,
        true_and]
      rw [List.filter_eq_nil_iff]
      intro ab hab
      obtain ⟨i, hi⟩ := List.getElem?_of_mem hab
      rw [List.getElem?_zip_eq_some] at hi
      have : ab.1 = ab.2 := by rw [hi.1] at hi; exact Option.some.inj hi.2
      obtain ⟨a, b⟩ := ab
      simp only at this; subst this
      simp [hq]
    | succ k =>
      simp only [List.getElem?_cons_succ] at hk
      simp only [List.modify_succ_cons, List.zip_cons_cons, List.filter_cons, hq, Bool.not_true, Bool.false_eq_true, ↓reduceIte]
      exact ih k hk

/-! ### `paramOnlyRel` -/

theorem paramOnlyRel_none (g g' : Genome W)
    (hn : g'.nodes.map (fun n => (n.id, n.kind, n.act)) = g.nodes.map (fun n => (n.id, n.kind, n.act)))
    (hg : g'.genes.map (fun x => (x.inn, x.src, x.dst, x.recur)) = g.genes.map (fun x => (x.inn, x.src, x.dst, x.recur)))
    (ht : g'.traits.map (·.id) = g.traits.map (·.id)) : paramOnlyRel g g' = none := by
  unfold paramOnlyRel skeleton nodeSkeleton
  simp [hn, hg, ht]

/-! ### the structural relations from facts about their filters

`oldP g` = "carries a number of the old genome" is the test by which the relations split the result's genes into
kept and new ones. -/

/-- "the gene carries one of the old innovation numbers" -/
abbrev oldP (g : Genome W) : Gene W → Bool := fun x => (g.genes.map (·.inn)).contains x.inn

theorem filter_oldP_self (g : Genome W) : g.genes.filter (oldP g) = g.genes :=
  List.filter_eq_self.mpr (fun a ha => by simpa [oldP] using ⟨a, ha, rfl⟩)

theorem filter_not_oldP_self (g : Genome W) : g.genes.filter (fun x => !oldP g x) = [] :=
  List.filter_eq_nil_iff.mpr (fun a ha => by simpa [oldP] using ⟨a, ha, rfl⟩)

theorem addLinkRel_none (weq : W → W → Bool) (hrefl : ∀ a, weq a a = true) (g g' : Genome W) (x : Gene W)
    (ht : g'.traits = g.traits) (hn : g'.nodes = g.nodes)
    (hkept : g'.genes.filter (oldP g) = g.genes) (hnew : g'.genes.filter (fun y => !oldP g y) = [x])
    (h1 : g.nodes.any (·.id == x.src) = true) (h2 : g.nodes.any (·.id == x.dst) = true)
    (h3 : g.genes.any (fun y => y.src == x.src && y.dst == x.dst && y.recur == x.recur) = false)
    (h4 : g.nodes.any (fun n => n.id == x.dst && n.isSensor) = false) : addLinkRel weq g g' = none := by
  unfold addLinkRel
  simp only [oldP] at hkept hnew
  simp only [hkept, hnew, ht, hn, traitsEq_refl weq hrefl, genesEq_refl weq hrefl, h1, h2, h3, h4, bne_self_eq_false,
    Bool.not_true, Bool.false_eq_true, ↓reduceIte, Bool.and_self]

theorem connectSensorsRel_none_false (weq : W → W → Bool) (hrefl : ∀ a, weq a a = true) (g : Genome W) :
    connectSensorsRel weq g g false = none := by
  have h1 := filter_oldP_self g
  have h2 := filter_not_oldP_self g
  unfold connectSensorsRel
  simp only [oldP] at h1 h2
  simp only [h1, h2, traitsEq_refl weq hrefl, genesEq_refl weq hrefl, bne_self_eq_false,
    Bool.not_true, Bool.false_eq_true, ↓reduceIte]

theorem connectSensorsRel_none_true (weq : W → W → Bool) (hrefl : ∀ a, weq a a = true) (g g' : Genome W)
    (N : List (Gene W)) (sensor : Node)
    (ht : g'.traits = g.traits) (hn : g'.nodes = g.nodes)
    (hkept : g'.genes.filter (oldP g) = g.genes) (hnew : g'.genes.filter (fun y => !oldP g y) = N) (hne : N ≠ [])
    (hsrc : ∀ x ∈ N, x.src = sensor.id) (hs : sensor ∈ g.nodes) (hsens : sensor.isSensor = true)
    (hun : ∀ y ∈ g.genes, y.src ≠ sensor.id)
    (htgt : ∀ x ∈ N, ∃ o ∈ g.nodes, o.isSensor = false ∧ o.id = x.dst)
    (hnd : (N.map (·.dst)).Nodup)
    (hcover : ∀ o ∈ g.nodes, o.isSensor = false → ∃ x ∈ N, x.dst = o.id) : connectSensorsRel weq g g' true = none := by
  unfold connectSensorsRel
  simp only [oldP] at hkept hnew
  simp only [hkept, hnew, ht, hn, traitsEq_refl weq hrefl, genesEq_refl weq hrefl, bne_self_eq_false,
    Bool.not_true, Bool.false_eq_true, ↓reduceIte]
  cases N with
  | nil => exact absurd rfl hne
  | cons x t =>
    have hx : x.src = sensor.id := hsrc x List.mem_cons_self
    have c1 : (x :: t).all (·.src == x.src) = true :=
      List.all_eq_true.mpr (fun y hy => by simp [hsrc y hy, hx])
    have c2 : g.nodes.any (fun n => n.id == x.src && n.isSensor) = true :=
      List.any_eq_true.mpr ⟨sensor, hs, by simp [hx, hsens]⟩
    have c3 : g.genes.any (·.src == x.src) = false := by
      rw [List.any_eq_false]; intro y hy; rw [hx]; simpa using hun y hy
    have c4 : (x :: t).all (fun y => g.nodes.any (fun n => n.id == y.dst && !n.isSensor)) = true :=
      List.all_eq_true.mpr (fun y hy => by
        obtain ⟨o, ho, hos, hod⟩ := htgt y hy
        exact List.any_eq_true.mpr ⟨o, ho, by simp [hod, hos]⟩)
    have c5 : (decide ((List.map (·.dst) (x :: t)).Nodup) == false) = false := by
      rw [decide_eq_true hnd]; rfl
    have c6 : (g.nodes.filter (fun n => !n.isSensor)).all (fun n => (x :: t).any (·.dst == n.id)) = true :=
      List.all_eq_true.mpr (fun o ho => by
        have ho' := List.mem_filter.mp ho
        obtain ⟨y, hy, hyd⟩ := hcover o ho'.1 (by simpa using ho'.2)
        exact List.any_eq_true.mpr ⟨y, hy, by simp [hyd]⟩)
    simp only [c1, c2, c3, c4, c5, c6, Bool.not_true, Bool.false_eq_true, ↓reduceIte, Bool.and_false]

variable [Scalar W]

theorem addNodeRel_none (weq : W → W → Bool) (hrefl : ∀ a, weq a a = true) (g g' : Genome W) (n : Node)
    (x1 x2 old : Gene W) (k : Nat)
    (ht : g'.traits = g.traits)
    (hnewN : g'.nodes.filter (fun m => !g.nodes.any (·.id == m.id)) = [n])
    (holdN : g'.nodes.filter (fun m => g.nodes.any (·.id == m.id)) = g.nodes)
    (hkept : g'.genes.filter (oldP g) = g.genes.modify k (fun x => { x with en := false }))
    (hnewG : g'.genes.filter (fun y => !oldP g y) = [x1, x2] ∨ g'.genes.filter (fun y => !oldP g y) = [x2, x1])
    (hk : g.genes[k]? = some old) (hen : old.en = true)
    (hbias : ∀ s, nodeById g.nodes old.src = some s → s.kind ≠ Kind.bias)
    (hkind : n.kind = Kind.hidden)
    (hx1 : x1.src = old.src ∧ x1.dst = n.id ∧ x1.w = one ∧ x1.recur = old.recur ∧ x1.en = true)
    (hx2 : x2.src = n.id ∧ x2.dst = old.dst ∧ x2.w = old.w ∧ x2.recur = false ∧ x2.en = true)
    (hne : old.dst ≠ n.id) : addNodeRel weq g g' = none := by
  have hchg := zip_modify_changed (geneEq weq) (geneEq_refl weq hrefl) (fun x : Gene W => { x with en := false }) g.genes k old hk
    (by simp [geneEq, hen])
  unfold addNodeRel
  simp only [oldP] at hkept hnewG
  simp only [hkept, ht, hnewN, holdN, hchg, traitsEq_refl weq hrefl, List.length_modify, bne_self_eq_false,
    Bool.not_true, Bool.false_eq_true, ↓reduceIte]
  obtain ⟨a1, a2, a3, a4, a5⟩ := hx1
  obtain ⟨b1, b2, b3, b4, b5⟩ := hx2
  rcases hnewG with e | e <;> rw [e] <;>
    simp [hkind, hen, geneEq_refl weq hrefl, a1, a2, a3, a4, a5, b1, b2, b3, b4, b5, hrefl, hne]
  all_goals
    cases hs : nodeById g.nodes old.src with
    | none => rfl
    | some s => simpa using hbias s hs

end GoNeat.C05
