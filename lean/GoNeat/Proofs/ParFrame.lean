/-
  C16(b) frame lemmas: the registry hypotheses of the structural-mutator theorems are STABLE under what the other
  goroutines may do between two registry operations of this one - append records and raise the counters.

  Sequentially (`C01.RegExt`, `C01.RegInv.ext`) an appended record carries numbers ABOVE the counters the genome was
  checked against.  Under interleaving this is false: a record stored after this thread's snapshot may carry a number
  that was drawn BEFORE it (thread B: fetch-add -> 7; thread A: snapshot, counter already 7; thread B: store record with 7).
  What stays true, and is all that is needed: the numbers of a record appended by another thread are not carried by
  this thread's genome (they were pending in the other thread, which owns them) - `ForeignTo` / `FreshRec`.

  * `regInv_frame`      C01's `RegInv reg g` (= RegCompat ∧ CounterAbove ∧ RegOk) is stable
  * `invB_frame`        C03's `InvB reg B R` (ConsistentB/R, RegCompatB, CounterAboveB over a pool) is stable
  * `regInv_of_invB`    the pool invariant implies the per-genome one for every genome whose bindings the pool holds
-/
import GoNeat.Proofs.RegistrySteps
import GoNeat.Proofs.WFStep

set_option linter.unusedSectionVars false

namespace GoNeat.C16
open GoNeat GoNeat.C03
variable {W : Type}

/-! ### growth of the shared registry as seen by one thread -/

/-- the registry only grows: counters never fall, records are only appended -/
structure RegGrow (reg reg' : Reg W) (new : List (Innov W)) : Prop where
  inn : reg.nextInn ≤ reg'.nextInn
  node : reg.nextNode ≤ reg'.nextNode
  recs : reg'.records = reg.records ++ new

theorem RegGrow.refl (reg : Reg W) : RegGrow reg reg [] := ⟨Int.le_refl _, Int.le_refl _, by simp⟩

theorem RegGrow.trans {a b c : Reg W} {n1 n2 : List (Innov W)} (h1 : RegGrow a b n1) (h2 : RegGrow b c n2) :
    RegGrow a c (n1 ++ n2) :=
  ⟨Int.le_trans h1.inn h2.inn, Int.le_trans h1.node h2.node, by rw [h2.recs, h1.recs, List.append_assoc]⟩

/-- the numbers and the node id of record `r` are not carried by genome `g` -/
def ForeignTo (g : Genome W) (r : Innov W) : Prop :=
  (∀ x ∈ g.genes, x.inn ∉ recInns r) ∧ (r.typ = 1 → ∀ n ∈ g.nodes, n.id ≠ r.newNode)
instance (g : Genome W) (r : Innov W) : Decidable (ForeignTo g r) := by unfold ForeignTo; infer_instance

/-- **frame lemma, per genome (C01).** `RegInv reg g` survives any growth of the registry by records that are
    consistent among themselves and with the counters (`RegOk reg'`) and foreign to `g`. -/
theorem regInv_frame {reg reg' : Reg W} {new : List (Innov W)} {g : Genome W} (h : C01.RegInv reg g)
    (hg : RegGrow reg reg' new) (hok : C01.RegOk reg') (hf : ∀ r ∈ new, ForeignTo g r) : C01.RegInv reg' g := by
  refine ⟨?_, ⟨fun x hx => Int.le_trans (h.above.1 x hx) hg.inn, fun n hn => Int.le_trans (h.above.2 n hn) hg.node⟩, hok⟩
  intro i hi
  rw [hg.recs] at hi
  rcases List.mem_append.mp hi with hi | hi
  · exact h.compat i hi
  · obtain ⟨f1, f2⟩ := hf i hi
    refine ⟨fun _ x hx e => absurd (e ▸ inn_mem_recInns i) (f1 x hx),
            fun t => ⟨fun x hx e => absurd (e ▸ inn_mem_recInns i) (f1 x hx),
                      fun x hx e => absurd (e ▸ inn2_mem_recInns i t) (f1 x hx),
                      fun n hn e => absurd e (f2 t n hn)⟩⟩

/-- the sequential extension relation is the special case "numbers above the old counters" -/
theorem foreign_of_above {reg : Reg W} {g : Genome W} {r : Innov W} (ha : C01.CounterAbove reg g)
    (h2 : r.typ = 2 → reg.nextInn < r.inn)
    (h1 : r.typ = 1 → reg.nextInn < r.inn ∧ reg.nextInn < r.inn2 ∧ reg.nextNode < r.newNode)
    (ht : r.typ = 2 ∨ r.typ = 1) : ForeignTo g r := by
  refine ⟨fun x hx hm => ?_, fun t n hn e => ?_⟩
  · have hle := ha.1 x hx
    unfold recInns at hm
    rcases ht with t | t
    · have : ¬ r.typ = 1 := by omega
      simp only [this, if_false, List.mem_singleton] at hm
      have := h2 t; omega
    · simp only [t, if_true, List.mem_cons, List.not_mem_nil, or_false] at hm
      have := h1 t; omega
  · have := ha.2 n hn; have := h1 t; omega

/-! ### the pool invariant -/

/-- a record another thread (or this one) may append while the pool holds `B`, `R`: its numbers and node id are held
    by nobody, and a node-split record names a gene of the pool -/
structure FreshRec (B : List Bind) (R : List Role) (r : Innov W) : Prop where
  typ : r.typ = 2 ∨ r.typ = 1
  inns : ∀ b ∈ B, b.1 ∉ recInns r
  node : r.typ = 1 → ∀ p ∈ R, p.1 ≠ r.newNode
  split : r.typ = 1 → ∃ y ∈ B, y.1 = r.oldInn ∧ y.2.1 = r.inId ∧ y.2.2.1 = r.outId

theorem FreshRec.recOk {B : List Bind} {R : List Role} {r : Innov W} (h : FreshRec B R r) : RecOk B R r := by
  unfold RecOk
  by_cases h2 : r.typ = 2
  · simp only [h2, if_true]
    exact fun b hb e => absurd (e ▸ inn_mem_recInns r) (h.inns b hb)
  · have h1 : r.typ = 1 := h.typ.resolve_left h2
    simp only [h1, if_true]
    obtain ⟨y, hy, e1, e2, e3⟩ := h.split h1
    exact ⟨⟨y, hy, e1, e2, e3, fun b hb e => absurd (e ▸ inn_mem_recInns r) (h.inns b hb)⟩,
           fun b hb e => absurd (e ▸ inn2_mem_recInns r h1) (h.inns b hb),
           fun p hp e => absurd e (h.node h1 p hp)⟩

/-- **frame lemma, pool level (C03).** `InvB reg B R` survives any growth of the registry by fresh records whose
    numbers / node ids are pairwise distinct, distinct from the recorded ones, and issued by the (new) counters. -/
theorem invB_frame {reg reg' : Reg W} {new : List (Innov W)} {B : List Bind} {R : List Role} (h : InvB reg B R)
    (hg : RegGrow reg reg' new) (hf : ∀ r ∈ new, FreshRec B R r)
    (hnd : (regInns reg').Nodup) (hnn : (regNodes reg').Nodup)
    (hbi : ∀ r ∈ new, ∀ k ∈ recInns r, k ≤ reg'.nextInn) (hbn : ∀ r ∈ new, r.typ = 1 → r.newNode ≤ reg'.nextNode) :
    InvB reg' B R := by
  refine ⟨h.genes, h.roles, ⟨?_, hnd, hnn⟩, ⟨fun b hb => Int.le_trans (h.above.inns b hb) hg.inn,
          fun p hp => Int.le_trans (h.above.ids p hp) hg.node, ?_, ?_⟩⟩
  · intro i hi
    rw [hg.recs] at hi
    rcases List.mem_append.mp hi with hi | hi
    · exact h.compat.recs i hi
    · exact (hf i hi).recOk
  · intro k hk
    rw [regInns_def, hg.recs, List.flatMap_append] at hk
    rcases List.mem_append.mp hk with hk | hk
    · exact Int.le_trans (h.above.recInns k hk) hg.inn
    · obtain ⟨r, hr, hk⟩ := List.mem_flatMap.mp hk
      exact hbi r hr k hk
  · intro k hk
    rw [regNodes_def, hg.recs, List.filter_append, List.map_append] at hk
    rcases List.mem_append.mp hk with hk | hk
    · exact Int.le_trans (h.above.recNodes k hk) hg.node
    · obtain ⟨r, hr, rfl⟩ := List.mem_map.mp hk
      obtain ⟨hr, ht⟩ := List.mem_filter.mp hr
      exact hbn r hr (by simpa using ht)

/-- raising the counters alone -/
theorem invB_counters {reg reg' : Reg W} {B : List Bind} {R : List Role} (h : InvB reg B R)
    (hr : reg'.records = reg.records) (hi : reg.nextInn ≤ reg'.nextInn) (hn : reg.nextNode ≤ reg'.nextNode) :
    InvB reg' B R := by
  have e1 : regInns reg' = regInns reg := by rw [regInns_def, regInns_def, hr]
  have e2 : regNodes reg' = regNodes reg := by rw [regNodes_def, regNodes_def, hr]
  exact invB_frame (new := []) h ⟨hi, hn, by rw [hr]; simp⟩ (fun _ hx => nomatch hx) (e1 ▸ h.compat.innsNodup)
    (e2 ▸ h.compat.nodesNodup) (fun _ hx => nomatch hx) (fun _ hx => nomatch hx)

/-! ### from the pool invariant to the per-genome invariant -/

theorem regOk_of_invB {reg : Reg W} {B : List Bind} {R : List Role} (h : InvB reg B R) : C01.RegOk reg := by
  have hnd := h.compat.innsNodup
  refine ⟨fun i hi => ⟨fun _ => h.above.recInns _ (mem_regInns hi (inn_mem_recInns i)),
            fun t => ⟨h.above.recInns _ (mem_regInns hi (inn_mem_recInns i)),
                      h.above.recInns _ (mem_regInns hi (inn2_mem_recInns i t)),
                      h.above.recNodes _ (mem_regNodes hi t)⟩⟩, ?_⟩
  intro i hi j hj
  refine ⟨fun _ _ e => ?_, fun ti tj => ?_, fun ti tj => ?_⟩
  · have : i = j := rec_inj hnd hi hj (inn_mem_recInns i) (e ▸ inn_mem_recInns j)
    subst this; exact ⟨rfl, rfl, rfl⟩
  · constructor
    · intro e
      have : i = j := rec_inj hnd hi hj (inn_mem_recInns i) (e ▸ inn_mem_recInns j)
      subst this; omega
    · intro e
      have : i = j := rec_inj hnd hi hj (inn_mem_recInns i) (e ▸ inn2_mem_recInns j tj)
      subst this; omega
  · refine ⟨fun e => ?_, fun e => ?_, fun e => ?_⟩
    · have : i = j := rec_inj hnd hi hj (inn_mem_recInns i) (e ▸ inn_mem_recInns j)
      subst this; exact ⟨rfl, rfl⟩
    · have : i = j := rec_inj hnd hi hj (inn2_mem_recInns i ti) (e ▸ inn2_mem_recInns j tj)
      subst this; exact ⟨rfl, rfl⟩
    · have : i = j := rec_inj hnd hi hj (inn_mem_recInns i) (e ▸ inn2_mem_recInns j tj)
      subst this; exact inn_ne_inn2 hnd hi ti e

/-- **the pool invariant gives every member its registry invariant** -/
theorem regInv_of_invB {reg : Reg W} {B : List Bind} {R : List Role} (h : InvB reg B R) {g : Genome W}
    (hb : ∀ x ∈ g.genes, geneBind x ∈ B) (hr : ∀ n ∈ g.nodes, nodeRole n ∈ R) : C01.RegInv reg g := by
  refine ⟨?_, ⟨fun x hx => h.above.inns _ (hb x hx), fun n hn => h.above.ids _ (hr n hn)⟩, regOk_of_invB h⟩
  intro i hi
  have hrec := h.compat.recs i hi
  unfold RecOk at hrec
  refine ⟨fun t x hx e => ?_, fun t => ?_⟩
  · simp only [t, if_true] at hrec
    have := hrec _ (hb x hx) e
    simp only [geneBind, Prod.mk.injEq] at this
    unfold Gene.link
    rw [this.2.1, this.2.2.1, this.2.2.2]
  · have t2 : ¬ i.typ = 2 := by omega
    simp only [t, if_true] at hrec
    obtain ⟨⟨y, _, _, _, _, hall⟩, hb2, hro⟩ := hrec
    refine ⟨fun x hx e => ?_, fun x hx e => ?_, fun n hn e => ?_⟩
    · have := hall _ (hb x hx) e
      simp only [geneBind, Prod.mk.injEq] at this
      exact ⟨this.2.1, this.2.2.1⟩
    · have := hb2 _ (hb x hx) e
      simp only [geneBind, Prod.mk.injEq] at this
      exact ⟨this.2.1, this.2.2.1, this.2.2.2⟩
    · exact hro _ (hr n hn) e

end GoNeat.C16
