/-
  C16(b): the thread-local obligations (`PValid`) of the three non-atomic structural mutators.
  Each proof walks the program of Model/ParEpoch.lean once; what it may use about the registry is only what
  `SnapOk` / `FreshI` / `FreshN` grant (facts that survive any interference), what it has to show at a store is that
  the record consists of numbers the thread drew itself.

  Postcondition `MutPost g L`: the resulting genome is well-formed (`WFT`), is a structural step of `g`
  (`LStep`: old nodes kept, new nodes hidden, trait ids / modules / first gene unchanged) and the thread's view was
  extended by exactly the new genome's bindings (`ViewExt`).
-/
import GoNeat.Proofs.ParFrameSound
import GoNeat.Props.C01

set_option linter.unusedSectionVars false
set_option linter.unusedVariables false

namespace GoNeat.C16
open GoNeat GoNeat.C03 GoNeat.C01 Scalar
variable {W : Type} [Scalar W]

/-- what a structural mutation does to a genome, without reference to the registry -/
structure LStep (g g' : Genome W) : Prop where
  bindsOld : ∀ b ∈ gb g, b ∈ gb g'
  nodesOld : ∀ n ∈ g.nodes, ∃ m ∈ g'.nodes, m.id = n.id ∧ m.kind = n.kind
  nodesNew : ∀ m ∈ g'.nodes, (∃ n ∈ g.nodes, n.id = m.id ∧ n.kind = m.kind) ∨ m.kind = Kind.hidden
  tids : traitIds g' = traitIds g
  head : g'.genes.head?.map (·.inn) = g.genes.head?.map (·.inn)
  mods : g'.modules = g.modules

theorem LStep.refl (g : Genome W) : LStep g g :=
  ⟨fun _ h => h, fun n h => ⟨n, h, rfl, rfl⟩, fun m h => .inl ⟨m, h, rfl, rfl⟩, rfl, rfl, rfl⟩

theorem LStep.trans {a b c : Genome W} (h1 : LStep a b) (h2 : LStep b c) : LStep a c :=
  ⟨fun b hb => h2.bindsOld b (h1.bindsOld b hb),
   fun n hn => by
     obtain ⟨m, hm, e1, e2⟩ := h1.nodesOld n hn
     obtain ⟨k, hk, e3, e4⟩ := h2.nodesOld m hm
     exact ⟨k, hk, e3.trans e1, e4.trans e2⟩,
   fun m hm => by
     rcases h2.nodesNew m hm with ⟨k, hk, e1, e2⟩ | h
     · rcases h1.nodesNew k hk with ⟨n, hn, e3, e4⟩ | h'
       · exact .inl ⟨n, hn, e3.trans e1, e4.trans e2⟩
       · exact .inr (e2 ▸ h')
     · exact .inr h,
   h2.tids.trans h1.tids, h2.head.trans h1.head, h2.mods.trans h1.mods⟩

theorem LStep.retains {g g' : Genome W} (h : LStep g g') : Retains g g' :=
  fun n hn _ => h.nodesOld n hn

/-- the first gene's number is at most the base counter of the epoch -/
def HeadLe (bi : Int) (g : Genome W) : Prop := ∀ h ∈ g.genes.take 1, h.inn ≤ bi
instance (bi : Int) (g : Genome W) : Decidable (HeadLe bi g) := by unfold HeadLe; infer_instance

theorem HeadLe.of_step {bi : Int} {g g' : Genome W} (h : HeadLe bi g) (hs : LStep g g') : HeadLe bi g' := by
  intro h0 hh
  have hhead := hs.head
  cases hg' : g'.genes with
  | nil => rw [hg'] at hh; simp at hh
  | cons f' t' =>
    rw [hg'] at hh hhead
    simp only [List.take_succ_cons, List.take_zero, List.mem_singleton] at hh
    subst hh
    cases hg : g.genes with
    | nil => rw [hg] at hhead; simp at hhead
    | cons f t =>
      rw [hg] at hhead
      simp only [List.head?_cons, Option.map_some, Option.some.injEq] at hhead
      rw [hhead]; exact h f (by rw [hg]; simp)

/-- the view `L'` extends `L` by exactly the bindings of `g'` -/
structure ViewExt (L L' : Local W) (g' : Genome W) : Prop where
  subB : ∀ b ∈ L.B, b ∈ L'.B
  subR : ∀ p ∈ L.R, p ∈ L'.R
  holdB : ∀ x ∈ g'.genes, geneBind x ∈ L'.B
  holdR : ∀ n ∈ g'.nodes, nodeRole n ∈ L'.R
  exactB : ∀ b ∈ L'.B, b ∈ L.B ∨ b ∈ gb g'
  exactR : ∀ p ∈ L'.R, p ∈ L.R ∨ p ∈ gr g'

/-- a thread holds (the bindings of) genome `g` -/
structure Holds (L : Local W) (g : Genome W) : Prop where
  B : ∀ x ∈ g.genes, geneBind x ∈ L.B
  R : ∀ n ∈ g.nodes, nodeRole n ∈ L.R

theorem ViewExt.of_holds {L L' : Local W} {g : Genome W} (h : Holds L g) (hB : L'.B = L.B) (hR : L'.R = L.R) : ViewExt L L' g :=
  ⟨fun b hb => hB ▸ hb, fun p hp => hR ▸ hp, fun x hx => hB ▸ h.B x hx, fun n hn => hR ▸ h.R n hn,
   fun b hb => .inl (hB ▸ hb), fun p hp => .inl (hR ▸ hp)⟩

theorem ViewExt.holds {L L' : Local W} {g : Genome W} (h : ViewExt L L' g) : Holds L' g := ⟨h.holdB, h.holdR⟩

theorem ViewExt.trans {L L1 L2 : Local W} {g1 g2 : Genome W} (h1 : ViewExt L L1 g1) (h2 : ViewExt L1 L2 g2)
    (hb : ∀ b ∈ gb g1, b ∈ gb g2) (hr : ∀ p ∈ gr g1, p ∈ gr g2) : ViewExt L L2 g2 :=
  ⟨fun b hb' => h2.subB b (h1.subB b hb'), fun p hp => h2.subR p (h1.subR p hp), h2.holdB, h2.holdR,
   fun b hb' => (h2.exactB b hb').elim (fun h => (h1.exactB b h).elim .inl (fun h' => .inr (hb b h'))) .inr,
   fun p hp => (h2.exactR p hp).elim (fun h => (h1.exactR p h).elim .inl (fun h' => .inr (hr p h'))) .inr⟩

/-- postcondition of a structural mutation of `g` started from view `L` -/
def MutPost (g : Genome W) (L : Local W) (L' : Local W) (r : MRes W) : Prop :=
  match r with
  | .error _ => True
  | .ok ((g', _), _) => WFT g' ∧ LStep g g' ∧ ViewExt L L' g'

/-! ### one gene added -/

theorem lstep_addGene (g : Genome W) (x : Gene W) (hw : WFT g)
    (hw' : WFT ({ g with genes := geneInsert g.genes x } : Genome W)) (hlt : ∀ h0 ∈ g.genes.take 1, h0.inn < x.inn) :
    LStep g ({ g with genes := geneInsert g.genes x } : Genome W) := by
  refine ⟨fun b hb => ?_, fun n h => ⟨n, h, rfl, rfl⟩, fun m h => Or.inl ⟨m, h, rfl, rfl⟩, rfl, ?_, rfl⟩
  · obtain ⟨y, hy, rfl⟩ := List.mem_map.mp hb
    exact List.mem_map.mpr ⟨y, (C03.mem_insertAt _ _ _ _).mpr (Or.inr hy), rfl⟩
  apply head_preserved g _ hw hw'.wf.genesSorted
  · intro y hy
    exact ⟨y, (C03.mem_insertAt _ _ _ _).mpr (Or.inr hy), rfl⟩
  · intro z hz
    rcases (C03.mem_insertAt _ _ _ _).mp hz with rfl | h
    · exact Or.inr hlt
    · exact Or.inl ⟨z, h, rfl⟩

theorem viewExt_addGene {L L' : Local W} {g : Genome W} (x : Gene W) (h : Holds L g)
    (hB : L'.B = geneBind x :: L.B) (hR : L'.R = L.R) : ViewExt L L' ({ g with genes := geneInsert g.genes x } : Genome W) := by
  refine ⟨fun b hb => hB ▸ List.mem_cons_of_mem _ hb, fun p hp => hR ▸ hp, ?_, fun n hn => hR ▸ h.R n hn, ?_,
          fun p hp => .inl (hR ▸ hp)⟩
  · intro y hy
    rw [hB]
    rcases (C03.mem_insertAt _ _ _ _).mp hy with rfl | hy'
    · exact List.mem_cons_self
    · exact List.mem_cons_of_mem _ (h.B y hy')
  · intro b hb
    rw [hB] at hb
    rcases List.mem_cons.mp hb with rfl | hb'
    · exact .inr (List.mem_map.mpr ⟨x, (C03.mem_insertAt _ _ _ _).mpr (.inl rfl), rfl⟩)
    · exact .inl hb'

/-- the number of a record seen in a snapshot, for the requested link, is not yet in the genome (else the genome would
    already have the link, or `haveGene` would have fired) -/
theorem found_link_new {bi : Int} {L : Local W} {recs : List (Innov W)} (hs : SnapOk bi L recs) {g : Genome W} (hw : WFT g)
    (hh : Holds L g) {inn : Innov W} (hm : inn ∈ recs) (ht : inn.typ = 2) (x : Gene W) (hx : x.inn = inn.inn)
    (hl : x.link = (inn.inId, inn.outId, inn.recur)) (hhave : g.haveGene x = false) : ∀ y ∈ g.genes, y.inn ≠ x.inn := by
  refine haveGene_false g x hw.wf.genesSorted hhave ?_
  intro y hy e
  have := hs.link inn hm ht _ (hh.B y hy) (by rw [← hx]; exact e)
  simp only [geneBind, Prod.mk.injEq] at this
  rw [hl]; unfold Gene.link
  rw [this.2.1, this.2.2.1, this.2.2.2]

theorem headLe_lt_of_snap {bi : Int} {L : Local W} {recs : List (Innov W)} (hs : SnapOk bi L recs) {g : Genome W}
    (hh : HeadLe bi g) {inn : Innov W} (hm : inn ∈ recs) {k : Int} (hk : k ∈ recInns inn) :
    ∀ h0 ∈ g.genes.take 1, h0.inn < k := by
  intro h0 h0m
  have := hh h0 h0m
  have := hs.above inn hm k hk
  omega

/-! ### mutateAddLink -/

theorem mutateAddLinkP_valid {bi : Int} (g : Genome W) (o : MutOpts W) (rs : List Nat) (L : Local W)
    (hw : WFT g) (hh : Holds L g) (hd : HeadLe bi g) : PValid bi (MutPost g L) L (mutateAddLinkP g o rs) := by
  have hrefl : ∀ (L' : Local W) b rs', L'.B = L.B → L'.R = L.R → MutPost g L L' (.ok ((g, b), rs')) :=
    fun L' b rs' e1 e2 => ⟨hw, LStep.refl g, ViewExt.of_holds hh e1 e2⟩
  unfold mutateAddLinkP
  split
  · exact .done trivial
  split
  · exact .done trivial
  split
  · exact .done trivial
  simp only
  split
  · exact .done trivial
  · exact .done (hrefl _ _ _ rfl rfl)
  · exact .done (hrefl _ _ _ rfl rfl)
  rename_i n1 n2 rs2 hf
  obtain ⟨hn1, hn2, hsens, hnodup⟩ := C05.findOpenLink_spec g _ _ _ _ _ _ n1 n2 hf
  have hsrc : n1.id ∈ nodeIds g := List.mem_map_of_mem hn1
  have hdst : n2.id ∈ nodeIds g := List.mem_map_of_mem hn2
  have hsens' : ∀ n ∈ g.nodes, n.id = n2.id → n.isSensor = false := by
    intro n hn e
    rw [node_unique g.nodes hw.wf.nodesSorted n n2 hn hn2 e]; exact hsens
  refine .snap fun recs hs => ?_
  split
  · rename_i inn hfind
    have hmem : inn ∈ recs := List.mem_of_find?_eq_some hfind
    have hp := List.find?_some hfind
    simp only [Bool.and_eq_true, beq_iff_eq] at hp
    obtain ⟨⟨⟨ht, hin⟩, hout⟩, hrec⟩ := hp
    split
    · exact .done trivial
    rename_i tr htr
    split
    · exact .done (hrefl _ _ _ rfl rfl)
    rename_i hhave
    split
    · exact .done trivial
    have hinn := found_link_new hs hw hh hmem ht
      { inn := inn.inn, src := n1.id, dst := n2.id, recur := _, w := inn.w, mnum := zero, en := true, trait := tr } rfl
      (by unfold Gene.link; simp only [hin, hout, hrec]) (Bool.eq_false_iff.mpr hhave)
    have hwf' := addGene_wft g _ hw hinn (by
      intro y hy e
      unfold Gene.link at e; simp only [Prod.mk.injEq] at e
      exact hnodup y hy e) hsrc hdst hsens' (traitAt_ok g _ tr htr hw.tnz)
    refine .ghostB (b := (inn.inn, inn.inId, inn.outId, inn.recur)) (.inl ⟨inn, List.mem_append_left _ hmem, ht, rfl⟩) (.done ?_)
    exact ⟨hwf', lstep_addGene g _ hw hwf' (headLe_lt_of_snap hs hd hmem (inn_mem_recInns inn)),
           viewExt_addGene _ hh (by simp only [geneBind, hin, hout, hrec]) rfl⟩
  · split
    · exact .done trivial
    split
    · exact .done trivial
    rename_i traitNum rs3 _ w rs4 _
    refine .nextInn fun innId hfr => ?_
    split
    · exact .done trivial
    rename_i tr htr
    refine .store (.inl ⟨rfl, List.mem_cons_self⟩) ?_
    split
    · exact .done trivial
    have hinn : ∀ y ∈ g.genes, y.inn ≠ innId := by
      intro y hy e
      have := hfr.1 _ (hh.B y hy)
      simp only [geneBind] at this; omega
    have hwf' := addGene_wft g
      { inn := innId, src := n1.id, dst := n2.id, recur := _, w := w, mnum := w, en := true, trait := tr } hw hinn (by
      intro y hy e
      unfold Gene.link at e; simp only [Prod.mk.injEq] at e
      exact hnodup y hy e) hsrc hdst hsens' (traitAt_ok g _ tr htr hw.tnz)
    refine .ghostB (b := (innId, n1.id, n2.id, _)) (.inl ⟨_, List.mem_cons_self, rfl, rfl⟩) (.done ?_)
    refine ⟨hwf', lstep_addGene g _ hw hwf' (fun h0 h0m => ?_), viewExt_addGene _ hh rfl rfl⟩
    have := hd h0 h0m
    have := hfr.2.2
    simp only; omega

theorem LStep.rolesOld {g g' : Genome W} (h : LStep g g') : ∀ p ∈ gr g, p ∈ gr g' := by
  intro p hp
  obtain ⟨n, hn, rfl⟩ := List.mem_map.mp hp
  obtain ⟨m, hm, e1, e2⟩ := h.nodesOld n hn
  exact List.mem_map.mpr ⟨m, hm, by simp only [nodeRole, e1, e2]⟩

theorem MutPost.trans {g g1 : Genome W} {L L1 L2 : Local W} {r : MRes W} (hs : LStep g g1) (hv : ViewExt L L1 g1)
    (h : MutPost g1 L1 L2 r) : MutPost g L L2 r := by
  unfold MutPost at h ⊢
  split
  · trivial
  · rename_i g' _ _
    simp only at h
    exact ⟨h.1, hs.trans h.2.1, hv.trans h.2.2 h.2.1.bindsOld h.2.1.rolesOld⟩

/-! ### mutateConnectSensors -/

/-- postcondition of one loop iteration -/
def ConnPost (g : Genome W) (L : Local W) (L' : Local W) (r : CRes W) : Prop :=
  match r with
  | .error _ => True
  | .ok (none, _) => L'.B = L.B ∧ L'.R = L.R
  | .ok (some (g', _), _) => WFT g' ∧ LStep g g' ∧ ViewExt L L' g' ∧ g'.nodes = g.nodes

theorem connectOneP_valid {bi : Int} (sensor output : Node) (g : Genome W) (added : Bool) (rs : List Nat) (L : Local W)
    (hw : WFT g) (hh : Holds L g) (hd : HeadLe bi g) (hsn : sensor ∈ g.nodes) (ho : output ∈ g.nodes)
    (hos : output.isSensor = false) : PValid bi (ConnPost g L) L (connectOneP sensor output g added rs) := by
  unfold connectOneP
  split
  · exact .done ⟨hw, LStep.refl g, ViewExt.of_holds hh rfl rfl, rfl⟩
  rename_i hany
  have hnolink : ∀ y ∈ g.genes, ¬ (y.src = sensor.id ∧ y.dst = output.id) := by
    intro y hy ⟨e1, e2⟩
    apply hany
    exact List.any_eq_true.mpr ⟨y, hy, by simp [e1, e2]⟩
  have hsrc : sensor.id ∈ nodeIds g := List.mem_map_of_mem hsn
  have hdst : output.id ∈ nodeIds g := List.mem_map_of_mem ho
  have hsens' : ∀ n ∈ g.nodes, n.id = output.id → n.isSensor = false := by
    intro n hn e
    rw [node_unique g.nodes hw.wf.nodesSorted n output hn ho e]; exact hos
  refine .snap fun recs hs => ?_
  split
  · rename_i inn hfind
    have hmem : inn ∈ recs := List.mem_of_find?_eq_some hfind
    have hp := List.find?_some hfind
    simp only [Bool.and_eq_true, beq_iff_eq, Bool.not_eq_eq_eq_not, Bool.not_true] at hp
    obtain ⟨⟨⟨ht, hin⟩, hout⟩, hrec⟩ := hp
    split
    · exact .done trivial
    rename_i tr htr
    simp only
    split
    · exact .done ⟨rfl, rfl⟩
    rename_i hhave
    have hinn := found_link_new hs hw hh hmem ht
      { inn := inn.inn, src := sensor.id, dst := output.id, recur := false, w := inn.w, mnum := zero, en := true, trait := tr } rfl
      (by unfold Gene.link; simp only [hin, hout, hrec]) (Bool.eq_false_iff.mpr hhave)
    have hwf' := addGene_wft g _ hw hinn (by
      intro y hy e
      unfold Gene.link at e; simp only [Prod.mk.injEq] at e
      exact hnolink y hy ⟨e.1, e.2.1⟩) hsrc hdst hsens' (traitAt_ok g _ tr htr hw.tnz)
    refine .ghostB (b := (inn.inn, inn.inId, inn.outId, inn.recur)) (.inl ⟨inn, List.mem_append_left _ hmem, ht, rfl⟩) (.done ?_)
    exact ⟨hwf', lstep_addGene g _ hw hwf' (headLe_lt_of_snap hs hd hmem (inn_mem_recInns inn)),
           viewExt_addGene _ hh (by simp only [geneBind, hin, hout, hrec]) rfl, rfl⟩
  · split
    · exact .done trivial
    split
    · exact .done trivial
    rename_i traitNum rs3 _ w rs4 _
    refine .nextInn fun innId hfr => ?_
    split
    · exact .done trivial
    rename_i tr htr
    refine .store (.inl ⟨rfl, List.mem_cons_self⟩) ?_
    have hinn : ∀ y ∈ g.genes, y.inn ≠ innId := by
      intro y hy e
      have := hfr.1 _ (hh.B y hy)
      simp only [geneBind] at this; omega
    have hwf' := addGene_wft g
      { inn := innId, src := sensor.id, dst := output.id, recur := false, w := w, mnum := w, en := true, trait := tr } hw hinn (by
      intro y hy e
      unfold Gene.link at e; simp only [Prod.mk.injEq] at e
      exact hnolink y hy ⟨e.1, e.2.1⟩) hsrc hdst hsens' (traitAt_ok g _ tr htr hw.tnz)
    refine .ghostB (b := (innId, sensor.id, output.id, false)) (.inl ⟨_, List.mem_cons_self, rfl, rfl⟩) (.done ?_)
    refine ⟨hwf', lstep_addGene g _ hw hwf' (fun h0 h0m => ?_), viewExt_addGene _ hh rfl rfl, rfl⟩
    have := hd h0 h0m
    have := hfr.2.2
    simp only; omega

theorem connectLoopP_valid {bi : Int} (sensor : Node) (outs : List Node) :
    ∀ (g : Genome W) (added : Bool) (rs : List Nat) (L : Local W), WFT g → Holds L g → HeadLe bi g → sensor ∈ g.nodes →
      (∀ o ∈ outs, o ∈ g.nodes ∧ o.isSensor = false) →
      PValid bi (MutPost g L) L (connectLoopP sensor outs g added rs) := by
  induction outs with
  | nil =>
    intro g added rs L hw hh _ _ _
    exact .done ⟨hw, LStep.refl g, ViewExt.of_holds hh rfl rfl⟩
  | cons o os ih =>
    intro g added rs L hw hh hd hsn ho
    unfold connectLoopP
    refine (connectOneP_valid sensor o g added rs L hw hh hd hsn (ho o (by simp)).1 (ho o (by simp)).2).bind ?_
    intro L' r hpost
    unfold ConnPost at hpost
    split
    · exact .done trivial
    · simp only at hpost
      exact .done ⟨hw, LStep.refl g, ViewExt.of_holds hh hpost.1 hpost.2⟩
    · rename_i g' added' rs'
      simp only at hpost
      obtain ⟨hw', hs', hv', hn'⟩ := hpost
      refine (ih g' added' rs' L' hw' hv'.holds (hd.of_step hs') (hn' ▸ hsn)
        (fun x hx => hn' ▸ ho x (List.mem_cons_of_mem _ hx))).mono ?_
      intro L'' r' hp
      exact MutPost.trans hs' hv' hp

theorem mutateConnectSensorsP_valid {bi : Int} (g : Genome W) (rs : List Nat) (L : Local W)
    (hw : WFT g) (hh : Holds L g) (hd : HeadLe bi g) : PValid bi (MutPost g L) L (mutateConnectSensorsP g rs) := by
  unfold mutateConnectSensorsP
  split
  · exact .done trivial
  simp only
  split
  · exact .done ⟨hw, LStep.refl g, ViewExt.of_holds hh rfl rfl⟩
  split
  · exact .done trivial
  split
  · exact .done trivial
  rename_i sensor hsen
  have hsm := List.mem_of_getElem? hsen
  have hs : sensor ∈ g.nodes := (List.mem_filter.mp (List.mem_filter.mp hsm).1).1
  exact connectLoopP_valid sensor _ g false _ L hw hh hd hs (fun o ho => by
    have := List.mem_filter.mp ho
    exact ⟨this.1, by simpa using this.2⟩)

/-! ### mutateAddNode -/

theorem lstep_disable (g : Genome W) (k : Nat) (hw : WFT g) :
    LStep g ({ g with genes := setEnabledAt g.genes k false } : Genome W) ∧
    WFT ({ g with genes := setEnabledAt g.genes k false } : Genome W) ∧
    gb ({ g with genes := setEnabledAt g.genes k false } : Genome W) = gb g := by
  obtain ⟨hskel, hrefs1, _⟩ := setEnabledAt_step g k false hw.wf.traitRefs
  have hgb := C03.gb_setEnabledAt g k false
  refine ⟨⟨fun b hb => by rw [hgb]; exact hb, fun n h => ⟨n, h, rfl, rfl⟩, fun m h => .inl ⟨m, h, rfl, rfl⟩, rfl, ?_, rfl⟩,
          hskel.wft hrefs1 hw, hgb⟩
  have := congrArg List.head? hskel.inns
  simpa [List.head?_map] using this

theorem holds_of_gb {L : Local W} {g g1 : Genome W} (h : Holds L g) (hb : gb g1 = gb g) (hn : g1.nodes = g.nodes) : Holds L g1 := by
  refine ⟨fun x hx => ?_, fun n hn' => h.R n (hn ▸ hn')⟩
  have : geneBind x ∈ gb g := hb ▸ List.mem_map_of_mem hx
  obtain ⟨y, hy, e⟩ := List.mem_map.mp this
  rw [← e]; exact h.B y hy

theorem lstep_addSplit (g : Genome W) (x1 x2 : Gene W) (n : Node) (hw : WFT g)
    (hw' : WFT ({ g with genes := geneInsert (geneInsert g.genes x1) x2, nodes := nodeInsert g.nodes n } : Genome W))
    (hk : n.kind = Kind.hidden) (hlt1 : ∀ h0 ∈ g.genes.take 1, h0.inn < x1.inn) (hlt2 : ∀ h0 ∈ g.genes.take 1, h0.inn < x2.inn) :
    LStep g ({ g with genes := geneInsert (geneInsert g.genes x1) x2, nodes := nodeInsert g.nodes n } : Genome W) := by
  have hmem : ∀ y, y ∈ geneInsert (geneInsert g.genes x1) x2 ↔ y = x2 ∨ y = x1 ∨ y ∈ g.genes := by
    intro y; rw [C03.mem_geneInsert, C03.mem_geneInsert]
  refine ⟨fun b hb => ?_, fun m hm => ⟨m, (C03.mem_nodeInsert _ _ _).mpr (.inr hm), rfl, rfl⟩, fun m hm => ?_, rfl, ?_, rfl⟩
  · obtain ⟨y, hy, rfl⟩ := List.mem_map.mp hb
    exact List.mem_map.mpr ⟨y, (hmem y).mpr (.inr (.inr hy)), rfl⟩
  · rcases (C03.mem_nodeInsert _ _ _).mp hm with rfl | h
    · exact .inr hk
    · exact .inl ⟨m, h, rfl, rfl⟩
  · apply head_preserved g _ hw hw'.wf.genesSorted
    · intro y hy
      exact ⟨y, (hmem y).mpr (.inr (.inr hy)), rfl⟩
    · intro z hz
      rcases (hmem z).mp hz with rfl | rfl | h
      · exact .inr hlt2
      · exact .inr hlt1
      · exact .inl ⟨z, h, rfl⟩

theorem viewExt_addSplit {L L' : Local W} {g : Genome W} (x1 x2 : Gene W) (n : Node) (h : Holds L g)
    (hB : L'.B = geneBind x2 :: geneBind x1 :: L.B) (hR : L'.R = nodeRole n :: L.R) :
    ViewExt L L' ({ g with genes := geneInsert (geneInsert g.genes x1) x2, nodes := nodeInsert g.nodes n } : Genome W) := by
  have hmem : ∀ y, y ∈ geneInsert (geneInsert g.genes x1) x2 ↔ y = x2 ∨ y = x1 ∨ y ∈ g.genes := by
    intro y; rw [C03.mem_geneInsert, C03.mem_geneInsert]
  refine ⟨fun b hb => hB ▸ List.mem_cons_of_mem _ (List.mem_cons_of_mem _ hb), fun p hp => hR ▸ List.mem_cons_of_mem _ hp,
          ?_, ?_, ?_, ?_⟩
  · intro y hy
    rw [hB]
    rcases (hmem y).mp hy with rfl | rfl | hy'
    · exact List.mem_cons_self
    · exact List.mem_cons_of_mem _ List.mem_cons_self
    · exact List.mem_cons_of_mem _ (List.mem_cons_of_mem _ (h.B y hy'))
  · intro m hm
    rw [hR]
    rcases (C03.mem_nodeInsert _ _ _).mp hm with rfl | hm'
    · exact List.mem_cons_self
    · exact List.mem_cons_of_mem _ (h.R m hm')
  · intro b hb
    rw [hB] at hb
    rcases List.mem_cons.mp hb with rfl | hb'
    · exact .inr (List.mem_map.mpr ⟨x2, (hmem x2).mpr (.inl rfl), rfl⟩)
    · rcases List.mem_cons.mp hb' with rfl | hb''
      · exact .inr (List.mem_map.mpr ⟨x1, (hmem x1).mpr (.inr (.inl rfl)), rfl⟩)
      · exact .inl hb''
  · intro p hp
    rw [hR] at hp
    rcases List.mem_cons.mp hp with rfl | hp'
    · exact .inr (List.mem_map.mpr ⟨n, (C03.mem_nodeInsert _ _ _).mpr (.inl rfl), rfl⟩)
    · exact .inl hp'

theorem mutateAddNodeP_valid {bi : Int} (g : Genome W) (o : MutOpts W) (rs : List Nat) (L : Local W)
    (hw : WFT g) (hh : Holds L g) (hd : HeadLe bi g) : PValid bi (MutPost g L) L (mutateAddNodeP g o rs) := by
  have hrefl : ∀ (L' : Local W) b rs', L'.B = L.B → L'.R = L.R → MutPost g L L' (.ok ((g, b), rs')) :=
    fun L' b rs' e1 e2 => ⟨hw, LStep.refl g, ViewExt.of_holds hh e1 e2⟩
  unfold mutateAddNodeP
  split
  · exact .done (hrefl _ _ _ rfl rfl)
  simp only
  split
  · exact .done trivial
  · exact .done (hrefl _ _ _ rfl rfl)
  rename_i k rs1 _
  split
  · exact .done trivial
  rename_i gene hk
  have hgm : gene ∈ g.genes := List.mem_of_getElem? hk
  obtain ⟨hs1, hw1, hgb1⟩ := lstep_disable g k hw
  have hh1 : Holds L ({ g with genes := setEnabledAt g.genes k false } : Genome W) := holds_of_gb hh hgb1 rfl
  have hd1 : HeadLe bi ({ g with genes := setEnabledAt g.genes k false } : Genome W) := hd.of_step hs1
  have hsrc : gene.src ∈ nodeIds g := (hw.wf.endpoints gene hgm).1
  have hdst : gene.dst ∈ nodeIds g := (hw.wf.endpoints gene hgm).2
  have hsens : ∀ m ∈ g.nodes, m.id = gene.dst → m.isSensor = false := hw.wf.noSensorTarget gene hgm
  have htrg : TraitRefOk g gene.trait := hw.wf.traitRefs.1 gene hgm
  have hgeneB : geneBind gene ∈ L.B := hh.B gene hgm
  have post1 : ∀ (L' : Local W) b rs', L'.B = L.B → L'.R = L.R →
      MutPost g L L' (.ok ((({ g with genes := setEnabledAt g.genes k false } : Genome W), b), rs')) :=
    fun L' b rs' e1 e2 => ⟨hw1, hs1, ViewExt.of_holds hh1 e1 e2⟩
  refine .snap fun recs hs => ?_
  split
  · rename_i inn hfind
    have hmem : inn ∈ recs := List.mem_of_find?_eq_some hfind
    have hp := List.find?_some hfind
    simp only [Bool.and_eq_true, beq_iff_eq] at hp
    obtain ⟨⟨⟨ht, hin⟩, hout⟩, hold⟩ := hp
    split
    · exact .done trivial
    rename_i tr0 htr0
    split
    · exact .done (post1 _ _ _ rfl rfl)
    rename_i hhas
    have hnid : inn.newNode ∉ nodeIds g :=
      not_mem_nodeIds_of_hasNode ({ g with genes := setEnabledAt g.genes k false } : Genome W) _
        (Bool.eq_false_iff.mpr hhas)
    have hwf' := addSplit_wft ({ g with genes := setEnabledAt g.genes k false } : Genome W)
      { id := inn.newNode, kind := Kind.hidden, act := defaultActivation, trait := tr0 }
      { inn := inn.inn, src := gene.src, dst := inn.newNode, recur := gene.recur, w := one, mnum := zero, en := true, trait := gene.trait }
      { inn := inn.inn2, src := inn.newNode, dst := gene.dst, recur := false, w := gene.w, mnum := zero, en := true, trait := gene.trait }
      hw1 hnid rfl (traitAt_ok _ _ tr0 htr0 hw.tnz) ⟨rfl, hsrc, htrg⟩ ⟨rfl, hdst, htrg⟩ hsens
      (by
        intro y hy e
        have := (hs.node1 inn hmem ht _ (hh1.B y hy) e).2
        simp only [geneBind] at this
        exact hnid (this ▸ (hw1.wf.endpoints y hy).2))
      (by
        intro y hy e
        have := hs.node2 inn hmem ht _ (hh1.B y hy) e
        simp only [geneBind, Prod.mk.injEq] at this
        exact hnid (this.2.1 ▸ (hw1.wf.endpoints y hy).1))
      (hs.ne12 inn hmem ht)
    have hk1 := List.mem_append_left L.known hmem
    refine .ghostB (b := (inn.inn, inn.inId, inn.newNode, gene.recur))
      (.inr (.inl ⟨inn, hk1, ht, geneBind gene, hgeneB, hold.symm, rfl⟩)) ?_
    refine .ghostB (b := (inn.inn2, inn.newNode, inn.outId, false)) (.inr (.inr ⟨inn, hk1, ht, rfl⟩)) ?_
    refine .ghostR (r := (inn.newNode, Kind.hidden)) ⟨inn, hk1, ht, rfl⟩ (.done ?_)
    refine ⟨hwf', hs1.trans (lstep_addSplit _ _ _ _ hw1 hwf' rfl
              (headLe_lt_of_snap hs hd1 hmem (inn_mem_recInns inn)) (headLe_lt_of_snap hs hd1 hmem (inn2_mem_recInns inn ht))), ?_⟩
    exact viewExt_addSplit _ _ _ hh1 (by simp only [geneBind, hin, hout]) rfl
  · refine .nextNode fun nid hfn => ?_
    split
    · exact .done trivial
    rename_i tr0 htr0
    split
    · exact .done trivial
    rename_i act rs2 _
    refine .nextInn fun k1 hf1 => ?_
    refine .nextInn fun k2 hf2 => ?_
    have hk12 : k1 ≠ k2 := fun e => hf2.2.1 (e ▸ List.mem_cons_self)
    refine .store (.inr ⟨rfl, List.mem_cons_of_mem _ List.mem_cons_self, List.mem_cons_self, hk12, List.mem_cons_self,
      geneBind gene, hgeneB, rfl, rfl, rfl⟩) ?_
    have hnid : nid ∉ nodeIds g := by
      intro hm
      obtain ⟨m, hm', e⟩ := List.mem_map.mp hm
      exact hfn.1 _ (hh.R m hm') e
    have hlt1 : ∀ y ∈ (setEnabledAt g.genes k false), y.inn ≠ k1 := by
      intro y hy e
      have := hf1.1 _ (hh1.B y hy)
      simp only [geneBind] at this; omega
    have hlt2 : ∀ y ∈ (setEnabledAt g.genes k false), y.inn ≠ k2 := by
      intro y hy e
      have := hf2.1 _ (hh1.B y hy)
      simp only [geneBind] at this; omega
    have hwf' := addSplit_wft ({ g with genes := setEnabledAt g.genes k false } : Genome W)
      { id := nid, kind := Kind.hidden, act := act, trait := tr0 }
      { inn := k1, src := gene.src, dst := nid, recur := gene.recur, w := one, mnum := zero, en := true, trait := gene.trait }
      { inn := k2, src := nid, dst := gene.dst, recur := false, w := gene.w, mnum := zero, en := true, trait := gene.trait }
      hw1 hnid rfl (traitAt_ok _ _ tr0 htr0 hw.tnz) ⟨rfl, hsrc, htrg⟩ ⟨rfl, hdst, htrg⟩ hsens hlt1 hlt2 hk12
    refine .ghostB (b := (k1, gene.src, nid, gene.recur))
      (.inr (.inl ⟨_, List.mem_cons_self, rfl, geneBind gene, hgeneB, rfl, rfl⟩)) ?_
    refine .ghostB (b := (k2, nid, gene.dst, false)) (.inr (.inr ⟨_, List.mem_cons_self, rfl, rfl⟩)) ?_
    refine .ghostR (r := (nid, Kind.hidden)) ⟨_, List.mem_cons_self, rfl, rfl⟩ (.done ?_)
    refine ⟨hwf', hs1.trans (lstep_addSplit _ _ _ _ hw1 hwf' rfl (fun h0 h0m => ?_) (fun h0 h0m => ?_)), ?_⟩
    · have := hd1 h0 h0m; have := hf1.2.2; simp only; omega
    · have := hd1 h0 h0m; have := hf2.2.2; simp only; omega
    · exact viewExt_addSplit _ _ _ hh1 rfl rfl

/-- every structural mutation -/
theorem mutKind_valid {bi : Int} (k : MutKind W) (g : Genome W) (rs : List Nat) (L : Local W)
    (hw : WFT g) (hh : Holds L g) (hd : HeadLe bi g) : PValid bi (MutPost g L) L (k.prog g rs) := by
  cases k with
  | addLink o => exact mutateAddLinkP_valid g o rs L hw hh hd
  | addNode o => exact mutateAddNodeP_valid g o rs L hw hh hd
  | connectSensors => exact mutateConnectSensorsP_valid g rs L hw hh hd

end GoNeat.C16
