/-
  C01 helper lemmas for the three crossovers: the invariant of the child under construction (`AccInv`) is
  established by the common prologue (`matePrologue`: averaged traits, copies of the second parent's
  input/bias/output nodes) and preserved by "add the chosen gene to the baby" (`addChosen`).
-/
import GoNeat.Proofs.WFLemmas
import GoNeat.Proofs.WFStruct
import GoNeat.Props.C04

namespace GoNeat.C01
open GoNeat Scalar
variable {W : Type} [Scalar W]

/-- a trait reference resolves in a trait list (`TraitRefOk` of a genome with these traits) -/
def RefIn (nt : List (Trait W)) (t : Option Int) : Prop :=
  match t with
  | none => True
  | some id => id ≠ 0 ∧ id ∈ nt.map (·.id)

omit [Scalar W] in
theorem traitRefOk_iff_refIn (g : Genome W) (t : Option Int) : TraitRefOk g t ↔ RefIn g.traits t := by
  cases t <;> rfl

omit [Scalar W] in
/-- the trait pointer a copied node/gene receives resolves in the child's traits -/
theorem childTraitRef_ok (nt : List (Trait W)) (t0 t tr : Option Int) (h : childTraitRef nt t0 t = .ok tr)
    (hz : ∀ t' ∈ nt, t'.id ≠ 0) : RefIn nt tr := by
  unfold childTraitRef at h
  simp only at h
  split at h
  · cases h
  · split at h
    · cases h
    · split at h
      · cases h
      · rename_i t' ht'
        cases h
        have hm : t' ∈ nt := List.mem_of_getElem? ht'
        exact ⟨hz t' hm, List.mem_map_of_mem hm⟩

/-! ### averaged traits keep the first parent's ids -/

theorem mateTraits_ids (ts1 ts2 nt : List (Trait W)) (h : mateTraits ts1 ts2 = .ok nt) :
    nt.map (·.id) = ts1.map (·.id) := by
  induction ts1 generalizing ts2 nt with
  | nil => unfold mateTraits at h; cases h; rfl
  | cons t1 r1 ih =>
    cases ts2 with
    | nil => unfold mateTraits at h; cases h
    | cons t2 r2 =>
      unfold mateTraits at h
      split at h
      · cases h
      · rename_i t ht
        split at h
        · cases h
        · rename_i ts hts
          cases h
          have : t.id = t1.id := by
            unfold traitAvg at ht
            split at ht
            · cases ht
            · cases ht; rfl
          simp [this, ih _ _ hts]

/-! ### nodes of the child -/

/-- a child node is a copy (same id and kind) of a node of one of the parents -/
def FromParents (p1 p2 : Genome W) (m : Node) : Prop :=
  ∃ n, (n ∈ p1.nodes ∨ n ∈ p2.nodes) ∧ n.id = m.id ∧ n.kind = m.kind

omit [Scalar W] in
theorem ensureNode_spec (nt : List (Trait W)) (t0 : Option Int) (nodes nodes' : List Node) (n : Node)
    (h : ensureNode nt t0 nodes n = .ok nodes') (hz : ∀ t' ∈ nt, t'.id ≠ 0) (hs : NodesSorted nodes) :
    NodesSorted nodes' ∧ (∀ m ∈ nodes, m ∈ nodes') ∧ n.id ∈ nodes'.map (·.id) ∧
    (∀ m ∈ nodes', m ∈ nodes ∨ (m.id = n.id ∧ m.kind = n.kind ∧ RefIn nt m.trait)) := by
  unfold ensureNode at h
  split at h
  · rename_i hany
    cases h
    obtain ⟨m, hm, e⟩ := List.any_eq_true.mp hany
    exact ⟨hs, fun m hm => hm, List.mem_map.mpr ⟨m, hm, by simpa using e⟩, fun m hm => Or.inl hm⟩
  · rename_i hany
    split at h
    · cases h
    · rename_i tr htr
      cases h
      have hfresh : ∀ m ∈ nodes, m.id ≠ ({ n with trait := tr } : Node).id := by
        intro m hm e
        apply hany
        exact List.any_eq_true.mpr ⟨m, hm, by simpa using e⟩
      have hsorted := insertAt_sorted (fun m : Node => m.id) nodes { n with trait := tr } hs hfresh
      have hmem : ∀ m, m ∈ nodeInsert nodes { n with trait := tr } ↔ m = { n with trait := tr } ∨ m ∈ nodes :=
        fun m => mem_insertAt _ _ _ _
      refine ⟨hsorted.1, fun m hm => (hmem m).mpr (Or.inr hm),
              List.mem_map.mpr ⟨_, (hmem _).mpr (Or.inl rfl), rfl⟩, ?_⟩
      intro m hm
      rcases (hmem m).mp hm with rfl | h
      · exact Or.inr ⟨rfl, rfl, childTraitRef_ok nt t0 _ tr htr hz⟩
      · exact Or.inl h

omit [Scalar W] in
/-- the copies of the second parent's input/bias/output nodes -/
theorem ioNodes_spec (nt : List (Trait W)) (t0 : Option Int) (ns acc res : List Node)
    (h : ioNodes nt t0 ns acc = .ok res) (hz : ∀ t' ∈ nt, t'.id ≠ 0)
    (hs : NodesSorted acc) (hns : ns.Pairwise (fun a b => a.id ≠ b.id)) (hd : ∀ a ∈ acc, ∀ n ∈ ns, a.id ≠ n.id)
    (hkv : ∀ n ∈ ns, n.kind ≤ 3) :
    NodesSorted res ∧ (∀ m ∈ acc, m ∈ res) ∧
    (∀ m ∈ res, m ∈ acc ∨ ∃ n ∈ ns, n.id = m.id ∧ n.kind = m.kind ∧ RefIn nt m.trait) ∧
    (∀ n ∈ ns, n.kind ≠ Kind.hidden → ∃ m ∈ res, m.id = n.id ∧ m.kind = n.kind) := by
  induction ns generalizing acc with
  | nil =>
    unfold ioNodes at h; cases h
    exact ⟨hs, fun m hm => hm, fun m hm => Or.inl hm, fun n hn => by simp at hn⟩
  | cons n rest ih =>
    rw [List.pairwise_cons] at hns
    unfold ioNodes at h
    split at h
    · rename_i hio
      split at h
      · cases h
      · rename_i tr htr
        have hfresh : ∀ m ∈ acc, m.id ≠ ({ n with trait := tr } : Node).id := fun m hm => hd m hm n (by simp)
        have hsorted := insertAt_sorted (fun m : Node => m.id) acc { n with trait := tr } hs hfresh
        have hmem : ∀ m, m ∈ nodeInsert acc { n with trait := tr } ↔ m = { n with trait := tr } ∨ m ∈ acc :=
          fun m => mem_insertAt _ _ _ _
        obtain ⟨r1, r2, r3, r4⟩ := ih (nodeInsert acc { n with trait := tr }) h hsorted.1 hns.2 (by
          intro a ha k hk
          rcases (hmem a).mp ha with rfl | ha'
          · exact hns.1 k hk
          · exact hd a ha' k (List.mem_cons_of_mem _ hk)) (fun k hk => hkv k (List.mem_cons_of_mem _ hk))
        refine ⟨r1, fun m hm => r2 m ((hmem m).mpr (Or.inr hm)), ?_, ?_⟩
        · intro m hm
          rcases r3 m hm with h' | ⟨k, hk, e⟩
          · rcases (hmem m).mp h' with rfl | h''
            · exact Or.inr ⟨n, by simp, rfl, rfl, childTraitRef_ok nt t0 _ tr htr hz⟩
            · exact Or.inl h''
          · exact Or.inr ⟨k, List.mem_cons_of_mem _ hk, e⟩
        · intro k hk hkind
          rcases List.mem_cons.mp hk with rfl | hk'
          · exact ⟨_, r2 _ ((hmem _).mpr (Or.inl rfl)), rfl, rfl⟩
          · exact r4 k hk' hkind
    · rename_i hio
      obtain ⟨r1, r2, r3, r4⟩ := ih acc h hs hns.2 (fun a ha k hk => hd a ha k (List.mem_cons_of_mem _ hk))
        (fun k hk => hkv k (List.mem_cons_of_mem _ hk))
      refine ⟨r1, r2, ?_, ?_⟩
      · intro m hm
        rcases r3 m hm with h' | ⟨k, hk, e⟩
        · exact Or.inl h'
        · exact Or.inr ⟨k, List.mem_cons_of_mem _ hk, e⟩
      · intro k hk hkind
        rcases List.mem_cons.mp hk with rfl | hk'
        · exfalso
          apply hio
          have : k.kind = Kind.input ∨ k.kind = Kind.bias ∨ k.kind = Kind.output := by
            have key : ∀ z : Nat, z ≤ 3 → z ≠ 0 → z = 1 ∨ z = 3 ∨ z = 2 := by intro z a b; omega
            exact key k.kind (hkv k (by simp)) hkind
          rcases this with e | e | e <;> simp [e]
        · exact r4 k hk' hkind

/-! ### the invariant of the child under construction -/

/-- provenance of a child gene: its number is a parent gene's number, and source, target and recurrence flag are those
    of parent genes carrying that number (one parent gene for the copying choices, possibly different ones when averaging) -/
def Prov (p1 p2 : Genome W) (x : Gene W) : Prop :=
  ∃ y1 y2 y3 : Gene W, (y1 ∈ p1.genes ∨ y1 ∈ p2.genes) ∧ (y2 ∈ p1.genes ∨ y2 ∈ p2.genes) ∧ (y3 ∈ p1.genes ∨ y3 ∈ p2.genes) ∧
    y1.inn = x.inn ∧ y2.inn = x.inn ∧ y3.inn = x.inn ∧ x.src = y1.src ∧ x.dst = y2.dst ∧ x.recur = y3.recur

omit [Scalar W] in
theorem Prov.of_parent {p1 p2 : Genome W} {x : Gene W} (h : x ∈ p1.genes ∨ x ∈ p2.genes) : Prov p1 p2 x :=
  ⟨x, x, x, h, h, h, rfl, rfl, rfl, rfl, rfl, rfl⟩

structure AccInv (p1 p2 : Genome W) (nt : List (Trait W)) (acc : MateAcc W) : Prop where
  nodesSorted : NodesSorted acc.nodes
  nodesFrom : ∀ m ∈ acc.nodes, FromParents p1 p2 m
  nodeTraits : ∀ m ∈ acc.nodes, RefIn nt m.trait
  links : LinksDistinct acc.genes
  endpoints : ∀ x ∈ acc.genes, x.src ∈ acc.nodes.map (·.id) ∧ x.dst ∈ acc.nodes.map (·.id)
  geneTraits : ∀ x ∈ acc.genes, RefIn nt x.trait
  dstFrom : ∀ x ∈ acc.genes, ∃ y, (y ∈ p1.genes ∨ y ∈ p2.genes) ∧ y.dst = x.dst
  io : ∀ n ∈ p2.nodes, n.kind ≠ Kind.hidden → ∃ m ∈ acc.nodes, m.id = n.id ∧ m.kind = n.kind
  prov : ∀ x ∈ acc.genes, Prov p1 p2 x

/-- a chosen gene comes with endpoint node objects of a parent that carry the gene's endpoint ids, and its target is
    the target of a parent's gene -/
structure Legit (p1 p2 : Genome W) (c : Chosen W) : Prop where
  src : ∀ sn, c.srcN = some sn → sn.id = c.gene.src ∧ (sn ∈ p1.nodes ∨ sn ∈ p2.nodes)
  dst : ∀ dn, c.dstN = some dn → dn.id = c.gene.dst ∧ (dn ∈ p1.nodes ∨ dn ∈ p2.nodes)
  dstFrom : ∃ y, (y ∈ p1.genes ∨ y ∈ p2.genes) ∧ y.dst = c.gene.dst
  prov : Prov p1 p2 c.gene

omit [Scalar W] in
theorem nodeById_some (nodes : List Node) (id : Int) (n : Node) (h : nodeById nodes id = some n) :
    n.id = id ∧ n ∈ nodes := by
  unfold nodeById at h
  have h1 := List.find?_some h
  have h2 := List.mem_of_find?_eq_some h
  exact ⟨by simpa using h1, List.mem_reverse.mp h2⟩

omit [Scalar W] in
theorem legit_chooseFrom_left (p1 p2 : Genome W) (x : Gene W) (hx : x ∈ p1.genes) : Legit p1 p2 (chooseFrom p1 x) :=
  ⟨fun sn h => ⟨(nodeById_some _ _ _ h).1, Or.inl (nodeById_some _ _ _ h).2⟩,
   fun dn h => ⟨(nodeById_some _ _ _ h).1, Or.inl (nodeById_some _ _ _ h).2⟩, ⟨x, Or.inl hx, rfl⟩,
   Prov.of_parent (Or.inl hx)⟩

omit [Scalar W] in
theorem legit_chooseFrom_right (p1 p2 : Genome W) (y : Gene W) (hy : y ∈ p2.genes) : Legit p1 p2 (chooseFrom p2 y) :=
  ⟨fun sn h => ⟨(nodeById_some _ _ _ h).1, Or.inr (nodeById_some _ _ _ h).2⟩,
   fun dn h => ⟨(nodeById_some _ _ _ h).1, Or.inr (nodeById_some _ _ _ h).2⟩, ⟨y, Or.inr hy, rfl⟩,
   Prov.of_parent (Or.inr hy)⟩

omit [Scalar W] in
theorem prov_avg (p1 p2 : Genome W) (x y : Gene W) (hx : x ∈ p1.genes) (hy : y ∈ p2.genes) (heq : x.inn = y.inn)
    (b1 b2 b3 : Bool) (g' : Gene W) (hi : g'.inn = x.inn) (hs : g'.src = if b1 then x.src else y.src)
    (hd : g'.dst = if b2 then x.dst else y.dst) (hr : g'.recur = if b3 then x.recur else y.recur) : Prov p1 p2 g' := by
  have pick : ∀ (b : Bool), ∃ z : Gene W, (z ∈ p1.genes ∨ z ∈ p2.genes) ∧ z.inn = x.inn ∧
      z.src = (if b then x.src else y.src) ∧ z.dst = (if b then x.dst else y.dst) ∧
      z.recur = (if b then x.recur else y.recur) := by
    intro b
    cases b
    · exact ⟨y, Or.inr hy, heq.symm, rfl, rfl, rfl⟩
    · exact ⟨x, Or.inl hx, rfl, rfl, rfl, rfl⟩
  obtain ⟨z1, m1, i1, s1, _, _⟩ := pick b1
  obtain ⟨z2, m2, i2, _, d2, _⟩ := pick b2
  obtain ⟨z3, m3, i3, _, _, r3⟩ := pick b3
  exact ⟨z1, z2, z3, m1, m2, m3, by rw [i1, hi], by rw [i2, hi], by rw [i3, hi], by rw [hs, s1], by rw [hd, d2], by rw [hr, r3]⟩

theorem legit_avgChosen (p1 p2 : Genome W) (x y : Gene W) (hx : x ∈ p1.genes) (hy : y ∈ p2.genes) (heq : x.inn = y.inn)
    (c : Chosen W) (rs rs' : List Nat) (h : avgChosen p1 p2 x y rs = .ok (c, rs')) :
    Legit p1 p2 c ∧ c.gene.inn = x.inn := by
  unfold avgChosen at h
  split at h
  · cases h
  · split at h
    · cases h
    · split at h
      · cases h
      · split at h
        · cases h
        · split at h
          · cases h
          · simp only [Except.ok.injEq, Prod.mk.injEq] at h
            obtain ⟨rfl, _⟩ := h
            refine ⟨⟨?_, ?_, ?_, ?_⟩, rfl⟩
            · intro sn hsn
              simp only at hsn ⊢
              split at hsn
              · rename_i hc; simp only [hc, ↓reduceIte]
                exact ⟨(nodeById_some _ _ _ hsn).1, Or.inl (nodeById_some _ _ _ hsn).2⟩
              · rename_i hc; simp only [hc]
                exact ⟨(nodeById_some _ _ _ hsn).1, Or.inr (nodeById_some _ _ _ hsn).2⟩
            · intro dn hdn
              simp only at hdn ⊢
              split at hdn
              · rename_i hc; simp only [hc, ↓reduceIte]
                exact ⟨(nodeById_some _ _ _ hdn).1, Or.inl (nodeById_some _ _ _ hdn).2⟩
              · rename_i hc; simp only [hc]
                exact ⟨(nodeById_some _ _ _ hdn).1, Or.inr (nodeById_some _ _ _ hdn).2⟩
            · simp only
              split
              · exact ⟨x, Or.inl hx, rfl⟩
              · exact ⟨y, Or.inr hy, rfl⟩
            · exact prov_avg p1 p2 x y hx hy heq _ _ _ _ rfl rfl rfl rfl

/-- **"add the chosen gene to the baby" preserves the invariant**; the gene list is unchanged (same-link conflict)
    or extended at the end by a gene with the chosen innovation number; it is extended when it was empty. -/
theorem addChosen_inv (p1 p2 : Genome W) (nt : List (Trait W)) (t0 : Option Int) (acc acc' : MateAcc W) (c : Chosen W)
    (dis : Bool) (h : addChosen nt t0 acc c dis = .ok acc') (hz : ∀ t' ∈ nt, t'.id ≠ 0)
    (hinv : AccInv p1 p2 nt acc) (hc : Legit p1 p2 c) :
    AccInv p1 p2 nt acc' ∧
    (acc'.genes = acc.genes ∨ ∃ g', acc'.genes = acc.genes ++ [g'] ∧ g'.inn = c.gene.inn) ∧
    (acc.genes = [] → acc'.genes ≠ []) := by
  unfold addChosen at h
  split at h
  · rename_i hany
    cases h
    refine ⟨hinv, Or.inl rfl, fun he => ?_⟩
    rw [he] at hany; simp at hany
  · rename_i hany
    split at h
    · rename_i sn dn hsn hdn
      split at h
      · cases h
      · rename_i nodes1 h1
        split at h
        · cases h
        · rename_i nodes2 h2
          split at h
          · cases h
          · rename_i tr htr
            cases h
            obtain ⟨s1, sub1, in1, from1⟩ := ensureNode_spec nt t0 _ _ sn h1 hz hinv.nodesSorted
            obtain ⟨s2, sub2, in2, from2⟩ := ensureNode_spec nt t0 _ _ dn h2 hz s1
            have hsub : ∀ m ∈ acc.nodes, m ∈ nodes2 := fun m hm => sub2 m (sub1 m hm)
            have hsubid : ∀ i ∈ acc.nodes.map (·.id), i ∈ nodes2.map (·.id) := by
              intro i hi
              obtain ⟨m, hm, e⟩ := List.mem_map.mp hi
              exact List.mem_map.mpr ⟨m, hsub m hm, e⟩
            have hsrc := hc.src sn hsn
            have hdst := hc.dst dn hdn
            refine ⟨⟨s2, ?_, ?_, ?_, ?_, ?_, ?_, ?_, ?_⟩, Or.inr ⟨_, rfl, rfl⟩, fun _ => by simp⟩
            · intro m hm
              rcases from2 m hm with h' | ⟨e1, e2, _⟩
              · rcases from1 m h' with h'' | ⟨e1, e2, _⟩
                · exact hinv.nodesFrom m h''
                · exact ⟨sn, hsrc.2, e1.symm, e2.symm⟩
              · exact ⟨dn, hdst.2, e1.symm, e2.symm⟩
            · intro m hm
              rcases from2 m hm with h' | ⟨_, _, e3⟩
              · rcases from1 m h' with h'' | ⟨_, _, e3⟩
                · exact hinv.nodeTraits m h''
                · exact e3
              · exact e3
            · show LinksDistinct (acc.genes ++ [_])
              unfold LinksDistinct
              rw [List.pairwise_append]
              refine ⟨hinv.links, by simp, ?_⟩
              intro a ha b hb
              simp only [List.mem_singleton] at hb
              subst hb
              intro e
              apply hany
              exact List.any_eq_true.mpr ⟨a, ha, (C04.sameLink_iff a c.gene).mpr e⟩
            · intro x hx
              rcases List.mem_append.mp hx with hx' | hx'
              · exact ⟨hsubid _ (hinv.endpoints x hx').1, hsubid _ (hinv.endpoints x hx').2⟩
              · simp only [List.mem_singleton] at hx'
                subst hx'
                refine ⟨?_, ?_⟩
                · show c.gene.src ∈ _
                  rw [← hsrc.1]
                  obtain ⟨m, hm, e⟩ := List.mem_map.mp in1
                  exact List.mem_map.mpr ⟨m, sub2 m hm, e⟩
                · show c.gene.dst ∈ _
                  rw [← hdst.1]; exact in2
            · intro x hx
              rcases List.mem_append.mp hx with hx' | hx'
              · exact hinv.geneTraits x hx'
              · simp only [List.mem_singleton] at hx'
                subst hx'
                exact childTraitRef_ok nt t0 _ tr htr hz
            · intro x hx
              rcases List.mem_append.mp hx with hx' | hx'
              · exact hinv.dstFrom x hx'
              · simp only [List.mem_singleton] at hx'
                subst hx'
                exact hc.dstFrom
            · intro n hn hk
              obtain ⟨m, hm, e⟩ := hinv.io n hn hk
              exact ⟨m, hsub m hm, e⟩
            · intro x hx
              rcases List.mem_append.mp hx with hx' | hx'
              · exact hinv.prov x hx'
              · simp only [List.mem_singleton] at hx'
                subst hx'
                exact hc.prov
    · cases h

/-! ### the common prologue -/

theorem matePrologue_spec (g og : Genome W) (nt : List (Trait W)) (t0 : Option Int) (nodes : List Node)
    (h : matePrologue g og = .ok (nt, t0, nodes)) (hw1 : WFT g) (hw2 : WFT og) :
    nt.map (·.id) = g.traits.map (·.id) ∧ (∀ t' ∈ nt, t'.id ≠ 0) ∧ AccInv g og nt { nodes := nodes, genes := [] } := by
  unfold matePrologue at h
  split at h
  · cases h
  · split at h
    · cases h
    · split at h
      · cases h
      · rename_i nt' hmt
        simp only at h
        split at h
        · cases h
        · rename_i nodes' hio
          simp only [Except.ok.injEq, Prod.mk.injEq] at h
          obtain ⟨rfl, rfl, rfl⟩ := h
          have hids := mateTraits_ids _ _ _ hmt
          have hz : ∀ t' ∈ nt', t'.id ≠ 0 := by
            intro t' ht'
            have : t'.id ∈ g.traits.map (·.id) := by rw [← hids]; exact List.mem_map_of_mem ht'
            obtain ⟨t, ht, e⟩ := List.mem_map.mp this
            rw [← e]; exact hw1.tnz t ht
          obtain ⟨r1, _, r3, r4⟩ := ioNodes_spec nt' _ og.nodes [] nodes' hio hz (by simp [NodesSorted])
            (hw2.wf.nodesSorted.imp (fun h => by omega)) (by simp) hw2.kinds
          refine ⟨hids, hz, ⟨r1, ?_, ?_, by simp [LinksDistinct], by simp, by simp, by simp, r4, by simp⟩⟩
          · intro m hm
            rcases r3 m hm with h' | ⟨n, hn, e1, e2, _⟩
            · simp at h'
            · exact ⟨n, Or.inr hn, e1, e2⟩
          · intro m hm
            rcases r3 m hm with h' | ⟨n, hn, _, _, e3⟩
            · simp at h'
            · exact e3

/-! ### from the finished walk to a well-formed child -/

omit [Scalar W] in
theorem isSensor_of_kind {n m : Node} (h : n.kind = m.kind) : n.isSensor = m.isSensor := by
  unfold Node.isSensor; rw [h]

omit [Scalar W] in
theorem child_wft (p1 p2 : Genome W) (nt : List (Trait W)) (acc : MateAcc W) (id : Int)
    (hinv : AccInv p1 p2 nt acc) (hs : GenesSorted acc.genes) (hne : acc.genes ≠ [])
    (hw1 : WFT p1) (hw2 : WFT p2) (hl : NodeLineage p1 p2) (hnt : nt.map (·.id) = p1.traits.map (·.id)) :
    WFT ({ id := id, traits := nt, nodes := acc.nodes, genes := acc.genes } : Genome W) ∧
    Retains p2 ({ id := id, traits := nt, nodes := acc.nodes, genes := acc.genes } : Genome W) ∧
    Retains p1 ({ id := id, traits := nt, nodes := acc.nodes, genes := acc.genes } : Genome W) := by
  have hret2 : Retains p2 ({ id := id, traits := nt, nodes := acc.nodes, genes := acc.genes } : Genome W) :=
    fun n hn hk => hinv.io n hn hk
  -- the kind of a node id is the same in both parents
  have hkind : ∀ a, (a ∈ p1.nodes ∨ a ∈ p2.nodes) → ∀ b, (b ∈ p1.nodes ∨ b ∈ p2.nodes) → a.id = b.id → a.kind = b.kind := by
    intro a ha b hb e
    rcases ha with ha | ha <;> rcases hb with hb | hb
    · rw [node_unique p1.nodes hw1.wf.nodesSorted a b ha hb e]
    · exact hl.1 a ha b hb e
    · exact (hl.1 b hb a ha e.symm).symm
    · rw [node_unique p2.nodes hw2.wf.nodesSorted a b ha hb e]
  refine ⟨⟨⟨hs, hinv.links, hinv.nodesSorted, hinv.endpoints, ⟨?_, ?_⟩, ?_, hne, ?_, ?_⟩, ?_, ?_⟩, hret2, ?_⟩
  · intro x hx; exact (traitRefOk_iff_refIn _ _).mpr (hinv.geneTraits x hx)
  · intro m hm; exact (traitRefOk_iff_refIn _ _).mpr (hinv.nodeTraits m hm)
  · intro x hx m hm e
    obtain ⟨y, hy, ey⟩ := hinv.dstFrom x hx
    obtain ⟨n, hn, en1, en2⟩ := hinv.nodesFrom m hm
    -- the target node of y in its own parent is not a sensor
    have : ∃ k, (k ∈ p1.nodes ∨ k ∈ p2.nodes) ∧ k.id = y.dst ∧ k.isSensor = false := by
      rcases hy with hy | hy
      · obtain ⟨k, hk, ek⟩ := List.mem_map.mp (hw1.wf.endpoints y hy).2
        exact ⟨k, Or.inl hk, ek, hw1.wf.noSensorTarget y hy k hk ek⟩
      · obtain ⟨k, hk, ek⟩ := List.mem_map.mp (hw2.wf.endpoints y hy).2
        exact ⟨k, Or.inr hk, ek, hw2.wf.noSensorTarget y hy k hk ek⟩
    obtain ⟨k, hk, ek, eks⟩ := this
    have e1 : n.kind = k.kind := hkind n hn k hk (by rw [en1, e, ← ey, ek])
    rw [← isSensor_of_kind en2, isSensor_of_kind e1]; exact eks
  · obtain ⟨n, hn, hk⟩ := hw2.wf.hasOutput
    obtain ⟨m, hm, _, e2⟩ := hinv.io n hn (by rw [hk]; decide)
    exact ⟨m, hm, by rw [e2]; exact hk⟩
  · exact traitsConsecutive_congr p1 _ hnt hw1.wf.traits
  · intro t ht
    have : t.id ∈ p1.traits.map (·.id) := by rw [← hnt]; exact List.mem_map_of_mem ht
    obtain ⟨t1, ht1, e⟩ := List.mem_map.mp this
    rw [← e]; exact hw1.tnz t1 ht1
  · intro m hm
    obtain ⟨n, hn, _, en2⟩ := hinv.nodesFrom m hm
    rw [← en2]
    rcases hn with hn | hn
    · exact hw1.kinds n hn
    · exact hw2.kinds n hn
  · intro n hn hk
    -- p2 has a node of this id among its input/bias/output nodes
    have hmem : n.id ∈ (p1.nodes.filter (fun n => n.kind != Kind.hidden)).map (·.id) :=
      List.mem_map.mpr ⟨n, List.mem_filter.mpr ⟨hn, by simpa using hk⟩, rfl⟩
    have hio : ioIds p1 = ioIds p2 := hl.2.2
    unfold ioIds at hio
    rw [hio] at hmem
    obtain ⟨n', hn', e'⟩ := List.mem_map.mp hmem
    have hn2 := (List.mem_filter.mp hn').1
    have ek : n.kind = n'.kind := hl.1 n hn n' hn2 e'.symm
    obtain ⟨m, hm, e1, e2⟩ := hinv.io n' hn2 (by rw [← ek]; exact hk)
    exact ⟨m, hm, by rw [e1, e'], by rw [e2, ek]⟩

/-! ### the walks: genes are appended in ascending innovation order -/

structure WalkInv (p1 p2 : Genome W) (nt : List (Trait W)) (acc : MateAcc W) (l1 l2 : List (Gene W)) : Prop where
  inv : AccInv p1 p2 nt acc
  sorted : GenesSorted acc.genes
  below1 : ∀ a ∈ acc.genes, ∀ x ∈ l1, a.inn < x.inn
  below2 : ∀ a ∈ acc.genes, ∀ y ∈ l2, a.inn < y.inn

/-- one "add the chosen gene" step of a walk: the chosen number exceeds everything collected and is exceeded by
    everything still to come -/
theorem walk_step (p1 p2 : Genome W) (nt : List (Trait W)) (t0 : Option Int) (acc acc' : MateAcc W) (c : Chosen W)
    (dis : Bool) (l1' l2' : List (Gene W)) (hz : ∀ t' ∈ nt, t'.id ≠ 0)
    (hinv : AccInv p1 p2 nt acc) (hsorted : GenesSorted acc.genes) (hc : Legit p1 p2 c)
    (h : addChosen nt t0 acc c dis = .ok acc')
    (hbelow : ∀ a ∈ acc.genes, a.inn < c.gene.inn)
    (hk1 : ∀ x ∈ l1', c.gene.inn < x.inn) (hk2 : ∀ y ∈ l2', c.gene.inn < y.inn) :
    WalkInv p1 p2 nt acc' l1' l2' ∧ (acc.genes = [] → acc'.genes ≠ []) ∧ (acc.genes ≠ [] → acc'.genes ≠ []) := by
  obtain ⟨i1, i2, i3⟩ := addChosen_inv p1 p2 nt t0 acc acc' c dis h hz hinv hc
  rcases i2 with e | ⟨g', e, eg⟩
  · refine ⟨⟨i1, by rw [e]; exact hsorted, ?_, ?_⟩, i3, fun hne => by rw [e]; exact hne⟩
    · intro a ha x hx; rw [e] at ha; have := hbelow a ha; have := hk1 x hx; omega
    · intro a ha y hy; rw [e] at ha; have := hbelow a ha; have := hk2 y hy; omega
  · refine ⟨⟨i1, ?_, ?_, ?_⟩, i3, fun _ => by rw [e]; simp⟩
    · rw [e]
      unfold GenesSorted
      rw [List.pairwise_append]
      refine ⟨hsorted, by simp, ?_⟩
      intro a ha b hb
      simp only [List.mem_singleton] at hb
      subst hb
      rw [eg]; exact hbelow a ha
    · intro a ha x hx
      rw [e] at ha
      rcases List.mem_append.mp ha with ha' | ha'
      · have := hbelow a ha'; have := hk1 x hx; omega
      · simp only [List.mem_singleton] at ha'; subst ha'; rw [eg]; exact hk1 x hx
    · intro a ha y hy
      rw [e] at ha
      rcases List.mem_append.mp ha with ha' | ha'
      · have := hbelow a ha'; have := hk2 y hy; omega
      · simp only [List.mem_singleton] at ha'; subst ha'; rw [eg]; exact hk2 y hy

omit [Scalar W] in
theorem sorted_cons {x : Gene W} {xs : List (Gene W)} (h : GenesSorted (x :: xs)) :
    GenesSorted xs ∧ ∀ z ∈ xs, x.inn < z.inn := by
  unfold GenesSorted at h ⊢
  rw [List.pairwise_cons] at h
  exact ⟨h.2, h.1⟩

omit [Scalar W] in
theorem WalkInv.weaken {p1 p2 : Genome W} {nt : List (Trait W)} {acc : MateAcc W} {l1 l2 l1' l2' : List (Gene W)}
    (h : WalkInv p1 p2 nt acc l1 l2) (h1 : ∀ x ∈ l1', x ∈ l1) (h2 : ∀ y ∈ l2', y ∈ l2) : WalkInv p1 p2 nt acc l1' l2' :=
  ⟨h.inv, h.sorted, fun a ha x hx => h.below1 a ha x (h1 x hx), fun a ha y hy => h.below2 a ha y (h2 y hy)⟩

/-- **multipoint walk**: the collected genes stay strictly ascending and the invariant of the child is kept; the child
    has a gene as soon as the fitter parent has one -/
theorem multipointWalk_inv (p1 p2 : Genome W) (nt : List (Trait W)) (t0 : Option Int) (better : Bool)
    (l1 l2 : List (Gene W)) (acc : MateAcc W) (rs : List Nat) (acc' : MateAcc W) (rs' : List Nat)
    (hz : ∀ t' ∈ nt, t'.id ≠ 0) (hs1 : GenesSorted l1) (hs2 : GenesSorted l2)
    (hm1 : ∀ x ∈ l1, x ∈ p1.genes) (hm2 : ∀ y ∈ l2, y ∈ p2.genes)
    (hwi : WalkInv p1 p2 nt acc l1 l2)
    (h : multipointWalk p1 p2 nt t0 better l1 l2 acc rs = .ok (acc', rs')) :
    AccInv p1 p2 nt acc' ∧ GenesSorted acc'.genes ∧
    ((acc.genes ≠ [] ∨ (better = true ∧ l1 ≠ []) ∨ (better = false ∧ l2 ≠ [])) → acc'.genes ≠ []) := by
  fun_induction multipointWalk p1 p2 nt t0 better l1 l2 acc rs
  case case1 acc rs =>
    simp only [Except.ok.injEq, Prod.mk.injEq] at h
    obtain ⟨rfl, _⟩ := h
    exact ⟨hwi.inv, hwi.sorted, fun hp => by rcases hp with hp | hp | hp <;> simp_all⟩
  case case2 y ys acc rs hb ih =>
    obtain ⟨a, b, c⟩ := ih hs1 (sorted_cons hs2).1 hm1 (fun z hz => hm2 z (List.mem_cons_of_mem _ hz))
      (hwi.weaken (fun _ hx => hx) (fun z hz => List.mem_cons_of_mem _ hz)) h
    exact ⟨a, b, fun hp => c (by rcases hp with hp | hp | hp <;> simp_all)⟩
  case case3 => cases h
  case case4 y ys acc rs hb acc1 hadd ih =>
    obtain ⟨w, n1, n2⟩ := walk_step p1 p2 nt t0 acc acc1 _ false [] ys hz hwi.inv hwi.sorted
      (legit_chooseFrom_right p1 p2 y (hm2 y (by simp))) hadd
      (fun a ha => hwi.below2 a ha y (by simp)) (by simp) (sorted_cons hs2).2
    obtain ⟨a, b, c⟩ := ih hs1 (sorted_cons hs2).1 hm1 (fun z hz => hm2 z (List.mem_cons_of_mem _ hz)) w h
    refine ⟨a, b, fun _ => c (Or.inl ?_)⟩
    by_cases he : acc.genes = []
    · exact n1 he
    · exact n2 he
  case case5 x xs acc rs hb ih =>
    obtain ⟨a, b, c⟩ := ih (sorted_cons hs1).1 hs2 (fun z hz => hm1 z (List.mem_cons_of_mem _ hz)) hm2
      (hwi.weaken (fun z hz => List.mem_cons_of_mem _ hz) (fun _ hx => hx)) h
    exact ⟨a, b, fun hp => c (by rcases hp with hp | hp | hp <;> simp_all)⟩
  case case6 => cases h
  case case7 x xs acc rs hb acc1 hadd ih =>
    obtain ⟨w, n1, n2⟩ := walk_step p1 p2 nt t0 acc acc1 _ false xs [] hz hwi.inv hwi.sorted
      (legit_chooseFrom_left p1 p2 x (hm1 x (by simp))) hadd
      (fun a ha => hwi.below1 a ha x (by simp)) (sorted_cons hs1).2 (by simp)
    obtain ⟨a, b, c⟩ := ih (sorted_cons hs1).1 hs2 (fun z hz => hm1 z (List.mem_cons_of_mem _ hz)) hm2 w h
    refine ⟨a, b, fun _ => c (Or.inl ?_)⟩
    by_cases he : acc.genes = []
    · exact n1 he
    · exact n2 he
  case case8 => cases h
  case case9 => cases h
  case case10 => cases h
  case case11 x xs y ys acc rs heq f rs1 hf c dis rs2 hdis acc1 hadd ih =>
    have hx := hm1 x (by simp)
    have hy := hm2 y (by simp)
    have hleg : Legit p1 p2 c ∧ c.gene.inn = x.inn := by
      by_cases hc : lt f (ofDec 5 1) = true
      · have : c = chooseFrom p1 x := by simp [c, hc]
        rw [this]; exact ⟨legit_chooseFrom_left p1 p2 x hx, rfl⟩
      · have : c = chooseFrom p2 y := by simp [c, hc]
        rw [this]; exact ⟨legit_chooseFrom_right p1 p2 y hy, heq.symm⟩
    obtain ⟨w, n1, n2⟩ := walk_step p1 p2 nt t0 acc acc1 c dis xs ys hz hwi.inv hwi.sorted hleg.1 hadd
      (fun a ha => by rw [hleg.2]; exact hwi.below1 a ha x (by simp))
      (fun z hz => by rw [hleg.2]; exact (sorted_cons hs1).2 z hz)
      (fun z hz => by rw [hleg.2, heq]; exact (sorted_cons hs2).2 z hz)
    obtain ⟨a, b, c'⟩ := ih (sorted_cons hs1).1 (sorted_cons hs2).1 (fun z hz => hm1 z (List.mem_cons_of_mem _ hz))
      (fun z hz => hm2 z (List.mem_cons_of_mem _ hz)) w h
    refine ⟨a, b, fun _ => c' (Or.inl ?_)⟩
    by_cases he : acc.genes = []
    · exact n1 he
    · exact n2 he
  case case12 x xs y ys acc rs hne hlt hb ih =>
    obtain ⟨a, b, c⟩ := ih (sorted_cons hs1).1 hs2 (fun z hz => hm1 z (List.mem_cons_of_mem _ hz)) hm2
      (hwi.weaken (fun z hz => List.mem_cons_of_mem _ hz) (fun _ hx => hx)) h
    exact ⟨a, b, fun hp => c (by rcases hp with hp | hp | hp <;> simp_all)⟩
  case case13 => cases h
  case case14 x xs y ys acc rs hne hlt hb acc1 hadd ih =>
    obtain ⟨w, n1, n2⟩ := walk_step p1 p2 nt t0 acc acc1 _ false xs (y :: ys) hz hwi.inv hwi.sorted
      (legit_chooseFrom_left p1 p2 x (hm1 x (by simp))) hadd
      (fun a ha => hwi.below1 a ha x (by simp)) (sorted_cons hs1).2
      (fun z hz => by
        rcases List.mem_cons.mp hz with rfl | hz'
        · exact hlt
        · have := (sorted_cons hs2).2 z hz'; show x.inn < z.inn; omega)
    obtain ⟨a, b, c⟩ := ih (sorted_cons hs1).1 hs2 (fun z hz => hm1 z (List.mem_cons_of_mem _ hz)) hm2 w h
    refine ⟨a, b, fun _ => c (Or.inl ?_)⟩
    by_cases he : acc.genes = []
    · exact n1 he
    · exact n2 he
  case case15 x xs y ys acc rs hne hlt hb ih =>
    obtain ⟨a, b, c⟩ := ih hs1 (sorted_cons hs2).1 hm1 (fun z hz => hm2 z (List.mem_cons_of_mem _ hz))
      (hwi.weaken (fun _ hx => hx) (fun z hz => List.mem_cons_of_mem _ hz)) h
    exact ⟨a, b, fun hp => c (by rcases hp with hp | hp | hp <;> simp_all)⟩
  case case16 => cases h
  case case17 x xs y ys acc rs hne hlt hb acc1 hadd ih =>
    have hgt : y.inn < x.inn := by omega
    obtain ⟨w, n1, n2⟩ := walk_step p1 p2 nt t0 acc acc1 _ false (x :: xs) ys hz hwi.inv hwi.sorted
      (legit_chooseFrom_right p1 p2 y (hm2 y (by simp))) hadd
      (fun a ha => hwi.below2 a ha y (by simp))
      (fun z hz => by
        rcases List.mem_cons.mp hz with rfl | hz'
        · exact hgt
        · have := (sorted_cons hs1).2 z hz'; show y.inn < z.inn; omega)
      (sorted_cons hs2).2
    obtain ⟨a, b, c⟩ := ih hs1 (sorted_cons hs2).1 hm1 (fun z hz => hm2 z (List.mem_cons_of_mem _ hz)) w h
    refine ⟨a, b, fun _ => c (Or.inl ?_)⟩
    by_cases he : acc.genes = []
    · exact n1 he
    · exact n2 he

/-- **averaging multipoint walk**: the collected genes stay strictly ascending and the invariant of the child is kept; the child
    has a gene as soon as the fitter parent has one -/
theorem multipointAvgWalk_inv (p1 p2 : Genome W) (nt : List (Trait W)) (t0 : Option Int) (better : Bool)
    (l1 l2 : List (Gene W)) (acc : MateAcc W) (rs : List Nat) (acc' : MateAcc W) (rs' : List Nat)
    (hz : ∀ t' ∈ nt, t'.id ≠ 0) (hs1 : GenesSorted l1) (hs2 : GenesSorted l2)
    (hm1 : ∀ x ∈ l1, x ∈ p1.genes) (hm2 : ∀ y ∈ l2, y ∈ p2.genes)
    (hwi : WalkInv p1 p2 nt acc l1 l2)
    (h : multipointAvgWalk p1 p2 nt t0 better l1 l2 acc rs = .ok (acc', rs')) :
    AccInv p1 p2 nt acc' ∧ GenesSorted acc'.genes ∧
    ((acc.genes ≠ [] ∨ (better = true ∧ l1 ≠ []) ∨ (better = false ∧ l2 ≠ [])) → acc'.genes ≠ []) := by
  fun_induction multipointAvgWalk p1 p2 nt t0 better l1 l2 acc rs
  case case1 acc rs =>
    simp only [Except.ok.injEq, Prod.mk.injEq] at h
    obtain ⟨rfl, _⟩ := h
    exact ⟨hwi.inv, hwi.sorted, fun hp => by rcases hp with hp | hp | hp <;> simp_all⟩
  case case2 y ys acc rs hb ih =>
    obtain ⟨a, b, c⟩ := ih hs1 (sorted_cons hs2).1 hm1 (fun z hz => hm2 z (List.mem_cons_of_mem _ hz))
      (hwi.weaken (fun _ hx => hx) (fun z hz => List.mem_cons_of_mem _ hz)) h
    exact ⟨a, b, fun hp => c (by rcases hp with hp | hp | hp <;> simp_all)⟩
  case case3 => cases h
  case case4 y ys acc rs hb acc1 hadd ih =>
    obtain ⟨w, n1, n2⟩ := walk_step p1 p2 nt t0 acc acc1 _ false [] ys hz hwi.inv hwi.sorted
      (legit_chooseFrom_right p1 p2 y (hm2 y (by simp))) hadd
      (fun a ha => hwi.below2 a ha y (by simp)) (by simp) (sorted_cons hs2).2
    obtain ⟨a, b, c⟩ := ih hs1 (sorted_cons hs2).1 hm1 (fun z hz => hm2 z (List.mem_cons_of_mem _ hz)) w h
    refine ⟨a, b, fun _ => c (Or.inl ?_)⟩
    by_cases he : acc.genes = []
    · exact n1 he
    · exact n2 he
  case case5 x xs acc rs hb ih =>
    obtain ⟨a, b, c⟩ := ih (sorted_cons hs1).1 hs2 (fun z hz => hm1 z (List.mem_cons_of_mem _ hz)) hm2
      (hwi.weaken (fun z hz => List.mem_cons_of_mem _ hz) (fun _ hx => hx)) h
    exact ⟨a, b, fun hp => c (by rcases hp with hp | hp | hp <;> simp_all)⟩
  case case6 => cases h
  case case7 x xs acc rs hb acc1 hadd ih =>
    obtain ⟨w, n1, n2⟩ := walk_step p1 p2 nt t0 acc acc1 _ false xs [] hz hwi.inv hwi.sorted
      (legit_chooseFrom_left p1 p2 x (hm1 x (by simp))) hadd
      (fun a ha => hwi.below1 a ha x (by simp)) (sorted_cons hs1).2 (by simp)
    obtain ⟨a, b, c⟩ := ih (sorted_cons hs1).1 hs2 (fun z hz => hm1 z (List.mem_cons_of_mem _ hz)) hm2 w h
    refine ⟨a, b, fun _ => c (Or.inl ?_)⟩
    by_cases he : acc.genes = []
    · exact n1 he
    · exact n2 he
  case case8 => cases h
  case case9 => cases h
  case case10 x xs y ys acc rs heq c rs1 havg acc1 hadd ih =>
    have hx := hm1 x (by simp)
    have hy := hm2 y (by simp)
    have hleg := legit_avgChosen p1 p2 x y hx hy heq c rs rs1 havg
    obtain ⟨w, n1, n2⟩ := walk_step p1 p2 nt t0 acc acc1 c false xs ys hz hwi.inv hwi.sorted hleg.1 hadd
      (fun a ha => by rw [hleg.2]; exact hwi.below1 a ha x (by simp))
      (fun z hz => by rw [hleg.2]; exact (sorted_cons hs1).2 z hz)
      (fun z hz => by rw [hleg.2, heq]; exact (sorted_cons hs2).2 z hz)
    obtain ⟨a, b, c'⟩ := ih (sorted_cons hs1).1 (sorted_cons hs2).1 (fun z hz => hm1 z (List.mem_cons_of_mem _ hz))
      (fun z hz => hm2 z (List.mem_cons_of_mem _ hz)) w h
    refine ⟨a, b, fun _ => c' (Or.inl ?_)⟩
    by_cases he : acc.genes = []
    · exact n1 he
    · exact n2 he
  case case11 x xs y ys acc rs hne hlt hb ih =>
    obtain ⟨a, b, c⟩ := ih (sorted_cons hs1).1 hs2 (fun z hz => hm1 z (List.mem_cons_of_mem _ hz)) hm2
      (hwi.weaken (fun z hz => List.mem_cons_of_mem _ hz) (fun _ hx => hx)) h
    exact ⟨a, b, fun hp => c (by rcases hp with hp | hp | hp <;> simp_all)⟩
  case case12 => cases h
  case case13 x xs y ys acc rs hne hlt hb acc1 hadd ih =>
    obtain ⟨w, n1, n2⟩ := walk_step p1 p2 nt t0 acc acc1 _ false xs (y :: ys) hz hwi.inv hwi.sorted
      (legit_chooseFrom_left p1 p2 x (hm1 x (by simp))) hadd
      (fun a ha => hwi.below1 a ha x (by simp)) (sorted_cons hs1).2
      (fun z hz => by
        rcases List.mem_cons.mp hz with rfl | hz'
        · exact hlt
        · have := (sorted_cons hs2).2 z hz'; show x.inn < z.inn; omega)
    obtain ⟨a, b, c⟩ := ih (sorted_cons hs1).1 hs2 (fun z hz => hm1 z (List.mem_cons_of_mem _ hz)) hm2 w h
    refine ⟨a, b, fun _ => c (Or.inl ?_)⟩
    by_cases he : acc.genes = []
    · exact n1 he
    · exact n2 he
  case case14 x xs y ys acc rs hne hlt hb ih =>
    obtain ⟨a, b, c⟩ := ih hs1 (sorted_cons hs2).1 hm1 (fun z hz => hm2 z (List.mem_cons_of_mem _ hz))
      (hwi.weaken (fun _ hx => hx) (fun z hz => List.mem_cons_of_mem _ hz)) h
    exact ⟨a, b, fun hp => c (by rcases hp with hp | hp | hp <;> simp_all)⟩
  case case15 => cases h
  case case16 x xs y ys acc rs hne hlt hb acc1 hadd ih =>
    have hgt : y.inn < x.inn := by omega
    obtain ⟨w, n1, n2⟩ := walk_step p1 p2 nt t0 acc acc1 _ false (x :: xs) ys hz hwi.inv hwi.sorted
      (legit_chooseFrom_right p1 p2 y (hm2 y (by simp))) hadd
      (fun a ha => hwi.below2 a ha y (by simp))
      (fun z hz => by
        rcases List.mem_cons.mp hz with rfl | hz'
        · exact hgt
        · have := (sorted_cons hs1).2 z hz'; show y.inn < z.inn; omega)
      (sorted_cons hs2).2
    obtain ⟨a, b, c⟩ := ih hs1 (sorted_cons hs2).1 hm1 (fun z hz => hm2 z (List.mem_cons_of_mem _ hz)) w h
    refine ⟨a, b, fun _ => c (Or.inl ?_)⟩
    by_cases he : acc.genes = []
    · exact n1 he
    · exact n2 he


/-! ### the single-point walk -/

omit [Scalar W] in
theorem Legit.symm {p1 p2 : Genome W} {c : Chosen W} (h : Legit p2 p1 c) : Legit p1 p2 c :=
  ⟨fun sn hs => ⟨(h.src sn hs).1, (h.src sn hs).2.symm⟩, fun dn hd => ⟨(h.dst dn hd).1, (h.dst dn hd).2.symm⟩,
   by obtain ⟨y, hy, e⟩ := h.dstFrom; exact ⟨y, hy.symm, e⟩,
   by obtain ⟨y1, y2, y3, m1, m2, m3, r⟩ := h.prov; exact ⟨y1, y2, y3, m1.symm, m2.symm, m3.symm, r⟩⟩

/-- **single-point walk** (`q1` = the parent with fewer genes, in either role): genes are still collected in
    ascending order — before the crossing point from `q1` (and the collected numbers stay below the rest of both lists),
    after it only from `q2` (and they stay below the rest of `q2`'s list).  The child has a gene as soon as the two
    lists start with the same innovation number. -/
theorem singlePointWalk_inv (p1 p2 q1 q2 : Genome W) (hq : (q1 = p1 ∧ q2 = p2) ∨ (q1 = p2 ∧ q2 = p1))
    (nt : List (Trait W)) (t0 : Option Int) (cp : Nat)
    (l1 l2 : List (Gene W)) (gc : Nat) (last : Option (Chosen W)) (acc : MateAcc W) (rs : List Nat)
    (acc' : MateAcc W) (rs' : List Nat)
    (hz : ∀ t' ∈ nt, t'.id ≠ 0) (hs1 : GenesSorted l1) (hs2 : GenesSorted l2)
    (hm1 : ∀ x ∈ l1, x ∈ q1.genes) (hm2 : ∀ y ∈ l2, y ∈ q2.genes)
    (hinv : AccInv p1 p2 nt acc) (hsorted : GenesSorted acc.genes)
    (hb2 : ∀ a ∈ acc.genes, ∀ y ∈ l2, a.inn < y.inn)
    (hb1 : gc < cp → ∀ a ∈ acc.genes, ∀ x ∈ l1, a.inn < x.inn)
    (h : singlePointWalk q1 q2 nt t0 cp l1 l2 gc last acc rs = .ok (acc', rs')) :
    AccInv p1 p2 nt acc' ∧ GenesSorted acc'.genes ∧
    ((acc.genes ≠ [] ∨ ∃ x xs y ys, l1 = x :: xs ∧ l2 = y :: ys ∧ x.inn = y.inn) → acc'.genes ≠ []) := by
  have hL1 : ∀ x ∈ q1.genes, Legit p1 p2 (chooseFrom q1 x) := by
    intro x hx
    rcases hq with ⟨rfl, rfl⟩ | ⟨rfl, rfl⟩
    · exact legit_chooseFrom_left _ _ x hx
    · exact legit_chooseFrom_right _ _ x hx
  have hL2 : ∀ y ∈ q2.genes, Legit p1 p2 (chooseFrom q2 y) := by
    intro y hy
    rcases hq with ⟨rfl, rfl⟩ | ⟨rfl, rfl⟩
    · exact legit_chooseFrom_right _ _ y hy
    · exact legit_chooseFrom_left _ _ y hy
  have hLavg : ∀ x ∈ q1.genes, ∀ y ∈ q2.genes, x.inn = y.inn → ∀ c rs rs', avgChosen q1 q2 x y rs = .ok (c, rs') →
      Legit p1 p2 c ∧ c.gene.inn = x.inn := by
    intro x hx y hy heq c rs rs' hc
    rcases hq with ⟨rfl, rfl⟩ | ⟨rfl, rfl⟩
    · exact legit_avgChosen _ _ x y hx hy heq c rs rs' hc
    · have := legit_avgChosen _ _ x y hx hy heq c rs rs' hc
      exact ⟨this.1.symm, this.2⟩
  fun_induction singlePointWalk q1 q2 nt t0 cp l1 l2 gc last acc rs
  case case1 =>
    simp only [Except.ok.injEq, Prod.mk.injEq] at h
    obtain ⟨rfl, _⟩ := h
    refine ⟨hinv, hsorted, fun hp => ?_⟩
    rcases hp with hp | ⟨_, _, _, _, _, e, _⟩
    · exact hp
    · cases e
  case case2 => cases h
  case case3 y ys gc _ acc rs c acc1 hadd ih =>
    obtain ⟨w, n1, n2⟩ := walk_step p1 p2 nt t0 acc acc1 c false [] ys hz hinv hsorted
      (hL2 y (hm2 y (by simp))) hadd (fun a ha => hb2 a ha y (by simp)) (by simp) (sorted_cons hs2).2
    obtain ⟨a, b, c'⟩ := ih hs1 (sorted_cons hs2).1 hm1 (fun z hz => hm2 z (List.mem_cons_of_mem _ hz))
      w.inv w.sorted w.below2 (fun _ => w.below1) h
    refine ⟨a, b, fun hp => c' (Or.inl ?_)⟩
    rcases hp with hp | ⟨_, _, _, _, e, _, _⟩
    · exact n2 hp
    · cases e
  case case4 => cases h
  case case5 x xs y ys gc last acc rs heq hgc c acc1 hadd ih =>
    obtain ⟨w, n1, n2⟩ := walk_step p1 p2 nt t0 acc acc1 c false xs ys hz hinv hsorted
      (hL1 x (hm1 x (by simp))) hadd
      (fun a ha => by show a.inn < x.inn; rw [heq]; exact hb2 a ha y (by simp))
      (sorted_cons hs1).2 (fun z hz => by show x.inn < z.inn; rw [heq]; exact (sorted_cons hs2).2 z hz)
    obtain ⟨a, b, c'⟩ := ih (sorted_cons hs1).1 (sorted_cons hs2).1 (fun z hz => hm1 z (List.mem_cons_of_mem _ hz))
      (fun z hz => hm2 z (List.mem_cons_of_mem _ hz)) w.inv w.sorted w.below2 (fun _ => w.below1) h
    refine ⟨a, b, fun _ => c' (Or.inl ?_)⟩
    by_cases he : acc.genes = []
    · exact n1 he
    · exact n2 he
  case case6 => cases h
  case case7 x xs y ys gc last acc rs heq hgc1 hgc2 c acc1 hadd ih =>
    obtain ⟨w, n1, n2⟩ := walk_step p1 p2 nt t0 acc acc1 c false xs ys hz hinv hsorted
      (hL2 y (hm2 y (by simp))) hadd
      (fun a ha => hb2 a ha y (by simp))
      (fun z hz => by show y.inn < z.inn; rw [← heq]; exact (sorted_cons hs1).2 z hz) (sorted_cons hs2).2
    obtain ⟨a, b, c'⟩ := ih (sorted_cons hs1).1 (sorted_cons hs2).1 (fun z hz => hm1 z (List.mem_cons_of_mem _ hz))
      (fun z hz => hm2 z (List.mem_cons_of_mem _ hz)) w.inv w.sorted w.below2 (fun _ => w.below1) h
    refine ⟨a, b, fun _ => c' (Or.inl ?_)⟩
    by_cases he : acc.genes = []
    · exact n1 he
    · exact n2 he
  case case8 => cases h
  case case9 => cases h
  case case10 x xs y ys gc last acc rs heq hgc1 hgc2 c rs1 havg acc1 hadd ih =>
    have hleg := hLavg x (hm1 x (by simp)) y (hm2 y (by simp)) heq c rs rs1 havg
    obtain ⟨w, n1, n2⟩ := walk_step p1 p2 nt t0 acc acc1 c false xs ys hz hinv hsorted hleg.1 hadd
      (fun a ha => by rw [hleg.2, heq]; exact hb2 a ha y (by simp))
      (fun z hz => by rw [hleg.2]; exact (sorted_cons hs1).2 z hz)
      (fun z hz => by rw [hleg.2, heq]; exact (sorted_cons hs2).2 z hz)
    obtain ⟨a, b, c'⟩ := ih (sorted_cons hs1).1 (sorted_cons hs2).1 (fun z hz => hm1 z (List.mem_cons_of_mem _ hz))
      (fun z hz => hm2 z (List.mem_cons_of_mem _ hz)) w.inv w.sorted w.below2 (fun _ => w.below1) h
    refine ⟨a, b, fun _ => c' (Or.inl ?_)⟩
    by_cases he : acc.genes = []
    · exact n1 he
    · exact n2 he
  case case11 => cases h
  case case12 x xs y ys gc last acc rs hne hlt hgc c acc1 hadd ih =>
    obtain ⟨w, n1, n2⟩ := walk_step p1 p2 nt t0 acc acc1 c false xs (y :: ys) hz hinv hsorted
      (hL1 x (hm1 x (by simp))) hadd
      (fun a ha => hb1 hgc a ha x (by simp)) (sorted_cons hs1).2
      (fun z hz => by
        rcases List.mem_cons.mp hz with rfl | hz'
        · exact hlt
        · have := (sorted_cons hs2).2 z hz'; show x.inn < z.inn; omega)
    obtain ⟨a, b, c'⟩ := ih (sorted_cons hs1).1 hs2 (fun z hz => hm1 z (List.mem_cons_of_mem _ hz)) hm2
      w.inv w.sorted w.below2 (fun _ => w.below1) h
    refine ⟨a, b, fun hp => c' (Or.inl ?_)⟩
    rcases hp with hp | ⟨_, _, _, _, e1, e2, e3⟩
    · exact n2 hp
    · cases e1; cases e2; exact absurd e3 hne
  case case13 => cases h
  case case14 x xs y ys gc last acc rs hne hlt hgc c acc1 hadd ih =>
    obtain ⟨w, n1, n2⟩ := walk_step p1 p2 nt t0 acc acc1 c false [] ys hz hinv hsorted
      (hL2 y (hm2 y (by simp))) hadd (fun a ha => hb2 a ha y (by simp)) (by simp) (sorted_cons hs2).2
    obtain ⟨a, b, c'⟩ := ih hs1 (sorted_cons hs2).1 hm1 (fun z hz => hm2 z (List.mem_cons_of_mem _ hz))
      w.inv w.sorted w.below2 (fun hlt' => absurd hlt' hgc) h
    refine ⟨a, b, fun hp => c' (Or.inl ?_)⟩
    rcases hp with hp | ⟨_, _, _, _, e1, e2, e3⟩
    · exact n2 hp
    · cases e1; cases e2; exact absurd e3 hne
  case case15 =>
    rename_i hne _
    simp only [Except.ok.injEq, Prod.mk.injEq] at h
    obtain ⟨rfl, _⟩ := h
    refine ⟨hinv, hsorted, fun hp => ?_⟩
    rcases hp with hp | ⟨_, _, _, _, e1, e2, e3⟩
    · exact hp
    · cases e1; cases e2; exact absurd e3 hne
  case case16 x xs y ys gc acc rs v hne hlt ih =>
    obtain ⟨a, b, c'⟩ := ih hs1 (sorted_cons hs2).1 hm1 (fun z hz => hm2 z (List.mem_cons_of_mem _ hz))
      hinv hsorted (fun a ha z hz => hb2 a ha z (List.mem_cons_of_mem _ hz)) hb1 h
    refine ⟨a, b, fun hp => c' (Or.inl ?_)⟩
    rcases hp with hp | ⟨_, _, _, _, e1, e2, e3⟩
    · exact hp
    · cases e1; cases e2; exact absurd e3 ‹¬x.inn = y.inn›

end GoNeat.C01
