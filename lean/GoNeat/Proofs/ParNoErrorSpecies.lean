/-
  C16 / C02 "without error" for the PARALLEL executor, part 2: one species goroutine (`reproduceSpeciesP`) never
  returns a model error under ARBITRARY interference on the registry (`PSafe`, Proofs/ParNoError.lean), delivers exactly
  its quota of babies, each of the common trait shape `S`.

  A goroutine only reads genomes of the prepared population (`P0`, with the C01 pool invariant `PoolOk reg0 P0` for the
  registry `reg0` at the start of the phase): every baby is a duplicate or a crossover child of genomes of `P0`, followed
  by at most one structural mutation.  So the thread-local facts the error exits need (`WF` of the genome being mutated)
  come from the sequential closure lemmas for `P0` alone; the interference enters only through `PSafe`'s rely.
  Kind A (float facts `UnitMulLe`, `PickLaw` explicit).
-/
import GoNeat.Proofs.ParNoError

set_option linter.unusedSectionVars false

namespace GoNeat.C16
open GoNeat Scalar GoNeat.NoErr GoNeat.C01
variable {W : Type} [Scalar W]

/-! ### the mutation chain of a baby -/

theorem flagTrue_safe {T : Nat} {Q : Genome W × Bool → Prop} (hQ : ∀ g b, Q (g, b) → Q (g, true)) (r : MRes W) (hr : OkV Q r) :
    PSafe T (OkV Q) (flagTrue r) := by
  unfold flagTrue
  split
  · exact .done hr
  · next g' b rs' => exact .done ⟨hQ g' b hr.1, hr.2⟩

theorem structStageP_safe (hlaw : UnitMulLe W) (o : EpochOpts W) (ha : ActOk o.mopts) (g : Genome W) (f1 : W) (rs1 : List Nat)
    (hv : Valid rs1) (T : Nat) (hw : WF g) (hT : g.traits.length = T) :
    PSafe T (OkV (fun r => Like g r.1)) (structStageP o g f1 rs1) := by
  have hb := basic_of_wf hw
  unfold structStageP
  split
  · exact (mutateAddNodeP_safe hlaw T g o.mopts rs1 hv ha hb.traits).bind (fun r hr => flagTrue_safe (fun _ _ h => h) r hr)
  · have f2 := safe_float64 (W := W) rs1
    split
    · next e he => rw [he] at f2; exact .done (OkV.of_error f2)
    · next f2v rs2 he =>
      have hv2 := valid_of_ok Rand.float64_prefixDet hv he
      split
      · exact (mutateAddLinkP_safe T g o.mopts rs2 hv2 hb.genes hw.hasOutput hw.nodesSorted hb.traits hT).bind
          (fun r hr => flagTrue_safe (fun _ _ h => h) r hr)
      · have f3 := safe_float64 (W := W) rs2
        split
        · next e he3 => rw [he3] at f3; exact .done (OkV.of_error f3)
        · next f3v rs3 he3 =>
          have hv3 := valid_of_ok Rand.float64_prefixDet hv2 he3
          split
          · exact mutateConnectSensorsP_safe T g rs3 hv3 hb.genes hb.traits hT
          · exact .done ⟨Like.refl g, hv3⟩

theorem paramStage_safe {T : Nat} (o : EpochOpts W) (g : Genome W) (hb : Basic g) (r : MRes W) (hr : OkV (fun r => Like g r.1) r) :
    PSafe T (OkV (fun r => Like g r.1)) (paramStage o r) := by
  unfold paramStage
  split
  · exact .done hr
  · exact .done hr
  · next g' rs' =>
    have hl : Like g g' := hr.1
    have hn := safe_mutateAllNonstructural g' o.mopts rs' (hl.basic hb)
    split
    · next e he => rw [he] at hn; exact .done (OkV.of_error hn)
    · next g'' rs'' he =>
      rw [he] at hn
      exact .done ⟨hl.trans hn, valid_of_ok (mutateAllNonstructural_prefixDet g' o.mopts) hr.2 he⟩

/-- **the mutation chain of a fresh baby never fails, whatever the other goroutines do to the registry** -/
theorem mutateBabyP_safe (hlaw : UnitMulLe W) (o : EpochOpts W) (ha : ActOk o.mopts) (g : Genome W) (rs : List Nat)
    (hv : Valid rs) (T : Nat) (hw : WF g) (hT : g.traits.length = T) :
    PSafe T (OkV (fun r => Like g r.1)) (mutateBabyP o g rs) := by
  unfold mutateBabyP
  have f1 := safe_float64 (W := W) rs
  split
  · next e he => rw [he] at f1; exact .done (OkV.of_error f1)
  · next f1v rs1 he =>
    exact (structStageP_safe hlaw o ha g f1v rs1 (valid_of_ok Rand.float64_prefixDet hv he) T hw hT).bind
      (fun r hr => paramStage_safe o g (basic_of_wf hw) r hr)

theorem superChampMutP_safe (o : EpochOpts W) (g0 : Genome W) (sc : Int) (rs : List Nat) (hv : Valid rs) (T : Nat)
    (hw : WF g0) (hT : g0.traits.length = T) :
    PSafe T (OkV (fun r => Like g0 r.1)) (superChampMutP o g0 sc rs) := by
  have hb := basic_of_wf hw
  unfold superChampMutP
  split
  · have hf := safe_float64 (W := W) rs
    split
    · next e he => rw [he] at hf; exact .done (OkV.of_error hf)
    · next f rs1 he =>
      have hv1 := valid_of_ok Rand.float64_prefixDet hv he
      split
      · have h1 := safe_mutateLinkWeights g0 o.mopts.weightMutPower one .gaussian rs1 hb.genes
        split
        · next e he2 => rw [he2] at h1; exact .done (OkV.of_error h1)
        · next g1 rs2 he2 =>
          rw [he2] at h1
          exact .done ⟨h1, valid_of_ok (mutateLinkWeights_prefixDet _ _ _ _) hv1 he2⟩
      · exact (mutateAddLinkP_safe T g0 o.mopts rs1 hv1 hb.genes hw.hasOutput hw.nodesSorted hb.traits hT).bind
          (fun r hr => flagTrue_safe (fun _ _ h => h) r hr)
  · exact .done ⟨Like.refl g0, hv⟩

/-! ### one offspring -/

theorem pickDad_eq (o : EpochOpts W) (s : Species W) (sorted : List (Species W)) (f2 : W) (rs3 : List Nat) :
    pickDad o s sorted f2 rs3 = dadStage o s sorted f2 rs3 := rfl

theorem mateChild_eq (o : EpochOpts W) (mom dad : Org W) (count : Int) (f3 : W) (rs5 : List Nat) :
    mateChild o mom dad count f3 rs5 = childStage o mom dad count f3 rs5 := rfl

/-- one more baby of shape `S` -/
def OneMore (S : List Nat) (st st' : ReproState W) : Prop :=
  ∃ b, st'.babies = st.babies ++ [b] ∧ shape b.genome = S

theorem oneMore_finish (S : List Nat) (generation : Int) (g : Genome W) (a b c : Bool) (hf : W) (st : ReproState W)
    (h : shape g = S) : OneMore S st (finishP generation g a b c hf st) :=
  ⟨_, rfl, h⟩

theorem shape_of_like {g g' : Genome W} {S : List Nat} (hl : Like g g') (h : shape g = S) : shape g' = S := hl.shape.trans h

/-- **one offspring never fails, whichever branch `Species.reproduce` takes and whatever the other goroutines do** -/
theorem reproduceOneP_safe (hlaw : UnitMulLe W) (hpick : PickLaw W) (o : EpochOpts W) (ha : ActOk o.mopts) (generation : Int)
    (s : Species W) (sorted : List (Species W)) (champ : Org W) (count : Int) (st : ReproState W) (rs : List Nat) (hv : Valid rs)
    (reg0 : Reg W) (P0 : List (Genome W)) (S : List Nat)
    (hchamp : champ.genome ∈ P0) (hs : ∀ x ∈ s.orgs, x.genome ∈ P0)
    (hsorted : ∀ sp ∈ sorted, ∀ x ∈ sp.orgs, x.genome ∈ P0)
    (hne : s.orgs ≠ []) (hsne : sorted ≠ []) (hspne : ∀ sp ∈ sorted, sp.orgs ≠ [])
    (hP : PoolOk reg0 P0) (hsh : ∀ g ∈ P0, shape g = S) :
    PSafe S.length (OkV (OneMore S st)) (reproduceOneP o generation s sorted champ count st rs) := by
  have hdup : ∀ g ∈ P0, g.duplicate count = .ok { g with id := count } := by
    intro g hg
    obtain ⟨d, h1, h2, _⟩ := duplicate_wf g count (hP g hg).wft (hP g hg).nomod
    rw [h1, h2]
  have fdup : ∀ g ∈ P0, Fits reg0 P0 { g with id := count } := fun g hg => dup_closed count (hP g hg) (hdup g hg)
  have hlen : ∀ {g : Genome W}, shape g = S → g.traits.length = S.length := fun h => traitsLen_of_shape h
  -- a mutated genome finishes the offspring
  have fin : ∀ (g0 : Genome W), shape g0 = S → ∀ (a c : Bool) (r : MRes W), OkV (fun r => Like g0 r.1) r →
      PSafe S.length (OkV (OneMore S st))
        (match r with
         | .error e => (.done (.error e) : Prog W (SRes W))
         | .ok ((g1, ms), rs') => .done (.ok (finishP generation g1 ms a c zero st, rs'))) := by
    intro g0 h0 a c r hr
    split
    · exact .done hr.error_cast
    · next g1 ms rs' => exact .done ⟨oneMore_finish S generation g1 ms a c zero st (shape_of_like hr.1 h0), hr.2⟩
  unfold reproduceOneP
  simp only
  split
  · -- super-champion offspring
    split
    · next e he => rw [hdup _ hchamp] at he; cases he
    · next g0 he =>
      rw [hdup _ hchamp] at he; cases he
      have h0 : shape ({ champ.genome with id := count } : Genome W) = S := hsh champ.genome hchamp
      refine (superChampMutP_safe o _ st.superChamp rs hv S.length (fdup _ hchamp).wft.wf (hlen h0)).bind (fun r hr => ?_)
      split
      · exact .done hr.error_cast
      · next g1 ms rs' =>
        exact .done ⟨⟨_, rfl, shape_of_like hr.1 h0⟩, hr.2⟩
  · split
    · -- champion clone
      split
      · next e he => rw [hdup _ hchamp] at he; cases he
      · next g0 he =>
        rw [hdup _ hchamp] at he; cases he
        exact .done ⟨⟨_, rfl, hsh champ.genome hchamp⟩, hv⟩
    · have f1 := safe_float64 (W := W) rs
      split
      · next e he => rw [he] at f1; exact .done (OkV.of_error f1)
      · next f rs1 hf1 =>
        have hv1 := valid_of_ok Rand.float64_prefixDet hv hf1
        have hi := safe_intn s.orgs.length (List.length_pos_iff.mpr hne) rs1
        split
        · -- mutation only
          split
          · next e he => rw [he] at hi; exact .done (OkV.of_error hi)
          · next k rs2 he =>
            have hv2 := valid_of_ok (Rand.intn_prefixDet _) hv1 he
            rw [he] at hi
            have hk : k < s.orgs.length := hi
            split
            · next hn => rw [List.getElem?_eq_none_iff] at hn; omega
            · next mom hmom =>
              have hm : mom.genome ∈ P0 := hs mom (List.mem_of_getElem? hmom)
              split
              · next e he2 => rw [hdup _ hm] at he2; cases he2
              · next g0 he2 =>
                rw [hdup _ hm] at he2; cases he2
                have h0 : shape ({ mom.genome with id := count } : Genome W) = S := hsh mom.genome hm
                exact (mutateBabyP_safe hlaw o ha _ rs2 hv2 S.length (fdup _ hm).wft.wf (hlen h0)).bind
                  (fun r hr => fin _ h0 false false r hr)
        · -- mating
          split
          · next e he => rw [he] at hi; exact .done (OkV.of_error hi)
          · next k rs2 he =>
            have hv2 := valid_of_ok (Rand.intn_prefixDet _) hv1 he
            rw [he] at hi
            have hk : k < s.orgs.length := hi
            split
            · next hn => rw [List.getElem?_eq_none_iff] at hn; omega
            · next mom hmom =>
              have hm : mom.genome ∈ P0 := hs mom (List.mem_of_getElem? hmom)
              have f2 := safe_float64 (W := W) rs2
              split
              · next e he2 => rw [he2] at f2; exact .done (OkV.of_error f2)
              · next f2v rs3 hf2 =>
                have hv3 := valid_of_ok Rand.float64_prefixDet hv2 hf2
                have hd := safe_dadStage hpick o s sorted f2v rs3 hv3 hne hsne hspne
                rw [pickDad_eq]
                split
                · next e he3 => exact .done (OkV.of_error (hd.cast he3))
                · next dad rs4 he3 =>
                  have hv4 : Valid rs4 := valid_of_ok (dadStage_prefixDet o s sorted f2v) hv3 he3
                  have hdm : dad ∈ s.orgs ∨ ∃ sp ∈ sorted, dad ∈ sp.orgs := hd.cast he3
                  have hdP : dad.genome ∈ P0 := by
                    rcases hdm with h | ⟨sp, h1, h2⟩
                    · exact hs _ h
                    · exact hsorted sp h1 _ h2
                  have f3 := safe_float64 (W := W) rs4
                  split
                  · next e he4 => rw [he4] at f3; exact .done (OkV.of_error f3)
                  · next f3v rs5 hf3 =>
                    have hv5 := valid_of_ok Rand.float64_prefixDet hv4 hf3
                    have hc := safe_childStage o mom dad count f3v rs5 reg0 P0 S (hP _ hm) (hP _ hdP) hdP (hsh _ hm) (hsh _ hdP)
                    rw [mateChild_eq]
                    split
                    · next e he5 => exact .done (OkV.of_error (hc.cast he5))
                    · next child rs7 he5 =>
                      have hv7 : Valid rs7 := valid_of_ok (childStage_prefixDet o mom dad count f3v) hv5 he5
                      have hc' : shape child = S ∧ Fits reg0 P0 child := hc.cast he5
                      have f5 := safe_float64 (W := W) rs7
                      split
                      · next e he6 => rw [he6] at f5; exact .done (OkV.of_error f5)
                      · next f5v rs8 hf5 =>
                        have hv8 := valid_of_ok Rand.float64_prefixDet hv7 hf5
                        split
                        · exact (mutateBabyP_safe hlaw o ha child rs8 hv8 S.length hc'.2.wft.wf (hlen hc'.1)).bind
                            (fun r hr => fin _ hc'.1 true false r hr)
                        · exact .done ⟨⟨_, rfl, hc'.1⟩, hv8⟩

/-! ### the whole goroutine -/

/-- `n` more babies, all of shape `S` -/
def NMore (S : List Nat) (n : Nat) (st st' : ReproState W) : Prop :=
  st'.babies.length = st.babies.length + n ∧ ((∀ b ∈ st.babies, shape b.genome = S) → ∀ b ∈ st'.babies, shape b.genome = S)

theorem reproduceLoopP_safe (hlaw : UnitMulLe W) (hpick : PickLaw W) (o : EpochOpts W) (ha : ActOk o.mopts) (generation : Int)
    (s : Species W) (sorted : List (Species W)) (champ : Org W) (reg0 : Reg W) (P0 : List (Genome W)) (S : List Nat)
    (hchamp : champ.genome ∈ P0) (hs : ∀ x ∈ s.orgs, x.genome ∈ P0)
    (hsorted : ∀ sp ∈ sorted, ∀ x ∈ sp.orgs, x.genome ∈ P0)
    (hne : s.orgs ≠ []) (hsne : sorted ≠ []) (hspne : ∀ sp ∈ sorted, sp.orgs ≠ [])
    (hP : PoolOk reg0 P0) (hsh : ∀ g ∈ P0, shape g = S) (n : Nat) :
    ∀ (count : Int) (st : ReproState W) (rs : List Nat), Valid rs →
      PSafe S.length (OkV (NMore S n st)) (reproduceLoopP o generation s sorted champ n count st rs) := by
  induction n with
  | zero => intro count st rs hv; exact .done ⟨⟨rfl, fun h => h⟩, hv⟩
  | succ n ih =>
    intro count st rs hv
    unfold reproduceLoopP
    refine (reproduceOneP_safe hlaw hpick o ha generation s sorted champ count st rs hv reg0 P0 S hchamp hs hsorted hne hsne
      hspne hP hsh).bind (fun r hr => ?_)
    split
    · exact .done hr.error_cast
    · next st' rs' =>
      obtain ⟨⟨b, hb, hbs⟩, hv'⟩ := hr
      refine (ih (count + 1) st' rs' hv').mono (fun r' hr' => hr'.mono (fun st'' h => ?_))
      obtain ⟨h1, h2⟩ := h
      refine ⟨by rw [h1, hb]; simp; omega, fun h0 => h2 (fun x hx => ?_)⟩
      rw [hb] at hx
      rcases List.mem_append.mp hx with hx | hx
      · exact h0 x hx
      · simp only [List.mem_singleton] at hx; rw [hx]; exact hbs

/-- what a species goroutine delivers: exactly its quota of babies, each of the common trait shape -/
def Delivers (S : List Nat) (quota : Nat) (r : List (Org W) × Nat) : Prop :=
  r.1.length = quota ∧ ∀ b ∈ r.1, shape b.genome = S

/-- **a species goroutine (`Species.reproduce` run by the parallel executor) never fails on a non-empty species,
    whatever the other goroutines do to the registry**, and delivers its quota -/
theorem reproduceSpeciesP_safe (hlaw : UnitMulLe W) (hpick : PickLaw W) (o : EpochOpts W) (ha : ActOk o.mopts) (generation : Int)
    (s : Species W) (sorted : List (Species W)) (r0 : Reg W) (uid : Nat) (rs : List Nat) (hv : Valid rs)
    (reg0 : Reg W) (P0 : List (Genome W)) (S : List Nat)
    (hs : ∀ x ∈ s.orgs, x.genome ∈ P0) (hsorted : ∀ sp ∈ sorted, ∀ x ∈ sp.orgs, x.genome ∈ P0)
    (hne : s.orgs ≠ []) (hsne : sorted ≠ []) (hspne : ∀ sp ∈ sorted, sp.orgs ≠ [])
    (hP : PoolOk reg0 P0) (hsh : ∀ g ∈ P0, shape g = S) :
    PSafe S.length (OkV (Delivers S s.expectedOffspring.toNat)) (reproduceSpeciesP o generation s sorted r0 uid rs) := by
  unfold reproduceSpeciesP
  split
  · next hn => cases hso : s.orgs with
    | nil => exact absurd hso hne
    | cons a l => rw [hso] at hn; cases hn
  · next champ hchamp =>
    simp only
    refine (reproduceLoopP_safe hlaw hpick o ha generation s sorted champ reg0 P0 S (hs champ (List.mem_of_mem_head? hchamp)) hs
      hsorted hne hsne hspne hP hsh s.expectedOffspring.toNat 0 _ rs hv).bind (fun r hr => ?_)
    split
    · exact .done hr.error_cast
    · next st rs' =>
      obtain ⟨⟨h1, h2⟩, hv'⟩ := hr
      exact .done ⟨⟨by simpa using h1, h2 (by intro b hb; cases hb)⟩, hv'⟩

end GoNeat.C16
