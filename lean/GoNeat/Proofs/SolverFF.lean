/-
  Helper lemmas for C12, standard solver (Kind A): what one pass of the two sweeps of `ActivateSteps` does to a
  feed-forward network, and the induction over depth layers.
-/
import GoNeat.Proofs.SolverFlush
import GoNeat.Spec.Solver

set_option linter.unusedSectionVars false

namespace GoNeat.Solver
open GoNeat.SolverSpec

variable {W : Type} [Scalar W]

/-! ### one link, one node of the first sweep -/

theorem get_linkStep_ne (net : Net W) (i : Nat) (s : St W) (l : NLink W) (j : Nat) (h : j ≠ i) :
    get (linkStep net i s l) j = get s j := by
  unfold linkStep
  simp only
  split
  · rw [get_upd_ne _ _ _ _ h]
    split
    · rw [get_upd_ne _ _ _ _ h]
    · rfl
  · rw [get_upd_ne _ _ _ _ h]

theorem get_linkStep_self (net : Net W) (i : Nat) (s : St W) (l : NLink W) (hi : i < s.length)
    (htd : l.timeDelayed = false) :
    get (linkStep net i s l) i =
      { get s i with
        sum := Scalar.add (get s i).sum (Scalar.mul l.w (activeOut (get s l.src)))
        isActive := (get s i).isActive || ((get s l.src).isActive || isSensorAt net l.src) } := by
  unfold linkStep
  simp only [htd, Bool.not_false, if_true]
  by_cases hc : ((get s l.src).isActive || isSensorAt net l.src) = true
  · rw [if_pos hc, get_upd_self _ _ _ (by simpa using hi), get_upd_self _ _ _ hi]
    simp [hc]
  · rw [if_neg hc, get_upd_self _ _ _ hi]
    have : ((get s l.src).isActive || isSensorAt net l.src) = false := by simpa using hc
    simp [this]

theorem foldl_congr_mem {α β : Type} (f g : β → α → β) (ls : List α) (acc : β)
    (h : ∀ a, ∀ l ∈ ls, f a l = g a l) : ls.foldl f acc = ls.foldl g acc := by
  induction ls generalizing acc with
  | nil => rfl
  | cons l ls ih =>
    simp only [List.foldl_cons]
    rw [h acc l (by simp)]
    exact ih _ (fun a l' hl' => h a l' (by simp [hl']))

/-- the accumulated sum of a link list, read off a state -/
def sumOf (s : St W) (ls : List (NLink W)) (acc : W) : W :=
  ls.foldl (fun a l => Scalar.add a (Scalar.mul l.w (activeOut (get s l.src)))) acc

theorem foldl_linkStep_spec (net : Net W) (i : Nat) (ls : List (NLink W)) (s : St W) (hi : i < s.length)
    (hls : ∀ l ∈ ls, l.timeDelayed = false ∧ l.src ≠ i) :
    (∀ j, j ≠ i → get (ls.foldl (linkStep net i) s) j = get s j) ∧
    (get (ls.foldl (linkStep net i) s) i).sum = sumOf s ls (get s i).sum ∧
    (get (ls.foldl (linkStep net i) s) i).activation = (get s i).activation ∧
    (get (ls.foldl (linkStep net i) s) i).count = (get s i).count ∧
    ((get s i).isActive = true → (get (ls.foldl (linkStep net i) s) i).isActive = true) ∧
    ((∃ l ∈ ls, (get s l.src).isActive = true ∨ isSensorAt net l.src = true) →
      (get (ls.foldl (linkStep net i) s) i).isActive = true) := by
  induction ls generalizing s with
  | nil => exact ⟨fun _ _ => rfl, rfl, rfl, rfl, id, fun ⟨l, hl, _⟩ => by simp at hl⟩
  | cons l ls ih =>
    have hl := hls l (by simp)
    have hrest : ∀ l' ∈ ls, l'.timeDelayed = false ∧ l'.src ≠ i := fun l' h' => hls l' (by simp [h'])
    have hself := get_linkStep_self net i s l hi hl.1
    have hne := get_linkStep_ne net i s l
    have hi1 : i < (linkStep net i s l).length := by rw [length_linkStep]; exact hi
    obtain ⟨h1, h2, h3, h4, h5, h6⟩ := ih (linkStep net i s l) hi1 hrest
    simp only [List.foldl_cons]
    -- reading a source (≠ i) in the intermediate state = reading it in s
    have hsrc : ∀ l' ∈ ls, get (linkStep net i s l) l'.src = get s l'.src :=
      fun l' h' => hne _ (hrest l' h').2
    refine ⟨fun j hj => by rw [h1 j hj, hne j hj], ?_, by rw [h3, hself], by rw [h4, hself], ?_, ?_⟩
    · rw [h2, hself]
      simp only [sumOf, List.foldl_cons]
      apply foldl_congr_mem
      intro a l' h'
      rw [hsrc l' h']
    · intro ha
      apply h5
      rw [hself]
      simp [ha]
    · rintro ⟨l', hl', hact⟩
      rcases List.mem_cons.mp hl' with rfl | hl'
      · apply h5
        rw [hself]
        rcases hact with h | h <;> simp [h]
      · apply h6
        exact ⟨l', hl', by rw [hsrc l' hl']; exact hact⟩

theorem sumNode_spec (net : Net W) (nd : NNodeS W) (i : Nat) (s : St W) (hi : i < s.length)
    (hls : ∀ l ∈ nd.incoming, l.timeDelayed = false ∧ l.src ≠ i) :
    (sumNode net nd i s).length = s.length ∧
    (∀ j, j ≠ i → get (sumNode net nd i s) j = get s j) ∧
    (get (sumNode net nd i s) i).sum = sumOf s nd.incoming Scalar.zero ∧
    (get (sumNode net nd i s) i).activation = (get s i).activation ∧
    (get (sumNode net nd i s) i).count = (get s i).count ∧
    ((get s i).isActive = true → (get (sumNode net nd i s) i).isActive = true) ∧
    ((∃ l ∈ nd.incoming, (get s l.src).isActive = true ∨ isSensorAt net l.src = true) →
      (get (sumNode net nd i s) i).isActive = true) := by
  unfold sumNode
  have hi0 : i < (upd s i (fun x => { x with sum := Scalar.zero })).length := by simpa using hi
  obtain ⟨h1, h2, h3, h4, h5, h6⟩ := foldl_linkStep_spec net i nd.incoming _ hi0 hls
  have hself : get (upd s i (fun x => { x with sum := Scalar.zero })) i = { get s i with sum := Scalar.zero } :=
    get_upd_self _ _ _ hi
  have hne : ∀ j, j ≠ i → get (upd s i (fun x => { x with sum := Scalar.zero })) j = get s j :=
    fun j hj => get_upd_ne _ _ _ _ hj
  refine ⟨by rw [length_foldl_linkStep]; simp, fun j hj => by rw [h1 j hj, hne j hj], ?_, by rw [h3, hself],
    by rw [h4, hself], fun ha => h5 (by rw [hself]; exact ha), ?_⟩
  · rw [h2, hself]
    simp only [sumOf]
    apply foldl_congr_mem
    intro a l hl
    rw [hne _ (hls l hl).2]
  · rintro ⟨l, hl, hact⟩
    exact h6 ⟨l, hl, by rw [hne _ (hls l hl).2]; exact hact⟩

theorem activeOut_eq {a b : NState W} (h1 : a.activation = b.activation) (h2 : a.count = b.count) :
    activeOut a = activeOut b := by
  simp [activeOut, h1, h2]

theorem sumOf_congr (s s' : St W) (ls : List (NLink W)) (acc : W)
    (h : ∀ j, (get s' j).activation = (get s j).activation ∧ (get s' j).count = (get s j).count) :
    sumOf s' ls acc = sumOf s ls acc := by
  simp only [sumOf]
  apply foldl_congr_mem
  intro a l _
  rw [activeOut_eq (h l.src).1 (h l.src).2]

/-! ### the whole first sweep -/

theorem sweep1Aux_spec (net : Net W) (rest : List (NNodeS W)) (i0 : Nat) (s : St W)
    (hlen : i0 + rest.length ≤ s.length)
    (hok : ∀ k nd, rest[k]? = some nd → nd.isNeuron = true →
      ∀ l ∈ nd.incoming, l.timeDelayed = false ∧ l.src ≠ i0 + k) :
    (sweep1Aux net rest i0 s).length = s.length ∧
    (∀ j, (get (sweep1Aux net rest i0 s) j).activation = (get s j).activation ∧
          (get (sweep1Aux net rest i0 s) j).count = (get s j).count ∧
          ((get s j).isActive = true → (get (sweep1Aux net rest i0 s) j).isActive = true)) ∧
    (∀ j, j < i0 → get (sweep1Aux net rest i0 s) j = get s j) ∧
    (∀ k nd, rest[k]? = some nd → nd.isNeuron = true →
      (get (sweep1Aux net rest i0 s) (i0 + k)).sum = sumOf s nd.incoming Scalar.zero ∧
      ((∃ l ∈ nd.incoming, (get s l.src).isActive = true ∨ isSensorAt net l.src = true) →
        (get (sweep1Aux net rest i0 s) (i0 + k)).isActive = true)) := by
  induction rest generalizing i0 s with
  | nil => exact ⟨rfl, fun _ => ⟨rfl, rfl, id⟩, fun _ _ => rfl, fun k nd hk => by simp at hk⟩
  | cons nd rest ih =>
    unfold sweep1Aux
    have hlen' : i0 + 1 + rest.length ≤ s.length := by simp at hlen; omega
    have hok' : ∀ k nd', rest[k]? = some nd' → nd'.isNeuron = true →
        ∀ l ∈ nd'.incoming, l.timeDelayed = false ∧ l.src ≠ i0 + 1 + k := by
      intro k nd' hk hn l hl
      have := hok (k + 1) nd' (by simpa using hk) hn l hl
      exact ⟨this.1, by omega⟩
    by_cases hn : nd.isNeuron = true
    · simp only [hn, if_true]
      have hi : i0 < s.length := by simp at hlen; omega
      obtain ⟨a0, a1, a2, a3, a4, a5, a6⟩ := sumNode_spec net nd i0 s hi (by simpa using hok 0 nd (by simp) hn)
      obtain ⟨b1, b2, b3, b4⟩ := ih (i0 + 1) (sumNode net nd i0 s) (by rw [a0]; exact hlen') hok'
      -- frame of sumNode relative to s
      have frame : ∀ j, (get (sumNode net nd i0 s) j).activation = (get s j).activation ∧
          (get (sumNode net nd i0 s) j).count = (get s j).count ∧
          ((get s j).isActive = true → (get (sumNode net nd i0 s) j).isActive = true) := by
        intro j
        by_cases hj : j = i0
        · subst hj; exact ⟨a3, a4, a5⟩
        · rw [a1 j hj]; exact ⟨rfl, rfl, id⟩
      refine ⟨by rw [b1, a0], fun j => ?_, fun j hj => ?_, fun k nd' hk hn' => ?_⟩
      · obtain ⟨c1, c2, c3⟩ := b2 j
        obtain ⟨d1, d2, d3⟩ := frame j
        exact ⟨c1.trans d1, c2.trans d2, fun h => c3 (d3 h)⟩
      · rw [b3 j (by omega), a1 j (by omega)]
      · cases k with
        | zero =>
          simp only [List.getElem?_cons_zero, Option.some.injEq] at hk
          subst hk
          simp only [Nat.add_zero]
          rw [b3 i0 (by omega)]
          exact ⟨a2, a6⟩
        | succ k' =>
          have hk' : rest[k']? = some nd' := by simpa using hk
          obtain ⟨e1, e2⟩ := b4 k' nd' hk' hn'
          have hidx : i0 + (k' + 1) = i0 + 1 + k' := by omega
          rw [hidx]
          refine ⟨?_, ?_⟩
          · rw [e1]
            exact sumOf_congr s _ nd'.incoming _ (fun j => ⟨(frame j).1, (frame j).2.1⟩)
          · rintro ⟨l, hl, hact⟩
            apply e2
            refine ⟨l, hl, ?_⟩
            rcases hact with h | h
            · exact Or.inl ((frame l.src).2.2 h)
            · exact Or.inr h
    · simp only [hn]
      obtain ⟨b1, b2, b3, b4⟩ := ih (i0 + 1) s hlen' hok'
      refine ⟨b1, b2, fun j hj => b3 j (by omega), fun k nd' hk hn' => ?_⟩
      cases k with
      | zero =>
        simp only [List.getElem?_cons_zero, Option.some.injEq] at hk
        subst hk
        exact absurd hn' hn
      | succ k' =>
        have hk' : rest[k']? = some nd' := by simpa using hk
        have hidx : i0 + (k' + 1) = i0 + 1 + k' := by omega
        rw [hidx]
        exact b4 k' nd' hk' hn'

/-! ### the second sweep -/

theorem sweep2Aux_spec (σ : Nat → W → Option W) (rest : List (NNodeS W)) (i0 : Nat) (s : St W)
    (hlen : i0 + rest.length ≤ s.length)
    (hσ : ∀ (k : Nat) (nd : NNodeS W), rest[k]? = some nd → nd.isNeuron = true → ∀ x, (σ nd.act x).isSome = true) :
    (sweep2Aux σ rest i0 s).2 = none ∧
    (sweep2Aux σ rest i0 s).1.length = s.length ∧
    (∀ j, j < i0 → get (sweep2Aux σ rest i0 s).1 j = get s j) ∧
    (∀ j, i0 + rest.length ≤ j → get (sweep2Aux σ rest i0 s).1 j = get s j) ∧
    (∀ (k : Nat) (nd : NNodeS W), rest[k]? = some nd →
      ((nd.isNeuron && (get s (i0 + k)).isActive) = true →
        ∃ out, σ nd.act (get s (i0 + k)).sum = some out ∧
          get (sweep2Aux σ rest i0 s).1 (i0 + k) = setActivation out (get s (i0 + k))) ∧
      ((nd.isNeuron && (get s (i0 + k)).isActive) = false →
        get (sweep2Aux σ rest i0 s).1 (i0 + k) = get s (i0 + k))) := by
  induction rest generalizing i0 s with
  | nil => exact ⟨rfl, rfl, fun _ _ => rfl, fun _ _ => rfl, fun k nd hk => by simp at hk⟩
  | cons nd rest ih =>
    have hlen' : i0 + 1 + rest.length ≤ s.length := by simp at hlen; omega
    have hi : i0 < s.length := by simp at hlen; omega
    have hσ' : ∀ (k : Nat) (nd' : NNodeS W), rest[k]? = some nd' → nd'.isNeuron = true → ∀ x, (σ nd'.act x).isSome = true :=
      fun k nd' hk hn => hσ (k + 1) nd' (by simpa using hk) hn
    unfold sweep2Aux
    by_cases hc : (nd.isNeuron && (get s i0).isActive) = true
    · simp only [hc, if_true]
      have hn : nd.isNeuron = true := by simp only [Bool.and_eq_true] at hc; exact hc.1
      have hsome := hσ 0 nd (by simp) hn (get s i0).sum
      cases hout : σ nd.act (get s i0).sum with
      | none => rw [hout] at hsome; simp at hsome
      | some out =>
        simp only
        obtain ⟨b0, b1, b2, b3, b4⟩ := ih (i0 + 1) (upd s i0 (setActivation out)) (by simpa using hlen') hσ'
        have hne : ∀ j, j ≠ i0 → get (upd s i0 (setActivation out)) j = get s j := fun j hj => get_upd_ne _ _ _ _ hj
        refine ⟨b0, by rw [b1]; simp, fun j hj => by rw [b2 j (by omega), hne j (by omega)],
          fun j hj => by rw [b3 j (by simp at hj; omega), hne j (by simp at hj; omega)], fun k nd' hk => ?_⟩
        cases k with
        | zero =>
          simp only [List.getElem?_cons_zero, Option.some.injEq] at hk
          subst hk
          simp only [Nat.add_zero]
          rw [b2 i0 (by omega), get_upd_self _ _ _ hi]
          exact ⟨fun _ => ⟨out, hout, rfl⟩, fun h => by rw [hc] at h; simp at h⟩
        | succ k' =>
          have hk' : rest[k']? = some nd' := by simpa using hk
          have hidx : i0 + (k' + 1) = i0 + 1 + k' := by omega
          have := b4 k' nd' hk'
          rw [hne (i0 + 1 + k') (by omega)] at this
          rw [hidx]
          exact this
    · rw [if_neg hc]
      obtain ⟨b0, b1, b2, b3, b4⟩ := ih (i0 + 1) s hlen' hσ'
      refine ⟨b0, b1, fun j hj => b2 j (by omega), fun j hj => b3 j (by simp at hj; omega), fun k nd' hk => ?_⟩
      cases k with
      | zero =>
        simp only [List.getElem?_cons_zero, Option.some.injEq] at hk
        subst hk
        simp only [Nat.add_zero]
        rw [b2 i0 (by omega)]
        exact ⟨fun h => absurd h hc, fun _ => rfl⟩
      | succ k' =>
        have hk' : rest[k']? = some nd' := by simpa using hk
        have hidx : i0 + (k' + 1) = i0 + 1 + k' := by omega
        rw [hidx]
        exact b4 k' nd' hk'

/-! ### the feed-forward function -/

theorem sumIn_mono (e1 e2 : Nat → Option W) (h : ∀ j v, e1 j = some v → e2 j = some v) (ls : List (NLink W)) (acc x : W)
    (hx : sumIn e1 ls acc = some x) : sumIn e2 ls acc = some x := by
  induction ls generalizing acc with
  | nil => exact hx
  | cons l ls ih =>
    unfold sumIn at hx ⊢
    cases h1 : e1 l.src with
    | none => rw [h1] at hx; simp at hx
    | some v =>
      rw [h1] at hx
      rw [h l.src v h1]
      exact ih _ hx

theorem evalNode_mono (net : Net W) (σ : Nat → W → Option W) (sens : Nat → W) (f : Nat) :
    ∀ i v, evalNode net σ sens f i = some v → evalNode net σ sens (f + 1) i = some v := by
  induction f with
  | zero => intro i v h; simp [evalNode] at h
  | succ f ih =>
    intro i v h
    unfold evalNode at h ⊢
    cases hn : net.nodes[i]? with
    | none => rw [hn] at h; simp at h
    | some nd =>
      rw [hn] at h
      simp only at h ⊢
      by_cases hs : nd.isSensor = true
      · simpa [hs] using h
      · simp only [hs] at h ⊢
        cases hsum : sumIn (evalNode net σ sens f) nd.incoming Scalar.zero with
        | none => rw [hsum] at h; simp at h
        | some x =>
          rw [hsum] at h
          rw [sumIn_mono _ _ ih nd.incoming _ x hsum]
          exact h

theorem evalNode_mono_le (net : Net W) (σ : Nat → W → Option W) (sens : Nat → W) (f g : Nat) (hfg : f ≤ g)
    (i : Nat) (v : W) (h : evalNode net σ sens f i = some v) : evalNode net σ sens g i = some v := by
  induction g with
  | zero =>
    have : f = 0 := by omega
    subst this; exact h
  | succ g ih =>
    by_cases hf : f = g + 1
    · subst hf; exact h
    · exact evalNode_mono net σ sens g i v (ih (by omega))

theorem sumIn_eq_sumOf (e : Nat → Option W) (s : St W) (ls : List (NLink W)) (acc : W)
    (h : ∀ l ∈ ls, e l.src = some (activeOut (get s l.src))) : sumIn e ls acc = some (sumOf s ls acc) := by
  induction ls generalizing acc with
  | nil => rfl
  | cons l ls ih =>
    unfold sumIn
    rw [h l (by simp)]
    simp only [sumOf, List.foldl_cons]
    exact ih _ (fun l' hl' => h l' (by simp [hl']))

/-! ### layer invariant -/

theorem ffAux_get (net : Net W) (lvl : Nat → Nat) (rest : List (NNodeS W)) (i0 : Nat)
    (h : ffAux net lvl rest i0 = true) (k : Nat) (nd : NNodeS W) (hk : rest[k]? = some nd) :
    ffNode net lvl (i0 + k) nd = true := by
  induction rest generalizing i0 k with
  | nil => simp at hk
  | cons a rest ih =>
    simp only [ffAux, Bool.and_eq_true] at h
    cases k with
    | zero => simp at hk; subst hk; exact h.1
    | succ k' =>
      have := ih (i0 + 1) h.2 k' (by simpa using hk)
      have hidx : i0 + (k' + 1) = i0 + 1 + k' := by omega
      rw [hidx]; exact this

structure FFProps (net : Net W) (lvl : Nat → Nat) : Prop where
  node : ∀ i nd, net.nodes[i]? = some nd → ffNode net lvl i nd = true
  outs : ∀ o ∈ net.outputs, o < net.nodes.length

theorem FFNet_props (net : Net W) (lvl : Nat → Nat) (h : FFNet net lvl = true) : FFProps net lvl := by
  simp only [FFNet, Bool.and_eq_true, List.all_eq_true, decide_eq_true_eq] at h
  exact ⟨fun i nd hi => by simpa using ffAux_get net lvl net.nodes 0 h.1.2 i nd hi, h.2⟩

/-- neuron facts extracted from `ffNode` -/
theorem ffNode_neuron (net : Net W) (lvl : Nat → Nat) (i : Nat) (nd : NNodeS W) (h : ffNode net lvl i nd = true)
    (hs : nd.isSensor = false) :
    nd.isNeuron = true ∧ nd.incoming ≠ [] ∧
      ∀ l ∈ nd.incoming, l.src < net.nodes.length ∧ l.timeDelayed = false ∧ lvl l.src < lvl i := by
  simp only [ffNode, hs, Bool.false_eq_true, if_false, Bool.and_eq_true, List.all_eq_true, decide_eq_true_eq,
    Bool.not_eq_true', List.isEmpty_eq_false_iff] at h
  exact ⟨h.1.1, h.1.2, fun l hl => ⟨(h.2 l hl).1.1, (h.2 l hl).1.2, (h.2 l hl).2⟩⟩

/-- `P t s`: sensors are loaded with `sens`; every neuron of rank ≤ t is active and holds its feed-forward value -/
structure P (net : Net W) (σ : Nat → W → Option W) (sens : Nat → W) (lvl : Nat → Nat) (t : Nat) (s : St W) : Prop where
  len : s.length = net.nodes.length
  sensor : ∀ i nd, net.nodes[i]? = some nd → nd.isSensor = true → (get s i).count > 0 ∧ (get s i).activation = sens i
  neuron : ∀ i nd, net.nodes[i]? = some nd → nd.isSensor = false → lvl i ≤ t →
    (get s i).isActive = true ∧ (get s i).count > 0 ∧ evalNode net σ sens (lvl i + 1) i = some (get s i).activation

theorem P.mono {net : Net W} {σ : Nat → W → Option W} {sens : Nat → W} {lvl : Nat → Nat} {t t' : Nat} {s : St W}
    (h : P net σ sens lvl t s) (ht : t' ≤ t) : P net σ sens lvl t' s :=
  ⟨h.len, h.sensor, fun i nd hi hs hl => h.neuron i nd hi hs (by omega)⟩

theorem sensor_not_neuron (nd : NNodeS W) (h : nd.isSensor = true) : nd.isNeuron = false := by
  simp only [NNodeS.isSensor, NNodeS.isNeuron, Kind.input, Kind.bias, Kind.hidden, Kind.output, Bool.or_eq_true,
    beq_iff_eq] at h ⊢
  rcases h with h | h <;> simp [h]

/-- the value a source holds under `P`, as seen by `evalNode` with enough fuel -/
theorem P_source (net : Net W) (σ : Nat → W → Option W) (sens : Nat → W) (lvl : Nat → Nat) (t : Nat) (s : St W)
    (hP : P net σ sens lvl t s) (j : Nat) (hj : j < net.nodes.length) (hl : lvl j ≤ t) (f : Nat) (hf : lvl j + 1 ≤ f) :
    evalNode net σ sens f j = some (activeOut (get s j)) ∧
      ((get s j).isActive = true ∨ isSensorAt net j = true) := by
  have hn : net.nodes[j]? = some net.nodes[j] := List.getElem?_eq_getElem hj
  by_cases hs : (net.nodes[j]).isSensor = true
  · obtain ⟨h1, h2⟩ := hP.sensor j _ hn hs
    refine ⟨?_, Or.inr (by simp [isSensorAt, hn, hs])⟩
    have hf1 : f = (f - 1) + 1 := by omega
    rw [hf1]
    unfold evalNode
    simp [hn, hs, activeOut, h1, h2]
  · have hs' : (net.nodes[j]).isSensor = false := by simpa using hs
    obtain ⟨h1, h2, h3⟩ := hP.neuron j _ hn hs' hl
    refine ⟨?_, Or.inl h1⟩
    have : activeOut (get s j) = (get s j).activation := by simp [activeOut, h2]
    rw [this]
    exact evalNode_mono_le net σ sens _ f hf j _ h3

/-- one pass of the two sweeps advances the invariant by one layer and reports no error -/
theorem sweeps_step (net : Net W) (σ : Nat → W → Option W) (sens : Nat → W) (lvl : Nat → Nat)
    (hff : FFProps net lvl)
    (hσ : ∀ (i : Nat) (nd : NNodeS W), net.nodes[i]? = some nd → nd.isNeuron = true → ∀ x, (σ nd.act x).isSome = true)
    (t : Nat) (s : St W) (hP : P net σ sens lvl t s) :
    (sweep2 net σ (sweep1 net s)).2 = none ∧ P net σ sens lvl (t + 1) (sweep2 net σ (sweep1 net s)).1 := by
  -- facts about the first sweep
  have hok : ∀ k nd, net.nodes[k]? = some nd → nd.isNeuron = true →
      ∀ l ∈ nd.incoming, l.timeDelayed = false ∧ l.src ≠ 0 + k := by
    intro k nd hk hn l hl
    have hs : nd.isSensor = false := by
      cases h : nd.isSensor with
      | false => rfl
      | true => rw [sensor_not_neuron nd h] at hn; simp at hn
    obtain ⟨_, _, h3⟩ := ffNode_neuron net lvl k nd (hff.node k nd hk) hs
    have := h3 l hl
    refine ⟨this.2.1, fun heq => ?_⟩
    have h4 := this.2.2
    rw [heq, Nat.zero_add] at h4
    exact Nat.lt_irrefl _ h4
  obtain ⟨a1, a2, _, a4⟩ := sweep1Aux_spec net net.nodes 0 s (by rw [hP.len]; omega) hok
  have hσ0 : ∀ (k : Nat) (nd : NNodeS W), net.nodes[k]? = some nd → nd.isNeuron = true → ∀ x, (σ nd.act x).isSome = true := hσ
  obtain ⟨b0, b1, _, _, b4⟩ := sweep2Aux_spec σ net.nodes 0 (sweep1Aux net net.nodes 0 s)
    (by rw [a1, hP.len]; omega) hσ0
  refine ⟨b0, ⟨by unfold sweep2 sweep1; rw [b1, a1, hP.len], fun i nd hi hs => ?_, fun i nd hi hs hl => ?_⟩⟩
  · -- sensors are not touched
    have hnn := sensor_not_neuron nd hs
    have := (b4 i nd hi).2 (by simp [hnn])
    rw [Nat.zero_add] at this
    unfold sweep2 sweep1
    rw [this, (a2 i).1, (a2 i).2.1]
    exact hP.sensor i nd hi hs
  · -- a neuron of rank ≤ t+1: all its sources hold their values
    obtain ⟨hn, hne, hlinks⟩ := ffNode_neuron net lvl i nd (hff.node i nd hi) hs
    have hsrc : ∀ l ∈ nd.incoming, evalNode net σ sens (lvl i) l.src = some (activeOut (get s l.src)) ∧
        ((get s l.src).isActive = true ∨ isSensorAt net l.src = true) := by
      intro l hl'
      obtain ⟨h1, _, h3⟩ := hlinks l hl'
      exact P_source net σ sens lvl t s hP l.src h1 (by omega) (lvl i) (by omega)
    obtain ⟨c1, c2⟩ := a4 i nd hi hn
    rw [Nat.zero_add] at c1 c2
    have hact : (get (sweep1Aux net net.nodes 0 s) i).isActive = true := by
      apply c2
      obtain ⟨l, hl'⟩ := List.exists_mem_of_ne_nil _ hne
      exact ⟨l, hl', (hsrc l hl').2⟩
    obtain ⟨out, hout, hget⟩ := (b4 i nd hi).1 (by rw [Nat.zero_add]; simp [hn, hact])
    rw [Nat.zero_add] at hout hget
    unfold sweep2 sweep1
    rw [hget]
    refine ⟨by simp [setActivation, saveActs, hact], by simp [setActivation, saveActs], ?_⟩
    -- the value
    have hsum : sumIn (evalNode net σ sens (lvl i)) nd.incoming Scalar.zero = some (sumOf s nd.incoming Scalar.zero) :=
      sumIn_eq_sumOf _ s nd.incoming _ (fun l hl' => (hsrc l hl').1)
    unfold evalNode
    simp only [hi, hs, Bool.false_eq_true, if_false, hsum]
    rw [← c1, hout]
    simp [setActivation, saveActs]

/-! ### ActivateSteps / ForwardSteps on a feed-forward network -/

theorem outputs_on (net : Net W) (σ : Nat → W → Option W) (sens : Nat → W) (lvl : Nat → Nat) (hff : FFProps net lvl)
    (t : Nat) (s : St W) (hP : P net σ sens lvl t s) (hk : ∀ o ∈ net.outputs, lvl o ≤ t) :
    outputIsOff net s = false := by
  unfold outputIsOff
  rw [List.any_eq_false]
  intro o ho
  have hlt := hff.outs o ho
  have hn : net.nodes[o]? = some net.nodes[o] := List.getElem?_eq_getElem hlt
  have hpos : (get s o).count > 0 := by
    by_cases hs : (net.nodes[o]).isSensor = true
    · exact (hP.sensor o _ hn hs).1
    · exact (hP.neuron o _ hn (by simpa using hs) (hk o ho)).2.1
  simp only [beq_iff_eq]
  omega

theorem actLoop_ff (net : Net W) (σ : Nat → W → Option W) (sens : Nat → W) (lvl : Nat → Nat) (hff : FFProps net lvl)
    (hσ : ∀ (i : Nat) (nd : NNodeS W), net.nodes[i]? = some nd → nd.isNeuron = true → ∀ x, (σ nd.act x).isSome = true)
    (k : Nat) (hk : ∀ o ∈ net.outputs, lvl o ≤ k) (hk1 : 1 ≤ k) (fuel : Nat) :
    ∀ (abort : Nat) (one : Bool) (t : Nat) (s : St W), P net σ sens lvl t s → abort ≤ t →
      (one = false → abort = 0) → k + 1 ≤ fuel + abort → 1 ≤ fuel →
      (actLoop net σ (k : Int) fuel abort one s).2 = (true, none) ∧
        P net σ sens lvl (if one then t else t + 1) (actLoop net σ (k : Int) fuel abort one s).1 := by
  induction fuel with
  | zero => intro _ _ _ _ _ _ _ _ h; omega
  | succ fuel ih =>
    intro abort one t s hP hat hone hfuel _
    unfold actLoop
    by_cases hcond : (outputIsOff net s || !one) = true
    · simp only [hcond, if_true]
      have hlt : abort < k := by
        cases one with
        | false => have := hone rfl; omega
        | true =>
          simp only [Bool.not_true, Bool.or_false] at hcond
          apply Nat.lt_of_not_le
          intro hge
          have := outputs_on net σ sens lvl hff t s hP (fun o ho => Nat.le_trans (hk o ho) (Nat.le_trans hge hat))
          rw [this] at hcond
          simp at hcond
      have hnot : ¬ ((abort : Int) ≥ (k : Int)) := by omega
      simp only [hnot, if_false]
      obtain ⟨e1, e2⟩ := sweeps_step net σ sens lvl hff hσ t s hP
      rcases hsw : sweep2 net σ (sweep1 net s) with ⟨s2, e⟩
      rw [hsw] at e1 e2
      simp only at e1 e2
      subst e1
      simp only
      have := ih (abort + 1) true (t + 1) s2 e2 (by omega) (by simp) (by omega) (by omega)
      simp only [if_true] at this
      refine ⟨this.1, ?_⟩
      cases one with
      | false => simpa using this.2
      | true => simpa using this.2.mono (by omega)
    · have hc : (outputIsOff net s || !one) = false := by simpa using hcond
      simp only [hc, Bool.false_eq_true, if_false]
      have hone' : one = true := by
        cases one with
        | true => rfl
        | false => simp at hc
      subst hone'
      exact ⟨by simp, by simpa using hP⟩

theorem activateSteps_ff (net : Net W) (σ : Nat → W → Option W) (sens : Nat → W) (lvl : Nat → Nat) (hff : FFProps net lvl)
    (hσ : ∀ (i : Nat) (nd : NNodeS W), net.nodes[i]? = some nd → nd.isNeuron = true → ∀ x, (σ nd.act x).isSome = true)
    (k : Nat) (hk : ∀ o ∈ net.outputs, lvl o ≤ k) (hk1 : 1 ≤ k) (t : Nat) (s : St W) (hP : P net σ sens lvl t s) :
    (activateSteps net σ (k : Int) s).2 = (true, none) ∧ P net σ sens lvl (t + 1) (activateSteps net σ (k : Int) s).1 := by
  unfold activateSteps
  have hk0 : ((k : Int) == 0) = false := by
    simp only [beq_eq_false_iff_ne, ne_eq]
    omega
  simp only [hk0, Bool.false_eq_true, if_false]
  have := actLoop_ff net σ sens lvl hff hσ k hk hk1 ((k : Int).toNat + 2) 0 false t s hP (by omega) (fun _ => rfl)
    (by simp) (by omega)
  simpa using this

theorem fwdLoop_ff (net : Net W) (σ : Nat → W → Option W) (sens : Nat → W) (lvl : Nat → Nat) (hff : FFProps net lvl)
    (hσ : ∀ (i : Nat) (nd : NNodeS W), net.nodes[i]? = some nd → nd.isNeuron = true → ∀ x, (σ nd.act x).isSome = true)
    (k : Nat) (hk : ∀ o ∈ net.outputs, lvl o ≤ k) (hk1 : 1 ≤ k) (n : Nat) :
    ∀ (res : Bool) (t : Nat) (s : St W), P net σ sens lvl t s → 1 ≤ n →
      (fwdLoop net σ (k : Int) n res s).2 = (true, none) ∧ P net σ sens lvl (t + n) (fwdLoop net σ (k : Int) n res s).1 := by
  induction n with
  | zero => intro _ _ _ _ h; omega
  | succ n ih =>
    intro res t s hP _
    unfold fwdLoop
    obtain ⟨e1, e2⟩ := activateSteps_ff net σ sens lvl hff hσ k hk hk1 t s hP
    rcases ha : activateSteps net σ (k : Int) s with ⟨s', r, e⟩
    rw [ha] at e1 e2
    simp only [Prod.mk.injEq] at e1
    obtain ⟨rfl, rfl⟩ := e1
    simp only
    cases n with
    | zero => exact ⟨rfl, by simpa [fwdLoop] using e2⟩
    | succ n' =>
      have := ih true (t + 1) s' e2 (by omega)
      refine ⟨this.1, ?_⟩
      have heq : t + 1 + (n' + 1) = t + (n' + 1 + 1) := by omega
      rw [← heq]
      exact this.2

end GoNeat.Solver

/-! ### LoadSensors on any state marks every listed sensor as loaded -/
namespace GoNeat.Solver
variable {W : Type} [Scalar W]

theorem count_upd_sensorLoad (s : St W) (i : Nat) (x : W) (j : Nat) :
    (get s j).count ≤ (get (upd s i (sensorLoad x)) j).count ∧
      (j = i → i < s.length → 0 < (get (upd s i (sensorLoad x)) j).count) := by
  by_cases hj : j = i
  · subst hj
    by_cases hl : j < s.length
    · rw [get_upd_self _ _ _ hl]
      simp [sensorLoad, saveActs]
    · rw [upd_ge _ _ _ (by omega)]
      exact ⟨Nat.le_refl _, fun _ h => absurd h hl⟩
  · rw [get_upd_ne _ _ _ _ hj]
    exact ⟨Nat.le_refl _, fun h => absurd h hj⟩

theorem loadNe_loaded (net : Net W) (is : List Nat) :
    ∀ (xs : List W) (s : St W), (loadNe net is xs s).2 = none →
      (∀ j, (get s j).count ≤ (get (loadNe net is xs s).1 j).count) ∧
      (∀ i ∈ is, isSensorAt net i = true → i < s.length → 0 < (get (loadNe net is xs s).1 i).count) := by
  induction is with
  | nil => intro xs s _; exact ⟨fun _ => Nat.le_refl _, fun i hi => by simp at hi⟩
  | cons i rest ih =>
    intro xs s hok
    unfold loadNe at hok ⊢
    -- common continuation after loading `i` with some value `x`
    have cont : ∀ (x : W) (xs' : List W), (loadNe net rest xs' (upd s i (sensorLoad x))).2 = none →
        (∀ j, (get s j).count ≤ (get (loadNe net rest xs' (upd s i (sensorLoad x))).1 j).count) ∧
        (∀ i' ∈ i :: rest, isSensorAt net i' = true → i' < s.length →
          0 < (get (loadNe net rest xs' (upd s i (sensorLoad x))).1 i').count) := by
      intro x xs' h
      obtain ⟨m, p⟩ := ih xs' (upd s i (sensorLoad x)) h
      refine ⟨fun j => Nat.le_trans (count_upd_sensorLoad s i x j).1 (m j), fun i' hi' hs hl => ?_⟩
      rcases List.mem_cons.mp hi' with rfl | hi'
      · exact Nat.lt_of_lt_of_le ((count_upd_sensorLoad s i' x i').2 rfl hl) (m i')
      · exact p i' hi' hs (by simpa using hl)
    split
    · next hk =>
      simp only [hk, if_true] at hok
      cases xs with
      | nil => simp at hok
      | cons x xs' => exact cont x xs' hok
    · next hk =>
      simp only [hk] at hok
      split
      · next hsn =>
        simp only [hsn, if_true] at hok
        exact cont Scalar.one xs hok
      · next hsn =>
        simp only [hsn] at hok
        obtain ⟨m, p⟩ := ih xs s hok
        refine ⟨m, fun i' hi' hs hl => ?_⟩
        rcases List.mem_cons.mp hi' with rfl | hi'
        · exact absurd hs hsn
        · exact p i' hi' hs hl

theorem loadEq_loaded (net : Net W) (is : List Nat) :
    ∀ (xs : List W) (s : St W), (loadEq net is xs s).2 = none →
      (∀ j, (get s j).count ≤ (get (loadEq net is xs s).1 j).count) ∧
      (∀ i ∈ is, isSensorAt net i = true → i < s.length → 0 < (get (loadEq net is xs s).1 i).count) := by
  induction is with
  | nil => intro xs s _; exact ⟨fun _ => Nat.le_refl _, fun i hi => by simp at hi⟩
  | cons i rest ih =>
    intro xs s hok
    unfold loadEq at hok ⊢
    split
    · next hsn =>
      simp only [hsn, if_true] at hok
      cases xs with
      | nil => simp at hok
      | cons x xs' =>
        simp only at hok ⊢
        obtain ⟨m, p⟩ := ih xs' (upd s i (sensorLoad x)) hok
        refine ⟨fun j => Nat.le_trans (count_upd_sensorLoad s i x j).1 (m j), fun i' hi' hs hl => ?_⟩
        rcases List.mem_cons.mp hi' with rfl | hi'
        · exact Nat.lt_of_lt_of_le ((count_upd_sensorLoad s i' x i').2 rfl hl) (m i')
        · exact p i' hi' hs (by simpa using hl)
    · next hsn =>
      simp only [hsn] at hok
      obtain ⟨m, p⟩ := ih xs s hok
      refine ⟨m, fun i' hi' hs hl => ?_⟩
      rcases List.mem_cons.mp hi' with rfl | hi'
      · exact absurd hs hsn
      · exact p i' hi' hs hl

/-- after an error-free `LoadSensors` every sensor listed in `inputs` has been loaded at least once -/
theorem loadSensors_loaded (net : Net W) (xs : List W) (s : St W) (hok : (loadSensors net xs s).2 = none) :
    (loadSensors net xs s).1.length = s.length ∧
      ∀ i ∈ net.inputs, isSensorAt net i = true → i < s.length → 0 < (get (loadSensors net xs s).1 i).count := by
  unfold loadSensors at hok ⊢
  split
  · next h => simp only [h, if_true] at hok; exact ⟨length_loadEq .., (loadEq_loaded net _ xs s hok).2⟩
  · next h => simp only [h] at hok; exact ⟨length_loadNe .., (loadNe_loaded net _ xs s hok).2⟩

end GoNeat.Solver
