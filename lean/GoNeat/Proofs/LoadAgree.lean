/-
  C12: `LoadSensors` of the standard solver and of the fast solver load the same values (Kind A).

  Standard solver: the k-th input-type node of `net.inputs` takes `xs[k]`, bias nodes take 1 (second branch), or every
  sensor of `net.inputs` takes the next value (first branch; equal to the second when `inputs` holds no bias node).
  Fast solver: signal `nBias + k` takes `xs[k]`; bias signals are 1 from construction.
  With `net.inputs` duplicate-free, holding exactly the sensors, its input-type nodes in node-table order
  (`InputsCanon`), the two loaded states agree through the index map `idx` (`load_agree`).
-/
import GoNeat.Proofs.Translation

set_option linter.unusedSectionVars false

namespace GoNeat.Fast
open GoNeat.Solver (Err kindAt isSensorAt get upd sensorLoad loadEq loadNe)

variable {W : Type} [Scalar W]

def isInputAt (net : Net W) (i : Nat) : Bool := kindAt net i == some Kind.input

theorem sensorLoad_activation (x : W) (a : NState W) : (sensorLoad x a).activation = x := rfl

theorem loadNe_vals (net : Net W) (is : List Nat) :
    ∀ (xs : List W) (s : Solver.St W), is.Nodup → (∀ i ∈ is, i < s.length) → (loadNe net is xs s).2 = none →
      (∀ j, j ∉ is → get (loadNe net is xs s).1 j = get s j) ∧
      (∀ (k j : Nat) (x : W), (is.filter (isInputAt net))[k]? = some j → xs[k]? = some x →
        (get (loadNe net is xs s).1 j).activation = x) ∧
      (∀ j ∈ is, isInputAt net j = false → isSensorAt net j = true →
        (get (loadNe net is xs s).1 j).activation = Scalar.one) := by
  induction is with
  | nil =>
    intro xs s _ _ _
    exact ⟨fun _ _ => rfl, fun k j x h => by simp at h, fun j hj => by simp at hj⟩
  | cons i rest ih =>
    intro xs s hnd hlt hok
    obtain ⟨hi, hnd'⟩ := List.nodup_cons.mp hnd
    have hil : i < s.length := hlt i (by simp)
    unfold loadNe at hok ⊢
    by_cases hk : (kindAt net i == some Kind.input) = true
    · simp only [hk, if_true] at hok ⊢
      cases xs with
      | nil => simp at hok
      | cons x xs' =>
        simp only at hok ⊢
        obtain ⟨a1, a2, a3⟩ := ih xs' (upd s i (sensorLoad x)) hnd'
          (fun i' h' => by simpa using hlt i' (by simp [h'])) hok
        have hself : get (loadNe net rest xs' (upd s i (sensorLoad x))).1 i = sensorLoad x (get s i) := by
          rw [a1 i hi, Solver.get_upd_self s i _ hil]
        refine ⟨fun j hj => ?_, fun k j x' hf hx => ?_, fun j hj hnj hsj => ?_⟩
        · simp only [List.mem_cons, not_or] at hj
          rw [a1 j hj.2, Solver.get_upd_ne s i j _ hj.1]
        · have hfil : (i :: rest).filter (isInputAt net) = i :: rest.filter (isInputAt net) := by
            simp [List.filter_cons, isInputAt, hk]
          rw [hfil] at hf
          cases k with
          | zero =>
            simp only [List.getElem?_cons_zero, Option.some.injEq] at hf hx
            subst hf hx
            rw [hself]
            rfl
          | succ k' =>
            simp only [List.getElem?_cons_succ] at hf hx
            exact a2 k' j x' hf hx
        · rcases List.mem_cons.mp hj with rfl | hj'
          · simp [isInputAt, hk] at hnj
          · exact a3 j hj' hnj hsj
    · have hk' : (kindAt net i == some Kind.input) = false := by simpa using hk
      simp only [hk', Bool.false_eq_true, if_false] at hok ⊢
      have hfil : (i :: rest).filter (isInputAt net) = rest.filter (isInputAt net) := by
        simp [List.filter_cons, isInputAt, hk']
      by_cases hs : isSensorAt net i = true
      · simp only [hs, if_true] at hok ⊢
        obtain ⟨a1, a2, a3⟩ := ih xs (upd s i (sensorLoad Scalar.one)) hnd'
          (fun i' h' => by simpa using hlt i' (by simp [h'])) hok
        refine ⟨fun j hj => ?_, fun k j x' hf hx => ?_, fun j hj hnj hsj => ?_⟩
        · simp only [List.mem_cons, not_or] at hj
          rw [a1 j hj.2, Solver.get_upd_ne s i j _ hj.1]
        · rw [hfil] at hf
          exact a2 k j x' hf hx
        · rcases List.mem_cons.mp hj with rfl | hj'
          · rw [a1 j hi, Solver.get_upd_self s j _ hil]
            rfl
          · exact a3 j hj' hnj hsj
      · have hs' : isSensorAt net i = false := by simpa using hs
        simp only [hs', Bool.false_eq_true, if_false] at hok ⊢
        obtain ⟨a1, a2, a3⟩ := ih xs s hnd' (fun i' h' => hlt i' (by simp [h'])) hok
        refine ⟨fun j hj => a1 j (fun h => hj (by simp [h])), fun k j x' hf hx => ?_, fun j hj hnj hsj => ?_⟩
        · rw [hfil] at hf
          exact a2 k j x' hf hx
        · rcases List.mem_cons.mp hj with rfl | hj'
          · rw [hs'] at hsj; simp at hsj
          · exact a3 j hj' hnj hsj

/-- the first branch of `LoadSensors` coincides with the second when the list holds no non-input sensor -/
theorem loadEq_eq_loadNe (net : Net W) (is : List Nat) (h : ∀ i ∈ is, isSensorAt net i = isInputAt net i) :
    ∀ (xs : List W) (s : Solver.St W), loadEq net is xs s = loadNe net is xs s := by
  induction is with
  | nil => intro xs s; rfl
  | cons i rest ih =>
    intro xs s
    have hi := h i (by simp)
    have ih' := ih (fun i' h' => h i' (by simp [h']))
    unfold loadEq loadNe
    by_cases hk : isInputAt net i = true
    · have hk2 : (kindAt net i == some Kind.input) = true := hk
      rw [hk] at hi
      simp only [hi, hk2, if_true]
      cases xs with
      | nil => rfl
      | cons x xs' => exact ih' _ _
    · have hk1 : isInputAt net i = false := by simpa using hk
      have hk2 : (kindAt net i == some Kind.input) = false := hk1
      rw [hk1] at hi
      simp only [hi, hk2, Bool.false_eq_true, if_false]
      exact ih' _ _

theorem loadLoop_get (base : Nat) (xs : List W) :
    ∀ (k : Nat) (sig : List W),
      (∀ j, j < base + k → getW (loadLoop base xs k sig) j = getW sig j) ∧
      (∀ (m : Nat) (x : W), xs[m]? = some x → base + k + m < sig.length → getW (loadLoop base xs k sig) (base + k + m) = x) := by
  induction xs with
  | nil => intro k sig; exact ⟨fun _ _ => rfl, fun m x h => by simp at h⟩
  | cons x xs ih =>
    intro k sig
    unfold loadLoop
    obtain ⟨a1, a2⟩ := ih (k + 1) (sig.set (base + k) x)
    refine ⟨fun j hj => ?_, fun m x' hm hl => ?_⟩
    · rw [a1 j (by omega), getW_set]
      have : ¬ (j = base + k ∧ base + k < sig.length) := fun h => by omega
      simp [this]
    · cases m with
      | zero =>
        simp only [List.getElem?_cons_zero, Option.some.injEq] at hm
        subst hm
        rw [Nat.add_zero] at hl ⊢
        rw [a1 _ (by omega), getW_set]
        simp [hl]
      | succ m' =>
        simp only [List.getElem?_cons_succ] at hm
        have := a2 m' x' hm (by simp only [List.length_set]; omega)
        rw [show base + (k + 1) + m' = base + k + (m' + 1) by omega] at this
        exact this

/-- `net.inputs` is duplicate-free, holds exactly the sensors, and lists the input-type nodes in node-table order -/
def InputsCanon (net : Net W) : Bool :=
  decide net.inputs.Nodup && net.inputs.all (isSensorAt net) &&
    (List.range net.nodes.length).all (fun i => !isSensorAt net i || decide (i ∈ net.inputs)) &&
    decide (net.inputs.filter (isInputAt net) = idxOfKind net Kind.input)

theorem isInputAt_iff (net : Net W) (j : Nat) : isInputAt net j = true ↔ j ∈ idxOfKind net Kind.input := by
  rw [mem_idxOfKind]
  simp [isInputAt, kindAt, Option.map_eq_some_iff]

/-- the k-th input-type node has fast index `nBias + k` -/
theorem idx_input (net : Net W) {lvl : Nat → Nat} (hwf : TWF net lvl) (fn : FastNet W) (h : OfNet net fn) (k : Nat)
    (hk : k < (idxOfKind net Kind.input).length) : idx net ((idxOfKind net Kind.input)[k]) = fn.nBias + k := by
  apply idx_of_get net hwf
  rw [h.nBias, order_split, List.getElem?_append_left (by simp only [List.length_append]; omega),
    List.getElem?_append_right (by omega), Nat.add_sub_cancel_left]
  exact List.getElem?_eq_getElem hk

/-- **Both `LoadSensors` load the same values.**  Fresh standard network and fresh fast solver, the same input vector
    `xs` (one value per input-type node): the fast arrays have the right lengths and clean processing cells, bias
    nodes of the standard solver hold 1, and every input node's activation equals the fast signal at its index. -/
theorem load_agree (net : Net W) {lvl : Nat → Nat} (hwf : TWF net lvl) (hin : InputsCanon net = true) (fn : FastNet W)
    (h : OfNet net fn) (xs : List W) (hxs : xs.length = (idxOfKind net Kind.input).length)
    (hok : (Solver.loadSensors net xs (Solver.init net)).2 = none) :
    (loadSensors fn xs (init fn)).2 = none ∧
    (loadSensors fn xs (init fn)).1.signals.length = fn.nTotal ∧
    (loadSensors fn xs (init fn)).1.processing.length = fn.nTotal ∧
    (∀ i, getW (loadSensors fn xs (init fn)).1.processing i = Scalar.zero) ∧
    (∀ (i : Nat) (nd : NNodeS W), net.nodes[i]? = some nd → nd.isSensor = true → i ∈ net.inputs) ∧
    (∀ (j : Nat) (nd : NNodeS W), net.nodes[j]? = some nd → nd.kind = Kind.bias →
      (get (Solver.loadSensors net xs (Solver.init net)).1 j).activation = Scalar.one) ∧
    (∀ (j : Nat) (nd : NNodeS W), net.nodes[j]? = some nd → nd.kind = Kind.input →
      getW (loadSensors fn xs (init fn)).1.signals (idx net j) =
        (get (Solver.loadSensors net xs (Solver.init net)).1 j).activation) := by
  simp only [InputsCanon, Bool.and_eq_true, decide_eq_true_eq, List.all_eq_true, List.mem_range, Bool.or_eq_true,
    Bool.not_eq_true'] at hin
  obtain ⟨⟨⟨c1, c2⟩, c3⟩, c4⟩ := hin
  have hall : ∀ (i : Nat) (nd : NNodeS W), net.nodes[i]? = some nd → nd.isSensor = true → i ∈ net.inputs := by
    intro i nd hi hs
    rcases c3 i (valid_lt net i nd hi) with h' | h'
    · simp [isSensorAt, hi, hs] at h'
    · exact h'
  -- the standard side: both branches are `loadNe`
  have hstd : (Solver.loadSensors net xs (Solver.init net)) = loadNe net net.inputs xs (Solver.init net) := by
    unfold Solver.loadSensors
    split
    · next hl =>
      apply loadEq_eq_loadNe
      have hl' : (net.inputs.filter (isInputAt net)).length = net.inputs.length := by
        rw [c4, ← hxs]; simpa using hl
      have := List.length_filter_eq_length_iff.mp hl'
      intro i hi
      rw [this i hi, c2 i hi]
    · rfl
  rw [hstd] at hok ⊢
  have hlt : ∀ i ∈ net.inputs, i < (Solver.init net).length := by
    intro i hi
    have := c2 i hi
    simp only [isSensorAt] at this
    split at this
    · next nd hn => simpa [Solver.init] using valid_lt net i nd hn
    · simp at this
  obtain ⟨_, v2, v3⟩ := loadNe_vals net net.inputs xs (Solver.init net) c1 hlt hok
  -- the fast side
  have hfl : (loadSensors fn xs (init fn)) = ({ init fn with signals := loadLoop fn.nBias xs 0 (init fn).signals }, none) := by
    unfold loadSensors
    simp [h.nInput, hxs]
  rw [hfl]
  simp only
  have hlen0 : (init fn).signals.length = fn.nTotal := by simp [init]
  refine ⟨trivial, by rw [(loadLoop_props _ _ _ _).1, hlen0], by simp [init], fun i => by simp [init, getW_replicate_zero],
    hall, fun j nd hj hk => ?_, fun j nd hj hk => ?_⟩
  · have hs : nd.isSensor = true := by simp [NNodeS.isSensor, hk]
    exact v3 j (hall j nd hj hs) (by simp [isInputAt, kindAt, hj, hk, Kind.bias, Kind.input])
      (by simp [isSensorAt, hj, hs])
  · have hm : j ∈ idxOfKind net Kind.input := (mem_idxOfKind net _ j).mpr ⟨nd, hj, hk⟩
    obtain ⟨k, hkl, rfl⟩ := List.getElem_of_mem hm
    have hx : xs[k]? = some xs[k] := List.getElem?_eq_getElem (by omega)
    rw [idx_input net hwf fn h k hkl]
    have hget : (net.inputs.filter (isInputAt net))[k]? = some (idxOfKind net Kind.input)[k] := by
      rw [c4]; exact List.getElem?_eq_getElem hkl
    rw [v2 k _ _ hget hx]
    have := (loadLoop_get fn.nBias xs 0 (init fn).signals).2 k _ hx (by
      rw [hlen0, h.nTotal, ← hwf.len, order_split, h.nBias]
      simp only [List.length_append]
      omega)
    rw [Nat.add_zero] at this
    exact this

end GoNeat.Fast
