/-
  Helper lemmas for Props/C09Expected.lean: the phases of `prepareForReproduction` after the assignment of the
  expected offspring (quota assignment, fix-up, species sort, delta coding / stolen babies, write-back by id) leave
  the allocation id, the fitness, the original fitness and the expected offspring of every organism of every species
  untouched — a preservation chain for the key `xkey`, following the `*_keys` chain of Props/C02Epoch.lean.  Kind A.
-/
import GoNeat.Props.C09ParentsEpoch

namespace GoNeat.C09
open GoNeat Scalar
variable {W : Type} [Scalar W]

/-- what the later phases must not touch in an organism: allocation id, (adjusted) fitness, original fitness, expected offspring -/
def okey (x : Org W) : Nat × W × W × W := (x.uid, x.fitness, x.originalFitness, x.expectedOffspring)

/-- species id and the organism keys of the members, in order -/
def xkey (s : Species W) : Int × List (Nat × W × W × W) := (s.id, s.orgs.map okey)

theorem assignQuotas_xkeys (ss : List (Species W)) (skim : W) (tot : Int) :
    (assignQuotas ss skim tot).1.map xkey = ss.map xkey := by
  induction ss generalizing skim tot with
  | nil => rfl
  | cons s ss ih =>
    simp only [assignQuotas, List.map_cons]
    rw [ih]; rfl

omit [Scalar W] in
theorem map_xkeys_of_pres (ss : List (Species W)) (f : Species W → Species W) (hf : ∀ s, xkey (f s) = xkey s) :
    (ss.map f).map xkey = ss.map xkey := by
  simp [List.map_map, Function.comp_def, hf]

omit [Scalar W] in
theorem modify_xkeys_of_pres (ss : List (Species W)) (i : Nat) (f : Species W → Species W) (hf : ∀ s, xkey (f s) = xkey s) :
    (ss.modify i f).map xkey = ss.map xkey := by
  induction ss generalizing i with
  | nil => simp
  | cons s ss ih =>
    cases i with
    | zero => simp [List.modify, hf]
    | succ i => simp [List.modify_succ_cons, ih]

omit [Scalar W] in
theorem fixupQuotas_xkeys (ss : List (Species W)) (a b : Int) : (fixupQuotas ss a b).map xkey = ss.map xkey := by
  unfold fixupQuotas
  split
  · split
    · rfl
    · split
      · exact (modify_xkeys_of_pres _ _ _ (by intro s; rfl)).trans (map_xkeys_of_pres _ _ (by intro s; rfl))
      · exact modify_xkeys_of_pres _ _ _ (by intro s; rfl)
  · rfl
omit [Scalar W] in
theorem setTopOrg_xkey (s : Species W) (f : Org W → Org W) (hf : ∀ t, okey (f t) = okey t) :
    xkey (setTopOrg s f) = xkey s := by
  unfold setTopOrg; split
  · rfl
  · rename_i o os h; simp [xkey, h, hf o]

omit [Scalar W] in
theorem deltaCoding_xkeys (sorted l : List (Species W)) (o : EpochOpts W) (h : deltaCoding sorted o = .ok l) :
    l.map xkey = sorted.map xkey := by
  unfold deltaCoding at h
  simp only at h
  split at h
  · cases h
  · split at h
    · cases h
    · cases h
      simp only [List.map_cons, List.map_nil, List.cons.injEq, and_true]
      exact setTopOrg_xkey _ _ (by intro t; rfl)
  · split at h
    · cases h
    · cases h
      simp only [List.map_cons, List.map_map]
      congr 1
      · exact setTopOrg_xkey _ _ (by intro t; rfl)
      · congr 1
        · exact setTopOrg_xkey _ _ (by intro t; rfl)


omit [Scalar W] in
theorem stealLoop_xkeys (bs : Int) (l : List (Species W)) (stolen : Int) :
    (stealLoop bs l stolen).1.map xkey = l.map xkey := by
  induction l generalizing stolen with
  | nil => rfl
  | cons s ss ih =>
    unfold stealLoop
    split
    · split
      · split
        · simp only [List.map_cons, ih]; rfl
        · simp only [List.map_cons, ih]; rfl
      · simp only [List.map_cons, ih]
    · rfl

theorem giveLoop_xkeys (o : EpochOpts W) (blocks : List Int) (l l' : List (Species W)) (bi : Nat) (stolen left : Int)
    (rs rs' : List Nat) (h : giveLoop o blocks l bi stolen rs = .ok ((l', left), rs')) : l'.map xkey = l.map xkey := by
  induction l generalizing l' bi stolen left rs rs' with
  | nil => simp only [giveLoop, Except.ok.injEq, Prod.mk.injEq] at h; obtain ⟨⟨rfl, _⟩, _⟩ := h; rfl
  | cons s ss ih =>
    unfold giveLoop at h
    split at h
    · split at h
      · cases h
      · rename_i rest st rs1 hrec
        simp only [Except.ok.injEq, Prod.mk.injEq] at h
        obtain ⟨⟨rfl, _⟩, _⟩ := h
        simp [ih _ _ _ _ _ _ hrec]
    · simp only at h
      split at h
      · cases h
      · rename_i s' st rs1 hstep
        have hk : xkey s' = xkey s := by
          split at hstep
          · simp only [Except.ok.injEq, Prod.mk.injEq] at hstep
            obtain ⟨⟨rfl, _⟩, _⟩ := hstep
            exact setTopOrg_xkey _ _ (by intro t; rfl)
          · split at hstep
            · split at hstep
              · cases hstep
              · split at hstep
                · split at hstep
                  · simp only [Except.ok.injEq, Prod.mk.injEq] at hstep
                    obtain ⟨⟨rfl, _⟩, _⟩ := hstep
                    exact setTopOrg_xkey _ _ (by intro t; rfl)
                  · simp only [Except.ok.injEq, Prod.mk.injEq] at hstep
                    obtain ⟨⟨rfl, _⟩, _⟩ := hstep
                    exact setTopOrg_xkey _ _ (by intro t; rfl)
                · simp only [Except.ok.injEq, Prod.mk.injEq] at hstep
                  obtain ⟨⟨rfl, _⟩, _⟩ := hstep
                  rfl
            · simp only [Except.ok.injEq, Prod.mk.injEq] at hstep
              obtain ⟨⟨rfl, _⟩, _⟩ := hstep
              rfl
        split at h
        · simp only [Except.ok.injEq, Prod.mk.injEq] at h
          obtain ⟨⟨rfl, _⟩, _⟩ := h
          simp [hk]
        · split at h
          · cases h
          · rename_i rest st' rs2 hrec
            simp only [Except.ok.injEq, Prod.mk.injEq] at h
            obtain ⟨⟨rfl, _⟩, _⟩ := h
            simp [hk, ih _ _ _ _ _ _ hrec]

theorem giveBabies_xkeys (sorted l : List (Species W)) (o : EpochOpts W) (rs rs' : List Nat)
    (h : giveBabiesToTheBest sorted o rs = .ok (l, rs')) : l.map xkey = sorted.map xkey := by
  unfold giveBabiesToTheBest at h
  simp only at h
  split at h
  · cases h
  · rename_i l1 left rs1 hgive
    have h1 := giveLoop_xkeys _ _ _ _ _ _ _ _ _ hgive
    have h2 : ((stealLoop o.babiesStolen sorted.reverse 0).1.reverse).map xkey = sorted.map xkey := by
      rw [List.map_reverse, stealLoop_xkeys, List.map_reverse, List.reverse_reverse]
    split at h
    · split at h
      · cases h
      · split at h
        · cases h
        · simp only [Except.ok.injEq, Prod.mk.injEq] at h
          obtain ⟨rfl, _⟩ := h
          rw [← h2, ← h1]
          simp only [List.map_cons, List.cons.injEq, and_true]
          exact setTopOrg_xkey _ _ (by intro t; rfl)
    · simp only [Except.ok.injEq, Prod.mk.injEq] at h
      obtain ⟨rfl, _⟩ := h
      rw [h1, h2]

omit [Scalar W] in
theorem writeBack_xkeys (species updated : List (Species W)) (hnd : (species.map (·.id)).Nodup)
    (hperm : (updated.map xkey).Perm (species.map xkey)) : (writeBack species updated).map xkey = species.map xkey := by
  unfold writeBack
  rw [List.map_map]
  apply List.map_congr_left
  intro s hs
  simp only [Function.comp]
  cases hf : updated.find? (fun x => x.id == s.id) with
  | none => rfl
  | some x =>
    simp only [Option.getD_some]
    have hx : x ∈ updated := List.mem_of_find?_eq_some hf
    have hid : x.id = s.id := by
      have := List.find?_some hf
      simpa using this
    have : xkey x ∈ species.map xkey := hperm.mem_iff.mp (List.mem_map_of_mem hx)
    obtain ⟨s', hs', e⟩ := List.mem_map.mp this
    have hid' : s'.id = s.id := by
      have := congrArg (fun k => k.1) e
      simp only [xkey] at this
      rw [this, hid]
    have : s' = s := C02.nodup_map_inj (·.id) hnd hs' hs hid'
    rw [← e, this]

theorem redistribute_xkeys (sorted1 : List (Species W)) (o : EpochOpts W) (e : Int) (rs : List Nat)
    (sorted2 : List (Species W)) (ehlc : Int) (rs1 : List Nat)
    (h : (if e ≥ o.dropOffAge + 5 then
            match deltaCoding sorted1 o with
            | .error er => .error er
            | .ok l => .ok ((l, 0), rs)
          else if o.babiesStolen > 0 then
            match giveBabiesToTheBest sorted1 o rs with
            | .error er => .error er
            | .ok (l, rs') => .ok ((l, e), rs')
          else .ok ((sorted1, e), rs) : R (List (Species W) × Int)) = .ok ((sorted2, ehlc), rs1)) :
    sorted2.map xkey = sorted1.map xkey := by
  split at h
  · split at h
    · cases h
    · rename_i l hd
      simp only [Except.ok.injEq, Prod.mk.injEq] at h
      obtain ⟨⟨rfl, _⟩, _⟩ := h
      exact deltaCoding_xkeys _ _ _ hd
  · split at h
    · split at h
      · cases h
      · rename_i l rs2 hg
        simp only [Except.ok.injEq, Prod.mk.injEq] at h
        obtain ⟨⟨rfl, _⟩, _⟩ := h
        exact giveBabies_xkeys _ _ _ _ _ hg
    · simp only [Except.ok.injEq, Prod.mk.injEq] at h
      obtain ⟨⟨rfl, _⟩, _⟩ := h
      rfl

/-! ### where the expected offspring are set, and what the fitness adjustment does to each organism -/

/-- `overallAverage` of `purgeZeroOffspringSpecies`: the sum of the fitness values of the organisms in
    `Population.Organisms` order (left fold from zero), divided by the number of organisms -/
def popMean (q : Pop W) : W :=
  div (q.orgList.foldl (fun acc x => add acc x.fitness) zero) (ofInt ((q.organisms.length : Nat) : Int))

/-- the assignment of the expected offspring in `purgeZeroOffspringSpecies`: fitness / mean, skipped for a zero mean -/
def setExp (m : W) (x : Org W) : Org W := if eq m zero then x else { x with expectedOffspring := div x.fitness m }

theorem purgeZero_xkeys (q : Pop W) :
    ((purgeZeroOffspringSpecies q).species.map xkey).Sublist
      ((q.species.map (fun s => { s with orgs := s.orgs.map (setExp (popMean q)) })).map xkey) := by
  unfold purgeZeroOffspringSpecies
  simp only
  refine (List.Sublist.map _ List.filter_sublist).trans ?_
  rw [fixupQuotas_xkeys, assignQuotas_xkeys]
  exact List.Sublist.refl _

omit [Scalar W] in
theorem markOrgs_okey (k : Int) (l : List (Org W)) (i : Nat) : (markOrgs k l i).map okey = l.map okey := by
  induction l generalizing i with
  | nil => rfl
  | cons x xs ih => simp only [markOrgs, List.map_cons, ih]; rfl

/-- every member of the adjusted species stems from a member of the old one: same allocation id and expected offspring,
    raw fitness recorded as original fitness, fitness replaced by the documented adjusted value -/
theorem adjustFitness_orgs (o : EpochOpts W) (s s' : Species W) (h : adjustFitness o s = .ok s') :
    s'.id = s.id ∧ ∀ x ∈ s'.orgs, ∃ x0 ∈ s.orgs, x.uid = x0.uid ∧ x.originalFitness = x0.fitness ∧
      x.fitness = adjustedFitness o s x0.fitness ∧ x.expectedOffspring = x0.expectedOffspring := by
  unfold adjustFitness at h
  simp only at h
  split at h
  · cases h
  · rename_i top rest hsort
    cases h
    refine ⟨rfl, ?_⟩
    intro x hx
    have h1 := List.mem_map_of_mem (f := okey) hx
    simp only [markOrgs_okey] at h1
    obtain ⟨y, hy, hyx⟩ := List.mem_map.mp h1
    have hy' := (goSort_perm _ _).mem_iff.mp hy
    obtain ⟨x0, hx0, rfl⟩ := List.mem_map.mp hy'
    simp only [okey, adjustOrg, Prod.mk.injEq] at hyx
    obtain ⟨e1, e2, e3, e4⟩ := hyx
    exact ⟨x0, hx0, e1.symm, e3.symm, by rw [← e2]; rfl, e4.symm⟩

omit [Scalar W] in
theorem ids_of_xkeys (a : List (Species W)) : a.map (·.id) = (a.map xkey).map (·.1) := by
  simp [xkey, Function.comp_def]

/-- **the preparation phase at organism level.** After `prepareForReproduction` the species are a sub-list `mid` of the
    adjusted species with the expected offspring set (same ids; same members with the same allocation id, fitness,
    original fitness and expected offspring, in the same order), from which some organisms have been removed. -/
theorem prepare_xkeys (o : EpochOpts W) (p p1 : Pop W) (ex : ExecState) (rs rs' : List Nat)
    (hnd : (p.species.map (·.id)).Nodup) (h : prepareForReproduction o p rs = .ok ((p1, ex), rs')) :
    ∃ (species1 mid : List (Species W)) (doomed : List Nat), adjustAll o p.species = .ok species1 ∧
      (mid.map xkey).Sublist
        ((species1.map (fun s => { s with orgs := s.orgs.map (setExp (popMean ({ p with species := species1 } : Pop W))) })).map xkey) ∧
      p1.species = mid.map (fun s => { s with orgs := s.orgs.filter (fun x => !doomed.contains x.uid) }) := by
  unfold prepareForReproduction at h
  split at h
  · cases h
  · rename_i species1 hadj
    have hk1 := C02.adjustAll_keys o _ _ hadj
    simp only at h
    have hz1 := purgeZero_xkeys ({ p with species := species1 } : Pop W)
    simp only at hz1
    generalize hpz : purgeZeroOffspringSpecies ({ p with species := species1 } : Pop W) = pz at h hz1
    split at h
    · cases h
    · rename_i best tail hsorted
      split at h
      · cases h
      · rename_i top htop
        split at h
        · cases h
        · rename_i sorted2 ehlc rs1 hred
          simp only [Except.ok.injEq, Prod.mk.injEq] at h
          obtain ⟨⟨rfl, _⟩, _⟩ := h
          have hsorted1 : ((setTopOrg best (fun t => { t with isPopChampion := true }) :: (sortSpeciesDesc pz.species).tail).map xkey).Perm
              (pz.species.map xkey) := by
            rw [hsorted]
            simp only [List.tail_cons, List.map_cons]
            rw [setTopOrg_xkey _ _ (by intro t; rfl)]
            have := (goSort_perm (fun a b => speciesLess b a) pz.species).map xkey
            unfold sortSpeciesDesc at hsorted
            rw [hsorted] at this
            simpa using this
          have hk2 : sorted2.map xkey =
              (setTopOrg best (fun t => { t with isPopChampion := true }) :: (sortSpeciesDesc pz.species).tail).map xkey :=
            redistribute_xkeys _ _ _ _ _ _ _ hred
          have hndz : (pz.species.map (·.id)).Nodup := by
            have hsub : (pz.species.map (·.id)).Sublist (p.species.map (·.id)) := by
              rw [ids_of_xkeys pz.species, C02.ids_of_keys p.species, ← hk1, ← C02.ids_of_keys]
              refine (hz1.map _).trans ?_
              rw [← ids_of_xkeys, List.map_map]
              exact List.Sublist.refl _
            exact hsub.nodup hnd
          have hwb := writeBack_xkeys pz.species sorted2 hndz (hk2 ▸ hsorted1)
          refine ⟨species1, writeBack pz.species sorted2, _, hadj, ?_, rfl⟩
          rw [hwb]; exact hz1

theorem setExp_okey (m : W) (x : Org W) :
    (setExp m x).uid = x.uid ∧ (setExp m x).fitness = x.fitness ∧ (setExp m x).originalFitness = x.originalFitness := by
  unfold setExp; split <;> exact ⟨rfl, rfl, rfl⟩

/-- organism-level reading of `prepare_xkeys`: every organism left after the preparation phase carries allocation id,
    fitness, original fitness and expected offspring of a member of the adjusted species with the same id, as they
    were right after the expected offspring had been set -/
theorem prepare_orgs (o : EpochOpts W) (p p1 : Pop W) (ex : ExecState) (rs rs' : List Nat)
    (hnd : (p.species.map (·.id)).Nodup) (h : prepareForReproduction o p rs = .ok ((p1, ex), rs')) :
    ∃ species1 : List (Species W), adjustAll o p.species = .ok species1 ∧
      ∀ s1 ∈ p1.species, ∃ sa ∈ species1, s1.id = sa.id ∧ ∀ x ∈ s1.orgs, ∃ xa ∈ sa.orgs,
        okey x = okey (setExp (popMean ({ p with species := species1 } : Pop W)) xa) := by
  obtain ⟨species1, mid, doomed, hadj, hsub, hsp⟩ := prepare_xkeys o p p1 ex rs rs' hnd h
  refine ⟨species1, hadj, ?_⟩
  generalize popMean ({ p with species := species1 } : Pop W) = m at hsub ⊢
  intro s1 hs1
  rw [hsp] at hs1
  obtain ⟨s, hs, rfl⟩ := List.mem_map.mp hs1
  have hk := hsub.subset (List.mem_map_of_mem (f := xkey) hs)
  simp only [List.map_map, List.mem_map, Function.comp] at hk
  obtain ⟨sa, hsa, hka⟩ := hk
  simp only [xkey, Prod.mk.injEq] at hka
  obtain ⟨hka1, hka2⟩ := hka
  refine ⟨sa, hsa, hka1.symm, ?_⟩
  intro x hx
  have hx' : x ∈ s.orgs := (List.mem_filter.mp hx).1
  have hxk : okey x ∈ s.orgs.map okey := List.mem_map_of_mem hx'
  rw [← hka2, List.map_map] at hxk
  obtain ⟨xa, hxa, hxe⟩ := List.mem_map.mp hxk
  exact ⟨xa, hxa, hxe.symm⟩

/-- the organisms the mean is taken over: members of the adjusted species … -/
theorem orgList_mem (q : Pop W) (y : Org W) (hy : y ∈ q.orgList) : ∃ s ∈ q.species, y ∈ s.orgs := by
  unfold Pop.orgList at hy
  obtain ⟨u, _, hf⟩ := List.mem_filterMap.mp hy
  obtain ⟨s, hs, hys, _⟩ := findOrg_some_mem q u y hf
  exact ⟨s, hs, hys⟩

/-- … and, when every member is listed in `Population.Organisms` and allocation ids are pairwise distinct, all of them -/
theorem mem_orgList (q : Pop W) (hl : ∀ u ∈ C02.orgUids q.species, u ∈ q.organisms) (hnd : (C02.orgUids q.species).Nodup)
    (s : Species W) (hs : s ∈ q.species) (x : Org W) (hx : x ∈ s.orgs) : x ∈ q.orgList := by
  unfold Pop.orgList
  refine List.mem_filterMap.mpr ⟨x.uid, ?_, findOrg_of_mem q hnd s hs x hx⟩
  apply hl
  simp only [C02.orgUids, List.mem_flatMap, List.mem_map]
  exact ⟨s, hs, x, hx, rfl⟩

/-! ### the values the mean is taken over -/

omit [Scalar W] in
theorem fitness_of_okey (l : List (Org W)) : l.map (·.fitness) = (l.map okey).map (·.2.1) := by
  simp [okey, Function.comp_def]

/-- the fitness values of the adjusted species are the documented adjusted values of its members (reordered) -/
theorem adjustFitness_fitness_perm (o : EpochOpts W) (s s' : Species W) (h : adjustFitness o s = .ok s') :
    (s'.orgs.map (·.fitness)).Perm (s.orgs.map (fun x => adjustedFitness o s x.fitness)) := by
  unfold adjustFitness at h
  simp only at h
  split at h
  · cases h
  · rename_i top rest hsort
    cases h
    simp only
    rw [fitness_of_okey, markOrgs_okey, ← fitness_of_okey]
    unfold sortOrgsDesc
    refine ((goSort_perm _ _).map _).trans ?_
    rw [List.map_map]
    exact List.Perm.of_eq (List.map_congr_left (by intro x _; rfl))

theorem adjustAll_fitness_perm (o : EpochOpts W) (ss ss' : List (Species W)) (h : adjustAll o ss = .ok ss') :
    ((ss'.flatMap (·.orgs)).map (·.fitness)).Perm
      (ss.flatMap (fun s => s.orgs.map (fun x => adjustedFitness o s x.fitness))) := by
  induction ss generalizing ss' with
  | nil => simp only [adjustAll] at h; cases h; exact List.Perm.refl _
  | cons s ss ih =>
    simp only [adjustAll] at h
    split at h
    · cases h
    · rename_i s1 h1
      split at h
      · cases h
      · rename_i ss1 h2
        cases h
        simp only [List.flatMap_cons, List.map_append]
        exact (adjustFitness_fitness_perm o s s1 h1).append (ih ss1 h2)

theorem filterMap_eq_self {α} (l : List α) (f : α → Option α) (h : ∀ x ∈ l, f x = some x) : l.filterMap f = l := by
  induction l with
  | nil => rfl
  | cons a as ih =>
    rw [List.filterMap_cons_some (h a (by simp)), ih (fun x hx => h x (by simp [hx]))]

/-- if `Population.Organisms` lists exactly the members of the species (each once), the organisms in that order are a
    rearrangement of the species' member lists -/
theorem orgList_perm (q : Pop W) (hperm : q.organisms.Perm (C02.orgUids q.species)) (hnd : (C02.orgUids q.species).Nodup) :
    q.orgList.Perm (q.species.flatMap (·.orgs)) := by
  unfold Pop.orgList
  refine (hperm.filterMap _).trans (List.Perm.of_eq ?_)
  have huids : C02.orgUids q.species = (q.species.flatMap (·.orgs)).map (·.uid) := by
    simp [C02.orgUids, List.map_flatMap]
  rw [huids, List.filterMap_map]
  have hall : ∀ x ∈ q.species.flatMap (·.orgs), (q.findOrg ∘ (·.uid)) x = some x := by
    intro x hx
    obtain ⟨s, hs, hxs⟩ := List.mem_flatMap.mp hx
    exact findOrg_of_mem q hnd s hs x hxs
  exact filterMap_eq_self _ _ hall

end GoNeat.C09
