/-
  C01 helper lemmas at population level: which genomes a population holds after speciation / spawning.
-/
import GoNeat.Proofs.WFParam
import GoNeat.Proofs.WFStruct
import GoNeat.Model.Epoch
import GoNeat.Props.C06

namespace GoNeat.C01
open GoNeat Scalar
variable {W : Type} [Scalar W]

/-- all organisms held by the species of a population -/
def allOrgs (p : Pop W) : List (Org W) := p.species.flatMap (·.orgs)

omit [Scalar W] in
theorem mem_allOrgs {p : Pop W} {x : Org W} : x ∈ allOrgs p ↔ ∃ s ∈ p.species, x ∈ s.orgs := by
  unfold allOrgs; simp [List.mem_flatMap]

/-- speciation only distributes the arriving organisms: no genome is created or changed -/
theorem speciateOne_orgs (o : EpochOpts W) (p p' : Pop W) (org : Org W) (h : speciateOne o p org = .ok p') :
    (∀ x ∈ allOrgs p', x ∈ allOrgs p ∨ x = org) ∧ p'.reg = p.reg := by
  unfold speciateOne at h
  simp only at h
  have hnew : ∀ s : Species W, s.orgs = [org] → ∀ x ∈ allOrgs ({ p with lastSpecies := p.lastSpecies + 1, species := p.species ++ [s] } : Pop W),
      x ∈ allOrgs p ∨ x = org := by
    intro s hs x hx
    obtain ⟨s', hs', hx'⟩ := mem_allOrgs.mp hx
    rcases List.mem_append.mp hs' with h1 | h1
    · exact Or.inl (mem_allOrgs.mpr ⟨s', h1, hx'⟩)
    · simp only [List.mem_singleton] at h1
      subst h1
      rw [hs] at hx'
      exact Or.inr (by simpa using hx')
  split at h
  · cases h; exact ⟨hnew _ rfl, rfl⟩
  · split at h
    · cases h
    · split at h
      · rename_i i hb
        cases h
        refine ⟨?_, rfl⟩
        intro x hx
        obtain ⟨s', hs', hx'⟩ := mem_allOrgs.mp hx
        rcases mem_modify _ _ _ _ hs' with h1 | ⟨s0, h0, rfl⟩
        · exact Or.inl (mem_allOrgs.mpr ⟨s', h1, hx'⟩)
        · rcases List.mem_append.mp hx' with h2 | h2
          · exact Or.inl (mem_allOrgs.mpr ⟨s0, h0, h2⟩)
          · exact Or.inr (by simpa using h2)
      · cases h; exact ⟨hnew _ rfl, rfl⟩

theorem speciateLoop_orgs (o : EpochOpts W) (p p' : Pop W) (orgs : List (Org W)) (h : speciateLoop o p orgs = .ok p') :
    (∀ x ∈ allOrgs p', x ∈ allOrgs p ∨ x ∈ orgs) ∧ p'.reg = p.reg := by
  induction orgs generalizing p with
  | nil => simp [speciateLoop] at h; subst h; exact ⟨fun x hx => Or.inl hx, rfl⟩
  | cons a rest ih =>
    unfold speciateLoop at h
    split at h
    · cases h
    · rename_i p1 h1
      obtain ⟨a1, a2⟩ := speciateOne_orgs o p p1 a h1
      obtain ⟨b1, b2⟩ := ih _ h
      refine ⟨fun x hx => ?_, by rw [b2, a2]⟩
      rcases b1 x hx with h' | h'
      · rcases a1 x h' with h'' | h''
        · exact Or.inl h''
        · exact Or.inr (by simp [h''])
      · exact Or.inr (List.mem_cons_of_mem _ h')

theorem speciate_orgs (o : EpochOpts W) (p p' : Pop W) (orgs : List (Org W)) (h : speciate o p orgs = .ok p') :
    (∀ x ∈ allOrgs p', x ∈ allOrgs p ∨ x ∈ orgs) ∧ p'.reg = p.reg := by
  unfold speciate at h
  split at h
  · cases h
  · exact speciateLoop_orgs o p p' orgs h

/-! ### spawning -/

theorem spawnLoop_members (g : Genome W) (hw : WFT g) (hm : g.modules = []) (n : Nat) (count : Int) (uid : Nat)
    (rs rs' : List Nat) (orgs : List (Org W)) (h : spawnLoop g n count uid rs = .ok (orgs, rs')) :
    ∀ x ∈ orgs, WFT x.genome ∧ SameSkel g x.genome := by
  induction n generalizing count uid rs rs' orgs with
  | zero => unfold spawnLoop at h; cases h; simp
  | succ k ih =>
    unfold spawnLoop at h
    split at h
    · cases h
    · rename_i d hd
      split at h
      · cases h
      · rename_i d' rs1 hmut
        split at h
        · cases h
        · rename_i rest rs2 hrest
          simp only [Except.ok.injEq, Prod.mk.injEq] at h
          obtain ⟨rfl, _⟩ := h
          have hrefs : C06.RefsOk g := by
            refine ⟨hw.wf.traitRefs, hw.wf.endpoints, ?_, ?_⟩ <;> simp [hm]
          have hd' := C06.duplicate_exact g count hrefs
          rw [hd] at hd'
          cases hd'
          have hwd : WFT ({ g with id := count } : Genome W) := (SameSkel.wft (g := g) ⟨rfl, rfl, rfl, rfl⟩ hw.wf.traitRefs hw)
          obtain ⟨s1, r1⟩ := mutateLinkWeights_skel _ d' _ _ _ _ _ hmut hwd.wf.traitRefs
          intro x hx
          rcases List.mem_cons.mp hx with rfl | hx'
          · have s0 : SameSkel g ({ g with id := count } : Genome W) := ⟨rfl, rfl, rfl, rfl⟩
            exact ⟨s1.wft r1 hwd, s0.trans s1⟩
          · exact ih _ _ _ _ _ hrest x hx'

end GoNeat.C01
