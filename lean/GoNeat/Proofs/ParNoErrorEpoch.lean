/-
  C16 / C02 "without error" for the PARALLEL executor, part 3: every scheduler, the channel, the join, the whole epoch.

    `runSched_safe`            the rely/guarantee pair of Proofs/ParNoError.lean survives every pick of every scheduler:
                               the registry's link records always name valid trait indices, every thread stays `PSafe`
    `collect_safe`             what the main goroutine reads from the channel: never a model error of a goroutine; the only
                               `.error (.error msg)` of `collect` is "par:goroutineNotFinished", and only if a goroutine whose
                               result is awaited has not returned
    `parReproducePhase_safe`   the parallel reproduction phase: babies of all goroutines add up to `PopSize` (the size check
                               cannot fire), `speciate` succeeds
    `parEpoch_core`            the whole epoch under `Hyp S o p`
    `exists_execution`         every start state has a scheduler list after which all goroutines have returned (a `Prog` is a
                               well-founded tree: a goroutine returns after finitely many of its own steps, whatever the
                               others do) - the hypothesis `PhaseExec` is satisfiable for every input
  Kind A.
-/
import GoNeat.Proofs.ParNoErrorSpecies
import GoNeat.Proofs.ParFrameEpoch
import GoNeat.Proofs.NoErrorEpoch

set_option linter.unusedSectionVars false

namespace GoNeat.C16
open GoNeat Scalar GoNeat.NoErr GoNeat.C01 GoNeat.C02 GoNeat.C09
variable {W : Type} [Scalar W] {α : Type}

/-! ### every scheduler -/

/-- the registry satisfies the rely, every thread its obligation -/
def SchedOk (T : Nat) (Post : Nat → α → Prop) (st : PState W α) : Prop :=
  TraitRecs T st.reg.records ∧ ∀ t p, st.threads[t]? = some p → PSafe T (Post t) p

theorem pstep_safe {T : Nat} {Post : Nat → α → Prop} {st : PState W α} (h : SchedOk T Post st) (i : Nat) :
    SchedOk T Post (pstep st i) := by
  unfold pstep
  split
  · exact h
  · next p hp =>
    have hsafe := h.2 i p hp
    have hthreads : ∀ (q : Prog W α), PSafe T (Post i) q →
        ∀ t p', (st.threads.set i q)[t]? = some p' → PSafe T (Post t) p' := by
      intro q hq t p' ht
      rw [List.getElem?_set] at ht
      split at ht
      · next hit =>
        subst hit
        split at ht
        · cases ht; exact hq
        · cases ht
      · exact h.2 t p' ht
    cases hsafe with
    | done hpost => exact ⟨h.1, hthreads _ (.done hpost)⟩
    | snap hk => exact ⟨h.1, hthreads _ (hk _ h.1)⟩
    | nextNode hk => exact ⟨h.1, hthreads _ (hk _)⟩
    | nextInn hk => exact ⟨h.1, hthreads _ (hk _)⟩
    | store hi hk =>
      refine ⟨?_, hthreads _ hk⟩
      intro j hj
      simp only [Prog.step, Reg.store, List.mem_append, List.mem_singleton] at hj
      rcases hj with hj | rfl
      · exact h.1 j hj
      · exact hi

/-- **the rely/guarantee pair survives every scheduler list** -/
theorem runSched_safe {T : Nat} {Post : Nat → α → Prop} (sched : List Nat) :
    ∀ {st : PState W α}, SchedOk T Post st → SchedOk T Post (runSched st sched) := by
  induction sched with
  | nil => intro st h; exact h
  | cons i is ih => intro st h; exact ih (pstep_safe h i)

/-! ### the goroutines of an epoch -/

/-- the quota of goroutine `t` -/
def quotaOf (p1 : Pop W) (t : Nat) : Nat := (p1.species.map (fun s => s.expectedOffspring.toNat)).getD t 0

theorem valid_getD (streams : List (List Nat)) (h : ∀ s ∈ streams, Valid s) (i : Nat) : Valid (streams.getD i []) := by
  unfold List.getD
  cases hs : streams[i]? with
  | none => intro x hx; cases hx
  | some s => exact h s (List.mem_of_getElem? hs)

theorem speciesThreads_safe (hlaw : UnitMulLe W) (hpick : PickLaw W) (o : EpochOpts W) (ha : ActOk o.mopts) (generation : Int)
    (p1 : Pop W) (ex : ExecState) (streams : List (List Nat)) (hstreams : ∀ s ∈ streams, Valid s) (S : List Nat)
    (hne1 : ∀ s ∈ p1.species, s.orgs ≠ [])
    (hsne : (ex.sortedIds.filterMap (fun i => p1.species.find? (·.id == i))) ≠ [])
    (henv : PoolEnv S p1.reg (genomesOfPop p1)) :
    SchedOk S.length (fun t => OkV (Delivers S (quotaOf p1 t)))
      ({ reg := p1.reg, threads := speciesThreads o generation p1 ex streams } : PState W (BRes W)) := by
  refine ⟨henv.recs, ?_⟩
  intro t q hq
  simp only [speciesThreads, List.getElem?_map, List.getElem?_zipIdx] at hq
  cases hs : p1.species[t]? with
  | none => rw [hs] at hq; cases hq
  | some s =>
    rw [hs] at hq
    simp only [Option.map_some, Option.some.injEq] at hq
    subst hq
    have hsm : s ∈ p1.species := List.mem_of_getElem? hs
    have hsin : ∀ sp ∈ ex.sortedIds.filterMap (fun i => p1.species.find? (·.id == i)), sp ∈ p1.species := by
      intro sp hsp
      obtain ⟨i, _, hi⟩ := List.mem_filterMap.mp hsp
      exact List.mem_of_find?_eq_some hi
    have hq : quotaOf p1 t = s.expectedOffspring.toNat := by simp [quotaOf, List.getD, hs]
    show PSafe S.length (OkV (Delivers S (quotaOf p1 t))) _
    rw [hq]
    exact reproduceSpeciesP_safe hlaw hpick o ha generation s _ p1.reg p1.nextUid _ (valid_getD streams hstreams _) p1.reg
      (genomesOfPop p1) S (fun x hx => mem_genomesOfPop.mpr ⟨s, hsm, x, hx, rfl⟩)
      (fun sp hsp x hx => mem_genomesOfPop.mpr ⟨sp, hsin sp hsp, x, hx, rfl⟩)
      (hne1 s hsm) hsne (fun sp hsp => hne1 sp (hsin sp hsp)) henv.pool henv.shaped

/-! ### the channel -/

/-- what `collect` can return when every goroutine is `PSafe` -/
def CollectPost (S : List Nat) (quota : Nat → Nat) (threads : List (Prog W (BRes W))) (arrival : List Nat) :
    Except Stop (List (Org W)) → Prop
  | .ok babies => babies.length = (arrival.map quota).sum ∧ ∀ b ∈ babies, shape b.genome = S
  | .error .outOfRandom => True
  | .error (.error msg) => msg = "par:goroutineNotFinished" ∧ ∃ t ∈ arrival, ∀ a, threads[t]? ≠ some (.done a)

theorem collect_safe {T : Nat} (S : List Nat) (quota : Nat → Nat) (threads : List (Prog W (BRes W)))
    (hs : ∀ t p, threads[t]? = some p → PSafe T (OkV (Delivers S (quota t))) p) (arrival : List Nat) :
    CollectPost S quota threads arrival (collect threads arrival) := by
  induction arrival with
  | nil => exact ⟨rfl, by intro b hb; cases hb⟩
  | cons t ts ih =>
    unfold collect
    split
    · next bs uid rs' ht =>
      have hd : OkV (Delivers S (quota t)) (.ok ((bs, uid), rs')) := (hs t _ ht).result
      obtain ⟨⟨hlen, hshape⟩, _⟩ := hd
      cases hc : collect threads ts with
      | error e =>
        rw [hc] at ih
        cases e with
        | outOfRandom => trivial
        | error m =>
          obtain ⟨h1, t', h2, h3⟩ := ih
          exact ⟨h1, t', List.mem_cons_of_mem _ h2, h3⟩
      | ok rest =>
        rw [hc] at ih
        obtain ⟨h1, h2⟩ := ih
        refine ⟨?_, ?_⟩
        · simp only [List.length_append, List.map_cons, List.sum_cons]
          rw [h1]; exact congrArg (· + _) hlen
        · intro b hb
          rcases List.mem_append.mp hb with hb | hb
          · exact hshape b hb
          · exact h2 b hb
    · next e ht =>
      have hd : OkV (Delivers S (quota t)) (.error e) := (hs t _ ht).result
      cases e with
      | outOfRandom => trivial
      | error m => exact hd.elim
    · next h1 h2 =>
      refine ⟨rfl, t, List.mem_cons_self, ?_⟩
      intro a ha
      cases a with
      | error e => exact h2 e ha
      | ok v => obtain ⟨⟨bs, uid⟩, rs'⟩ := v; exact h1 bs uid rs' ha

theorem range_map_getD (qs : List Nat) : (List.range qs.length).map (fun t => qs.getD t 0) = qs := by
  apply List.ext_getElem
  · simp
  · intro i h1 h2
    simp only [List.length_map, List.length_range] at h1
    simp [List.getD, h1]

theorem quota_sum (qs : List Nat) (arrival : List Nat) (h : arrival.Perm (List.range qs.length)) :
    (arrival.map (fun t => qs.getD t 0)).sum = qs.sum := by
  rw [(h.map _).sum_nat, range_map_getD]

theorem decodeAll_mem (uid : Nat) (babies : List (Org W)) :
    ∀ x ∈ decodeAll uid babies, ∃ u, ∃ b ∈ babies, x = decodeBaby u b := by
  induction babies generalizing uid with
  | nil => intro x hx; cases hx
  | cons b bs ih =>
    intro x hx
    simp only [decodeAll, List.mem_cons] at hx
    rcases hx with rfl | hx
    · exact ⟨uid, b, List.mem_cons_self, rfl⟩
    · obtain ⟨u, b', hb', e⟩ := ih (uid + 1) x hx
      exact ⟨u, b', List.mem_cons_of_mem _ hb', e⟩

theorem done_of_result {p : Prog W α} (h : p.result?.isSome = true) : ∃ a, p = .done a := by
  cases p <;> simp [Prog.result?] at h
  exact ⟨_, rfl⟩

/-! ### the parallel reproduction phase -/

/-- **the schedule describes an execution of the Go program**: when the main goroutine reads the channel, every species
    goroutine has returned (`wg.Wait()` in the closer goroutine, `close(resChan)`, `range resChan` ends only then), and
    every result is delivered exactly once (`arrival` is a permutation of the goroutine indices).  Decidable. -/
def PhaseExec (o : EpochOpts W) (generation : Int) (p1 : Pop W) (ex : ExecState) (ps : ParSchedule) : Prop :=
  (∀ q ∈ (runSched ({ reg := p1.reg, threads := speciesThreads o generation p1 ex ps.streams } : PState W (BRes W)) ps.sched).threads,
      q.result?.isSome = true) ∧
  ps.arrival.Perm (List.range (speciesThreads o generation p1 ex ps.streams).length)

instance (o : EpochOpts W) (generation : Int) (p1 : Pop W) (ex : ExecState) (ps : ParSchedule) :
    Decidable (PhaseExec o generation p1 ex ps) := by unfold PhaseExec; infer_instance

/-- a result of the parallel model: a value with `Q`; the finite streams ran out; or the schedule is not an execution
    (one of the two messages that stand for "not an execution") - never anything else -/
def ExecPost {β : Type} (Q : β → Prop) (exec : Prop) : Except Stop β → Prop
  | .ok b => Q b
  | .error .outOfRandom => True
  | .error (.error msg) => ¬ exec ∧ (msg = "par:goroutineNotFinished" ∨ msg = "par:arrivalNotAPermutation")

theorem ExecPost.ne {β : Type} {Q : β → Prop} {exec : Prop} {r : Except Stop β} (h : ExecPost Q exec r) (hex : exec) (msg : String) :
    r ≠ .error (.error msg) := by
  intro e; rw [e] at h; exact h.1 hex

theorem speciesThreads_length (o : EpochOpts W) (generation : Int) (p1 : Pop W) (ex : ExecState) (streams : List (List Nat)) :
    (speciesThreads o generation p1 ex streams).length = p1.species.length := by
  simp [speciesThreads]

/-- **the parallel reproduction phase never fails** (goroutines under any schedule, channel, size check, speciation) -/
theorem parReproducePhase_safe (hlaw : UnitMulLe W) (hpick : PickLaw W) (o : EpochOpts W) (ha : ActOk o.mopts)
    (hct : eq o.compatThreshold zero = false) (hpop : 1 ≤ o.popSize) (generation : Int) (p1 : Pop W) (ex : ExecState)
    (ps : ParSchedule) (hstreams : ∀ s ∈ ps.streams, Valid s) (S : List Nat)
    (hne1 : ∀ s ∈ p1.species, s.orgs ≠ [])
    (hsne : (ex.sortedIds.filterMap (fun i => p1.species.find? (·.id == i))) ≠ [])
    (henv : PoolEnv S p1.reg (genomesOfPop p1))
    (hq : quotaSum p1.species = o.popSize) (hnn : ∀ s ∈ p1.species, 0 ≤ s.expectedOffspring) :
    ExecPost (fun p2 => (∀ x ∈ allOrgs p2, x ∈ allOrgs p1 ∨ Newborn S x) ∧ p2.organisms = p1.organisms)
      (PhaseExec o generation p1 ex ps) (parReproducePhase o generation p1 ex ps) := by
  have hstart := speciesThreads_safe hlaw hpick o ha generation p1 ex ps.streams hstreams S hne1 hsne henv
  have hend := runSched_safe ps.sched hstart
  have hlenT := runSched_length ps.sched
    ({ reg := p1.reg, threads := speciesThreads o generation p1 ex ps.streams } : PState W (BRes W))
  have hcol := collect_safe S (quotaOf p1) _ hend.2 ps.arrival
  unfold parReproducePhase
  simp only
  split
  · next hperm => exact ⟨fun hex => hperm hex.2, Or.inr rfl⟩
  · next hperm =>
    have hperm' : ps.arrival.Perm (List.range (speciesThreads o generation p1 ex ps.streams).length) := by
      simpa using hperm
    split
    · next e he =>
      rw [he] at hcol
      cases e with
      | outOfRandom => trivial
      | error m =>
        obtain ⟨hm, t, ht, hnot⟩ := hcol
        refine ⟨fun hex => ?_, Or.inl hm⟩
        have htl : t < (speciesThreads o generation p1 ex ps.streams).length :=
          List.mem_range.mp (hperm'.mem_iff.mp ht)
        rw [← hlenT] at htl
        obtain ⟨a, hda⟩ := done_of_result (hex.1 _ (List.getElem_mem htl))
        exact hnot a (by rw [List.getElem?_eq_getElem htl, hda])
    · next babies he =>
      rw [he] at hcol
      obtain ⟨hlen, hshape⟩ := hcol
      have hsum : babies.length = o.popSize := by
        rw [speciesThreads_length] at hperm'
        have h1 : (ps.arrival.map (quotaOf p1)).sum = (p1.species.map (fun s => s.expectedOffspring.toNat)).sum := by
          have := quota_sum (p1.species.map (fun s => s.expectedOffspring.toNat)) ps.arrival (by simpa using hperm')
          exact this
        have h2 := toNat_sum_of_nonneg p1.species hnn
        have : ((babies.length : Nat) : Int) = (o.popSize : Int) := by rw [hlen, h1, h2, hq]
        exact_mod_cast this
      rw [if_neg (by simpa using hsum)]
      obtain ⟨hdu, hdg⟩ := decodeAll_spec p1.nextUid babies
      have hdne : decodeAll p1.nextUid babies ≠ [] := by
        intro e
        have := congrArg List.length hdu
        rw [e] at this
        simp at this
        omega
      have hsp := safe_speciate o ({ p1 with reg := (runSched ({ reg := p1.reg, threads := speciesThreads o generation p1 ex ps.streams } :
        PState W (BRes W)) ps.sched).reg }) (decodeAll p1.nextUid babies) hdne hct
      obtain ⟨p2, hp2, _⟩ := hsp.ok
      rw [hp2]
      obtain ⟨horgs, _⟩ := speciate_orgs o _ _ _ hp2
      refine ⟨?_, ?_⟩
      · intro x hx
        rcases horgs x hx with h | h
        · exact Or.inl h
        · obtain ⟨u, b, hb, rfl⟩ := decodeAll_mem _ _ x h
          exact Or.inr ⟨hshape b hb, rfl⟩
      · unfold speciate at hp2
        rw [if_neg (by simpa using hdne)] at hp2
        exact (C02.speciateLoop_uids o _ p2 _ hp2).2.1

/-! ### every start state has an execution: goroutines return -/

theorem pstep_done_stable (st : PState W α) (i t : Nat) (a : α) (h : st.threads[t]? = some (.done a)) :
    (pstep st i).threads[t]? = some (.done a) := by
  unfold pstep
  split
  · exact h
  · next p hp =>
    simp only
    rw [List.getElem?_set]
    split
    · next hit =>
      subst hit
      rw [hp] at h
      cases h
      have hlt : i < st.threads.length := by
        rcases Nat.lt_or_ge i st.threads.length with h' | h'
        · exact h'
        · rw [List.getElem?_eq_none h'] at hp; cases hp
      simp [hlt, Prog.step]
    · exact h

theorem runSched_done_stable (sched : List Nat) : ∀ (st : PState W α) (t : Nat) (a : α), st.threads[t]? = some (.done a) →
    (runSched st sched).threads[t]? = some (.done a) := by
  induction sched with
  | nil => intro st t a h; exact h
  | cons i is ih => intro st t a h; exact ih _ t a (pstep_done_stable st i t a h)

theorem runSched_append (st : PState W α) (s1 s2 : List Nat) : runSched st (s1 ++ s2) = runSched (runSched st s1) s2 := by
  simp [runSched, List.foldl_append]

theorem pstep_self (st : PState W α) (i : Nat) (p : Prog W α) (hp : st.threads[i]? = some p) :
    (pstep st i).threads[i]? = some (p.step st.reg).1 ∧ (pstep st i).reg = (p.step st.reg).2 := by
  have hlt : i < st.threads.length := by
    rcases Nat.lt_or_ge i st.threads.length with h' | h'
    · exact h'
    · rw [List.getElem?_eq_none h'] at hp; cases hp
  unfold pstep
  rw [hp]
  simp [hlt]

/-- a goroutine returns after finitely many of its own steps (a `Prog` is a well-founded tree) -/
theorem finish_thread (p : Prog W α) : ∀ (st : PState W α) (i : Nat), st.threads[i]? = some p →
    ∃ n a, (runSched st (List.replicate n i)).threads[i]? = some (.done a) := by
  have next : ∀ (st : PState W α) (i : Nat) (q : Prog W α), (pstep st i).threads[i]? = some q →
      (∃ n a, (runSched (pstep st i) (List.replicate n i)).threads[i]? = some (.done a)) →
      ∃ n a, (runSched st (List.replicate n i)).threads[i]? = some (.done a) := by
    intro st i q _ ⟨n, a, h⟩
    exact ⟨n + 1, a, by rw [List.replicate_succ]; exact h⟩
  induction p with
  | done a => intro st i h; exact ⟨0, a, h⟩
  | snap k ih =>
    intro st i h
    have h1 := (pstep_self st i _ h).1
    exact next st i _ h1 (ih _ _ i h1)
  | nextNode k ih =>
    intro st i h
    have h1 := (pstep_self st i _ h).1
    exact next st i _ h1 (ih _ _ i h1)
  | nextInn k ih =>
    intro st i h
    have h1 := (pstep_self st i _ h).1
    exact next st i _ h1 (ih _ _ i h1)
  | store r k ih =>
    intro st i h
    have h1 := (pstep_self st i _ h).1
    exact next st i _ h1 (ih _ i h1)

/-- **every start state has a scheduler list after which all goroutines have returned** - and they stay returned under
    every continuation (`runSched_done_stable`) -/
theorem exists_complete_schedule (st : PState W α) :
    ∃ sched, ∀ q ∈ (runSched st sched).threads, q.result?.isSome = true := by
  have hk : ∀ k, k ≤ st.threads.length → ∃ sched, ∀ t, t < k → ∃ a, (runSched st sched).threads[t]? = some (.done a) := by
    intro k
    induction k with
    | zero => intro _; exact ⟨[], fun t ht => absurd ht (Nat.not_lt_zero t)⟩
    | succ k ih =>
      intro hle
      obtain ⟨sched, hs⟩ := ih (by omega)
      have hlt : k < (runSched st sched).threads.length := by rw [runSched_length]; omega
      obtain ⟨n, a, hfin⟩ := finish_thread _ (runSched st sched) k (List.getElem?_eq_getElem hlt)
      refine ⟨sched ++ List.replicate n k, fun t ht => ?_⟩
      rw [runSched_append]
      rcases Nat.lt_or_ge t k with h' | h'
      · obtain ⟨a', ha'⟩ := hs t h'
        exact ⟨a', runSched_done_stable _ _ t a' ha'⟩
      · have : t = k := by omega
        subst this
        exact ⟨a, hfin⟩
  obtain ⟨sched, hs⟩ := hk st.threads.length (Nat.le_refl _)
  refine ⟨sched, fun q hq => ?_⟩
  obtain ⟨t, ht, rfl⟩ := List.getElem_of_mem hq
  obtain ⟨a, ha⟩ := hs t (by rw [runSched_length] at ht; exact ht)
  rw [List.getElem?_eq_getElem ht] at ha
  simp only [Option.some.injEq] at ha
  rw [ha]
  rfl

/-- for every prepared population and all streams there is a schedule that is an execution -/
theorem exists_execution (o : EpochOpts W) (generation : Int) (p1 : Pop W) (ex : ExecState) (streams : List (List Nat)) :
    ∃ sched arrival, PhaseExec o generation p1 ex ⟨streams, sched, arrival⟩ := by
  obtain ⟨sched, hs⟩ := exists_complete_schedule
    ({ reg := p1.reg, threads := speciesThreads o generation p1 ex streams } : PState W (BRes W))
  exact ⟨sched, List.range (speciesThreads o generation p1 ex streams).length, hs, List.Perm.refl _⟩

/-! ### the whole epoch -/

/-- **the schedule describes an execution** of `ParallelPopulationEpochExecutor.NextEpoch` on `p` with main stream `rs`
    (`PhaseExec` for the population the sequential preparation produces).  Decidable. -/
def IsExecution (o : EpochOpts W) (generation : Int) (p : Pop W) (ps : ParSchedule) (rs : List Nat) : Prop :=
  match prepareForReproduction o p rs with
  | .error _ => True
  | .ok ((p1, ex), _) => PhaseExec o generation p1 ex ps

instance (o : EpochOpts W) (generation : Int) (p : Pop W) (ps : ParSchedule) (rs : List Nat) :
    Decidable (IsExecution o generation p ps rs) := by
  unfold IsExecution
  split <;> infer_instance

/-- what the sequential preparation phase establishes for the parallel phase, under `Hyp` -/
theorem prepared_facts (S : List Nat) (o : EpochOpts W) (p : Pop W) (h : Hyp S o p) (rs rs1 : List Nat) (p1 : Pop W)
    (ex : ExecState) (he : prepareForReproduction o p rs = .ok ((p1, ex), rs1)) :
    (∀ s ∈ p1.species, s.orgs ≠ []) ∧ PoolEnv S p1.reg (genomesOfPop p1) ∧
    quotaSum p1.species = o.popSize ∧ (∀ s ∈ p1.species, 0 ≤ s.expectedOffspring) ∧ UidInv p1 := by
  obtain ⟨ho, hp, hq⟩ := h
  have hundup : (orgUids p.species).Nodup := hp.perm.nodup_iff.mpr hp.nodup
  have hspne : p.species ≠ [] := by
    intro e
    have h1 := hp.size
    have h3 := hp.perm.length_eq
    rw [e] at h3
    have h2 := ho.popSize
    simp [orgUids] at h3
    omega
  have hpar := prepare_parents o p p1 ex rs rs1 hp.spid.nodup hp.uid hundup
    (fun s hs x hx => hp.unmarked x (mem_allOrgs.mpr ⟨s, hs, hx⟩)) he
  have hne1 : ∀ s ∈ p1.species, s.orgs ≠ [] := by
    intro s1 hs1 e
    obtain ⟨s0, hs0, _, huids⟩ := hpar s1 hs1
    rw [e] at huids
    have htake : (sortedAdjusted o s0).take (numParents o s0.orgs.length).toNat = [] := by
      simpa using huids.symm
    have hlen : s0.orgs.length ≤ o.popSize := by
      have := orgs_le_uids p.species s0 hs0
      rw [hp.perm.length_eq, hp.size] at this; exact this
    have hnp := ho.parents _ hlen
    rcases List.take_eq_nil_iff.mp htake with h0 | h0
    · omega
    · have hperm := (goSort_perm (fun a b => orgLess b a)
        (s0.orgs.map (fun x => { x with originalFitness := x.fitness, fitness := adjustedFitness o s0 x.fitness }))).length_eq
      unfold sortedAdjusted sortOrgsDesc at h0
      rw [h0] at hperm
      simp only [List.length_nil, List.length_map] at hperm
      exact hp.nonempty s0 hs0 (List.length_eq_zero_iff.mp hperm.symm)
  obtain ⟨hsub, hreg⟩ := prepare_genomes o p p1 ex rs rs1 he
  have hsubg : ∀ g ∈ genomesOfPop p1, g ∈ genomesOfPop p := by
    intro g hg
    obtain ⟨s, hs, x, hx, rfl⟩ := mem_genomesOfPop.mp hg
    obtain ⟨s0, hs0, y, hy, e⟩ := hsub s hs x hx
    exact mem_genomesOfPop.mpr ⟨s0, hs0, y, hy, e⟩
  have henv1 : PoolEnv S p1.reg (genomesOfPop p1) :=
    ⟨by rw [hreg]; exact hp.pool.subset hsubg, by rw [hreg]; exact hp.recs, fun g hg => hp.shaped g (hsubg g hg)⟩
  obtain ⟨species1, hadj, _⟩ := (safe_adjustAll o p.species hp.nonempty).ok
  obtain ⟨hnn, hle⟩ := hq species1 hadj
  have hsp1 : species1 ≠ [] := list_ne_of_map_eq (adjustAll_keys o _ _ hadj) hspne
  obtain ⟨ht, hn⟩ := prepare_quota_total o p p1 ex rs rs1 species1 hp.size hp.spid.nodup ho.stolen hadj hnn hle
    (rawAssign_ne _ hsp1) he
  obtain ⟨hu1, _⟩ := prepare_uidInv o p p1 ex rs rs1 hp.spid.nodup hp.uid he
  exact ⟨hne1, henv1, ht, hn, hu1⟩

/-- **C16 / C02, "succeeds without error", one epoch of the parallel executor (core).** -/
theorem parEpoch_core (hlaw : UnitMulLe W) (hpick : PickLaw W) (S : List Nat) (o : EpochOpts W) (p : Pop W) (h : Hyp S o p)
    (generation : Int) (ps : ParSchedule) (hstreams : ∀ s ∈ ps.streams, Valid s) (rs : List Nat) (hv : Valid rs) :
    ExecPost (fun r => (∀ x ∈ allOrgs r.1, Newborn S x) ∧ Valid r.2) (IsExecution o generation p ps rs)
      (parEpoch o generation p ps rs) := by
  have hspne : p.species ≠ [] := by
    intro e
    have h1 := h.pop.size
    have h3 := h.pop.perm.length_eq
    rw [e] at h3
    have h2 := h.opts.popSize
    simp [orgUids] at h3
    omega
  have hprep := safe_prepare o p rs h.pop.nonempty hspne h.pop.size h.opts.popSize h.quota
  unfold parEpoch IsExecution
  cases he : prepareForReproduction o p rs with
  | error e =>
    rw [he] at hprep
    cases e with
    | outOfRandom => trivial
    | error m => exact hprep.elim
  | ok v =>
    obtain ⟨⟨p1, ex⟩, rs1⟩ := v
    rw [he] at hprep
    have hsne : (ex.sortedIds.filterMap (fun i => p1.species.find? (·.id == i))) ≠ [] := hprep
    obtain ⟨hne1, henv1, ht, hn, hu1⟩ := prepared_facts S o p h rs rs1 p1 ex he
    have hrep := parReproducePhase_safe hlaw hpick o h.opts.acts h.opts.compat h.opts.popSize generation p1 ex ps hstreams S
      hne1 hsne henv1 ht hn
    simp only
    cases hr : parReproducePhase o generation p1 ex ps with
    | error e =>
      rw [hr] at hrep
      cases e with
      | outOfRandom => trivial
      | error m => exact hrep
    | ok p2 =>
      rw [hr] at hrep
      obtain ⟨horgs, horg2⟩ := hrep
      refine ⟨?_, valid_of_ok (prepareForReproduction_prefixDet o p) hv he⟩
      intro x hx
      have hx' : x ∈ allOrgs (finalizeReproduction p2) := hx
      obtain ⟨y, hy, hyu, hxy⟩ := finalize_orgs p2 x hx'
      rcases horgs y hy with hold | hnew
      · exfalso
        apply hyu
        rw [horg2]
        apply hu1.listed
        obtain ⟨s, hs, hys⟩ := mem_allOrgs.mp hold
        simp only [orgUids, List.mem_flatMap, List.mem_map]
        exact ⟨s, hs, y, hys, rfl⟩
      · rw [hxy]; exact hnew

end GoNeat.C16
