/-
  Helper lemmas for C13 (standard network solver): the relation "equal except for the dead field
  `ActivationSum`", congruence of every solver operation with respect to it, and `Flush` of any state being
  related to the fresh state.  Kind A: no arithmetic law is used (only `hz : lt 0 0 = false` for `FlushbackCheck`).
-/
import GoNeat.Model.Solver

set_option linter.unusedSectionVars false

namespace GoNeat.Solver

variable {W : Type} [Scalar W]

/-! ### `get` / `upd` -/

@[simp] theorem length_upd (s : St W) (i : Nat) (f : NState W → NState W) : (upd s i f).length = s.length := by
  induction s generalizing i with
  | nil => rfl
  | cons a l ih => cases i <;> simp [upd, ih]

theorem get_upd_self (s : St W) (i : Nat) (f : NState W → NState W) (h : i < s.length) :
    get (upd s i f) i = f (get s i) := by
  induction s generalizing i with
  | nil => simp at h
  | cons a l ih =>
    cases i with
    | zero => simp [upd, get]
    | succ k =>
      have := ih k (by simpa using h)
      simpa [upd, get] using this

theorem get_upd_ne (s : St W) (i j : Nat) (f : NState W → NState W) (h : j ≠ i) :
    get (upd s i f) j = get s j := by
  induction s generalizing i j with
  | nil => rfl
  | cons a l ih =>
    cases i with
    | zero =>
      cases j with
      | zero => exact absurd rfl h
      | succ k => simp [upd, get]
    | succ i' =>
      cases j with
      | zero => simp [upd, get]
      | succ k =>
        have := ih i' k (by omega)
        simpa [upd, get] using this

theorem upd_ge (s : St W) (i : Nat) (f : NState W → NState W) (h : s.length ≤ i) : upd s i f = s := by
  induction s generalizing i with
  | nil => rfl
  | cons a l ih =>
    cases i with
    | zero => simp at h
    | succ k => simp [upd, ih k (by simpa using h)]

theorem get_ge (s : St W) (i : Nat) (h : s.length ≤ i) : get s i = NState.fresh := by
  simp [get, List.getD, List.getElem?_eq_none h]

/-! ### the relation -/

/-- two node states agree on every field except `sum` (`ActivationSum`) -/
structure NEq (a b : NState W) : Prop where
  activation : a.activation = b.activation
  count : a.count = b.count
  last : a.last = b.last
  last2 : a.last2 = b.last2
  isActive : a.isActive = b.isActive
  visited : a.visited = b.visited

theorem NEq.refl (a : NState W) : NEq a a := ⟨rfl, rfl, rfl, rfl, rfl, rfl⟩

/-- states agree up to `sum`; on the index set `S` the sums agree too -/
def R (S : Nat → Prop) (s t : St W) : Prop :=
  s.length = t.length ∧ ∀ j, NEq (get s j) (get t j) ∧ (S j → (get s j).sum = (get t j).sum)

/-- the equivalence of C13: equal except for `ActivationSum` -/
def Equiv (s t : St W) : Prop := R (fun _ => False) s t

theorem R.mono {S S' : Nat → Prop} {s t : St W} (h : R S s t) (hs : ∀ j, S' j → S j) : R S' s t :=
  ⟨h.1, fun j => ⟨(h.2 j).1, fun hj => (h.2 j).2 (hs j hj)⟩⟩

theorem R.refl (S : Nat → Prop) (s : St W) : R S s s := ⟨rfl, fun _ => ⟨NEq.refl _, fun _ => rfl⟩⟩

theorem R_upd {S S' : Nat → Prop} {s t : St W} (h : R S s t) (i : Nat) (f g : NState W → NState W)
    (hS : ∀ j, j ≠ i → S' j → S j)
    (hne : NEq (f (get s i)) (g (get t i)))
    (hsum : S' i → (f (get s i)).sum = (g (get t i)).sum) :
    R S' (upd s i f) (upd t i g) := by
  refine ⟨by simp [h.1], fun j => ?_⟩
  by_cases hj : j = i
  · subst hj
    by_cases hl : j < s.length
    · rw [get_upd_self s j f hl, get_upd_self t j g (h.1 ▸ hl)]
      exact ⟨hne, hsum⟩
    · have hl' : s.length ≤ j := by omega
      rw [upd_ge s j f hl', upd_ge t j g (h.1 ▸ hl'), get_ge s j hl', get_ge t j (h.1 ▸ hl')]
      exact ⟨NEq.refl _, fun _ => rfl⟩
  · rw [get_upd_ne s i j f hj, get_upd_ne t i j g hj]
    exact ⟨(h.2 j).1, fun hs => (h.2 j).2 (hS j hj hs)⟩

theorem activeOut_congr {a b : NState W} (h : NEq a b) : activeOut a = activeOut b := by
  simp [activeOut, h.count, h.activation]

theorem activeOutTd_congr {a b : NState W} (h : NEq a b) : activeOutTd a = activeOutTd b := by
  simp [activeOutTd, h.count, h.last]

/-! ### LoadSensors -/

theorem sensorLoad_congr {a b : NState W} (v : W) (h : NEq a b) : NEq (sensorLoad v a) (sensorLoad v b) := by
  constructor <;> simp [sensorLoad, saveActs, h.activation, h.count, h.last, h.isActive, h.visited]

theorem loadEq_congr (net : Net W) (S : Nat → Prop) (is : List Nat) (xs : List W) {s t : St W} (h : R S s t) :
    R S (loadEq net is xs s).1 (loadEq net is xs t).1 ∧ (loadEq net is xs s).2 = (loadEq net is xs t).2 := by
  induction is generalizing xs s t with
  | nil => exact ⟨h, rfl⟩
  | cons i rest ih =>
    unfold loadEq
    split
    · cases xs with
      | nil => exact ⟨h, rfl⟩
      | cons x xs' =>
        apply ih
        exact R_upd h i _ _ (fun _ _ hs => hs) (sensorLoad_congr x (h.2 i).1)
          (fun hs => by simpa [sensorLoad, saveActs] using (h.2 i).2 hs)
    · exact ih xs h

theorem loadNe_congr (net : Net W) (S : Nat → Prop) (is : List Nat) (xs : List W) {s t : St W} (h : R S s t) :
    R S (loadNe net is xs s).1 (loadNe net is xs t).1 ∧ (loadNe net is xs s).2 = (loadNe net is xs t).2 := by
  induction is generalizing xs s t with
  | nil => exact ⟨h, rfl⟩
  | cons i rest ih =>
    unfold loadNe
    split
    · cases xs with
      | nil => exact ⟨h, rfl⟩
      | cons x xs' =>
        apply ih
        exact R_upd h i _ _ (fun _ _ hs => hs) (sensorLoad_congr x (h.2 i).1)
          (fun hs => by simpa [sensorLoad, saveActs] using (h.2 i).2 hs)
    · split
      · apply ih
        exact R_upd h i _ _ (fun _ _ hs => hs) (sensorLoad_congr _ (h.2 i).1)
          (fun hs => by simpa [sensorLoad, saveActs] using (h.2 i).2 hs)
      · exact ih xs h

theorem loadSensors_congr (net : Net W) (S : Nat → Prop) (xs : List W) {s t : St W} (h : R S s t) :
    R S (loadSensors net xs s).1 (loadSensors net xs t).1 ∧ (loadSensors net xs s).2 = (loadSensors net xs t).2 := by
  unfold loadSensors
  split
  · exact loadEq_congr net S _ xs h
  · exact loadNe_congr net S _ xs h

/-! ### first sweep: the sums of all neurons are rewritten before they are read -/

theorem R_setActive {S : Nat → Prop} {s t : St W} (h : R S s t) (i : Nat) :
    R S (upd s i (fun x => { x with isActive := true })) (upd t i (fun x => { x with isActive := true })) :=
  R_upd h i (fun x => { x with isActive := true }) (fun x => { x with isActive := true }) (fun _ _ hs => hs)
    ⟨(h.2 i).1.activation, (h.2 i).1.count, (h.2 i).1.last, (h.2 i).1.last2, rfl, (h.2 i).1.visited⟩
    (fun hs => (h.2 i).2 hs)

theorem R_addSum {S : Nat → Prop} {s t : St W} (h : R S s t) (i : Nat) (v : W) :
    R S (upd s i (fun x => { x with sum := Scalar.add x.sum v })) (upd t i (fun x => { x with sum := Scalar.add x.sum v })) :=
  R_upd h i (fun x => { x with sum := Scalar.add x.sum v }) (fun x => { x with sum := Scalar.add x.sum v })
    (fun _ _ hs => hs)
    ⟨(h.2 i).1.activation, (h.2 i).1.count, (h.2 i).1.last, (h.2 i).1.last2, (h.2 i).1.isActive, (h.2 i).1.visited⟩
    (fun hs => by show Scalar.add _ v = Scalar.add _ v; rw [(h.2 i).2 hs])

theorem linkStep_congr (net : Net W) {S : Nat → Prop} (i : Nat) (l : NLink W) {s t : St W}
    (h : R S s t) : R S (linkStep net i s l) (linkStep net i t l) := by
  have hsrc := (h.2 l.src).1
  unfold linkStep
  simp only [activeOut_congr hsrc, activeOutTd_congr hsrc, hsrc.isActive]
  split
  · apply R_addSum
    split
    · exact R_setActive h i
    · exact h
  · exact R_addSum h i _

theorem foldl_linkStep_congr (net : Net W) {S : Nat → Prop} (i : Nat) (ls : List (NLink W)) {s t : St W}
    (h : R S s t) : R S (ls.foldl (linkStep net i) s) (ls.foldl (linkStep net i) t) := by
  induction ls generalizing s t with
  | nil => exact h
  | cons l ls ih => exact ih (linkStep_congr net i l h)

theorem sumNode_congr (net : Net W) {S : Nat → Prop} (nd : NNodeS W) (i : Nat) {s t : St W} (h : R S s t) :
    R (fun j => S j ∨ j = i) (sumNode net nd i s) (sumNode net nd i t) := by
  unfold sumNode
  apply foldl_linkStep_congr net i nd.incoming
  exact R_upd h i _ _ (fun j hj hs => hs.resolve_right hj)
    ⟨(h.2 i).1.activation, (h.2 i).1.count, (h.2 i).1.last, (h.2 i).1.last2, (h.2 i).1.isActive, (h.2 i).1.visited⟩
    (fun _ => rfl)

theorem sweep1Aux_congr (net : Net W) (rest : List (NNodeS W)) (i : Nat) {S : Nat → Prop} {s t : St W} (h : R S s t) :
    R (fun j => S j ∨ ∃ k nd, rest[k]? = some nd ∧ nd.isNeuron = true ∧ j = i + k)
      (sweep1Aux net rest i s) (sweep1Aux net rest i t) := by
  induction rest generalizing i S s t with
  | nil => exact h.mono (fun j hj => hj.elim id (fun ⟨k, nd, hk, _⟩ => by simp at hk))
  | cons nd rest ih =>
    unfold sweep1Aux
    by_cases hn : nd.isNeuron = true
    · simp only [hn, if_true]
      refine (ih (i + 1) (sumNode_congr net nd i h)).mono ?_
      rintro j (hj | ⟨k, nd', hk, hnd, rfl⟩)
      · exact Or.inl (Or.inl hj)
      · cases k with
        | zero => exact Or.inl (Or.inr rfl)
        | succ k' => exact Or.inr ⟨k', nd', by simpa using hk, hnd, by omega⟩
    · simp only [hn]
      refine (ih (i + 1) h).mono ?_
      rintro j (hj | ⟨k, nd', hk, hnd, rfl⟩)
      · exact Or.inl hj
      · cases k with
        | zero => simp at hk; subst hk; exact absurd hnd hn
        | succ k' => exact Or.inr ⟨k', nd', by simpa using hk, hnd, by omega⟩

/-- after the first sweep the sums of all neurons agree -/
def neuronSet (net : Net W) : Nat → Prop := fun j => ∃ nd, net.nodes[j]? = some nd ∧ nd.isNeuron = true

theorem sweep1_congr (net : Net W) {s t : St W} (h : Equiv s t) : R (neuronSet net) (sweep1 net s) (sweep1 net t) := by
  refine (sweep1Aux_congr net net.nodes 0 h).mono ?_
  rintro j ⟨nd, hnd, hn⟩
  exact Or.inr ⟨j, nd, hnd, hn, by omega⟩

/-! ### second sweep -/

theorem setActivation_congr {a b : NState W} (v : W) (h : NEq a b) : NEq (setActivation v a) (setActivation v b) := by
  constructor <;> simp [setActivation, saveActs, h.activation, h.count, h.last, h.isActive, h.visited]

theorem sweep2Aux_congr (σ : Nat → W → Option W) (rest : List (NNodeS W)) (i : Nat) {S : Nat → Prop} {s t : St W}
    (h : R S s t) (hS : ∀ k nd, rest[k]? = some nd → nd.isNeuron = true → S (i + k)) :
    R S (sweep2Aux σ rest i s).1 (sweep2Aux σ rest i t).1 ∧ (sweep2Aux σ rest i s).2 = (sweep2Aux σ rest i t).2 := by
  induction rest generalizing i s t with
  | nil => exact ⟨h, rfl⟩
  | cons nd rest ih =>
    have hrest : ∀ k nd', rest[k]? = some nd' → nd'.isNeuron = true → S (i + 1 + k) := by
      intro k nd' hk hn
      have := hS (k + 1) nd' (by simpa using hk) hn
      simpa [Nat.add_assoc, Nat.add_comm 1 k] using this
    unfold sweep2Aux
    rw [(h.2 i).1.isActive]
    by_cases hc : (nd.isNeuron && (get t i).isActive) = true
    · simp only [hc, if_true]
      have hn : nd.isNeuron = true := by
        simp only [Bool.and_eq_true] at hc; exact hc.1
      have hsum : (get s i).sum = (get t i).sum := (h.2 i).2 (by simpa using hS 0 nd (by simp) hn)
      rw [hsum]
      cases hσ : σ nd.act (get t i).sum with
      | none => exact ⟨h, rfl⟩
      | some out =>
        apply ih (i + 1) _ hrest
        exact R_upd h i _ _ (fun _ _ hs => hs) (setActivation_congr out (h.2 i).1)
          (fun hs => by simpa [setActivation, saveActs] using (h.2 i).2 hs)
    · simp only [hc]
      exact ih (i + 1) h hrest

theorem sweep2_congr (net : Net W) (σ : Nat → W → Option W) {s t : St W} (h : R (neuronSet net) s t) :
    Equiv (sweep2 net σ s).1 (sweep2 net σ t).1 ∧ (sweep2 net σ s).2 = (sweep2 net σ t).2 := by
  have := sweep2Aux_congr σ net.nodes 0 h (fun k nd hk hn => ⟨nd, by simpa using hk, hn⟩)
  exact ⟨this.1.mono (fun _ hf => hf.elim), this.2⟩

/-! ### ActivateSteps, ForwardSteps -/

theorem outputIsOff_congr (net : Net W) {s t : St W} (h : Equiv s t) : outputIsOff net s = outputIsOff net t := by
  unfold outputIsOff
  congr 1
  funext o
  rw [(h.2 o).1.count]

theorem actLoop_congr (net : Net W) (σ : Nat → W → Option W) (maxSteps : Int) (fuel abort : Nat) (one : Bool)
    {s t : St W} (h : Equiv s t) :
    Equiv (actLoop net σ maxSteps fuel abort one s).1 (actLoop net σ maxSteps fuel abort one t).1 ∧
      (actLoop net σ maxSteps fuel abort one s).2 = (actLoop net σ maxSteps fuel abort one t).2 := by
  induction fuel generalizing abort one s t with
  | zero => exact ⟨h, rfl⟩
  | succ fuel ih =>
    unfold actLoop
    rw [outputIsOff_congr net h]
    split
    · split
      · exact ⟨h, rfl⟩
      · have h2 := sweep2_congr net σ (sweep1_congr net h)
        rcases hs : sweep2 net σ (sweep1 net s) with ⟨s2, e⟩
        rcases ht : sweep2 net σ (sweep1 net t) with ⟨t2, e'⟩
        rw [hs, ht] at h2
        simp only at h2
        obtain ⟨h2a, rfl⟩ := h2
        cases e with
        | some e => exact ⟨h2a, rfl⟩
        | none => exact ih (abort + 1) true h2a
    · exact ⟨h, rfl⟩

theorem activateSteps_congr (net : Net W) (σ : Nat → W → Option W) (n : Int) {s t : St W} (h : Equiv s t) :
    Equiv (activateSteps net σ n s).1 (activateSteps net σ n t).1 ∧
      (activateSteps net σ n s).2 = (activateSteps net σ n t).2 := by
  unfold activateSteps
  split
  · exact ⟨h, rfl⟩
  · exact actLoop_congr net σ n _ 0 false h

theorem fwdLoop_congr (net : Net W) (σ : Nat → W → Option W) (n : Int) (k : Nat) (res : Bool) {s t : St W}
    (h : Equiv s t) :
    Equiv (fwdLoop net σ n k res s).1 (fwdLoop net σ n k res t).1 ∧
      (fwdLoop net σ n k res s).2 = (fwdLoop net σ n k res t).2 := by
  induction k generalizing res s t with
  | zero => exact ⟨h, rfl⟩
  | succ k ih =>
    unfold fwdLoop
    have ha := activateSteps_congr net σ n h
    rcases hs : activateSteps net σ n s with ⟨s', r, e⟩
    rcases ht : activateSteps net σ n t with ⟨t', r', e'⟩
    rw [hs, ht] at ha
    simp only [Prod.mk.injEq] at ha
    obtain ⟨ha1, rfl, rfl⟩ := ha
    cases e with
    | some e => exact ⟨ha1, rfl⟩
    | none => exact ih r ha1

theorem forwardSteps_congr (net : Net W) (σ : Nat → W → Option W) (n : Int) {s t : St W} (h : Equiv s t) :
    Equiv (forwardSteps net σ n s).1 (forwardSteps net σ n t).1 ∧
      (forwardSteps net σ n s).2 = (forwardSteps net σ n t).2 := by
  unfold forwardSteps
  split
  · exact ⟨h, rfl⟩
  · exact fwdLoop_congr net σ n _ false h

/-! ### list-shaped view of the relation (for `map`, `setVisited`, `flushAux`) -/

theorem R_cons {S : Nat → Prop} {a b : NState W} {s t : St W} :
    R S (a :: s) (b :: t) ↔ (NEq a b ∧ (S 0 → a.sum = b.sum)) ∧ R (fun j => S (j + 1)) s t := by
  constructor
  · intro h
    refine ⟨by simpa [get] using h.2 0, by simpa using h.1, fun j => ?_⟩
    simpa [get] using h.2 (j + 1)
  · rintro ⟨h0, h⟩
    refine ⟨by simp [h.1], fun j => ?_⟩
    cases j with
    | zero => simpa [get] using h0
    | succ k => simpa [get] using h.2 k

theorem Equiv_cons {a b : NState W} {s t : St W} : Equiv (a :: s) (b :: t) ↔ NEq a b ∧ Equiv s t := by
  unfold Equiv
  rw [R_cons]
  simp

theorem Equiv_nil_left {t : St W} (h : Equiv ([] : St W) t) : t = [] := by
  have := h.1
  cases t with
  | nil => rfl
  | cons b t => simp at this

theorem Equiv_visited {s t : St W} (h : Equiv s t) : s.map (·.visited) = t.map (·.visited) := by
  induction s generalizing t with
  | nil => rw [Equiv_nil_left h]
  | cons a s ih =>
    cases t with
    | nil => have := h.1; simp at this
    | cons b t =>
      rw [Equiv_cons] at h
      simp [h.1.visited, ih h.2]

theorem setVisited_congr (v : List Bool) {s t : St W} (h : Equiv s t) : Equiv (setVisited s v) (setVisited t v) := by
  induction s generalizing t v with
  | nil => rw [Equiv_nil_left h]; exact R.refl _ _
  | cons a s ih =>
    cases t with
    | nil => have := h.1; simp at this
    | cons b t =>
      rw [Equiv_cons] at h
      cases v with
      | nil => simpa [setVisited, Equiv_cons] using h
      | cons c v =>
        simp only [setVisited, Equiv_cons]
        exact ⟨⟨h.1.activation, h.1.count, h.1.last, h.1.last2, h.1.isActive, rfl⟩, ih v h.2⟩

theorem recursiveSteps_congr (net : Net W) (σ : Nat → W → Option W) {s t : St W} (h : Equiv s t) :
    Equiv (recursiveSteps net σ s).1 (recursiveSteps net σ t).1 ∧
      (recursiveSteps net σ s).2 = (recursiveSteps net σ t).2 := by
  unfold recursiveSteps
  rw [Equiv_visited h]
  exact forwardSteps_congr net σ _ (setVisited_congr _ h)

/-! ### Flush -/

theorem flushback_congr {a b : NState W} (_h : NEq a b) : NEq (flushback a) (flushback b) := by
  constructor <;> simp [flushback]

theorem flushCheckFails_flushback (hz : Scalar.lt (Scalar.zero : W) Scalar.zero = false) (a : NState W) :
    flushCheckFails (flushback a) = false := by
  simp [flushCheckFails, flushback, hz]

theorem flushAux_eq (hz : Scalar.lt (Scalar.zero : W) Scalar.zero = false) (s : St W) :
    flushAux s = (s.map flushback, true, none) := by
  induction s with
  | nil => rfl
  | cons a s ih => simp [flushAux, flushCheckFails_flushback hz, ih]

theorem flushback_fresh (a : NState W) : NEq (flushback a) NState.fresh := by
  constructor <;> simp [flushback, NState.fresh]

theorem map_flushback_equiv (s : St W) (l : List (NNodeS W)) (h : s.length = l.length) :
    Equiv (s.map flushback) (l.map fun _ => NState.fresh) := by
  induction s generalizing l with
  | nil =>
    cases l with
    | nil => exact R.refl _ _
    | cons _ _ => simp at h
  | cons a s ih =>
    cases l with
    | nil => simp at h
    | cons n l =>
      simp only [List.map_cons, Equiv_cons]
      exact ⟨flushback_fresh a, ih l (by simpa using h)⟩

theorem flush_congr (hz : Scalar.lt (Scalar.zero : W) Scalar.zero = false) {s t : St W} (h : Equiv s t) :
    Equiv (flush s).1 (flush t).1 ∧ (flush s).2 = (flush t).2 := by
  unfold flush
  rw [flushAux_eq hz, flushAux_eq hz]
  refine ⟨?_, rfl⟩
  simp only
  induction s generalizing t with
  | nil => rw [Equiv_nil_left h]; exact R.refl _ _
  | cons a s ih =>
    cases t with
    | nil => have := h.1; simp at this
    | cons b t =>
      rw [Equiv_cons] at h
      simp only [List.map_cons, Equiv_cons]
      exact ⟨flushback_congr h.1, ih h.2⟩

/-! ### lengths -/

theorem length_loadEq (net : Net W) (is : List Nat) (xs : List W) (s : St W) :
    (loadEq net is xs s).1.length = s.length := by
  induction is generalizing xs s with
  | nil => rfl
  | cons i rest ih =>
    unfold loadEq
    split
    · cases xs with
      | nil => rfl
      | cons x xs' => simp [ih]
    · exact ih xs s

theorem length_loadNe (net : Net W) (is : List Nat) (xs : List W) (s : St W) :
    (loadNe net is xs s).1.length = s.length := by
  induction is generalizing xs s with
  | nil => rfl
  | cons i rest ih =>
    unfold loadNe
    split
    · cases xs with
      | nil => rfl
      | cons x xs' => simp [ih]
    · split
      · simp [ih]
      · exact ih xs s

theorem length_linkStep (net : Net W) (i : Nat) (s : St W) (l : NLink W) :
    (linkStep net i s l).length = s.length := by
  unfold linkStep
  simp only
  split
  · rw [length_upd]; split <;> simp
  · simp

theorem length_foldl_linkStep (net : Net W) (i : Nat) (ls : List (NLink W)) (s : St W) :
    (ls.foldl (linkStep net i) s).length = s.length := by
  induction ls generalizing s with
  | nil => rfl
  | cons l ls ih => simp only [List.foldl_cons, ih, length_linkStep]

theorem length_sweep1Aux (net : Net W) (rest : List (NNodeS W)) (i : Nat) (s : St W) :
    (sweep1Aux net rest i s).length = s.length := by
  induction rest generalizing i s with
  | nil => rfl
  | cons nd rest ih =>
    unfold sweep1Aux
    split
    · rw [ih]; simp [sumNode, length_foldl_linkStep]
    · exact ih _ s

theorem length_sweep2Aux (σ : Nat → W → Option W) (rest : List (NNodeS W)) (i : Nat) (s : St W) :
    (sweep2Aux σ rest i s).1.length = s.length := by
  induction rest generalizing i s with
  | nil => rfl
  | cons nd rest ih =>
    unfold sweep2Aux
    split
    · split
      · rfl
      · simp [ih]
    · exact ih _ s

theorem length_actLoop (net : Net W) (σ : Nat → W → Option W) (maxSteps : Int) (fuel abort : Nat) (one : Bool) (s : St W) :
    (actLoop net σ maxSteps fuel abort one s).1.length = s.length := by
  induction fuel generalizing abort one s with
  | zero => rfl
  | succ fuel ih =>
    unfold actLoop
    split
    · split
      · rfl
      · have hl : (sweep2 net σ (sweep1 net s)).1.length = s.length := by
          simp [sweep2, sweep1, length_sweep2Aux, length_sweep1Aux]
        split
        · next s2 e heq => rw [heq] at hl; exact hl
        · next s2 heq => rw [heq] at hl; rw [ih]; exact hl
    · rfl

theorem length_activateSteps (net : Net W) (σ : Nat → W → Option W) (n : Int) (s : St W) :
    (activateSteps net σ n s).1.length = s.length := by
  unfold activateSteps
  split
  · rfl
  · exact length_actLoop ..

theorem length_fwdLoop (net : Net W) (σ : Nat → W → Option W) (n : Int) (k : Nat) (res : Bool) (s : St W) :
    (fwdLoop net σ n k res s).1.length = s.length := by
  induction k generalizing res s with
  | zero => rfl
  | succ k ih =>
    unfold fwdLoop
    have hl := length_activateSteps net σ n s
    split
    · next s' _ e heq => rw [heq] at hl; exact hl
    · next s' r heq => rw [heq] at hl; rw [ih]; exact hl

theorem length_forwardSteps (net : Net W) (σ : Nat → W → Option W) (n : Int) (s : St W) :
    (forwardSteps net σ n s).1.length = s.length := by
  unfold forwardSteps
  split
  · rfl
  · exact length_fwdLoop ..

theorem length_setVisited (s : St W) (v : List Bool) : (setVisited s v).length = s.length := by
  induction s generalizing v with
  | nil => rfl
  | cons a s ih => cases v <;> simp [setVisited, ih]

theorem length_flushAux (s : St W) : (flushAux s).1.length = s.length := by
  induction s with
  | nil => rfl
  | cons a s ih =>
    unfold flushAux
    simp only
    split
    · rfl
    · simp [ih]

theorem length_step (net : Net W) (σ : Nat → W → Option W) (s : St W) (op : Op W) :
    (step net σ s op).1.length = s.length := by
  cases op with
  | load xs =>
    simp only [step, loadSensors]
    split
    · exact length_loadEq ..
    · exact length_loadNe ..
  | activate n => exact length_activateSteps ..
  | forward n => exact length_forwardSteps ..
  | recursive => simp [step, recursiveSteps, length_forwardSteps, length_setVisited]
  | relax => rfl
  | flush => exact length_flushAux s

theorem length_run (net : Net W) (σ : Nat → W → Option W) (ops : List (Op W)) (s : St W) :
    (run net σ ops s).1.length = s.length := by
  induction ops generalizing s with
  | nil => rfl
  | cons op ops ih => simp [run, ih, length_step]

/-! ### every operation respects the equivalence -/

theorem readOutputs_congr (net : Net W) {s t : St W} (h : Equiv s t) : readOutputs net s = readOutputs net t := by
  unfold readOutputs
  congr 1
  funext o
  rw [(h.2 o).1.activation]

theorem step_congr (hz : Scalar.lt (Scalar.zero : W) Scalar.zero = false) (net : Net W) (σ : Nat → W → Option W)
    (op : Op W) {s t : St W} (h : Equiv s t) :
    Equiv (step net σ s op).1 (step net σ t op).1 ∧ (step net σ s op).2 = (step net σ t op).2 := by
  cases op with
  | load xs =>
    have := loadSensors_congr net _ xs h
    simp only [step]
    exact ⟨this.1, by rw [this.2]⟩
  | activate n => exact activateSteps_congr net σ n h
  | forward n => exact forwardSteps_congr net σ n h
  | recursive => exact recursiveSteps_congr net σ h
  | relax => exact ⟨h, rfl⟩
  | flush => exact flush_congr hz h

theorem run_congr (hz : Scalar.lt (Scalar.zero : W) Scalar.zero = false) (net : Net W) (σ : Nat → W → Option W)
    (ops : List (Op W)) {s t : St W} (h : Equiv s t) :
    Equiv (run net σ ops s).1 (run net σ ops t).1 ∧ (run net σ ops s).2 = (run net σ ops t).2 := by
  induction ops generalizing s t with
  | nil => exact ⟨h, rfl⟩
  | cons op ops ih =>
    have hs := step_congr hz net σ op h
    have hr := ih hs.1
    simp only [run]
    refine ⟨hr.1, ?_⟩
    rw [hr.2]
    congr 1
    unfold obsOf
    rw [hs.2, readOutputs_congr net hs.1]

end GoNeat.Solver
