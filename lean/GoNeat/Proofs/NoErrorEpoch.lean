/-
  C02 "without error": the reproduction phase and the whole epoch.  Composition of NoErrorPrepare / NoErrorRepro with
  the existing C02 / C09 / C01 theorems (`prepare_parents`, `prepared_progeny_exact`, `prepare_genomes`,
  `prepare_uidInv`, `speciate_orgs`), plus what the next epoch needs again: the organisms of the new generation are
  the babies (unmarked, of the common trait shape).
  Kind A.
-/
import GoNeat.Proofs.NoErrorPrepare

set_option linter.unusedSectionVars false

namespace GoNeat.NoErr
open GoNeat Scalar GoNeat.C01 GoNeat.C02 GoNeat.C09
variable {W : Type} [Scalar W]

/-! ### babies are born unmarked -/

theorem reproduceOne_unmarked (o : EpochOpts W) (gen : Int) (s : Species W) (sorted : List (Species W)) (champ : Org W)
    (count : Int) (st st' : ReproState W) (rs rs' : List Nat)
    (h : reproduceOne o gen s sorted champ count st rs = .ok (st', rs')) :
    ∃ b, st'.babies = st.babies ++ [b] ∧ b.toEliminate = false := by
  unfold reproduceOne at h
  simp only at h
  repeat' (split at h)
  all_goals (first
    | (simp only [Except.ok.injEq, Prod.mk.injEq] at h; obtain ⟨rfl, _⟩ := h; exact ⟨_, rfl, rfl⟩)
    | cases h)

theorem reproduceLoop_unmarked (o : EpochOpts W) (gen : Int) (s : Species W) (sorted : List (Species W)) (champ : Org W)
    (n : Nat) (count : Int) (st st' : ReproState W) (rs rs' : List Nat)
    (h : reproduceLoop o gen s sorted champ n count st rs = .ok (st', rs'))
    (hst : ∀ b ∈ st.babies, b.toEliminate = false) : ∀ b ∈ st'.babies, b.toEliminate = false := by
  induction n generalizing count st rs with
  | zero => unfold reproduceLoop at h; cases h; exact hst
  | succ k ih =>
    unfold reproduceLoop at h
    split at h
    · cases h
    · next st1 rs1 h1 =>
      obtain ⟨b, hb, hbu⟩ := reproduceOne_unmarked o gen s sorted champ count st st1 rs rs1 h1
      refine ih _ _ _ h ?_
      intro x hx
      rw [hb] at hx
      rcases List.mem_append.mp hx with hx | hx
      · exact hst x hx
      · simp only [List.mem_singleton] at hx; rw [hx]; exact hbu

theorem reproduceSpecies_unmarked (o : EpochOpts W) (gen : Int) (s : Species W) (sorted : List (Species W)) (reg reg' : Reg W)
    (uid uid' : Nat) (babies : List (Org W)) (rs rs' : List Nat)
    (h : reproduceSpecies o gen s sorted reg uid rs = .ok ((babies, reg', uid'), rs')) : ∀ b ∈ babies, b.toEliminate = false := by
  unfold reproduceSpecies at h
  split at h
  · split at h <;> cases h
  · simp only at h
    split at h
    · cases h
    · next st rs1 hloop =>
      simp only [Except.ok.injEq, Prod.mk.injEq] at h
      obtain ⟨⟨rfl, _, _⟩, _⟩ := h
      exact reproduceLoop_unmarked o gen s sorted _ _ 0 _ st rs rs1 hloop (by intro b hb; cases hb)

theorem reproduceAll_unmarked (o : EpochOpts W) (gen : Int) (sorted ss : List (Species W)) (reg reg' : Reg W) (uid uid' : Nat)
    (babies babies' : List (Org W)) (rs rs' : List Nat)
    (h : reproduceAll o gen sorted ss reg uid babies rs = .ok ((babies', reg', uid'), rs'))
    (hb : ∀ b ∈ babies, b.toEliminate = false) : ∀ b ∈ babies', b.toEliminate = false := by
  induction ss generalizing reg uid babies rs with
  | nil =>
    unfold reproduceAll at h
    simp only [Except.ok.injEq, Prod.mk.injEq] at h
    obtain ⟨⟨rfl, _, _⟩, _⟩ := h
    exact hb
  | cons s t ih =>
    unfold reproduceAll at h
    split at h
    · cases h
    · next bs reg1 uid1 rs1 hsp =>
      refine ih _ _ _ _ h ?_
      intro x hx
      rcases List.mem_append.mp hx with hx | hx
      · exact hb x hx
      · exact reproduceSpecies_unmarked o gen s sorted reg reg1 uid uid1 bs rs rs1 hsp x hx

/-! ### the reproduction phase -/

/-- an organism of the new generation: unmarked, of the common trait shape -/
def Newborn (S : List Nat) (x : Org W) : Prop := shape x.genome = S ∧ x.toEliminate = false

/-- **the reproduction phase never fails** (reproduction of every species, size check, speciation) -/
theorem safe_reproducePhase (hlaw : UnitMulLe W) (hpick : PickLaw W) (o : EpochOpts W) (ha : ActOk o.mopts)
    (hct : eq o.compatThreshold zero = false) (hpop : 1 ≤ o.popSize) (gen : Int) (p1 : Pop W) (ex : ExecState) (rs : List Nat) (hv : Valid rs)
    (S : List Nat)
    (hne1 : ∀ s ∈ p1.species, s.orgs ≠ [])
    (hsne : (ex.sortedIds.filterMap (fun i => p1.species.find? (·.id == i))) ≠ [])
    (henv : PoolEnv S p1.reg (genomesOfPop p1))
    (hprog : ∀ sorted reg' uid' babies rs2, reproduceAll o gen sorted p1.species p1.reg p1.nextUid [] rs = .ok ((babies, reg', uid'), rs2) →
      babies.length = o.popSize) :
    Safe (fun p2 => (∀ x ∈ allOrgs p2, x ∈ allOrgs p1 ∨ Newborn S x) ∧ p2.organisms = p1.organisms)
      (reproducePhase o gen p1 ex rs) := by
  unfold reproducePhase
  simp only
  have hmem : ∀ s ∈ p1.species, ∀ x ∈ s.orgs, x.genome ∈ genomesOfPop p1 :=
    fun s hs x hx => mem_genomesOfPop.mpr ⟨s, hs, x, hx, rfl⟩
  have hsin : ∀ sp ∈ ex.sortedIds.filterMap (fun i => p1.species.find? (·.id == i)), sp ∈ p1.species := by
    intro sp hsp
    obtain ⟨i, _, hi⟩ := List.mem_filterMap.mp hsp
    exact List.mem_of_find?_eq_some hi
  have hall := safe_reproduceAll hlaw hpick o ha gen _ (genomesOfPop p1) S
    (fun sp hsp x hx => hmem sp (hsin sp hsp) x hx) hsne (fun sp hsp => hne1 sp (hsin sp hsp))
    p1.species hmem hne1 p1.reg p1.nextUid [] rs hv (by simpa using henv)
  split
  · next e he => rw [he] at hall; exact hall.of_error
  · next babies reg uid rs' he =>
    rw [he] at hall
    have henv' : PoolEnv S reg (genomesOfPop p1 ++ babies.map (·.genome)) := hall
    have hlen := hprog _ _ _ _ _ he
    rw [if_neg (by simpa using hlen)]
    have hbne : babies ≠ [] := by intro e; rw [e] at hlen; simp at hlen; omega
    have hs := safe_speciate o { p1 with reg := reg, nextUid := uid } babies hbne hct
    split
    · next e he2 => rw [he2] at hs; exact hs.of_error
    · next p' he2 =>
      obtain ⟨horgs, _⟩ := speciate_orgs o _ _ _ he2
      have hun := reproduceAll_unmarked o gen _ _ _ _ _ _ _ _ _ _ he (by intro b hb; cases hb)
      refine ⟨?_, ?_⟩
      · intro x hx
        rcases horgs x hx with h | h
        · exact Or.inl h
        · exact Or.inr ⟨henv'.shaped _ (List.mem_append_right _ (List.mem_map_of_mem h)), hun x h⟩
      · have hl : speciateLoop o { p1 with reg := reg, nextUid := uid } babies = .ok p' := by
          unfold speciate at he2; rw [if_neg (by simpa using hbne)] at he2; exact he2
        exact (C02.speciateLoop_uids o _ p' babies hl).2.1

/-! ### finalisation keeps exactly the new organisms (renumbered) -/

theorem renumber_mem' (l : List (Org W)) (k : Int) :
    ∀ x ∈ renumber l k, ∃ y ∈ l, x = { y with genome := { y.genome with id := x.genome.id } } := by
  induction l generalizing k with
  | nil => unfold renumber; simp
  | cons a t ih =>
    unfold renumber
    intro x hx
    rcases List.mem_cons.mp hx with rfl | hx'
    · exact ⟨a, by simp, rfl⟩
    · obtain ⟨y, hy, e⟩ := ih (k + 1) x hx'
      exact ⟨y, List.mem_cons_of_mem _ hy, e⟩

theorem purgeOrAgeLoop_mem' (ss : List (Species W)) (k : Int) : ∀ s' ∈ purgeOrAgeLoop ss k, ∀ x ∈ s'.orgs,
    ∃ s ∈ ss, ∃ y ∈ s.orgs, x = { y with genome := { y.genome with id := x.genome.id } } := by
  induction ss generalizing k with
  | nil => unfold purgeOrAgeLoop; simp
  | cons s t ih =>
    unfold purgeOrAgeLoop
    split
    · intro s' hs' x hx
      obtain ⟨s0, hs0, y, hy, e⟩ := ih k s' hs' x hx
      exact ⟨s0, List.mem_cons_of_mem _ hs0, y, hy, e⟩
    · intro s' hs' x hx
      rcases List.mem_cons.mp hs' with rfl | hs''
      · obtain ⟨y, hy, e⟩ := renumber_mem' s.orgs k x hx
        exact ⟨s, by simp, y, hy, e⟩
      · obtain ⟨s0, hs0, y, hy, e⟩ := ih _ s' hs'' x hx
        exact ⟨s0, List.mem_cons_of_mem _ hs0, y, hy, e⟩

theorem finalize_orgs (p : Pop W) : ∀ x ∈ allOrgs (finalizeReproduction p),
    ∃ y ∈ allOrgs p, y.uid ∉ p.organisms ∧ x = { y with genome := { y.genome with id := x.genome.id } } := by
  intro x hx
  obtain ⟨s', hs', hxs⟩ := mem_allOrgs.mp hx
  unfold finalizeReproduction purgeOrAgeSpecies at hs'
  simp only at hs'
  obtain ⟨s0, hs0, y, hy, e⟩ := purgeOrAgeLoop_mem' _ _ s' hs' x hxs
  unfold purgeOldGeneration at hs0
  simp only at hs0
  obtain ⟨s1, hs1, rfl⟩ := List.mem_map.mp hs0
  simp only [List.mem_filter] at hy
  refine ⟨y, mem_allOrgs.mpr ⟨s1, hs1, hy.1⟩, ?_, e⟩
  have := hy.2
  simpa using this

/-! ### hypotheses of the epoch theorem -/

/-- what the turnover needs of the options (all decidable) -/
structure OptsOk (o : EpochOpts W) : Prop where
  popSize : 1 ≤ o.popSize
  stolen : 0 ≤ o.babiesStolen
  compat : eq o.compatThreshold zero = false
  acts : ActOk o.mopts
  parents : ∀ n, n ≤ o.popSize → 1 ≤ numParents o n

/-- what the turnover needs of the population: the C02 invariants (`UidInv`, `SpIdInv`, size, partition, non-empty
    species), no organism marked for elimination, the C01 pool invariant, valid trait indices in the registry records,
    one trait shape `S` for all genomes -/
structure PopOk (S : List Nat) (o : EpochOpts W) (p : Pop W) : Prop where
  uid : UidInv p
  spid : SpIdInv p
  size : p.organisms.length = o.popSize
  perm : (orgUids p.species).Perm p.organisms
  nodup : p.organisms.Nodup
  nonempty : ∀ s ∈ p.species, s.orgs ≠ []
  unmarked : ∀ x ∈ allOrgs p, x.toEliminate = false
  pool : PoolOk p.reg (genomesOfPop p)
  recs : RecTraits S.length p.reg
  shaped : ∀ g ∈ genomesOfPop p, shape g = S

structure Hyp (S : List Nat) (o : EpochOpts W) (p : Pop W) : Prop where
  opts : OptsOk o
  pop : PopOk S o p
  quota : QuotaOk o p

theorem orgs_le_uids (ss : List (Species W)) (s : Species W) (hs : s ∈ ss) : s.orgs.length ≤ (orgUids ss).length := by
  induction ss with
  | nil => cases hs
  | cons a t ih =>
    simp only [orgUids, List.flatMap_cons, List.length_append, List.length_map]
    rcases List.mem_cons.mp hs with rfl | h
    · omega
    · have := ih h; simp only [orgUids] at this; omega

theorem rawAssign_ne (p' : Pop W) (hsp : p'.species ≠ []) : (rawAssign p').1 ≠ [] := by
  unfold rawAssign
  simp only
  exact list_ne_of_map_eq (assignQuotas_keys _ _ _) (by simpa using hsp)

/-- **C02, "succeeds without error", one epoch (core).**  Under `Hyp` and the two float facts, `nextEpoch` never
    returns an implementation error, and every organism of the new generation is a newborn (unmarked, of shape `S`). -/
theorem safe_nextEpoch_core (hlaw : UnitMulLe W) (hpick : PickLaw W) (S : List Nat) (o : EpochOpts W) (p : Pop W)
    (h : Hyp S o p) (gen : Int) (rs : List Nat) (hv : Valid rs) :
    Safe (fun p' => ∀ x ∈ allOrgs p', Newborn S x) (nextEpoch o gen p rs) := by
  obtain ⟨ho, hp, hq⟩ := h
  have hundup : (orgUids p.species).Nodup := hp.perm.nodup_iff.mpr hp.nodup
  have hspne : p.species ≠ [] := by
    intro e
    have h1 := hp.size
    have h3 := hp.perm.length_eq
    rw [e] at h3
    have h2 := ho.popSize
    simp [orgUids] at h3
    omega
  unfold nextEpoch
  have hprep := safe_prepare o p rs hp.nonempty hspne hp.size ho.popSize hq
  split
  · next e he => rw [he] at hprep; exact hprep.of_error
  · next p1 ex rs1 he =>
    rw [he] at hprep
    have hsne : (ex.sortedIds.filterMap (fun i => p1.species.find? (·.id == i))) ≠ [] := hprep
    -- every species kept by the preparation phase keeps a parent
    have hpar := prepare_parents o p p1 ex rs rs1 hp.spid.nodup hp.uid hundup
      (fun s hs x hx => hp.unmarked x (mem_allOrgs.mpr ⟨s, hs, hx⟩)) he
    have hne1 : ∀ s ∈ p1.species, s.orgs ≠ [] := by
      intro s1 hs1 e
      obtain ⟨s0, hs0, _, huids⟩ := hpar s1 hs1
      rw [e] at huids
      have htake : (sortedAdjusted o s0).take (numParents o s0.orgs.length).toNat = [] := by
        simpa using huids.symm
      have hlen : s0.orgs.length ≤ o.popSize := by
        have := orgs_le_uids p.species s0 hs0
        rw [hp.perm.length_eq, hp.size] at this; exact this
      have hnp := ho.parents _ hlen
      rcases List.take_eq_nil_iff.mp htake with h0 | h0
      · omega
      · have hperm := (goSort_perm (fun a b => orgLess b a)
          (s0.orgs.map (fun x => { x with originalFitness := x.fitness, fitness := adjustedFitness o s0 x.fitness }))).length_eq
        unfold sortedAdjusted sortOrgsDesc at h0
        rw [h0] at hperm
        simp only [List.length_nil, List.length_map] at hperm
        exact hp.nonempty s0 hs0 (List.length_eq_zero_iff.mp hperm.symm)
    -- the pool of the prepared population
    obtain ⟨hsub, hreg⟩ := prepare_genomes o p p1 ex rs rs1 he
    have hsubg : ∀ g ∈ genomesOfPop p1, g ∈ genomesOfPop p := by
      intro g hg
      obtain ⟨s, hs, x, hx, rfl⟩ := mem_genomesOfPop.mp hg
      obtain ⟨s0, hs0, y, hy, e⟩ := hsub s hs x hx
      exact mem_genomesOfPop.mpr ⟨s0, hs0, y, hy, e⟩
    have henv1 : PoolEnv S p1.reg (genomesOfPop p1) :=
      ⟨by rw [hreg]; exact hp.pool.subset hsubg, by rw [hreg]; exact hp.recs, fun g hg => hp.shaped g (hsubg g hg)⟩
    -- the progeny-size check cannot fire
    obtain ⟨species1, hadj, _⟩ := (safe_adjustAll o p.species hp.nonempty).ok
    obtain ⟨hnn, hle⟩ := hq species1 hadj
    have hsp1 : species1 ≠ [] := list_ne_of_map_eq (adjustAll_keys o _ _ hadj) hspne
    have hprog : ∀ sorted reg' uid' babies rs2,
        reproduceAll o gen sorted p1.species p1.reg p1.nextUid [] rs1 = .ok ((babies, reg', uid'), rs2) →
        babies.length = o.popSize :=
      fun sorted reg' uid' babies rs2 hall =>
        prepared_progeny_exact o gen p p1 ex rs rs1 species1 hp.size hp.spid.nodup ho.stolen hadj hnn hle
          (rawAssign_ne _ hsp1) he sorted p1.reg reg' p1.nextUid uid' babies rs1 rs2 hall
    have hrep := safe_reproducePhase hlaw hpick o ho.acts ho.compat ho.popSize gen p1 ex rs1
      (valid_of_ok (prepareForReproduction_prefixDet o p) hv he) S hne1 hsne henv1 hprog
    split
    · next e he2 => rw [he2] at hrep; exact hrep.of_error
    · next p2 rs2 he2 =>
      rw [he2] at hrep
      obtain ⟨horgs, horg2⟩ : (∀ x ∈ allOrgs p2, x ∈ allOrgs p1 ∨ Newborn S x) ∧ p2.organisms = p1.organisms := hrep
      obtain ⟨hu1, _⟩ := prepare_uidInv o p p1 ex rs rs1 hp.spid.nodup hp.uid he
      show ∀ x ∈ allOrgs (finalizeReproduction p2), Newborn S x
      intro x hx
      obtain ⟨y, hy, hyu, hxy⟩ := finalize_orgs p2 x hx
      rcases horgs y hy with hold | hnew
      · exfalso
        apply hyu
        rw [horg2]
        apply hu1.listed
        obtain ⟨s, hs, hys⟩ := mem_allOrgs.mp hold
        simp only [orgUids, List.mem_flatMap, List.mem_map]
        exact ⟨s, hs, y, hys, rfl⟩
      · rw [hxy]; exact hnew

end GoNeat.NoErr
