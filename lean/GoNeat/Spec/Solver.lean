/-
  Executable specifications of C12 / C13.

  C12: `evalNode` = the feed-forward function of a network: every neuron is evaluated from its sources as
  activation(Σ weight·source) with the sum taken in `Incoming` order starting from 0, sensors have given values.
  The recursion follows the links backwards with fuel (`fuel > longest path` suffices on a DAG), so a value is the
  one obtained by evaluating each neuron once in topological order.

  C13: `obsAgree` = a flushed instance and a fresh instance produced the same results, errors and outputs.
-/
import GoNeat.Model.Solver

namespace GoNeat.SolverSpec
open GoNeat.Solver

variable {W : Type} [Scalar W]

/-- Σ in `Incoming` order: `acc + w·value(src)` -/
def sumIn (ev : Nat → Option W) : List (NLink W) → W → Option W
  | [], acc => some acc
  | l :: ls, acc =>
    match ev l.src with
    | none => none
    | some v => sumIn ev ls (Scalar.add acc (Scalar.mul l.w v))

/-- value of node `i`; `sens i` is the value of sensor `i` -/
def evalNode (net : Net W) (σ : Nat → W → Option W) (sens : Nat → W) : Nat → Nat → Option W
  | 0, _ => none
  | f + 1, i =>
    match net.nodes[i]? with
    | none => none
    | some nd =>
      if nd.isSensor then some (sens i)
      else
        match sumIn (evalNode net σ sens f) nd.incoming Scalar.zero with
        | none => none
        | some x => σ nd.act x

/-- sensor values after `LoadSensors(xs)` with `len(xs) = number of input-type nodes` on a network whose `inputs`
    list holds sensors only: the k-th input-type node of `inputs` gets `xs[k]`, bias nodes get 1 -/
def sensVals (net : Net W) (xs : List W) : List Nat → List (Nat × W)
  | [] => []
  | i :: rest =>
    if kindAt net i == some Kind.input then
      match xs with
      | [] => []
      | x :: xs' => (i, x) :: sensVals net xs' rest
    else (i, Scalar.one) :: sensVals net xs rest

def sensFn (net : Net W) (xs : List W) (i : Nat) : W :=
  match (sensVals net xs net.inputs).lookup i with
  | some v => v
  | none => Scalar.zero

/-- the feed-forward function at the outputs -/
def evalOutputs (net : Net W) (σ : Nat → W → Option W) (sens : Nat → W) : List (Option W) :=
  net.outputs.map (evalNode net σ sens (net.nodes.length + 1))

/-! ### hypotheses of C12 as decidable predicates -/

/-- node `i` respects the ranking `lvl`: a sensor, or a neuron with at least one incoming link, all of whose links
    are ordinary (not time-delayed), start at an existing node and come from a strictly lower rank.  A ranking
    exists iff the graph is acyclic; "every neuron has an incoming link" is, on an acyclic graph, the same as
    "every neuron is reachable from a sensor". -/
def ffNode (net : Net W) (lvl : Nat → Nat) (i : Nat) (nd : NNodeS W) : Bool :=
  if nd.isSensor then true
  else nd.isNeuron && !nd.incoming.isEmpty &&
    nd.incoming.all fun l => decide (l.src < net.nodes.length) && !l.timeDelayed && decide (lvl l.src < lvl i)

def ffAux (net : Net W) (lvl : Nat → Nat) : List (NNodeS W) → Nat → Bool
  | [], _ => true
  | nd :: rest, i => ffNode net lvl i nd && ffAux net lvl rest (i + 1)

/-- feed-forward network without control nodes -/
def FFNet (net : Net W) (lvl : Nat → Nat) : Bool :=
  net.ctrl.isEmpty && ffAux net lvl net.nodes 0 && net.outputs.all (fun o => decide (o < net.nodes.length))

/-- the ranking is the longest-path depth: sensors 0, neurons 1 + max over their sources -/
def tightAux (lvl : Nat → Nat) : List (NNodeS W) → Nat → Bool
  | [], _ => true
  | nd :: rest, i =>
    (if nd.isSensor then lvl i == 0 else lvl i == 1 + (nd.incoming.map (fun l => lvl l.src)).foldl max 0) &&
      tightAux lvl rest (i + 1)

def Tight (net : Net W) (lvl : Nat → Nat) : Bool := tightAux lvl net.nodes 0

/-- C13: observations of two runs coincide (`eqW` = equality on scalars, bit equality in the driver) -/
def obsAgree (eqW : W → W → Bool) : List (Obs W) → List (Obs W) → Bool
  | [], [] => true
  | a :: as, b :: bs =>
    a.res == b.res && a.err == b.err && a.outs.length == b.outs.length &&
      (a.outs.zip b.outs).all (fun p => eqW p.1 p.2) && obsAgree eqW as bs
  | _, _ => false

end GoNeat.SolverSpec
