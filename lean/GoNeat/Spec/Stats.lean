/-
  Specification side of C19: order-free ("textbook") definitions of the statistics as decidable predicates, and the
  aggregates recomputed directly (declaratively) from the recorded generations.  The driver evaluates these on the
  IMPLEMENTATION's output; `Props/C19*.lean` prove them of the model.  Core Lean only.
-/
import GoNeat.Model.Stats

namespace GoNeat.Stats
open GoNeat Scalar

variable {W : Type} [Scalar W]

/-- `m` is a smallest element of the series -/
def IsMinOf (xs : List W) (m : W) : Bool := xs.any (fun x => eq x m) && xs.all (fun x => !lt x m)
/-- `m` is a greatest element of the series -/
def IsMaxOf (xs : List W) (m : W) : Bool := xs.any (fun x => eq x m) && xs.all (fun x => !lt m x)

/-- number of elements `≤ v` / `< v` -/
def countLe (xs : List W) (v : W) : Nat := xs.countP (fun x => le x v)
def countLt (xs : List W) (v : W) : Nat := xs.countP (fun x => lt x v)

/-- empirical `p`-quantile, order-free: `v` is an element of the series, at least `p·n` elements are `≤ v`,
    and fewer than `p·n` are `< v` (so `v` is the smallest such element) -/
def IsQuantileOf (p : W) (xs : List W) (v : W) : Bool :=
  xs.any (fun x => eq x v) &&
  ge (ofInt (countLe xs v)) (mul p (ofInt xs.length)) &&
  lt (ofInt (countLt xs v)) (mul p (ofInt xs.length))

/-! ### aggregates recomputed directly from the records -/

def specTrialsSolved (e : Experiment W) : Nat := (e.trials.filter trialSolved).length

def specSuccessRate (e : Experiment W) : W :=
  if e.trials.isEmpty then zero else div (ofInt (specTrialsSolved e)) (ofInt e.trials.length)

/-- winner statistics of a trial: those of its first solved generation; zeros when none is solved; -1 for an empty trial -/
def specWinner (t : Trial W) : Int × Int × Int × Int :=
  match t.gens.find? (·.solved) with
  | some e => (e.winnerNodes, e.winnerGenes, e.winnerEvals, e.diversity)
  | none => if t.gens.isEmpty then (-1, -1, -1, -1) else (0, 0, 0, 0)

def specAvgWinner (e : Experiment W) : W × W × W × W :=
  let ws := (e.trials.filter trialSolved).map specWinner
  let n := ws.length
  if n == 0 then (ofInt (-1), ofInt (-1), ofInt (-1), ofInt (-1))
  else (div (ofInt (ws.map (·.1)).sum) (ofInt n), div (ofInt (ws.map (·.2.1)).sum) (ofInt n),
        div (ofInt (ws.map (·.2.2.1)).sum) (ofInt n), div (ofInt (ws.map (·.2.2.2)).sum) (ofInt n))

/-- the champions of a trial -/
def champions (t : Trial W) : List (Champ W) := t.gens.filterMap (·.champion)

/-- `c` is a champion of the trial with maximal fitness -/
def IsBestOf (t : Trial W) (c : Champ W) : Prop :=
  (∃ c' ∈ champions t, c'.fitness = c.fitness ∧ c'.speciesAge = c.speciesAge ∧ c'.complexity = c.complexity) ∧
  ∀ c' ∈ champions t, lt c.fitness c'.fitness = false

/-- the champions of maximal fitness (candidates for "the best organism" of a trial) -/
def bestCandidates (t : Trial W) : List (Champ W) :=
  (champions t).filter fun c => (champions t).all fun c' => !lt c.fitness c'.fitness

def ageW (c : Champ W) : W := match c.speciesAge with
  | some a => ofInt a
  | none => zero
def complexityW (c : Champ W) : W := match c.complexity with
  | some k => ofInt k
  | none => maxIntW

end GoNeat.Stats
