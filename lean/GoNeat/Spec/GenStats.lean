/-
  Executable specification of `Generation.FillPopulationStatistics` (property C19, recording a generation), evaluated
  by the driver on what the IMPLEMENTATION wrote: the `Generation` fields and the population after the call, against
  the population before the call.  Independent of the sort routine: it only says "a permutation whose first element
  no member exceeds".  `fillSpecWhy` returns "" when every clause holds and the first violated clause otherwise.

  `weq` = identity of scalar values (bit equality for float64); organisms are identified by their allocation id.
-/
import GoNeat.Model.GenerationStats

namespace GoNeat.GenStatsSpec
open GoNeat Scalar GoNeat.GenStatsModel
variable {W : Type} [Scalar W]

/-- remove the first element satisfying `p` -/
def removeFirst {α} (p : α → Bool) : List α → Option (List α)
  | [] => none
  | x :: xs => if p x then some xs else (removeFirst p xs).map (x :: ·)

/-- `b` is a permutation of `a` w.r.t. the equality `e` -/
def permBy {α} (e : α → α → Bool) : List α → List α → Bool
  | [], b => b.isEmpty
  | x :: xs, b =>
    match removeFirst (e x) b with
    | none => false
    | some b' => permBy e xs b'

def listEqBy {α} (e : α → α → Bool) : List α → List α → Bool
  | [], [] => true
  | x :: xs, y :: ys => e x y && listEqBy e xs ys
  | _, _ => false

/-- everything of a species except its member list -/
def sameSpeciesHeader (weq : W → W → Bool) (a b : Species W) : Bool :=
  a.id == b.id && a.age == b.age && weq a.maxFitnessEver b.maxFitnessEver && a.expectedOffspring == b.expectedOffspring &&
  a.isNovel == b.isNovel && a.ageOfLastImprovement == b.ageOfLastImprovement

/-- index of the first species-best value that no species-best value exceeds -/
def firstMaxIdx (bests : List W) : Option Nat := bests.findIdx? (fun b => bests.all (fun c => !lt b c))

/-- the statistics clauses.  `oeq`: the two organism records are the same organism with the same contents. -/
def fillSpecWhy (weq : W → W → Bool) (oeq : Org W → Org W → Bool) (solved : Bool) (champ0 : Option (Org W))
    (before : Pop W) (g : GenStats W) (after : Pop W) : String :=
  let n := before.species.length
  if g.diversity != n then s!"Diversity = {g.diversity}, the population has {n} species"
  else if g.fitness.length != n || g.age.length != n || g.complexity.length != n then "a per-species series does not have one entry per species"
  else if !listEqBy weq g.age (before.species.map (fun s => ofInt s.age)) then "Age series is not the species ages in species order"
  else if after.species.length != n then "the number of species changed"
  else if !((before.species.zip after.species).all (fun (s, s') => sameSpeciesHeader weq s s')) then "a species' id/age/flags changed"
  else if !((before.species.zip after.species).all (fun (s, s') => permBy oeq s.orgs s'.orgs)) then
    "a species' organism list after the call is not a permutation of the one before"
  else if !(after.organisms == before.organisms && after.lastSpecies == before.lastSpecies &&
            weq after.highestFitness before.highestFitness && after.epochsHighestLastChanged == before.epochsHighestLastChanged) then
    "a population field changed"
  else
    -- per species: the first organism after the call is one no member exceeds; Fitness / Complexity are its values
    let perSpecies := (before.species.zip after.species).zip (g.fitness.zip g.complexity)
    match perSpecies.find? (fun ((s, s'), (f, c)) =>
        match s'.orgs with
        | [] => true
        | top :: _ =>
          !(weq f top.fitness && weq c (ofInt (organismComplexity top)) &&
            s.orgs.all (fun x => !lt top.fitness x.fitness && !orgLess top x))) with
    | some ((s, _), _) => "species " ++ toString s.id ++ ": Fitness/Complexity entry is not that of a fittest member listed first (or the species is empty)"
    | none =>
      if solved then
        (match champ0, g.champion with
         | none, none => ""
         | some a, some b => if oeq a b then "" else "Solved generation: the champion was replaced"
         | _, _ => "Solved generation: the champion was replaced")
      else
        let guard := g.fitness.any (fun b => lt minInt64W b)
        if !guard then
          (match champ0, g.champion with
           | none, none => ""
           | some a, some b => if oeq a b then "" else "no species best exceeds float64(MinInt64) but the champion changed"
           | _, _ => "no species best exceeds float64(MinInt64) but the champion changed")
        else
          match firstMaxIdx g.fitness, g.champion with
          | some k, some c =>
            (match (after.species[k]?).bind (·.orgs.head?) with
             | some top => if oeq top c then "" else "the champion is not the best organism of the FIRST species attaining the maximal species-best fitness"
             | none => "internal: no such species")
          | none, _ => "no maximal species-best fitness (unordered values)"
          | _, none => "a species best exceeds float64(MinInt64) but no champion was recorded"

end GoNeat.GenStatsSpec
