/-
  C16: the committed expectations against which the regenerated access table (`Gen/Access.lean`) is checked.
  HAND-WRITTEN; every entry carries its justification.  This file is the *trusted ownership classification* of
  the parallel path (named in the trusted base of C16): the extractor says WHERE the goroutines read and write,
  this file says WHOSE the objects are.  Anything the extractor reports that is not covered here makes
  `disciplined …` false (fail closed).

  CORE LEAN ONLY.
-/
import GoNeat.Spec.AccessTable

namespace GoNeat.AccessExpect
open GoNeat.AccessTable

/-- Protection classes of the shared locations (fields of the one `Population` all goroutines receive, package-level
    variables, captured variables).  A location that is NOT listed is required to be `readOnly` — i.e. every
    reachable access must be a plain read (configuration such as `neat.LogLevel`, the logger function variables,
    the sentinel errors, `math.NodeActivators`): a single reachable write to it falsifies the obligation. -/
def sharedClasses : List (String × SharedClass) := [
  -- appended to by StoreInnovation and handed out (slice header) by Innovations(), both holding Population.mutex;
  -- readers then only look at indices below the length they obtained under the lock (repair e5dce51)
  ("genetics.Population.innovations", .guarded "genetics.Population.mutex"),
  -- atomic.AddInt64 / atomic.AddInt32 only
  ("genetics.Population.nextInnovNum", .atomicOnly),
  ("genetics.Population.nextNodeId", .atomicOnly),
  -- the pointer to the mutex is set once in newPopulation() and only read afterwards
  ("genetics.Population.mutex", .readOnly)
]

def classOf (l : String) : SharedClass := (sharedClasses.lookup l).getD .readOnly

/-- Ownership of the objects reached by field writes whose receiver the extractor cannot prove fresh, plus the
    reads of fields that have a `speciesOwned` write.  Reads that are not listed count as `parentRO` (reads of the
    parent generation, possibly of another species' champion) — the weakest class, which is incompatible with a
    `speciesOwned` write of the same field anywhere.

    Why "fresh" is right for the mutators' receivers: inside the goroutine every mutator / `geneInsert` /
    `nodeInsert` / `Genesis` / `Trait.Mutate` call has as receiver the genome `newGenome` that the SAME iteration of
    `Species.reproduce` obtained from `Genome.duplicate` or one of the three `mate*` functions, all of which build
    new `Genome`, `Gene`, `Link`, `NNode` and `Trait` objects (C06: a duplicate shares no mutable state with its
    source; C04: mating copies genes, nodes and traits).  The baby becomes visible to other goroutines only through
    the result channel, after `wg.Wait()` (join). -/
def expectations : List Expect := [
  -- depth-cap counter of the recurrence check: `count := 0; … &count` local of mutateAddLink
  ⟨"(*network.Network).IsRecurrent", "**int", .wr, .fresh⟩,
  -- YAML encoder: the maps are created by the caller (`encodeGenome…`) for this one encoding
  ⟨"(*genetics.yamlGenomeWriter).encodeControlGene", "elem:map[string]interface{}", .wr, .fresh⟩,
  ⟨"(*genetics.yamlGenomeWriter).encodeNetworkNode", "elem:map[string]interface{}", .wr, .fresh⟩,
  -- genes of the baby genome (receiver g = newGenome)
  ⟨"(*genetics.Genome).mutateAddNode", "genetics.Gene.IsEnabled", .wr, .fresh⟩,
  ⟨"(*genetics.Genome).mutateGeneReEnable", "genetics.Gene.IsEnabled", .wr, .fresh⟩,
  ⟨"(*genetics.Genome).mutateToggleEnable", "genetics.Gene.IsEnabled", .wr, .fresh⟩,
  ⟨"(*genetics.Genome).mutateLinkWeights", "genetics.Gene.MutationNum", .wr, .fresh⟩,
  ⟨"(*genetics.Genome).mutateLinkWeights", "network.Link.ConnectionWeight", .wr, .fresh⟩,
  ⟨"(*genetics.Genome).mutateLinkTrait", "network.Link.Trait", .wr, .fresh⟩,
  ⟨"(*genetics.Genome).mutateNodeTrait", "network.NNode.Trait", .wr, .fresh⟩,
  ⟨"(*neat.Trait).Mutate", "neat.Trait.Params[]", .wr, .fresh⟩,
  -- the baby genome itself
  ⟨"(*genetics.Genome).geneInsert", "genetics.Genome.Genes", .wr, .fresh⟩,
  ⟨"(*genetics.Genome).nodeInsert", "genetics.Genome.Nodes", .wr, .fresh⟩,
  ⟨"(*genetics.Genome).mapNodeId", "genetics.Genome.nodeByIdMap[]", .wr, .fresh⟩,
  -- phenotype of the baby genome built for the recurrence test of mutateAddLink: Genesis runs on the baby only
  -- (mutateAddLink calls g.Genesis when g.Phenotype == nil; parents are never passed to Genesis in this path)
  ⟨"(*genetics.Genome).Genesis", "genetics.Genome.Phenotype", .wr, .fresh⟩,
  -- repair 585232e: mutateAddLink drops that cached network again after inserting the gene (receiver g = newGenome)
  ⟨"(*genetics.Genome).mutateAddLink", "genetics.Genome.Phenotype", .wr, .fresh⟩,
  ⟨"(*genetics.Genome).Genesis", "network.NNode.Incoming", .wr, .fresh⟩,
  ⟨"(*genetics.Genome).Genesis", "network.NNode.Outgoing", .wr, .fresh⟩,
  ⟨"(*genetics.Genome).Genesis", "network.NNode.PhenotypeAnalogue", .wr, .fresh⟩,
  ⟨"network.NewModularNetwork", "network.Network.allNodesMIMO", .wr, .fresh⟩,
  ⟨"network.NewModularNetwork", "network.Network.controlNodes", .wr, .fresh⟩,
  -- averaged gene built inside the crossover walk (`avgGene := NewGeneWithTrait(…)`, its Link is allocated there)
  ⟨"(*genetics.Genome).mateMultipointAvg", "network.Link.ConnectionWeight", .wr, .fresh⟩,
  ⟨"(*genetics.Genome).mateMultipointAvg", "network.Link.InNode", .wr, .fresh⟩,
  ⟨"(*genetics.Genome).mateMultipointAvg", "network.Link.OutNode", .wr, .fresh⟩,
  ⟨"(*genetics.Genome).mateMultipointAvg", "network.Link.IsRecurrent", .wr, .fresh⟩,
  ⟨"(*genetics.Genome).mateMultipointAvg", "network.Link.Trait", .wr, .fresh⟩,
  ⟨"(*genetics.Genome).mateSinglePoint", "network.Link.ConnectionWeight", .wr, .fresh⟩,
  ⟨"(*genetics.Genome).mateSinglePoint", "network.Link.InNode", .wr, .fresh⟩,
  ⟨"(*genetics.Genome).mateSinglePoint", "network.Link.OutNode", .wr, .fresh⟩,
  ⟨"(*genetics.Genome).mateSinglePoint", "network.Link.IsRecurrent", .wr, .fresh⟩,
  ⟨"(*genetics.Genome).mateSinglePoint", "network.Link.Trait", .wr, .fresh⟩,
  -- link of a gene under construction (NewGeneWithTrait / NewGeneCopy → NewLinkWithTrait → deriveTrait)
  ⟨"(*network.Link).deriveTrait", "network.Link.Params", .wr, .fresh⟩,
  ⟨"(*network.Link).deriveTrait", "network.Link.Params[]", .wr, .fresh⟩,
  -- THE species-owned write: `theChamp.superChampOffspring--` on s.Organisms[0] of the species this goroutine
  -- reproduces.  Other goroutines reach that organism only as `dad` (interspecies mating) and read
  -- Genotype / originalFitness of it — never this field; the only reads are the two below, by the owner.
  ⟨"(*genetics.Species).reproduce", "genetics.Organism.superChampOffspring", .wr, .speciesOwned⟩,
  ⟨"(*genetics.Species).reproduce", "genetics.Organism.superChampOffspring", .rd, .speciesOwned⟩
]

/-- Functions outside the repository that the goroutines may call, each with the reason it cannot race on state shared
    between goroutines.  A call to anything else (time.*, os.*, a new library …) falsifies the obligation. -/
def externOk : List String := [
  -- the global math/rand source is a `lockedSource` (mutex inside the library)
  "math/rand.Float32", "math/rand.Float64", "math/rand.Int", "math/rand.Int31n", "math/rand.Intn",
  -- log.Logger serialises Output with its own mutex
  "(*log.Logger).Output",
  -- the sanctioned primitives themselves
  "sync/atomic.AddInt32", "sync/atomic.AddInt64", "(*sync.WaitGroup).Done", "(*sync.WaitGroup).Add",
  -- context.Context is safe for simultaneous use by multiple goroutines (package documentation)
  "iface:context.Context.Done", "iface:context.Context.Err", "iface:context.Context.Value",
  -- pure functions of their arguments
  "errors.New", "fmt.Errorf", "fmt.Sprintf", "github.com/pkg/errors.New", "github.com/pkg/errors.Wrap",
  "math.Abs", "math.Floor", "strconv.ParseInt", "strings.Split", "strings.SplitN", "strings.NewReader",
  "github.com/spf13/cast.ToBoolE", "github.com/spf13/cast.ToFloat64E", "github.com/spf13/cast.ToInt64E",
  "github.com/spf13/cast.ToIntE", "github.com/spf13/cast.ToSlice", "github.com/spf13/cast.ToSliceE",
  -- encoders / buffers / scanners: operate on the writer, reader or buffer handed to them, which is the goroutine's own
  -- `bytes.Buffer` (`var buf bytes.Buffer` in the goroutine body / in MarshalBinary)
  "(*bytes.Buffer).Bytes", "bytes.NewBuffer", "encoding/gob.NewEncoder", "(*encoding/gob.Encoder).Encode",
  "fmt.Fprint", "fmt.Fprintf", "fmt.Fprintln", "fmt.Fscanf", "fmt.Fscanln",
  "bufio.NewReader", "bufio.NewScanner", "bufio.NewWriter", "(*bufio.Reader).ReadLine", "(*bufio.Scanner).Err",
  "(*bufio.Scanner).Scan", "(*bufio.Scanner).Split", "(*bufio.Scanner).Text", "(*bufio.Writer).Flush",
  "gopkg.in/yaml.v3.NewEncoder", "(*gopkg.in/yaml.v3.Encoder).Encode", "gopkg.in/yaml.v3.NewDecoder",
  "(*gopkg.in/yaml.v3.Decoder).Decode"
]

/-- the static obligation of C16 for a given regenerated table -/
def obligation (accesses : List Access) (writes reads : List FieldAccess) (externalCalls unrecognised : List String) : Bool :=
  disciplined classOf expectations externOk accesses writes reads externalCalls unrecognised

end GoNeat.AccessExpect
