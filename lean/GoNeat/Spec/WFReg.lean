/-
  Decidable side conditions of the C01 closure theorems: how a genome has to relate to the innovation
  registry (`RegCompat`, `CounterAbove`, `RegOk`) for the `haveGene` / `haveNode` / `linkExists` guards of the
  structural mutators to exclude a duplicate innovation number or node id, the non-zero trait ids that
  `TraitWithId` presupposes, and `SharedHead` (single-point crossover, known finding K1).
  CORE ONLY (compiled into the driver).
-/
import GoNeat.Model.Mutate
import GoNeat.Spec.WF

namespace GoNeat.C01
open GoNeat
variable {W : Type}

/-- trait ids are never 0 (`TraitWithId` treats id 0 as "no trait"; every shipped genome numbers its traits 1…n) -/
def TraitIdsNonzero (g : Genome W) : Prop := ∀ t ∈ g.traits, t.id ≠ 0
instance (g : Genome W) : Decidable (TraitIdsNonzero g) := by unfold TraitIdsNonzero; infer_instance

/-- a gene of `g` that carries a recorded innovation number has the recorded link; a node of `g` whose id is a
    recorded new-node id is a hidden node -/
def RegCompat (reg : Reg W) (g : Genome W) : Prop :=
  ∀ i ∈ reg.records,
    (i.typ = 2 → ∀ x ∈ g.genes, x.inn = i.inn → x.link = (i.inId, i.outId, i.recur)) ∧
    (i.typ = 1 → (∀ x ∈ g.genes, x.inn = i.inn → x.src = i.inId ∧ x.dst = i.newNode) ∧
                 (∀ x ∈ g.genes, x.inn = i.inn2 → x.src = i.newNode ∧ x.dst = i.outId ∧ x.recur = false) ∧
                 (∀ n ∈ g.nodes, n.id = i.newNode → n.kind = Kind.hidden))
instance (reg : Reg W) (g : Genome W) : Decidable (RegCompat reg g) := by unfold RegCompat Gene.link; infer_instance

/-- every innovation number and node id of `g` is at most the registry counters (numbers handed out later are fresh) -/
def CounterAbove (reg : Reg W) (g : Genome W) : Prop :=
  (∀ x ∈ g.genes, x.inn ≤ reg.nextInn) ∧ (∀ n ∈ g.nodes, n.id ≤ reg.nextNode)
instance (reg : Reg W) (g : Genome W) : Decidable (CounterAbove reg g) := by unfold CounterAbove; infer_instance

/-- the registry's own invariant: recorded numbers were handed out by the counters (so numbers handed out later are
    fresh), and the records do not contradict each other: a number recorded twice is recorded for the same thing,
    link numbers and node-split numbers are disjoint, and the two numbers of a node-split record differ -/
def RecBound (reg : Reg W) (i : Innov W) : Prop :=
  (i.typ = 2 → i.inn ≤ reg.nextInn) ∧
  (i.typ = 1 → i.inn ≤ reg.nextInn ∧ i.inn2 ≤ reg.nextInn ∧ i.newNode ≤ reg.nextNode)
instance (reg : Reg W) (i : Innov W) : Decidable (RecBound reg i) := by unfold RecBound; infer_instance

def RecPair22 (i j : Innov W) : Prop :=
  i.typ = 2 → j.typ = 2 → i.inn = j.inn → i.inId = j.inId ∧ i.outId = j.outId ∧ i.recur = j.recur
def RecPair21 (i j : Innov W) : Prop := i.typ = 2 → j.typ = 1 → i.inn ≠ j.inn ∧ i.inn ≠ j.inn2
def RecPair11 (i j : Innov W) : Prop :=
  i.typ = 1 → j.typ = 1 →
    (i.inn = j.inn → i.inId = j.inId ∧ i.newNode = j.newNode) ∧
    (i.inn2 = j.inn2 → i.newNode = j.newNode ∧ i.outId = j.outId) ∧ i.inn ≠ j.inn2
instance (i j : Innov W) : Decidable (RecPair22 i j) := by unfold RecPair22; infer_instance
instance (i j : Innov W) : Decidable (RecPair21 i j) := by unfold RecPair21; infer_instance
instance (i j : Innov W) : Decidable (RecPair11 i j) := by unfold RecPair11; infer_instance

def RecPairOk (i j : Innov W) : Prop := RecPair22 i j ∧ RecPair21 i j ∧ RecPair11 i j
instance (i j : Innov W) : Decidable (RecPairOk i j) := by unfold RecPairOk; infer_instance

def RegOk (reg : Reg W) : Prop :=
  (∀ i ∈ reg.records, RecBound reg i) ∧ (∀ i ∈ reg.records, ∀ j ∈ reg.records, RecPairOk i j)
instance (reg : Reg W) : Decidable (RegOk reg) := by unfold RegOk; infer_instance

/-- the first genes carry the same innovation number (holds in every population spawned from one genome) -/
def SharedHead (a b : Genome W) : Prop := a.genes.head?.map (·.inn) = b.genes.head?.map (·.inn)
instance (a b : Genome W) : Decidable (SharedHead a b) := by unfold SharedHead; infer_instance

/-- node kinds are the four `NodeNeuronType` codes (hidden 0, input 1, output 2, bias 3) -/
def KindsValid (g : Genome W) : Prop := ∀ n ∈ g.nodes, n.kind ≤ 3
instance (g : Genome W) : Decidable (KindsValid g) := by unfold KindsValid; infer_instance

/-- ids of the input/bias/output nodes, in node order -/
def ioIds (g : Genome W) : List Int := (g.nodes.filter (fun n => n.kind != Kind.hidden)).map (·.id)

/-- the node/trait part of `SameLineage` (its clauses 2–4): a node id has one role in both genomes, same trait ids,
    same input/bias/output ids.  This is all the well-formedness closure needs of a common ancestry; the gene clause
    of `SameLineage` (an innovation number denotes one link) is property C03. -/
def NodeLineage (a b : Genome W) : Prop :=
  (∀ n ∈ a.nodes, ∀ m ∈ b.nodes, n.id = m.id → n.kind = m.kind) ∧ traitIds a = traitIds b ∧ ioIds a = ioIds b
instance (a b : Genome W) : Decidable (NodeLineage a b) := by unfold NodeLineage; infer_instance

theorem nodeLineage_of_sameLineage {a b : Genome W} (h : SameLineage a b) : NodeLineage a b := ⟨h.2.1, h.2.2.1, h.2.2.2⟩

/-- every recorded innovation number exceeds the number of the genome's first gene (records are made of numbers
    handed out after the population was spawned) -/
def HeadBelowRecords (reg : Reg W) (g : Genome W) : Prop :=
  ∀ h ∈ g.genes.take 1, ∀ i ∈ reg.records, (i.typ = 2 → h.inn < i.inn) ∧ (i.typ = 1 → h.inn < i.inn ∧ h.inn < i.inn2)
instance (reg : Reg W) (g : Genome W) : Decidable (HeadBelowRecords reg g) := by unfold HeadBelowRecords; infer_instance

/-- `WF` plus the non-zero trait ids and valid kind codes: the well-formedness the closure theorems preserve -/
structure WFT (g : Genome W) : Prop where
  wf : WF g
  tnz : TraitIdsNonzero g
  kinds : KindsValid g
instance (g : Genome W) : Decidable (WFT g) :=
  if h : WF g ∧ TraitIdsNonzero g ∧ KindsValid g then isTrue ⟨h.1, h.2.1, h.2.2⟩ else isFalse (fun w => h ⟨w.1, w.2, w.3⟩)

/-- the registry side of the invariant of one genome -/
structure RegInv (reg : Reg W) (g : Genome W) : Prop where
  compat : RegCompat reg g
  above : CounterAbove reg g
  ok : RegOk reg
instance (reg : Reg W) (g : Genome W) : Decidable (RegInv reg g) :=
  if h : RegCompat reg g ∧ CounterAbove reg g ∧ RegOk reg then isTrue ⟨h.1, h.2.1, h.2.2⟩
  else isFalse (fun w => h ⟨w.1, w.2, w.3⟩)

end GoNeat.C01
