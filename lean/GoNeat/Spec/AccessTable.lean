/-
  C16: row types of the regenerated access table (`Gen/Access.lean`) and the static discipline check.
  CORE LEAN ONLY.
-/
namespace GoNeat.AccessTable

inductive AccKind where
  | rd | wr | atomic
deriving DecidableEq, Repr

/-- how an access to shared state is protected at its program point -/
inductive Prot where
  | plain
  | atomic
  | underMutex (held : List String)
deriving DecidableEq, Repr

/-- one access of a `Population` field / package-level variable / captured variable -/
structure Access where
  fn : String
  loc : String
  kind : AccKind
  prot : Prot
  pos : String
deriving DecidableEq, Repr

/-- one access of a field of any other object (writes whose receiver is not a provably fresh local, and reads
    of fields that are so written) -/
structure FieldAccess where
  fn : String
  label : String
  /-- the label without the extractor's decorations (`&x.f`, `x.f[]`): the field itself -/
  base : String
  kind : AccKind
  origin : String
  pos : String
deriving DecidableEq, Repr

/-- protection class of a shared location (mirrors `GoNeat.Par.LocClass`) -/
inductive SharedClass where
  | guarded (m : String)
  | readOnly
  | atomicOnly
deriving DecidableEq, Repr

def Access.holds (a : Access) (m : String) : Bool :=
  match a.prot with
  | .underMutex hs => hs.contains m
  | _ => false

/-- does access `a` follow protection class `c` (the class of its location)? -/
def rowOk (c : SharedClass) (a : Access) : Bool :=
  match c with
  | .guarded m => a.kind != .atomic && a.holds m
  | .readOnly => a.kind == .rd && a.prot != .atomic
  | .atomicOnly => a.kind == .atomic && a.prot == .atomic

/-- every access of every shared location follows the class of that location -/
def sharedDiscipline (classOf : String → SharedClass) (rows : List Access) : Bool :=
  rows.all (fun a => rowOk (classOf a.loc) a)

/-- the rows that break it (diagnostics) -/
def sharedViolations (classOf : String → SharedClass) (rows : List Access) : List Access :=
  rows.filter (fun a => !rowOk (classOf a.loc) a)

/-- who owns the object a field access goes to -/
inductive Own where
  /-- allocated by this goroutine in this call tree and not yet published (baby genome / organism / gene / node / trait,
      phenotype network, encoder buffers) -/
  | fresh
  /-- bookkeeping state of the species this goroutine reproduces; no other goroutine touches it -/
  | speciesOwned
  /-- object of the parent generation (possibly of ANOTHER species): read only -/
  | parentRO
deriving DecidableEq, Repr

/-- an entry of the committed expectations table: in function `fn`, accesses of kind `kind` to `label` go to objects of class `own` -/
structure Expect where
  fn : String
  label : String
  kind : AccKind
  own : Own
deriving DecidableEq, Repr

def lookupExpect (tbl : List Expect) (a : FieldAccess) : Option Own :=
  (tbl.find? (fun e => e.fn == a.fn && e.label == a.label && e.kind == a.kind)).map (·.own)

/-- fields that have a `speciesOwned` write -/
def ownedBases (tbl : List Expect) (writes : List FieldAccess) : List String :=
  ((writes.filter (fun w => lookupExpect tbl w == some .speciesOwned)).map (·.base)).eraseDups

/-- ownership discipline of the field accesses:
    * every write (or atomic) row is covered by the table and goes to a `fresh` or `speciesOwned` object, never to
      the parent generation;
    * a READ without table entry counts as a read of the parent generation (`parentRO`, the weakest class);
    * a field that has a `speciesOwned` write has no `parentRO` read anywhere (another goroutine could be that
      reader): every read of it must be listed as `speciesOwned` or `fresh` -/
def fieldDiscipline (tbl : List Expect) (writes reads : List FieldAccess) : Bool :=
  writes.all (fun w =>
    match lookupExpect tbl w with
    | none => false
    | some own => own != .parentRO) &&
  (let owned := ownedBases tbl writes
   reads.all (fun r => !owned.contains r.base ||
     (match lookupExpect tbl r with
      | some own => own != .parentRO
      | none => false)))

/-- the rows the table does not cover (diagnostics for the replay file) -/
def uncovered (tbl : List Expect) (writes reads : List FieldAccess) : List FieldAccess :=
  writes.filter (fun a => (lookupExpect tbl a).isNone) ++
  (let owned := ownedBases tbl writes
   reads.filter (fun r => owned.contains r.base && (lookupExpect tbl r).isNone))

/-- the whole static obligation -/
def disciplined (classOf : String → SharedClass) (tbl : List Expect) (externOk : List String)
    (accesses : List Access) (writes reads : List FieldAccess) (externalCalls unrecognised : List String) : Bool :=
  unrecognised.isEmpty &&
  sharedDiscipline classOf accesses &&
  fieldDiscipline tbl writes reads &&
  externalCalls.all externOk.contains

end GoNeat.AccessTable
