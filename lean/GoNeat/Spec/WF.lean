/-
  Well-formedness of genomes (property C01) as a decidable predicate.  The same predicate is used
  by the theorems (as `Prop`) and evaluated by the driver on every genome the implementation
  produced (via `decide`).
-/
import GoNeat.Model.Genome

namespace GoNeat
variable {W : Type}

def Gene.link (g : Gene W) : Int × Int × Bool := (g.src, g.dst, g.recur)

/-- genes strictly ascending by innovation number -/
def GenesSorted (genes : List (Gene W)) : Prop := genes.Pairwise (fun a b => a.inn < b.inn)
/-- no two genes join the same ordered node pair with the same recurrence flag -/
def LinksDistinct (genes : List (Gene W)) : Prop := genes.Pairwise (fun a b => a.link ≠ b.link)
/-- nodes strictly ascending by id -/
def NodesSorted (nodes : List Node) : Prop := nodes.Pairwise (fun a b => a.id < b.id)

def nodeIds (g : Genome W) : List Int := g.nodes.map (·.id)
def traitIds (g : Genome W) : List Int := g.traits.map (·.id)

/-- every gene endpoint is a node of the genome -/
def EndpointsOwned (g : Genome W) : Prop := ∀ x ∈ g.genes, x.src ∈ nodeIds g ∧ x.dst ∈ nodeIds g
/-- a trait reference is nil or the id of one of the genome's traits, and never 0 (TraitWithId quirk) -/
def TraitRefOk (g : Genome W) (t : Option Int) : Prop :=
  match t with
  | none => True
  | some id => id ≠ 0 ∧ id ∈ traitIds g
instance (g : Genome W) (t : Option Int) : Decidable (TraitRefOk g t) := by
  unfold TraitRefOk; cases t <;> infer_instance
def TraitRefsOwned (g : Genome W) : Prop :=
  (∀ x ∈ g.genes, TraitRefOk g x.trait) ∧ (∀ n ∈ g.nodes, TraitRefOk g n.trait)
/-- no connection ends in an input or bias node -/
def NoSensorTarget (g : Genome W) : Prop :=
  ∀ x ∈ g.genes, ∀ n ∈ g.nodes, n.id = x.dst → n.isSensor = false
/-- trait ids are consecutive (as in every shipped genome) and there is at least one trait -/
def TraitsConsecutive (g : Genome W) : Prop :=
  match g.traits with
  | [] => False
  | t :: _ => traitIds g = (List.range g.traits.length).map (fun i => t.id + Int.ofNat i)
instance (g : Genome W) : Decidable (TraitsConsecutive g) := by
  unfold TraitsConsecutive; split <;> infer_instance
def HasOutput (g : Genome W) : Prop := ∃ n ∈ g.nodes, n.kind = Kind.output

/-- C01 well-formedness of a non-modular genome -/
structure WF (g : Genome W) : Prop where
  genesSorted : GenesSorted g.genes
  linksDistinct : LinksDistinct g.genes
  nodesSorted : NodesSorted g.nodes
  endpoints : EndpointsOwned g
  traitRefs : TraitRefsOwned g
  noSensorTarget : NoSensorTarget g
  hasGene : g.genes ≠ []
  hasOutput : HasOutput g
  traits : TraitsConsecutive g

instance (g : Genome W) : Decidable (GenesSorted g.genes) := by unfold GenesSorted; infer_instance
instance (g : Genome W) : Decidable (LinksDistinct g.genes) := by unfold LinksDistinct Gene.link; infer_instance
instance (g : Genome W) : Decidable (NodesSorted g.nodes) := by unfold NodesSorted; infer_instance
instance (g : Genome W) : Decidable (EndpointsOwned g) := by unfold EndpointsOwned; infer_instance
instance (g : Genome W) : Decidable (TraitRefsOwned g) := by unfold TraitRefsOwned; infer_instance
instance (g : Genome W) : Decidable (NoSensorTarget g) := by unfold NoSensorTarget; infer_instance
instance (g : Genome W) : Decidable (HasOutput g) := by unfold HasOutput; infer_instance

instance (g : Genome W) : Decidable (WF g) :=
  if h : GenesSorted g.genes ∧ LinksDistinct g.genes ∧ NodesSorted g.nodes ∧ EndpointsOwned g ∧ TraitRefsOwned g ∧
         NoSensorTarget g ∧ g.genes ≠ [] ∧ HasOutput g ∧ TraitsConsecutive g
  then isTrue ⟨h.1, h.2.1, h.2.2.1, h.2.2.2.1, h.2.2.2.2.1, h.2.2.2.2.2.1, h.2.2.2.2.2.2.1, h.2.2.2.2.2.2.2.1, h.2.2.2.2.2.2.2.2⟩
  else isFalse (fun w => h ⟨w.1, w.2, w.3, w.4, w.5, w.6, w.7, w.8, w.9⟩)

/-- names the first failing clause (for replay files) -/
def wfWhy (g : Genome W) : String :=
  if ¬ GenesSorted g.genes then "genes-not-strictly-ascending"
  else if ¬ LinksDistinct g.genes then "duplicate-link"
  else if ¬ NodesSorted g.nodes then "nodes-not-strictly-ascending"
  else if ¬ EndpointsOwned g then "gene-endpoint-not-a-genome-node"
  else if ¬ TraitRefsOwned g then "trait-ref-not-a-genome-trait"
  else if ¬ NoSensorTarget g then "link-into-sensor"
  else if g.genes = [] then "no-genes"
  else if ¬ HasOutput g then "no-output"
  else if ¬ TraitsConsecutive g then "traits-not-consecutive"
  else ""

/-- every input/bias/output node of `a` is a node of `b` with the same kind -/
def Retains (a b : Genome W) : Prop :=
  ∀ n ∈ a.nodes, n.kind ≠ Kind.hidden → ∃ m ∈ b.nodes, m.id = n.id ∧ m.kind = n.kind
instance (a b : Genome W) : Decidable (Retains a b) := by unfold Retains; infer_instance

/-- common ancestry of two genomes (the quantifier of C04): an innovation number denotes the same link in both,
    a node id the same role, and the trait lists carry the same ids -/
def SameLineage (a b : Genome W) : Prop :=
  (∀ x ∈ a.genes, ∀ y ∈ b.genes, x.inn = y.inn → x.link = y.link) ∧
  (∀ n ∈ a.nodes, ∀ m ∈ b.nodes, n.id = m.id → n.kind = m.kind) ∧
  traitIds a = traitIds b ∧
  (a.nodes.filter (fun n => n.kind != Kind.hidden)).map (·.id) = (b.nodes.filter (fun n => n.kind != Kind.hidden)).map (·.id)
instance (a b : Genome W) : Decidable (SameLineage a b) := by unfold SameLineage Gene.link; infer_instance

/-- genetic equality apart from the genome id -/
def Genome.sameGenetics (a b : Genome W) : Prop :=
  a.traits = b.traits ∧ a.nodes = b.nodes ∧ a.genes = b.genes ∧ a.modules = b.modules

end GoNeat
