/-
  Executable specification of property C03 (an innovation number denotes one connection for the life of a
  population) - decidable predicates, core Lean only.  Evaluated by the driver on what the *implementation*
  produced (Driver/Innov.lean) and used as `Prop`s by the theorems of Props/C03.lean.

  Everything is stated over *bindings*: a gene binds its innovation number to a link `(src, dst, recur)`,
  a node binds its id to a role.  A "pool" is any collection of genomes - in the theorems the whole history of
  a population (every genome that ever lived), in the driver the accumulated dump of a long run.

  Counter conventions of the Go code (neat/genetics/population.go), as modelled by `Reg` in Model/Mutate.lean:
    * `Population.nextInnovNum` (= `Reg.nextInn`) holds the LAST number in use: `NextInnovationNumber` is
      `atomic.AddInt64(&p.nextInnovNum, 1)`, i.e. pre-increment, the number issued is `nextInn + 1`.
    * `Population.nextNodeId` (= `Reg.nextNode`) likewise: `NextNodeId` issues `nextNode + 1`.
    * `NewPopulation`/`spawn`:  nextNodeId   := g.getLastNodeId() + 1      (one id is skipped)
                                nextInnovNum := g.getNextGeneInnovNum() - 1 = inn of the LAST gene
    * `ReadPopulation`, per genome read:  if nextNodeId < last  then nextNodeId := last + 1
                                          if nextInnovNum < lastInn + 1 then nextInnovNum := lastInn + 1
    * `NewPopulationRandom(in,out,maxHidden)`:  nextNodeId := in+out+maxHidden+1,
                                                nextInnovNum := (in+out+maxHidden)^2 + 1
  Hence "every number held is below the next number issued" reads `x.inn ≤ reg.nextInn`, `n.id ≤ reg.nextNode`.
-/
import GoNeat.Model.Mutate

namespace GoNeat.C03
open GoNeat
variable {W : Type}

/-- what a gene binds: innovation number ↦ (source id, target id, recurrence flag) -/
abbrev Bind := Int × Int × Int × Bool
/-- what a node binds: id ↦ role -/
abbrev Role := Int × Kind

def geneBind (x : Gene W) : Bind := (x.inn, x.src, x.dst, x.recur)
def nodeRole (n : Node) : Role := (n.id, n.kind)

/-- all gene bindings of a collection of genomes -/
def binds (gs : List (Genome W)) : List Bind := gs.flatMap (fun g => g.genes.map geneBind)
/-- all node bindings of a collection of genomes -/
def roles (gs : List (Genome W)) : List Role := gs.flatMap (fun g => g.nodes.map nodeRole)

/-! ### the two halves of "denotes one connection / one role" -/

/-- no innovation number is bound to two different links -/
def ConsistentB (B : List Bind) : Prop := ∀ a ∈ B, ∀ b ∈ B, a.1 = b.1 → a = b
/-- no node id is bound to two different roles -/
def ConsistentR (R : List Role) : Prop := ∀ a ∈ R, ∀ b ∈ R, a.1 = b.1 → a.2 = b.2

instance (B : List Bind) : Decidable (ConsistentB B) := by unfold ConsistentB; infer_instance
instance (R : List Role) : Decidable (ConsistentR R) := by unfold ConsistentR; infer_instance

/-- any two genes anywhere in the pool with equal innovation number join the same nodes with the same flag -/
def ConsistentGenes (gs : List (Genome W)) : Prop := ConsistentB (binds gs)
/-- any two nodes anywhere in the pool with equal id have the same role -/
def ConsistentRoles (gs : List (Genome W)) : Prop := ConsistentR (roles gs)

instance (gs : List (Genome W)) : Decidable (ConsistentGenes gs) := by unfold ConsistentGenes; infer_instance
instance (gs : List (Genome W)) : Decidable (ConsistentRoles gs) := by unfold ConsistentRoles; infer_instance

/-! ### the registry against the pool -/

/-- the lookup predicates of the three structural mutators -/
def linkMatch (s d : Int) (r : Bool) (i : Innov W) : Bool := i.typ == 2 && i.inId == s && i.outId == d && i.recur == r
def nodeMatch (s d oldInn : Int) (i : Innov W) : Bool := i.typ == 1 && i.inId == s && i.outId == d && i.oldInn == oldInn

/-- innovation numbers a record has issued (a new-node record issues two) -/
def recInns (i : Innov W) : List Int := if i.typ = 1 then [i.inn, i.inn2] else [i.inn]
def regInns (reg : Reg W) : List Int := reg.records.flatMap recInns
/-- node ids issued by the new-node records -/
def regNodes (reg : Reg W) : List Int := (reg.records.filter (fun i => i.typ == 1)).map (·.newNode)

/-- one record denotes its link(s)/node in the pool:
    * new-link record: a pool gene carrying the recorded number joins exactly the recorded endpoints with the recorded flag;
    * new-node record `(in,out,oldInn) ↦ (newNode, inn, inn2)`: the split gene `oldInn : in→out` is in the pool;
      a pool gene numbered `inn` is `in→newNode` with the split gene's flag, one numbered `inn2` is `newNode→out`,
      non-recurrent; a pool node with the recorded id is hidden. -/
def RecOk (B : List Bind) (R : List Role) (i : Innov W) : Prop :=
  if i.typ = 2 then ∀ b ∈ B, b.1 = i.inn → b = (i.inn, i.inId, i.outId, i.recur)
  else if i.typ = 1 then
    (∃ y ∈ B, y.1 = i.oldInn ∧ y.2.1 = i.inId ∧ y.2.2.1 = i.outId ∧
       ∀ b ∈ B, b.1 = i.inn → b = (i.inn, i.inId, i.newNode, y.2.2.2)) ∧
    (∀ b ∈ B, b.1 = i.inn2 → b = (i.inn2, i.newNode, i.outId, false)) ∧
    (∀ p ∈ R, p.1 = i.newNode → p.2 = Kind.hidden)
  else True

instance (B : List Bind) (R : List Role) (i : Innov W) : Decidable (RecOk B R i) := by
  unfold RecOk; split
  · infer_instance
  · split <;> infer_instance

/-- every record denotes what it recorded, and no two records issued the same number / node id -/
structure RegCompatB (reg : Reg W) (B : List Bind) (R : List Role) : Prop where
  recs : ∀ i ∈ reg.records, RecOk B R i
  innsNodup : (regInns reg).Nodup
  nodesNodup : (regNodes reg).Nodup

/-- everything held - by the pool and by the records - is at most the counters (i.e. below the next number issued) -/
structure CounterAboveB (reg : Reg W) (B : List Bind) (R : List Role) : Prop where
  inns : ∀ b ∈ B, b.1 ≤ reg.nextInn
  ids : ∀ p ∈ R, p.1 ≤ reg.nextNode
  recInns : ∀ k ∈ regInns reg, k ≤ reg.nextInn
  recNodes : ∀ k ∈ regNodes reg, k ≤ reg.nextNode

instance (reg : Reg W) (B : List Bind) (R : List Role) : Decidable (RegCompatB reg B R) :=
  if h : (∀ i ∈ reg.records, RecOk B R i) ∧ (regInns reg).Nodup ∧ (regNodes reg).Nodup
  then isTrue ⟨h.1, h.2.1, h.2.2⟩ else isFalse (fun w => h ⟨w.1, w.2, w.3⟩)

instance (reg : Reg W) (B : List Bind) (R : List Role) : Decidable (CounterAboveB reg B R) :=
  if h : (∀ b ∈ B, b.1 ≤ reg.nextInn) ∧ (∀ p ∈ R, p.1 ≤ reg.nextNode) ∧ (∀ k ∈ regInns reg, k ≤ reg.nextInn) ∧
         (∀ k ∈ regNodes reg, k ≤ reg.nextNode)
  then isTrue ⟨h.1, h.2.1, h.2.2.1, h.2.2.2⟩ else isFalse (fun w => h ⟨w.1, w.2, w.3, w.4⟩)

def RegCompat (reg : Reg W) (gs : List (Genome W)) : Prop := RegCompatB reg (binds gs) (roles gs)
def CounterAbove (reg : Reg W) (gs : List (Genome W)) : Prop := CounterAboveB reg (binds gs) (roles gs)
instance (reg : Reg W) (gs : List (Genome W)) : Decidable (RegCompat reg gs) := by unfold RegCompat; infer_instance
instance (reg : Reg W) (gs : List (Genome W)) : Decidable (CounterAbove reg gs) := by unfold CounterAbove; infer_instance

/-- the invariant of C03 over bindings -/
structure InvB (reg : Reg W) (B : List Bind) (R : List Role) : Prop where
  genes : ConsistentB B
  roles : ConsistentR R
  compat : RegCompatB reg B R
  above : CounterAboveB reg B R

instance (reg : Reg W) (B : List Bind) (R : List Role) : Decidable (InvB reg B R) :=
  if h : ConsistentB B ∧ ConsistentR R ∧ RegCompatB reg B R ∧ CounterAboveB reg B R
  then isTrue ⟨h.1, h.2.1, h.2.2.1, h.2.2.2⟩ else isFalse (fun w => h ⟨w.1, w.2, w.3, w.4⟩)

/-- **the invariant of C03**: `ConsistentGenes ∧ ConsistentRoles ∧ RegCompat ∧ CounterAbove` for a registry and a pool -/
def Inv (reg : Reg W) (gs : List (Genome W)) : Prop := InvB reg (binds gs) (roles gs)
instance (reg : Reg W) (gs : List (Genome W)) : Decidable (Inv reg gs) := by unfold Inv; infer_instance

/-! ### the resolve step of the structural mutators (choose → **resolve** → apply) -/

variable [Scalar W]

/-- resolving a new-link request `(s,d,r)` against the registry: the number of the first matching record, else a
    fresh number that is recorded (`w`, `traitNum`: the weight/trait drawn for a novel link) -/
def resolveLink (reg : Reg W) (s d : Int) (r : Bool) (w : W) (traitNum : Int) : Int × Reg W :=
  match reg.records.find? (linkMatch s d r) with
  | some i => (i.inn, reg)
  | none =>
    let (k, reg1) := reg.nextInnovation
    (k, reg1.store { typ := 2, inId := s, outId := d, inn := k, inn2 := 0, w := w, traitNum := traitNum, newNode := 0,
                     oldInn := 0, recur := r })

/-- resolving a split request "gene `oldInn : s→d`": `(newNode, inn1, inn2)` of the first matching record, else a fresh
    node id and two fresh numbers, recorded -/
def resolveNode (reg : Reg W) (s d oldInn : Int) : (Int × Int × Int) × Reg W :=
  match reg.records.find? (nodeMatch s d oldInn) with
  | some i => ((i.newNode, i.inn, i.inn2), reg)
  | none =>
    let (n, reg1) := reg.nextNodeId
    let (k1, reg2) := reg1.nextInnovation
    let (k2, reg3) := reg2.nextInnovation
    ((n, k1, k2), reg3.store { typ := 1, inId := s, outId := d, inn := k1, inn2 := k2, w := Scalar.zero, traitNum := 0,
                               newNode := n, oldInn := oldInn, recur := false })

/-! ### counter initialisations other than `spawn` (population.go / population_io.go) -/

/-- `ReadPopulation`: the two counter updates made after each genome read (`lastNode` = getLastNodeId,
    `nextGeneInn` = getNextGeneInnovNum of that genome) -/
def readStep (c : Int × Int) (lastNode nextGeneInn : Int) : Int × Int :=
  (if c.1 < lastNode then lastNode + 1 else c.1, if c.2 < nextGeneInn then nextGeneInn else c.2)

/-- `ReadPopulation` counters `(nextNodeId, nextInnovNum)` for genomes read in order; a genome without
    nodes/genes makes the real reader fail, modelled by skipping nothing: callers guard with `ReadOk` -/
def readCounters : List (Genome W) → Int × Int → Int × Int
  | [], c => c
  | g :: gs, c =>
    match g.lastNodeId, g.nextGeneInnov with
    | .ok ln, .ok ni => readCounters gs (readStep c ln ni)
    | _, _ => readCounters gs c

/-- `NewPopulationRandom(in, out, maxHidden)` counters `(nextNodeId, nextInnovNum)` -/
def randomCounters (nIn nOut maxHidden : Int) : Int × Int :=
  (nIn + nOut + maxHidden + 1, (nIn + nOut + maxHidden) * (nIn + nOut + maxHidden) + 1)

/-- what `newGenomeRand(_, in, out, n, maxHidden, …)` guarantees about the numbers it uses: innovation number of the
    gene `row→col` is `(col-1)*total + (row-1) < total²`, node ids are `1..total` -/
def RandShape (nIn nOut maxHidden : Int) (g : Genome W) : Prop :=
  (∀ x ∈ g.genes, x.inn < (nIn + nOut + maxHidden) * (nIn + nOut + maxHidden)) ∧
  (∀ n ∈ g.nodes, n.id ≤ nIn + nOut + maxHidden)
instance (a b c : Int) (g : Genome W) : Decidable (RandShape a b c g) := by unfold RandShape; infer_instance

/-- genes ascending by innovation number and nodes ascending by id, not necessarily strictly (what the counter
    initialisations of `spawn` and `ReadPopulation` rely on: they look at the LAST gene / node only) -/
def Ascending (g : Genome W) : Prop :=
  g.genes.Pairwise (fun a b => a.inn ≤ b.inn) ∧ g.nodes.Pairwise (fun a b => a.id ≤ b.id)
instance (g : Genome W) : Decidable (Ascending g) := by unfold Ascending; infer_instance

end GoNeat.C03
