/-
  Executable specification of the time / duration aggregates and sort orders of the result records (C19 / C20),
  evaluated by the driver on what the IMPLEMENTATION answered; independent of the model's loops and of the sort routine.
  Returns "" when every clause holds and the first violated clause otherwise.
-/
import GoNeat.Model.ExperimentTime
import GoNeat.Spec.GenStats

namespace GoNeat.ExpTimeSpec
open GoNeat GoNeat.ExpTime GoNeat.GenStatsSpec

/-- `r` is the latest of the instants, not before the zero time -/
def latestWhy (what : String) (ts : List Int) (r : Int) : String :=
  if ts.any (fun x => decide (r < x)) then what ++ ": a recorded instant is later than the answer"
  else if r < zeroTime then what ++ ": the answer is before the zero time"
  else if r != zeroTime && !ts.contains r then what ++ ": the answer is no recorded instant"
  else ""

/-- `a` is the mean of the durations truncated towards zero (`EmptyDuration` for none) -/
def avgWhy (what : String) (ds : List Int) (a : Int) : String :=
  if ds.isEmpty then (if a == emptyDuration then "" else what ++ ": EmptyDuration expected for no records")
  else
    let n : Int := ds.length
    let tot := ds.foldl (· + ·) 0
    let r := tot - n * a
    -- truncation towards zero: the remainder has the total's sign and is smaller than n
    if (tot ≥ 0 && r ≥ 0 && r < n) || (tot < 0 && r ≤ 0 && -r < n) then "" else what ++ ": not the truncated mean of the durations"

/-- `order` (positions before sorting, in the order afterwards) is chronological: a permutation along which instants never
    decrease and equal instants are ordered by id -/
def orderWhy (what : String) (keys : List (Int × Int)) (order : List Nat) : String :=
  if !permBy (· == ·) (List.range keys.length) order then what ++ ": the sorted list is not a permutation of the records"
  else
    let ks := order.filterMap (keys[·]?)
    let rec ok : List (Int × Int) → Bool
      | a :: b :: rest => (a.1 < b.1 || (a.1 == b.1 && a.2 ≤ b.2)) && ok (b :: rest)
      | _ => true
    if ok ks then "" else what ++ ": not ordered by instant, ties by id"

end GoNeat.ExpTimeSpec
