/-
  Executable specification of the champion queries (property C10: "the species' fittest organism" as the library's
  own queries name it), evaluated by the driver on what the IMPLEMENTATION answered.  Independent of the model's loop
  and of the sort routine.  Positions refer to the species' member list BEFORE the sorting query.
  Each function returns "" when every clause holds and the first violated clause otherwise.
-/
import GoNeat.Model.Champion
import GoNeat.Spec.GenStats

namespace GoNeat.ChampionSpec
open GoNeat Scalar Champion GoNeat.GenStatsSpec
variable {W : Type} [Scalar W]

/-- `FindChampion` answered the member at position `ans` (`none` = nil) -/
def publicWhy (orgs : List (Org W)) (ans : Option Nat) : String :=
  match ans with
  | none => if orgs.any (fun x => lt (minusOne : W) x.fitness) then "FindChampion answers nil although a member's fitness exceeds -1" else ""
  | some k =>
    match orgs[k]? with
    | none => "FindChampion answers an organism that is no member"
    | some y =>
      -- which of several equally fit members is named, and what is answered below the start value -1.0, is the
      -- model's business (correspondence), not the property's
      if orgs.any (fun x => lt y.fitness x.fitness) then "FindChampion answers a member that another member exceeds in fitness"
      else ""

/-- `findChampion`: `err` = the panic class, `ans` = position (before) of the answer, `first` = it is `Organisms[0]`
    afterwards, `order` = positions before the call in the order after it -/
def sortWhy (orgs : List (Org W)) (err : Option String) (ans : Option Nat) (first : Bool) (order : List Nat) : String :=
  match err with
  | some e => if orgs.isEmpty && e == "panic:index" then "" else "findChampion fails (" ++ e ++ ") on a species with members"
  | none =>
    if orgs.isEmpty then "findChampion returns on an empty species"
    else if !permBy (· == ·) (List.range orgs.length) order then "findChampion: the member list afterwards is not a permutation of the one before"
    else
      match ans.bind (orgs[·]?) with
      | none => "findChampion answers no member"
      | some top =>
        if !first then "findChampion's answer is not the first member afterwards"
        else if orgs.any (fun x => lt top.fitness x.fitness || orgLess top x) then "findChampion answers a member that another member exceeds"
        else ""

def damagedWhy (orgs : List (Org W)) (ans : List Bool) : String :=
  if ans == orgs.map (fun o => o.isPopChampionChild && lt o.fitness o.highestFitness) then ""
  else "CheckChampionChildDamaged differs from (child of the population champion and fitness below its highest)"

/-- members pairwise different in fitness and all above -1: both queries must name the same member (C10's quantifier) -/
def agreeWhy (orgs : List (Org W)) (pub srt : Option Nat) : String :=
  let distinct := (List.range orgs.length).all fun i => (List.range orgs.length).all fun j =>
    i == j || match orgs[i]?, orgs[j]? with
      | some a, some b => lt a.fitness b.fitness || lt b.fitness a.fitness
      | _, _ => true
  if distinct && orgs.all (fun x => lt (minusOne : W) x.fitness) && !orgs.isEmpty && pub != srt then
    "FindChampion and findChampion name different members of a species with pairwise different fitness values"
  else ""

end GoNeat.ChampionSpec
