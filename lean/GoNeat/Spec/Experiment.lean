/-
  Executable specification of the trial/generation protocol (property C20).

  The predicate `Protocol.check` is written against the *script* (what the environment does) and the observed
  output (event sequence, recorded trials, returned error) - it never runs the model.  It is evaluated by the
  driver on the IMPLEMENTATION's output, and `Props/C20.lean` proves that the model's output satisfies it for
  every script.  Core Lean only.
-/
import GoNeat.Model.Experiment

namespace GoNeat.Experiment

def solvedAt (s : Script) (t g : Nat) : Bool := s.evalRes t g == .solved

/-- number of generations still to evaluate from generation `g` on with `fuel = maxGen - g` left:
    up to and including the first solved one -/
def lenFrom (s : Script) (t : Nat) : Nat → Nat → Nat
  | 0, _ => 0
  | fuel + 1, g => if solvedAt s t g then 1 else 1 + lenFrom s t fuel (g + 1)

/-- number of generations of trial `t` when it runs to completion: index of the first solved generation + 1,
    or `maxGen` when none is solved (see `C20.trialLen_spec`) -/
def trialLen (s : Script) (t : Nat) : Nat := lenFrom s t s.maxGen 0

/-- generation `g` of trial `t`: evaluated on the trial's own population after exactly `g` turnovers; turned over
    unless solved; then notified -/
def genEvents (s : Script) (t g : Nat) : List Event :=
  .eval t g t g :: ((if solvedAt s t g then [] else [.epoch t g]) ++ obs s (.evaluated t g))

/-- generations `g, g+1, ..., g+n-1` -/
def gensEvents (s : Script) (t g n : Nat) : List Event := (List.range' g n).flatMap (genEvents s t)

/-- a completed trial: Started · (Eval g · Epoch? g · Evaluated g)_{g < trialLen} · Finished -/
def trialEvents (s : Script) (t : Nat) : List Event :=
  obs s (.started t) ++ (gensEvents s t 0 (trialLen s t) ++ obs s (.finished t))

def genRec (s : Script) (t g : Nat) : GenRec := ⟨g, t, solvedAt s t g⟩

/-- what a completed trial records -/
def expectedTrial (s : Script) (t : Nat) : TrialRec := ⟨t, (List.range' 0 (trialLen s t)).map (genRec s t)⟩

/-- trials `t, ..., t+k-1` completed -/
def trialsEvents (s : Script) (t k : Nat) : List Event := (List.range' t k).flatMap (trialEvents s)

/-- the callback behind this event cancels the context -/
def cancelsAt (s : Script) : Event → Bool
  | .started t => s.startedCancels t
  | .eval t g _ _ => s.evalCancels t g
  | .epoch _ _ => false
  | .evaluated t g => s.evaluatedCancels t g
  | .finished t => s.finishedCancels t

/-- context state after the callbacks in `evs`, having been `c` before -/
def flagAfter (s : Script) (c : Bool) (evs : List Event) : Bool := c || evs.any (cancelsAt s)

def isEval : Event → Bool
  | .eval .. => true
  | _ => false

/-- no evaluator call happens once the context is cancelled (`c` = cancelled before the first event) -/
def noEvalAfterCancel (s : Script) : List Event → Bool → Bool
  | [], _ => true
  | e :: es, c => (!(isEval e && c)) && noEvalAfterCancel s es (c || cancelsAt s e)

/-- events of the trial that was aborted in generation `m` (generations before `m` complete);
    `called` = the evaluator was still called for generation `m` -/
def abortEvents (s : Script) (t m : Nat) (called : Bool) : List Event :=
  obs s (.started t) ++ (gensEvents s t 0 m ++ (if called then [.eval t m t m] else []))

/-- the events after the last completed trial and the returned error fit together and fit the script -/
def abortOk (s : Script) (k : Nat) (all tail : List Event) : Err → Bool
  | .noOptions => !s.hasOptions && k == 0 && tail == []
  | .spawnFailed => decide (k < s.runs) && !s.spawnOk k && tail == []
  | .badExecutor => decide (k < s.runs) && !s.execOk && tail == []
  | .evalFailed t g =>
      -- the evaluator's own error for the generation that was being evaluated; nothing follows that call
      decide (k < s.runs) && t == k && decide (g < trialLen s k) && s.evalRes k g == .fail && tail == abortEvents s k g true
  | .epochFailed =>
      decide (k < s.runs) && (List.range (trialLen s k)).any fun m =>
        s.evalRes k m == .unsolved && s.epochFails k m && tail == abortEvents s k m true
  | .cancelled =>
      -- the context really is cancelled, and the run stopped where generation m would have been next
      -- (at the loop head, or inside the turnover that follows an unsolved evaluation)
      decide (k < s.runs) && flagAfter s s.preCancelled all && (List.range (trialLen s k)).any fun m =>
        tail == abortEvents s k m false || (s.evalRes k m == .unsolved && tail == abortEvents s k m true)

/-- completed trials contain no evaluation that failed and no turnover that failed (errors are not swallowed) -/
def noSwallowedError (s : Script) (t : Nat) : Bool :=
  (List.range (trialLen s t)).all fun g => s.evalRes t g != .fail && (solvedAt s t g || !s.epochFails t g)

namespace Protocol

/-- the specification predicate of C20 -/
def check (s : Script) (evs : List Event) (res : Result) : Bool :=
  let k := res.trials.length
  -- one record per completed trial, in order, generations 0.. up to the first solved one / maxGen
  res.trials == (List.range' 0 k).map (expectedTrial s) &&
  (List.range k).all (noSwallowedError s) &&
  noEvalAfterCancel s evs s.preCancelled &&
  (s.hasOptions || res.err == some .noOptions) &&
  match res.err with
  | none => k == s.runs && evs == trialsEvents s 0 k
  | some e =>
    -- the completed trials' events, then the aborted part
    evs.take (trialsEvents s 0 k).length == trialsEvents s 0 k &&
    abortOk s k evs (evs.drop (trialsEvents s 0 k).length) e

/-- first clause that fails, for the verdict's `detail` -/
def why (s : Script) (evs : List Event) (res : Result) : String :=
  let k := res.trials.length
  if !(res.trials == (List.range' 0 k).map (expectedTrial s)) then "recorded trials differ from one record per completed trial in order"
  else if !((List.range k).all (noSwallowedError s)) then "a completed trial contains a failed evaluation/turnover"
  else if !(noEvalAfterCancel s evs s.preCancelled) then "evaluator called after the context was cancelled"
  else if !(s.hasOptions || res.err == some .noOptions) then "missing options not reported"
  else match res.err with
    | none => if k != s.runs then "nil error but not all trials completed" else "event sequence of the completed trials is not Started (Eval Epoch? Evaluated)* Finished"
    | some _ =>
      if !(evs.take (trialsEvents s 0 k).length == trialsEvents s 0 k) then "event sequence of the completed trials is not Started (Eval Epoch? Evaluated)* Finished"
      else "aborted part / returned error do not fit the script"

end Protocol

end GoNeat.Experiment
