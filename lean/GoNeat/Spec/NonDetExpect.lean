/-
  C17: the committed, justified allow-list for the regenerated table of nondeterminism sources
  (`Gen/NonDet.lean`).  HAND-WRITTEN.  Anything the extractor finds that is not listed here falsifies the obligation.
  CORE LEAN ONLY.
-/
import GoNeat.Spec.NonDetTable

namespace GoNeat.NonDetExpect
open GoNeat.NonDetTable

/-- Allowed occurrences.

    `selectCtxPoll` in `Species.reproduce` (species.go, head of the offspring loop) and in `Population.speciate`
    (population.go, head of the per-organism loop): the statement is exactly
        select { case <-ctx.Done(): return …, ctx.Err(); default: }
    i.e. a non-blocking poll of the cancellation signal of the `context.Context` the CALLER passed in.  The context
    is an input of `NextEpoch`: with a context that is never cancelled (the situation the property speaks about:
    identical inputs) `Done()` never becomes ready and the `default` branch is taken on every evaluation, so no
    scheduling decision is involved; if the caller cancels, the epoch returns the context's error instead of a
    population — it never produces a *different* population.  No other `select`, no channel operation, no `go`
    statement, no map iteration, no `time`/`runtime`/`os` introspection, no private random source and no pointer
    formatting is tolerated anywhere in the sequential path. -/
def allowed : List Allowed := [
  ⟨"(*genetics.Species).reproduce", .selectCtxPoll⟩,
  ⟨"(*genetics.Population).speciate", .selectCtxPoll⟩
]

end GoNeat.NonDetExpect
