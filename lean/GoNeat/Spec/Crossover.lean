/-
  Executable specification of property C04 (crossover children inherit genes only as NEAT's alignment
  rules allow).  `check` returns `none` when every clause holds and `some clause` naming the first failing
  clause otherwise.  It is evaluated by the driver on the children the *implementation* produced.
  `weq` is the equality test on scalars (bit equality for float64 in the driver).
-/
import GoNeat.Model.Mate
import GoNeat.Spec.WF

namespace GoNeat.CrossoverSpec
open GoNeat Scalar
variable {W : Type} [Scalar W]

inductive Method where
  | multipoint | multipointAvg | singlePoint
deriving DecidableEq, Repr

def carriers (p1 p2 : Genome W) (inn : Int) : List (Gene W) :=
  (p1.genes.filter (·.inn == inn)) ++ (p2.genes.filter (·.inn == inn))

def listEqBy {α} (eq : α → α → Bool) : List α → List α → Bool
  | [], [] => true
  | a :: as, b :: bs => eq a b && listEqBy eq as bs
  | _, _ => false

/-- clause 1+2: every child gene has innovation number, endpoints and recurrence flag of a parent gene; numbers occur once -/
def structureOk (p1 p2 c : Genome W) : Bool :=
  c.genes.all (fun x => (carriers p1 p2 x.inn).any (fun y => y.src == x.src && y.dst == x.dst && y.recur == x.recur) ||
                        -- averaging picks each endpoint/flag from either carrier
                        ((carriers p1 p2 x.inn).any (·.src == x.src) && (carriers p1 p2 x.inn).any (·.dst == x.dst) &&
                         (carriers p1 p2 x.inn).any (·.recur == x.recur))) &&
  (c.genes.map (·.inn)).Nodup

/-- clause 3: weight is a carrier's weight, or the mean of both carriers' weights where the method averages -/
def weightsOk (weq : W → W → Bool) (m : Method) (p1 p2 c : Genome W) : Bool :=
  c.genes.all fun x =>
    let cs := carriers p1 p2 x.inn
    cs.any (fun y => weq y.w x.w) ||
      (m != .multipoint &&
        (match p1.genes.find? (·.inn == x.inn), p2.genes.find? (·.inn == x.inn) with
         | some a, some b => weq (avg a.w b.w) x.w
         | _, _ => false))

/-- clause 4 (multipoint methods): the child's innovation numbers are exactly those of the fitter parent
    (fewer genes on a fitness tie; on a full tie either parent) -/
def alignmentOk (m : Method) (p1 p2 c : Genome W) (f1 f2 : W) : Bool :=
  if m == .singlePoint then true
  else
    let ci := c.genes.map (·.inn)
    let i1 := p1.genes.map (·.inn)
    let i2 := p2.genes.map (·.inn)
    if gt f1 f2 then ci == i1
    else if gt f2 f1 then ci == i2
    else if p1.genes.length < p2.genes.length then ci == i1
    else if p2.genes.length < p1.genes.length then ci == i2
    else ci == i1 || ci == i2

/-- clause 5: enabled in every carrier ⇒ enabled; disabled in the only carrier ⇒ disabled -/
def enabledOk (p1 p2 c : Genome W) : Bool :=
  c.genes.all fun x =>
    let cs := carriers p1 p2 x.inn
    (!(cs.all (·.en)) || x.en) && (!(cs.length == 1 && cs.all (fun y => !y.en)) || !x.en)

/-- clause 6: the child's nodes are the parents' input/bias/output nodes plus exactly the nodes its genes touch,
    each with the role and activation type of a parent's node of that id -/
def nodesOk (p1 p2 c : Genome W) : Bool :=
  let io := (p1.nodes ++ p2.nodes).filter (fun n => n.kind != Kind.hidden)
  let touched := c.genes.flatMap (fun x => [x.src, x.dst])
  io.all (fun n => c.nodes.any (fun m => m.id == n.id && m.kind == n.kind)) &&
  touched.all (fun i => c.nodes.any (·.id == i)) &&
  (c.nodes.map (·.id)).Nodup &&
  c.nodes.all (fun m => (io.any (·.id == m.id) || touched.contains m.id) &&
                        (p1.nodes ++ p2.nodes).any (fun n => n.id == m.id && n.kind == m.kind && n.act == m.act))

/-- clause 7: the parents' number of traits with averaged parameters -/
def traitsOk (weq : W → W → Bool) (p1 p2 c : Genome W) : Bool :=
  c.traits.length == p1.traits.length &&
  (List.zip c.traits (List.zip p1.traits p2.traits)).all fun (t, a, b) =>
    t.id == a.id && listEqBy weq t.params (List.zipWith avg a.params b.params)

/-- clause 3, multipoint-average only: EVERY gene both parents carry is averaged there, so its weight must be the mean - a
    parent's own weight is not enough (single point averages only at the crossing point, which the child does not reveal).
    Evaluated by the driver on the implementation's child next to `check`; for the model it follows from
    `C04.mateMultipointAvg_spec` (exact weights), it is not part of the proved `mate*_check` chain. -/
def avgAllMatchedOk (weq : W → W → Bool) (m : Method) (p1 p2 c : Genome W) : Bool :=
  m != .multipointAvg ||
  c.genes.all fun x =>
    match p1.genes.find? (·.inn == x.inn), p2.genes.find? (·.inn == x.inn) with
    | some a, some b => weq (avg a.w b.w) x.w
    | _, _ => true

def check (weq : W → W → Bool) (m : Method) (p1 p2 c : Genome W) (f1 f2 : W) : Option String :=
  if !structureOk p1 p2 c then some "gene-not-from-a-parent-or-duplicated"
  else if !weightsOk weq m p1 p2 c then some "weight-neither-inherited-nor-mean"
  else if !alignmentOk m p1 p2 c f1 f2 then some "unmatched-genes-not-from-fitter-parent"
  else if !enabledOk p1 p2 c then some "enabled-flag-rule"
  else if !nodesOk p1 p2 c then some "child-node-set"
  else if !traitsOk weq p1 p2 c then some "traits-not-averaged"
  else none

end GoNeat.CrossoverSpec
