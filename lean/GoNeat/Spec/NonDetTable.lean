/-
  C17: row type of the regenerated table of nondeterminism sources (`Gen/NonDet.lean`).  CORE LEAN ONLY.
-/
namespace GoNeat.NonDetTable

inductive NDKind where
  | mapRange | time | goStmt | selectStmt | selectCtxPoll | chan | ptrFormat | randSource | env | runtime | unsafePtr | unresolved
deriving DecidableEq, Repr

structure NonDetSource where
  fn : String
  kind : NDKind
  what : String
  pos : String
deriving DecidableEq, Repr

/-- an allow-list entry: occurrences of `kind` in function `fn` (any position) are justified -/
structure Allowed where
  fn : String
  kind : NDKind
deriving DecidableEq, Repr

def notAllowed (allow : List Allowed) (rows : List NonDetSource) : List NonDetSource :=
  rows.filter (fun r => !allow.contains ⟨r.fn, r.kind⟩)

end GoNeat.NonDetTable
