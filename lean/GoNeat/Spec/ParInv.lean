/-
  C16(b) executable specification, evaluated by the driver on the populations the REAL parallel executor produced
  over a run of consecutive epochs: per epoch the same guarantees as for the sequential executor (population
  invariant, ages / species-id freshness, well-formed genomes, innovation consistency across the turnover) and,
  accumulated over ALL organisms of ALL generations of the run, "an innovation number denotes one connection,
  a node id one role".  CORE LEAN ONLY.
-/
import GoNeat.Spec.PopInv

namespace GoNeat.ParSpec
open GoNeat Scalar
variable {W : Type} [Scalar W]

/-- first pair of genes anywhere in the run that carry one innovation number on two different links -/
def runInnovWhy (pops : List (Pop W)) : String :=
  let genes := pops.flatMap (fun p => (PopSpec.allOrgs p).flatMap (·.genome.genes))
  let nodes := pops.flatMap (fun p => (PopSpec.allOrgs p).flatMap (·.genome.nodes))
  -- one representative per innovation number, then every gene is compared with its representative
  let reps : List (Gene W) := genes.foldl (fun acc x => if acc.any (·.inn == x.inn) then acc else x :: acc) []
  let nodeReps : List Node := nodes.foldl (fun acc n => if acc.any (·.id == n.id) then acc else n :: acc) []
  match genes.find? (fun x => match reps.find? (·.inn == x.inn) with | some y => !(x.sameLink y) | none => false) with
  | some x => "innovation number " ++ toString x.inn ++ " denotes two different connections within the run"
  | none =>
    match nodes.find? (fun n => match nodeReps.find? (·.id == n.id) with | some m => m.kind != n.kind | none => false) with
    | some n => "node id " ++ toString n.id ++ " has two roles within the run"
    | none => ""

/-- species ids are never reused over the run: an id that is absent from one generation does not come back -/
def speciesIdsWhy (pops : List (Pop W)) : String :=
  let rec go (seen : List Int) (prev : List Int) : List (Pop W) → String
    | [] => ""
    | p :: rest =>
      let ids := p.species.map (·.id)
      match ids.find? (fun i => seen.contains i && !prev.contains i) with
      | some i => "species id " ++ toString i ++ " reused after the species had died"
      | none => go (ids.foldl (fun s i => if s.contains i then s else i :: s) seen) ids rest
  go [] [] pops

/-- the guarantees demanded of one parallel turnover `before → after` (popSize `n`) -/
def epochWhy (before after : Pop W) (n : Nat) : String :=
  if !PopSpec.popInvB after n then "population invariant broken after the parallel epoch: " ++ PopSpec.popInvWhy after n
  else match (PopSpec.allOrgs after).find? (fun x => !decide (WF x.genome)) with
    | some x => "genome not well-formed after the parallel epoch: " ++ wfWhy x.genome
    | none =>
      let a := PopSpec.agesStepWhy before after
      if a != "" then a else PopSpec.innovWhy before after

end GoNeat.ParSpec
