/-
  Executable specification of property C05 (structural and parametric mutations change exactly what they
  document): before/after relations, evaluated by the driver on the genomes the *implementation* produced.
  Each relation returns `none` when it holds and `some clause` otherwise.  `weq` = equality on scalars.
-/
import GoNeat.Model.Mutate
import GoNeat.Spec.WF

namespace GoNeat.MutationSpec
open GoNeat Scalar
variable {W : Type} [Scalar W]

def optEq (a b : Option Int) : Bool := a == b

/-- two genes agree in every field -/
def geneEq (weq : W → W → Bool) (a b : Gene W) : Bool :=
  a.inn == b.inn && a.src == b.src && a.dst == b.dst && a.recur == b.recur && weq a.w b.w && weq a.mnum b.mnum &&
  a.en == b.en && optEq a.trait b.trait

def traitEq (weq : W → W → Bool) (a b : Trait W) : Bool :=
  a.id == b.id && a.params.length == b.params.length && (List.zip a.params b.params).all (fun (x, y) => weq x y)

def traitsEq (weq : W → W → Bool) (a b : List (Trait W)) : Bool :=
  a.length == b.length && (List.zip a b).all (fun (x, y) => traitEq weq x y)

def genesEq (weq : W → W → Bool) (a b : List (Gene W)) : Bool :=
  a.length == b.length && (List.zip a b).all (fun (x, y) => geneEq weq x y)

/-- the structural skeleton of a gene list: what parametric mutations must never touch -/
def skeleton (genes : List (Gene W)) : List (Int × Int × Int × Bool) := genes.map (fun x => (x.inn, x.src, x.dst, x.recur))

/-- node set untouched (ids, roles, activation types; trait pointers may move) -/
def nodeSkeleton (nodes : List Node) : List (Int × Nat × Nat) := nodes.map (fun n => (n.id, n.kind, n.act))

/-- successful add-node -/
def addNodeRel (weq : W → W → Bool) (g g' : Genome W) : Option String :=
  let newNodes := g'.nodes.filter (fun n => !g.nodes.any (·.id == n.id))
  let oldInns := g.genes.map (·.inn)
  let newGenes := g'.genes.filter (fun x => !oldInns.contains x.inn)
  let keptGenes := g'.genes.filter (fun x => oldInns.contains x.inn)
  -- old genes that differ in the result
  let changed := (List.zip g.genes keptGenes).filter (fun (a, b) => !geneEq weq a b)
  if !traitsEq weq g.traits g'.traits then some "traits-changed"
  else if keptGenes.length != g.genes.length then some "old-gene-lost"
  else if g'.nodes.filter (fun n => g.nodes.any (·.id == n.id)) != g.nodes then some "old-nodes-changed"
  else match newNodes, newGenes, changed with
    | [n], [x, y], [(old, now)] =>
      -- x, y in innovation order; one of them is a→n, the other n→b
      let (g1, g2) := if x.dst == n.id then (x, y) else (y, x)
      if n.kind != Kind.hidden then some "new-node-not-hidden"
      else if !(old.en && !now.en && geneEq weq { old with en := false } now) then some "split-gene-not-just-disabled"
      else if (match nodeById g.nodes old.src with | some s => s.kind == Kind.bias | none => false) then some "split-gene-leaves-bias"
      else if !(g1.src == old.src && g1.dst == n.id && weq g1.w one && g1.recur == old.recur && g1.en) then some "first-new-gene-wrong"
      else if !(g2.src == n.id && g2.dst == old.dst && weq g2.w old.w && !g2.recur && g2.en) then some "second-new-gene-wrong"
      else none
    | _, _, _ => some s!"expected 1 new node, 2 new genes, 1 changed gene; got {newNodes.length}, {newGenes.length}, {changed.length}"

/-- successful add-link -/
def addLinkRel (weq : W → W → Bool) (g g' : Genome W) : Option String :=
  let oldInns := g.genes.map (·.inn)
  let newGenes := g'.genes.filter (fun x => !oldInns.contains x.inn)
  let keptGenes := g'.genes.filter (fun x => oldInns.contains x.inn)
  if !traitsEq weq g.traits g'.traits then some "traits-changed"
  else if g'.nodes != g.nodes then some "nodes-changed"
  else if !genesEq weq g.genes keptGenes then some "old-genes-changed"
  else match newGenes with
    | [x] =>
      if !(g.nodes.any (·.id == x.src) && g.nodes.any (·.id == x.dst)) then some "new-link-endpoint-not-a-node"
      else if g.genes.any (fun y => y.src == x.src && y.dst == x.dst && y.recur == x.recur) then some "new-link-duplicates-existing"
      else if g.nodes.any (fun n => n.id == x.dst && n.isSensor) then some "new-link-into-sensor"
      else none
    | l => some s!"expected exactly one new gene, got {l.length}"

/-- connect-sensors (any result): only adds genes from one previously unconnected sensor; when it reports
    success there is one to every non-sensor node -/
def connectSensorsRel (weq : W → W → Bool) (g g' : Genome W) (res : Bool) : Option String :=
  let oldInns := g.genes.map (·.inn)
  let newGenes := g'.genes.filter (fun x => !oldInns.contains x.inn)
  let keptGenes := g'.genes.filter (fun x => oldInns.contains x.inn)
  if !traitsEq weq g.traits g'.traits then some "traits-changed"
  else if g'.nodes != g.nodes then some "nodes-changed"
  else if !genesEq weq g.genes keptGenes then some "old-genes-changed"
  else match newGenes with
    | [] => if res then some "reported-success-without-new-gene" else none
    | x :: _ =>
      let s := x.src
      if !newGenes.all (·.src == s) then some "new-genes-from-several-sources"
      else if !g.nodes.any (fun n => n.id == s && n.isSensor) then some "source-not-a-sensor"
      else if g.genes.any (·.src == s) then some "sensor-was-already-connected"
      else if !newGenes.all (fun y => g.nodes.any (fun n => n.id == y.dst && !n.isSensor)) then some "new-gene-into-sensor"
      else if ((newGenes.map (·.dst))).Nodup == false then some "two-new-genes-to-one-node"
      else if res && !(g.nodes.filter (fun n => !n.isSensor)).all (fun n => newGenes.any (·.dst == n.id)) then some "not-one-to-every-non-sensor"
      else none

/-- weight/trait/toggle/re-enable mutations never change the node set, gene endpoints or innovation numbers -/
def paramOnlyRel (g g' : Genome W) : Option String :=
  if skeleton g.genes != skeleton g'.genes then some "gene-skeleton-changed"
  else if nodeSkeleton g.nodes != nodeSkeleton g'.nodes then some "node-set-changed"
  else if g.traits.map (·.id) != g'.traits.map (·.id) then some "trait-ids-changed"
  else none

/-- toggle-enable never disables the last enabled gene leaving a node (and never enables anything) -/
def toggleRel (g g' : Genome W) : Option String :=
  let srcs := (g.genes.filter (·.en)).map (·.src)
  if !srcs.all (fun s => g'.genes.any (fun x => x.src == s && x.en)) then some "last-enabled-gene-of-a-node-disabled"
  else if (List.zip g.genes g'.genes).any (fun (a, b) => !a.en && b.en) then some "toggle-enabled-a-gene"
  else none

/-- re-enable enables only the first disabled gene -/
def reenableRel (weq : W → W → Bool) (g g' : Genome W) : Option String :=
  if genesEq weq (reenableFirst g.genes) g'.genes then none else some "not-exactly-first-disabled-gene-enabled"

/-- result `false` of add-link / connect-sensors: the genome is unchanged (proved of the model: `mutateAddLink_false`,
    `mutateConnectSensors_spec`) -/
def unchangedRel (weq : W → W → Bool) (g g' : Genome W) : Option String :=
  if !traitsEq weq g.traits g'.traits then some "false-result-but-traits-changed"
  else if g'.nodes != g.nodes then some "false-result-but-nodes-changed"
  else if !genesEq weq g.genes g'.genes then some "false-result-but-genes-changed"
  else none

/-- result `false` of add-node: nodes and traits unchanged; the gene list is unchanged or differs in exactly one
    previously enabled gene that is now disabled (the documented exit after the chosen gene was disabled; proved of the
    model: `mutateAddNode_false`) -/
def addNodeFalseRel (weq : W → W → Bool) (g g' : Genome W) : Option String :=
  if !traitsEq weq g.traits g'.traits then some "false-result-but-traits-changed"
  else if g'.nodes != g.nodes then some "false-result-but-nodes-changed"
  else if g.genes.length != g'.genes.length then some "false-result-but-gene-count-changed"
  else
    let diff := (List.zip g.genes g'.genes).filter (fun (x, y) => !geneEq weq x y)
    if diff.isEmpty then none
    else if diff.length == 1 && diff.all (fun (x, y) => x.en && !y.en && geneEq weq { x with en := false } y) then none
    else some "false-result-but-genes-changed"

end GoNeat.MutationSpec
