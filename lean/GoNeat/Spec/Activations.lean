/-
  C18: hand-written specification of the activation functions, from the documentation of neat/math/activations.go
  (the comments of the closures and the usual definitions of the named functions).  CORE ONLY.

  The closed forms are written ONCE, polymorphically in the scalar: they are executed at `Float` by the driver (on the
  outputs of the real Go functions) and reasoned about at `ℝ` in Proofs/Activations.lean and Props/C18.lean (instance
  `ActFns ℝ` there: Real.exp / Real.tanh / Real.sin / |·| / decide (· < ·)).  The table `scalarDocs` (type code, name,
  closed form, documented range, monotone?, arithmetic-only?) is the single place both sides read.
-/
import GoNeat.Model.Activations
import GoNeat.Model.FloatPrims

namespace GoNeat.Spec.Act
open GoNeat.Act

/-- the non-arithmetic operations the closed forms need -/
class ActFns (α : Type) where
  exp : α → α
  tanh : α → α
  sin : α → α
  abs : α → α
  /-- strict order test -/
  lt : α → α → Bool

instance : ActFns Float where
  exp := Float.exp
  tanh := Float.tanh
  sin := Float.sin
  abs := Float.abs
  lt x y := decide (x < y)

section closedForms
variable {α : Type} [Add α] [Sub α] [Mul α] [Div α] [Neg α] [OfScientific α] [ActFns α]
open ActFns

/-- the logistic function 1/(1+e^(-t)) -/
def logistic (t : α) : α := 1.0 / (1.0 + exp (-t))

/-- plain sigmoid -/
def plainSigmoid (x : α) : α := logistic x
/-- reduced sigmoid: slope 0.5 -/
def reducedSigmoid (x : α) : α := logistic (0.5 * x)
/-- steepened sigmoid: slope 4.924273 -/
def steepenedSigmoid (x : α) : α := logistic (4.924273 * x)
/-- bipolar steepened sigmoid, range (-1,1) -/
def bipolarSigmoid (x : α) : α := 2.0 * logistic (4.924273 * x) - 1.0
/-- piecewise quadratic approximation of a sigmoid with squashing range [-4,4] -/
def approximationSigmoid (x : α) : α :=
  if lt x (-4.0) then 0.0
  else if lt x 0.0 then (x + 4.0) * (x + 4.0) / 32.0
  else if lt x 4.0 then 1.0 - (x - 4.0) * (x - 4.0) / 32.0
  else 1.0
/-- piecewise quadratic approximation of a steepened sigmoid with squashing range [-1,1] -/
def approximationSteepenedSigmoid (x : α) : α :=
  if lt x (-1.0) then 0.0
  else if lt x 0.0 then (x + 1.0) * (x + 1.0) / 2.0
  else if lt x 1.0 then 1.0 - (x - 1.0) * (x - 1.0) / 2.0
  else 1.0
/-- inverse absolute sigmoid 1/2 + x / (2 (1+|x|)) -/
def inverseAbsoluteSigmoid (x : α) : α := 0.5 + 0.5 * (x / (1.0 + abs x))
/-- plain sigmoid shifted left by 2.4621365 -/
def leftShiftedSigmoid (x : α) : α := logistic (x + 2.4621365)
/-- steepened sigmoid shifted left -/
def leftShiftedSteepenedSigmoid (x : α) : α := logistic (4.924273 * x + 2.4621365)
/-- steepened sigmoid shifted right -/
def rightShiftedSteepenedSigmoid (x : α) : α := logistic (4.924273 * x - 2.4621365)
/-- tanh (0.9 x) -/
def hyperbolicTangent (x : α) : α := tanh (0.9 * x)
/-- bipolar Gaussian 2 e^{-(2.5x)²} - 1 -/
def bipolarGaussian (x : α) : α := 2.0 * exp (-((2.5 * x) * (2.5 * x))) - 1.0
/-- Gaussian e^{-x²} -/
def gaussian (x : α) : α := exp (-(x * x))
def linear (x : α) : α := x
def absoluteLinear (x : α) : α := abs x
/-- linear between -1 and 1, clipped to -1 below and +1 above -/
def clippedLinear (x : α) : α := if lt x (-1.0) then -1.0 else if lt 1.0 x then 1.0 else x
def nullFunctor (_x : α) : α := 0.0
/-- sign: -1, 0, 1 -/
def signFunction (x : α) : α := if lt x 0.0 then -1.0 else if lt 0.0 x then 1.0 else 0.0
/-- sine with doubled frequency -/
def sineFunction (x : α) : α := sin (2.0 * x)
/-- "x<0 ? 0.0 : 1.0" -/
def stepFunction (x : α) : α := if lt x 0.0 then 0.0 else 1.0

/-- one documented scalar activation -/
structure ScalarDoc (α : Type) where
  code : Nat
  name : String
  f : α → α
  /-- documented range, closed bounds (`none` = unbounded on that side) -/
  lo : Option α
  hi : Option α
  /-- documented as monotonically non-decreasing (C18: sigmoid family, tanh, linear, clipped linear, step) -/
  mono : Bool
  /-- built from + - * / abs and comparisons only (bit-reproducible between Go and Lean) -/
  exact : Bool

variable (α) in
/-- the 20 registered scalar activations: type code and name as in the `NodeActivationType` const block -/
def scalarDocs : List (ScalarDoc α) := [
  ⟨1,  "SigmoidPlainActivation",                  plainSigmoid,                  some 0.0, some 1.0, true,  false⟩,
  ⟨2,  "SigmoidReducedActivation",                reducedSigmoid,                some 0.0, some 1.0, true,  false⟩,
  ⟨3,  "SigmoidBipolarActivation",                bipolarSigmoid,                some (-1.0), some 1.0, true,  false⟩,
  ⟨4,  "SigmoidSteepenedActivation",              steepenedSigmoid,              some 0.0, some 1.0, true,  false⟩,
  ⟨5,  "SigmoidApproximationActivation",          approximationSigmoid,          some 0.0, some 1.0, true,  true⟩,
  ⟨6,  "SigmoidSteepenedApproximationActivation", approximationSteepenedSigmoid, some 0.0, some 1.0, true,  true⟩,
  ⟨7,  "SigmoidInverseAbsoluteActivation",        inverseAbsoluteSigmoid,        some 0.0, some 1.0, true,  true⟩,
  ⟨8,  "SigmoidLeftShiftedActivation",            leftShiftedSigmoid,            some 0.0, some 1.0, true,  false⟩,
  ⟨9,  "SigmoidLeftShiftedSteepenedActivation",   leftShiftedSteepenedSigmoid,   some 0.0, some 1.0, true,  false⟩,
  ⟨10, "SigmoidRightShiftedSteepenedActivation",  rightShiftedSteepenedSigmoid,  some 0.0, some 1.0, true,  false⟩,
  ⟨11, "TanhActivation",                          hyperbolicTangent,             some (-1.0), some 1.0, true,  false⟩,
  ⟨12, "GaussianBipolarActivation",               bipolarGaussian,               some (-1.0), some 1.0, false, false⟩,
  ⟨13, "GaussianActivation",                      gaussian,                      some 0.0, some 1.0, false, false⟩,
  ⟨14, "LinearActivation",                        linear,                        none, none, true,  true⟩,
  ⟨15, "LinearAbsActivation",                     absoluteLinear,                some 0.0, none, false, true⟩,
  ⟨16, "LinearClippedActivation",                 clippedLinear,                 some (-1.0), some 1.0, true,  true⟩,
  ⟨17, "NullActivation",                          nullFunctor,                   some 0.0, some 0.0, false, true⟩,
  ⟨18, "SignActivation",                          signFunction,                  some (-1.0), some 1.0, false, true⟩,
  ⟨19, "SineActivation",                          sineFunction,                  some (-1.0), some 1.0, false, false⟩,
  ⟨20, "StepActivation",                          stepFunction,                  some 0.0, some 1.0, true,  true⟩]

/-- `y` lies in the documented range of `d` -/
def ScalarDoc.inRange (d : ScalarDoc α) (y : α) : Bool :=
  (match d.lo with | none => true | some l => !lt y l) && (match d.hi with | none => true | some h => !lt h y)

end closedForms

/-- the three module activations: code, name -/
def moduleDocs : List (Nat × String) :=
  [(21, "MultiplyModuleActivation"), (22, "MaxModuleActivation"), (23, "MinModuleActivation")]

/-- the documented registry: every type code with its name and kind -/
def documented : List (Nat × String × Kind) :=
  (scalarDocs Float).map (fun d => (d.code, d.name, Kind.scalar)) ++ moduleDocs.map (fun (c, n) => (c, n, Kind.module))

def docOfCode (c : Nat) : Option (String × Kind) := documented.lookup c

/-! ### executable predicates evaluated by the driver on the outputs of the real Go functions -/

/-- two results agree up to the tolerance granted to the exp/tanh/sin/pow based activators: 4 units in the last
    place, or 1e-15 absolutely (outputs and intermediates have magnitude ≤ 2; `2σ-1` cancels near 0) -/
def closeTo (a b : Float) : Bool :=
  a.toBits == b.toBits || (a.isFinite && b.isFinite && (GoNeat.ulpDist a b ≤ 4 || Float.abs (a - b) ≤ 1e-15))

/-- numeric equality that identifies +0 and -0 -/
def sameValue (a b : Float) : Bool := a == b

/-- left-to-right product, as a reference for the multiply module -/
def prodF (l : List Float) : Float := l.foldl (· * ·) 1.0

/-- `m` is a maximum of `l`: an element that no element exceeds -/
def isMaxOf (m : Float) (l : List Float) : Bool := l.any (· == m) && l.all (fun x => x ≤ m)
def isMinOf (m : Float) (l : List Float) : Bool := l.any (· == m) && l.all (fun x => m ≤ x)

def nonDecreasing : List Float → Bool
  | a :: b :: t => a ≤ b && nonDecreasing (b :: t)
  | _ => true

end GoNeat.Spec.Act
