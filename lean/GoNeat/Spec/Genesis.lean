/-
  Executable specification of C11: what "the network expresses exactly the enabled part of the genome" and "the
  graph view reports exactly this structure" mean, stated on the GENOME (ids, no indices, no search loops) and
  evaluated by the driver on the implementation's dump / answers.
-/
import GoNeat.Model.Genesis

namespace GoNeat.Genesis

variable {W : Type}

/-! ### hypotheses on the genome -/

def nodeIds' (g : Genome W) : List Int := g.nodes.map (·.id)

/-- well-formedness used by C11: node ids pairwise different; every gene endpoint and every module wire names a
    node of the genome; control-node ids differ from the node ids and from each other -/
def GenomeOk (g : Genome W) : Bool :=
  (nodeIds' g ++ g.modules.map (·.ctrl.id)).Nodup &&
  g.genes.all (fun x => (nodeIds' g).contains x.src && (nodeIds' g).contains x.dst) &&
  g.modules.all (fun m => m.ins.all (fun w => (nodeIds' g).contains w.node) &&
                          m.outs.all (fun w => (nodeIds' g).contains w.node))

/-! ### the expressed structure, on ids -/

/-- a link as seen from outside: ids of `InNode` / `OutNode`, weight, recurrence flag -/
structure ELink (W : Type) where
  src : Option Int
  dst : Option Int
  w : W
  recur : Bool
deriving DecidableEq, Repr

def elinkOfGene (x : Gene W) : ELink W := ⟨some x.src, some x.dst, x.w, x.recur⟩

/-- id-level view of a network link -/
def elink (net : Net W) (l : NLink W) : ELink W := ⟨idAt net l.src, idAt net l.dst, l.w, l.recur⟩

def enabledGenes (g : Genome W) : List (Gene W) := g.genes.filter (·.en)
def enabledMods (g : Genome W) : List (Module W) := g.modules.filter (·.en)

/-- links that must enter the node with id `v`: the enabled genes ending there, in gene order -/
def linksInto (g : Genome W) (v : Int) : List (ELink W) := ((enabledGenes g).filter (·.dst == v)).map elinkOfGene
def linksOutOf (g : Genome W) (u : Int) : List (ELink W) := ((enabledGenes g).filter (·.src == u)).map elinkOfGene

def modIns (m : Module W) : List (ELink W) := m.ins.map fun w => ⟨some w.node, some m.ctrl.id, w.w, false⟩
def modOuts (m : Module W) : List (ELink W) := m.outs.map fun w => ⟨some m.ctrl.id, some w.node, w.w, false⟩

/-- all directed edges of the expressed graph -/
def dirEdges (g : Genome W) : List (ELink W) :=
  (enabledGenes g).map elinkOfGene ++ (enabledMods g).flatMap (fun m => modIns m ++ modOuts m)

def nodeTriples (ns : List (NNodeS W)) : List (Int × Kind × Nat) := ns.map fun nd => (nd.id, nd.kind, nd.act)

section
variable [DecidableEq W]

/-- the dumped network is the expression of the genome -/
def expresses (g : Genome W) (netId : Int) (net : Net W) : Bool :=
  net.id == netId &&
  nodeTriples net.nodes == g.nodes.map (fun n => (n.id, n.kind, n.act)) &&
  net.inputs == positions (fun n => n.kind == Kind.input || n.kind == Kind.bias) g.nodes 0 &&
  net.outputs == positions (fun n => n.kind == Kind.output) g.nodes 0 &&
  net.nodes.all (fun nd => nd.incoming.map (elink net) == linksInto g nd.id &&
                           nd.outgoing.map (elink net) == linksOutOf g nd.id) &&
  nodeTriples net.ctrl == (enabledMods g).map (fun m => (m.ctrl.id, m.ctrl.kind, m.ctrl.act)) &&
  (net.ctrl.zip (enabledMods g)).all (fun p => p.1.incoming.map (elink net) == modIns p.2 &&
                                                p.1.outgoing.map (elink net) == modOuts p.2)

/-! ### the graph view, on ids -/

def specHasEdge (g : Genome W) (u v : Int) : Bool := (dirEdges g).any fun e => e.src == some u && e.dst == some v

/-- the edge `Edge(u,v)` must return: the first enabled gene `u → v`, else the first module wire -/
def specEdge (g : Genome W) (u v : Int) : Option (ELink W) := (dirEdges g).find? fun e => e.src == some u && e.dst == some v

def specNode (g : Genome W) (u : Int) : Option (Int × Kind × Nat) :=
  ((g.nodes.map fun n => (n.id, n.kind, n.act)) ++ (enabledMods g).map fun m => (m.ctrl.id, m.ctrl.kind, m.ctrl.act)).find?
    fun t => t.1 == u

def specNodes (g : Genome W) : List Int := nodeIds' g ++ (enabledMods g).map (·.ctrl.id)

/-- successors in iteration order: targets of the enabled genes leaving `u`, then the control nodes `u` feeds;
    for a control node its outputs -/
def specFrom (g : Genome W) (u : Int) : List (Option Int) :=
  if (nodeIds' g).contains u then
    (linksOutOf g u).map (·.dst) ++
      ((enabledMods g).filter fun m => m.ins.any fun w => w.node == u).map fun m => some m.ctrl.id
  else
    match (enabledMods g).find? fun m => m.ctrl.id == u with
    | some m => m.outs.map fun w => some w.node
    | none => []

def specTo (g : Genome W) (v : Int) : List (Option Int) :=
  if (nodeIds' g).contains v then
    (linksInto g v).map (·.src) ++
      ((enabledMods g).filter fun m => m.outs.any fun w => w.node == v).map fun m => some m.ctrl.id
  else
    match (enabledMods g).find? fun m => m.ctrl.id == v with
    | some m => m.ins.map fun w => some w.node
    | none => []

def specNodeCount (g : Genome W) : Nat := g.nodes.length + (enabledMods g).length
def specLinkCount (g : Genome W) : Nat :=
  (enabledGenes g).length + ((enabledMods g).map fun m => m.ins.length + m.outs.length).sum

/-- the answers of the implementation to the queries on one ordered pair `(u, v)` -/
structure PairAnswer (W : Type) where
  u : Int
  v : Int
  edge : Option (ELink W)
  wedge : Option (ELink W)
  weight : Option W
  hasFromTo : Bool
  hasBetween : Bool

/-- answers about one id -/
structure IdAnswer where
  u : Int
  node : Option (Int × Kind × Nat)
  from_ : List (Option Int)
  to_ : List (Option Int)

def pairOk (g : Genome W) (a : PairAnswer W) : Bool :=
  a.edge == specEdge g a.u a.v && a.wedge == a.edge && a.weight == (specEdge g a.u a.v).map (·.w) &&
  a.hasFromTo == specHasEdge g a.u a.v &&
  a.hasBetween == (specHasEdge g a.u a.v || specHasEdge g a.v a.u)

def idOk (g : Genome W) (a : IdAnswer) : Bool :=
  a.node == specNode g a.u && a.from_ == specFrom g a.u && a.to_ == specTo g a.u

end

end GoNeat.Genesis
