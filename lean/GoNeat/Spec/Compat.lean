/-
  Independent specification of the quantities in the NEAT compatibility formula (property C07):
  excess / disjoint / matching counts defined from the *sets* of innovation numbers, not by a walk.
-/
import GoNeat.Model.Compat

namespace GoNeat

def listMax (l : List Int) : Option Int := l.foldl (fun acc x => match acc with | none => some x | some m => some (if x > m then x else m)) none

/-- E, D, M from the innovation-number lists: a gene is matching if its number occurs in the other list,
    excess if it lies beyond the other list's maximum (or the other list is empty), disjoint otherwise -/
def specCounts (a b : List Int) : Counts :=
  let cls (xs ys : List Int) : Nat × Nat :=   -- (excess, disjoint) contributed by xs
    xs.foldl (fun (acc : Nat × Nat) x =>
      if ys.contains x then acc
      else match listMax ys with
        | none => (acc.1 + 1, acc.2)
        | some m => if x > m then (acc.1 + 1, acc.2) else (acc.1, acc.2 + 1)) (0, 0)
  let ca := cls a b
  let cb := cls b a
  { excess := ca.1 + cb.1, disjoint := ca.2 + cb.2, matching := (a.filter (b.contains ·)).length }

/-- W̄: mean |Δ mutation number| over matching genes (0 when none match) — Float version for the driver -/
def specMutDiffMean (a b : List (Gene Float)) : Float :=
  let pairs := a.filterMap (fun x => (b.find? (·.inn == x.inn)).map (fun y => Float.abs (x.mnum - y.mnum)))
  if pairs.isEmpty then 0.0 else pairs.foldl (· + ·) 0.0 / Float.ofNat pairs.length

end GoNeat
