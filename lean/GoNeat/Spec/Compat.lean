/-
  Independent specification of the quantities in the NEAT compatibility formula (property C07):
  excess / disjoint / matching counts defined from the *sets* of innovation numbers, not by a walk.
-/
import GoNeat.Model.Compat

namespace GoNeat

/-- `x` occurs in the other genome -/
def isMatch (ys : List Int) (x : Int) : Bool := decide (x ∈ ys)
/-- `x` is unmatched and lies beyond every innovation number of the other genome (vacuously so if it has none) -/
def isExcess (ys : List Int) (x : Int) : Bool := !decide (x ∈ ys) && ys.all (fun y => decide (y < x))
/-- `x` is unmatched and some innovation number of the other genome lies above it -/
def isDisjoint (ys : List Int) (x : Int) : Bool := !decide (x ∈ ys) && ys.any (fun y => decide (x < y))

/-- E, D, M of the NEAT formula for two lists of innovation numbers -/
def specCounts (a b : List Int) : Counts :=
  { excess := a.countP (isExcess b) + b.countP (isExcess a),
    disjoint := a.countP (isDisjoint b) + b.countP (isDisjoint a),
    matching := a.countP (isMatch b) }

def Counts.add (c d : Counts) : Counts :=
  { excess := c.excess + d.excess, disjoint := c.disjoint + d.disjoint, matching := c.matching + d.matching }

/-- W̄: mean |Δ mutation number| over matching genes (0 when none match) — Float version for the driver -/
def specMutDiffMean (a b : List (Gene Float)) : Float :=
  let pairs := a.filterMap (fun x => (b.find? (·.inn == x.inn)).map (fun y => Float.abs (x.mnum - y.mnum)))
  if pairs.isEmpty then 0.0 else pairs.foldl (· + ·) 0.0 / Float.ofNat pairs.length

end GoNeat
