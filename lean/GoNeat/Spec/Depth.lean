/-
  Executable specification of C14 (activation depth).

  * `preds net i` - the links the depth search follows out of node `i` (backwards): the sources of the incoming
    links of a neuron; a sensor ends the search (`IsSensor` test in `NNode.Depth`), so it has none.  In a network
    whose sensors have no incoming links (every expressed genome) these are all incoming links.
  * `Path net u v k` - there is a path of `k` links from `u` to `v` along such links.
  * `Ranked net lvl` - `lvl` strictly increases along every link: a ranking exists iff the graph is acyclic.
  * `lp net f v` - longest path ending in `v`, declarative recursion without marks (fuel `f`).
  * `querySpec` - the C14 predicate evaluated by the driver on a sequence of depth queries answered by the
    implementation on ONE network instance.
-/
import GoNeat.Model.Depth

namespace GoNeat.Depth

variable {W : Type}

def preds (net : Net W) (i : Nat) : List Nat :=
  match net.nodes[i]? with
  | none => []
  | some nd => if nd.isSensor then [] else nd.incoming.map (·.src)

/-- `Path net u v k`: `k` links lead from `u` to `v` -/
inductive Path (net : Net W) : Nat → Nat → Nat → Prop
  | nil (v : Nat) : Path net v v 0
  | snoc {u w v k : Nat} : Path net u w k → w ∈ preds net v → Path net u v (k + 1)

/-- `lvl` is a ranking of the graph (Bool form, evaluated by the driver) -/
def Ranked (net : Net W) (lvl : Nat → Nat) : Bool :=
  (List.range net.nodes.length).all fun i => (preds net i).all fun w => decide (lvl w < lvl i)

def maxList (g : Nat → Nat) (l : List Nat) : Nat := l.foldl (fun m w => max m (g w)) 0

/-- longest path ending in `i` -/
def lp (net : Net W) : Nat → Nat → Nat
  | 0, _ => 0
  | f + 1, i => maxList (fun w => lp net f w + 1) (preds net i)

/-- longest path ending in an output -/
def lpOut (net : Net W) (f : Nat) : Nat := maxList (lp net f) net.outputs

/-- the network has a hidden node (hypothesis of C14) -/
def hasHidden (net : Net W) : Bool := net.nodes.any fun nd => nd.kind == Kind.hidden

/-- `inputs` / `Outputs` list exactly as many nodes as there are sensors / output neurons in `allNodes`
    (true of every network made by `Genesis`); with it `hasHidden` implies that the code's no-hidden shortcut
    is not taken -/
def IOCounts (net : Net W) : Bool :=
  net.inputs.length == (net.nodes.filter fun nd => nd.isSensor).length &&
  net.outputs.length == (net.nodes.filter fun nd => nd.kind == Kind.output).length

/-- the marks vector covers `allNodes` -/
def marksFit (net : Net W) (vis : List Bool) : Bool := vis.length == net.nodes.length

/-- no output node carries a mark (true of a fresh network and after every completed query) -/
def outsUnmarked (net : Net W) (vis : List Bool) : Bool := net.outputs.all fun o => !marked vis o

/-! ### the predicate on the implementation's answers -/

/-- one answered query: the cap passed (`≤ 0` = none; `MaxActivationDepth()` is recorded as cap 0), the returned
    depth, the error class, and the `visited` marks of all nodes afterwards -/
structure Query where
  cap : Int
  depth : Int
  err : DErr
  marks : List Bool
deriving Repr

/-- a model answer in the shape of a dumped query -/
def toQuery (c : Int) (r : TopRes) : Query := ⟨c, r.depth, r.err, r.vis⟩

/-- what query `q` must answer when the uncapped depth of the network is `d0` -/
def queryOk (n : Nat) (d0 : Int) (q : Query) : Bool :=
  q.marks == List.replicate n false &&
  (if q.cap ≤ 0 then q.depth == d0 && q.err == .ok
   else if d0 ≤ q.cap then q.depth == d0 && q.err == .ok
   else q.depth == q.cap && q.err == .exceeded)

/-- C14 on a non-modular network: `fresh` = answer of the first uncapped query on a freshly built instance, `qs` = the
    later queries on the same instance, `dag` = the ranking found for the graph (if it is acyclic) -/
def querySpec (net : Net W) (dagFuel : Option Nat) (fresh : Query) (qs : List Query) : Bool :=
  let n := net.nodes.length
  fresh.err == .ok && decide (0 ≤ fresh.depth) &&
  (noHiddenShortcut net || decide (fresh.depth ≤ n)) &&
  queryOk n fresh.depth fresh &&
  qs.all (queryOk n fresh.depth) &&
  (match dagFuel with
   | some f => noHiddenShortcut net || fresh.depth == (lpOut net f : Int)
   | none => true)

end GoNeat.Depth
