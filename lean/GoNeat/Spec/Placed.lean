/-
  C08 over whole epochs: executable predicate on the implementation's populations (the prepared population `ap`, dumped
  between `prepareForReproduction` and `reproduce`, and the population `a` after the epoch).

  Every species of `a` must be
  * a SURVIVOR: a species of `ap` at some position `i` has its id; with `rep` the first organism of that species of `ap`
    (the representative while the babies were speciated; removed by the final purge), every organism `x` of the species is
    within the threshold of `rep`, and among the representatives of ALL species of `ap` within the threshold of `x` none is
    nearer than `rep` and every one at an earlier position is strictly farther; or
  * FOUNDED during the turnover: id above `ap.lastSpecies`; its first organism `f` is within the threshold of NO
    representative of `ap`; every other organism `y` is within the threshold of `f`, and every representative of `ap`
    within the threshold of `y` is strictly farther than `f` (the old species precede the new one in the list).
  The order in which the babies arrived is not part of the dump, so comparisons among species founded in the SAME turnover
  are left to the bit-exact co-simulation; `C08.placedWhy_model` proves that the model's epoch passes this predicate.
-/
import GoNeat.Model.Epoch

namespace GoNeat.PopSpec
open Scalar
variable {W : Type} [Scalar W]

def within (o : EpochOpts W) (x rep : Org W) : Bool :=
  lt (compatibility o.compat x.genome rep.genome) o.compatThreshold

/-- among the representatives of `ap` within the threshold of `x`, none is nearer than `rep` and those at a position
    before `i` are strictly farther -/
def oldOk (o : EpochOpts W) (ap : Pop W) (x rep : Org W) (i : Nat) : Bool :=
  (List.range ap.species.length).all (fun j =>
    match ap.species[j]? with
    | none => true
    | some s =>
      match s.orgs.head? with
      | none => true
      | some r =>
        !within o x r ||
          (!lt (compatibility o.compat x.genome r.genome) (compatibility o.compat x.genome rep.genome) &&
           (decide (i ≤ j) || lt (compatibility o.compat x.genome rep.genome) (compatibility o.compat x.genome r.genome))))

/-- no representative of `ap` is within the threshold of `f` -/
def founderOk (o : EpochOpts W) (ap : Pop W) (f : Org W) : Bool :=
  ap.species.all (fun s => match s.orgs.head? with
    | none => true
    | some r => !within o f r)

def speciesPlacedOk (o : EpochOpts W) (ap : Pop W) (s' : Species W) : Bool :=
  (List.range ap.species.length).any (fun i =>
     match ap.species[i]? with
     | none => false
     | some s1 => s1.id == s'.id &&
        match s1.orgs.head? with
        | none => false
        | some rep => s'.orgs.all (fun x => within o x rep && oldOk o ap x rep i))
  || (decide (ap.lastSpecies < s'.id) &&
      match s'.orgs with
      | [] => false
      | f :: t => founderOk o ap f && t.all (fun y => within o y f && oldOk o ap y f ap.species.length))

/-- "" = every species of `a` passes `speciesPlacedOk` against the prepared population `ap` -/
def placedWhy (o : EpochOpts W) (ap a : Pop W) : String :=
  match a.species.find? (fun s' => !speciesPlacedOk o ap s') with
  | some s' => s!"species {s'.id} of the new generation holds an organism not placed by the nearest-compatible rule (against the representatives of the prepared population)"
  | none => ""

end GoNeat.PopSpec
