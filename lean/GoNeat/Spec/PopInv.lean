/-
  Executable specifications of the population-level properties, evaluated by the driver on the populations
  the *implementation* produced:  C02 (size, partition, ids, ages), C09 (quotas total the population size),
  C10 (champion survives), C03 (innovation consistency over an epoch), C08 (nearest compatible species).
  Each `…Why` returns "" when the clause holds and a description otherwise.
-/
import GoNeat.Model.Epoch
import GoNeat.Spec.WF
import GoNeat.Spec.Mutation

namespace GoNeat.PopSpec
open GoNeat Scalar
variable {W : Type} [Scalar W]

def allOrgs (p : Pop W) : List (Org W) := p.species.flatMap (·.orgs)

/-- C02 invariant: exactly `n` organisms; the species lists are a partition of them; no empty species;
    species ids unique and not above `lastSpecies`; genome ids unique -/
def popInvWhy (p : Pop W) (n : Nat) : String :=
  let orgs := allOrgs p
  if p.organisms.length != n then s!"population holds {p.organisms.length} organisms, expected {n}"
  else if orgs.length != n then s!"species list {orgs.length} organisms in total, expected {n}"
  else if !(p.organisms.all (fun u => (orgs.filter (·.uid == u)).length == 1)) then "an organism is listed by no species or by several"
  else if !(p.organisms.Nodup) then "organism listed twice in the population"
  else if p.species.any (·.orgs.isEmpty) then "empty species"
  else if !((p.species.map (·.id)).Nodup) then "species id used twice"
  else if p.species.any (fun s => s.id > p.lastSpecies) then "species id above LastSpecies"
  else if !((orgs.map (·.genome.id)).Nodup) then "genome id used twice"
  else ""

def popInvB (p : Pop W) (n : Nat) : Bool := popInvWhy p n == ""

/-- fitness values finite and non-negative (hypothesis of C02) -/
def fitnessOk (p : Pop W) : Bool := (allOrgs p).all (fun o => ge o.fitness zero && le o.fitness maxVal)

/-- C02 ages: surviving species exactly one generation older (novel ones keep their age and lose the flag);
    species founded during the turnover start at age one with ids above the previous `lastSpecies` -/
def agesStepWhy (before after : Pop W) : String :=
  if after.lastSpecies < before.lastSpecies then "LastSpecies decreased"
  else
    match after.species.find? (fun (s : Species W) =>
        match before.species.find? (fun (b : Species W) => b.id == s.id) with
        | some b => !(if b.isNovel then s.age == b.age else s.age == b.age + (1 : Int)) || s.isNovel
        | none => !(s.age == (1 : Int) && decide (s.id > before.lastSpecies) && decide (s.id ≤ after.lastSpecies)) || s.isNovel) with
    | some (s : Species W) => "species " ++ toString s.id ++ ": wrong age/novel flag/id after the turnover (age " ++ toString s.age ++ ")"
    | none => ""

/-- C09: after preparation (incl. stolen babies / delta coding) the quotas total exactly the population size, none is
    negative (a zero quota simply produces no offspring) and no organism marked for elimination is left as a parent -/
def quotasWhy (afterPrepare : Pop W) (n : Nat) : String :=
  let total := afterPrepare.species.foldl (fun acc s => acc + s.expectedOffspring) 0
  if total != (n : Int) then s!"offspring quotas total {total}, population size {n}"
  else if afterPrepare.species.any (fun s => s.expectedOffspring < 0) then "negative quota"
  else if afterPrepare.species.any (fun s => s.orgs.any (·.toEliminate)) then "organism marked for elimination still present"
  else ""

/-- C09, first clause, on the implementation's own numbers after the preparation phase: the expected offspring of the
    organisms are proportional to their shared, age-adjusted fitness values with one population-wide factor (1 / mean) -
    `e_i * f_j = e_j * f_i` up to a relative 1e-9 for the organisms left as parents - and an organism with a positive
    adjusted fitness has a positive expectation (the population mean is then positive). Independent of HOW the
    adjustment is computed. -/
def expectedWhy (afterPrepare : Pop W) : String :=
  let orgs := afterPrepare.species.flatMap (·.orgs)
  match orgs.find? (fun x => lt zero x.fitness && !lt zero x.expectedOffspring) with
  | some x => "organism " ++ toString x.uid ++ ": positive shared fitness but no expected offspring (expected offspring is not fitness / population mean)"
  | none =>
    match orgs.find? (fun x => lt zero x.fitness) with
    | none => ""
    | some r =>
      let tol := ofDec 1 9
      match orgs.find? (fun x =>
          let a := mul x.expectedOffspring r.fitness
          let b := mul r.expectedOffspring x.fitness
          let d := abs (sub a b)
          lt (mul tol (add (abs a) (abs b))) d) with
      | some x => "organism " ++ toString x.uid ++ ": expected offspring not proportional to the shared fitness (ratio differs from organism " ++ toString r.uid ++ "'s)"
      | none => ""

/-- C09: only the top floor(survival_thresh*n)+1 organisms of a species (n = its size before the turnover) remain available
    as parents after the preparation phase -/
def parentsWhy (o : EpochOpts W) (before afterPrepare : Pop W) : String :=
  match afterPrepare.species.find? (fun (s' : Species W) =>
      match before.species.find? (fun (s : Species W) => s.id == s'.id) with
      | none => true
      | some s =>
        let n := s.orgs.length
        let numParents := floorInt (add (mul o.survivalThresh (ofInt n)) one)
        let expected : Int := if numParents < 0 then 0 else if numParents > n then n else numParents
        (s'.orgs.length : Int) != expected) with
  | some (s' : Species W) => "species " ++ toString s'.id ++ ": " ++ toString s'.orgs.length ++
      " organisms left as parents, expected floor(survival_thresh*n)+1 of the species' size before the turnover"
  | none => ""

def genomeEqModId (weq : W → W → Bool) (a b : Genome W) : Bool :=
  MutationSpec.traitsEq weq a.traits b.traits && a.nodes == b.nodes && MutationSpec.genesEq weq a.genes b.genes

/-- C10: for every species whose quota exceeds five the next generation contains an unmodified copy of its
    fittest organism's genome (the head of the sorted species) -/
def championWhy (weq : W → W → Bool) (afterPrepare after : Pop W) : String :=
  match afterPrepare.species.find? (fun s =>
      s.expectedOffspring > 5 &&
      (match s.orgs.head? with
       | none => true
       | some champ => !(allOrgs after).any (fun o => genomeEqModId weq champ.genome o.genome))) with
  | some (s : Species W) => "species " ++ toString s.id ++ " (quota " ++ toString s.expectedOffspring ++ "): no unmodified copy of its champion in the next generation"
  | none => ""

/-- C10, stated from the population BEFORE the turnover: for every species whose quota exceeds five, some organism of
    that species with the greatest RAW fitness (the fittest organism; unique when the values are distinct) has an
    unmodified copy of its genome in the next generation. Independent of how the implementation ordered the species. -/
def fittestWhy (weq : W → W → Bool) (before afterPrepare after : Pop W) : String :=
  match afterPrepare.species.find? (fun (s : Species W) =>
      decide (s.expectedOffspring > 5) &&
      (match before.species.find? (fun (b : Species W) => b.id == s.id) with
       | none => false
       | some b =>
         let fittest := b.orgs.filter (fun x => b.orgs.all (fun y => !(lt x.fitness y.fitness)))
         !fittest.isEmpty && !fittest.any (fun champ => (allOrgs after).any (fun o => genomeEqModId weq champ.genome o.genome)))) with
  | some (s : Species W) => "species " ++ toString s.id ++ " (quota " ++ toString s.expectedOffspring ++ "): no unmodified copy of its fittest organism (greatest raw fitness before the turnover) in the next generation"
  | none => ""

/-- C03 over one epoch: an innovation number denotes one link and a node id one role across both generations;
    numbers and node ids that first appear in the new generation are above the counters the population had
    before; the record of innovations is empty afterwards -/
def innovWhy (before after : Pop W) : String :=
  let genes := (allOrgs before ++ allOrgs after).flatMap (·.genome.genes)
  let nodes := (allOrgs before ++ allOrgs after).flatMap (·.genome.nodes)
  let oldInns := (allOrgs before).flatMap (fun o => o.genome.genes.map (·.inn))
  let oldNodes := (allOrgs before).flatMap (fun o => o.genome.nodes.map (·.id))
  let firstOf (inn : Int) := genes.find? (·.inn == inn)
  if genes.any (fun x => match firstOf x.inn with | some y => !(x.sameLink y) | none => false)
    then "one innovation number carried by two different links"
  else if nodes.any (fun n => nodes.any (fun m => m.id == n.id && m.kind != n.kind)) then "one node id with two roles"
  else if (allOrgs after).any (fun o => o.genome.genes.any (fun x => !oldInns.contains x.inn && x.inn ≤ before.reg.nextInn))
    then "innovation number issued in this generation is not above the numbers held before"
  else if (allOrgs after).any (fun o => o.genome.nodes.any (fun n => !oldNodes.contains n.id && n.id ≤ before.reg.nextNode))
    then "node id issued in this generation is not above the ids held before"
  else if !after.reg.records.isEmpty then "innovation records not forgotten at the end of the generation"
  else if after.reg.nextInn < before.reg.nextInn || after.reg.nextNode < before.reg.nextNode then "counter decreased"
  else ""

/-- C08, independent replay on (species id, representative) pairs: each arriving organism must land in the first
    species attaining the minimal distance among those closer than the threshold, else found a new species with
    the next fresh id -/
def speciateWhy (o : EpochOpts W) (before : Pop W) (batch : List (Org W)) (after : Pop W) : String :=
  let reps0 : List (Int × Genome W × Nat) := before.species.filterMap (fun s => s.orgs.head?.map (fun r => (s.id, r.genome, s.orgs.length)))
  let step (st : List (Int × Genome W × Nat) × Int × String) (b : Org W) : List (Int × Genome W × Nat) × Int × String :=
    let (reps, last, why) := st
    if why != "" then st
    else
      let cands := reps.filter (fun r => lt (compatibility o.compat b.genome r.2.1) o.compatThreshold)
      let best : Option (Int × Genome W × Nat) :=
        cands.foldl (fun acc r => match acc with
          | none => some r
          | some a => if lt (compatibility o.compat b.genome r.2.1) (compatibility o.compat b.genome a.2.1) then some r else some a) none
      let (expId, reps', last') : Int × List (Int × Genome W × Nat) × Int :=
        match best with
        | some r => (r.1, reps.map (fun q => if q.1 == r.1 then (q.1, q.2.1, q.2.2 + 1) else q), last)
        | none => (last + 1, reps ++ [(last + 1, b.genome, 1)], last + 1)
      -- where did the implementation put it: the species that holds it at the expected position
      let pos := ((reps'.find? (·.1 == expId)).map (·.2.2)).getD 0
      let ok := match after.species.find? (·.id == expId) with
        | none => false
        | some s => match s.orgs[pos - 1]? with
          | none => false
          | some x => x.genome.id == b.genome.id && x.genome.genes.length == b.genome.genes.length
      (reps', last', if ok then "" else s!"organism (genome {b.genome.id}) not placed in species {expId} (nearest compatible / fresh id rule)")
  let (reps, last, why) := batch.foldl step (reps0, before.lastSpecies, "")
  if why != "" then why
  else if after.lastSpecies != last then "LastSpecies differs from the number of species founded"
  else if (after.species.filter (fun s => !s.orgs.isEmpty)).length != reps.length then "unexpected number of species"  -- a listed species without organisms has no representative and is skipped
  else ""

end GoNeat.PopSpec
