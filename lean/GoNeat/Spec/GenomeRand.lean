/-
  Executable specification of what `newGenomeRand` / `NewPopulationRandom` produce (properties C01, C03) - decidable
  predicates, core Lean only.  Evaluated by the driver on the implementation's output (Driver/GenRand.lean) and proved
  of the model for all parameters and all random streams (Props/C01GenRand.lean, Props/C03GenRand.lean).
-/
import GoNeat.Spec.WF
import GoNeat.Spec.Registry

namespace GoNeat.C01
open GoNeat
variable {W : Type}

/-- the clauses of `WF` other than `hasGene` and `hasOutput` (a random genome may have no gene at all: `linkProb = 0`;
    it has an output node iff `out ≥ 1`) -/
structure WFCore (g : Genome W) : Prop where
  genesSorted : GenesSorted g.genes
  linksDistinct : LinksDistinct g.genes
  nodesSorted : NodesSorted g.nodes
  endpoints : EndpointsOwned g
  traitRefs : TraitRefsOwned g
  noSensorTarget : NoSensorTarget g
  traits : TraitsConsecutive g

instance (g : Genome W) : Decidable (WFCore g) :=
  if h : GenesSorted g.genes ∧ LinksDistinct g.genes ∧ NodesSorted g.nodes ∧ EndpointsOwned g ∧ TraitRefsOwned g ∧
         NoSensorTarget g ∧ TraitsConsecutive g
  then isTrue ⟨h.1, h.2.1, h.2.2.1, h.2.2.2.1, h.2.2.2.2.1, h.2.2.2.2.2.1, h.2.2.2.2.2.2⟩
  else isFalse (fun w => h ⟨w.1, w.2, w.3, w.4, w.5, w.6, w.7⟩)

theorem WF.core {g : Genome W} (h : WF g) : WFCore g := ⟨h.1, h.2, h.3, h.4, h.5, h.6, h.9⟩
theorem WFCore.wf {g : Genome W} (h : WFCore g) (hg : g.genes ≠ []) (ho : HasOutput g) : WF g :=
  ⟨h.1, h.2, h.3, h.4, h.5, h.6, hg, ho, h.7⟩

/-- no two genes join the same ordered pair of nodes (whatever their recurrence flags) -/
def PairsDistinct (genes : List (Gene W)) : Prop := genes.Pairwise (fun a b => (a.src, a.dst) ≠ (b.src, b.dst))
instance (genes : List (Gene W)) : Decidable (PairsDistinct genes) := by unfold PairsDistinct; infer_instance

/-- the numbering scheme of the connection matrix (`total = in+out+maxHidden`): a gene `src→dst` sits in cell
    (column `dst`, row `src`), its innovation number is the index of the cell `(dst-1)·total + (src-1)`, it is flagged
    recurrent exactly when `dst ≤ src`, it is enabled and its mutation number is its weight (`weq`: equality of scalars) -/
def RandCells (weq : W → W → Bool) (total : Int) (g : Genome W) : Prop :=
  ∀ x ∈ g.genes, 1 ≤ x.src ∧ x.src ≤ total ∧ 1 ≤ x.dst ∧ x.dst ≤ total ∧ x.inn = (x.dst - 1) * total + (x.src - 1) ∧
    x.recur = decide (x.dst ≤ x.src) ∧ x.en = true ∧ weq x.w x.mnum = true ∧ x.trait = some 1
instance (weq : W → W → Bool) (t : Int) (g : Genome W) : Decidable (RandCells weq t g) := by unfold RandCells; infer_instance

/-- role of node id `i` in every genome made with the same `(in, maxHidden)`: `1..in-1` input, `in` bias,
    `in+1..in+maxHidden` hidden, above: output -/
def randKind (nIn maxHidden i : Int) : Kind :=
  if i < nIn then Kind.input else if i = nIn then Kind.bias else if i ≤ nIn + maxHidden then Kind.hidden else Kind.output

/-- node ids are `1..total`, the role is determined by the id, every node points to trait 1 -/
def RandRoles (nIn nOut maxHidden : Int) (g : Genome W) : Prop :=
  ∀ n ∈ g.nodes, 1 ≤ n.id ∧ n.id ≤ nIn + nOut + maxHidden ∧ n.kind = randKind nIn maxHidden n.id ∧ n.trait = some 1
instance (a b c : Int) (g : Genome W) : Decidable (RandRoles a b c g) := by unfold RandRoles; infer_instance

/-- the trait list is the single dummy trait with id 1 -/
def RandTrait (g : Genome W) : Prop := traitIds g = [1] ∧ g.modules.length = 0
instance (g : Genome W) : Decidable (RandTrait g) := by unfold RandTrait; infer_instance

/-- names the first failing clause -/
def wfCoreWhy (g : Genome W) : String :=
  if ¬ GenesSorted g.genes then "genes-not-strictly-ascending"
  else if ¬ LinksDistinct g.genes then "duplicate-link"
  else if ¬ NodesSorted g.nodes then "nodes-not-strictly-ascending"
  else if ¬ EndpointsOwned g then "gene-endpoint-not-a-genome-node"
  else if ¬ TraitRefsOwned g then "trait-ref-not-a-genome-trait"
  else if ¬ NoSensorTarget g then "link-into-sensor"
  else if ¬ TraitsConsecutive g then "traits-not-consecutive"
  else ""

end GoNeat.C01
