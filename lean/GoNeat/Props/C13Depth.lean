/-
  C13 with DEPTH QUERIES in the history ("any history" includes `Network.MaxActivationDepthWithCap(cap)` /
  `Network.MaxActivationDepth()` calls - the documented way to obtain the step count for `ActivateSteps`).

  Model: Model/SolverDepth.lean - the calls of Model/Solver.lean plus the depth query of C14 (Model/Depth.lean,
  every cap, both exits of `NNode.Depth`) run on the `visited` marks of the solver state, the marks it leaves behind
  written back into the state.  Kind A (every scalar type, every activation table; only `hz : lt 0 0 = false`).

  * a depth query - capped or not, hitting the cap or not - leaves the WHOLE state unchanged whenever no output
    node is marked (`depth_query_state_unchanged`, from C14 `marks_restored`; node level: `depth_node_marks_unchanged`
    from C14 `marks_restored_node`);
  * (not proved here: that every state reachable from a fresh network carries no mark at all, i.e. that the hypothesis
    above holds at every point of every history - it needs "LoadSensors / ActivateSteps / ForwardSteps do not write
    `visited`" for each loop of Model/Solver.lean; the flush theorems below do NOT need it, they are unconditional;
    the co-simulation compares every `visited` flag after every call);
  * flush = fresh for histories and later sequences that contain depth queries anywhere
    (`std_flush_equiv_fresh_with_depth`, `std_flush_like_fresh_with_depth`): the answers of later depth queries
    included; for histories without depth queries the extended run is the run of Props/C13.lean (`runD_call`).
-/
import GoNeat.Props.C13
import GoNeat.Props.C14
import GoNeat.Proofs.DepthUnify
import GoNeat.Model.SolverDepth

namespace GoNeat.C13

set_option linter.unusedSectionVars false

variable {W : Type} [Scalar W]

section StdDepth
open GoNeat.Solver GoNeat.SolverD

/-! ## a depth query does not change the state -/

omit [Scalar W] in
theorem setVisited_self (s : St W) : setVisited s (s.map (·.visited)) = s := by
  induction s with
  | nil => rfl
  | cons a s ih => simp only [List.map_cons, setVisited, ih]

/-- `NNode.Depth` on an unmarked node of the network leaves the marks of the solver state as they are - normal and
    depth-cap exit (C14 `marks_restored_node` on the state's marks) -/
theorem depth_node_marks_unchanged (net : Net W) (cap : Int) (f : Nat) (s : St W) (i d : Nat)
    (h : Depth.marked (s.map (·.visited)) i = false) :
    setVisited s (Depth.depth net cap f (s.map (·.visited)) i d).vis = s := by
  rw [C14.marks_restored_node net cap f _ i d h, setVisited_self]

/-- `MaxActivationDepthWithCap(cap)` - every cap, cap hit or not, every topology - returns the solver state exactly
    as it found it, in every field of every node, whenever no output node carries a mark -/
theorem depth_query_state_unchanged (net : Net W) (cap : Int) (s : St W)
    (ho : Depth.outsUnmarked net (s.map (·.visited)) = true) : (depthQuery net cap s).1 = s := by
  simp only [depthQuery, C14.marks_restored net cap _ ho, setVisited_self]

/-! ## congruence: histories with depth queries respect the equivalence "equal but for ActivationSum" -/

theorem length_stepD (net : Net W) (σ : Nat → W → Option W) (s : St W) (op : OpD W) :
    (stepD net σ s op).1.length = s.length := by
  cases op with
  | call o => exact length_step net σ s o
  | depth cap => simp only [stepD, depthQuery, length_setVisited]

theorem length_runD (net : Net W) (σ : Nat → W → Option W) (ops : List (OpD W)) (s : St W) :
    (runD net σ ops s).1.length = s.length := by
  induction ops generalizing s with
  | nil => rfl
  | cons op ops ih => simp only [runD, ih, length_stepD]

theorem stepD_congr (hz : Scalar.lt (Scalar.zero : W) Scalar.zero = false) (net : Net W) (σ : Nat → W → Option W)
    (op : OpD W) {s t : St W} (h : Equiv s t) :
    Equiv (stepD net σ s op).1 (stepD net σ t op).1 ∧ (stepD net σ s op).2 = (stepD net σ t op).2 := by
  cases op with
  | call o =>
    have hs := step_congr hz net σ o h
    simp only [stepD]
    exact ⟨hs.1, by rw [hs.2, readOutputs_congr net hs.1]⟩
  | depth cap =>
    simp only [stepD, depthQuery, Equiv_visited h]
    have he := setVisited_congr (Depth.maxDepthCap net cap (t.map (·.visited))).vis h
    exact ⟨he, by rw [readOutputs_congr net he]⟩

theorem runD_congr (hz : Scalar.lt (Scalar.zero : W) Scalar.zero = false) (net : Net W) (σ : Nat → W → Option W)
    (ops : List (OpD W)) {s t : St W} (h : Equiv s t) :
    Equiv (runD net σ ops s).1 (runD net σ ops t).1 ∧ (runD net σ ops s).2 = (runD net σ ops t).2 := by
  induction ops generalizing s t with
  | nil => exact ⟨h, rfl⟩
  | cons op ops ih =>
    have hs := stepD_congr hz net σ op h
    have ht := ih hs.1
    simp only [runD]
    exact ⟨ht.1, by rw [hs.2, ht.2]⟩

/-! ## flush = fresh for histories with depth queries -/

/-- `Flush` after ANY history - `Solver` calls and depth queries with any caps in any order - succeeds and yields a
    state equal to the freshly built one in every field (the `visited` marks included) but `ActivationSum` -/
theorem std_flush_equiv_fresh_with_depth (hz : Scalar.lt (Scalar.zero : W) Scalar.zero = false) (net : Net W)
    (σ : Nat → W → Option W) (hist : List (OpD W)) :
    (flush (runD net σ hist (init net)).1).2 = (true, none) ∧
      Equiv (flush (runD net σ hist (init net)).1).1 (init net) := by
  have hl : (runD net σ hist (init net)).1.length = net.nodes.length := by
    rw [length_runD]; simp [init]
  unfold flush
  rw [flushAux_eq hz]
  exact ⟨rfl, map_flushback_equiv _ net.nodes hl⟩

/-- C13 for the standard solver over the call type extended by the depth query: whatever happened before the flush
    (capped depth queries that hit the cap included), every later sequence of sensor loads, activations AND depth
    queries returns the same results, errors, outputs and depth answers as on a new instance -/
theorem std_flush_like_fresh_with_depth (hz : Scalar.lt (Scalar.zero : W) Scalar.zero = false) (net : Net W)
    (σ : Nat → W → Option W) (hist ops : List (OpD W)) :
    (runD net σ ops (flush (runD net σ hist (init net)).1).1).2 = (runD net σ ops (init net)).2 :=
  (runD_congr hz net σ ops (std_flush_equiv_fresh_with_depth hz net σ hist).2).2

/-- histories without depth queries: the extended run is the run of Props/C13.lean -/
theorem runD_call (net : Net W) (σ : Nat → W → Option W) (ops : List (Op W)) (s : St W) :
    (runD net σ (ops.map .call) s).1 = (run net σ ops s).1 ∧
      callObs (ops.map .call) (runD net σ (ops.map .call) s).2 = (run net σ ops s).2 := by
  induction ops generalizing s with
  | nil => exact ⟨rfl, rfl⟩
  | cons op ops ih =>
    simp only [List.map_cons, runD, stepD, run, callObs, (ih _).1, (ih _).2, obsOf]
    exact ⟨trivial, trivial⟩

end StdDepth

/-! ## non-vacuity: the usage pattern of the demo (capped query that hits the cap, activation, flush, RecursiveSteps)
    on a network with a long and a short path to the output, over the exact `Int` scalar -/
section Examples
open GoNeat.ExactInt GoNeat.Solver GoNeat.SolverD

private def nd (k : Kind) (ins : List (Nat × Int)) (i : Nat) : NNodeS Int :=
  { id := i + 1, kind := k, act := 14, incoming := ins.map fun p => { src := p.1, dst := i, w := p.2, recur := false },
    outgoing := [] }

/-- 0 (input) → 1 → 2 → 3 → 5 (output), short path 0 → 4 → 5, self-loop on 5: depth 4 -/
def deepNet : Net Int :=
  { id := 1, inputs := [0], outputs := [5],
    nodes := [nd Kind.input [] 0, nd Kind.hidden [(0, 1)] 1, nd Kind.hidden [(1, 2)] 2, nd Kind.hidden [(2, 1)] 3,
              nd Kind.hidden [(0, 3)] 4, nd Kind.output [(3, 1), (4, 1), (5, 1)] 5] }

def deepHist : List (OpD Int) := [.depth 2, .call (.load [1]), .call (.activate 2)]
def deepSeq : List (OpD Int) := [.call (.load [1]), .call .recursive, .depth 0, .depth 4, .depth 3]

/-- the capped query of the history hits the cap, the uncapped one answers 4; caps at / below the depth -/
example : (runD deepNet sigmaInt deepHist (init deepNet)).2.map (·.depth) = [some (2, .exceeded), none, none] := by decide
example : (runD deepNet sigmaInt deepSeq (init deepNet)).2.map (·.depth)
    = [none, none, some (4, .ok), some (4, .ok), some (3, .exceeded)] := by decide
/-- the hypothesis of `depth_query_state_unchanged` holds on the fresh state and the query returns it as it is -/
example : Depth.outsUnmarked deepNet ((init deepNet).map (·.visited)) = true ∧
    (depthQuery deepNet 2 (init deepNet)).1.map (·.visited) = (init deepNet).map (·.visited) := by decide
/-- not trivial: the history leaves activations behind (without a flush the sequence answers 16, not 11) ... -/
example : (runD deepNet sigmaInt deepSeq (init deepNet)).2.map (·.outs) = [[0], [11], [11], [11], [11]] := by decide
example : (runD deepNet sigmaInt deepSeq (runD deepNet sigmaInt deepHist (init deepNet)).1).2.map (·.outs)
    = [[0], [16], [16], [16], [16]] := by decide
/-- ... and with the flush it is the fresh result again -/
example : (runD deepNet sigmaInt deepSeq (flush (runD deepNet sigmaInt deepHist (init deepNet)).1).1).2.map (·.outs)
    = [[0], [11], [11], [11], [11]] := by decide

end Examples

end GoNeat.C13
