/-
  C10 / C09 / C01: the single-epoch theorems for a population whose species lists were re-ordered
  (`C02.SpeciesPerm p q`, what `Generation.FillPopulationStatistics` does) before `NextEpoch` runs on it.
  None of their hypotheses depends on the order inside a species (table in Props/C02Perm.lean); these are the
  transfers, stated so that the hypotheses are those of the original theorems ON `p` and the epoch runs on `q`.
  Also the C10 RUN theorem under the permutation form of the evaluator hypothesis: `EvalKeepsPerm`,
  `champInv_evalPerm`, `runEpochs_keeps_champions_perm` (the order-preserving `runEpochs_keeps_champions` is the
  instance `runEpochs_keeps_champions_of_perm`), with a two-generation run whose evaluator reverses every species list.
  Kind A.
-/
import GoNeat.Props.C10Epoch
import GoNeat.Props.C02Perm

set_option linter.unusedSectionVars false

namespace GoNeat.C10
open GoNeat Scalar
variable {W : Type} [Scalar W]

theorem scZero_perm {p q : Pop W} (h : C02.SpeciesPerm p q) (hz : ScZero p) : ScZero q := by
  intro s' hs' x hx
  obtain ⟨s, hs, hxs⟩ := h.mem s' hs' x hx
  exact hz s hs x hxs

theorem refsOkPop_perm {p q : Pop W} (h : C02.SpeciesPerm p q) (hr : RefsOkPop p) : RefsOkPop q := by
  intro s' hs' x hx
  obtain ⟨s, hs, hxs⟩ := h.mem s' hs' x hx
  exact hr s hs x hxs

/-- **C10, end to end, after a within-species re-ordering.**  The hypotheses of `nextEpoch_keeps_champion` on `p`;
    the epoch (and its preparation phase) run on the re-ordered `q`: for every species of the prepared population whose
    quota exceeds five, its first organism - the champion `Species.reproduce` clones, chosen AFTER the epoch's own sort -
    is carried unmodified into the new population. -/
theorem nextEpoch_keeps_champion_perm (o : EpochOpts W) (gen : Int) (p q p' p1 : Pop W) (ex : ExecState) (rs rs1 rs' : List Nat)
    (hu : C02.UidInv p) (hnd : (p.species.map (·.id)).Nodup) (hz : ScZero p) (hrefs : RefsOkPop p)
    (hpq : C02.SpeciesPerm p q)
    (hprep : prepareForReproduction o q rs = .ok ((p1, ex), rs1))
    (h : nextEpoch o gen q rs = .ok (p', rs')) :
    ∀ s ∈ p1.species, s.expectedOffspring > 5 → ∃ champ, s.orgs.head? = some champ ∧
      ∃ s' ∈ p'.species, ∃ x ∈ s'.orgs, x.uid ∈ p'.organisms ∧ IsCopy champ x :=
  nextEpoch_keeps_champion o gen q p' p1 ex rs rs1 rs' (hpq.sameShape.uidInv hu) (by rw [hpq.sameShape.ids]; exact hnd)
    (scZero_perm hpq hz) (refsOkPop_perm hpq hrefs) hprep h

/-! ### every generation of a run, the evaluations may re-order inside the species -/

/-- `EvalKeeps` with the order-insensitive shape relation: an evaluation between two epochs may assign fitness values
    and the like AND re-order the organisms inside each species (`C02.SameShapePerm`), touches no genome, not the
    registry, and reserves no champion clones.  `EvalKeeps` is the special case that keeps the order
    (`EvalKeeps.toPerm`); `Generation.FillPopulationStatistics` is an instance (`evalKeepsPerm_of_speciesPerm`). -/
def EvalKeepsPerm (q q' : Pop W) : Prop :=
  C02.SameShapePerm q q' ∧ (∀ g ∈ C01.genomesOfPop q', g ∈ C01.genomesOfPop q) ∧ q'.reg = q.reg ∧ (ScZero q → ScZero q')

/-- the old evaluator hypothesis implies the new one -/
theorem EvalKeeps.toPerm {q q' : Pop W} (h : EvalKeeps q q') : EvalKeepsPerm q q' :=
  ⟨h.1.toPerm, h.2.1, h.2.2.1, h.2.2.2⟩

theorem EvalKeepsPerm.evalOkPerm {q q' : Pop W} (h : EvalKeepsPerm q q') : C02.EvalOkPerm q q' := ⟨h.1, h.2.1, h.2.2.1⟩

theorem EvalKeepsPerm.refl (p : Pop W) : EvalKeepsPerm p p := ⟨C02.SameShapePerm.refl p, fun _ h => h, rfl, id⟩

/-- evaluations compose (assign fitness, then `FillPopulationStatistics`, …) -/
theorem EvalKeepsPerm.trans {p q r : Pop W} (h1 : EvalKeepsPerm p q) (h2 : EvalKeepsPerm q r) : EvalKeepsPerm p r :=
  ⟨h1.1.trans h2.1, fun g hg => h1.2.1 g (h2.2.1 g hg), h2.2.2.1.trans h1.2.2.1, fun hz => h2.2.2.2 (h1.2.2.2 hz)⟩

/-- **a within-species permutation is an admissible evaluation for C10** -/
theorem evalKeepsPerm_of_speciesPerm {p q : Pop W} (h : C02.SpeciesPerm p q) : EvalKeepsPerm p q :=
  ⟨h.sameShape, h.evalOkPerm.2.1, h.evalOkPerm.2.2, scZero_perm h⟩

/-- the C10 run invariant survives an evaluation that re-orders inside the species (`champInv_eval` for the
    permutation form) -/
theorem champInv_evalPerm (q q' : Pop W) (he : EvalKeepsPerm q q') (h : ChampInv q) : ChampInv q' := by
  obtain ⟨hsh, hg, hreg, hsc⟩ := he
  obtain ⟨hu', hs'⟩ := C02.sameShapePerm_inv q q' hsh h.uid h.spid
  exact ⟨hu', hs', hsc h.sc, by rw [hreg]; exact h.pool.subset hg⟩

/-- **C10 over whole runs, evaluations may re-order inside the species.**  `runEpochs_keeps_champions` with
    `EvalKeepsPerm` in place of `EvalKeeps` (which it implies: `EvalKeeps.toPerm`): starting from a population that
    satisfies the invariant, in EVERY generation of a run of any length - evaluate (assign fitness, re-order the
    species lists as `FillPopulationStatistics` does), turn over, evaluate, turn over, … - the champion of every species
    whose quota exceeds five (the head of the list AFTER the epoch's own sort of the population that entered it) is
    preserved unmodified into the next generation; the invariant holds for every population entering an epoch and for
    the final one, which again holds exactly `PopSize` organisms partitioned into non-empty species. -/
theorem runEpochs_keeps_champions_perm (o : EpochOpts W) (evs : List (Pop W → Pop W)) (gen : Int) (p p' : Pop W) (rs rs' : List Nat)
    (hev : ∀ ev ∈ evs, ∀ q, EvalKeepsPerm q (ev q)) (hinv : ChampInv p)
    (h : C02.runEpochs o evs gen p rs = .ok (p', rs')) :
    ChampInv p' ∧ (runSteps o evs gen p rs).length = evs.length ∧
    (∀ st ∈ runSteps o evs gen p rs, ChampInv st.1 ∧ KeepsChampions o st.1 st.2.1 st.2.2) ∧
    (evs ≠ [] → p'.organisms.length = o.popSize ∧ p'.organisms.Nodup ∧ p'.organisms = C02.orgUids p'.species ∧
      ∀ s ∈ p'.species, s.orgs ≠ []) := by
  have hinvC02 := C02.runEpochs_inv_perm o evs gen p p' rs rs' (fun ev he q => (hev ev he q).1) hinv.uid hinv.spid h
  refine ⟨?_, ?_, ?_, fun hne => by obtain ⟨a1, a2, a3, a4, _⟩ := hinvC02.2.2.2 hne; exact ⟨a1, a2, a3, a4⟩⟩
  all_goals
    induction evs generalizing gen p rs with
    | nil =>
      simp only [C02.runEpochs, Except.ok.injEq, Prod.mk.injEq] at h
      obtain ⟨rfl, _⟩ := h
      first
        | exact hinv
        | rfl
        | (intro st hst; cases hst)
    | cons ev evs ih =>
      simp only [C02.runEpochs] at h
      split at h
      · cases h
      · rename_i q1 rs1 h1
        have hinv0 := champInv_evalPerm p (ev p) (hev ev (by simp) p) hinv
        have hinv1 := nextEpoch_champInv o gen (ev p) q1 rs rs1 hinv0 h1
        have hinvC02' := C02.runEpochs_inv_perm o evs (gen + 1) q1 p' rs1 rs' (fun e he q => (hev e (by simp [he]) q).1) hinv1.uid hinv1.spid h
        have ih' := ih (gen + 1) q1 rs1 (fun e he => hev e (by simp [he])) hinv1 h hinvC02'
        first
          | exact ih'
          | (simp only [runSteps, h1, List.length_cons]; rw [ih'])
          | (intro st hst
             simp only [runSteps, h1, List.mem_cons] at hst
             rcases hst with rfl | hst
             · refine ⟨hinv0, ?_⟩
               intro p1 ex rs1' hprep
               exact nextEpoch_keeps_champion o gen (ev p) q1 p1 ex rs rs1' rs1 hinv0.uid hinv0.spid.nodup hinv0.sc
                 (refsOk_of_pool _ hinv0.pool) hprep h1
             · exact ih' st hst)

/-- the old theorem is an instance: `runEpochs_keeps_champions` from `runEpochs_keeps_champions_perm` -/
theorem runEpochs_keeps_champions_of_perm (o : EpochOpts W) (evs : List (Pop W → Pop W)) (gen : Int) (p p' : Pop W) (rs rs' : List Nat)
    (hev : ∀ ev ∈ evs, ∀ q, EvalKeeps q (ev q)) (hinv : ChampInv p)
    (h : C02.runEpochs o evs gen p rs = .ok (p', rs')) :
    ChampInv p' ∧ (runSteps o evs gen p rs).length = evs.length ∧
    (∀ st ∈ runSteps o evs gen p rs, ChampInv st.1 ∧ KeepsChampions o st.1 st.2.1 st.2.2) ∧
    (evs ≠ [] → p'.organisms.length = o.popSize ∧ p'.organisms.Nodup ∧ p'.organisms = C02.orgUids p'.species ∧
      ∀ s ∈ p'.species, s.orgs ≠ []) :=
  runEpochs_keeps_champions_perm o evs gen p p' rs rs' (fun ev he q => (hev ev he q).toPerm) hinv h

/-! ### non-vacuity: a two-generation run whose evaluator assigns fitness values AND reverses every species list -/
section RunExamplePerm
open GoNeat.ExactInt
attribute [local instance] intScalar

/-- reverse the member list of every species (a within-species permutation that is not the identity) -/
def revOrgs (p : Pop W) : Pop W := { p with species := p.species.map (fun s => { s with orgs := s.orgs.reverse }) }

theorem revOrgs_speciesPerm (p : Pop W) : C02.SpeciesPerm p (revOrgs p) :=
  ⟨rfl, C02.forall₂_map_self _ (fun s => ⟨rfl, List.reverse_perm s.orgs⟩) p.species⟩

/-- the evaluation between the epochs: fitness by allocation id (`iEval`), then every species list reversed -/
def iEvalRev : Pop Int → Pop Int := fun q => revOrgs (iEval q)

theorem evalKeepsPerm_iEvalRev (q : Pop Int) : EvalKeepsPerm q (iEvalRev q) :=
  (evalKeeps_setFitness _ q).toPerm.trans (evalKeepsPerm_of_speciesPerm (revOrgs_speciesPerm _))

/-- the evaluator does change the order (so `EvalKeeps`, which fixes it, does not hold), both generations of the run
    have a species with quota 8 (> 5), and the run returns organisms 16-23 in species 1 -/
theorem exRunPerm_views :
    ((iEvalRev iPop8).species.map (fun s => s.orgs.map (·.uid))) = [[7, 6, 5, 4, 3, 2, 1, 0]] ∧
    (runSteps iOpts8 [iEvalRev, iEvalRev] 1 iPop8 stR).map (fun st => (prepView (prepareForReproduction iOpts8 st.1 st.2.1)).map
        (fun r => (r.1, r.2.1))) = [[(1, 8)], [(1, 8)]] ∧
    (popView (C02.runEpochs iOpts8 [iEvalRev, iEvalRev] 1 iPop8 stR)).map (fun r => (r.1, r.2.1)) =
      [(1, 16), (1, 17), (1, 18), (1, 19), (1, 20), (1, 21), (1, 22), (1, 23)] := by decide +kernel

example : ¬ EvalKeeps iPop8 (iEvalRev iPop8) := by
  intro h
  have := h.1.2.2.2
  revert this
  decide +kernel

/-- the conclusion of `runEpochs_keeps_champions_perm`, instantiated: two epochs ran, and in each the champion of every
    sizeable species was preserved -/
example : ∃ p' rs', C02.runEpochs iOpts8 [iEvalRev, iEvalRev] 1 iPop8 stR = .ok (p', rs') ∧ ChampInv p' ∧
    (runSteps iOpts8 [iEvalRev, iEvalRev] 1 iPop8 stR).length = 2 ∧
    ∀ st ∈ runSteps iOpts8 [iEvalRev, iEvalRev] 1 iPop8 stR, ChampInv st.1 ∧ KeepsChampions iOpts8 st.1 st.2.1 st.2.2 := by
  obtain ⟨p', rs', h⟩ := popView_ok (r := C02.runEpochs iOpts8 [iEvalRev, iEvalRev] 1 iPop8 stR)
    (by intro h0; have := exRunPerm_views.2.2; rw [h0] at this; cases this)
  obtain ⟨a, b, c, _⟩ := runEpochs_keeps_champions_perm iOpts8 [iEvalRev, iEvalRev] 1 iPop8 p' stR rs'
    (by intro ev hev q
        simp only [List.mem_cons, List.not_mem_nil, or_false, or_self] at hev
        subst hev; exact evalKeepsPerm_iEvalRev q) exRun_inv h
  exact ⟨p', rs', h, a, b, c⟩

end RunExamplePerm

end GoNeat.C10

namespace GoNeat.C09
open GoNeat Scalar
variable {W : Type} [Scalar W]

/-- **C09 (expected offspring) after a within-species re-ordering**: the hypothesis (unique species ids) on `p`; the
    statement is about the population `q` that enters the preparation phase (its species, its mean) -/
theorem prepare_expected_full_perm (o : EpochOpts W) (p q p1 : Pop W) (ex : ExecState) (rs rs' : List Nat)
    (hnd : (p.species.map (·.id)).Nodup) (hpq : C02.SpeciesPerm p q)
    (h : prepareForReproduction o q rs = .ok ((p1, ex), rs')) :
    ∀ s1 ∈ p1.species, ∃ s0 ∈ q.species, s1.id = s0.id ∧ ∀ x ∈ s1.orgs, ∃ x0 ∈ s0.orgs, x.uid = x0.uid ∧
      x.originalFitness = x0.fitness ∧ x.fitness = adjustedFitness o s0 x.originalFitness ∧
      x.expectedOffspring =
        (if eq (popMeanAdjusted o q) zero then x0.expectedOffspring else div x.fitness (popMeanAdjusted o q)) :=
  prepare_expected_full o q p1 ex rs rs' (by rw [hpq.sameShape.ids]; exact hnd) h

end GoNeat.C09

namespace GoNeat.C01
open GoNeat Scalar
variable {W : Type} [Scalar W]

/-- **C01, epoch closure, after an evaluation that may re-order inside the species**: the pool invariant on `p`, the
    epoch on `q` -/
theorem nextEpoch_closed_perm (X : List (Genome W)) (o : EpochOpts W) (generation : Int) (p q p' : Pop W) (rs rs' : List Nat)
    (hP : PoolOk p.reg (X ++ genomesOfPop p)) (hpq : C02.EvalOkPerm p q) (h : nextEpoch o generation q rs = .ok (p', rs')) :
    PoolOk p'.reg (X ++ genomesOfPop p') := by
  refine nextEpoch_closed X o generation q p' rs rs' ?_ h
  obtain ⟨_, hg, hreg⟩ := hpq
  rw [hreg]
  apply hP.subset
  intro g hg'
  rcases List.mem_append.mp hg' with hx | hx
  · exact List.mem_append_left _ hx
  · exact List.mem_append_right _ (hg g hx)

end GoNeat.C01
