/-
  C10 / C09 / C01: the single-epoch theorems for a population whose species lists were re-ordered
  (`C02.SpeciesPerm p q`, what `Generation.FillPopulationStatistics` does) before `NextEpoch` runs on it.
  None of their hypotheses depends on the order inside a species (table in Props/C02Perm.lean); these are the
  transfers, stated so that the hypotheses are those of the original theorems ON `p` and the epoch runs on `q`.
  Kind A.
-/
import GoNeat.Props.C10Epoch
import GoNeat.Props.C02Perm

set_option linter.unusedSectionVars false

namespace GoNeat.C10
open GoNeat Scalar
variable {W : Type} [Scalar W]

theorem scZero_perm {p q : Pop W} (h : C02.SpeciesPerm p q) (hz : ScZero p) : ScZero q := by
  intro s' hs' x hx
  obtain ⟨s, hs, hxs⟩ := h.mem s' hs' x hx
  exact hz s hs x hxs

theorem refsOkPop_perm {p q : Pop W} (h : C02.SpeciesPerm p q) (hr : RefsOkPop p) : RefsOkPop q := by
  intro s' hs' x hx
  obtain ⟨s, hs, hxs⟩ := h.mem s' hs' x hx
  exact hr s hs x hxs

/-- **C10, end to end, after a within-species re-ordering.**  The hypotheses of `nextEpoch_keeps_champion` on `p`;
    the epoch (and its preparation phase) run on the re-ordered `q`: for every species of the prepared population whose
    quota exceeds five, its first organism - the champion `Species.reproduce` clones, chosen AFTER the epoch's own sort -
    is carried unmodified into the new population. -/
theorem nextEpoch_keeps_champion_perm (o : EpochOpts W) (gen : Int) (p q p' p1 : Pop W) (ex : ExecState) (rs rs1 rs' : List Nat)
    (hu : C02.UidInv p) (hnd : (p.species.map (·.id)).Nodup) (hz : ScZero p) (hrefs : RefsOkPop p)
    (hpq : C02.SpeciesPerm p q)
    (hprep : prepareForReproduction o q rs = .ok ((p1, ex), rs1))
    (h : nextEpoch o gen q rs = .ok (p', rs')) :
    ∀ s ∈ p1.species, s.expectedOffspring > 5 → ∃ champ, s.orgs.head? = some champ ∧
      ∃ s' ∈ p'.species, ∃ x ∈ s'.orgs, x.uid ∈ p'.organisms ∧ IsCopy champ x :=
  nextEpoch_keeps_champion o gen q p' p1 ex rs rs1 rs' (hpq.sameShape.uidInv hu) (by rw [hpq.sameShape.ids]; exact hnd)
    (scZero_perm hpq hz) (refsOkPop_perm hpq hrefs) hprep h

end GoNeat.C10

namespace GoNeat.C09
open GoNeat Scalar
variable {W : Type} [Scalar W]

/-- **C09 (expected offspring) after a within-species re-ordering**: the hypothesis (unique species ids) on `p`; the
    statement is about the population `q` that enters the preparation phase (its species, its mean) -/
theorem prepare_expected_full_perm (o : EpochOpts W) (p q p1 : Pop W) (ex : ExecState) (rs rs' : List Nat)
    (hnd : (p.species.map (·.id)).Nodup) (hpq : C02.SpeciesPerm p q)
    (h : prepareForReproduction o q rs = .ok ((p1, ex), rs')) :
    ∀ s1 ∈ p1.species, ∃ s0 ∈ q.species, s1.id = s0.id ∧ ∀ x ∈ s1.orgs, ∃ x0 ∈ s0.orgs, x.uid = x0.uid ∧
      x.originalFitness = x0.fitness ∧ x.fitness = adjustedFitness o s0 x.originalFitness ∧
      x.expectedOffspring =
        (if eq (popMeanAdjusted o q) zero then x0.expectedOffspring else div x.fitness (popMeanAdjusted o q)) :=
  prepare_expected_full o q p1 ex rs rs' (by rw [hpq.sameShape.ids]; exact hnd) h

end GoNeat.C09

namespace GoNeat.C01
open GoNeat Scalar
variable {W : Type} [Scalar W]

/-- **C01, epoch closure, after an evaluation that may re-order inside the species**: the pool invariant on `p`, the
    epoch on `q` -/
theorem nextEpoch_closed_perm (X : List (Genome W)) (o : EpochOpts W) (generation : Int) (p q p' : Pop W) (rs rs' : List Nat)
    (hP : PoolOk p.reg (X ++ genomesOfPop p)) (hpq : C02.EvalOkPerm p q) (h : nextEpoch o generation q rs = .ok (p', rs')) :
    PoolOk p'.reg (X ++ genomesOfPop p') := by
  refine nextEpoch_closed X o generation q p' rs rs' ?_ h
  obtain ⟨_, hg, hreg⟩ := hpq
  rw [hreg]
  apply hP.subset
  intro g hg'
  rcases List.mem_append.mp hg' with hx | hx
  · exact List.mem_append_left _ hx
  · exact List.mem_append_right _ (hg g hx)

end GoNeat.C01
