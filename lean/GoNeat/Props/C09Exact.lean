/-
  Property C09, Kind B: the carry of fractional offspring in exact ordered-field arithmetic (`exactScalar`).
  float64 rounding of the same computation is outside these theorems; the integer fix-up that follows it is
  proved for every outcome in `Props/C09.lean`.
-/
import GoNeat.Props.C09
import GoNeat.Proofs.Exact

namespace GoNeat.C09
open GoNeat
variable {K : Type} [Field K] [LinearOrder K] [IsStrictOrderedRing K] [FloorRing K]

theorem fmod1_nonneg (x : K) (h : 0 ≤ x) : (Scalar.fmod1 x : K) = Int.fract x := by
  show (if 0 ≤ x then Int.fract x else -(Int.fract (-x))) = Int.fract x
  simp [h]

/-- **C09 (carry lemma, Kind B).** Processing the expected-offspring values `es ≥ 0` of a species with incoming
    carry `0 ≤ skim < 1`: the whole offspring counted plus the outgoing carry equals the incoming carry plus the
    sum of the expected offspring, and the outgoing carry is again in `[0,1)`. -/
theorem countOffspringList_carry (es : List K) (hnn : ∀ e ∈ es, 0 ≤ e) (skim : K) (h0 : 0 ≤ skim) (h1 : skim < 1) (acc : Int) :
    (((countOffspringList es skim acc).1 : Int) : K) + (countOffspringList es skim acc).2 = (acc : K) + skim + es.sum ∧
    0 ≤ (countOffspringList es skim acc).2 ∧ (countOffspringList es skim acc).2 < 1 := by
  induction es generalizing skim acc with
  | nil => simp [countOffspringList, h0, h1]
  | cons e es ih =>
    have he : 0 ≤ e := hnn e (by simp)
    have hes : ∀ x ∈ es, 0 ≤ x := fun x hx => hnn x (by simp [hx])
    unfold countOffspringList
    simp only [Exact.floorInt_eq, Exact.add_eq, Exact.ge_eq, Exact.one_eq, Exact.floor_eq, Exact.sub_eq, fmod1_nonneg e he]
    have hf0 := Int.fract_nonneg e
    have hf1 := Int.fract_lt_one e
    have hsplit : (⌊e⌋ : K) + Int.fract e = e := Int.floor_add_fract e
    by_cases hge : (1 : K) ≤ skim + Int.fract e
    · simp only [hge, decide_true, ↓reduceIte]
      have hs0 : 0 ≤ skim + Int.fract e - (⌊skim + Int.fract e⌋ : K) := by
        have := Int.fract_nonneg (skim + Int.fract e); unfold Int.fract at this; exact this
      have hs1 : skim + Int.fract e - (⌊skim + Int.fract e⌋ : K) < 1 := by
        have := Int.fract_lt_one (skim + Int.fract e); unfold Int.fract at this; exact this
      obtain ⟨ih1, ih2, ih3⟩ := ih hes _ hs0 hs1 (acc + ⌊e⌋ + ⌊((⌊skim + Int.fract e⌋ : Int) : K)⌋)
      refine ⟨?_, ih2, ih3⟩
      rw [ih1]
      simp only [Int.floor_intCast, List.sum_cons]
      push_cast
      linarith
    · simp only [hge, decide_false, Bool.false_eq_true, ↓reduceIte]
      have hlt : skim + Int.fract e < 1 := lt_of_not_ge hge
      obtain ⟨ih1, ih2, ih3⟩ := ih hes _ (by linarith) hlt (acc + ⌊e⌋)
      refine ⟨?_, ih2, ih3⟩
      rw [ih1]
      simp only [List.sum_cons]
      push_cast
      linarith

/-- per species: the quota differs from the sum of its members' expected offspring by less than one -/
theorem species_quota_close (s : Species K) (skim : K) (h0 : 0 ≤ skim) (h1 : skim < 1)
    (hnn : ∀ o ∈ s.orgs, 0 ≤ o.expectedOffspring) :
    |(((countOffspring s skim).1 : Int) : K) - (s.orgs.map (·.expectedOffspring)).sum| < 1 := by
  unfold countOffspring
  have hnn' : ∀ e ∈ s.orgs.map (·.expectedOffspring), 0 ≤ e := by
    intro e he; obtain ⟨o, ho, rfl⟩ := List.mem_map.mp he; exact hnn o ho
  obtain ⟨c1, c2, c3⟩ := countOffspringList_carry _ hnn' skim h0 h1 0
  rw [abs_lt]
  constructor <;> (push_cast at c1; linarith)

/-- sum of the expected offspring of all members of all species -/
def expectedTotal (ss : List (Species K)) : K := (ss.map (fun s => (s.orgs.map (·.expectedOffspring)).sum)).sum

/-- **C09 (quotas before the fix-up, Kind B).** Over the whole species list the quotas plus the final carry equal the
    total expected offspring; the final carry is in `[0,1)`. -/
theorem assignQuotas_total (ss : List (Species K)) (hnn : ∀ s ∈ ss, ∀ o ∈ s.orgs, 0 ≤ o.expectedOffspring)
    (skim : K) (h0 : 0 ≤ skim) (h1 : skim < 1) (tot : Int) :
    (((assignQuotas ss skim tot).2.2 : Int) : K) + (assignQuotas ss skim tot).2.1 = (tot : K) + skim + expectedTotal ss ∧
    0 ≤ (assignQuotas ss skim tot).2.1 ∧ (assignQuotas ss skim tot).2.1 < 1 ∧
    (assignQuotas ss skim tot).2.2 = tot + quotaSum (assignQuotas ss skim tot).1 := by
  induction ss generalizing skim tot with
  | nil => simp [assignQuotas, expectedTotal, h0, h1]
  | cons s ss ih =>
    have hnn' : ∀ e ∈ s.orgs.map (·.expectedOffspring), 0 ≤ e := by
      intro e he; obtain ⟨o, ho, rfl⟩ := List.mem_map.mp he; exact hnn s (by simp) o ho
    obtain ⟨c1, c2, c3⟩ := countOffspringList_carry _ hnn' skim h0 h1 0
    unfold assignQuotas
    simp only
    obtain ⟨i1, i2, i3, i4⟩ := ih (fun t ht => hnn t (by simp [ht])) (countOffspring s skim).2 c2 c3 (tot + (countOffspring s skim).1)
    refine ⟨?_, i2, i3, ?_⟩
    · rw [i1]
      unfold countOffspring at *
      simp only [expectedTotal, List.map_cons, List.sum_cons]
      push_cast at c1 ⊢
      simp only [expectedTotal] at *
      linarith
    · rw [i4]; simp only [quotaSum_cons]; omega

/-- **C09 (raw total, Kind B).** If the expected offspring of all organisms sum to the population size `n`
    (they do: each is `fitness / mean fitness`), the raw quotas total exactly `n` — so in exact arithmetic the
    make-up offspring is never needed. -/
theorem quotas_total_exact (ss : List (Species K)) (hnn : ∀ s ∈ ss, ∀ o ∈ s.orgs, 0 ≤ o.expectedOffspring)
    (n : Int) (hsum : expectedTotal ss = (n : K)) :
    quotaSum (assignQuotas ss 0 0).1 = n := by
  obtain ⟨h1, h2, h3, h4⟩ := assignQuotas_total ss hnn 0 (le_refl 0) zero_lt_one 0
  rw [hsum] at h1
  simp only [Int.cast_zero, zero_add] at h1 h4
  have hz : ((assignQuotas ss (0 : K) 0).2.2 : K) - (n : K) = -(assignQuotas ss (0 : K) 0).2.1 := by linarith
  have hlt : |(((assignQuotas ss (0 : K) 0).2.2 - n : Int) : K)| < 1 := by
    push_cast; rw [hz, abs_neg, abs_of_nonneg h2]; exact h3
  have : (assignQuotas ss (0 : K) 0).2.2 - n = 0 := by
    have h' : |(assignQuotas ss (0 : K) 0).2.2 - n| < 1 := by exact_mod_cast hlt
    exact Int.abs_lt_one_iff.mp h'
  omega

end GoNeat.C09
