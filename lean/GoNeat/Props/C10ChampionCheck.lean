/-
  Property C10, champion queries: the MODEL's answers pass the executable predicates the driver evaluates on the
  implementation's answers (Spec/Champion.lean) - so a predicate failure on Go's output is a difference from what the
  theorems of Props/C10Champion.lean establish, never a demand beyond them.
    `publicWhy_model`   `FindChampion` (nil, or the member at the position the loop stops at)
    `damagedWhy_model`  `CheckChampionChildDamaged` of every member
-/
import GoNeat.Props.C10Champion
import GoNeat.Spec.Champion

namespace GoNeat.C10
open GoNeat Scalar Champion ChampionSpec
variable {W : Type} [Scalar W]

theorem any_false_of_forall {α} (l : List α) (p : α → Bool) (h : ∀ x ∈ l, p x = false) : l.any p = false := by
  induction l with
  | nil => rfl
  | cons a l ih =>
    simp only [List.any_cons, Bool.or_eq_false_iff]
    exact ⟨h a List.mem_cons_self, ih (fun x hx => h x (List.mem_cons_of_mem _ hx))⟩

theorem publicWhy_model (hw : C08.StrictWeak W) (s : Species W) :
    match findChampionPublic s with
    | none => publicWhy s.orgs none = ""
    | some y => ∃ k, s.orgs[k]? = some y ∧ publicWhy s.orgs (some k) = "" := by
  cases hp : findChampionPublic s with
  | none =>
    have h := (findChampionPublic_none_iff hw s).mp hp
    show publicWhy s.orgs none = ""
    unfold publicWhy
    rw [any_false_of_forall _ _ h]
    rfl
  | some y =>
    obtain ⟨_, _, hmax, pre, post, hl, _⟩ := findChampionPublic_spec hw s y hp
    refine ⟨pre.length, ?_, ?_⟩
    · rw [hl]; simp
    · have hk : s.orgs[pre.length]? = some y := by rw [hl]; simp
      unfold publicWhy
      simp only [hk]
      rw [any_false_of_forall _ _ hmax]
      rfl

theorem damagedWhy_model (s : Species W) : damagedWhy s.orgs (s.orgs.map checkChampionChildDamaged) = "" := by
  unfold damagedWhy
  have : (s.orgs.map checkChampionChildDamaged) = s.orgs.map (fun o => o.isPopChampionChild && lt o.fitness o.highestFitness) := rfl
  rw [this]
  simp

end GoNeat.C10
