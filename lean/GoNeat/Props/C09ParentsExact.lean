/-
  Property C09, Kind B: in exact arithmetic the number of parents kept, `floor(survival_thresh*n + 1)`, is
  `floor(survival_thresh*n) + 1`, at least one for a non-negative threshold, and at most `n` only cuts when
  `survival_thresh*n + 1 < n`.
-/
import GoNeat.Props.C09Parents
import GoNeat.Proofs.Exact

namespace GoNeat.C09
open GoNeat
variable {K : Type} [Field K] [LinearOrder K] [IsStrictOrderedRing K] [FloorRing K]

theorem numParents_exact (o : EpochOpts K) (n : Nat) : numParents o n = ⌊o.survivalThresh * (n : K)⌋ + 1 := by
  unfold numParents
  simp only [Exact.floorInt_eq, Exact.add_eq, Exact.mul_eq, Exact.ofInt_eq, Exact.one_eq, Int.cast_natCast]
  exact Int.floor_add_one _

theorem numParents_pos (o : EpochOpts K) (n : Nat) (h : 0 ≤ o.survivalThresh) : 1 ≤ numParents o n := by
  rw [numParents_exact]
  have : 0 ≤ ⌊o.survivalThresh * (n : K)⌋ := Int.floor_nonneg.mpr (mul_nonneg h (Nat.cast_nonneg n))
  omega

end GoNeat.C09
